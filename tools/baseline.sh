#!/bin/bash
# Runs the repository's own test suite with the verif guard OFF and compares the result
# with the pinned baseline (/root/.vp/BASELINE.json stable_pass). Exit 0 iff every stable test passes.
set -u
export GOFLAGS=-mod=mod GOPROXY=off GOSUMDB=off GOTOOLCHAIN=local
OUT=$(mktemp /tmp/baseline.XXXXXX.json)
# event::TestTransitions is timing dependent (two of its cases are listed as flaky in BASELINE.json); allow 3 attempts
for attempt in 1 2 3; do
(cd "${REPO_DIR:-/repo}" && go test -mod=mod -json -vet=off -count=1 -timeout 25m ./... > "$OUT" 2>/dev/null)
python3 - "$OUT" <<'PY'
import json,sys
base=json.load(open('/root/.vp/BASELINE.json'))
stable=set(base['stable_pass'])
res={}
for l in open(sys.argv[1]):
    try: e=json.loads(l)
    except Exception: continue
    if e.get('Action') in ('pass','fail') and e.get('Test'):
        res[e['Package']+'::'+e['Test']]=e['Action']
missing=[t for t in stable if res.get(t)!='pass']
print("baseline: %d stable, %d passing now, %d not passing"%(len(stable),len(stable)-len(missing),len(missing)))
for t in missing: print("  NOT PASSING:",t,res.get(t))
sys.exit(1 if missing else 0)
PY
rc=$?
[ $rc -eq 0 ] && break
done
rm -f "$OUT"
git -C "${REPO_DIR:-/repo}" checkout -- go.sum 2>/dev/null
exit $rc
