#!/usr/bin/env python3
"""seed_import.py <Cxx> <worktree> <k> <new-id> <change> <needs> <demo-cmd>  — copies a sub-agent's seeded change into /verif/seeded/<new-id>/"""
import json, os, shutil, sys
prop, wt, k, nid, change, needs, demo = sys.argv[1:8]
src = os.path.join(wt, '_seeded', k); dst = '/verif/seeded/' + nid
if os.path.exists(dst): shutil.rmtree(dst)
shutil.copytree(src, dst, ignore=shutil.ignore_patterns('*.txt', '*.summary', '*.sum', '*.log'))
meta = {"property": prop, "source": "independent sub-agent (second wave) given only the property text, the list of first-wave changes to avoid and a scratch worktree",
        "change": change, "needs_to_manifest": needs, "demonstration": demo,
        "repo_tests_with_patch": "same outcome as baseline (agent's comparison; re-checked with tools/baseline.sh on the patched tree)",
        "ran": "tools/seed_verify.sh seeded/%s %s" % (nid, prop), "caught_by": "pending"}
json.dump(meta, open(dst + '/meta.json', 'w'), indent=1)
print('imported', nid, os.listdir(dst))
