#!/usr/bin/env python3
"""Locked edits of /verif/known_findings.json.
  kf_edit.py fix <property> <finding-id> <commit> [<new witness path>]   move an open finding to 'fixed'
  kf_edit.py addfixed <property> <commit> <what> <witness>               add a fixed entry
  kf_edit.py list
"""
import fcntl, json, os, sys
path = '/verif/known_findings.json'
with open(path + '.lock', 'w') as lk:
    fcntl.flock(lk, fcntl.LOCK_EX)
    d = json.load(open(path))
    cmd = sys.argv[1]
    if cmd == 'list':
        for f in d['findings']: print('OPEN ', f['property'], f['id'], '|', f.get('excluded_by',''), '|', f['witness'])
        for f in d['fixed']: print('FIXED', f['property'], f['commit'], '|', f.get('witness',''))
        sys.exit(0)
    if cmd == 'fix':
        prop, fid, commit = sys.argv[2:5]
        wit = sys.argv[5] if len(sys.argv) > 5 else None
        m = [f for f in d['findings'] if f['property'] == prop and f['id'] == fid]
        if not m: print('no such open finding'); sys.exit(1)
        d['findings'] = [f for f in d['findings'] if not (f['property'] == prop and f['id'] == fid)]
        for f in m:
            d['fixed'].append({"property": prop, "commit": commit, "what": f['what'], "witness": wit or f['witness']})
    elif cmd == 'addfixed':
        prop, commit, what, wit = sys.argv[2:6]
        d['fixed'] = [f for f in d['fixed'] if not (f['property'] == prop and f['commit'] == commit and f.get('witness') == wit)]
        d['fixed'].append({"property": prop, "commit": commit, "what": what, "witness": wit})
    tmp = path + '.tmp'
    json.dump(d, open(tmp, 'w'), indent=1)
    os.replace(tmp, path)
print('ok')
