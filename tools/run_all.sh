#!/bin/bash
# usage: tools/run_all.sh [quick|thorough] [seed] [ids...]  — runs the checks one after the other and prints a summary line each
TIER=${1:-quick}; SEED=${2:-1}; shift 2 2>/dev/null
IDS=${@:-$(ls /verif/harness/props | tr 'c' 'C')}
for id in $IDS; do
  t0=$(date +%s)
  out=$(cd /verif && VERIF_SEED=$SEED ./check $id $TIER 2>&1); rc=$?
  echo "$id rc=$rc $(( $(date +%s) - t0 ))s | $(echo "$out" | grep -E '^property=' | cut -c1-140)"
  echo "$out" | grep -E "VIOLATION|INCONCLUSIVE|BUILD-FAILED|oracle=" | cut -c1-260 | head -6
  echo "$out" | grep -c "KNOWN-FINDING" | sed 's/^/   known-finding lines: /'
done
