#!/bin/bash
# usage: tools/mutant_run.sh <ID> <patch-file> [quick|thorough]
# Runs a property's check against a scratch copy of /repo with <patch-file> applied
# (git apply). /repo and /verif are never modified; the scratch copy is removed afterwards.
# Exit code is the check's (1 = the mutant was caught), 3 = the patch did not apply.
ID=$1; PATCH=$(readlink -f "$2"); TIER=${3:-quick}
S=/dev/shm/mut-$$-$RANDOM
mkdir -p "$S/verif"
rsync -a --exclude event/test_dbpath /repo/ "$S/repo/"
(cd "$S/repo" && git apply "$PATCH") || { echo "patch does not apply"; rm -rf "$S"; exit 3; }
rsync -a --exclude .build --exclude .work --exclude replays-out --exclude .git /verif/ "$S/verif/"
sed -i "s#=> /repo#=> $S/repo#" "$S/verif/harness/go.mod"
VERIF_ROOT="$S/verif" VERIF_REPO="$S/repo" "$S/verif/check" "$ID" "$TIER"; rc=$?
if [ -n "$KEEP_REPLAYS" ]; then mkdir -p "$KEEP_REPLAYS"; cp "$S"/verif/replays-out/* "$KEEP_REPLAYS"/ 2>/dev/null; fi
rm -rf "$S"
exit $rc
