#!/usr/bin/env python3
"""Regenerates the seeded-changes table of DESIGN.md (between the SEEDED-TABLE markers) from seeded/*/meta.json."""
import json, glob
rows = []
for mpath in sorted(glob.glob('/verif/seeded/*/meta.json')):
    m = json.load(open(mpath)); sid = mpath.split('/')[-2]
    ch = m['change']; ch = ch if len(ch) < 150 else ch[:147] + '…'
    cb = m.get('caught_by', '')
    first = 'missed' if cb.startswith('missed') else ('weak' if cb.startswith('caught weakly') else ('superseded' if cb.startswith('superseded') else ('pending' if cb.startswith('pending') else 'caught')))
    now = 'quick tier VIOLATION' if 'VIOLATION' in cb else cb[:90]
    if first == 'superseded':
        now = 'superseded by a repair (see meta.json)'
    rows.append('| %s | %s | %s | %s |' % (sid, ch.replace('|', '/'), first, now))
s = open('/verif/DESIGN.md').read()
a, b = s.index('<!-- SEEDED-TABLE-BEGIN -->'), s.index('<!-- SEEDED-TABLE-END -->')
s = s[:a] + '<!-- SEEDED-TABLE-BEGIN -->\n| id | change | first run | now |\n|---|---|---|---|\n' + '\n'.join(rows) + '\n' + s[b:]
open('/verif/DESIGN.md', 'w').write(s)
print(len(rows), 'rows')
