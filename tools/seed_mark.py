#!/usr/bin/env python3
"""seed_mark.py <seed-id> <caught_by text>  — records the outcome of running the checks against a seeded change"""
import json, sys
p = '/verif/seeded/%s/meta.json' % sys.argv[1]
m = json.load(open(p)); m['caught_by'] = sys.argv[2]
json.dump(m, open(p, 'w'), indent=1); print('ok', sys.argv[1])
