#!/usr/bin/env python3
"""Append an open known finding to /verif/known_findings.json (atomic, locked).
usage: kf_add.py <property> <slug> <what> <signature-prefix> <witness relative to /verif> [<exclusion tag>]"""
import fcntl, json, os, sys
if len(sys.argv) < 6:
    print(__doc__); sys.exit(2)
prop, slug, what, sig, wit = sys.argv[1:6]
excl = sys.argv[6] if len(sys.argv) > 6 else ""
path = '/verif/known_findings.json'
with open(path + '.lock', 'w') as lk:
    fcntl.flock(lk, fcntl.LOCK_EX)
    d = json.load(open(path))
    d['findings'] = [f for f in d['findings'] if not (f['property'] == prop and f['id'] == slug)]
    d['findings'].append({"property": prop, "id": slug, "what": what, "signature": sig, "witness": wit, "excluded_by": excl})
    tmp = path + '.tmp'
    json.dump(d, open(tmp, 'w'), indent=1)
    os.replace(tmp, path)
print("registered", prop, slug)
