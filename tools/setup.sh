#!/bin/bash
# Offline setup: build the supervisor and warm the Go build cache for every property package.
set -e
export GOFLAGS=-mod=mod GOPROXY=off GOSUMDB=off GOTOOLCHAIN=local
cd /verif/harness
[ -s go.sum ] || cp /repo/go.sum go.sum
mkdir -p /verif/.build
go build -o /verif/.build/check ./cmd/check
for d in props/*/; do
  id=$(basename "$d")
  go test -c -tags verif -ldflags=-checklinkname=0 -o /verif/.build/$id.test ./props/$id >/dev/null 2>&1 || echo "warn: $id did not build"
done
echo setup done
