#!/usr/bin/env python3
"""Regenerates /verif/MANIFEST.json from tools/claims.json (the per-property claims) and properties.jsonl."""
import json, subprocess
props = [json.loads(l) for l in open('/verif/properties.jsonl')]
claims = json.load(open('/verif/tools/claims.json'))
hooks = ["aff5b0b"]
m = {
 "version": 1,
 "setup_cmd": "/verif/tools/setup.sh",
 "hooks": {"guard": "verif",
           "enable": "go test -tags verif -ldflags=-checklinkname=0 (build tag 'verif': new files app/verif_on.go, app/verif_off.go, app/node/verif_on.go, identity/verif_on.go plus two one-line call sites in app/application.go Prepare() and app/controller.go handlePanic whose non-verif twins are no-ops)",
           "baseline_off_cmd": "/verif/tools/baseline.sh", "source_commits": hooks, "add_only": True},
 "engines": [{"name": "harness", "path": "/verif/harness", "serves_properties": sorted(k for k in claims if claims[k].get("ready", True)),
              "kind_free_text": "Go module: in-process ABCI node simulator (sim), transaction builders (txgen), history generator (hist), pgregory.net/rapid property tests + native go fuzz targets per property (props/cXX), supervisor (cmd/check) that rebuilds from /repo, shards, merges evidence and maps outcomes to exit codes"}],
 "checks": [], "not_applicable": [],
 "notes": "All checks: ./check <ID> quick|thorough (cwd /verif); exit 0 held / 1 with VIOLATION line / 2 inconclusive (build failure, wall-clock guard, non-reproducible worker death). Known findings and fixed defects: /verif/known_findings.json. Per-property configuration: harness/props/cXX/check.json. Sensitivity mutants: harness/mutants, seeded changes: seeded/.",
}
for p in props:
    i = p['id']
    if i in claims and claims[i].get('ready', True):
        c = claims[i]
        chk = {"property_id": i, "quick_cmd": "./check %s quick" % i, "thorough_cmd": "./check %s thorough" % i,
               "evidence_file": "/verif/evidence/%s.json" % i, "replay_cmd_template": "./check %s --replay {path}" % i,
               "engine": "harness", "level_claimed": c["level"], "level_note": c["note"], "technique": c["technique"]}
        m["checks"].append(chk)
    else:
        m["not_applicable"].append({"property_id": i, "reason": "check not finished yet in this build (the technique applies; design in DESIGN.md section 7)"})
json.dump(m, open('/verif/MANIFEST.json', 'w'), indent=1)
print("claimed:", sorted(claims), "unclaimed:", [x['property_id'] for x in m['not_applicable']])
