#!/bin/bash
# usage: tools/mutant_replay.sh <ID> <patch-file> <replay-file>   (like mutant_run.sh but replays one case)
ID=$1; PATCH=$(readlink -f "$2"); REPLAY=$(readlink -f "$3")
S=/dev/shm/mutr-$$-$RANDOM
mkdir -p "$S/verif"
rsync -a --exclude event/test_dbpath /repo/ "$S/repo/"
(cd "$S/repo" && git apply "$PATCH") || { echo "patch does not apply"; rm -rf "$S"; exit 3; }
rsync -a --exclude .build --exclude .work --exclude replays-out --exclude .git /verif/ "$S/verif/"
sed -i "s#=> /repo#=> $S/repo#" "$S/verif/harness/go.mod"
VERIF_ROOT="$S/verif" VERIF_REPO="$S/repo" "$S/verif/check" "$ID" --replay "$REPLAY"; rc=$?
rm -rf "$S"
exit $rc
