#!/bin/bash
# usage: tools/seed_verify.sh <dir containing patch.diff> [check ids...]
# 1. applies patch.diff to a fresh scratch worktree of /repo HEAD, builds, runs the repository's baseline suite there
# 2. runs the given property checks (quick tier) against the patched copy via mutant_run.sh
# Prints a summary; never touches /repo's working tree.
D=$(readlink -f "$1"); shift
export GOFLAGS=-mod=mod GOPROXY=off GOSUMDB=off GOTOOLCHAIN=local
W=/tmp/sv-$$
git -C /repo worktree add -q "$W" HEAD || exit 2
cleanup() { git -C /repo worktree remove --force "$W" 2>/dev/null; rm -rf "$W"; }
trap cleanup EXIT
if ! (cd "$W" && git apply "$D/patch.diff"); then echo "SEED: patch does not apply to HEAD"; exit 3; fi
if ! (cd "$W" && go build ./... 2>&1 | tail -5); then echo "SEED: build failed"; exit 3; fi
(cd "$W" && go vet -tags verif ./app/ >/dev/null 2>&1)
if [ -z "$SKIP_BASELINE" ]; then echo "SEED: baseline on patched tree:"; REPO_DIR="$W" /verif/tools/baseline.sh | tail -3; fi
for id in "$@"; do
  echo "SEED: running check $id against the patched tree"
  /verif/tools/mutant_run.sh "$id" "$D/patch.diff" quick 2>&1 | grep -E "VIOLATION|property=|INCONCLUSIVE|BUILD-FAILED" | head -6
done
