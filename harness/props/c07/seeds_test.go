package c07

import (
	"encoding/json"
	"math/big"
	"os"
	"path/filepath"
	"testing"

	agov "github.com/Oneledger/protocol/action/governance"
	"github.com/Oneledger/protocol/data/balance"
	"github.com/Oneledger/protocol/data/governance"

	"verif/hist"
	"verif/run"
	"verif/sim"
	"verif/txgen"
)

func big10(s string) *big.Int { b, _ := new(big.Int).SetString(s, 10); return b }

type seedBuilder struct {
	p    sim.Params
	g    *sim.Genesis
	tr   *hist.Trace
	pend []hist.Step
	h    int64
	n    int
}

func newSeed(name string, nvals int) *seedBuilder {
	p := sim.DefaultParams()
	p.Seed = name
	p.ValPower = p.ValPower[:nvals]
	p.Witnesses = nil
	p.Evidence.BlockVotesDiff = 1000 // keep the missed-votes logic out of the way
	p.Evidence.MinVotesRequired = 1
	s := &seedBuilder{p: p, g: sim.BuildGenesis(p), tr: &hist.Trace{Params: p, Roles: []sim.Role{{ValIdx: 0}}, Profile: "hand:" + name}}
	// the vote records of a proposal are set up for the validators the evidence store has seen voting
	s.block()
	s.block()
	return s
}

func (s *seedBuilder) memo() string { s.n++; return "seed" + string(rune('a'+s.n)) }

func (s *seedBuilder) check(at string, tx txgen.Tx) {
	s.pend = append(s.pend, hist.Step{Kind: "check", At: at, Tx: tx.Bytes, TxKind: tx.Kind, Replica: 1})
}

func (s *seedBuilder) block(txs ...txgen.Tx) {
	spec := sim.BlockSpec{GapSecs: 5}
	for _, x := range txs {
		spec.Txs = append(spec.Txs, x.Bytes)
	}
	s.tr.Steps = append(s.tr.Steps, s.pend...)
	s.pend = nil
	s.tr.Steps = append(s.tr.Steps, hist.BlockStep(spec, txs))
	s.h++
}

func (s *seedBuilder) create(id governance.ProposalID, typ governance.ProposalType, cfg string) txgen.Tx {
	u := s.g.U.Users[0]
	h := s.h + 1
	return txgen.ProposalCreate(u, agov.CreateProposal{ProposalID: id, ProposalType: typ, Headline: "h", Description: "d",
		Proposer: u.Addr, InitialFunding: txgen.Amt("OLT", big10(s.p.PropInitialFunding)), FundingDeadline: h + s.p.PropFundingDL,
		FundingGoal: balance.NewAmountFromBigInt(big10(s.p.PropFundingGoal)), VotingDeadline: h + s.p.PropFundingDL + s.p.PropVotingDL,
		PassPercentage: s.p.PropPassPct, ConfigUpdate: cfg}, txgen.DefaultFee(), s.memo())
}

func (s *seedBuilder) fund(id governance.ProposalID) txgen.Tx {
	u := s.g.U.Users[1]
	return txgen.ProposalFund(u, id, u.Addr, txgen.Amt("OLT", big10(s.p.PropFundingGoal)), txgen.DefaultFee(), s.memo())
}

func (s *seedBuilder) vote(id governance.ProposalID, val int) txgen.Tx {
	v := s.g.U.Vals[val]
	return txgen.ProposalVote(id, v.Stake.Addr, v.Key.Addr, governance.OPIN_POSITIVE, txgen.DefaultFee(), s.memo(), v.Stake, v.Key)
}

// TestMakeSeeds writes hand-built scenario traces as replay files (run with VERIF_MAKE_SEEDS=<dir>).
func TestMakeSeeds(t *testing.T) {
	dir := os.Getenv("VERIF_MAKE_SEEDS")
	if dir == "" {
		t.Skip("VERIF_MAKE_SEEDS not set")
	}
	_ = os.MkdirAll(dir, 0o755)
	fee := txgen.DefaultFee()

	// 1. minimal witness of the known finding: one validator; a general proposal is created, funded
	// and voted yes (it passes in block 3); any account's PROPOSAL_FINALIZE is checked between
	// Commit(3) and BeginBlock(4); block 4 is empty.
	{
		s := newSeed("kf-finalize", 1)
		id := txgen.ProposalID("kf1")
		s.block(s.create(id, governance.ProposalTypeGeneral, ""), s.fund(id))
		s.block(s.vote(id, 0)) // votes are counted on committed vote records: not in the funding block
		u := s.g.U.Users[5]
		s.check("before-begin", txgen.ProposalFinalize(u, id, u.Addr, fee, s.memo()))
		s.block()
		write(t, dir, "kf-finalize-skipped-after-checktx.json", s.tr)
	}
	// 2. the same defect through the second un-aimed singleton (governance store): a config-update
	// proposal raising the minimum fee price passes; the checked PROPOSAL_FINALIZE updates the fee
	// option in the check state, BeginBlock copies it from there, and a SEND priced at the old
	// minimum is rejected on that replica only.
	{
		s := newSeed("kf-feeopt", 1)
		id := txgen.ProposalID("kf2")
		s.block(s.create(id, governance.ProposalTypeConfigUpdate, "feeOption.minFeeDecimal:8"))
		s.block(s.fund(id))
		s.block(s.vote(id, 0))
		u := s.g.U.Users[5]
		s.check("before-begin", txgen.ProposalFinalize(u, id, u.Addr, fee, s.memo()))
		a, b := s.g.U.Users[2], s.g.U.Users[3]
		s.block(txgen.Send(a, a.Addr, b.Addr, txgen.Amt("OLT", big.NewInt(1000)), fee, s.memo()))
		s.block()
		write(t, dir, "kf-feeoption-read-from-check-state.json", s.tr)
	}
	// 2b. fixed by 30e400e: the fee-option update function (action/govUpdate.go feeOptionminFeeDecimal) calls
	// ctx.FeePool.SetupOpt on the process-wide fee store also on the CheckTx path. A config-update proposal
	// raising the minimum fee has passed (finalisation is due at the end of block 5); PROPOSAL_FINALIZE is
	// checked right after BeginBlock(5); the SEND delivered next in block 5 is rejected on that replica only.
	{
		s := newSeed("kf-feeopt-mid", 1)
		id := txgen.ProposalID("kf2b")
		s.block(s.create(id, governance.ProposalTypeConfigUpdate, "feeOption.minFeeDecimal:8"), s.fund(id))
		s.block(s.vote(id, 0))
		u := s.g.U.Users[5]
		s.check("after-begin", txgen.ProposalFinalize(u, id, u.Addr, fee, s.memo()))
		a, b := s.g.U.Users[2], s.g.U.Users[3]
		s.block(txgen.Send(a, a.Addr, b.Addr, txgen.Amt("OLT", big.NewInt(1000)), fee, s.memo()))
		s.block()
		write(t, dir, "kf-checked-finalize-sets-fee-option.json", s.tr)
	}
	// 2c. regression shape that must pass: CheckTx of a valid SEND that is never delivered, then a block carrying a
	// twin with the same RawTx and a tampered signature; both replicas must reject the twin.
	{
		s := newSeed("ok-forged", 1)
		a, b := s.g.U.Users[2], s.g.U.Users[3]
		orig := txgen.Send(a, a.Addr, b.Addr, txgen.Amt("OLT", big.NewInt(1000)), fee, s.memo())
		for how := 0; how < 3; how++ {
			twin, ok := forge(orig, how, s.g.U.Users[0])
			if !ok {
				t.Fatal("cannot forge")
			}
			s.check("before-begin", orig)
			s.block(twin)
		}
		s.block()
		write(t, dir, "seed-forged-twin-after-checked-original.json", s.tr)
	}
	// 3. regression shape that must pass: the vote that completes the proposal is checked (as every
	// transaction is) right before the block that carries it. (Keys that exist only in the check
	// state's cache are not iterated, so BeginBlock does not see the proposal as passed.)
	{
		s := newSeed("kf-vote", 1)
		id := txgen.ProposalID("kf3")
		s.block(s.create(id, governance.ProposalTypeGeneral, ""))
		s.block(s.fund(id))
		v := s.vote(id, 0)
		s.check("before-begin", v)
		s.block(v)
		s.block()
		s.block()
		write(t, dir, "seed-completing-vote-checked-before-its-block.json", s.tr)
	}
	// 4. regression shape that must pass: the same checks at boundaries that are followed by a re-aim.
	{
		s := newSeed("ok-mid", 1)
		id := txgen.ProposalID("ok1")
		s.block(s.create(id, governance.ProposalTypeGeneral, ""))
		s.block(s.fund(id))
		s.block(s.vote(id, 0))
		u := s.g.U.Users[5]
		a, b := s.g.U.Users[2], s.g.U.Users[3]
		s.check("after-begin", txgen.ProposalFinalize(u, id, u.Addr, fee, s.memo()))
		s.check("after-tx:0", txgen.ProposalFinalize(u, id, u.Addr, fee, s.memo()))
		s.check("after-end", txgen.ProposalFinalize(u, id, u.Addr, fee, s.memo()))
		s.block(txgen.Send(a, a.Addr, b.Addr, txgen.Amt("OLT", big.NewInt(1000)), fee, s.memo()))
		s.block()
		write(t, dir, "seed-finalize-checked-mid-block.json", s.tr)
	}
}

func write(t *testing.T, dir, name string, tr *hist.Trace) {
	cb, _ := json.Marshal(tr)
	f := run.Failure{Property: "C07", Test: "TestReplay", Oracle: "seed", Message: "hand-built scenario", Sig: "C07/seed", Case: cb}
	b, _ := json.MarshalIndent(f, "", " ")
	if err := os.WriteFile(filepath.Join(dir, name), b, 0o644); err != nil {
		t.Fatal(err)
	}
}
