// Package c07: mempool checks are isolated from consensus execution — a replica that
// receives CheckTx calls at arbitrary ABCI boundaries produces the same consensus
// transcript as a twin that receives none.
package c07

import (
	"encoding/json"
	"fmt"
	"math/big"
	"os"
	"sort"
	"strings"
	"testing"

	abci "github.com/tendermint/tendermint/abci/types"
	"pgregory.net/rapid"

	"github.com/Oneledger/protocol/action"
	agov "github.com/Oneledger/protocol/action/governance"
	"github.com/Oneledger/protocol/data/balance"
	"github.com/Oneledger/protocol/data/governance"
	"github.com/Oneledger/protocol/serialize"

	"verif/hist"
	"verif/run"
	"verif/sim"
	"verif/txgen"
)

// forge returns a variant of tx with identical RawTx whose first signature entry is tampered:
// how = 0 flips a bit of the signature bytes, 1 replaces them by a constant pattern, 2 puts
// another account's public key next to the original signature bytes.
func forge(tx txgen.Tx, how int, other *sim.User) (txgen.Tx, bool) {
	var stx action.SignedTx
	if err := serialize.GetSerializer(serialize.NETWORK).Deserialize(tx.Bytes, &stx); err != nil || len(stx.Signatures) == 0 || len(stx.Signatures[0].Signed) == 0 {
		return tx, false
	}
	sig := append([]byte{}, stx.Signatures[0].Signed...)
	switch how {
	case 0:
		sig[len(sig)/2] ^= 0x04
		stx.Signatures[0].Signed = sig
	case 1:
		for i := range sig {
			sig[i] = byte(0x5a + i)
		}
		stx.Signatures[0].Signed = sig
	default:
		if other == nil || other.Pub.KeyType != stx.Signatures[0].Signer.KeyType || string(other.Pub.Data) == string(stx.Signatures[0].Signer.Data) {
			sig[0] ^= 0x80
			stx.Signatures[0].Signed = sig
		} else {
			stx.Signatures[0].Signer = other.Pub
		}
	}
	b, err := serialize.GetSerializer(serialize.NETWORK).Serialize(stx)
	if err != nil {
		return tx, false
	}
	return txgen.Tx{Bytes: b, Kind: tx.Kind + "#forged", Tags: []string{"forged-signature"}, Signers: tx.Signers}, true
}

// validatorOf returns the validatorAddress member of a staking transaction's payload.
func validatorOf(tx txgen.Tx) string {
	var raw struct {
		Data []byte `json:"data"`
	}
	if json.Unmarshal(tx.Bytes, &raw) != nil {
		return ""
	}
	var m struct {
		ValidatorAddress string
	}
	_ = json.Unmarshal(raw.Data, &m)
	return m.ValidatorAddress
}

// applyExclusions replaces delivered transactions that known findings of other properties exclude:
// STAKE:zero-power-record (C11: a STAKE to a record of power 0 is lost when the block end deletes
// the record; the validator later gets negative power and the fee distribution kills the process).
func applyExclusions(h *run.H, g *hist.Gen, txs []txgen.Tx) []txgen.Tx {
	var zero map[string]bool
	for i, tx := range txs {
		if tx.Kind != "STAKE" {
			continue
		}
		if zero == nil {
			zero = map[string]bool{}
			for _, r := range g.W.ValRecs() {
				if r.Power <= 0 {
					zero[r.Address.String()] = true
				}
			}
		}
		if zero[validatorOf(tx)] && h.Excluded("STAKE:zero-power-record") {
			txs[i] = g.Send()
		}
	}
	return txs
}

// negativePower reports a committed validator record with negative power (the next fee distribution calls logger.Fatal).
func negativePower(w *hist.World) bool {
	for _, r := range w.ValRecs() {
		if r.Power < 0 {
			return true
		}
	}
	return false
}

func TestMain(m *testing.M) {
	run.Quiet()
	os.Exit(m.Run())
}

func debugf(format string, a ...interface{}) {
	if os.Getenv("VERIF_DEBUG") != "" {
		fmt.Fprintf(run.Quiet(), format, a...)
	}
}

type outcome struct {
	oracle string
	class  string
	msg    string
}

// boundary names: before-begin | after-begin | after-tx:<k> | after-end | after-commit
func boundaryClass(at string, ntx int) string {
	switch {
	case at == "before-begin", at == "after-commit", at == "after-end":
		return at
	case at == "after-begin":
		if ntx == 0 {
			return "before-end"
		}
		return "after-begin"
	case strings.HasPrefix(at, "after-tx:"):
		var k int
		fmt.Sscanf(at, "after-tx:%d", &k)
		if k == ntx-1 {
			return "before-end"
		}
		return "mid-txs"
	}
	return "other"
}

func isGovKind(k string) bool { return strings.HasPrefix(k, "PROPOSAL_") || k == "EXPIRE_VOTES" }

// checkWrote decides, from the response alone, whether an accepted CheckTx wrote to the check
// state: a fee was charged (GasUsed > 0: the fee step debited the payer and credited the pool in
// the session that was then committed), or one of the free public-router kinds reported the
// event of its writing branch.
func checkWrote(kind string, r abci.ResponseCheckTx) bool {
	if r.Code != 0 {
		return false
	}
	if r.GasUsed > 0 {
		return true
	}
	for _, ev := range r.Events {
		switch ev.Type {
		case "finalize_proposal_success", "expire_votes_success":
			return true
		}
		if kind == "ETH_REPORT_FINALITY_MINT" {
			return true
		}
	}
	return false
}

type stats struct {
	feats    map[string]int
	ntPoints int // accepted, writing checks right before a block hook
	checks   int
	okChecks int
	blocks   int
}

// execute runs a trace. Replica 0 is the plain twin (no CheckTx, also the generator's view of
// the committed state); replica 1 receives the injected checks. When draw != nil the steps of
// the next block (its check steps followed by the block step) are generated on the fly.
func execute(h *run.H, tr *hist.Trace, draw func(w *hist.World) ([]hist.Step, []txgen.Tx, bool)) (*outcome, *stats) {
	st := &stats{feats: map[string]int{}}
	roles := tr.Roles
	if len(roles) < 1 {
		roles = hist.Roles(tr.Params, 1)
	}
	w, err := hist.NewWorld(tr.Params, []sim.Role{roles[0], roles[0]})
	if err != nil {
		return &outcome{"harness", "", "cannot build world: " + err.Error()}, st
	}
	defer w.Close()
	if _, err := w.Init(); err != nil {
		return &outcome{"init", "", "InitChain: " + err.Error()}, st
	}
	plain, checked := w.R[0], w.R[1]
	if d := sim.CompareInit(plain.LastInit, checked.LastInit); d != "" {
		return &outcome{"init", "", d}, st
	}
	pos := 0
	// Which state object do the application's store singletons point at? Every CheckTx aims them
	// at the current check state, every DeliverTx / EndBlock at the deliver state; Commit replaces
	// the check state object but re-aims nothing. curGov records whether the current check state
	// object holds accepted governance writes, aimed is the flag of the object the singletons
	// point at (nil = a deliver state). Used only to classify a divergence.
	curGov := new(bool)
	var aimed *bool
	for {
		var steps []hist.Step
		var txs []txgen.Tx
		if draw != nil {
			s, t, ok := draw(w)
			if !ok {
				break
			}
			steps, txs = s, t
			tr.Steps = append(tr.Steps, steps...)
			h.Journal(tr)
		} else {
			if pos >= len(tr.Steps) {
				break
			}
			for pos < len(tr.Steps) {
				s := tr.Steps[pos]
				pos++
				steps = append(steps, s)
				if s.Kind == "block" {
					break
				}
			}
			if steps[len(steps)-1].Kind != "block" {
				break // trailing checks without a block
			}
		}
		blk := steps[len(steps)-1]
		inj := map[string][]hist.Step{}
		for _, s := range steps[:len(steps)-1] {
			if s.Kind == "check" {
				inj[s.At] = append(inj[s.At], s)
			}
		}
		b := w.C.MakeBlock(*blk.Spec)
		ntx := len(b.Txs)
		// The plain twin executes the block first: state that leaks between the two replicas through process
		// globals (they share one process here, real nodes do not) then cannot reach it from this block's CheckTx calls.
		ref := plain.RunBlock(b)
		if plain.Panicked {
			return &outcome{"node-panic", "plain", fmt.Sprintf("the twin without CheckTx panicked in %s at height %d and shut itself down", plain.PanicCall, b.Height)}, st
		}
		finalizeMidBlock := false // accepted CheckTx(PROPOSAL_FINALIZE) between this BeginBlock and the diverging DeliverTx
		doChecks := func(at string) bool {
			for _, c := range inj[at] {
				r := checked.CheckTx(c.Tx)
				if checked.Panicked {
					return false
				}
				if !strings.HasPrefix(r.Log, "checkTx duplicated") && !strings.Contains(r.Log, "not in canonical encoding") {
					aimed = curGov
				}
				debugf("h=%d check %s %s code=%d gas=%d log=%.150s events=%d\n", b.Height, at, c.TxKind, r.Code, r.GasUsed, r.Log, len(r.Events))
				st.checks++
				bc := boundaryClass(at, ntx)
				if r.Code == 0 {
					st.okChecks++
					st.feats["ok@"+bc+":"+c.TxKind]++
					if checkWrote(c.TxKind, r) {
						st.feats["wrote@"+bc]++
						if bc == "before-begin" || bc == "after-commit" || bc == "before-end" {
							st.ntPoints++
						}
					}
					if isGovKind(c.TxKind) {
						*curGov = true
					}
					if c.TxKind == "PROPOSAL_FINALIZE" && (at == "after-begin" || strings.HasPrefix(at, "after-tx:")) {
						finalizeMidBlock = true
						for _, ev := range r.Events {
							st.feats["finalize-checked-mid-block:"+ev.Type]++
						}
					}
				} else {
					st.feats["rejected@"+bc]++
				}
			}
			return true
		}
		res := &sim.BlockRes{Height: b.Height}
		panicked := func(call string) *outcome {
			return &outcome{"node-panic", call, fmt.Sprintf("the replica receiving CheckTx calls panicked in %s at height %d (last call %s) and shut itself down", checked.PanicCall, b.Height, call)}
		}
		if !doChecks("before-begin") {
			return panicked("CheckTx before-begin"), st
		}
		staleGov := aimed != nil && *aimed
		res.Begin = checked.BeginBlock(b)
		if checked.Panicked {
			return panicked("BeginBlock"), st
		}
		aimed = nil
		if !doChecks("after-begin") {
			return panicked("CheckTx after-begin"), st
		}
		for k, tx := range b.Txs {
			d := checked.DeliverTx(tx)
			if checked.Panicked {
				return panicked("DeliverTx"), st
			}
			aimed = nil
			res.Deliver = append(res.Deliver, d)
			res.Txs = append(res.Txs, sim.TxRes{Code: d.Code, Data: d.Data, GasWanted: d.GasWanted, GasUsed: d.GasUsed, Log: d.Log})
			if !doChecks(fmt.Sprintf("after-tx:%d", k)) {
				return panicked("CheckTx after-tx"), st
			}
		}
		res.End = checked.EndBlock(b.Height)
		if checked.Panicked {
			return panicked("EndBlock"), st
		}
		res.Updates = res.End.ValidatorUpdates
		aimed = nil
		if !doChecks("after-end") {
			return panicked("CheckTx after-end"), st
		}
		cm := checked.Commit()
		if checked.Panicked {
			return panicked("Commit"), st
		}
		res.AppHash = cm.Data
		curGov = new(bool) // fresh check state object
		checked.IndexBlock(b, res.Deliver)
		if !doChecks("after-commit") {
			return panicked("CheckTx after-commit"), st
		}

		w.Results = append(w.Results, ref)
		_ = w.C.Advance(ref.AppHash, ref.Updates)
		for i, t := range ref.Txs {
			debugf("h=%d deliver %s code=%d gas=%d/%d log=%.150s\n", b.Height, blk.Kinds[i], t.Code, t.GasUsed, t.GasWanted, t.Log)
		}
		debugf("h=%d apphash plain=%x checked=%x\n", b.Height, ref.AppHash, res.AppHash)
		st.blocks++
		d := sim.CompareBlockRes(ref, res)
		if d == "" {
			// the rest of the delivered results: the events of every DeliverTx, BeginBlock and EndBlock response
			d = compareEvents(ref, res)
		}
		if d != "" {
			class := "other"
			if finalizeMidBlock && strings.Contains(d, "minimal fee") {
				class = "checktx-finalize-sets-fee-option"
			} else if staleGov {
				class = "stale-gov-check-state-at-begin"
			}
			diff := sim.DiffDumps(plain.DumpMap(), checked.DumpMap())
			if len(diff) > 8 {
				diff = diff[:8]
			}
			var sched []string
			for _, s := range steps[:len(steps)-1] {
				sched = append(sched, s.At+":"+s.TxKind)
			}
			return &outcome{"transcript-divergence", class, fmt.Sprintf("twin without CheckTx vs replica with CheckTx: %s; checks injected around this block %v; block kinds %v; first differing keys %q", d, sched, blk.Kinds, diff)}, st
		}
		if len(txs) > 0 || draw != nil {
			w.Observe(txs, ref)
		}
		for i, t := range ref.Txs {
			if t.Code == 0 && i < len(blk.Kinds) {
				st.feats["delivered-ok:"+blk.Kinds[i]]++
			}
			if i < len(blk.Kinds) && strings.HasSuffix(blk.Kinds[i], "#forged") {
				if t.Code != 0 {
					st.feats["forged-twin:delivered-and-rejected-on-both"]++
				} else {
					st.feats["forged-twin:delivered-and-accepted-on-both:"+blk.Kinds[i]]++
				}
			}
		}
	}
	if diff := sim.DiffDumps(plain.DumpMap(), checked.DumpMap()); len(diff) > 0 {
		if len(diff) > 8 {
			diff = diff[:8]
		}
		return &outcome{"final-dump", "other", fmt.Sprintf("identical transcripts but the committed states differ in %q", diff)}, st
	}
	// reach statistics on the final committed state
	for k := range plain.DumpMap() {
		switch {
		case strings.HasPrefix(k, "propFinalized"):
			st.feats["reach:proposal-finalized"] = 1
		case strings.HasPrefix(k, "propPassed"):
			st.feats["reach:proposal-passed"] = 1
		case strings.HasPrefix(k, "propFailed"):
			st.feats["reach:proposal-failed"] = 1
		case strings.HasPrefix(k, "ethsuccess"):
			st.feats["reach:eth-tracker-succeeded"] = 1
		case strings.HasPrefix(k, "contracts_"):
			st.feats["reach:contract-deployed"] = 1
		}
	}
	return nil, st
}

var profileWheel = []string{"governance", "governance", "governance", "governance", "eth", "eth", "eth", "staking", "staking", "staking", "olvm", "olvm", "mixed", "mixed", "delegation", "rewards", "evidence", "ons", "bid", "bid"}

var targeted = []func(g *hist.Gen) txgen.Tx{
	(*hist.Gen).ProposalFinalize, (*hist.Gen).ProposalFinalize, (*hist.Gen).ExpireVotes, (*hist.Gen).ExpireVotes,
	(*hist.Gen).ReportFinality, (*hist.Gen).ReportFinality, (*hist.Gen).ProposalVote, (*hist.Gen).ProposalVote,
	(*hist.Gen).Stake, (*hist.Gen).Unstake, (*hist.Gen).OLVM, (*hist.Gen).ProposalFund, (*hist.Gen).Undelegate, (*hist.Gen).WithdrawStake,
	// bid transactions that close a conversation (they re-aim the bid stores shared with the block hooks)
	(*hist.Gen).BidCancel, (*hist.Gen).BidOwnerDecision, (*hist.Gen).BidBidderDecision,
}

// drawCheck draws one transaction to be checked at boundary `at` (k = number of the block's
// transactions already delivered; -1 before BeginBlock).
func drawCheck(rt *rapid.T, u *hist.U, g *hist.Gen, own []txgen.Tx, at string, k int) txgen.Tx {
	var tx txgen.Tx
	src := u.N(20, "src")
	switch {
	case src < 6 && k+1 < len(own) && at != "after-commit": // one of the block's own future transactions
		tx = own[u.Range(k+1, len(own)-1, "own")]
	case src < 10:
		tx = g.Draw()
	case src < 19:
		tx = targeted[u.N(len(targeted), "targeted")](g)
	default:
		switch u.N(3, "invalid") {
		case 0:
			tx = txgen.Tx{Bytes: []byte("not a transaction"), Kind: "GARBAGE"}
		case 1:
			t := g.Send()
			tx = txgen.Tx{Bytes: t.Bytes[:len(t.Bytes)/2], Kind: "TRUNCATED"}
		default:
			t := g.Send()
			b := append([]byte{}, t.Bytes...)
			b[len(b)/2] ^= 1
			tx = txgen.Tx{Bytes: b, Kind: "BITFLIP"}
		}
	}
	return tx
}

func renderEvents(evs []abci.Event) string {
	var sb strings.Builder
	for _, e := range evs {
		sb.WriteString(e.Type)
		sb.WriteString("{")
		for _, a := range e.Attributes {
			fmt.Fprintf(&sb, "%q=%q;", a.Key, a.Value)
		}
		sb.WriteString("}")
	}
	return sb.String()
}

// compareEvents compares the events of two executions of one block (empty string: equal).
func compareEvents(a, b *sim.BlockRes) string {
	if x, y := renderEvents(a.Begin.Events), renderEvents(b.Begin.Events); x != y {
		return fmt.Sprintf("h=%d: BeginBlock events differ: %.300s vs %.300s", a.Height, x, y)
	}
	for i := range a.Deliver {
		if i >= len(b.Deliver) {
			break
		}
		if x, y := renderEvents(a.Deliver[i].Events), renderEvents(b.Deliver[i].Events); x != y {
			return fmt.Sprintf("h=%d tx#%d: DeliverTx events differ: %.300s vs %.300s", a.Height, i, x, y)
		}
	}
	if x, y := renderEvents(a.End.Events), renderEvents(b.End.Events); x != y {
		return fmt.Sprintf("h=%d: EndBlock events differ: %.300s vs %.300s", a.Height, x, y)
	}
	return ""
}

func govID(s string) governance.ProposalID { return governance.ProposalID(s) }

func govOpinion(i int) governance.VoteOpinion { return governance.VoteOpinion(i) }

func TestC07(t *testing.T) {
	h := run.Start(t, "C07")
	defer h.Finish()
	h.SetRule("history x CheckTx schedule on a twin pair: one replica gets 0-3 CheckTx calls at every ABCI boundary (before/after BeginBlock, after every DeliverTx, after EndBlock, after Commit) drawn from the block's own future transactions, fresh generator transactions, invalid bytes and state-changing kinds (PROPOSAL_FINALIZE, EXPIRE_VOTES, ETH_REPORT_FINALITY_MINT, PROPOSAL_VOTE, STAKE/UNSTAKE, OLVM, BID_CANCEL and the two bid decisions); the twin gets none; non-trivial = at least one injected CheckTx was accepted (code 0) and wrote to the check state (judged from its response: a fee was charged, i.e. GasUsed > 0, or the free public kinds returned the event of their writing branch) at a boundary that is directly followed by a block hook (after Commit / before BeginBlock, or after the last DeliverTx before EndBlock); distinct by trace hash")
	maxBlocks := h.Scale(22, 40)
	rapid.Check(t, func(rt *rapid.T) {
		p := hist.GenParams(rt, fmt.Sprint(h.Seed))
		u := hist.NewU(rt)
		prof := profileWheel[u.N(len(profileWheel), "profile")]
		scripted := (prof == "governance") && u.N(3, "scripted") != 0
		propopts := scripted && u.N(4, "propopts") == 0
		if propopts {
			// the only deadlines that validate for all three proposal types at once: proposal-option updates can pass
			p.PropFundingDL, p.PropVotingDL = 75000, 150000
		}
		// limit probes: main-net sized staking options, so that a staking-option proposal is refused or accepted on its own
		// value alone (from small genesis values the rest of the option group never validates)
		limitProbe := prof == "governance" && !propopts && u.N(3, "limitprobe") == 0
		if limitProbe {
			p.MinSelfDeleg, p.TopCount, p.Maturity = 500000, int64(8+u.N(3, "lp-top")), 109200
			for i := range p.ValPower {
				p.ValPower[i] = 500000 + int64(i)
			}
		}
		role := hist.Roles(p, 2)[u.N(2, "role")]
		tr := &hist.Trace{Params: p, Roles: []sim.Role{role}, Profile: prof}
		if scripted {
			tr.Profile = prof + "+script"
		}
		nb := u.Range(3, maxBlocks, "nblocks")
		var g *hist.Gen
		blocks := 0
		var script [][]txgen.Tx
		scriptFamily := ""  // option family the scripted config-update proposal changes
		scriptID := ""      // id of the scripted config-update proposal whose finalisation is checked mid-block
		finalizeChecks := 0 // blocks in which such checks were injected
		votesSeen := false  // a batch of its votes was put into an earlier block
		nscript := 0
		// forged twins waiting for a later block: the valid original was already checked on the replica under test
		var forgedLater []txgen.Tx
		out, st := execute(h, tr, func(w *hist.World) ([]hist.Step, []txgen.Tx, bool) {
			if g == nil {
				g = &hist.Gen{W: w, T: rt, Hostile: 3, Strange: 8, Kinds: hist.Profiles[prof], Excl: h.Excluded, Seen: map[string]int{}, TagsN: map[string]int{}}
			}
			if blocks >= nb {
				return nil, nil, false
			}
			if negativePower(w) && (h.Excluded("STAKE:zero-power-record") || h.Excluded("ALLEGATION_VOTE:accused-not-elected")) {
				return nil, nil, false // known findings of C11: the next fee distribution would kill the process
			}
			blocks++
			txs := applyExclusions(h, g, g.DrawTxs(4))
			scriptVotesInThisBlock := false
			if len(forgedLater) > 0 {
				at := u.N(len(txs)+1, "forgedat")
				txs = append(txs[:at:at], append(append([]txgen.Tx{}, forgedLater...), txs[at:]...)...)
				forgedLater = nil
			}
			if scripted {
				if len(script) == 0 && u.N(3, "newscript") == 0 {
					if w.C.Height >= 2 && u.N(2, "cfgscript") == 0 {
						nscript++
						script, scriptID = scriptCfgProposal(u, g, nscript, propopts)
						finalizeChecks, votesSeen = 0, false
						scriptFamily = ""
						if len(script) > 0 && len(script[0]) > 0 && len(script[0][0].Tags) > 1 {
							scriptFamily = strings.SplitN(script[0][0].Tags[1], ".", 2)[0]
						}
					} else {
						script, scriptID = scriptProposal(rt, u, g), ""
					}
				}
				if len(script) > 0 && u.N(3, "scriptwait") != 0 {
					stage := script[0]
					n := len(stage)
					if len(script) == 1 { // the votes may be spread over several blocks
						n = u.Range(1, len(stage), "scriptn")
						scriptVotesInThisBlock = true
					}
					at := u.N(len(txs)+1, "scriptat")
					ins := append([]txgen.Tx{}, stage[:n]...)
					if n == len(stage) {
						script = script[1:]
					} else {
						script[0] = stage[n:]
					}
					txs = append(txs[:at:at], append(ins, txs[at:]...)...)
				}
			}
			spec := g.DrawEnv(txs)
			var steps []hist.Step
			push := func(at string, tx txgen.Tx) {
				steps = append(steps, hist.Step{Kind: "check", At: at, Tx: tx.Bytes, TxKind: tx.Kind, Replica: 1})
			}
			add := func(at string, k int) {
				n := []int{0, 0, 0, 1, 1, 2, 3}[u.N(7, "n@"+strings.SplitN(at, ":", 2)[0])]
				for i := 0; i < n; i++ {
					push(at, drawCheck(rt, u, g, txs, at, k))
				}
			}
			// the realistic mempool flow: sometimes every transaction of the block is checked before it
			if len(txs) > 0 && u.N(5, "mempoolflow") == 0 {
				for _, tx := range txs {
					push("before-begin", tx)
				}
			}
			// CheckTx of a valid transaction that is never delivered, and delivery (in this block after the check,
			// or in the next block) of a twin with identical RawTx and a tampered first signature
			if u.N(5, "forge") == 0 {
				orig := g.Draw()
				if u.N(2, "forgesend") == 0 {
					orig = g.Send()
				}
				other := w.G.U.Users[u.N(len(w.G.U.Users), "forgeother")]
				if twin, ok := forge(orig, u.N(3, "forgehow"), other); ok {
					if u.N(3, "forgelater") == 0 {
						bnd := []string{"before-begin", "after-begin", "after-end", "after-commit"}[u.N(4, "forgebnd")]
						push(bnd, orig)
						forgedLater = append(forgedLater, twin)
					} else {
						j := u.N(len(txs)+1, "forgepos") // position of the twin in this block
						// boundaries before position j: before-begin, after-begin, after-tx:0 .. after-tx:j-1
						k := u.N(j+2, "forgechk")
						bnd := "before-begin"
						if k == 1 {
							bnd = "after-begin"
						} else if k >= 2 {
							bnd = fmt.Sprintf("after-tx:%d", k-2)
						}
						txs = append(txs[:j:j], append([]txgen.Tx{twin}, txs[j:]...)...)
						spec.Txs = nil
						for _, tx := range txs {
							spec.Txs = append(spec.Txs, tx.Bytes)
						}
						push(bnd, orig)
					}
				}
			}
			// a proposal whose value lies far outside its option's range is checked (and refused) in the mempool only; one whose
			// value lies just outside the range is delivered in the next block: the refusal of the first must not move the limit
			if limitProbe && u.N(3, "lp-now") == 0 {
				pair := [][2]string{
					{"stakingOptions.minSelfDelegationAmount:60000000", "stakingOptions.minSelfDelegationAmount:15000000"},
					{"stakingOptions.minSelfDelegationAmount:100", "stakingOptions.minSelfDelegationAmount:499950"},
					{"stakingOptions.minSelfDelegationAmount:10000001", "stakingOptions.minSelfDelegationAmount:10000000"},
				}[u.N(3, "lp-pair")]
				bnd := []string{"before-begin", "after-begin", "after-end", "after-commit"}[u.N(4, "lp-bnd")]
				push(bnd, g.ProposalCreateCfg(pair[0]))
				forgedLater = append(forgedLater, g.ProposalCreateCfg(pair[1]))
			}
			// the scripted config-update proposal has been voted on: check its PROPOSAL_FINALIZE (any account may sign it)
			// between BeginBlock and the block's transactions, where the update functions' side effects would matter
			// (a passed proposal is finalised at the end of the block after the one that completed the vote)
			votesNow := scriptID != "" && len(script) <= 1 && scriptVotesInThisBlock
			if scriptID != "" && votesSeen && finalizeChecks < 4 {
				finalizeChecks++
				fu := w.G.U.Users[u.N(len(w.G.U.Users), "cfgfinalizer")]
				k := u.N(len(txs)+1, "cfgfinalizeat")
				bnd := "after-begin"
				if k > 0 {
					bnd = fmt.Sprintf("after-tx:%d", k-1)
				}
				push(bnd, txgen.ProposalFinalize(fu, govID(scriptID), fu.Addr, w.Fee, w.Memo()))
				// transactions whose outcome depends on the option family being changed, delivered after the check
				if sens := sensitiveTxs(u, g, scriptFamily); len(sens) > 0 {
					txs = append(txs, sens...)
					spec.Txs = nil
					for _, tx := range txs {
						spec.Txs = append(spec.Txs, tx.Bytes)
					}
				}
			}
			if votesNow {
				votesSeen = true
			}
			add("before-begin", -1)
			add("after-begin", -1)
			for k := range txs {
				add(fmt.Sprintf("after-tx:%d", k), k)
			}
			add("after-end", len(txs))
			add("after-commit", len(txs))
			steps = append(steps, hist.BlockStep(spec, txs))
			return steps, txs, true
		})
		classes := []string{"profile-" + tr.Profile}
		for k, v := range st.feats {
			if v > 0 && !strings.HasPrefix(k, "_") && !strings.HasPrefix(k, "delivered-ok:") {
				classes = append(classes, k)
			}
		}
		sort.Strings(classes)
		ntKey := ""
		if st.ntPoints > 0 {
			b, _ := json.Marshal(tr.Steps)
			ntKey = string(b)
			classes = append(classes, "non-trivial")
		}
		h.Eval(ntKey, classes, tr.Summary())
		h.Class("checks-issued", st.checks)
		h.Class("checks-accepted", st.okChecks)
		h.Class("blocks", st.blocks)
		if out != nil {
			h.Fail(rt, out.oracle, "C07/"+out.oracle+"/"+out.class, tr, "%s", out.msg)
		}
	})
}

// scriptProposal returns the stages of a proposal life cycle: [create, fund to goal] and one
// vote per genesis validator (votes are counted on committed vote records, so they must come in
// a later block than the funding that opens the vote).
func scriptProposal(rt *rapid.T, u *hist.U, g *hist.Gen) [][]txgen.Tx {
	w := g.W
	create := g.ProposalCreate()
	parts := strings.Split(create.Note, ":")
	if len(parts) != 5 {
		return nil
	}
	id := parts[0]
	fu := w.G.U.Users[u.N(len(w.G.U.Users), "funder")]
	goal := hist.ParseAmt([]byte(`"` + w.P.PropFundingGoal + `"`))
	fund := txgen.ProposalFund(fu, govID(id), fu.Addr, txgen.Amt("OLT", goal), w.Fee, w.Memo())
	var votes []txgen.Tx
	for i := range w.P.ValPower {
		v := w.G.U.Vals[i]
		op := []int{1, 1, 1, 1, 2}[u.N(5, "opinion")]
		votes = append(votes, txgen.ProposalVote(govID(id), v.Stake.Addr, v.Key.Addr, govOpinion(op), w.Fee, w.Memo(), v.Stake, v.Key))
	}
	return [][]txgen.Tx{{create, fund}, votes}
}

var cfgUpdates = []string{
	"feeOption.minFeeDecimal:8", "feeOption.minFeeDecimal:8", "feeOption.minFeeDecimal:8", "feeOption.minFeeDecimal:10", "onsOptions.perBlockFees:100000000000001",
	"onsOptions.baseDomainPrice:1000000000000000000001", "stakingOptions.maturityTime:109300", "stakingOptions.topValidatorCount:8",
}

// scriptCfgProposal returns the stages of a config-update proposal ([create, fund to goal], [one yes vote per
// genesis validator]) and its id.
// sensitiveTxs draws 1-2 transactions whose outcome depends on the options of a family.
func sensitiveTxs(u *hist.U, g *hist.Gen, family string) []txgen.Tx {
	var out []txgen.Tx
	n := 1 + u.N(2, "sens-n")
	for i := 0; i < n; i++ {
		switch family {
		case "onsOptions":
			if u.N(2, "sens-ons") == 0 {
				out = append(out, g.DomainCreate())
			} else {
				out = append(out, g.DomainRenew())
			}
		case "stakingOptions":
			if u.N(2, "sens-stk") == 0 {
				out = append(out, g.Stake())
			} else {
				out = append(out, g.Unstake())
			}
		case "propOptions":
			out = append(out, g.ProposalCreate())
		case "evidenceOptions":
			out = append(out, g.Allegation())
		}
	}
	return out
}

func scriptCfgProposal(u *hist.U, g *hist.Gen, n int, propopts bool) ([][]txgen.Tx, string) {
	w := g.W
	ui := u.N(len(w.G.U.Users), "cfg-proposer")
	usr := w.G.U.Users[ui]
	id := txgen.ProposalID(fmt.Sprintf("c07-cfg-%d-%s", n, w.P.Seed))
	hgt := w.C.Height + 1
	fundDL := hgt + 1 + int64(u.N(int(w.P.PropFundingDL), "cfg-fdl"))
	voteDL := fundDL + w.P.PropVotingDL
	goal := hist.ParseAmt([]byte(`"` + w.P.PropFundingGoal + `"`))
	initial := hist.ParseAmt([]byte(`"` + w.P.PropInitialFunding + `"`))
	cfg := cfgUpdates[u.N(len(cfgUpdates), "cfg-update")]
	if propopts && u.N(4, "cfg-propopts") != 0 {
		typ := []string{"general", "general", "configUpdate", "codeChange"}[u.N(4, "cfg-po-type")]
		two := func(x *big.Int) string { return new(big.Int).Mul(x, big.NewInt(2)).String() }
		cfg = []string{"propOptions." + typ + ".initialFunding:" + two(initial), "propOptions." + typ + ".fundingGoal:" + two(goal),
			"propOptions." + typ + ".passPercentage:60", "propOptions." + typ + ".fundingGoal:" + new(big.Int).Mul(initial, big.NewInt(3)).String()}[u.N(4, "cfg-po-what")]
	}
	create := txgen.ProposalCreate(usr, agov.CreateProposal{ProposalID: id, ProposalType: governance.ProposalTypeConfigUpdate, Headline: "h", Description: "d",
		Proposer: usr.Addr, InitialFunding: txgen.Amt("OLT", initial), FundingDeadline: fundDL, FundingGoal: balance.NewAmountFromBigInt(goal),
		VotingDeadline: voteDL, PassPercentage: w.P.PropPassPct, ConfigUpdate: cfg}, w.Fee, w.Memo())
	create.Note = fmt.Sprintf("%s:%d:%d:%d:%d", id, ui, fundDL, voteDL, int(governance.ProposalTypeConfigUpdate))
	create.Tags = []string{"scripted", cfg}
	fu := w.G.U.Users[u.N(len(w.G.U.Users), "cfg-funder")]
	fund := txgen.ProposalFund(fu, id, fu.Addr, txgen.Amt("OLT", goal), w.Fee, w.Memo())
	var votes []txgen.Tx
	for i := range w.P.ValPower {
		v := w.G.U.Vals[i]
		votes = append(votes, txgen.ProposalVote(id, v.Stake.Addr, v.Key.Addr, governance.OPIN_POSITIVE, w.Fee, w.Memo(), v.Stake, v.Key))
	}
	return [][]txgen.Tx{{create, fund}, votes}, string(id)
}

func TestReplay(t *testing.T) {
	path := run.ReplayFile()
	if path == "" {
		t.Skip("no VERIF_REPLAY")
	}
	f, err := run.LoadFailure(path)
	if err != nil {
		t.Fatal(err)
	}
	var tr hist.Trace
	if err := json.Unmarshal(f.Case, &tr); err != nil {
		t.Fatal(err)
	}
	h := run.Start(t, "C07")
	defer h.Finish()
	if out, _ := execute(h, &tr, nil); out != nil {
		h.Fail(t, out.oracle, "C07/"+out.oracle+"/"+out.class, &tr, "%s", out.msg)
	}
}
