// Package c12: delegation pool consistency and undelegation maturity.
//
// One replica executes a generated history of network-delegation traffic. After every commit
// a monitor reads the state dump and checks, in this order:
//
//	maturity-credit  every tracked account's OLT balance moved by exactly what its own successful
//	                 transactions state (amounts, fee = GasUsed x price from the response) plus the
//	                 undelegations / reward withdrawals it initiated `maturity` blocks earlier
//	                 (so: paid in block H+maturity, never earlier, never twice, to nobody else);
//	active-set       a successful undelegation has left deleg_a_<delegator> at the commit of its block;
//	pool             balance(delegation pool) >= sum of deleg_a_*, equal while nobody donated;
//	rewards-accrued  delegRwz_balance_* never negative and balances + pending + paid + reinvested
//	                 never exceed the accrued total.
package c12

import (
	"crypto/sha256"
	"encoding/json"
	"fmt"
	"math/big"
	"os"
	"sort"
	"testing"

	"pgregory.net/rapid"

	"github.com/Oneledger/protocol/action"

	"verif/dlgrw"
	"verif/hist"
	"verif/run"
	"verif/sim"
	"verif/txgen"
)

func TestMain(m *testing.M) {
	run.Quiet()
	os.Exit(m.Run())
}

// Case is the replay payload.
type Case struct {
	Params     sim.Params         `json:"params"`
	PrePending []dlgrw.PrePending `json:"pre_pending,omitempty"`
	Profile    string             `json:"profile"`
	Steps      []hist.Step        `json:"steps"`
}

type outcome struct {
	oracle string
	class  string
	msg    string
}

func (o *outcome) sig() string { return "C12/" + o.oracle + "/" + o.class }

// ---------------------------------------------------------------------------------------
// monitor

type monitor struct {
	tracked []string // 0lt addresses whose balance movements are judged exactly
	names   map[string]string
	prev    *dlgrw.View
	M       int64
	donated bool
	seenTx  map[[32]byte]bool

	dueU map[int64]map[string]*big.Int // undelegation credits due at height
	dueR map[int64]map[string]*big.Int // reward-withdrawal credits due at height
	pre  []preEntry                    // genesis pending list (diagnosis only)
	paid *big.Int                      // reward withdrawals paid out so far (as due)
	rein *big.Int                      // rewards reinvested so far

	feats map[string]int
}

type preEntry struct {
	addr string
	h    int64
	amt  *big.Int
}

func addDue(m map[int64]map[string]*big.Int, h int64, a string, v *big.Int) {
	if m[h] == nil {
		m[h] = map[string]*big.Int{}
	}
	if m[h][a] == nil {
		m[h][a] = new(big.Int)
	}
	m[h][a].Add(m[h][a], v)
}

func newMonitor(w *hist.World, pre []dlgrw.PrePending) (*monitor, *outcome) {
	m := &monitor{names: map[string]string{}, seenTx: map[[32]byte]bool{}, dueU: map[int64]map[string]*big.Int{}, dueR: map[int64]map[string]*big.Int{},
		paid: new(big.Int), rein: new(big.Int), feats: map[string]int{}}
	for _, u := range w.G.U.Users {
		m.tracked = append(m.tracked, u.Addr.String())
		m.names[u.Addr.String()] = u.Name
	}
	for _, e := range w.G.U.Eth {
		m.tracked = append(m.tracked, e.OLAddr().String())
		m.names[e.OLAddr().String()] = e.Name
	}
	for _, pp := range pre {
		a, _ := new(big.Int).SetString(pp.Amount, 10)
		addr := w.G.U.Users[pp.User%len(w.G.U.Users)].Addr.String()
		addDue(m.dueU, pp.Height, addr, a)
		m.pre = append(m.pre, preEntry{addr, pp.Height, a})
	}
	m.prev = dlgrw.NewView(w.Primary().DumpMap())
	m.M = m.prev.Maturity()
	if m.M < 0 {
		return m, &outcome{"harness", "setup", "network delegation option record not found in the genesis state"}
	}
	if o := m.checkState(m.prev, 0); o != nil {
		return m, o
	}
	return m, nil
}

func (m *monitor) name(a string) string {
	if n := m.names[a]; n != "" {
		return n + "(" + a + ")"
	}
	return a
}

// checkState checks the commit-time invariants (pool, rewards-accrued) on one dump.
func (m *monitor) checkState(v *dlgrw.View, h int64) *outcome {
	active := v.Active()
	sum := dlgrw.Sum(active)
	pool := v.Bal(dlgrw.DelegPool)
	rwBal := v.RwBalance()
	rwPend := v.RwPending()
	total := v.RwTotal()
	if len(v.Err) > 0 {
		return &outcome{"decode", "record", fmt.Sprintf("h=%d: unreadable delegation/reward records: %v", h, v.Err)}
	}
	if pool.Cmp(sum) < 0 {
		return &outcome{"pool", "below-active", fmt.Sprintf("h=%d: delegation pool balance %s is below the sum of active delegations %s (%d delegators)", h, pool, sum, len(active))}
	}
	if !m.donated && pool.Cmp(sum) != 0 {
		return &outcome{"pool", "above-active-without-donation", fmt.Sprintf("h=%d: delegation pool balance %s differs from the sum of active delegations %s although nobody donated to the pool", h, pool, sum)}
	}
	for a, b := range rwBal {
		if b.Sign() < 0 {
			return &outcome{"rewards-accrued", "negative-balance", fmt.Sprintf("h=%d: delegRwz_balance of %s is negative: %s", h, m.name(a), b)}
		}
	}
	// what is pending at a height is paid in that height's block: after the commit of block h no non-zero entry of a
	// height <= h may be left (it would never be visited again)
	if h >= 1 {
		for ha, a := range v.Pending() {
			if ha.H <= h && a.Sign() != 0 {
				return &outcome{"maturity-credit", "pending-undelegation-left-behind", fmt.Sprintf("h=%d: the pending undelegation of %s recorded for height %d (%s) is still there after that height's block", h, m.name(ha.Addr), ha.H, a)}
			}
		}
		for ha, a := range rwPend {
			if ha.H <= h && a.Sign() != 0 {
				return &outcome{"maturity-credit", "pending-reward-withdrawal-left-behind", fmt.Sprintf("h=%d: the pending reward withdrawal of %s recorded for height %d (%s) is still there after that height's block", h, m.name(ha.Addr), ha.H, a)}
			}
		}
	}
	claims := new(big.Int).Add(dlgrw.Sum(rwBal), dlgrw.SumHA(rwPend))
	claims.Add(claims, m.paid)
	claims.Add(claims, m.rein)
	if claims.Cmp(total) > 0 {
		return &outcome{"rewards-accrued", "claims-exceed-accrued", fmt.Sprintf("h=%d: reward balances %s + pending %s + paid out %s + reinvested %s exceed the accrued total %s", h, dlgrw.Sum(rwBal), dlgrw.SumHA(rwPend), m.paid, m.rein, total)}
	}
	return nil
}

type ops struct {
	add, und, wd, rei *big.Int
	nUnd, n           int
}

// block judges one committed block.
func (m *monitor) block(b *sim.Block, res *sim.BlockRes, dump map[string][]byte) *outcome {
	h := b.Height
	v := dlgrw.NewView(dump)
	eff := dlgrw.NewEffects()
	per := map[string]*ops{}
	get := func(a string) *ops {
		if per[a] == nil {
			per[a] = &ops{add: new(big.Int), und: new(big.Int), wd: new(big.Int), rei: new(big.Int)}
		}
		return per[a]
	}
	type late struct {
		kind action.Type
		addr string
		amt  *big.Int
	}
	var lates []late
	for i, raw := range b.Txs {
		if i >= len(res.Txs) {
			break
		}
		hsh := sha256.Sum256(raw)
		replayed := m.seenTx[hsh]
		m.seenTx[hsh] = true
		if res.Txs[i].Code != 0 || replayed {
			// a failed transaction's session is discarded; a byte-identical replay answers with the cached response
			continue
		}
		d, known := dlgrw.Decode(raw)
		eff.Apply(d, known, res.Txs[i].GasUsed)
		if d == nil || !known {
			continue
		}
		m.feats["ok:"+d.Kind]++
		if d.IsDonation() && d.Amt.Sign() != 0 {
			m.donated = true
			m.feats["donation"]++
		}
		switch d.Type {
		case action.ADD_NETWORK_DELEGATE:
			o := get(d.Addr)
			o.add.Add(o.add, d.Amt)
			o.n++
		case action.NETWORK_UNDELEGATE:
			o := get(d.Addr)
			o.und.Add(o.und, d.Amt)
			o.nUnd++
			o.n++
			lates = append(lates, late{d.Type, d.Addr, d.Amt})
		case action.REWARDS_WITHDRAW_NETWORK_DELEGATE:
			o := get(d.Addr)
			o.wd.Add(o.wd, d.Amt)
			o.n++
			lates = append(lates, late{d.Type, d.Addr, d.Amt})
		case action.REWARDS_REINVEST_NETWORK_DELEGATE:
			o := get(d.Addr)
			o.rei.Add(o.rei, d.Amt)
			o.n++
			m.rein.Add(m.rein, d.Amt)
		}
	}
	if len(v.Err) > 0 {
		return &outcome{"decode", "record", fmt.Sprintf("h=%d: unreadable records: %v", h, v.Err)}
	}

	// ---- maturity-credit: balances of tracked accounts
	if eff.All {
		m.feats["block-not-judged-exactly"]++
	} else {
		for _, a := range m.tracked {
			if eff.Noisy[a] {
				m.feats["account-not-judged-exactly"]++
				continue
			}
			obs := new(big.Int).Sub(v.Bal(a), m.prev.Bal(a))
			own := eff.Delta[a]
			if own == nil {
				own = new(big.Int)
			}
			residual := new(big.Int).Sub(obs, own)
			due := new(big.Int)
			du, dr := m.dueU[h][a], m.dueR[h][a]
			if du != nil {
				due.Add(due, du)
			}
			if dr != nil {
				due.Add(due, dr)
			}
			if residual.Cmp(due) != 0 {
				class := "extra-credit"
				if residual.Cmp(due) < 0 {
					class = "missing-credit"
				}
				diff := new(big.Int).Sub(residual, due)
				if dr != nil && du == nil {
					du = new(big.Int)
				}
				if dr != nil && dr.Sign() > 0 && residual.Cmp(du) == 0 && h >= 2 &&
					v.Amt("rwcum_tdist").Cmp(m.prev.Amt("rwcum_tdist")) == 0 && v.RwTotal().Cmp(m.prev.RwTotal()) == 0 && m.prev.RwTotal().Sign() > 0 {
					// exactly the matured reward withdrawals are missing, and the block booked no block reward at all
					class = "reward-withdrawal-not-paid-in-a-block-without-reward-processing"
				}
				for _, pe := range m.pre {
					if pe.addr == a && pe.h != h && pe.amt.Cmp(diff) == 0 {
						class = "genesis-pending-paid-at-other-height"
					}
				}
				return &outcome{"maturity-credit", class, fmt.Sprintf(
					"h=%d (maturity %d): balance of %s moved by %s; its own successful transactions in this block account for %s; the remaining %s should equal the credits due in this block: %s (undelegations of block %d: %v, reward withdrawals of block %d: %v)",
					h, m.M, m.name(a), obs, own, residual, due, h-m.M, du, h-m.M, dr)}
			}
			if due.Sign() > 0 {
				if du != nil && du.Sign() > 0 {
					m.feats["matured-undelegation"]++
				}
				if dr != nil && dr.Sign() > 0 {
					m.feats["matured-reward-withdrawal"]++
				}
				if per[a] != nil || own.Sign() != 0 {
					m.feats["credit-in-a-block-with-own-traffic"]++
				}
			}
		}
	}
	if len(m.dueR[h]) > 0 && m.prev.Bal(dlgrw.DelegPool).Sign() == 0 {
		m.feats["reward-withdrawal-due-while-the-pool-is-empty"]++
	}
	if n := len(m.dueR[h]); n >= 2 {
		m.feats["reward-withdrawals-of-several-owners-due-in-one-block"]++
		for _, x := range m.dueR[h] {
			if x.Sign() == 0 {
				m.feats["zero-entry-among-several-due-in-one-block"]++
				break
			}
		}
	}
	if len(m.dueU[h]) >= 2 {
		m.feats["undelegations-of-several-owners-due-in-one-block"]++
	}
	for _, x := range m.dueR[h] {
		m.paid.Add(m.paid, x)
	}

	// ---- active-set
	prevA, newA := m.prev.Active(), v.Active()
	var addrs []string
	for a := range per {
		addrs = append(addrs, a)
	}
	sort.Strings(addrs)
	for _, a := range addrs {
		o := per[a]
		if o.n >= 2 {
			m.feats["two-ops-one-delegator-one-block"]++
		}
		if o.nUnd >= 2 {
			m.feats["two-undelegations-one-delegator-one-block"]++
		}
		if o.und.Sign() == 0 && o.nUnd == 0 {
			continue
		}
		pa, na := prevA[a], newA[a]
		if pa == nil {
			pa = new(big.Int)
		}
		if na == nil {
			na = new(big.Int)
		}
		delta := new(big.Int).Sub(na, pa)
		want := new(big.Int).Sub(new(big.Int).Add(o.add, o.rei), o.und)
		bad := false
		if o.add.Sign() == 0 && o.rei.Sign() == 0 {
			bad = delta.Cmp(want) != 0
		} else {
			bad = delta.Cmp(want) > 0
		}
		if bad {
			return &outcome{"active-set", "undelegated-amount-still-active", fmt.Sprintf(
				"h=%d: %s undelegated %s (and delegated %s, reinvested %s) successfully in this block but its active delegation moved by %s (from %s to %s)",
				h, m.name(a), o.und, o.add, o.rei, delta, pa, na)}
		}
	}

	// ---- register what this block's successful transactions make due
	for _, l := range lates {
		if l.kind == action.NETWORK_UNDELEGATE {
			addDue(m.dueU, h+m.M, l.addr, l.amt)
		} else {
			addDue(m.dueR, h+m.M, l.addr, l.amt)
		}
	}

	// ---- pool, rewards-accrued
	if o := m.checkState(v, h); o != nil {
		return o
	}
	m.prev = v
	return nil
}

// ---------------------------------------------------------------------------------------
// execution

func execute(h *run.H, c *Case, draw func(w *hist.World, m *monitor, i int) (hist.Step, bool)) (*outcome, map[string]int) {
	w, err := dlgrw.NewWorld(c.Params, c.PrePending, []sim.Role{{ValIdx: 0, IsWitness: false}})
	if err != nil {
		return &outcome{"harness", "setup", "cannot build world: " + err.Error()}, map[string]int{}
	}
	defer w.Close()
	if _, err := w.Init(); err != nil {
		return &outcome{"harness", "setup", "InitChain: " + err.Error()}, map[string]int{}
	}
	if w.Primary().Panicked {
		return &outcome{"node-panic", "InitChain", "the application panicked in InitChain"}, map[string]int{}
	}
	m, o := newMonitor(w, c.PrePending)
	if o != nil {
		return o, m.feats
	}
	for i := 0; ; i++ {
		var st hist.Step
		if draw != nil {
			s, ok := draw(w, m, i)
			if !ok {
				break
			}
			st = s
			c.Steps = append(c.Steps, st)
			h.Journal(c)
		} else {
			if i >= len(c.Steps) {
				break
			}
			st = c.Steps[i]
		}
		if st.Kind != "block" || st.Spec == nil {
			continue
		}
		b, res := w.RunBlock(*st.Spec)
		if w.Primary().Panicked || res[0].Aborted {
			return &outcome{"node-panic", w.Primary().PanicCall, fmt.Sprintf("the application panicked in %s at height %d (kinds %v) and shut itself down", w.Primary().PanicCall, b.Height, st.Kinds)}, m.feats
		}
		if o := m.block(b, res[0], w.Primary().DumpMap()); o != nil {
			return o, m.feats
		}
	}
	m.feats["blocks"] = int(w.C.Height)
	return nil, m.feats
}

// ---------------------------------------------------------------------------------------
// generation (every choice goes through rapid; hist.U makes the choices approximately uniform)

func pow10(e int) *big.Int { return new(big.Int).Exp(big.NewInt(10), big.NewInt(int64(e)), nil) }

func frac(u *hist.U, of *big.Int, maxPermille int, label string) *big.Int {
	f := u.Range(1, maxPermille, label)
	v := new(big.Int).Mul(of, big.NewInt(int64(f)))
	v.Div(v, big.NewInt(1000))
	return v
}

func tagged(x txgen.Tx, tags ...string) txgen.Tx {
	x.Tags = tags
	return x
}

// burst draws 2-4 operations of ONE delegator for one block, sized from the committed state
// so that all of them can succeed.
func burst(u *hist.U, w *hist.World, v *dlgrw.View) []txgen.Tx {
	usr := w.G.U.Users[u.N(4, "delegator")]
	a := usr.Addr.String()
	active := v.Active()[a]
	if active == nil {
		active = new(big.Int)
	}
	rw := v.RwBalance()[a]
	if rw == nil {
		rw = new(big.Int)
	}
	n := u.Range(2, 4, "nops")
	var txs []txgen.Tx
	for i := 0; i < n; i++ {
		op := dlgrw.Pick(u, []string{"delegate", "undelegate", "undelegate", "undelegate", "withdraw", "withdraw", "reinvest"}, "op")
		switch {
		case op == "undelegate" && active.Sign() > 0:
			amt := frac(u, active, 300, "undfrac")
			if u.N(6, "tiny") == 0 {
				amt = big.NewInt(int64(u.Range(1, 3, "tinyv")))
			}
			txs = append(txs, tagged(txgen.Undelegate(usr, usr.Addr, txgen.Amt("OLT", amt), w.Fee, w.Memo()), "burst"))
		case op == "withdraw" && rw.Sign() > 0:
			amt := frac(u, rw, 300, "wdfrac")
			if u.N(6, "wdtiny") == 0 {
				amt = big.NewInt(int64(u.N(3, "wdtinyv")))
			}
			txs = append(txs, tagged(txgen.DelegWithdrawRewards(usr, usr.Addr, txgen.Amt("OLT", amt), w.Fee, w.Memo()), "burst"))
		case op == "reinvest" && rw.Sign() > 0:
			txs = append(txs, tagged(txgen.DelegReinvest(usr, usr.Addr, txgen.Amt("OLT", frac(u, rw, 300, "reifrac")), w.Fee, w.Memo()), "burst"))
		default:
			k := int64(u.Range(1, 999, "delk"))
			e := dlgrw.Pick(u, []int{0, 9, 18, 21, 21}, "dele")
			txs = append(txs, tagged(txgen.Delegate(usr, usr.Addr, txgen.Amt("OLT", new(big.Int).Mul(big.NewInt(k), pow10(e))), w.Fee, w.Memo()), "burst"))
		}
	}
	return txs
}

// exactOps draws "everything" operations: undelegate the whole active amount, withdraw the
// whole reward balance (boundary amounts that must still be paid exactly once).
func exactOps(u *hist.U, w *hist.World, v *dlgrw.View) []txgen.Tx {
	usr := w.G.U.Users[u.N(4, "delegator")]
	a := usr.Addr.String()
	var txs []txgen.Tx
	if x := v.Active()[a]; x != nil && x.Sign() > 0 && u.N(2, "undall") == 0 {
		txs = append(txs, tagged(txgen.Undelegate(usr, usr.Addr, txgen.Amt("OLT", x), w.Fee, w.Memo()), "amt-all"))
	}
	if x := v.RwBalance()[a]; x != nil && x.Sign() > 0 {
		txs = append(txs, tagged(txgen.DelegWithdrawRewards(usr, usr.Addr, txgen.Amt("OLT", x), w.Fee, w.Memo()), "amt-all"))
	}
	return txs
}

// sameHeight makes several delegators undelegate / withdraw rewards in ONE block, some with the
// smallest amounts (0, 1, 2 base units), so that several entries of different owners mature at
// the same height and are paid by one walk over the pending list.
func sameHeight(u *hist.U, w *hist.World, v *dlgrw.View) []txgen.Tx {
	var txs []txgen.Tx
	for i := 0; i < 4; i++ {
		usr := w.G.U.Users[i]
		a := usr.Addr.String()
		if rw := v.RwBalance()[a]; rw != nil && rw.Sign() > 0 && u.N(4, "sh-wd") != 0 {
			amt := frac(u, rw, 200, "sh-wdfrac")
			if u.N(3, "sh-wdtiny") == 0 {
				amt = big.NewInt(int64(u.N(3, "sh-wdtinyv")))
			}
			txs = append(txs, tagged(txgen.DelegWithdrawRewards(usr, usr.Addr, txgen.Amt("OLT", amt), w.Fee, w.Memo()), "same-height"))
		}
		if act := v.Active()[a]; act != nil && act.Sign() > 0 && u.N(3, "sh-und") == 0 {
			amt := frac(u, act, 200, "sh-undfrac")
			if u.N(3, "sh-undtiny") == 0 {
				amt = big.NewInt(int64(u.Range(1, 3, "sh-undtinyv")))
			}
			txs = append(txs, tagged(txgen.Undelegate(usr, usr.Addr, txgen.Amt("OLT", amt), w.Fee, w.Memo()), "same-height"))
		}
	}
	return txs
}

// exodus makes EVERY delegator leave: the whole active amount is undelegated and the whole reward balance
// withdrawn, so that the pool is empty while those entries are pending and when they mature.
func exodus(u *hist.U, w *hist.World, v *dlgrw.View) []txgen.Tx {
	var txs []txgen.Tx
	addrs := map[string]bool{}
	for a := range v.Active() {
		addrs[a] = true
	}
	for a := range v.RwBalance() {
		addrs[a] = true
	}
	var sorted []string
	for a := range addrs {
		sorted = append(sorted, a)
	}
	sort.Strings(sorted)
	for _, a := range sorted {
		var usr *sim.User
		for _, x := range w.G.U.Users {
			if x.Addr.String() == a {
				usr = x
			}
		}
		if usr == nil {
			continue
		}
		if rw := v.RwBalance()[a]; rw != nil && rw.Sign() > 0 {
			txs = append(txs, tagged(txgen.DelegWithdrawRewards(usr, usr.Addr, txgen.Amt("OLT", rw), w.Fee, w.Memo()), "exodus"))
		}
		if act := v.Active()[a]; act != nil && act.Sign() > 0 {
			txs = append(txs, tagged(txgen.Undelegate(usr, usr.Addr, txgen.Amt("OLT", act), w.Fee, w.Memo()), "exodus"))
		}
	}
	return txs
}

var gapsC12 = []int64{1, 2, 5, 5, 5, 17, 60, 3600}

func genParams(rt *rapid.T, h *run.H) (sim.Params, []dlgrw.PrePending) {
	p := hist.GenParams(rt, fmt.Sprint(h.Seed))
	u := hist.NewU(rt)
	if p.NumUsers < 6 {
		p.NumUsers = 6
	}
	// more genesis states with active delegations than GenParams draws
	if len(p.PreDelegations) == 0 && u.N(3, "predeleg2") == 0 {
		n := u.Range(1, 4, "npre2")
		for i := 0; i < n; i++ {
			k := u.Range(1, 999, "prek")
			e := dlgrw.Pick(u, []int{0, 18, 21, 24}, "pree")
			p.PreDelegations = append(p.PreDelegations, sim.PreDeleg{User: i, Amount: new(big.Int).Mul(big.NewInt(int64(k)), pow10(e)).String()})
		}
	}
	var pre []dlgrw.PrePending
	if u.N(4, "prepending") == 0 {
		n := u.Range(1, 3, "nprepend")
		for i := 0; i < n; i++ {
			// a save_state dump writes pending heights relative to the dump height (1..maturity);
			// an edited genesis file may carry any height
			hgt := int64(u.Range(1, 4, "pph"))
			if u.N(3, "pphbig") == 0 {
				hgt = int64(u.Range(5, 40, "pphv"))
				if hgt >= 10 && h.Excluded("GENESIS:deleg-pending-height>=10") {
					hgt = int64(u.Range(1, 9, "pphsmall"))
				}
			}
			k := u.Range(1, 999, "ppk")
			usr := u.N(6, "ppu")
			dup := false
			for _, x := range pre {
				// the store keeps one record per (height, delegator); so does a dump
				dup = dup || (x.User == usr && x.Height == hgt)
			}
			if !dup {
				pre = append(pre, dlgrw.PrePending{User: usr, Height: hgt, Amount: new(big.Int).Mul(big.NewInt(int64(k)), pow10(18)).String()})
			}
		}
	}
	return p, pre
}

func classify(f map[string]int, c *Case) (string, []string) {
	var classes []string
	for _, k := range []string{"matured-undelegation", "matured-reward-withdrawal", "two-ops-one-delegator-one-block", "two-undelegations-one-delegator-one-block",
		"reward-withdrawal-due-while-the-pool-is-empty", "reward-withdrawals-of-several-owners-due-in-one-block", "zero-entry-among-several-due-in-one-block", "undelegations-of-several-owners-due-in-one-block",
		"credit-in-a-block-with-own-traffic", "donation", "block-not-judged-exactly", "account-not-judged-exactly",
		"ok:REWARDS_REINVEST_NETWORK_DELEGATE", "ok:REWARDS_WITHDRAW_NETWORK_DELEGATE", "ok:NETWORK_UNDELEGATE", "ok:ADD_NETWORK_DELEGATION"} {
		if f[k] > 0 {
			classes = append(classes, k)
		}
	}
	if len(c.Params.PreDelegations) > 0 {
		classes = append(classes, "genesis-active-delegations")
	}
	if len(c.PrePending) > 0 {
		classes = append(classes, "genesis-pending-list")
	}
	if f["blocks"] >= 100 {
		classes = append(classes, "long-history-100+")
	}
	classes = append(classes, "profile-"+c.Profile)
	nt := ""
	if f["matured-undelegation"] > 0 {
		b, _ := json.Marshal(c.Steps)
		s := sha256.Sum256(b)
		nt = fmt.Sprintf("%x|%s|%v", s[:], c.Params.Seed, c.PrePending)
	}
	return nt, classes
}

func TestC12(t *testing.T) {
	h := run.Start(t, "C12")
	defer h.Finish()
	h.SetRule("generated genesis (validators, reward options, optional pre-loaded active delegations and pending lists) x block history of delegate / undelegate / withdraw-rewards / reinvest / send / sendpool by up to 4 delegators (hist.Gen profiles delegation and rewards, plus bursts of 2-4 operations of one delegator in one block and whole-amount operations), followed by maturity+1 empty blocks; executed on one replica with the monitor run after every commit; non-trivial = at least one successful undelegation (or genesis pending entry) reaches its maturity block inside the history and is judged there; distinct by trace hash")
	maxBlocks := h.Scale(30, 60)
	rapid.Check(t, func(rt *rapid.T) {
		p, pre := genParams(rt, h)
		u := hist.NewU(rt)
		prof := dlgrw.Pick(u, []string{"delegation", "delegation", "delegation", "rewards"}, "profile")
		c := &Case{Params: p, PrePending: pre, Profile: prof}
		long := h.Thorough() && u.N(12, "long") == 0
		nb := u.Range(6, maxBlocks, "nblocks")
		busyPct := 85
		if long {
			nb = u.Range(130, 420, "nblocks-long")
			busyPct = 12
		}
		flush := u.N(10, "flush") != 0
		var g *hist.Gen
		blocks, tail, quiet := 0, 0, 0
		out, feats := execute(h, c, func(w *hist.World, m *monitor, i int) (hist.Step, bool) {
			if g == nil {
				g = &hist.Gen{W: w, T: rt, Hostile: 4, Strange: 5, Kinds: hist.Profiles[prof], Excl: h.Excluded, Seen: map[string]int{}, TagsN: map[string]int{}}
			}
			if blocks >= nb {
				if !flush || tail > int(m.M) {
					return hist.Step{}, false
				}
				tail++
				return hist.BlockStep(dlgrw.DrawEnv(u, gapsC12, 4, nil), nil), true
			}
			blocks++
			var txs []txgen.Tx
			if quiet > 0 {
				quiet--
				if u.N(3, "quiet-send") == 0 {
					txs = []txgen.Tx{g.Send()}
				}
			} else if u.N(100, "busy") < busyPct {
				switch u.N(10, "mode") {
				case 0, 1, 2, 3, 4:
					txs = g.DrawTxs(4)
				case 5, 6, 7:
					txs = burst(u, w, m.prev)
					if u.N(2, "plus") == 0 {
						txs = append(txs, g.DrawTxs(2)...)
					}
				case 8:
					switch u.N(3, "exact-or-same") {
					case 0:
						txs = exactOps(u, w, m.prev)
					case 1:
						txs = sameHeight(u, w, m.prev)
					default:
						txs = exodus(u, w, m.prev)
						quiet = int(m.M) + 2 // nobody comes back before those entries have matured
					}
				default:
					txs = append(burst(u, w, m.prev), burst(u, w, m.prev)...)
				}
				txs = dlgrw.FilterTxs(h.Excluded, w, txs)
				if len(txs) > 1 && u.N(4, "shuffle") == 0 {
					txs = rapid.Permutation(txs).Draw(rt, "order")
				}
			}
			return hist.BlockStep(dlgrw.DrawEnv(u, gapsC12, 4, txs), txs), true
		})
		nt, classes := classify(feats, c)
		h.Eval(nt, classes, summary(c, feats))
		if out != nil {
			h.Fail(rt, out.oracle, out.sig(), c, "%s", out.msg)
		}
	})
}

func summary(c *Case, f map[string]int) map[string]interface{} {
	tr := hist.Trace{Params: c.Params, Profile: c.Profile, Steps: c.Steps}
	s := tr.Summary()
	s["pre_delegations"] = len(c.Params.PreDelegations)
	s["pre_pending"] = c.PrePending
	s["matured_undelegations"] = f["matured-undelegation"]
	s["matured_reward_withdrawals"] = f["matured-reward-withdrawal"]
	return s
}

func TestReplay(t *testing.T) {
	path := run.ReplayFile()
	if path == "" {
		t.Skip("no VERIF_REPLAY")
	}
	f, err := run.LoadFailure(path)
	if err != nil {
		t.Fatal(err)
	}
	var c Case
	if err := json.Unmarshal(f.Case, &c); err != nil {
		t.Fatal(err)
	}
	h := run.Start(t, "C12")
	defer h.Finish()
	out, feats := execute(h, &c, nil)
	t.Logf("features: %v", feats)
	if out != nil {
		h.Fail(t, out.oracle, out.sig(), &c, "%s", out.msg)
	}
}
