package c12

import (
	"encoding/json"
	"math/big"
	"os"
	"path/filepath"
	"testing"

	"verif/dlgrw"
	"verif/hist"
	"verif/run"
	"verif/sim"
	"verif/txgen"
)

// TestMakeSeeds writes hand-built scenarios as replay files (run with VERIF_MAKE_SEEDS=<dir>).
func TestMakeSeeds(t *testing.T) {
	dir := os.Getenv("VERIF_MAKE_SEEDS")
	if dir == "" {
		t.Skip("VERIF_MAKE_SEEDS not set")
	}
	_ = os.MkdirAll(dir, 0o755)
	fee := txgen.DefaultFee()
	olt := func(n int64) *big.Int { return new(big.Int).Mul(big.NewInt(n), dlgrw.E18) }
	mk := func(c *Case, txs ...txgen.Tx) {
		spec := sim.BlockSpec{GapSecs: 5}
		for _, x := range txs {
			spec.Txs = append(spec.Txs, x.Bytes)
		}
		c.Steps = append(c.Steps, hist.BlockStep(spec, txs))
	}

	// 1. witness: a genesis pending list entry for height 12 is paid in block 1 (and again later)
	{
		p := sim.DefaultParams()
		p.Seed = "c12-pending-prefix"
		c := &Case{Params: p, Profile: "hand:genesis-pending-height-12",
			PrePending: []dlgrw.PrePending{{User: 0, Height: 12, Amount: olt(5).String()}}}
		for i := 0; i < 13; i++ {
			mk(c)
		}
		write(t, dir, "kf-genesis-pending-prefix.json", "maturity-credit", "C12/maturity-credit/genesis-pending-paid-at-other-height", c)
	}

	// 2. regression: two undelegations and two reward withdrawals of one delegator in one block,
	// a second delegator active in the maturity block, genesis active delegations, a donation
	{
		p := sim.DefaultParams()
		p.Seed = "c12-two-in-one-block"
		p.PreDelegations = []sim.PreDeleg{{User: 0, Amount: olt(5000).String()}, {User: 1, Amount: "821"}}
		p.RewardPoolFund = olt(1000000).String()
		g := sim.BuildGenesis(p)
		u := g.U.Users
		c := &Case{Params: p, Profile: "hand:two-in-one-block",
			PrePending: []dlgrw.PrePending{{User: 2, Height: 3, Amount: olt(7).String()}}}
		mk(c, txgen.Delegate(u[1], u[1].Addr, txgen.Amt("OLT", olt(1000000)), fee, "d1"))
		mk(c)
		mk(c, txgen.Undelegate(u[0], u[0].Addr, txgen.Amt("OLT", olt(10)), fee, "u1"),
			txgen.Undelegate(u[0], u[0].Addr, txgen.Amt("OLT", olt(7)), fee, "u2"),
			txgen.DelegWithdrawRewards(u[0], u[0].Addr, txgen.Amt("OLT", big.NewInt(1000)), fee, "w1"),
			txgen.DelegWithdrawRewards(u[0], u[0].Addr, txgen.Amt("OLT", big.NewInt(17)), fee, "w2"),
			txgen.DelegReinvest(u[0], u[0].Addr, txgen.Amt("OLT", big.NewInt(99)), fee, "r1"))
		mk(c, txgen.SendPool(u[3], u[3].Addr, "DelegationPool", txgen.Amt("OLT", olt(3)), fee, "don"))
		mk(c)
		mk(c)
		// maturity block of the undelegations: the delegator is busy in it
		mk(c, txgen.Undelegate(u[0], u[0].Addr, txgen.Amt("OLT", olt(1)), fee, "u3"),
			txgen.Send(u[0], u[0].Addr, u[1].Addr, txgen.Amt("OLT", olt(2)), fee, "s1"),
			txgen.Undelegate(u[1], u[1].Addr, txgen.Amt("OLT", big.NewInt(821)), fee, "u4"))
		for i := 0; i < 5; i++ {
			mk(c)
		}
		write(t, dir, "seed-two-in-one-block.json", "seed", "C12/seed", c)
	}

	// 3. witness (consequence of the reward-year over-distribution, see C13 fixed-short-forecast): reward
	// options with a 2-block cycle, one halt of 200 days in block 6; block 9 opens a cycle in a reward
	// year that is already over-distributed: the reward hook returns early and the reward withdrawal of
	// block 5, due in block 9, is never paid (the undelegation of block 5 is).
	{
		p := sim.DefaultParams()
		p.Seed = "c12-reward-withdrawal-lost"
		p.RewardCycle, p.RewardEstSecs, p.RewardCloseWin = 2, 10, 30
		p.RewardYearShares = []string{"1000000000000000000000"}
		p.RewardBurnout = "50000000000000000"
		p.RewardInterval = 1
		p.Evidence.BlockVotesDiff = 1000
		p.PreDelegations = []sim.PreDeleg{{User: 0, Amount: olt(390000).String()}}
		u := sim.BuildGenesis(p).U.Users
		c := &Case{Params: p, Profile: "hand:reward-withdrawal-due-in-a-failed-reward-block"}
		gap := func(g int64, txs ...txgen.Tx) {
			mk(c, txs...)
			c.Steps[len(c.Steps)-1].Spec.GapSecs = g
		}
		for h := 1; h <= 4; h++ {
			gap(5)
		}
		gap(5, txgen.DelegWithdrawRewards(u[0], u[0].Addr, txgen.Amt("OLT", big.NewInt(1000)), fee, "w1"),
			txgen.Undelegate(u[0], u[0].Addr, txgen.Amt("OLT", big.NewInt(77)), fee, "u1"))
		gap(200 * 86400)
		for h := 7; h <= 14; h++ {
			gap(1)
		}
		write(t, dir, "kf-reward-withdrawal-lost.json", "maturity-credit", "C12/maturity-credit/reward-withdrawal-not-paid-in-a-block-without-reward-processing", c)
	}
}

func write(t *testing.T, dir, name, oracle, sig string, c *Case) {
	cb, _ := json.Marshal(c)
	f := run.Failure{Property: "C12", Test: "TestReplay", Oracle: oracle, Message: "hand-built scenario", Sig: sig, Case: cb}
	b, _ := json.MarshalIndent(f, "", " ")
	if err := os.WriteFile(filepath.Join(dir, name), b, 0o644); err != nil {
		t.Fatal(err)
	}
}
