package c12

import (
	"encoding/json"
	"math/big"
	"os"
	"path/filepath"
	"testing"

	"verif/dlgrw"
	"verif/hist"
	"verif/run"
	"verif/sim"
	"verif/txgen"
)

// TestMakeSeeds writes hand-built scenarios as replay files (run with VERIF_MAKE_SEEDS=<dir>).
func TestMakeSeeds(t *testing.T) {
	dir := os.Getenv("VERIF_MAKE_SEEDS")
	if dir == "" {
		t.Skip("VERIF_MAKE_SEEDS not set")
	}
	_ = os.MkdirAll(dir, 0o755)
	fee := txgen.DefaultFee()
	olt := func(n int64) *big.Int { return new(big.Int).Mul(big.NewInt(n), dlgrw.E18) }
	mk := func(c *Case, txs ...txgen.Tx) {
		spec := sim.BlockSpec{GapSecs: 5}
		for _, x := range txs {
			spec.Txs = append(spec.Txs, x.Bytes)
		}
		c.Steps = append(c.Steps, hist.BlockStep(spec, txs))
	}

	// 1. witness: a genesis pending list entry for height 12 is paid in block 1 (and again later)
	{
		p := sim.DefaultParams()
		p.Seed = "c12-pending-prefix"
		c := &Case{Params: p, Profile: "hand:genesis-pending-height-12",
			PrePending: []dlgrw.PrePending{{User: 0, Height: 12, Amount: olt(5).String()}}}
		for i := 0; i < 13; i++ {
			mk(c)
		}
		write(t, dir, "kf-genesis-pending-prefix.json", "maturity-credit", "C12/maturity-credit/genesis-pending-paid-at-other-height", c)
	}

	// 2. regression: two undelegations and two reward withdrawals of one delegator in one block,
	// a second delegator active in the maturity block, genesis active delegations, a donation
	{
		p := sim.DefaultParams()
		p.Seed = "c12-two-in-one-block"
		p.PreDelegations = []sim.PreDeleg{{User: 0, Amount: olt(5000).String()}, {User: 1, Amount: "821"}}
		p.RewardPoolFund = olt(1000000).String()
		g := sim.BuildGenesis(p)
		u := g.U.Users
		c := &Case{Params: p, Profile: "hand:two-in-one-block",
			PrePending: []dlgrw.PrePending{{User: 2, Height: 3, Amount: olt(7).String()}}}
		mk(c, txgen.Delegate(u[1], u[1].Addr, txgen.Amt("OLT", olt(1000000)), fee, "d1"))
		mk(c)
		mk(c, txgen.Undelegate(u[0], u[0].Addr, txgen.Amt("OLT", olt(10)), fee, "u1"),
			txgen.Undelegate(u[0], u[0].Addr, txgen.Amt("OLT", olt(7)), fee, "u2"),
			txgen.DelegWithdrawRewards(u[0], u[0].Addr, txgen.Amt("OLT", big.NewInt(1000)), fee, "w1"),
			txgen.DelegWithdrawRewards(u[0], u[0].Addr, txgen.Amt("OLT", big.NewInt(17)), fee, "w2"),
			txgen.DelegReinvest(u[0], u[0].Addr, txgen.Amt("OLT", big.NewInt(99)), fee, "r1"))
		mk(c, txgen.SendPool(u[3], u[3].Addr, "DelegationPool", txgen.Amt("OLT", olt(3)), fee, "don"))
		mk(c)
		mk(c)
		// maturity block of the undelegations: the delegator is busy in it
		mk(c, txgen.Undelegate(u[0], u[0].Addr, txgen.Amt("OLT", olt(1)), fee, "u3"),
			txgen.Send(u[0], u[0].Addr, u[1].Addr, txgen.Amt("OLT", olt(2)), fee, "s1"),
			txgen.Undelegate(u[1], u[1].Addr, txgen.Amt("OLT", big.NewInt(821)), fee, "u4"))
		for i := 0; i < 5; i++ {
			mk(c)
		}
		write(t, dir, "seed-two-in-one-block.json", "seed", "C12/seed", c)
	}
}

func write(t *testing.T, dir, name, oracle, sig string, c *Case) {
	cb, _ := json.Marshal(c)
	f := run.Failure{Property: "C12", Test: "TestReplay", Oracle: oracle, Message: "hand-built scenario", Sig: sig, Case: cb}
	b, _ := json.MarshalIndent(f, "", " ")
	if err := os.WriteFile(filepath.Join(dir, name), b, 0o644); err != nil {
		t.Fatal(err)
	}
}
