package c02

import (
	"encoding/json"
	"math/big"
	"os"
	"path/filepath"
	"testing"

	ethcrypto "github.com/ethereum/go-ethereum/crypto"

	agov "github.com/Oneledger/protocol/action/governance"
	"github.com/Oneledger/protocol/data/balance"
	"github.com/Oneledger/protocol/data/governance"

	"verif/hist"
	"verif/run"
	"verif/sim"
	"verif/txgen"
)

// TestMakeSeeds writes hand-built minimal traces as replay files (run with VERIF_MAKE_SEEDS=<dir>).
func TestMakeSeeds(t *testing.T) {
	dir := os.Getenv("VERIF_MAKE_SEEDS")
	if dir == "" {
		t.Skip("VERIF_MAKE_SEEDS not set")
	}
	_ = os.MkdirAll(dir, 0o755)

	// a contract holding 19 units destroys itself in favour of its caller: the caller was credited and
	// the contract's balance record stayed (repaired in /repo by 1c9f63d; regression input that must pass)
	{
		p := sim.DefaultParams()
		p.Seed = "seed-selfdestruct"
		g := sim.BuildGenesis(p)
		e := g.U.Eth[0]
		fee := txgen.Fee{Price: big.NewInt(1000000000), Cur: "OLT", Gas: 300000}
		tr := &hist.Trace{Params: p, Roles: hist.Roles(p, 1), Profile: "hand:selfdestruct"}
		block := func(tags [][]string, txs ...txgen.Tx) {
			spec := sim.BlockSpec{GapSecs: 5}
			for i := range txs {
				spec.Txs = append(spec.Txs, txs[i].Bytes)
				if i < len(tags) {
					txs[i].Tags = tags[i]
				}
			}
			tr.Steps = append(tr.Steps, hist.BlockStep(spec, txs))
		}
		block(nil)
		// init code returning the runtime 0x33ff = SELFDESTRUCT(CALLER)
		init := []byte{0x60, 0x02, 0x60, 0x0c, 0x60, 0x00, 0x39, 0x60, 0x02, 0x60, 0x00, 0xf3, 0x33, 0xff}
		block([][]string{{"olvm-create"}}, txgen.OLVM(e, txgen.OLVMArgs{ChainID: p.ChainID, Nonce: 0, Value: big.NewInt(19), Data: init, Fee: fee}))
		c := ethcrypto.CreateAddress(e.Addr, 0)
		block([][]string{{"olvm-call"}}, txgen.OLVM(e, txgen.OLVMArgs{ChainID: p.ChainID, Nonce: 1, To: &c, Data: make([]byte, 32), Fee: fee}))
		block(nil)
		write(t, dir, "fixed-olvm-selfdestruct-keeps-balance.json", "value-created", "C02/value-created/OLT/OLVM/selfdestruct", tr)
	}

	// PROPOSAL_WITHDRAW_FUNDS with a negative amount: the escrow grew and the named beneficiary was debited
	// (repaired in /repo by d01f7bb; regression input that must pass)
	{
		p := sim.DefaultParams()
		p.Seed = "seed-withdraw-funds-negative"
		g := sim.BuildGenesis(p)
		u := g.U.Users
		fee := txgen.DefaultFee()
		tr := &hist.Trace{Params: p, Roles: hist.Roles(p, 1), Profile: "hand:withdraw-funds-negative"}
		block := func(tags [][]string, txs ...txgen.Tx) {
			spec := sim.BlockSpec{GapSecs: 5}
			for i := range txs {
				spec.Txs = append(spec.Txs, txs[i].Bytes)
				if i < len(tags) {
					txs[i].Tags = tags[i]
				}
			}
			tr.Steps = append(tr.Steps, hist.BlockStep(spec, txs))
		}
		block(nil)
		id := txgen.ProposalID("seed-p1")
		initial, _ := new(big.Int).SetString(p.PropInitialFunding, 10)
		goal, _ := new(big.Int).SetString(p.PropFundingGoal, 10)
		// created in block 2, funding deadline 3: from block 4 on the funds can be withdrawn
		m := agov.CreateProposal{ProposalID: id, ProposalType: governance.ProposalTypeGeneral, Headline: "h", Description: "d", Proposer: u[0].Addr,
			InitialFunding: txgen.Amt("OLT", initial), FundingDeadline: 3, FundingGoal: balance.NewAmountFromBigInt(goal),
			VotingDeadline: 3 + p.PropVotingDL, PassPercentage: p.PropPassPct}
		block([][]string{{"amt-ok"}}, txgen.ProposalCreate(u[0], m, fee, "m1"))
		block(nil)
		neg := new(big.Int).Neg(new(big.Int).Lsh(big.NewInt(1), 200))
		block([][]string{{"amt-neg-huge", "addr-user", "cur-ok"}}, txgen.ProposalWithdrawFunds(u[0], id, u[0].Addr, u[1].Addr, txgen.Amt("OLT", neg), fee, "m2"))
		block(nil)
		write(t, dir, "fixed-withdraw-funds-negative.json", "negative-amount", "C02/negative-amount/balance/PROPOSAL_WITHDRAW_FUNDS/amt-neg", tr)
	}

	// WITHDRAW_REWARD with a negative amount: the validator's "withdrawn" total is stored negative
	{
		p := sim.DefaultParams()
		p.Seed = "seed-withdraw-reward-negative"
		g := sim.BuildGenesis(p)
		v := g.U.Vals[0]
		tr := &hist.Trace{Params: p, Roles: hist.Roles(p, 1), Profile: "hand:withdraw-reward-negative"}
		tx := txgen.WithdrawReward(v.Key.Addr, v.Stake.Addr, txgen.Amt("OLT", big.NewInt(-3)), txgen.DefaultFee(), "m1", v.Stake)
		tx.Tags = []string{"amt-neg", "cur-ok"}
		empty := sim.BlockSpec{GapSecs: 5}
		tr.Steps = append(tr.Steps, hist.BlockStep(empty, nil))
		tr.Steps = append(tr.Steps, hist.BlockStep(sim.BlockSpec{GapSecs: 5, Txs: [][]byte{tx.Bytes}}, []txgen.Tx{tx}))
		tr.Steps = append(tr.Steps, hist.BlockStep(empty, nil))
		write(t, dir, "kf-withdraw-reward-negative.json", "negative-amount", "C02/negative-amount/validator-reward-record/WITHDRAW_REWARD/amt-neg", tr)
	}
}

func write(t *testing.T, dir, name, oracle, sig string, tr *hist.Trace) {
	cb, _ := json.Marshal(tr)
	f := run.Failure{Property: "C02", Test: "TestReplay", Oracle: oracle, Message: "hand-built minimal witness", Sig: sig, Case: cb}
	b, _ := json.MarshalIndent(f, "", " ")
	if err := os.WriteFile(filepath.Join(dir, name), b, 0o644); err != nil {
		t.Fatal(err)
	}
}
