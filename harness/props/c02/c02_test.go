// Package c02: no value creation — per currency, the total of all value on chain never grows across a
// block except by the delegation rewards accrued in that block (OLT) and by locks / failed-redeem
// refunds that reached witness finality in that block (wrapped currencies); no stored amount is negative.
package c02

import (
	"bytes"
	"encoding/json"
	"fmt"
	"math/big"
	"os"
	"sort"
	"strings"
	"testing"

	ethcmn "github.com/ethereum/go-ethereum/common"
	"pgregory.net/rapid"

	"verif/hist"
	"verif/ledger"
	"verif/run"
	"verif/sim"
	"verif/txgen"
)

func TestMain(m *testing.M) {
	run.Quiet()
	os.Exit(m.Run())
}

type outcome struct {
	oracle string
	sig    string
	msg    string
}

// blockFacts is what one executed block contributes to the statistics.
type blockFacts struct {
	nonTrivial bool
	key        string
	classes    []string
}

// hostile value-class tags: a successful transaction carrying one of them is the first suspect.
func hostileTag(t string) bool {
	switch {
	case strings.HasPrefix(t, "amt-neg"), t == "amt-zero", t == "amt-over", t == "amt-all", strings.HasPrefix(t, "amt-2^"),
		t == "cur-unknown", t == "cur-other", t == "addr-nil", t == "addr-empty", t == "addr-19", t == "addr-21", t == "addr-pool", t == "addr-supply",
		t == "val-nonexistent", t == "enum-out", t == "idx-out":
		return true
	}
	return false
}

func splitTags(tags []string) []string {
	var out []string
	for _, t := range tags {
		for _, p := range strings.Split(t, ",") {
			if p != "" {
				out = append(out, p)
			}
		}
	}
	return out
}

// normTag folds the negative / oversized amount classes into one tag each.
func normTag(t string) string {
	switch {
	case strings.HasPrefix(t, "amt-neg"):
		return "amt-neg"
	case strings.HasPrefix(t, "amt-2^"):
		return "amt-huge"
	}
	return t
}

// blame names the transaction class most likely responsible, as "<KIND>/<detail>": successful
// transactions with hostile arguments first (detail = the hostile tag), then any successful
// transaction, else the block hooks. For OLVM the detail says whether a contract was destroyed.
func blame(prev, cur *ledger.Ledger, st hist.Step, res *sim.BlockRes) string {
	var hostile, ok []string
	for i, t := range res.Txs {
		if t.Code != 0 || i >= len(st.Kinds) {
			continue
		}
		k := st.Kinds[i]
		detail := "-"
		if k == "OLVM" {
			for a := range prev.Contracts {
				if !cur.EVMAccts[a] {
					detail = "selfdestruct"
				}
			}
		}
		ok = append(ok, k+"/"+detail)
		if i < len(st.Tags) {
			for _, tg := range splitTags(st.Tags[i]) {
				if hostileTag(tg) {
					hostile = append(hostile, k+"/"+normTag(tg))
					break
				}
			}
		}
	}
	pick := func(l []string) string {
		sort.Strings(l)
		return l[0]
	}
	if len(hostile) > 0 {
		return pick(hostile)
	}
	if len(ok) > 0 {
		return pick(ok)
	}
	return "hooks"
}

// olvmData extracts the call data / init code of an OLVM transaction.
func olvmData(tx []byte) []byte {
	var stx struct {
		Data []byte `json:"data"`
	}
	if json.Unmarshal(tx, &stx) != nil {
		return nil
	}
	var m struct {
		Data []byte `json:"data"`
	}
	if json.Unmarshal(stx.Data, &m) != nil {
		return nil
	}
	return m.Data
}

// ethRawOf extracts the embedded ethereum transaction of a lock / redeem transaction.
func ethRawOf(tx []byte) []byte {
	var stx struct {
		Data []byte `json:"data"`
	}
	if json.Unmarshal(tx, &stx) != nil {
		return nil
	}
	var m struct {
		ETHTxn []byte
	}
	if json.Unmarshal(stx.Data, &m) != nil {
		return nil
	}
	return m.ETHTxn
}

func bigOf(m map[string]*big.Int, k string) *big.Int {
	if v := m[k]; v != nil {
		return v
	}
	return new(big.Int)
}

// perBlockRewardCap is a bound on what one block can pull from the reward schedule that does not
// depend on the application's state or events: the calculator returns either
// (year supply - distributed) / (number of remaining blocks >= 1) <= year supply, or the burnout rate.
func perBlockRewardCap(p sim.Params) *big.Int {
	c := new(big.Int)
	for _, s := range append(append([]string{}, p.RewardYearShares...), p.RewardBurnout) {
		if v, ok := new(big.Int).SetString(s, 10); ok && v.Cmp(c) > 0 {
			c = v
		}
	}
	return c
}

var tokenCurrency = map[ethcmn.Address]string{sim.TestTokenContract: "TTC"}

// checkBlock applies the C02 oracles to one committed block.
func checkBlock(p sim.Params, prev, cur *ledger.Ledger, st hist.Step, res *sim.BlockRes) (*outcome, blockFacts) {
	var f blockFacts
	h := res.Height
	who := blame(prev, cur, st, res)

	// (1) no stored amount is negative
	if neg := cur.Negatives(); len(neg) > 0 {
		var s []string
		for i, n := range neg {
			if i < 4 {
				s = append(s, n.String())
			}
		}
		return &outcome{"negative-amount", "C02/negative-amount/" + neg[0].Class + "/" + who,
			fmt.Sprintf("height %d: %d stored amount(s) negative after commit: %s (successful kinds in the block: %s)", h, len(neg), strings.Join(s, "; "), okKinds(st, res))}, f
	}
	// (2) stake cross-sums
	if bad := cur.StakeCrossSums(); len(bad) > 0 {
		return &outcome{"stake-cross-sum", "C02/stake-cross-sum/" + who,
			fmt.Sprintf("height %d: %s (successful kinds in the block: %s)", h, strings.Join(bad[:min(len(bad), 3)], "; "), okKinds(st, res))}, f
	}

	// (3) allowed growth
	allowed := map[string]*big.Int{}
	var hooks []string
	// OLT: delegation rewards accrued in this block (the application's cumulative accrual counter moves only
	// when the block-reward hook credits a delegator's reward balance)
	accrued := new(big.Int).Sub(cur.ClaimsAccrued, prev.ClaimsAccrued)
	if accrued.Sign() < 0 {
		return &outcome{"claims-accrual", "C02/claims-accrual/counter-decreased",
			fmt.Sprintf("height %d: the cumulative delegation-reward counter went down from %s to %s", h, prev.ClaimsAccrued, cur.ClaimsAccrued)}, f
	}
	if accrued.Sign() > 0 {
		hooks = append(hooks, "rewards-accrued")
		// sanity bounds on the accrual itself (independent of the counter):
		// (a) nothing accrues when the delegation pool was empty at the start of the block
		pool := new(big.Int)
		for _, e := range prev.Entries {
			if e.Class == ledger.Balance && e.Cur == "OLT" && e.Owner == ledger.OwnerOfRawString(ledger.DelegationPool) {
				pool = e.Amt
			}
		}
		if pool.Sign() == 0 {
			return &outcome{"claims-accrual", "C02/claims-accrual/empty-pool",
				fmt.Sprintf("height %d: %s of delegation rewards accrued although the delegation pool was empty at the start of the block", h, accrued)}, f
		}
		// (b) never more than one block can pull from the schedule at all
		if capv := perBlockRewardCap(p); accrued.Cmp(capv) > 0 {
			return &outcome{"claims-accrual", "C02/claims-accrual/above-schedule-cap",
				fmt.Sprintf("height %d: %s of delegation rewards accrued in one block, more than any block can pull from the schedule (%s)", h, accrued, capv)}, f
		}
		// (c) never more than the block's delegation share announced by the reward hook
		for _, ev := range res.Begin.Events {
			if ev.Type != "block_rewards" {
				continue
			}
			for _, a := range ev.Attributes {
				if string(a.Key) == ledger.OwnerOfRawString(ledger.DelegationPool) {
					if share, ok := new(big.Int).SetString(string(a.Value), 10); ok && accrued.Cmp(share) > 0 {
						return &outcome{"claims-accrual", "C02/claims-accrual/above-announced-share",
							fmt.Sprintf("height %d: %s of delegation rewards accrued, more than the delegators' share of this block (%s)", h, accrued, share)}, f
					}
				}
			}
		}
	}
	allowed["OLT"] = accrued

	// wrapped currencies: trackers that crossed the witness threshold in this block
	rawByName := map[string][]byte{}
	for i, k := range st.Kinds {
		switch k {
		case "ETH_LOCK", "ERC20_LOCK", "ETH_REDEEM", "ERC20_REDEEM":
			if i < len(st.Spec.Txs) {
				if raw := ethRawOf(st.Spec.Txs[i]); raw != nil {
					rawByName[strings.ToLower(txgen.TrackerName(raw).Hex())] = raw
				}
			}
		}
	}
	for _, c := range ledger.Crossings(prev, cur, rawByName) {
		cur := ""
		switch {
		case c.Released && c.Type == ledger.TypeLock:
			cur = "ETH"
			hooks = append(hooks, "lock-minted")
		case c.Released && c.Type == ledger.TypeLockERC:
			hooks = append(hooks, "erc20-lock-minted")
		case !c.Released && c.Type == ledger.TypeRedeem:
			cur = "ETH"
			hooks = append(hooks, "redeem-refunded")
		case c.Released:
			hooks = append(hooks, "redeem-released")
			continue
		default:
			hooks = append(hooks, "tracker-failed")
			continue
		}
		if len(c.RawTx) == 0 {
			return &outcome{"harness", "C02/harness/tracker-without-tx", fmt.Sprintf("height %d: tracker %s crossed the threshold but its embedded transaction is nowhere to be found", h, c.Name)}, f
		}
		tok, amt, err := ledger.TrackerAmount(c.Type, c.RawTx)
		if err != nil {
			return &outcome{"harness", "C02/harness/tracker-decode", fmt.Sprintf("height %d: tracker %s: %v", h, c.Name, err)}, f
		}
		if c.Type == ledger.TypeLockERC {
			if tok == nil || tokenCurrency[*tok] == "" {
				return &outcome{"harness", "C02/harness/unknown-token", fmt.Sprintf("height %d: tracker %s locks an unknown token", h, c.Name)}, f
			}
			cur = tokenCurrency[*tok]
		}
		if allowed[cur] == nil {
			allowed[cur] = new(big.Int)
		}
		allowed[cur].Add(allowed[cur], amt)
	}

	hooks = append(hooks, hookFacts(prev, cur, h)...)

	tp, tc := prev.Totals(), cur.Totals()
	curs := map[string]bool{}
	for c := range tp {
		curs[c] = true
	}
	for c := range tc {
		curs[c] = true
	}
	var sorted []string
	for c := range curs {
		sorted = append(sorted, c)
	}
	sort.Strings(sorted)
	changed := false
	for _, c := range sorted {
		d := new(big.Int).Sub(bigOf(tc, c), bigOf(tp, c))
		if d.Sign() != 0 {
			changed = true
		}
		if d.Cmp(bigOf(allowed, c)) > 0 {
			return &outcome{"value-created", "C02/value-created/" + c + "/" + who,
				fmt.Sprintf("height %d: total %s grew by %s (from %s to %s) but only %s is allowed in this block (hooks: %v); per class before %v, after %v; successful kinds in the block: %s; changed records: %s",
					h, c, d, bigOf(tp, c), bigOf(tc, c), bigOf(allowed, c), hooks, prev.TotalsByClass()[c], cur.TotalsByClass()[c], okKinds(st, res), changedRecords(prev, cur, c))}, f
		}
	}

	// ---- statistics: non-triviality and classes ----
	if !changed {
		changed = valueMoved(prev, cur)
	}
	var parts []string
	nOK := 0
	for i, t := range res.Txs {
		k := "?"
		if i < len(st.Kinds) {
			k = st.Kinds[i]
		}
		okS := "rej"
		if t.Code == 0 {
			okS = "ok"
			nOK++
		}
		tg := ""
		if i < len(st.Tags) {
			tg = strings.Join(splitTags(st.Tags[i]), ",")
		}
		parts = append(parts, k+"["+tg+"]"+okS)
		f.classes = append(f.classes, okS+":"+k)
		if t.Code == 0 && i < len(st.Tags) {
			for _, x := range splitTags(st.Tags[i]) {
				if hostileTag(x) {
					f.classes = append(f.classes, "ok-with:"+k+":"+x)
				}
			}
		}
	}
	sort.Strings(parts)
	sort.Strings(hooks)
	for _, hk := range hooks {
		f.classes = append(f.classes, "hook:"+hk)
	}
	if len(cur.ProposalFundMismatches()) > len(prev.ProposalFundMismatches()) {
		// observation for the governance properties (not a C02 oracle): the per-funder shares of an escrow
		// no longer add up to the escrow record
		f.classes = append(f.classes, "obs:proposal-funder-shares-differ-from-escrow")
	}
	if nOK == 0 && len(hooks) == 0 {
		f.classes = append(f.classes, "block:no-successful-tx-idle-hooks")
	}
	f.nonTrivial = changed && (nOK > 0 || len(hooks) > 0 || valueMoved(prev, cur))
	if f.nonTrivial {
		f.classes = append(f.classes, "block:value-moved")
		f.key = strings.Join(parts, ";") + "|" + strings.Join(hooks, ",")
	}
	return nil, f
}

// hookFacts names the block-level hooks that visibly moved value in this block (statistics only).
func hookFacts(prev, cur *ledger.Ledger, h int64) []string {
	var out []string
	sum := func(l *ledger.Ledger, class string) *big.Int {
		s := new(big.Int)
		for _, e := range l.Entries {
			if e.Class == class {
				s.Add(s, e.Amt)
			}
		}
		return s
	}
	if sum(cur, ledger.FeeShare).Cmp(sum(prev, ledger.FeeShare)) > 0 {
		out = append(out, "fees-distributed")
	}
	for _, e := range prev.Entries {
		if e.Height != h || e.Amt.Sign() == 0 {
			continue
		}
		switch e.Class {
		case ledger.StakeUnlocking:
			out = append(out, "unstake-matured")
		case ledger.Undelegating:
			out = append(out, "undelegation-matured")
		case ledger.ClaimPending:
			out = append(out, "reward-withdrawal-matured")
		}
	}
	known := map[string]bool{}
	for _, u := range prev.Unstakes {
		known[u.Key] = true
	}
	for _, u := range cur.Unstakes {
		if !known[u.Key] {
			out = append(out, "guilty-verdict-slash")
		}
	}
	for id, store := range cur.Props {
		if store != prev.Props[id] && (store == "finalized" || store == "finalize-failed") {
			out = append(out, "proposal-"+store)
		}
		if store != prev.Props[id] && (store == "passed" || store == "failed") {
			out = append(out, "proposal-"+store)
		}
	}
	return uniq(out)
}

// changedRecords renders the value records of currency c that differ between two ledgers.
func changedRecords(a, b *ledger.Ledger, c string) string {
	idx := func(l *ledger.Ledger) map[string]*big.Int {
		m := map[string]*big.Int{}
		for _, e := range l.Entries {
			if e.InTotal && e.Cur == c {
				m[e.Key] = e.Amt
			}
		}
		return m
	}
	x, y := idx(a), idx(b)
	ks := map[string]bool{}
	for k := range x {
		ks[k] = true
	}
	for k := range y {
		ks[k] = true
	}
	var sorted []string
	for k := range ks {
		sorted = append(sorted, k)
	}
	sort.Strings(sorted)
	var out []string
	for _, k := range sorted {
		p, q := bigOf(x, k), bigOf(y, k)
		if p.Cmp(q) != 0 {
			out = append(out, fmt.Sprintf("%q %s -> %s (%+d)", k, p, q, new(big.Int).Sub(q, p)))
		}
	}
	if len(out) > 14 {
		out = append(out[:14], "…")
	}
	return strings.Join(out, "; ")
}

// valueMoved reports whether any value record differs between the two ledgers.
func valueMoved(a, b *ledger.Ledger) bool {
	idx := func(l *ledger.Ledger) map[string]string {
		m := map[string]string{}
		for _, e := range l.Entries {
			if e.InTotal || e.InHoldings {
				m[e.Key] = e.Amt.String()
			}
		}
		return m
	}
	x, y := idx(a), idx(b)
	if len(x) != len(y) {
		return true
	}
	for k, v := range x {
		if y[k] != v {
			return true
		}
	}
	return false
}

func okKinds(st hist.Step, res *sim.BlockRes) string {
	var ok []string
	for i, t := range res.Txs {
		if t.Code == 0 && i < len(st.Kinds) {
			tg := ""
			if i < len(st.Tags) {
				tg = strings.Join(splitTags(st.Tags[i]), ",")
			}
			ok = append(ok, st.Kinds[i]+"["+tg+"]")
		}
	}
	if len(ok) == 0 {
		return "none"
	}
	return strings.Join(ok, " ")
}

// execute runs a trace on ONE replica and checks every committed block. When draw != nil steps are
// generated on the fly (and journalled before they execute).
func execute(h *run.H, tr *hist.Trace, draw func(w *hist.World, i int) (hist.Step, []txgen.Tx, bool), onBlock func(blockFacts, hist.Step)) *outcome {
	w, err := hist.NewWorld(tr.Params, tr.Roles[:1])
	if err != nil {
		return &outcome{"harness", "C02/harness", "cannot build world: " + err.Error()}
	}
	defer w.Close()
	if _, err := w.Init(); err != nil {
		return &outcome{"harness", "C02/harness", "InitChain: " + err.Error()}
	}
	prev, err := ledger.Decode(w.R[0].DumpMap())
	if err != nil {
		return &outcome{"decode", "C02/decode/genesis", "genesis state: " + err.Error()}
	}
	if neg := prev.Negatives(); len(neg) > 0 {
		return &outcome{"harness", "C02/harness/genesis-negative", fmt.Sprintf("generated genesis holds negative amounts: %v", neg)}
	}
	for i := 0; ; i++ {
		var st hist.Step
		var txs []txgen.Tx
		if draw != nil {
			s, t, ok := draw(w, i)
			if !ok {
				break
			}
			st, txs = s, t
			tr.Steps = append(tr.Steps, st)
			h.Journal(tr)
		} else {
			if i >= len(tr.Steps) {
				break
			}
			st = tr.Steps[i]
		}
		if st.Kind != "block" {
			continue
		}
		_, res := w.RunBlock(*st.Spec)
		if w.R[0].Panicked {
			return &outcome{"node-panic", "C02/node-panic/" + strings.Join(uniq(st.Kinds), "+"),
				fmt.Sprintf("the application panicked in %s at height %d (kinds %v, tags %v) and shut itself down", w.R[0].PanicCall, w.C.Height, st.Kinds, st.Tags)}
		}
		cur, err := ledger.Decode(w.R[0].DumpMap())
		if err != nil {
			return &outcome{"decode", "C02/decode", fmt.Sprintf("height %d: %v", w.C.Height, err)}
		}
		if pre := os.Getenv("VERIF_DEBUG_KEYS"); pre != "" {
			fmt.Fprintf(os.Stderr, "---- height %d kinds %v codes %v\n", w.C.Height, st.Kinds, codes(res[0]))
			for _, kv := range w.R[0].Dump() {
				if strings.HasPrefix(kv.K, pre) {
					fmt.Fprintf(os.Stderr, "  %q = %.700q\n", kv.K, kv.V)
				}
			}
		}
		out, facts := checkBlock(tr.Params, prev, cur, st, res[0])
		if out != nil {
			return out
		}
		if onBlock != nil {
			onBlock(facts, st)
		}
		if txs != nil {
			w.Observe(txs, res[0])
		}
		prev = cur
	}
	return nil
}

func codes(res *sim.BlockRes) []string {
	var out []string
	for _, t := range res.Txs {
		if t.Code == 0 {
			out = append(out, "ok")
		} else {
			out = append(out, "rej:"+t.Log)
		}
	}
	return out
}

func uniq(l []string) []string {
	m := map[string]bool{}
	var out []string
	for _, x := range l {
		if !m[x] {
			m[x] = true
			out = append(out, x)
		}
	}
	sort.Strings(out)
	return out
}

// excludedTx reports whether a drawn transaction belongs to a class excluded by a known finding
// ("KIND:tag"; the tag amt-neg stands for every negative-amount class).
// zeroPowerRestake reports whether tx is a STAKE on a validator whose committed record has no power, or
// that has no record while the delegation store still holds a locked total for it (known finding owned
// by C11: the block end deletes such a record, a later UNSTAKE drives the new record negative and the
// negative total power kills the node in the fee distribution).
func zeroPowerRestake(w *hist.World, tx txgen.Tx) bool {
	if tx.Kind != "STAKE" || w == nil {
		return false
	}
	var m struct {
		ValidatorAddress string
	}
	if json.Unmarshal(msgBytes(tx.Bytes), &m) != nil || m.ValidatorAddress == "" {
		return false
	}
	for _, r := range w.ValRecs() {
		if r.Address.String() == m.ValidatorAddress {
			return r.Power <= 0
		}
	}
	return hist.ParseAmt(w.Get("st__t_"+m.ValidatorAddress)).Sign() > 0
}

func msgBytes(tx []byte) []byte {
	var stx struct {
		Data []byte `json:"data"`
	}
	if json.Unmarshal(tx, &stx) != nil {
		return nil
	}
	return stx.Data
}

func excludedTx(h *run.H, w *hist.World, tx txgen.Tx) bool {
	if zeroPowerRestake(w, tx) && h.Excluded("STAKE:zero-power-record") {
		return true
	}
	// known finding: a destroyed contract keeps its balance record (value duplicated); contracts whose
	// runtime is SELFDESTRUCT(caller) are not deployed while the finding is open
	if tx.Kind == "OLVM" && bytes.HasSuffix(olvmData(tx.Bytes), []byte{0x33, 0xff}) && h.Excluded("OLVM:selfdestruct-contract") {
		return true
	}
	for _, t := range splitTags(tx.Tags) {
		cands := []string{tx.Kind + ":" + t}
		if strings.HasPrefix(t, "amt-neg") && t != "amt-neg" {
			cands = append(cands, tx.Kind+":amt-neg")
		}
		if strings.HasPrefix(t, "amt-2^") {
			cands = append(cands, tx.Kind+":amt-huge")
		}
		for _, c := range cands {
			if h.Excluded(c) {
				return true
			}
		}
	}
	return false
}

// drawTxs draws the next block's transactions (single draws and composite bursts) and drops draws of
// classes excluded by a known finding (counted as excluded draws).
func drawTxs(h *run.H, g *hist.Gen, max int) []txgen.Tx {
	var out []txgen.Tx
	for _, tx := range g.DrawTxs(max) {
		if !excludedTx(h, g.W, tx) {
			out = append(out, tx)
		}
	}
	return out
}

const rule = "generated genesis configuration x block history (all transaction families, 9 focus profiles, hostile amount / currency / address pools on 25-35% of the argument draws, 10% inapplicable choices) executed on one replica; the unit is one committed block: the dump is decoded into the per-currency ledger before and after it and total(H) - total(H-1) <= allowed(H) is checked per currency (OLT: delegation rewards accrued in the block, bounded by the per-block schedule cap, the announced delegators' share and zero when the pool was empty; ETH/TTC: locks and failed-redeem refunds whose tracker crossed the witness threshold in the block), every decoded amount >= 0, stake cross-sums; non-trivial = a block in which some value record changed (a successful value-moving transaction or a hook that moved value); distinct by the multiset of (kind, value-class tags, success) of the block plus the hooks that fired"

func TestC02(t *testing.T) {
	h := run.Start(t, "C02")
	defer h.Finish()
	h.SetRule(rule)
	maxBlocks := h.Scale(30, 60)
	rapid.Check(t, func(rt *rapid.T) {
		p := hist.GenParams(rt, fmt.Sprint(h.Seed))
		prof := hist.PickProfile(rt)
		hostile := []int{25, 30, 35}[hist.NewU(rt).N(3, "hostile")]
		tr := &hist.Trace{Params: p, Roles: hist.Roles(p, 1), Profile: prof}
		nb := rapid.IntRange(4, maxBlocks).Draw(rt, "nblocks")
		var g *hist.Gen
		blocks := 0
		h.Class("history", 1)
		h.Class("profile-"+prof, 1)
		out := execute(h, tr, func(w *hist.World, i int) (hist.Step, []txgen.Tx, bool) {
			if g == nil {
				g = &hist.Gen{W: w, T: rt, Hostile: hostile, Strange: 10, Kinds: hist.Profiles[prof], Excl: h.Excluded, Seen: map[string]int{}, TagsN: map[string]int{}}
			}
			if blocks >= nb {
				return hist.Step{}, nil, false
			}
			txs := drawTxs(h, g, 5)
			spec := g.DrawEnv(txs)
			blocks++
			return hist.BlockStep(spec, txs), txs, true
		}, func(f blockFacts, st hist.Step) {
			key := ""
			if f.nonTrivial {
				key = f.key
			}
			h.Eval(key, f.classes, map[string]interface{}{"profile": prof, "validators": len(p.ValPower), "fork": p.Frankenstein, "block": f.key})
		})
		if out != nil {
			h.Fail(rt, out.oracle, out.sig, tr, "%s", out.msg)
		}
	})
}

func TestReplay(t *testing.T) {
	path := run.ReplayFile()
	if path == "" {
		t.Skip("no VERIF_REPLAY")
	}
	f, err := run.LoadFailure(path)
	if err != nil {
		t.Fatal(err)
	}
	var tr hist.Trace
	if err := json.Unmarshal(f.Case, &tr); err != nil {
		t.Fatal(err)
	}
	if len(tr.Roles) == 0 {
		tr.Roles = hist.Roles(tr.Params, 1)
	}
	h := run.Start(t, "C02")
	defer h.Finish()
	if out := execute(h, &tr, nil, nil); out != nil {
		h.Fail(t, out.oracle, out.sig, &tr, "%s", out.msg)
	}
}

func min(a, b int) int {
	if a < b {
		return a
	}
	return b
}
