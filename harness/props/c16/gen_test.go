package c16

import (
	"math/big"

	ethcmn "github.com/ethereum/go-ethereum/common"
)

// ---- part (b): bytecode programs from a small grammar -----------------------------------------
//
// A generated contract is a dispatcher on the first calldata byte with 1..4 branches. Every branch
// is a list of stack-neutral statements followed by a terminator. Memory layout: 0x00.. call input
// (selector byte, argument word at 1), 0x40 call output word, 0x80.. observations (every value a
// statement observes is stored there and returned, so a wrong read shows in the return data),
// 0x400.. init code of children. Calldata: byte 0 selector, bytes 1..32 one argument word.

const (
	memIn   = 0x00
	memOut  = 0x40
	memObs  = 0x80
	memInit = 0x400
	maxObs  = 12
)

type focus struct {
	name                                                                          string
	sstore, sstoreSeq, sload, call, create, logw, obsAcc, obsEnv, arith, loop, cond int
	raw                                                                           int
	tStop, tReturn, tRevert, tKill, tInvalid, tSpin                               int
}

var focuses = []focus{
	{name: "storage", sstore: 30, sstoreSeq: 14, sload: 10, call: 10, create: 2, logw: 3, obsAcc: 3, obsEnv: 1, arith: 2, loop: 6, cond: 6,
		tStop: 10, tReturn: 60, tRevert: 15, tKill: 4, tInvalid: 3, tSpin: 4},
	{name: "calls", sstore: 14, sstoreSeq: 4, sload: 6, call: 36, create: 4, logw: 5, obsAcc: 8, obsEnv: 2, arith: 2, loop: 4, cond: 6,
		tStop: 8, tReturn: 54, tRevert: 20, tKill: 8, tInvalid: 4, tSpin: 3},
	{name: "lifecycle", sstore: 16, sstoreSeq: 3, sload: 8, call: 16, create: 22, logw: 3, obsAcc: 12, obsEnv: 1, arith: 1, loop: 2, cond: 5,
		tStop: 8, tReturn: 46, tRevert: 12, tKill: 28, tInvalid: 2, tSpin: 3},
	{name: "mixed", sstore: 12, sstoreSeq: 5, sload: 8, call: 14, create: 8, logw: 8, obsAcc: 10, obsEnv: 8, arith: 8, loop: 5, cond: 6,
		tStop: 10, tReturn: 54, tRevert: 14, tKill: 10, tInvalid: 4, tSpin: 3},
}

// pool is the generator's view of interesting addresses.
type pool struct {
	eoas      []ethcmn.Address
	others    []ethcmn.Address // native-only, hollow, fresh, precompiles
	contracts []ethcmn.Address
}

func (p *pool) all() []ethcmn.Address {
	out := append([]ethcmn.Address{}, p.contracts...)
	out = append(out, p.eoas...)
	return append(out, p.others...)
}

type progGen struct {
	c        chooser
	f        focus
	p        *pool
	rawOK    bool
	excluded map[string]int // excluded draws (BASEFEE)
	ex       *exclusions
}

func (g *progGen) w(ws ...int) int {
	t := 0
	for _, x := range ws {
		t += x
	}
	if t <= 0 {
		return 0
	}
	x := g.c.Int(0, t-1, "w")
	for i, y := range ws {
		if x < y {
			return i
		}
		x -= y
	}
	return len(ws) - 1
}

var wordPool = []*big.Int{
	big.NewInt(0), big.NewInt(1), big.NewInt(2), big.NewInt(7), big.NewInt(0xe29bbc),
	new(big.Int).Sub(new(big.Int).Lsh(big.NewInt(1), 256), big.NewInt(1)),
}

// ctr is the per-contract assembly context.
type ctr struct {
	a       *asm
	obsN    int
	fail    string // label of the shared revert
	kids    []kid
	depth   int
	inLoop  bool
}

type kid struct {
	label string
	init  []byte
}

// obs stores the value on top of the stack into the next observation cell.
func (g *progGen) obs(c *ctr) {
	off := memObs + 32*(c.obsN%maxObs)
	c.obsN++
	c.a.push(uint64(off)).op(opMSTORE)
}

func (g *progGen) pushArg(c *ctr) { c.a.push(1).op(opCALLDATALOAD) }

// pushSlot pushes a storage slot: a small constant or one derived from the argument.
func (g *progGen) pushSlot(c *ctr) {
	switch g.w(70, 15, 15) {
	case 0:
		c.a.push(uint64(g.c.Int(0, 2, "slot")))
	case 1:
		g.pushArg(c)
		c.a.push(3).op(opAND)
	default:
		c.a.push(3)
	}
}

// pushAddrExpr pushes an address.
func (g *progGen) pushAddrExpr(c *ctr) {
	switch g.w(30, 10, 8, 8, 4, 14, 12, 8, 4, 4) {
	case 9:
		c.a.pushAddr(preRipemd) // a zero-value call touches it and that touch survives reverts
		return
	case 0:
		if len(g.p.contracts) > 0 {
			c.a.pushAddr(g.p.contracts[g.c.Int(0, len(g.p.contracts)-1, "ctr")])
			return
		}
		c.a.op(opADDRESS)
	case 1:
		c.a.op(opADDRESS)
	case 2:
		c.a.op(opCALLER)
	case 3:
		c.a.op(opORIGIN)
	case 4:
		c.a.op(opCOINBASE)
	case 5:
		g.pushArg(c)
	case 6:
		c.a.pushAddr(g.p.others[g.c.Int(0, len(g.p.others)-1, "oth")])
	case 7:
		c.a.pushAddr(g.p.eoas[g.c.Int(0, len(g.p.eoas)-1, "eoa")])
	default:
		// the child address a create statement left in slot 3
		c.a.push(3).op(opSLOAD)
	}
}

func (g *progGen) pushWord(c *ctr) {
	c.a.pushBig(wordPool[g.c.Int(0, len(wordPool)-1, "word")])
}

// pushValExpr pushes a value to store.
func (g *progGen) pushValExpr(c *ctr, slotConst int) {
	switch g.w(45, 20, 20, 8, 7) {
	case 0:
		g.pushWord(c)
	case 1:
		g.pushArg(c)
	case 2:
		// SLOAD(slot)+1
		if slotConst >= 0 {
			c.a.push(uint64(slotConst))
		} else {
			c.a.push(uint64(g.c.Int(0, 2, "slot")))
		}
		c.a.op(opSLOAD).push(1).op(opADD)
	case 3:
		c.a.op(opCALLVALUE)
	default:
		c.a.push(0)
	}
}

func (g *progGen) stSstore(c *ctr) {
	g.pushValExpr(c, -1)
	g.pushSlot(c)
	c.a.op(opSSTORE)
}

// stSstoreSeq writes the same slot 2..4 times: the original / dirty / cleared / restored patterns of EIP-2200, 2929, 3529.
func (g *progGen) stSstoreSeq(c *ctr) {
	s := g.c.Int(0, 2, "slot")
	n := g.c.Int(2, 4, "n")
	// remember the original value on the stack
	c.a.push(uint64(s)).op(opSLOAD)
	for i := 0; i < n; i++ {
		switch g.w(30, 25, 25, 20) {
		case 0:
			c.a.push(0)
		case 1:
			c.a.op(opDUP1) // restore the original
		case 2:
			c.a.op(opDUP1).push(1).op(opADD)
		default:
			g.pushWord(c)
		}
		c.a.push(uint64(s)).op(opSSTORE)
	}
	c.a.op(opPOP)
}

func (g *progGen) stSload(c *ctr) {
	g.pushSlot(c)
	c.a.op(opSLOAD)
	g.obs(c)
}

func (g *progGen) stLog(c *ctr) {
	n := g.c.Int(0, 2, "topics")
	for i := 0; i < n; i++ {
		if g.c.Int(0, 1, "topicarg") == 0 {
			g.pushArg(c)
		} else {
			c.a.push(uint64(0xa0 + i))
		}
	}
	c.a.push(uint64(g.c.Int(0, 2, "len") * 16)).push(memObs).op(byte(opLOG0 + n))
}

func (g *progGen) stObsAcc(c *ctr) {
	switch g.w(30, 15, 20, 25, 10) {
	case 0:
		g.pushAddrExpr(c)
		c.a.op(opBALANCE)
	case 1:
		c.a.op(opSELFBALANCE)
	case 2:
		g.pushAddrExpr(c)
		c.a.op(opEXTCODESIZE)
	case 3:
		g.pushAddrExpr(c)
		c.a.op(opEXTCODEHASH)
	default:
		// EXTCODECOPY(addr, memOut, 0, 32) then read the word
		c.a.push(32).push(0).push(memOut)
		g.pushAddrExpr(c)
		c.a.op(opEXTCODECOPY).push(memOut).op(opMLOAD)
	}
	g.obs(c)
}

var envOps = []byte{opADDRESS, opORIGIN, opCALLER, opCALLVALUE, opCALLDATASIZE, opCODESIZE, opGASPRICE, opRETURNDATASIZE,
	opCOINBASE, opTIMESTAMP, opNUMBER, opDIFFICULTY, opGASLIMIT, opCHAINID, opGAS, opBASEFEE, opBLOCKHASH}

func (g *progGen) stObsEnv(c *ctr) {
	o := envOps[g.c.Int(0, len(envOps)-1, "env")]
	switch o {
	case opBASEFEE:
		// London rules are on but the block context carries no base fee: excluded here, owned by C18
		g.excluded["EVM:BASEFEE"]++
		o = opNUMBER
	case opBLOCKHASH:
		c.a.push(uint64(g.c.Int(0, 3, "bh")))
	}
	c.a.op(o)
	g.obs(c)
}

func (g *progGen) stArith(c *ctr) {
	g.pushWord(c)
	g.pushArg(c)
	switch g.w(1, 1, 1, 1, 1, 1) {
	case 0:
		c.a.op(opADD)
	case 1:
		c.a.op(opMUL)
	case 2:
		c.a.op(opSUB)
	case 3:
		c.a.op(opDIV)
	case 4:
		c.a.push(3).op(opAND).op(opEXP)
	default:
		c.a.op(opPOP).push(memObs).op(opMSTORE).push(32).push(memObs).op(opSHA3)
	}
	g.obs(c)
}

// stCall emits a message call to another account and observes its outcome.
func (g *progGen) stCall(c *ctr) {
	kind := []byte{opCALL, opCALL, opCALL, opDELEGATECALL, opSTATICCALL, opCALLCODE}[g.w(40, 0, 0, 25, 20, 15)]
	// input: selector byte and an argument word
	c.a.push(uint64(g.c.Int(0, 3, "sel"))).push(memIn).op(opMSTORE8)
	switch g.w(35, 30, 35) {
	case 0:
		c.a.push(uint64(g.c.Int(0, 9, "argc")))
	case 1:
		g.pushArg(c)
	default:
		all := g.p.all()
		c.a.pushAddr(all[g.c.Int(0, len(all)-1, "argaddr")])
	}
	c.a.push(memIn + 1).op(opMSTORE)
	c.a.push(32).push(memOut).push(33).push(memIn)
	if kind == opCALL || kind == opCALLCODE {
		switch g.w(55, 15, 10, 10, 10) {
		case 0:
			c.a.push(0)
		case 1:
			c.a.push(1)
		case 2:
			c.a.push(7)
		case 3:
			c.a.op(opSELFBALANCE)
		default:
			c.a.op(opCALLVALUE)
		}
	}
	g.pushAddrExpr(c)
	switch g.w(55, 6, 8, 8, 10, 13) {
	case 0:
		c.a.op(opGAS)
	case 1:
		c.a.push(0)
	case 2:
		c.a.push(700)
	case 3:
		c.a.push(2300)
	case 4:
		c.a.push(10000)
	default:
		c.a.push(50000)
	}
	c.a.op(kind)
	c.a.op(opDUP1)
	g.obs(c)
	if g.c.Int(0, 3, "require") == 0 {
		c.a.op(opISZERO).pushLabel(c.fail).op(opJUMPI)
	} else {
		c.a.op(opPOP)
	}
	c.a.push(memOut).op(opMLOAD)
	g.obs(c)
	if g.c.Int(0, 3, "rds") == 0 {
		c.a.op(opRETURNDATASIZE)
		g.obs(c)
	}
}

// stCreate emits CREATE / CREATE2 of a generated child and observes (and maybe stores) its address.
func (g *progGen) stCreate(c *ctr) {
	var init []byte
	if c.depth >= 2 {
		init = simpleInit([]byte{opCALLER, opSELFDESTRUCT})
	} else {
		init = g.contract(c.depth+1, nil)
	}
	l := c.a.newLabel("kid")
	c.kids = append(c.kids, kid{label: l, init: init})
	c.a.push(uint64(len(init))).pushLabel(l).push(memInit).op(opCODECOPY)
	two := g.c.Int(0, 1, "create2") == 1
	if two {
		c.a.push(uint64(g.c.Int(0, 1, "salt")))
	}
	c.a.push(uint64(len(init))).push(memInit)
	switch g.w(60, 20, 10, 10) {
	case 0:
		c.a.push(0)
	case 1:
		c.a.push(1)
	case 2:
		c.a.op(opCALLVALUE)
	default:
		c.a.op(opSELFBALANCE)
	}
	if two {
		c.a.op(opCREATE2)
	} else {
		c.a.op(opCREATE)
	}
	c.a.op(opDUP1)
	g.obs(c)
	if g.c.Int(0, 1, "keep") == 0 {
		c.a.push(3).op(opSSTORE)
	} else {
		c.a.op(opPOP)
	}
}

func (g *progGen) stLoop(c *ctr) {
	if c.inLoop {
		g.stSstore(c)
		return
	}
	c.inLoop = true
	n := g.c.Int(2, 5, "iters")
	l := c.a.newLabel("loop")
	c.a.push(uint64(n)).dest(l)
	k := g.c.Int(1, 2, "body")
	for i := 0; i < k; i++ {
		g.simpleStmt(c)
	}
	c.a.push(1).op(opSWAP1).op(opSUB).op(opDUP1).pushLabel(l).op(opJUMPI).op(opPOP)
	c.inLoop = false
}

func (g *progGen) stCond(c *ctr) {
	l := c.a.newLabel("skip")
	g.pushArg(c)
	c.a.push(uint64(g.c.Int(1, 2, "bit"))).op(opAND).op(opISZERO).pushLabel(l).op(opJUMPI)
	k := g.c.Int(1, 2, "body")
	for i := 0; i < k; i++ {
		g.stmt(c)
	}
	c.a.dest(l)
}

func (g *progGen) stRaw(c *ctr) {
	n := g.c.Int(1, 6, "rawn")
	b := make([]byte, n)
	for i := range b {
		b[i] = byte(g.c.Int(0, 255, "rawb"))
	}
	// keep push data inside the blob
	for i := 0; i < len(b); i++ {
		if b[i] >= 0x60 && b[i] <= 0x7f {
			b[i] = opPUSH1
			if i+1 >= len(b) {
				b[i] = opGAS
			}
			i++
		}
	}
	g.excluded["EVM:BASEFEE"] += sanitize(b)
	c.a.op(b...)
}

// simpleStmt is a statement that cannot nest (loop bodies).
func (g *progGen) simpleStmt(c *ctr) {
	switch g.w(g.f.sstore, g.f.sload, g.f.call, g.f.logw, g.f.obsAcc) {
	case 0:
		g.stSstore(c)
	case 1:
		g.stSload(c)
	case 2:
		g.stCall(c)
	case 3:
		g.stLog(c)
	default:
		g.stObsAcc(c)
	}
}

func (g *progGen) stmt(c *ctr) {
	raw := 0
	if g.rawOK {
		raw = g.f.raw
	}
	switch g.w(g.f.sstore, g.f.sstoreSeq, g.f.sload, g.f.call, g.f.create, g.f.logw, g.f.obsAcc, g.f.obsEnv, g.f.arith, g.f.loop, g.f.cond, raw) {
	case 0:
		g.stSstore(c)
	case 1:
		g.stSstoreSeq(c)
	case 2:
		g.stSload(c)
	case 3:
		g.stCall(c)
	case 4:
		g.stCreate(c)
	case 5:
		g.stLog(c)
	case 6:
		g.stObsAcc(c)
	case 7:
		g.stObsEnv(c)
	case 8:
		g.stArith(c)
	case 9:
		g.stLoop(c)
	case 10:
		if c.inLoop {
			g.stSload(c)
		} else {
			g.stCond(c)
		}
	default:
		g.stRaw(c)
	}
}

// terminator ends a branch.
func (g *progGen) terminator(c *ctr) {
	size := uint64(memObs - memOut + 32*maxObs)
	switch g.w(g.f.tStop, g.f.tReturn, g.f.tRevert, g.f.tKill, g.f.tInvalid, g.f.tSpin) {
	case 0:
		c.a.op(opSTOP)
	case 1:
		c.a.push(size).push(memOut).op(opRETURN)
	case 2:
		c.a.push(size).push(memOut).op(opREVERT)
	case 3:
		g.pushAddrExpr(c)
		c.a.op(opSELFDESTRUCT)
	case 4:
		c.a.op(opINVALID)
	default:
		// burn all gas, optionally writing on the way
		l := c.a.newLabel("spin")
		c.a.dest(l)
		if g.c.Int(0, 1, "spinbody") == 1 {
			g.stSstore(c)
		}
		c.a.pushLabel(l).op(opJUMP)
	}
}

// runtime generates runtime code.
func (g *progGen) runtime(depth int) ([]byte, int) {
	switch g.w(92, 3, 3, 2) {
	case 1:
		if g.ex.on(exCodeMarker) {
			g.ex.hit(exCodeMarker)
			return []byte{0xe2, 0x9b, 0xbd}, 0
		}
		return []byte{0xe2, 0x9b, 0xbc}, 0 // code equal to the store's deletion marker
	case 2:
		return nil, 0 // a contract without code
	case 3:
		return []byte{opCALLER, opSELFDESTRUCT}, 1
	}
	c := &ctr{a: newAsm(), depth: depth}
	c.fail = "fail"
	nb := g.c.Int(1, 4-depth, "branches")
	var labels []string
	for i := 0; i < nb; i++ {
		l := c.a.newLabel("br")
		labels = append(labels, l)
		c.a.push(0).op(opCALLDATALOAD).push(248).op(opSHR).push(uint64(i)).op(opEQ).pushLabel(l).op(opJUMPI)
	}
	c.a.op(opSTOP)
	for i := 0; i < nb; i++ {
		c.a.dest(labels[i])
		c.obsN = 0
		ns := g.c.Int(1, 6-2*depth, "stmts")
		for j := 0; j < ns; j++ {
			g.stmt(c)
		}
		g.terminator(c)
	}
	c.a.dest(c.fail).push(0).push(0).op(opREVERT)
	for _, k := range c.kids {
		c.a.mark(k.label).op(k.init...)
	}
	return c.a.assemble(), nb
}

// contract generates init code (constructor statements + runtime). nb receives the branch count.
func (g *progGen) contract(depth int, nb *int) []byte {
	rt, n := g.runtime(depth)
	if nb != nil {
		*nb = n
	}
	c := &ctr{a: newAsm(), depth: depth, fail: "cfail"}
	ns := g.w(50, 30, 15, 5)
	for j := 0; j < ns; j++ {
		g.stmt(c)
	}
	if g.c.Int(0, 11, "cterm") == 0 {
		g.terminator(c) // a constructor that stops / reverts / self-destructs / spins
	}
	// embed children of the constructor after the runtime: simplest is to place them before the tail jump target
	l := c.a.newLabel("rt")
	c.a.push(uint64(len(rt))).pushLabel(l).push(0).op(opCODECOPY)
	c.a.push(uint64(len(rt))).push(0).op(opRETURN)
	c.a.dest(c.fail).push(0).push(0).op(opREVERT)
	c.a.mark(l).op(rt...)
	for _, k := range c.kids {
		c.a.mark(k.label).op(k.init...)
	}
	return c.a.assemble()
}
