// Package c16: the chain's EVM state adapter (vm.CommitStateDB over the layered store) is
// equivalent to go-ethereum's reference state (core/state.StateDB over an in-memory database).
package c16

import (
	"bytes"
	"fmt"
	"io"
	"math"
	"math/big"
	"os"
	"sort"
	"strings"
	"time"

	ethcmn "github.com/ethereum/go-ethereum/common"
	"github.com/ethereum/go-ethereum/core/rawdb"
	ethstate "github.com/ethereum/go-ethereum/core/state"
	ethtypes "github.com/ethereum/go-ethereum/core/types"
	ethvm "github.com/ethereum/go-ethereum/core/vm"
	abci "github.com/tendermint/tendermint/abci/types"
	tmstore "github.com/tendermint/tendermint/store"
	dbm "github.com/tendermint/tm-db"

	"github.com/Oneledger/protocol/data/balance"
	"github.com/Oneledger/protocol/data/chain"
	"github.com/Oneledger/protocol/data/evm"
	"github.com/Oneledger/protocol/data/keys"
	"github.com/Oneledger/protocol/log"
	"github.com/Oneledger/protocol/storage"
	"github.com/Oneledger/protocol/vm"
)

const chainID = "OneLedger-c16"

// Acct is a starting account. Kind "native": only a balance record exists (an account that
// was only ever used by native transactions); "keeper": an EVM account record with a nonce;
// "hollow": an EVM account record with nonce 0, no code and no balance (what is left behind when
// an account that once received OLT through the EVM sends all of it away natively).
type Acct struct {
	Addr  string `json:"addr"`
	Kind  string `json:"kind"`
	Bal   string `json:"bal,omitempty"`
	Nonce uint64 `json:"nonce,omitempty"`
}

func (a Acct) address() ethcmn.Address { return ethcmn.HexToAddress(a.Addr) }
func (a Acct) balance() *big.Int {
	b, ok := new(big.Int).SetString(a.Bal, 10)
	if !ok {
		return new(big.Int)
	}
	return b
}

type violation struct {
	oracle string
	class  string
	msg    string
}

func (v *violation) sig() string { return "C16/" + v.oracle + "/" + v.class }

// ---- the adapter side ---------------------------------------------------------------

type adapterSide struct {
	db     dbm.DB
	cs     *storage.ChainState
	st     *storage.State
	cur    *balance.CurrencySet
	olt    balance.Currency
	bal    *balance.Store
	sdb    *vm.CommitStateDB
	logger *log.Logger
	bs     *tmstore.BlockStore
	bhash  ethcmn.Hash
}

func newAdapter() *adapterSide {
	a := &adapterSide{db: dbm.NewMemDB()}
	a.cs = storage.NewChainState("chainstate", a.db)
	a.cur = balance.NewCurrencySet()
	a.olt = balance.Currency{Id: 0, Name: "OLT", Chain: chain.ONELEDGER, Decimal: 18, Unit: "nue"}
	if err := a.cur.Register(a.olt); err != nil {
		panic(err)
	}
	a.logger = log.NewLoggerWithPrefix(io.Discard, "c16").WithLevel(log.Fatal)
	a.st = a.blockState()
	a.bal = balance.NewStore("b", a.st)
	a.sdb = vm.NewCommitStateDB(evm.NewContractStore(a.st), balance.NewNesterAccountKeeper(a.st, a.bal, a.cur), a.logger)
	a.bs = tmstore.NewBlockStore(dbm.NewMemDB())
	a.sdb.SetBlockStore(a.bs)
	a.bhash = ethcmn.BytesToHash([]byte("c16-block-hash-0"))
	a.sdb.SetBlockHash(a.bhash)
	return a
}

// blockState is what the application makes at BeginBlock: a fresh State over the chain state, with a gas store.
func (a *adapterSide) blockState() *storage.State {
	return storage.NewState(a.cs).WithGas(storage.NewGasCalculator(storage.Gas(math.MaxInt64)))
}

// fresh returns a brand-new adapter instance (new contract store, keeper and balance store
// wrappers, empty caches) reading the same layered store.
func (a *adapterSide) fresh() *vm.CommitStateDB {
	s := vm.NewCommitStateDB(evm.NewContractStore(a.st), balance.NewNesterAccountKeeper(a.st, balance.NewStore("b", a.st), a.cur), a.logger)
	s.SetBlockStore(a.bs)
	s.SetBlockHash(a.bhash)
	return s
}

// commitBlock is the application's EndBlock (adapter Reset) + Commit + next BeginBlock (fresh State).
func (a *adapterSide) commitBlock(n int) {
	a.sdb.Reset()
	a.st.Commit()
	a.st = a.blockState()
	a.bal.WithState(a.st)
	a.sdb.WithState(a.st)
	a.bhash = ethcmn.BytesToHash([]byte(fmt.Sprintf("c16-block-hash-%d", n)))
	a.sdb.SetBlockHash(a.bhash)
}

func (a *adapterSide) seed(accts []Acct) {
	ak := a.sdb.GetAccountKeeper()
	for _, ac := range accts {
		addr := keys.Address(ac.address().Bytes())
		switch ac.Kind {
		case "native":
			if err := a.bal.AddToAddress(addr, a.olt.NewCoinFromAmount(*balance.NewAmountFromBigInt(ac.balance()))); err != nil {
				panic(err)
			}
		case "keeper", "hollow":
			acc, err := ak.NewAccountWithAddress(addr)
			if err != nil {
				panic(err)
			}
			acc.Sequence = ac.Nonce
			acc.SetBalance(ac.balance())
			if err := ak.SetAccount(*acc); err != nil {
				panic(err)
			}
		}
	}
	a.commitBlock(0)
}

// ---- the reference side --------------------------------------------------------------

type refSide struct {
	db  ethstate.Database
	sdb *ethstate.StateDB
	rec *recorder
}

func newRef() *refSide {
	r := &refSide{db: ethstate.NewDatabase(rawdb.NewMemoryDatabase())}
	s, err := ethstate.New(ethcmn.Hash{}, r.db, nil)
	if err != nil {
		panic(err)
	}
	r.sdb = s
	r.rec = newRecorder(s)
	return r
}

func (r *refSide) commitBlock() {
	root, err := r.sdb.Commit(false)
	if err != nil {
		panic(err)
	}
	s, err := ethstate.New(root, r.db, nil)
	if err != nil {
		panic(err)
	}
	r.sdb = s
	r.rec.StateDB = s
}

func (r *refSide) seed(accts []Acct) {
	for _, ac := range accts {
		switch ac.Kind {
		case "native":
			r.sdb.AddBalance(ac.address(), ac.balance())
		case "keeper":
			r.sdb.SetNonce(ac.address(), ac.Nonce)
			r.sdb.AddBalance(ac.address(), ac.balance())
		case "hollow":
			r.sdb.CreateAccount(ac.address())
		}
	}
	r.sdb.Finalise(false)
	r.commitBlock()
}

// ---- recorder: the reference state wrapped so that every address / slot the EVM names is
// remembered (the set compared after every step) and state-interface events are classified.

type recorder struct {
	ethvm.StateDB
	addrs    []ethcmn.Address
	hasAddr  map[ethcmn.Address]bool
	slots    map[ethcmn.Address][]ethcmn.Hash
	hasSlot  map[ethcmn.Address]map[ethcmn.Hash]bool
	events   []string // state-interface event classes in order (runs collapsed)
	muts     int      // journalled mutations so far
	snapMuts map[int]int
	feat     map[string]int
}

func newRecorder(s ethvm.StateDB) *recorder {
	return &recorder{StateDB: s, hasAddr: map[ethcmn.Address]bool{}, slots: map[ethcmn.Address][]ethcmn.Hash{}, hasSlot: map[ethcmn.Address]map[ethcmn.Hash]bool{}, snapMuts: map[int]int{}, feat: map[string]int{}}
}

func (r *recorder) addr(a ethcmn.Address) {
	if !r.hasAddr[a] {
		r.hasAddr[a] = true
		r.addrs = append(r.addrs, a)
	}
}

func (r *recorder) slot(a ethcmn.Address, k ethcmn.Hash) {
	r.addr(a)
	m := r.hasSlot[a]
	if m == nil {
		m = map[ethcmn.Hash]bool{}
		r.hasSlot[a] = m
	}
	if !m[k] {
		m[k] = true
		r.slots[a] = append(r.slots[a], k)
	}
}

func (r *recorder) ev(e string) {
	r.feat[e]++
	if n := len(r.events); n > 0 && r.events[n-1] == e {
		return
	}
	if len(r.events) < 400 {
		r.events = append(r.events, e)
	}
}

func (r *recorder) CreateAccount(a ethcmn.Address) {
	r.addr(a)
	r.muts++
	r.ev("NEWACC")
	r.StateDB.CreateAccount(a)
}
func (r *recorder) SubBalance(a ethcmn.Address, v *big.Int) {
	r.addr(a)
	if v.Sign() != 0 {
		r.muts++
	}
	r.StateDB.SubBalance(a, v)
}
func (r *recorder) AddBalance(a ethcmn.Address, v *big.Int) {
	r.addr(a)
	if v.Sign() != 0 {
		r.muts++
	}
	r.StateDB.AddBalance(a, v)
}
func (r *recorder) GetBalance(a ethcmn.Address) *big.Int { r.addr(a); return r.StateDB.GetBalance(a) }
func (r *recorder) GetNonce(a ethcmn.Address) uint64     { r.addr(a); return r.StateDB.GetNonce(a) }
func (r *recorder) SetNonce(a ethcmn.Address, n uint64) {
	r.addr(a)
	r.muts++
	r.StateDB.SetNonce(a, n)
}
func (r *recorder) GetCodeHash(a ethcmn.Address) ethcmn.Hash { r.addr(a); return r.StateDB.GetCodeHash(a) }
func (r *recorder) GetCode(a ethcmn.Address) []byte          { r.addr(a); return r.StateDB.GetCode(a) }
func (r *recorder) SetCode(a ethcmn.Address, c []byte) {
	r.addr(a)
	r.muts++
	if len(c) > 0 {
		r.ev("CODE")
	}
	r.StateDB.SetCode(a, c)
}
func (r *recorder) GetCodeSize(a ethcmn.Address) int { r.addr(a); return r.StateDB.GetCodeSize(a) }
func (r *recorder) AddRefund(g uint64)               { r.muts++; r.ev("REFUND+"); r.StateDB.AddRefund(g) }
func (r *recorder) SubRefund(g uint64)               { r.muts++; r.ev("REFUND-"); r.StateDB.SubRefund(g) }
func (r *recorder) GetCommittedState(a ethcmn.Address, k ethcmn.Hash) ethcmn.Hash {
	r.slot(a, k)
	return r.StateDB.GetCommittedState(a, k)
}
func (r *recorder) GetState(a ethcmn.Address, k ethcmn.Hash) ethcmn.Hash {
	r.slot(a, k)
	r.ev("SLOAD")
	return r.StateDB.GetState(a, k)
}
func (r *recorder) SetState(a ethcmn.Address, k, v ethcmn.Hash) {
	r.slot(a, k)
	cur, com := r.StateDB.GetState(a, k), r.StateDB.GetCommittedState(a, k)
	switch {
	case cur == v:
		r.ev("SSTORE-noop")
	case com != (ethcmn.Hash{}) && cur == com:
		r.ev("SSTORE-committed")
		r.muts++
	case cur != com:
		r.ev("SSTORE-dirty")
		r.muts++
	default:
		r.ev("SSTORE-fresh")
		r.muts++
	}
	r.StateDB.SetState(a, k, v)
}
func (r *recorder) Suicide(a ethcmn.Address) bool {
	r.addr(a)
	ok := r.StateDB.Suicide(a)
	if ok {
		r.muts++
		r.ev("SELFDESTRUCT")
	}
	return ok
}
func (r *recorder) HasSuicided(a ethcmn.Address) bool { r.addr(a); return r.StateDB.HasSuicided(a) }
func (r *recorder) Exist(a ethcmn.Address) bool       { r.addr(a); return r.StateDB.Exist(a) }
func (r *recorder) Empty(a ethcmn.Address) bool       { r.addr(a); return r.StateDB.Empty(a) }
func (r *recorder) PrepareAccessList(sender ethcmn.Address, dst *ethcmn.Address, pre []ethcmn.Address, l ethtypes.AccessList) {
	r.addr(sender)
	if dst != nil {
		r.addr(*dst)
	}
	r.StateDB.PrepareAccessList(sender, dst, pre, l)
}
func (r *recorder) AddressInAccessList(a ethcmn.Address) bool {
	r.addr(a)
	return r.StateDB.AddressInAccessList(a)
}
func (r *recorder) SlotInAccessList(a ethcmn.Address, k ethcmn.Hash) (bool, bool) {
	r.slot(a, k)
	return r.StateDB.SlotInAccessList(a, k)
}
func (r *recorder) AddAddressToAccessList(a ethcmn.Address) {
	r.addr(a)
	r.StateDB.AddAddressToAccessList(a)
}
func (r *recorder) AddSlotToAccessList(a ethcmn.Address, k ethcmn.Hash) {
	r.slot(a, k)
	r.StateDB.AddSlotToAccessList(a, k)
}
func (r *recorder) Snapshot() int {
	id := r.StateDB.Snapshot()
	r.snapMuts[id] = r.muts
	r.ev("FRAME")
	return id
}
func (r *recorder) RevertToSnapshot(id int) {
	if r.muts > r.snapMuts[id] {
		r.ev("REVERT-undo")
	} else {
		r.ev("REVERT-empty")
	}
	r.StateDB.RevertToSnapshot(id)
}
func (r *recorder) AddLog(l *ethtypes.Log) { r.muts++; r.ev("LOG"); r.StateDB.AddLog(l) }

func (r *recorder) signature() string { return strings.Join(r.events, ",") }

// nonTrivial applies the property's rule to what the reference side saw.
func (r *recorder) nonTrivial() bool {
	return r.feat["SSTORE-committed"] > 0 || r.feat["REVERT-undo"] > 0 || r.feat["SELFDESTRUCT"] > 0 || r.feat["CODE"] > 0 || r.feat["NEWACC"] > 0
}

// ---- comparison ------------------------------------------------------------------------

// reader is the read part of the state interface both sides implement.
type reader interface {
	GetBalance(ethcmn.Address) *big.Int
	GetNonce(ethcmn.Address) uint64
	GetCodeHash(ethcmn.Address) ethcmn.Hash
	GetCode(ethcmn.Address) []byte
	GetCodeSize(ethcmn.Address) int
	GetCommittedState(ethcmn.Address, ethcmn.Hash) ethcmn.Hash
	GetState(ethcmn.Address, ethcmn.Hash) ethcmn.Hash
	HasSuicided(ethcmn.Address) bool
	Exist(ethcmn.Address) bool
	Empty(ethcmn.Address) bool
	GetRefund() uint64
	AddressInAccessList(ethcmn.Address) bool
	SlotInAccessList(ethcmn.Address, ethcmn.Hash) (bool, bool)
}

type cmpOpts struct {
	live bool // also compare the per-transaction items: refund, access list, suicided flag
}

// compareStates compares every getter on every address and slot of the touched set.
func compareStates(where string, ad, ref reader, addrs []ethcmn.Address, slots map[ethcmn.Address][]ethcmn.Hash, o cmpOpts) *violation {
	mk := func(class, f string, a ...interface{}) *violation {
		return &violation{oracle: "state", class: class, msg: where + ": " + fmt.Sprintf(f, a...)}
	}
	for _, a := range addrs {
		if x, y := ad.Exist(a), ref.Exist(a); x != y {
			return mk("exist", "Exist(%s) adapter=%v reference=%v (adapter balance %v nonce %d, reference balance %v nonce %d)", a.Hex(), x, y, ad.GetBalance(a), ad.GetNonce(a), ref.GetBalance(a), ref.GetNonce(a))
		}
		if x, y := ad.Empty(a), ref.Empty(a); x != y {
			return mk("empty", "Empty(%s) adapter=%v reference=%v", a.Hex(), x, y)
		}
		if x, y := ad.GetBalance(a), ref.GetBalance(a); x.Cmp(y) != 0 {
			return mk("balance", "GetBalance(%s) adapter=%v reference=%v", a.Hex(), x, y)
		}
		if x, y := ad.GetNonce(a), ref.GetNonce(a); x != y {
			return mk("nonce", "GetNonce(%s) adapter=%d reference=%d", a.Hex(), x, y)
		}
		if x, y := ad.GetCodeHash(a), ref.GetCodeHash(a); x != y {
			return mk("codehash", "GetCodeHash(%s) adapter=%s reference=%s", a.Hex(), x.Hex(), y.Hex())
		}
		if x, y := ad.GetCode(a), ref.GetCode(a); !bytes.Equal(x, y) {
			if bytes.Equal(y, []byte(storage.TOMBSTONE)) {
				return mk("code-equals-marker", "GetCode(%s) adapter=%x reference=%x (the code is the store's deletion marker)", a.Hex(), x, y)
			}
			return mk("code", "GetCode(%s) adapter=%x reference=%x", a.Hex(), x, y)
		}
		if x, y := ad.GetCodeSize(a), ref.GetCodeSize(a); x != y {
			return mk("codesize", "GetCodeSize(%s) adapter=%d reference=%d", a.Hex(), x, y)
		}
		if o.live {
			if x, y := ad.HasSuicided(a), ref.HasSuicided(a); x != y {
				return mk("suicided", "HasSuicided(%s) adapter=%v reference=%v", a.Hex(), x, y)
			}
			if x, y := ad.AddressInAccessList(a), ref.AddressInAccessList(a); x != y {
				return mk("accesslist", "AddressInAccessList(%s) adapter=%v reference=%v", a.Hex(), x, y)
			}
		}
		for _, k := range slots[a] {
			if x, y := ad.GetState(a, k), ref.GetState(a, k); x != y {
				return mk("storage", "GetState(%s, %s) adapter=%s reference=%s", a.Hex(), short(k), x.Hex(), y.Hex())
			}
			if x, y := ad.GetCommittedState(a, k), ref.GetCommittedState(a, k); x != y {
				return mk("committed", "GetCommittedState(%s, %s) adapter=%s reference=%s", a.Hex(), short(k), x.Hex(), y.Hex())
			}
			if o.live {
				x1, x2 := ad.SlotInAccessList(a, k)
				y1, y2 := ref.SlotInAccessList(a, k)
				if x1 != y1 || x2 != y2 {
					return mk("accesslist", "SlotInAccessList(%s, %s) adapter=%v,%v reference=%v,%v", a.Hex(), short(k), x1, x2, y1, y2)
				}
			}
		}
	}
	if o.live {
		if x, y := ad.GetRefund(), ref.GetRefund(); x != y {
			return mk("refund", "GetRefund adapter=%d reference=%d", x, y)
		}
	}
	return nil
}

func short(h ethcmn.Hash) string {
	s := strings.TrimLeft(h.Hex()[2:], "0")
	if s == "" {
		s = "0"
	}
	if len(s) > 12 {
		s = s[:4] + "…" + s[len(s)-4:]
	}
	return "0x" + s
}

func compareLogs(where string, ad, ref []*ethtypes.Log) *violation {
	mk := func(f string, a ...interface{}) *violation {
		return &violation{oracle: "logs", class: "logs", msg: where + ": " + fmt.Sprintf(f, a...)}
	}
	if len(ad) != len(ref) {
		return mk("%d logs on the adapter, %d on the reference", len(ad), len(ref))
	}
	for i := range ad {
		x, y := ad[i], ref[i]
		if x.Address != y.Address || !bytes.Equal(x.Data, y.Data) || len(x.Topics) != len(y.Topics) || x.TxHash != y.TxHash {
			return mk("log %d differs: adapter {%s %x %v tx %s} reference {%s %x %v tx %s}", i, x.Address.Hex(), x.Data, x.Topics, x.TxHash.Hex(), y.Address.Hex(), y.Data, y.Topics, y.TxHash.Hex())
		}
		for j := range x.Topics {
			if x.Topics[j] != y.Topics[j] {
				return mk("log %d topic %d differs: %s vs %s", i, j, x.Topics[j].Hex(), y.Topics[j].Hex())
			}
		}
		if x.Index != y.Index {
			return mk("log %d index differs: adapter %d reference %d", i, x.Index, y.Index)
		}
	}
	return nil
}

// header is the block header both EVMs see.
func header(height int64) *abci.Header {
	return &abci.Header{
		Height:          height,
		Time:            time.Unix(1700000000+height*5, 0).UTC(),
		ChainID:         chainID,
		ProposerAddress: bytes.Repeat([]byte{0xc0}, 20),
	}
}

func sortedAddrs(m map[ethcmn.Address]bool) []ethcmn.Address {
	var out []ethcmn.Address
	for a := range m {
		out = append(out, a)
	}
	sort.Slice(out, func(i, j int) bool { return bytes.Compare(out[i][:], out[j][:]) < 0 })
	return out
}

// guard runs f and turns a panic into an error string.
func guard(f func()) (p string) {
	defer func() {
		if os.Getenv("VERIF_C16_NOGUARD") != "" {
			return
		}
		if r := recover(); r != nil {
			p = fmt.Sprint(r)
			if len(p) > 300 {
				p = p[:300]
			}
		}
	}()
	f()
	return ""
}

// ---- known-finding exclusions ------------------------------------------------------------
//
// An exclusion removes a class of inputs from the generated domain *by construction*: the
// generator asks, on a copy of the reference state alone, whether its next step would enter the
// class and draws something else if so. The adapter is never consulted.

const (
	// an account is deleted at Finalise (self-destructed, or touched and empty) while the balance it had at the start of the transaction is not zero
	exDelBal = "EVM:delete-with-stored-balance"

	// starting accounts that exist but are empty (an EVM account record with nonce 0, no code, no balance)
	exHollow = "EVM:hollow-account"
	// an account exists again (re-created, or credited) after it was deleted while it had persisted storage
	exStale = "EVM:stale-storage-after-delete"
	// contract code whose bytes equal the layered store's deletion marker
	exCodeMarker = "EVM:code-equals-marker"
)

type exclusions struct {
	active map[string]bool
	count  func(tag string) // counts an excluded draw
}

func (e *exclusions) any() bool { return e != nil && len(e.active) > 0 }
func (e *exclusions) on(tag string) bool {
	return e != nil && e.active[tag]
}
func (e *exclusions) hit(tag string) {
	if e != nil && e.count != nil {
		e.count(tag)
	}
}

// ghostTracker remembers, from the reference state alone, which accounts were deleted while they
// had persisted storage.
type ghostTracker struct {
	ghost map[ethcmn.Address]bool
	cand  map[ethcmn.Address]bool
}

func newGhostTracker() *ghostTracker {
	return &ghostTracker{ghost: map[ethcmn.Address]bool{}, cand: map[ethcmn.Address]bool{}}
}

// beforeFinalise notes the accounts the coming Finalise may delete and that have committed storage.
func (g *ghostTracker) beforeFinalise(ref *ethstate.StateDB, addrs []ethcmn.Address, slots map[ethcmn.Address][]ethcmn.Hash) {
	g.cand = map[ethcmn.Address]bool{}
	for _, a := range addrs {
		if !(ref.HasSuicided(a) || (ref.Exist(a) && ref.Empty(a))) {
			continue
		}
		for _, k := range slots[a] {
			if ref.GetCommittedState(a, k) != (ethcmn.Hash{}) {
				g.cand[a] = true
				break
			}
		}
	}
}

func (g *ghostTracker) afterFinalise(ref *ethstate.StateDB) {
	for a := range g.cand {
		if !ref.Exist(a) {
			g.ghost[a] = true
		}
	}
}

// revived reports whether a ghost exists in the given state.
func (g *ghostTracker) revived(s *ethstate.StateDB) bool {
	for a := range g.ghost {
		if s.Exist(a) {
			return true
		}
	}
	return false
}
