package c16

import (
	"encoding/json"
	"fmt"
	"os"
	"sort"
	"strings"
	"testing"

	"pgregory.net/rapid"

	"verif/run"
)

func TestMain(m *testing.M) {
	run.Quiet()
	os.Exit(m.Run())
}

// rapidChooser draws approximately uniform choices (rapid's own integer generators are biased
// towards small values); still a pure function of rapid's draws.
type rapidChooser struct {
	t    *rapid.T
	salt uint64
}

func (r *rapidChooser) Int(lo, hi int, label string) int {
	if hi <= lo {
		return lo
	}
	r.salt++
	x := rapid.Uint64().Draw(r.t, label) + r.salt*0x9e3779b97f4a7c15
	x ^= x >> 30
	x *= 0xbf58476d1ce4e5b9
	x ^= x >> 27
	x *= 0x94d049bb133111eb
	x ^= x >> 31
	return lo + int(x%uint64(hi-lo+1))
}

// byteChooser reads choices from a byte string (native fuzzing); exhausted input yields the low bound.
type byteChooser struct {
	b []byte
	i int
}

func (c *byteChooser) Int(lo, hi int, _ string) int {
	if hi <= lo {
		return lo
	}
	span := hi - lo + 1
	v := 0
	if span <= 256 {
		if c.i < len(c.b) {
			v = int(c.b[c.i])
			c.i++
		}
	} else {
		for k := 0; k < 3; k++ {
			v <<= 8
			if c.i < len(c.b) {
				v |= int(c.b[c.i])
				c.i++
			}
		}
	}
	return lo + v%span
}

var allExclusions = []string{exDelBal, exHollow, exCodeMarker, exStale}

// newExclusions activates the exclusions named in VERIF_EXCLUDE (known findings).
func newExclusions(h *run.H) *exclusions {
	e := &exclusions{active: map[string]bool{}, count: func(tag string) { h.Excluded(tag) }}
	for _, t := range allExclusions {
		if h.IsExcluded(t) {
			e.active[t] = true
		}
	}
	return e
}

// fuzzExclusions reads VERIF_EXCLUDE directly (the fuzz target has no run handle).
func fuzzExclusions() *exclusions {
	e := &exclusions{active: map[string]bool{}}
	for _, t := range strings.Split(os.Getenv("VERIF_EXCLUDE"), ",") {
		for _, k := range allExclusions {
			if strings.TrimSpace(t) == k {
				e.active[k] = true
			}
		}
	}
	return e
}

// Case is the replay payload: exactly one of the two parts is set.
type Case struct {
	Ops  *OpsCase  `json:"ops,omitempty"`
	Prog *ProgCase `json:"prog,omitempty"`
}

const ruleOps = "sequences of state-interface calls (CreateAccount, Add/SubBalance, SetNonce, SetCode, SetState, Suicide, Add/SubRefund, AddLog, access-list calls, nested Snapshot/RevertToSnapshot, Finalise between transactions, block commits) over 5 addresses x 4 slots and generated starting accounts (native-only, keeper, hollow), executed on the adapter and on go-ethereum's state; every getter of every address and slot compared after every step (sparse cases: at reads and transaction ends), and on a fresh adapter instance over the store after every Finalise; non-trivial = a SetState on a previously committed slot, a revert that undid >= 1 journalled change, a self-destruct or an account creation; distinct by operation-kind signature"

const ruleProg = "generated contracts (dispatcher with 1-4 branches of grammar statements: SSTORE/SLOAD incl. same-slot sequences, CALL/DELEGATECALL/STATICCALL/CALLCODE, CREATE/CREATE2 of generated children, SELFDESTRUCT, REVERT, LOG0-2, loops, gas exhaustion, BALANCE/EXTCODE*, environment reads; BASEFEE excluded) run as message sequences (create, calls, transfers; generated gas limits, prices, values, nonces, senders) across blocks; both sides applied through the chain's vm.ApplyMessage with identical contexts; after every message return data, gas, errors, logs, refund, gas pool and every getter of every touched address/slot compared, before and after Finalise and on a fresh adapter instance over the store; non-trivial = >= 1 SSTORE on a previously committed slot, a revert undoing >= 1 journalled change, a self-destruct or a creation; distinct by state-event (opcode class) signature"

func TestC16Ops(t *testing.T) {
	h := run.Start(t, "C16")
	defer h.Finish()
	h.SetRule(ruleOps)
	maxOps := h.Scale(60, 200)
	ex := newExclusions(h)
	rapid.Check(t, func(rt *rapid.T) {
		ch := &rapidChooser{t: rt}
		oc := &OpsCase{Accts: genAccts(ch, ex), Sparse: ch.Int(0, 3, "sparse") == 0}
		n := rapid.IntRange(3, maxOps).Draw(rt, "nops")
		c := &Case{Ops: oc}
		v, rec := runOps(oc, n, ch, ex, func() { h.Journal(c) })
		nt, classes := opsClasses(oc, rec)
		var sample interface{}
		if len(oc.Ops) < 30 {
			sample = opsString(oc.Ops)
		}
		h.Eval(nt, classes, sample)
		if v != nil {
			h.Fail(rt, v.oracle, v.sig(), c, "%s | accounts=%v ops=%s", v.msg, oc.Accts, opsString(oc.Ops))
		}
	})
}

func TestC16Prog(t *testing.T) {
	h := run.Start(t, "C16")
	defer h.Finish()
	h.SetRule(ruleProg)
	maxSteps := h.Scale(20, 40)
	ex := newExclusions(h)
	exclTotal := map[string]int{}
	defer func() {
		var ks []string
		for k := range exclTotal {
			ks = append(ks, k)
		}
		sort.Strings(ks)
		for _, k := range ks {
			h.Class("excluded-draw:"+k, exclTotal[k])
		}
	}()
	rapid.Check(t, func(rt *rapid.T) {
		ch := &rapidChooser{t: rt}
		pc := &ProgCase{Accts: progAccts(ch, ex)}
		n := 3 + ch.Int(0, maxSteps-3, "nsteps")
		c := &Case{Prog: pc}
		v, r, excl := runProg(pc, n, ch, false, ex, func() { h.Journal(c) })
		for k, x := range excl {
			exclTotal[k] += x
		}
		nt, classes := progClasses(pc, r)
		var sample interface{}
		if len(pc.Steps) < 8 {
			sample = progSummary(pc)
		}
		h.Eval(nt, classes, sample)
		if v != nil {
			h.Fail(rt, v.oracle, v.sig(), c, "%s | %s", v.msg, progSummary(pc))
		}
	})
}

func replayCase(c *Case) *violation {
	if c.Ops != nil {
		v, _ := runOps(c.Ops, 0, nil, nil, nil)
		return v
	}
	if c.Prog != nil {
		v, _, _ := runProg(c.Prog, 0, nil, false, nil, nil)
		return v
	}
	return nil
}

func TestReplay(t *testing.T) {
	path := run.ReplayFile()
	if path == "" {
		t.Skip("no VERIF_REPLAY")
	}
	f, err := run.LoadFailure(path)
	if err != nil {
		t.Fatal(err)
	}
	var c Case
	if err := json.Unmarshal(f.Case, &c); err != nil {
		t.Fatal(err)
	}
	h := run.Start(t, "C16")
	defer h.Finish()
	if v := replayCase(&c); v != nil {
		h.Fail(t, v.oracle, v.sig(), &c, "%s", v.msg)
	}
}

// FuzzC16 is the native fuzz target of the thorough tier: bytes -> choices of the same grammar
// (with raw opcode statements switched on) -> message sequence, or an op sequence.
func FuzzC16(f *testing.F) {
	f.Add([]byte{0, 1, 2, 3, 4, 5, 6, 7, 8, 9, 10, 11, 12, 13, 14, 15, 16, 17, 18, 19, 20})
	f.Add([]byte{1, 200, 13, 77, 5, 0, 0, 9, 41, 41, 3, 250, 99, 18, 6, 6, 6, 31, 2, 120, 64, 7, 7, 1, 0, 255, 254, 30, 12})
	f.Add([]byte{0, 9, 9, 9, 30, 30, 30, 30, 60, 60, 60, 60, 90, 90, 90, 90, 120, 120, 150, 150, 180, 180, 210, 210, 240, 240})
	f.Fuzz(func(t *testing.T, data []byte) {
		if len(data) < 2 {
			return
		}
		if len(data) > 4096 {
			data = data[:4096]
		}
		ch := &byteChooser{b: data[1:]}
		var v *violation
		var c Case
		if data[0]%4 == 0 {
			ex := fuzzExclusions()
			oc := &OpsCase{Accts: genAccts(ch, ex), Sparse: ch.Int(0, 3, "sparse") == 0}
			c.Ops = oc
			v, _ = runOps(oc, 10+len(data)/4, ch, ex, nil)
		} else {
			ex := fuzzExclusions()
			pc := &ProgCase{Accts: progAccts(ch, ex)}
			c.Prog = pc
			v, _, _ = runProg(pc, 3+len(data)/48, ch, true, ex, nil)
		}
		if v != nil && v.oracle != "harness" {
			b, _ := json.Marshal(&c)
			t.Fatalf("[%s] %s\ncase=%s", v.sig(), v.msg, b)
		}
	})
}

// TestBaseFeeProbe documents why BASEFEE is excluded: London rules are on, BlockContext.BaseFee is nil.
// Run with VERIF_C16_BASEFEE=1.
func TestBaseFeeProbe(t *testing.T) {
	if os.Getenv("VERIF_C16_BASEFEE") == "" {
		t.Skip("set VERIF_C16_BASEFEE=1")
	}
	pc := &ProgCase{Accts: progAccts(&byteChooser{}, nil)}
	rtc := []byte{opBASEFEE, opPUSH1, 0, opMSTORE, opPUSH1, 32, opPUSH1, 0, opRETURN}
	pc.Steps = []PStep{
		{K: "msg", From: eoaRich.Hex(), Nonce: 0, Value: "0", Gas: 300000, Price: "1", Data: "0x" + fmt.Sprintf("%x", simpleInit(rtc)), Note: "create"},
	}
	r := newProgRun(pc)
	if v := r.step(0, pc.Steps[0]); v != nil {
		t.Fatalf("create: %s", v.msg)
	}
	var to string
	for a := range r.known {
		to = a.Hex()
	}
	r.learn()
	for _, a := range r.order {
		to = a.Hex()
	}
	v := r.step(1, PStep{K: "msg", From: eoaRich.Hex(), To: to, Nonce: 1, Value: "0", Gas: 100000, Price: "1", Note: "call BASEFEE"})
	if v == nil {
		t.Fatalf("BASEFEE executed without a fault")
	}
	t.Logf("BASEFEE probe: oracle=%s: %s", v.oracle, v.msg)
}
