package c16

import (
	"fmt"
	"math/big"

	ethcmn "github.com/ethereum/go-ethereum/common"
)

// ---- a tiny assembler ---------------------------------------------------------------------

const (
	opSTOP           = 0x00
	opADD            = 0x01
	opMUL            = 0x02
	opSUB            = 0x03
	opDIV            = 0x04
	opEXP            = 0x0a
	opLT             = 0x10
	opEQ             = 0x14
	opISZERO         = 0x15
	opAND            = 0x16
	opSHR            = 0x1c
	opSHA3           = 0x20
	opADDRESS        = 0x30
	opBALANCE        = 0x31
	opORIGIN         = 0x32
	opCALLER         = 0x33
	opCALLVALUE      = 0x34
	opCALLDATALOAD   = 0x35
	opCALLDATASIZE   = 0x36
	opCODESIZE       = 0x38
	opCODECOPY       = 0x39
	opGASPRICE       = 0x3a
	opEXTCODESIZE    = 0x3b
	opEXTCODECOPY    = 0x3c
	opRETURNDATASIZE = 0x3d
	opRETURNDATACOPY = 0x3e
	opEXTCODEHASH    = 0x3f
	opBLOCKHASH      = 0x40
	opCOINBASE       = 0x41
	opTIMESTAMP      = 0x42
	opNUMBER         = 0x43
	opDIFFICULTY     = 0x44
	opGASLIMIT       = 0x45
	opCHAINID        = 0x46
	opSELFBALANCE    = 0x47
	opBASEFEE        = 0x48
	opPOP            = 0x50
	opMLOAD          = 0x51
	opMSTORE         = 0x52
	opMSTORE8        = 0x53
	opSLOAD          = 0x54
	opSSTORE         = 0x55
	opJUMP           = 0x56
	opJUMPI          = 0x57
	opGAS            = 0x5a
	opJUMPDEST       = 0x5b
	opPUSH1          = 0x60
	opPUSH2          = 0x61
	opDUP1           = 0x80
	opSWAP1          = 0x90
	opLOG0           = 0xa0
	opCREATE         = 0xf0
	opCALL           = 0xf1
	opCALLCODE       = 0xf2
	opRETURN         = 0xf3
	opDELEGATECALL   = 0xf4
	opCREATE2        = 0xf5
	opSTATICCALL     = 0xfa
	opREVERT         = 0xfd
	opINVALID        = 0xfe
	opSELFDESTRUCT   = 0xff
)

type fixup struct {
	at    int
	label string
}

type asm struct {
	code   []byte
	labels map[string]int
	fix    []fixup
	nlabel int
}

func newAsm() *asm { return &asm{labels: map[string]int{}} }

func (a *asm) op(b ...byte) *asm { a.code = append(a.code, b...); return a }

// push emits the shortest PUSH of v.
func (a *asm) push(v uint64) *asm {
	return a.pushBig(new(big.Int).SetUint64(v))
}

func (a *asm) pushBig(v *big.Int) *asm {
	b := v.Bytes()
	if len(b) == 0 {
		b = []byte{0}
	}
	if len(b) > 32 {
		b = b[len(b)-32:]
	}
	a.code = append(a.code, byte(opPUSH1+len(b)-1))
	a.code = append(a.code, b...)
	return a
}

func (a *asm) pushAddr(x ethcmn.Address) *asm {
	a.code = append(a.code, 0x73) // PUSH20
	a.code = append(a.code, x.Bytes()...)
	return a
}

func (a *asm) newLabel(prefix string) string {
	a.nlabel++
	return fmt.Sprintf("%s%d", prefix, a.nlabel)
}

// pushLabel emits PUSH2 <offset of label> (resolved by assemble).
func (a *asm) pushLabel(l string) *asm {
	a.code = append(a.code, opPUSH2, 0, 0)
	a.fix = append(a.fix, fixup{at: len(a.code) - 2, label: l})
	return a
}

// dest places a JUMPDEST named l.
func (a *asm) dest(l string) *asm {
	a.labels[l] = len(a.code)
	a.code = append(a.code, opJUMPDEST)
	return a
}

// mark names the current offset (no instruction emitted; used for embedded data).
func (a *asm) mark(l string) *asm { a.labels[l] = len(a.code); return a }

func (a *asm) assemble() []byte {
	out := append([]byte{}, a.code...)
	for _, f := range a.fix {
		off, ok := a.labels[f.label]
		if !ok {
			panic("asm: unknown label " + f.label)
		}
		out[f.at] = byte(off >> 8)
		out[f.at+1] = byte(off)
	}
	return out
}

// initCodeFor wraps runtime code (preceded by optional constructor statements already in a).
// It emits: CODECOPY(0, rt, len) ; RETURN(0, len) ; <runtime bytes>.
func (a *asm) returnRuntime(rt []byte) []byte {
	l := a.newLabel("rt")
	a.push(uint64(len(rt))).pushLabel(l).push(0).op(opCODECOPY)
	a.push(uint64(len(rt))).push(0).op(opRETURN)
	a.mark(l)
	a.op(rt...)
	return a.assemble()
}

// simpleInit is the plain init code returning rt.
func simpleInit(rt []byte) []byte { return newAsm().returnRuntime(rt) }

// sanitize replaces every BASEFEE (0x48) instruction of a raw code blob by NUMBER, skipping push data.
// It returns the number of replacements (the excluded draws).
func sanitize(code []byte) int {
	n := 0
	for i := 0; i < len(code); i++ {
		b := code[i]
		if b >= 0x60 && b <= 0x7f {
			i += int(b-0x60) + 1
			continue
		}
		if b == opBASEFEE {
			code[i] = opNUMBER
			n++
		}
	}
	return n
}
