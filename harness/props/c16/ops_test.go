package c16

import (
	"fmt"
	"math/big"
	"strings"

	ethcmn "github.com/ethereum/go-ethereum/common"
	ethtypes "github.com/ethereum/go-ethereum/core/types"
	ethvm "github.com/ethereum/go-ethereum/core/vm"
	ethcrypto "github.com/ethereum/go-ethereum/crypto"

	"github.com/Oneledger/protocol/vm"
)

// ---- part (a): sequences of state-interface calls ------------------------------------

// Op is one call of the state interface (or a transaction / block boundary).
type Op struct {
	K string `json:"k"`
	A int    `json:"a,omitempty"` // address index
	S int    `json:"s,omitempty"` // slot index
	V string `json:"v,omitempty"` // value: hex word, decimal amount or hex code
	N uint64 `json:"n,omitempty"` // nonce / gas / snapshot depth
}

func (o Op) String() string {
	switch o.K {
	case "create", "suicide", "aladdr", "touch":
		return fmt.Sprintf("%s(A%d)", o.K, o.A)
	case "addbal", "subbal", "newacc":
		return fmt.Sprintf("%s(A%d,%s)", o.K, o.A, o.V)
	case "setnonce":
		return fmt.Sprintf("setnonce(A%d,%d)", o.A, o.N)
	case "setcode":
		return fmt.Sprintf("setcode(A%d,%s)", o.A, o.V)
	case "setstate":
		return fmt.Sprintf("setstate(A%d,S%d,%s)", o.A, o.S, o.V)
	case "alslot", "read":
		return fmt.Sprintf("%s(A%d,S%d)", o.K, o.A, o.S)
	case "addrefund", "subrefund", "revert":
		return fmt.Sprintf("%s(%d)", o.K, o.N)
	case "log":
		return fmt.Sprintf("log(A%d,%d)", o.A, o.N)
	}
	return o.K
}

// OpsCase is the replayable input of part (a).
type OpsCase struct {
	Accts  []Acct `json:"accounts"`
	Sparse bool   `json:"sparse"` // compare only at explicit reads and transaction / block ends (reads also warm caches)
	Ops    []Op   `json:"ops"`
}

var (
	opAddrs = []ethcmn.Address{
		ethcmn.HexToAddress("0x1000000000000000000000000000000000000001"),
		ethcmn.HexToAddress("0x2000000000000000000000000000000000000002"),
		ethcmn.HexToAddress("0x3000000000000000000000000000000000000003"),
		ethcmn.HexToAddress("0x4000000000000000000000000000000000000004"),
		ethcmn.HexToAddress("0x0000000000000000000000000000000000000003"), // the RIPEMD precompile (touch special case)
	}
	opSlots = []ethcmn.Hash{
		{}, ethcmn.BigToHash(big.NewInt(1)), ethcmn.BigToHash(big.NewInt(2)),
		ethcmn.HexToHash("0xffffffffffffffffffffffffffffffffffffffffffffffffffffffffffffffff"),
	}
	opWords = []string{
		"0x0", "0x1", "0x2", "0xe29bbc",
		"0xffffffffffffffffffffffffffffffffffffffffffffffffffffffffffffffff",
		"0x0100000000000000000000000000000000000000000000000000000000000000",
	}
	opCodes  = []string{"", "00", "6001600055", "e29bbc", "33ff", "fe"}
	opAmount = []string{"0", "1", "2", "1000", "1000000000000000000", "340282366920938463463374607431768211456"}
)

// opsRun executes operations on both sides.
type opsRun struct {
	ad      *adapterSide
	ref     *refSide
	sparse  bool
	snaps   [][2]int // open snapshots: adapter id, reference id
	txN     int
	blockN  int
	thash   ethcmn.Hash
	addrs   []ethcmn.Address
	slots   map[ethcmn.Address][]ethcmn.Hash
	touched map[ethcmn.Address]bool

	// known-finding exclusions (decided on the reference state alone)
	ex       *exclusions
	startBal map[ethcmn.Address]*big.Int // balance at the start of the current transaction
	ghosts   *ghostTracker
}

func newOpsRun(c *OpsCase, ex *exclusions) *opsRun {
	r := &opsRun{ad: newAdapter(), ref: newRef(), sparse: c.Sparse, blockN: 1, ex: ex, startBal: map[ethcmn.Address]*big.Int{}, ghosts: newGhostTracker()}
	r.ad.seed(c.Accts)
	r.ref.seed(c.Accts)
	r.addrs = opAddrs
	r.slots = map[ethcmn.Address][]ethcmn.Hash{}
	for _, a := range opAddrs {
		r.slots[a] = opSlots
	}
	r.beginTx()
	return r
}

func (r *opsRun) beginTx() {
	r.txN++
	r.thash = ethcrypto.Keccak256Hash([]byte(fmt.Sprintf("c16-tx-%d", r.txN)))
	r.ad.st.BeginTxSession()
	r.ad.sdb.Prepare(r.thash)
	r.ref.sdb.Prepare(r.thash, r.txN)
	r.snaps = r.snaps[:0]
	for _, a := range opAddrs {
		r.startBal[a] = new(big.Int).Set(r.ref.sdb.GetBalance(a))
	}
}

// excluded reports whether applying o would enter a state a known finding excludes; decided by
// applying it to a copy of the reference state.
func (r *opsRun) excluded(o Op) bool {
	if r.ex == nil || !r.ex.any() {
		return false
	}
	switch o.K {
	case "snapshot", "revert", "finalise", "block", "read", "aladdr", "alslot", "prepal", "log", "addrefund", "subrefund":
		return false
	}
	cp := r.ref.sdb.Copy()
	applyOp(cp, o)
	if r.ex.on(exDelBal) {
		for _, a := range opAddrs {
			if r.startBal[a].Sign() != 0 && (cp.HasSuicided(a) || (cp.Exist(a) && cp.Empty(a))) {
				r.ex.hit(exDelBal)
				return true
			}
		}
	}
	if r.ex.on(exStale) && r.ghosts.revived(cp) {
		r.ex.hit(exStale)
		return true
	}
	return false
}

// allowed reports whether the op is inside the domain (preconditions the EVM itself guarantees),
// judged on the reference state.
func (r *opsRun) allowed(o Op) bool {
	ref := r.ref.sdb
	switch o.K {
	case "subbal":
		// the EVM only debits an account that exists (the caller of a transfer) and holds the amount
		v, _ := new(big.Int).SetString(o.V, 10)
		return v != nil && ref.Exist(opAddrs[o.A]) && ref.GetBalance(opAddrs[o.A]).Cmp(v) >= 0
	case "setstate", "setcode":
		// SSTORE runs in an existing account; code is set on an account just created
		return ref.Exist(opAddrs[o.A])
	case "subrefund":
		return ref.GetRefund() >= o.N
	case "revert":
		return int(o.N) < len(r.snaps)
	case "newacc":
		return !ref.Exist(opAddrs[o.A])
	case "create":
		// evm.create refuses an address that has a nonce or code; storage without either cannot exist
		a := opAddrs[o.A]
		if ref.GetNonce(a) != 0 {
			return false
		}
		if h := ref.GetCodeHash(a); h != (ethcmn.Hash{}) && h != ethcrypto.Keccak256Hash(nil) {
			return false
		}
		for _, s := range opSlots {
			if ref.GetCommittedState(a, s) != (ethcmn.Hash{}) {
				return false
			}
		}
		return true
	}
	return true
}

func mkLog(a ethcmn.Address, n uint64) *ethtypes.Log {
	l := &ethtypes.Log{Address: a, Data: []byte{byte(n), 0xaa}}
	for i := uint64(0); i < n%3; i++ {
		l.Topics = append(l.Topics, ethcmn.BigToHash(big.NewInt(int64(i+n))))
	}
	return l
}

func applyOp(s ethvm.StateDB, o Op) {
	a := opAddrs[o.A%len(opAddrs)]
	k := opSlots[o.S%len(opSlots)]
	switch o.K {
	case "create":
		// evm.create: CreateAccount, then the EIP-161 nonce
		s.CreateAccount(a)
		s.SetNonce(a, 1)
	case "newacc":
		// evm.Call to an account that does not exist: CreateAccount, then the transfer's credit
		s.CreateAccount(a)
		v, _ := new(big.Int).SetString(o.V, 10)
		s.AddBalance(a, v)
	case "addbal":
		v, _ := new(big.Int).SetString(o.V, 10)
		s.AddBalance(a, v)
	case "touch":
		s.AddBalance(a, new(big.Int))
	case "subbal":
		v, _ := new(big.Int).SetString(o.V, 10)
		s.SubBalance(a, v)
	case "setnonce":
		s.SetNonce(a, o.N)
	case "setcode":
		s.SetCode(a, ethcmn.FromHex(o.V))
	case "setstate":
		s.SetState(a, k, ethcmn.HexToHash(o.V))
	case "suicide":
		s.Suicide(a)
	case "addrefund":
		s.AddRefund(o.N)
	case "subrefund":
		s.SubRefund(o.N)
	case "log":
		s.AddLog(mkLog(a, o.N))
	case "aladdr":
		s.AddAddressToAccessList(a)
	case "alslot":
		s.AddSlotToAccessList(a, k)
	case "prepal":
		// the list's shape comes from the operation's number: 0-3 entries with 0-2 storage keys each (an entry without
		// keys still warms its address), with or without a destination, 0-2 precompiles
		n := int(o.N)
		if n < 0 {
			n = -n
		}
		var al ethtypes.AccessList
		for e := 0; e < n%4; e++ {
			t := ethtypes.AccessTuple{Address: opAddrs[(o.A+2+e)%len(opAddrs)]}
			for q := 0; q < (n/4+e)%3; q++ {
				kk := k
				kk[31] ^= byte(q)
				t.StorageKeys = append(t.StorageKeys, kk)
			}
			al = append(al, t)
		}
		var dst *ethcmn.Address
		if (n/12)%3 != 0 {
			dst = &opAddrs[(o.A+1)%len(opAddrs)]
		}
		var pre []ethcmn.Address
		for q := 0; q < (n/36)%3; q++ {
			pre = append(pre, opAddrs[(4+q)%len(opAddrs)])
		}
		s.PrepareAccessList(a, dst, pre, al)
	case "read":
		_ = s.GetState(a, k)
		_ = s.GetCommittedState(a, k)
		_ = s.GetBalance(a)
		_ = s.Exist(a)
	}
}

func (r *opsRun) compare(where string, live bool) *violation {
	if v := compareStates(where, r.ad.sdb, r.ref.sdb, r.addrs, r.slots, cmpOpts{live: live}); v != nil {
		return v
	}
	if live {
		return compareLogs(where, r.ad.sdb.GetTxLogs(), r.ref.sdb.GetLogs(r.thash, r.ad.bhash))
	}
	return nil
}

func (r *opsRun) compareFresh(where string) *violation {
	var f *vm.CommitStateDB
	if p := guard(func() { f = r.ad.fresh() }); p != "" {
		return &violation{"adapter-panic", "fresh", where + ": " + p}
	}
	var v *violation
	if p := guard(func() {
		v = compareStates(where+" [fresh adapter instance over the store]", f, r.ref.sdb, r.addrs, r.slots, cmpOpts{})
	}); p != "" {
		return &violation{"adapter-panic", "fresh-read", where + ": " + p}
	}
	return v
}

// step applies one op on both sides and compares.
func (r *opsRun) step(i int, o Op) *violation {
	where := fmt.Sprintf("step %d %s", i, o)
	switch o.K {
	case "snapshot":
		var ida, idr int
		if p := guard(func() { ida = r.ad.sdb.Snapshot() }); p != "" {
			return &violation{"adapter-panic", o.K, where + ": " + p}
		}
		idr = r.ref.rec.Snapshot()
		r.snaps = append(r.snaps, [2]int{ida, idr})
	case "revert":
		ids := r.snaps[o.N]
		r.snaps = r.snaps[:o.N]
		r.ref.rec.RevertToSnapshot(ids[1])
		if p := guard(func() { r.ad.sdb.RevertToSnapshot(ids[0]) }); p != "" {
			return &violation{"adapter-panic", o.K, where + ": " + p}
		}
	case "finalise", "block":
		// the live per-transaction view just before the transaction ends
		if v := r.compare(where+" (before finalise)", true); v != nil {
			return v
		}
		var ferr error
		if p := guard(func() { ferr = r.ad.sdb.Finalise(true) }); p != "" {
			return &violation{"adapter-panic", "finalise", where + ": " + p}
		}
		r.ghosts.beforeFinalise(r.ref.sdb, r.addrs, r.slots)
		r.ref.sdb.Finalise(true)
		r.ghosts.afterFinalise(r.ref.sdb)
		if ferr != nil {
			return &violation{"finalise-error", "finalise", where + ": adapter Finalise returned an error the reference has no counterpart for: " + ferr.Error()}
		}
		r.ad.st.CommitTxSession()
		if o.K == "block" {
			r.blockN++
			r.ad.commitBlock(r.blockN)
			r.ref.commitBlock()
		}
		if v := r.compareFresh(where); v != nil {
			return v
		}
		r.beginTx()
		if v := r.compare(where+" (after)", false); v != nil {
			return v
		}
		return nil
	default:
		applyOp(r.ref.rec, o)
		if p := guard(func() { applyOp(r.ad.sdb, o) }); p != "" {
			return &violation{"adapter-panic", o.K, where + ": " + p}
		}
	}
	if r.sparse && o.K != "read" {
		return nil
	}
	return r.compare(where, true)
}

// chooser abstracts the source of choices: rapid in the property test, bytes in the fuzz target.
type chooser interface {
	Int(lo, hi int, label string) int
}

func pick(c chooser, xs []string, label string) string { return xs[c.Int(0, len(xs)-1, label)] }

func genAccts(c chooser, ex *exclusions) []Acct {
	var out []Acct
	for i, a := range opAddrs {
		switch c.Int(0, 5, "acctkind") {
		case 0, 1:
			out = append(out, Acct{Addr: a.Hex(), Kind: "native", Bal: pick(c, opAmount[1:], "bal")})
		case 2:
			out = append(out, Acct{Addr: a.Hex(), Kind: "keeper", Bal: pick(c, opAmount, "bal"), Nonce: uint64(c.Int(1, 3, "nonce"))})
		case 3:
			if i != 4 {
				if ex.on(exHollow) {
					ex.hit(exHollow)
					continue
				}
				out = append(out, Acct{Addr: a.Hex(), Kind: "hollow"})
			}
		}
	}
	return out
}

var opKinds = []struct {
	k string
	w int
}{
	{"setstate", 14}, {"addbal", 5}, {"subbal", 4}, {"touch", 4}, {"setnonce", 3}, {"setcode", 3}, {"create", 3}, {"newacc", 2},
	{"suicide", 2}, {"addrefund", 2}, {"subrefund", 2}, {"log", 2}, {"aladdr", 2}, {"alslot", 2}, {"prepal", 2},
	{"snapshot", 7}, {"revert", 6}, {"finalise", 5}, {"block", 2}, {"read", 2},
}

// genOp draws the next op inside the domain.
func genOp(c chooser, r *opsRun) Op {
	total := 0
	for _, k := range opKinds {
		total += k.w
	}
	for try := 0; try < 8; try++ {
		x := c.Int(0, total-1, "op")
		kind := ""
		for _, k := range opKinds {
			if x < k.w {
				kind = k.k
				break
			}
			x -= k.w
		}
		o := Op{K: kind}
		switch kind {
		case "prepal":
			o.A = c.Int(0, len(opAddrs)-1, "a")
			o.N = uint64(c.Int(0, 107, "alshape"))
		case "create", "suicide", "aladdr":
			o.A = c.Int(0, len(opAddrs)-1, "a")
		case "touch":
			// half of the zero-value credits go to the RIPEMD precompile (its touch survives reverts)
			o.A = c.Int(0, 2*len(opAddrs)-1, "a")
			if o.A >= len(opAddrs) {
				o.A = 4
			}
		case "addbal", "newacc":
			o.A = c.Int(0, len(opAddrs)-1, "a")
			o.V = pick(c, opAmount, "amt")
		case "subbal":
			o.A = c.Int(0, len(opAddrs)-1, "a")
			bal := r.ref.sdb.GetBalance(opAddrs[o.A])
			switch c.Int(0, 3, "subk") {
			case 0:
				o.V = bal.String() // everything
			case 1:
				o.V = "0"
			default:
				o.V = pick(c, opAmount, "amt")
			}
		case "setnonce":
			o.A = c.Int(0, len(opAddrs)-1, "a")
			o.N = uint64(c.Int(0, 3, "n"))
		case "setcode":
			o.A = c.Int(0, len(opAddrs)-1, "a")
			o.V = pick(c, opCodes, "code")
			if o.V == "e29bbc" && r.ex.on(exCodeMarker) {
				r.ex.hit(exCodeMarker)
				o.V = "e29bbd"
			}
		case "setstate":
			o.A = c.Int(0, len(opAddrs)-1, "a")
			o.S = c.Int(0, len(opSlots)-1, "s")
			o.V = pick(c, opWords, "word")
		case "alslot", "read":
			o.A = c.Int(0, len(opAddrs)-1, "a")
			o.S = c.Int(0, len(opSlots)-1, "s")
		case "addrefund":
			o.N = uint64(c.Int(0, 3, "g")) * 4800
		case "subrefund":
			o.N = uint64(c.Int(0, 2, "g")) * 4800
		case "log":
			o.A = c.Int(0, len(opAddrs)-1, "a")
			o.N = uint64(c.Int(0, 5, "n"))
		case "revert":
			if len(r.snaps) == 0 {
				continue
			}
			o.N = uint64(c.Int(0, len(r.snaps)-1, "depth"))
		}
		if r.allowed(o) && !r.excluded(o) {
			return o
		}
	}
	return Op{K: "read"}
}

// runOps executes a recorded case (replay) or, when gen != nil, draws the ops on the fly.
func runOps(c *OpsCase, n int, gen chooser, ex *exclusions, journal func()) (*violation, *recorder) {
	r := newOpsRun(c, ex)
	if v := r.compare("initial state", false); v != nil {
		return v, r.ref.rec
	}
	if v := r.compareFresh("initial state"); v != nil {
		return v, r.ref.rec
	}
	for i := 0; ; i++ {
		var o Op
		if gen != nil {
			if i >= n {
				break
			}
			o = genOp(gen, r)
			c.Ops = append(c.Ops, o)
			if journal != nil {
				journal()
			}
		} else {
			if i >= len(c.Ops) {
				break
			}
			o = c.Ops[i]
			if !r.allowed(o) {
				continue
			}
		}
		if v := r.step(i, o); v != nil {
			return v, r.ref.rec
		}
	}
	// close the last transaction and block
	if v := r.step(len(c.Ops), Op{K: "block"}); v != nil {
		return v, r.ref.rec
	}
	return nil, r.ref.rec
}

func opsString(ops []Op) string {
	var sb strings.Builder
	for _, o := range ops {
		sb.WriteString(o.String())
		sb.WriteByte(';')
	}
	return sb.String()
}

// opsClasses derives class labels and the non-trivial signature of an op sequence.
func opsClasses(c *OpsCase, rec *recorder) (string, []string) {
	classes := []string{"ops"}
	for _, k := range []string{"SSTORE-committed", "SSTORE-dirty", "REVERT-undo", "SELFDESTRUCT", "NEWACC", "CODE"} {
		if rec.feat[k] > 0 {
			classes = append(classes, "ops:"+k)
		}
	}
	nt := ""
	if rec.nonTrivial() {
		var ks []string
		last := ""
		for _, o := range c.Ops {
			if o.K != last {
				ks = append(ks, o.K)
				last = o.K
			}
		}
		nt = "ops|" + strings.Join(ks, ",")
	}
	return nt, classes
}
