package c16

import (
	"bytes"
	"errors"
	"fmt"
	"math"
	"math/big"
	"os"
	"strings"

	ethcmn "github.com/ethereum/go-ethereum/common"
	ethcore "github.com/ethereum/go-ethereum/core"
	ethvm "github.com/ethereum/go-ethereum/core/vm"
	ethcrypto "github.com/ethereum/go-ethereum/crypto"
	abci "github.com/tendermint/tendermint/abci/types"

	"github.com/Oneledger/protocol/data/keys"
	"github.com/Oneledger/protocol/vm"
)

// PStep is one step of a message sequence: a message or a block boundary.
type PStep struct {
	K     string `json:"k"` // msg | block
	From  string `json:"from,omitempty"`
	To    string `json:"to,omitempty"` // "" = contract creation
	Nonce uint64 `json:"nonce,omitempty"`
	Value string `json:"value,omitempty"`
	Gas   uint64 `json:"gas,omitempty"`
	Price string `json:"price,omitempty"`
	Data  string `json:"data,omitempty"`
	Pool  uint64 `json:"pool,omitempty"`  // block gas pool
	Pre   bool   `json:"pre,omitempty"`   // compare the live per-transaction view before Finalise
	Apply bool   `json:"apply,omitempty"` // adapter side through EVMTransaction.Apply() (the application's exact call)
	Note  string `json:"note,omitempty"`
}

type ProgCase struct {
	Accts []Acct  `json:"accounts"`
	Focus string  `json:"focus,omitempty"`
	Steps []PStep `json:"steps"`
}

var (
	eoaRich    = ethcmn.HexToAddress("0xe000000000000000000000000000000000000001")
	eoaKeeper  = ethcmn.HexToAddress("0xe000000000000000000000000000000000000002")
	eoaPoor    = ethcmn.HexToAddress("0xe000000000000000000000000000000000000003")
	eoaNone    = ethcmn.HexToAddress("0xe000000000000000000000000000000000000004")
	accNative  = ethcmn.HexToAddress("0xa000000000000000000000000000000000000001")
	accHollow  = ethcmn.HexToAddress("0xa000000000000000000000000000000000000002")
	accFresh1  = ethcmn.HexToAddress("0xf000000000000000000000000000000000000001")
	accFresh2  = ethcmn.HexToAddress("0xf000000000000000000000000000000000000002")
	preSha     = ethcmn.HexToAddress("0x0000000000000000000000000000000000000002")
	preRipemd  = ethcmn.HexToAddress("0x0000000000000000000000000000000000000003")
	preIdent   = ethcmn.HexToAddress("0x0000000000000000000000000000000000000004")
	coinbaseAd = ethcmn.BytesToAddress(bytes.Repeat([]byte{0xc0}, 20))
)

func progAccts(c chooser, ex *exclusions) []Acct {
	kind := []string{"native", "keeper"}[c.Int(0, 1, "richkind")]
	hollow := "hollow"
	if ex.on(exHollow) {
		ex.hit(exHollow)
		hollow = "none" // the address stays in the pools but does not exist
	}
	return []Acct{
		{Addr: eoaRich.Hex(), Kind: kind, Bal: "1000000000000000000000000", Nonce: uint64(c.Int(0, 2, "richnonce"))},
		{Addr: eoaKeeper.Hex(), Kind: "keeper", Bal: "1000000000000000000", Nonce: 5},
		{Addr: eoaPoor.Hex(), Kind: "native", Bal: "400000"},
		{Addr: accNative.Hex(), Kind: "native", Bal: "7"},
		{Addr: accHollow.Hex(), Kind: hollow},
	}
}

type progRun struct {
	ad     *adapterSide
	ref    *refSide
	height int64
	txN    int
	blockN int
	known  map[ethcmn.Address]int // contracts -> number of branches (generator knowledge)
	order  []ethcmn.Address
	stats  map[string]int
	ghosts *ghostTracker
	evSeen int
	listed map[ethcmn.Address]bool
}

func newProgRun(c *ProgCase) *progRun {
	r := &progRun{ad: newAdapter(), ref: newRef(), height: 2, blockN: 1, known: map[ethcmn.Address]int{}, stats: map[string]int{}, ghosts: newGhostTracker(), listed: map[ethcmn.Address]bool{}}
	r.ad.seed(c.Accts)
	r.ref.seed(c.Accts)
	for _, a := range c.Accts {
		r.ref.rec.addr(a.address())
	}
	for _, a := range []ethcmn.Address{eoaNone, accFresh1, accFresh2, coinbaseAd} {
		r.ref.rec.addr(a)
	}
	return r
}

func errClass(err error) string {
	if err == nil {
		return ""
	}
	for _, e := range []error{ethcore.ErrNonceTooLow, ethcore.ErrNonceTooHigh, ethcore.ErrInsufficientFunds, ethcore.ErrInsufficientFundsForTransfer,
		ethcore.ErrIntrinsicGas, ethcore.ErrGasLimitReached, ethcore.ErrSenderNoEOA, ethcore.ErrGasUintOverflow} {
		if errors.Is(err, e) {
			return e.Error()
		}
	}
	return "other: " + err.Error()
}

func vmErrString(err error) string {
	if err == nil {
		return ""
	}
	return err.Error()
}

func (r *progRun) compareFresh(where string) *violation {
	var v *violation
	if p := guard(func() {
		f := r.ad.fresh()
		v = compareStates(where+" [fresh adapter instance over the store]", f, r.ref.sdb, r.ref.rec.addrs, r.ref.rec.slots, cmpOpts{})
	}); p != "" {
		return &violation{"adapter-panic", "fresh-read", where + ": " + p}
	}
	return v
}


// refApply runs the chain's own ApplyMessage over an EVM built on the given (go-ethereum) state with
// exactly the block context, chain config and vm config EVMTransaction.NewEVM uses.
func (r *progRun) refApply(sdb ethvm.StateDB, gp *ethcore.GasPool, hdr *abci.Header, from ethcmn.Address, to *keys.Address, nonce uint64, value *big.Int, data []byte, gas uint64, price *big.Int) (*vm.ExecutionResult, error) {
	etx := vm.NewEVMTransaction(r.ad.sdb, gp, hdr, keys.Address(from.Bytes()), to, nonce, value, data, nil, gas, price, false)
	blockCtx := ethvm.BlockContext{
		CanTransfer: ethcore.CanTransfer,
		Transfer:    ethcore.Transfer,
		GetHash:     vm.GetHashFn(r.ad.sdb, hdr),
		Coinbase:    ethcmn.BytesToAddress(hdr.ProposerAddress),
		GasLimit:    gp.Gas(),
		BlockNumber: new(big.Int).SetInt64(hdr.GetHeight()),
		Time:        new(big.Int).SetInt64(hdr.Time.Unix()),
		Difficulty:  new(big.Int).Set(vm.DefaultDifficulty),
	}
	txCtx := ethvm.TxContext{Origin: from, GasPrice: price}
	refEVM := ethvm.NewEVM(blockCtx, txCtx, sdb, vm.EthereumConfig(hdr.ChainID), ethvm.Config{ExtraEips: make([]int, 0)})
	return vm.ApplyMessage(refEVM, etx, gp)
}

// probe executes the message on a copy of the reference state and reports the exclusion class it
// would enter ("" when none).
func (r *progRun) probe(s PStep, ex *exclusions) string {
	if !ex.any() || s.K != "msg" {
		return ""
	}
	cp := r.ref.sdb.Copy()
	rec := newRecorder(cp)
	from := ethcmn.HexToAddress(s.From)
	var to *keys.Address
	if s.To != "" {
		t := keys.Address(ethcmn.HexToAddress(s.To).Bytes())
		to = &t
	}
	value, _ := new(big.Int).SetString(s.Value, 10)
	if value == nil {
		value = new(big.Int)
	}
	price, _ := new(big.Int).SetString(s.Price, 10)
	if price == nil {
		price = new(big.Int)
	}
	pool := s.Pool
	if pool == 0 {
		pool = math.MaxInt64
	}
	cp.Prepare(ethcmn.Hash{1}, 0)
	var err error
	if p := guard(func() {
		_, err = r.refApply(rec, new(ethcore.GasPool).AddGas(pool), header(r.height), from, to, s.Nonce, value, ethcmn.FromHex(s.Data), s.Gas, price)
	}); p != "" || err != nil {
		return ""
	}
	if ex.on(exDelBal) {
		for _, a := range rec.addrs {
			if r.ref.sdb.GetBalance(a).Sign() != 0 && (cp.HasSuicided(a) || (cp.Exist(a) && cp.Empty(a))) {
				return exDelBal
			}
		}
	}
	if ex.on(exStale) {
		cp.Finalise(true)
		if r.ghosts.revived(cp) {
			return exStale
		}
	}
	return ""
}

// execMsg applies one message on both sides through the chain's own message application.
func (r *progRun) execMsg(i int, s PStep) *violation {
	where := fmt.Sprintf("step %d msg[%s]", i, s.Note)
	r.txN++
	thash := ethcrypto.Keccak256Hash([]byte(fmt.Sprintf("c16-tx-%d", r.txN)))
	hdr := header(r.height)
	from := ethcmn.HexToAddress(s.From)
	var to *keys.Address
	if s.To != "" {
		t := keys.Address(ethcmn.HexToAddress(s.To).Bytes())
		to = &t
		r.ref.rec.addr(ethcmn.HexToAddress(s.To))
	}
	r.ref.rec.addr(from)
	value, _ := new(big.Int).SetString(s.Value, 10)
	if value == nil {
		value = new(big.Int)
	}
	price, _ := new(big.Int).SetString(s.Price, 10)
	if price == nil {
		price = new(big.Int)
	}
	data := ethcmn.FromHex(s.Data)
	pool := s.Pool
	if pool == 0 {
		pool = math.MaxInt64
	}

	// --- reference: the chain's ApplyMessage over an EVM built on go-ethereum's state with the same contexts
	r.ref.sdb.Prepare(thash, r.txN)
	gpR := new(ethcore.GasPool).AddGas(pool)
	snap := r.ref.sdb.Snapshot()
	var resR *vm.ExecutionResult
	var errR error
	if p := guard(func() { resR, errR = r.refApply(r.ref.rec, gpR, hdr, from, to, s.Nonce, value, data, s.Gas, price) }); p != "" {
		// a panic on the reference side is an input outside what the EVM supports on either side: not a verdict
		return &violation{"harness", "reference-panic", where + ": reference side panicked: " + p}
	}

	// --- adapter
	r.ad.st.BeginTxSession()
	r.ad.sdb.Prepare(thash)
	gpA := new(ethcore.GasPool).AddGas(pool)
	etxA := vm.NewEVMTransaction(r.ad.sdb, gpA, hdr, keys.Address(from.Bytes()), to, s.Nonce, value, data, nil, s.Gas, price, false)
	var resA *vm.ExecutionResult
	var errA error
	if p := guard(func() {
		if s.Apply {
			resA, errA = etxA.Apply()
		} else {
			resA, errA = vm.ApplyMessage(etxA.NewEVM(), etxA, gpA)
		}
	}); p != "" {
		return &violation{"adapter-panic", "apply", where + ": adapter panicked: " + p + " (reference: err=" + fmt.Sprint(errR) + ")"}
	}

	// --- outcome
	if a, b := errClass(errA), errClass(errR); a != b {
		return &violation{"result", "consensus-error", fmt.Sprintf("%s: consensus error adapter=%q reference=%q", where, a, b)}
	}
	if errA != nil && errR != nil && errA.Error() != errR.Error() {
		return &violation{"result", "consensus-error-text", fmt.Sprintf("%s: error text adapter=%q reference=%q", where, errA, errR)}
	}
	if (resA == nil) != (resR == nil) {
		return &violation{"result", "result-nil", fmt.Sprintf("%s: result adapter=%v reference=%v", where, resA, resR)}
	}
	if resA != nil {
		r.stats["executed"]++
		if resA.UsedGas != resR.UsedGas {
			return &violation{"result", "gas", fmt.Sprintf("%s: gas used adapter=%d reference=%d (vm error adapter=%q reference=%q)", where, resA.UsedGas, resR.UsedGas, vmErrString(resA.Err), vmErrString(resR.Err))}
		}
		if a, b := vmErrString(resA.Err), vmErrString(resR.Err); a != b {
			return &violation{"result", "vm-error", fmt.Sprintf("%s: vm error adapter=%q reference=%q", where, a, b)}
		}
		if !bytes.Equal(resA.ReturnData, resR.ReturnData) {
			return &violation{"result", "return-data", fmt.Sprintf("%s: return data adapter=%x reference=%x", where, resA.ReturnData, resR.ReturnData)}
		}
		if resA.ContractAddress != resR.ContractAddress {
			return &violation{"result", "contract-address", fmt.Sprintf("%s: contract address adapter=%s reference=%s", where, resA.ContractAddress.Hex(), resR.ContractAddress.Hex())}
		}
		switch {
		case resA.Err == nil:
			r.stats["ok"]++
		case errors.Is(resA.Err, ethvm.ErrExecutionReverted):
			r.stats["reverted"]++
		case errors.Is(resA.Err, ethvm.ErrOutOfGas):
			r.stats["out-of-gas"]++
		default:
			r.stats["vm-error-other"]++
			e := resA.Err.Error()
			if len(e) > 28 {
				e = e[:28]
			}
			r.stats["vmerr:"+s.Note[:4]+":"+e]++
		}
	} else {
		r.stats["consensus-rejected"]++
	}
	if os.Getenv("VERIF_C16_TRACE") != "" {
		ev := r.ref.rec.events
		if len(ev) > r.evSeen {
			ev = ev[r.evSeen:]
		} else {
			ev = nil
		}
		r.evSeen = len(r.ref.rec.events)
		fmt.Fprintf(os.Stderr, "TRACE %s from=%s to=%s gas=%d val=%s nonce=%d -> err=%v res=%+v events=%v\n", s.Note, s.From[:6], s.To, s.Gas, s.Value, s.Nonce, errR, resR, ev)
	}
	if gpA.Gas() != gpR.Gas() {
		return &violation{"result", "gas-pool", fmt.Sprintf("%s: gas pool left adapter=%d reference=%d", where, gpA.Gas(), gpR.Gas())}
	}
	if !s.Apply {
		if v := compareLogs(where, r.ad.sdb.GetTxLogs(), r.ref.sdb.GetLogs(thash, r.ad.bhash)); v != nil {
			return v
		}
		if x, y := r.ad.sdb.GetRefund(), r.ref.sdb.GetRefund(); x != y {
			return &violation{"state", "refund", fmt.Sprintf("%s: refund counter adapter=%d reference=%d", where, x, y)}
		}
		if s.Pre && errA == nil {
			var v *violation
			if p := guard(func() {
				v = compareStates(where+" (before finalise)", r.ad.sdb, r.ref.sdb, r.ref.rec.addrs, r.ref.rec.slots, cmpOpts{live: true})
			}); p != "" {
				return &violation{"adapter-panic", "read", where + ": " + p}
			}
			if v != nil {
				return v
			}
		}
		var ferr error
		if p := guard(func() { ferr = r.ad.sdb.Finalise(true) }); p != "" {
			return &violation{"adapter-panic", "finalise", where + ": " + p}
		}
		if ferr != nil && errA == nil {
			return &violation{"finalise-error", "finalise", where + ": adapter Finalise returned an error the reference has no counterpart for: " + ferr.Error()}
		}
	} else {
		// Apply() finalised already; the transaction logs stay readable until Reset
		if v := compareLogs(where, r.ad.sdb.GetTxLogs(), r.ref.sdb.GetLogs(thash, r.ad.bhash)); v != nil {
			return v
		}
	}
	if errR != nil {
		// a message failing its consensus checks is not part of a block: go-ethereum drops what it did
		r.ref.sdb.RevertToSnapshot(snap)
	}
	r.ghosts.beforeFinalise(r.ref.sdb, r.ref.rec.addrs, r.ref.rec.slots)
	r.ref.sdb.Finalise(true)
	r.ghosts.afterFinalise(r.ref.sdb)
	if errA != nil {
		r.ad.st.DiscardTxSession() // what the application does with a failed DeliverTx
	} else {
		r.ad.st.CommitTxSession()
	}

	// --- state after the transaction: live adapter, then a fresh instance over the store
	var v *violation
	if p := guard(func() {
		v = compareStates(where+" (after finalise)", r.ad.sdb, r.ref.sdb, r.ref.rec.addrs, r.ref.rec.slots, cmpOpts{})
	}); p != "" {
		return &violation{"adapter-panic", "read", where + ": " + p}
	}
	if v != nil {
		return v
	}
	if v := r.compareFresh(where); v != nil {
		return v
	}
	// the live instance read everything above: drop those caches as the next Finalise would
	_ = r.ad.sdb.Finalise(true)
	r.learn()
	return nil
}

// learn notes contracts the reference now knows (children created at run time included).
func (r *progRun) learn() {
	for _, a := range r.ref.rec.addrs {
		if !r.listed[a] && r.ref.sdb.GetCodeSize(a) > 0 {
			r.listed[a] = true
			if _, ok := r.known[a]; !ok {
				r.known[a] = 4
			}
			r.order = append(r.order, a)
		}
	}
}

func (r *progRun) execBlock(i int) *violation {
	r.blockN++
	r.height++
	r.ad.commitBlock(r.blockN)
	r.ref.commitBlock()
	return r.compareFresh(fmt.Sprintf("step %d block commit", i))
}

func (r *progRun) step(i int, s PStep) *violation {
	if s.K == "block" {
		return r.execBlock(i)
	}
	return r.execMsg(i, s)
}

// ---- message generator ---------------------------------------------------------------------

type msgGen struct {
	c     chooser
	g     *progGen
	r     *progRun
	first bool
}

func (m *msgGen) liveContracts() []ethcmn.Address {
	var out []ethcmn.Address
	for _, a := range m.r.order {
		if m.r.ref.sdb.GetCodeSize(a) > 0 {
			out = append(out, a)
		}
	}
	return out
}

func (m *msgGen) next() PStep {
	c := m.c
	if !m.first && c.Int(0, 4, "isblock") == 0 {
		return PStep{K: "block"}
	}
	s := PStep{K: "msg", Pre: c.Int(0, 1, "pre") == 1, Apply: c.Int(0, 5, "apply") == 0}
	// sender
	from := eoaRich
	switch c.Int(0, 29, "from") {
	case 0:
		from = eoaKeeper
	case 1:
		from = eoaPoor
	case 2:
		from = eoaNone
	case 3:
		if lc := m.liveContracts(); len(lc) > 0 {
			from = lc[c.Int(0, len(lc)-1, "fromctr")] // a sender with code
		}
	}
	s.From = from.Hex()
	n := m.r.ref.sdb.GetNonce(from)
	switch c.Int(0, 23, "noncek") {
	case 0:
		if n > 0 {
			n--
		}
	case 1, 2:
		n += uint64(c.Int(1, 3, "gap"))
	}
	s.Nonce = n
	s.Price = []string{"1000000000", "1000000000", "1", "0", "3"}[c.Int(0, 4, "price")]
	s.Value = []string{"0", "0", "0", "0", "1", "1", "7", "1000", "1000", "1000000000000000000", "1000000000000000000", "2000000000000000000000000"}[c.Int(0, 11, "value")]
	if c.Int(0, 39, "smallpool") == 0 {
		s.Pool = uint64(c.Int(20000, 200000, "pool"))
	}
	m.g.p.contracts = m.liveContracts()
	lc := m.g.p.contracts
	kind := c.Int(0, 99, "kind")
	switch {
	case m.first || len(lc) == 0 || kind < 14:
		nb := 0
		init := m.g.contract(0, &nb)
		s.Data = "0x" + ethcmn.Bytes2Hex(init)
		s.Gas = []uint64{3000000, 3000000, 3000000, 1500000, 1500000, 800000, 400000, 200000, 100000, 53000, 52999}[c.Int(0, 10, "cgas")]
		if m.first {
			// the first contract of a sequence is created reliably
			s.From, s.Nonce, s.Gas, s.Pool = eoaRich.Hex(), m.r.ref.sdb.GetNonce(eoaRich), 3000000, 0
			from = eoaRich
			if len(s.Value) > 4 {
				s.Value = "5"
			}
		}
		s.Note = "create"
		// the address this creation will get (when it executes)
		m.r.known[ethcrypto.CreateAddress(from, m.r.ref.sdb.GetNonce(from))] = nb
	case kind < 90:
		to := lc[c.Int(0, len(lc)-1, "to")]
		s.To = to.Hex()
		nb := m.r.known[to]
		if nb < 1 {
			nb = 1
		}
		sel := c.Int(0, nb, "sel") // nb itself = no such branch
		arg := make([]byte, 32)
		switch c.Int(0, 3, "argk") {
		case 0:
			arg[31] = byte(c.Int(0, 9, "argc"))
		case 1:
			all := m.g.p.all()
			copy(arg[12:], all[c.Int(0, len(all)-1, "argaddr")].Bytes())
		case 2:
			copy(arg, wordPool[5].Bytes())
		default:
			arg[31] = 1
		}
		data := append([]byte{byte(sel)}, arg...)
		if c.Int(0, 19, "nodata") == 0 {
			data = nil
		}
		s.Data = "0x" + ethcmn.Bytes2Hex(data)
		s.Gas = []uint64{1000000, 1000000, 1000000, 1000000, 300000, 300000, 300000, 100000, 100000, 60000, 40000, 30000, 25000, 22000, 21000}[c.Int(0, 14, "gas")]
		s.Note = fmt.Sprintf("call sel=%d", sel)
	default:
		// plain transfer / call to a non-contract
		all := append(append([]ethcmn.Address{}, m.g.p.eoas...), m.g.p.others...)
		// addresses of contracts that are gone (self-destructed): they can be credited like any other address
		for _, a := range m.r.order {
			if m.r.ref.sdb.GetCodeSize(a) == 0 {
				all = append(all, a, a)
			}
		}
		to := all[c.Int(0, len(all)-1, "to")]
		s.To = to.Hex()
		if c.Int(0, 2, "withdata") == 0 {
			s.Data = "0x01ff00"
		}
		s.Gas = []uint64{21000, 21000, 50000, 20999, 21048, 100000}[c.Int(0, 5, "gas")]
		s.Note = "transfer"
	}
	m.first = false
	return s
}

// runProg executes a recorded case (replay) or, when gen != nil, draws n steps on the fly.
func runProg(c *ProgCase, n int, gen chooser, rawOK bool, ex *exclusions, journal func()) (*violation, *progRun, map[string]int) {
	r := newProgRun(c)
	if v := r.compareFresh("initial state"); v != nil {
		return v, r, nil
	}
	var mg *msgGen
	excl := map[string]int{}
	if gen != nil {
		f := focuses[gen.Int(0, len(focuses)-1, "focus")]
		if rawOK {
			f.raw = 4
		}
		c.Focus = f.name
		p := &pool{eoas: []ethcmn.Address{eoaRich, eoaKeeper, eoaPoor, eoaNone}, others: []ethcmn.Address{accNative, accHollow, accFresh1, accFresh2, preSha, preRipemd, preIdent}}
		mg = &msgGen{c: gen, r: r, first: true, g: &progGen{c: gen, f: f, p: p, rawOK: rawOK, excluded: excl, ex: ex}}
	}
	for i := 0; ; i++ {
		var s PStep
		if mg != nil {
			if i >= n {
				break
			}
			s = mg.next()
			if tag := r.probe(s, ex); tag != "" {
				// inside a known finding's class: draw something benign instead
				ex.hit(tag)
				s = PStep{K: "msg", From: eoaRich.Hex(), To: eoaKeeper.Hex(), Nonce: r.ref.sdb.GetNonce(eoaRich), Value: "1", Gas: 21000, Price: "1", Note: "benign(" + tag + ")"}
			}
			c.Steps = append(c.Steps, s)
			if journal != nil {
				journal()
			}
		} else {
			if i >= len(c.Steps) {
				break
			}
			s = c.Steps[i]
		}
		if v := r.step(i, s); v != nil {
			return v, r, excl
		}
	}
	if v := r.execBlock(len(c.Steps)); v != nil {
		return v, r, excl
	}
	return nil, r, excl
}

// progClasses derives class labels and the non-trivial signature.
func progClasses(c *ProgCase, r *progRun) (string, []string) {
	rec := r.ref.rec
	classes := []string{"prog", "prog:focus-" + c.Focus}
	for _, k := range []string{"SSTORE-committed", "SSTORE-dirty", "SSTORE-fresh", "REVERT-undo", "SELFDESTRUCT", "CODE", "NEWACC", "LOG", "REFUND+", "REFUND-"} {
		if rec.feat[k] > 0 {
			classes = append(classes, "prog:"+k)
		}
	}
	for _, k := range []string{"ok", "reverted", "out-of-gas", "vm-error-other", "consensus-rejected"} {
		if r.stats[k] > 0 {
			classes = append(classes, "prog:msg-"+k)
		}
	}
	if os.Getenv("VERIF_C16_DEBUG") != "" {
		for k, n := range r.stats {
			for i := 0; i < n; i++ {
				classes = append(classes, "n:"+k)
			}
		}
	}
	nt := ""
	if rec.nonTrivial() {
		nt = "prog|" + rec.signature()
	}
	return nt, classes
}

func progSummary(c *ProgCase) string {
	var sb strings.Builder
	sb.WriteString(c.Focus + ":")
	for _, s := range c.Steps {
		if s.K == "block" {
			sb.WriteString("|")
			continue
		}
		sb.WriteString(fmt.Sprintf("[%s g=%d v=%s]", s.Note, s.Gas, s.Value))
	}
	return sb.String()
}
