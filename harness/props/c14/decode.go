package c14

import (
	"encoding/json"
	"math/big"

	"github.com/Oneledger/protocol/action"
	agov "github.com/Oneledger/protocol/action/governance"
	"github.com/Oneledger/protocol/action/transfer"
	"github.com/Oneledger/protocol/data/keys"
	"github.com/Oneledger/protocol/serialize"
)

// GTx is a transaction of a block as the monitor sees it: decoded from the block's bytes
// (never from generator bookkeeping, so that a replay judges exactly what the search judged).
type GTx struct {
	Kind     string         // the application's name of the transaction type ("UNDECODABLE" when the bytes do not parse)
	Signers  []keys.Address // addresses of the keys in the signature list, in order
	Price    *big.Int       // gas price offered (fee currency units per gas)
	ID       string         // proposal id for governance kinds
	Create   *agov.CreateProposal
	Fund     *agov.FundProposal
	Vote     *agov.VoteProposal
	Cancel   *agov.CancelProposal
	Withdraw *agov.WithdrawFunds
	Finalize *agov.FinalizeProposal
	Expire   *agov.ExpireVotes
	Send     *transfer.Send
}

func decodeTx(b []byte) *GTx {
	g := &GTx{Kind: "UNDECODABLE", Price: big.NewInt(0)}
	stx := &action.SignedTx{}
	if err := serialize.GetSerializer(serialize.NETWORK).Deserialize(b, stx); err != nil {
		return g
	}
	g.Kind = stx.Type.String()
	g.Price = new(big.Int).Set(stx.Fee.Price.Value.BigInt())
	for _, s := range stx.Signatures {
		h, err := s.Signer.GetHandler()
		if err != nil {
			g.Signers = append(g.Signers, nil)
			continue
		}
		g.Signers = append(g.Signers, h.Address())
	}
	bad := func() *GTx { g.Kind = "UNDECODABLE:" + g.Kind; return g }
	switch stx.Type {
	case action.PROPOSAL_CREATE:
		m := &agov.CreateProposal{}
		if json.Unmarshal(stx.Data, m) != nil {
			return bad()
		}
		g.Create, g.ID = m, string(m.ProposalID)
	case action.PROPOSAL_FUND:
		m := &agov.FundProposal{}
		if json.Unmarshal(stx.Data, m) != nil {
			return bad()
		}
		g.Fund, g.ID = m, string(m.ProposalId)
	case action.PROPOSAL_VOTE:
		m := &agov.VoteProposal{}
		if json.Unmarshal(stx.Data, m) != nil {
			return bad()
		}
		g.Vote, g.ID = m, string(m.ProposalID)
	case action.PROPOSAL_CANCEL:
		m := &agov.CancelProposal{}
		if json.Unmarshal(stx.Data, m) != nil {
			return bad()
		}
		g.Cancel, g.ID = m, string(m.ProposalId)
	case action.PROPOSAL_WITHDRAW_FUNDS:
		m := &agov.WithdrawFunds{}
		if json.Unmarshal(stx.Data, m) != nil {
			return bad()
		}
		g.Withdraw, g.ID = m, string(m.ProposalID)
	case action.PROPOSAL_FINALIZE:
		m := &agov.FinalizeProposal{}
		if json.Unmarshal(stx.Data, m) != nil {
			return bad()
		}
		g.Finalize, g.ID = m, string(m.ProposalID)
	case action.EXPIRE_VOTES:
		m := &agov.ExpireVotes{}
		if json.Unmarshal(stx.Data, m) != nil {
			return bad()
		}
		g.Expire, g.ID = m, string(m.ProposalID)
	case action.SEND:
		m := &transfer.Send{}
		if json.Unmarshal(stx.Data, m) != nil {
			return bad()
		}
		g.Send = m
	}
	return g
}

func (g *GTx) signer0() keys.Address {
	if len(g.Signers) == 0 {
		return nil
	}
	return g.Signers[0]
}
