package c14

import (
	"fmt"
	"math/big"
	"os"
	"strings"
	"testing"

	agov "github.com/Oneledger/protocol/action/governance"
	"github.com/Oneledger/protocol/data/balance"
	"github.com/Oneledger/protocol/data/governance"

	"verif/hist"
	"verif/sim"
	"verif/txgen"
)

func TestExplore(t *testing.T) {
	if os.Getenv("VERIF_EXPLORE") == "" {
		t.Skip()
	}
	out, _ := os.Create("/dev/shm/c14-explore.txt")
	defer out.Close()
	p := sim.DefaultParams()
	p.PropFundingDL, p.PropVotingDL = 4, 4
	w, err := hist.NewWorld(p, hist.Roles(p, 1))
	if err != nil {
		t.Fatal(err)
	}
	defer w.Close()
	w.Init()
	u := w.G.U
	fee := w.Fee
	show := func(tag string) {
		d := w.R[0].Dump()
		fmt.Fprintf(out, "---- %s h=%d\n", tag, w.C.Height)
		for _, kv := range d {
			if strings.HasPrefix(kv.K, "prop") || strings.HasPrefix(kv.K, "f_") || (strings.HasPrefix(kv.K, "g_") && strings.Contains(kv.K, "fee")) {
				v := string(kv.V)
				if len(v) > 400 {
					v = v[:400]
				}
				fmt.Fprintf(out, "%q = %q\n", kv.K, v)
			}
		}
	}
	run := func(txs ...txgen.Tx) {
		spec := sim.BlockSpec{GapSecs: 5}
		for _, x := range txs {
			spec.Txs = append(spec.Txs, x.Bytes)
		}
		b, res := w.RunBlock(spec)
		for i, r := range res[0].Txs {
			fmt.Fprintf(out, "h=%d %s code=%d gas=%d log=%.200s\n", b.Height, txs[i].Kind, r.Code, r.GasUsed, r.Log)
		}
	}
	big10 := func(s string) *big.Int { b, _ := new(big.Int).SetString(s, 10); return b }
	goal := balance.NewAmountFromBigInt(big10(p.PropFundingGoal))
	mk := func(seed string, typ governance.ProposalType, cfg string, fdl int64) (governance.ProposalID, txgen.Tx) {
		id := txgen.ProposalID(seed)
		h := w.C.Height + 1
		return id, txgen.ProposalCreate(u.Users[0], agov.CreateProposal{ProposalID: id, ProposalType: typ, Headline: "h", Description: "d",
			Proposer: u.Users[0].Addr, InitialFunding: txgen.Amt("OLT", big10(p.PropInitialFunding)), FundingDeadline: h + fdl, FundingGoal: goal,
			VotingDeadline: h + fdl + p.PropVotingDL, PassPercentage: p.PropPassPct, ConfigUpdate: cfg}, fee, w.Memo())
	}
	run()
	run()
	id1, c1 := mk("p1", governance.ProposalTypeConfigUpdate, "feeOption.minFeeDecimal:10", 3)
	id2, c2 := mk("p2", governance.ProposalTypeGeneral, "", 3)
	id3, c3 := mk("p3", governance.ProposalTypeGeneral, "", 3)
	run(c1, c2, c3)
	show("created")
	run(txgen.ProposalFund(u.Users[1], id1, u.Users[1].Addr, txgen.Amt("OLT", big10(p.PropFundingGoal)), fee, w.Memo()),
		txgen.ProposalFund(u.Users[1], id2, u.Users[1].Addr, txgen.Amt("OLT", big.NewInt(-5)), fee, w.Memo()),
		txgen.ExpireVotes(u.Users[3], id3, u.Users[3].Addr, fee, w.Memo()))
	show("funded")
	var votes []txgen.Tx
	for i := 0; i < 3; i++ {
		v := u.Vals[i]
		votes = append(votes, txgen.ProposalVote(id1, v.Stake.Addr, v.Key.Addr, governance.OPIN_POSITIVE, fee, w.Memo(), v.Stake, v.Key))
	}
	run(votes...)
	show("voted")
	run(txgen.ProposalCancel(u.Users[0], id2, u.Users[0].Addr, "x", fee, w.Memo()))
	show("next")
	run(txgen.ProposalWithdrawFunds(u.Users[0], id2, u.Users[0].Addr, u.Users[0].Addr, txgen.Amt("OLT", big10(p.PropInitialFunding)), fee, w.Memo()))
	show("withdraw")
	for i := 0; i < 3; i++ {
		run()
	}
	show("end")
}
