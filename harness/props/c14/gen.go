package c14

import (
	"encoding/json"
	"fmt"
	"math/big"
	"sort"

	"pgregory.net/rapid"

	agov "github.com/Oneledger/protocol/action/governance"
	"github.com/Oneledger/protocol/data/balance"
	"github.com/Oneledger/protocol/data/governance"
	"github.com/Oneledger/protocol/data/keys"

	"verif/hist"
	"verif/sim"
	"verif/txgen"
)

// genParams draws a genesis configuration for governance histories. It starts from the shared
// configuration generator and then picks a flavour that decides which config-update proposals
// can pass the application's whole-group validation (see DESIGN section 4).
func genParams(rt *rapid.T, seedTag string) (sim.Params, string, []string) {
	p := hist.GenParams(rt, seedTag)
	u := hist.NewU(rt)
	p.PropFundingDL = int64(u.Range(2, 5, "c14-fdl"))
	p.PropVotingDL = int64(u.Range(1, 4, "c14-vdl"))
	// ONS prices inside the range governance accepts, so that onsOptions updates validate
	p.OnsBasePrice = "1000000000000000000"
	p.OnsPerBlock = "100000000000000"
	pool := []string{
		"feeOption.minFeeDecimal:10", "feeOption.minFeeDecimal:12", "feeOption.minFeeDecimal:9",
		"onsOptions.perBlockFees:200000000000000", "onsOptions.baseDomainPrice:2000000000000000000", "onsOptions.perBlockFees:100000000000001",
		// rejected when the proposal is created
		"bogus.key:1", "nocolon", "a:b:c", "feeOption.minFeeDecimal:99", "stakingOptions.topValidatorCount:1", "onsOptions.perBlockFees:0", "feeOption.minFeeDecimal:x",
	}
	flavour := []string{"plain", "plain", "evidence", "staking", "boundary", "propopts"}[u.N(6, "c14-flavour")]
	switch flavour {
	case "propopts":
		// the only deadlines that validate for all three proposal types at once (config >= 10000 / >= 10000, code >= 10000 /
		// 150000..450000, general 75000..150000 both): proposal-option updates can pass; proposals end by votes, cancel or
		// finalisation here, never by a deadline
		p.PropFundingDL, p.PropVotingDL = 75000, 150000
		ini, goal := bigS(p.PropInitialFunding), bigS(p.PropFundingGoal)
		lower := new(big.Int).Mul(ini, big.NewInt(3)) // the smallest admissible goal (3 x initial funding)
		if lower.Cmp(goal) >= 0 {
			lower = new(big.Int).Set(goal)
		}
		for _, typ := range []string{"general", "configUpdate", "codeChange"} {
			pool = append(pool, "propOptions."+typ+".fundingGoal:"+lower.String(), "propOptions."+typ+".fundingGoal:"+new(big.Int).Mul(goal, big.NewInt(2)).String(),
				"propOptions."+typ+".fundingGoal:"+new(big.Int).Add(goal, big.NewInt(1)).String())
		}
		pool = append(pool, "propOptions.general.initialFunding:"+new(big.Int).Div(ini, big.NewInt(2)).String(), "propOptions.configUpdate.passPercentage:60",
			"propOptions.general.passPercentage:80", "propOptions.codeChange.votingDeadline:150001")
	case "evidence":
		// main-net sized evidence options: updates validate, and two updates that are each valid when proposed
		// can invalidate one another (minVotesRequired 700 then blockVotesDiff 1100) -> finalisation fails
		p.Evidence.BlockVotesDiff = 1000
		p.Evidence.MinVotesRequired = 800
		p.Evidence.PenaltyBasePercentage = 30
		pool = append(pool, "evidenceOptions.minVotesRequired:700", "evidenceOptions.blockVotesDiff:1100", "evidenceOptions.minVotesRequired:700", "evidenceOptions.blockVotesDiff:1100",
			"evidenceOptions.minVotesRequired:900", "evidenceOptions.penaltyBasePercentage:20", "evidenceOptions.blockVotesDiff:999")
	case "staking":
		p.Maturity = 109200
		if p.MinSelfDeleg < 500000 {
			p.MinSelfDeleg = 500000
			for i := range p.ValPower {
				p.ValPower[i] += 500000
			}
		}
		p.TopCount = 8
		pool = append(pool, "stakingOptions.topValidatorCount:9", "stakingOptions.maturityTime:109300", "stakingOptions.minSelfDelegationAmount:600000", "stakingOptions.topValidatorCount:8")
	case "boundary":
		// powers such that single validators hold exactly 33% / 20% / 49% of the snapshot: the pass and
		// fail thresholds are hit exactly
		a := int64(50000)
		shapes := [][]int64{{33, 33, 34}, {33, 30, 20, 17}, {20, 20, 20, 20, 20}, {49, 51}, {33, 67}, {34, 33, 13, 20}}
		sh := shapes[u.N(len(shapes), "c14-shape")]
		p.MinSelfDeleg = 500000
		p.ValPower = nil
		for _, s := range sh {
			p.ValPower = append(p.ValPower, s*a)
		}
		p.Witnesses = []int{0}
		p.TopCount = 8
	}
	// about one genesis in four carries proposals of the chain it was dumped from (the flavour stays what it is:
	// the classes "genesis-carries-proposals" / "genesis-proposal:<stage>:<path>" show them)
	if u.N(4, "c14-pre") == 0 {
		p.PreProposals = genPreProposals(u, p, pool)
	}
	return p, flavour, pool
}

// preTally judges a drawn opinion vector against the genesis powers (documented rule, see tally).
func preTally(votes []string, power []int64) tally {
	var t tally
	for i, pw := range power {
		o := "unknown"
		if i < len(votes) {
			o = votes[i]
		}
		if o == "absent" {
			continue
		}
		t.all += pw
		switch o {
		case "yes":
			t.yes += pw
		case "no":
			t.no += pw
		case "giveup":
			t.giveup += pw
		}
	}
	return t
}

// genPreProposals draws 1-3 proposals a state dump could hold: funding (contributions below the goal), voting
// (goal met, snapshot of the genesis validators, an undecided tally), passed / failed (a tally that recounts to
// the outcome and that the last vote decided: taking one deciding vote back leaves it undecided, so tallies sit
// on and next to the pass percentage), cancelled (funders may withdraw). Deadlines are heights of the new chain.
func genPreProposals(u *hist.U, p sim.Params, pool []string) []sim.PreProposal {
	n := 1 + u.N(3, "pre-n")
	goal, initial := bigS(p.PropFundingGoal), bigS(p.PropInitialFunding)
	nv := len(p.ValPower)
	var out []sim.PreProposal
	for k := 0; k < n; k++ {
		pp := sim.PreProposal{IDSeed: fmt.Sprintf("c14-pre-%d-%s", k, p.Seed)}
		pp.Stage = []string{"funding", "voting", "voting", "passed", "passed", "failed", "cancelled"}[u.N(7, "pre-stage")]
		pp.Type = []string{"general", "general", "config", "config", "code"}[u.N(5, "pre-type")]
		if pp.Type == "config" {
			pp.Config = pool[u.N(6, "pre-cfg")] // the first six validate in every flavour
		}
		pp.Proposer = u.N(5, "pre-proposer")
		if u.N(4, "pre-pct") == 0 {
			pp.PassPct = []int{51, 67, 80, 100}[u.N(4, "pre-pct-v")] // the proposal's own percentage, not the options'
		}
		pct := p.PropPassPct
		if pp.PassPct != 0 {
			pct = pp.PassPct
		}
		other := (pp.Proposer + 1 + u.N(4, "pre-funder")) % 5
		fund := func(user int, amt *big.Int) {
			if amt.Sign() > 0 {
				pp.Funds = append(pp.Funds, sim.PreFund{User: user, Amount: amt.String()})
			}
		}
		switch pp.Stage {
		case "funding", "cancelled":
			fund(pp.Proposer, initial)
			rest := new(big.Int).Sub(goal, initial)
			switch u.N(4, "pre-partial") {
			case 0:
				fund(other, new(big.Int).Sub(rest, big.NewInt(1))) // one unit short of the goal
			case 1:
				fund(other, new(big.Int).Div(rest, big.NewInt(2)))
			case 2:
				fund(pp.Proposer, big.NewInt(1)) // a second record of the same funder: the import adds them up
			}
			pp.FundingDL = int64(u.N(6, "pre-fdl")) // 0: the funding period ended with the old chain (a goal met before block 3 finds no active validators to snapshot)
			pp.VotingDL = pp.FundingDL + p.PropVotingDL
		default:
			fund(pp.Proposer, initial)
			rest := new(big.Int).Sub(goal, initial)
			if u.N(3, "pre-over") == 0 {
				rest.Add(rest, big.NewInt(int64(1+u.N(1000, "pre-over-v"))))
			}
			if u.N(3, "pre-split") == 0 {
				half := new(big.Int).Div(rest, big.NewInt(2))
				fund(other, half)
				fund((other+1)%5, new(big.Int).Sub(rest, half))
			} else {
				fund(other, rest)
			}
			pp.FundingDL = 0
			pp.VotingDL = int64(u.N(5, "pre-vdl")) // 0: the voting period ended with the old chain (expires in block 1)
			if pp.Stage == "voting" && p.PropVotingDL > 1000 {
				pp.VotingDL = p.PropVotingDL // the flavour without deadline endings
			}
			votes := make([]string, nv)
			for i := range votes {
				votes[i] = []string{"yes", "yes", "no", "unknown", "unknown", "giveup", "absent"}[u.N(7, "pre-op")]
			}
			idx := func(label string, ops ...string) int { // a drawn validator holding one of the opinions, -1 if none
				var c []int
				for i, o := range votes {
					for _, w := range ops {
						if o == w {
							c = append(c, i)
						}
					}
				}
				if len(c) == 0 {
					return -1
				}
				return c[u.N(len(c), label)]
			}
			switch pp.Stage {
			case "voting":
				for preTally(votes, p.ValPower).passes(pct) {
					votes[idx("pre-fix-v", "yes")] = "unknown"
				}
				for preTally(votes, p.ValPower).cannotPass(pct) {
					votes[idx("pre-fix-v", "no")] = "unknown"
				}
			case "passed":
				for !preTally(votes, p.ValPower).passes(pct) {
					votes[idx("pre-fix-p", "unknown", "no", "giveup", "absent")] = "yes"
				}
				// the vote that decided was the last one: no yes beyond the deciding ones
				for again := true; again; {
					again = false
					for i := range votes {
						if votes[i] == "yes" {
							votes[i] = "unknown"
							if preTally(votes, p.ValPower).passes(pct) {
								again = true
								break
							}
							votes[i] = "yes"
						}
					}
				}
			case "failed":
				for !preTally(votes, p.ValPower).cannotPass(pct) {
					votes[idx("pre-fix-n", "unknown", "yes", "giveup", "absent")] = "no"
				}
				for again := true; again; {
					again = false
					for i := range votes {
						if votes[i] == "no" {
							votes[i] = "unknown"
							if preTally(votes, p.ValPower).cannotPass(pct) {
								again = true
								break
							}
							votes[i] = "no"
						}
					}
				}
			}
			pp.Votes = votes
		}
		out = append(out, pp)
	}
	return out
}

// fgen is the focused generator: it reads the reference model (which proposals are in which stage,
// who funded what, which validators are in a snapshot) and draws transactions that are mostly
// applicable, so that every terminal path is reached in short histories.
type fgen struct {
	w    *hist.World
	m    *Monitor
	u    *hist.U
	g    *hist.Gen
	rt   *rapid.T
	pool []string
	n    int
	// cfgQueue holds update strings the next config-update proposals use first (directed scenarios)
	cfgQueue []string
	priority []string // ids of the proposals created from cfgQueue: pushed towards a passing vote
}

func (f *fgen) next() int64 { return f.w.C.Height + 1 }

func (f *fgen) byStage(stages ...Stage) []*PropM {
	var out []*PropM
	for _, id := range f.m.Order {
		p := f.m.Props[id]
		for _, s := range stages {
			if p.Stage == s {
				out = append(out, p)
			}
		}
	}
	return out
}

func (f *fgen) pick(ps []*PropM, label string) *PropM {
	if len(ps) == 0 {
		return nil
	}
	// prefer recent ones
	n := len(ps)
	if n > 4 {
		ps = ps[n-4:]
	}
	return ps[f.u.N(len(ps), label)]
}

func (f *fgen) user(label string) (int, *sim.User) {
	i := f.u.N(5, label)
	return i, f.w.G.U.Users[i%len(f.w.G.U.Users)]
}

func (f *fgen) userByAddr(a string) *sim.User {
	for _, u := range f.w.G.U.Users {
		if u.Addr.String() == a {
			return u
		}
	}
	return nil
}

func (f *fgen) valByAddr(a string) *sim.Val {
	for _, v := range f.w.G.U.Vals {
		if v.Key.Addr.String() == a {
			return v
		}
	}
	return nil
}

// propOption reads the proposal options of a type that are in force in the last committed state.
func (f *fgen) propOption(typ governance.ProposalType) *governance.ProposalOption {
	if f.m == nil || f.m.prev == nil {
		return nil
	}
	var set governance.ProposalOptionSet
	if json.Unmarshal(currentOption(f.m.prev, "propOptions"), &set) != nil {
		return nil
	}
	switch typ {
	case governance.ProposalTypeConfigUpdate:
		return &set.ConfigUpdate
	case governance.ProposalTypeCodeChange:
		return &set.CodeChange
	}
	return &set.General
}

func bigS(s string) *big.Int { b, _ := new(big.Int).SetString(s, 10); return b }

func (f *fgen) create() txgen.Tx {
	w := f.w
	ui, usr := f.user("cr-user")
	typ := []governance.ProposalType{governance.ProposalTypeGeneral, governance.ProposalTypeGeneral, governance.ProposalTypeConfigUpdate, governance.ProposalTypeConfigUpdate,
		governance.ProposalTypeConfigUpdate, governance.ProposalTypeCodeChange}[f.u.N(6, "cr-type")]
	cfg := ""
	if len(f.cfgQueue) > 0 {
		typ = governance.ProposalTypeConfigUpdate
	}
	if typ == governance.ProposalTypeConfigUpdate {
		cfg = f.pool[f.u.N(len(f.pool), "cr-cfg")]
		if len(f.cfgQueue) > 0 {
			cfg, f.cfgQueue = f.cfgQueue[0], f.cfgQueue[1:]
			f.priority = append(f.priority, string(txgen.ProposalID(fmt.Sprintf("c14-%d-%s", f.n+1, w.P.Seed))))
		} else if f.u.N(3, "cr-valid") != 0 {
			cfg = f.pool[f.u.N(6, "cr-cfgv")] // the first six are valid in every flavour
		}
	} else if f.u.N(8, "cr-cfgstray") == 0 {
		cfg = f.pool[f.u.N(len(f.pool), "cr-cfg2")] // an update string on a non-config proposal must never be applied
	}
	f.n++
	id := txgen.ProposalID(fmt.Sprintf("c14-%d-%s", f.n, w.P.Seed))
	h := f.next()
	fundDL := h + 1 + int64(f.u.N(int(w.P.PropFundingDL), "cr-fdl"))
	if f.u.N(3, "cr-short") == 0 {
		fundDL = h + 1
	}
	if len(f.priority) > 0 && f.priority[len(f.priority)-1] == string(id) {
		fundDL = h + w.P.PropFundingDL // a scenario proposal gets the longest funding period
	}
	voteDL := fundDL + w.P.PropVotingDL
	initial := bigS(w.P.PropInitialFunding)
	goal := bigS(w.P.PropFundingGoal)
	passPct := w.P.PropPassPct
	// the options in force (a passed proposal-option update changes what a creation has to name)
	if o := f.propOption(typ); o != nil && o.InitialFunding != nil && o.FundingGoal != nil {
		initial, goal, passPct = new(big.Int).Set(o.InitialFunding.BigInt()), new(big.Int).Set(o.FundingGoal.BigInt()), o.PassPercentage
		voteDL = fundDL + o.VotingDeadline
	}
	switch f.u.N(8, "cr-init") {
	case 0:
		initial = new(big.Int).Sub(goal, big.NewInt(1))
	case 1:
		initial = new(big.Int).Div(goal, big.NewInt(2))
	case 2:
		initial = new(big.Int).Set(goal) // the goal met by the creation itself
	case 3:
		initial = new(big.Int).Add(goal, big.NewInt(int64(1+f.u.N(3, "cr-init-over"))))
	}
	tags := []string{"focused"}
	if f.u.N(12, "cr-idsep") == 0 && !(len(f.priority) > 0 && f.priority[len(f.priority)-1] == string(id)) {
		// ids are 64 characters chosen by the sender: the stores' own key separator is a legal character
		b := []byte(id)
		b[7], b[23] = '_', '_'
		id = governance.ProposalID(b)
		tags = append(tags, "id-with-separator")
	}
	if scenario := len(f.priority) > 0 && f.priority[len(f.priority)-1] == string(id); !scenario && len(f.m.Order) > 0 && f.u.N(8, "cr-reuse") < 1+2*len(f.byStage(SZF)) {
		// the sender chooses the id: ask for one that exists already, in whatever stage it is (terminal
		// ones preferred: each terminal stage has a store of its own)
		cands := f.byStage(SZ, SZF, SX, SM, SC)
		if len(cands) == 0 || f.u.N(3, "cr-reuse-any") == 0 {
			cands = nil
			for _, oid := range f.m.Order {
				cands = append(cands, f.m.Props[oid])
			}
		}
		if zf := f.byStage(SZF); len(zf) > 0 && f.u.N(2, "cr-reuse-zf") == 0 {
			cands = zf // the rarest stage
		}
		old := cands[f.u.N(len(cands), "cr-reuse-which")]
		id = governance.ProposalID(old.ID)
		tags = append(tags, "id-reused", "id-reused-from-"+string(old.Stage))
	}
	m := agov.CreateProposal{ProposalID: id, ProposalType: typ, Headline: "h", Description: "d", Proposer: usr.Addr,
		InitialFunding: txgen.Amt("OLT", initial), FundingDeadline: fundDL, FundingGoal: balance.NewAmountFromBigInt(goal),
		VotingDeadline: voteDL, PassPercentage: passPct, ConfigUpdate: cfg}
	tx := txgen.ProposalCreate(usr, m, w.Fee, w.Memo())
	tx.Tags = tags
	tx.Note = fmt.Sprintf("%s:%d:%d:%d:%d", id, ui, fundDL, voteDL, int(typ))
	return tx
}

// fund contributes to a proposal in funding: the rest to the goal, one less, a third, or a unit.
func (f *fgen) fund(late bool) (txgen.Tx, bool) {
	var cands []*PropM
	for _, p := range f.byStage(SF) {
		isLate := f.next() > p.Rec.FundingDeadline
		if isLate == late {
			cands = append(cands, p)
		}
	}
	p := f.pick(cands, "fu-prop")
	if p == nil {
		return txgen.Tx{}, false
	}
	_, usr := f.user("fu-user")
	goal := p.Rec.FundingGoal.BigInt()
	rest := new(big.Int).Sub(goal, p.total())
	var amt *big.Int
	switch f.u.N(10, "fu-shape") {
	case 0, 1, 2, 3, 4:
		amt = rest
	case 5:
		amt = new(big.Int).Sub(rest, big.NewInt(1))
	case 6, 7:
		amt = new(big.Int).Div(goal, big.NewInt(3))
	case 8:
		amt = new(big.Int).Add(rest, big.NewInt(int64(f.u.N(1000, "fu-over"))))
	default:
		amt = big.NewInt(1)
	}
	if late {
		amt = rest
	}
	if amt.Sign() <= 0 {
		amt = big.NewInt(1)
	}
	tx := txgen.ProposalFund(usr, governance.ProposalID(p.ID), usr.Addr, txgen.Amt("OLT", amt), f.w.Fee, f.w.Memo())
	tx.Tags = []string{"focused"}
	if late {
		tx.Tags = append(tx.Tags, "fund-late")
	}
	return tx, true
}

func (f *fgen) snapshotVals(p *PropM) []*sim.Val {
	var as []string
	for a := range p.Snapshot {
		as = append(as, a)
	}
	sort.Strings(as)
	var out []*sim.Val
	for _, a := range as {
		if v := f.valByAddr(a); v != nil {
			out = append(out, v)
		}
	}
	return out
}

func (f *fgen) opinion(label string) governance.VoteOpinion {
	return []governance.VoteOpinion{governance.OPIN_POSITIVE, governance.OPIN_POSITIVE, governance.OPIN_POSITIVE, governance.OPIN_NEGATIVE, governance.OPIN_NEGATIVE, governance.OPIN_GIVEUP}[f.u.N(6, label)]
}

func (f *fgen) voteTx(p *PropM, v *sim.Val, op governance.VoteOpinion, tag string) txgen.Tx {
	tx := txgen.ProposalVote(governance.ProposalID(p.ID), v.Stake.Addr, v.Key.Addr, op, f.w.Fee, f.w.Memo(), v.Stake, v.Key)
	tx.Tags = []string{"focused", tag}
	return tx
}

// vote: one validator of the snapshot (sometimes any validator) votes on a proposal in voting.
func (f *fgen) vote() (txgen.Tx, bool) {
	p := f.pick(f.byStage(SV), "vo-prop")
	if p == nil {
		return txgen.Tx{}, false
	}
	vals := f.snapshotVals(p)
	if f.u.N(8, "vo-any") == 0 || len(vals) == 0 {
		vals = f.w.G.U.Vals
	}
	// prefer a validator that has not voted yet
	var fresh []*sim.Val
	for _, v := range vals {
		if p.Opinion[v.Key.Addr.String()] == governance.OPIN_UNKNOWN {
			fresh = append(fresh, v)
		}
	}
	if len(fresh) > 0 && f.u.N(5, "vo-again") != 0 {
		vals = fresh
	}
	v := vals[f.u.N(len(vals), "vo-val")]
	return f.voteTx(p, v, f.opinion("vo-op"), "vote"), true
}

// voteBurst: every validator of the snapshot votes in one block (mostly yes, mostly no, or mixed).
func (f *fgen) voteBurst(late bool) ([]txgen.Tx, bool) {
	var cands []*PropM
	for _, p := range f.byStage(SV) {
		isLate := f.next() > p.Rec.VotingDeadline
		if isLate == late {
			cands = append(cands, p)
		}
	}
	p := f.pick(cands, "vb-prop")
	if p == nil {
		return nil, false
	}
	bias := f.u.N(4, "vb-bias")
	var out []txgen.Tx
	for _, v := range f.snapshotVals(p) {
		op := governance.OPIN_POSITIVE
		switch bias {
		case 0:
			op = governance.OPIN_NEGATIVE
		case 1:
			op = f.opinion("vb-op")
		}
		if late {
			op = governance.OPIN_POSITIVE
		}
		tag := "vote-burst"
		if late {
			tag = "vote-late"
		}
		out = append(out, f.voteTx(p, v, op, tag))
	}
	return out, len(out) > 0
}

func (f *fgen) cancel() (txgen.Tx, bool) {
	stages := []Stage{SF}
	if f.u.N(6, "ca-any") == 0 {
		stages = []Stage{SF, SV, SP, SN}
	}
	p := f.pick(f.byStage(stages...), "ca-prop")
	if p == nil {
		return txgen.Tx{}, false
	}
	usr := f.userByAddr(p.Rec.Proposer.String())
	if usr == nil {
		return txgen.Tx{}, false
	}
	tx := txgen.ProposalCancel(usr, governance.ProposalID(p.ID), usr.Addr, "r", f.w.Fee, f.w.Memo())
	tx.Tags = []string{"focused"}
	return tx, true
}

// refundDue lists the proposals whose funders are owed their contributions back.
func (f *fgen) refundDue() []*PropM {
	var out []*PropM
	for _, p := range f.byStage(SC, SM, SF) {
		if p.Stage == SF && !(f.next() > p.Rec.FundingDeadline && p.total().Cmp(p.Rec.FundingGoal.BigInt()) < 0) {
			continue
		}
		for fa := range p.Contrib {
			if p.outstanding(fa).Sign() > 0 {
				out = append(out, p)
				break
			}
		}
	}
	return out
}

// refundBlock: every funder still owed something by a refundable proposal withdraws exactly that
// amount to itself; at most one withdrawal per account in the block so that the credit can be
// checked to the unit.
func (f *fgen) refundBlock() ([]txgen.Tx, bool) {
	due := f.refundDue()
	if len(due) == 0 {
		return nil, false
	}
	used := map[string]bool{}
	var out []txgen.Tx
	for _, p := range due {
		var fs []string
		for fa := range p.Contrib {
			fs = append(fs, fa)
		}
		sort.Strings(fs)
		for _, fa := range fs {
			o := p.outstanding(fa)
			usr := f.userByAddr(fa)
			if o.Sign() <= 0 || usr == nil || used[fa] {
				continue
			}
			if f.u.N(6, "rf-skip") == 0 {
				continue
			}
			amt := o
			if f.u.N(6, "rf-part") == 0 && o.Cmp(big.NewInt(2)) > 0 {
				amt = new(big.Int).Div(o, big.NewInt(2))
			}
			used[fa] = true
			tx := txgen.ProposalWithdrawFunds(usr, governance.ProposalID(p.ID), usr.Addr, usr.Addr, txgen.Amt("OLT", amt), f.w.Fee, f.w.Memo())
			tx.Tags = []string{"focused", "refund"}
			out = append(out, tx)
		}
	}
	return out, len(out) > 0
}

// oddWithdraw: a funder withdraws at any stage with an amount around its contribution: one more,
// zero, negative (to another account), everything.
func (f *fgen) oddWithdraw() (txgen.Tx, bool) {
	var all []*PropM
	for _, id := range f.m.Order {
		all = append(all, f.m.Props[id])
	}
	p := f.pick(all, "ow-prop")
	if p == nil {
		return txgen.Tx{}, false
	}
	var fs []string
	for fa := range p.Contrib {
		fs = append(fs, fa)
	}
	sort.Strings(fs)
	if len(fs) == 0 {
		return txgen.Tx{}, false
	}
	fa := fs[f.u.N(len(fs), "ow-funder")]
	usr := f.userByAddr(fa)
	if usr == nil {
		return txgen.Tx{}, false
	}
	o := p.outstanding(fa)
	var amt *big.Int
	tag := ""
	switch f.u.N(6, "ow-shape") {
	case 0:
		amt, tag = new(big.Int).Add(o, big.NewInt(1)), "amt-over"
	case 1:
		amt, tag = big.NewInt(0), "amt-zero"
	case 2, 3:
		amt, tag = big.NewInt(-int64(1+f.u.N(1000000, "ow-neg"))), "amt-neg"
	default:
		amt, tag = new(big.Int).Set(o), "amt-all"
	}
	benef := keys.Address(usr.Addr)
	if f.u.N(2, "ow-benef") == 0 {
		_, other := f.user("ow-other")
		benef = other.Addr
	}
	tx := txgen.ProposalWithdrawFunds(usr, governance.ProposalID(p.ID), usr.Addr, benef, txgen.Amt("OLT", amt), f.w.Fee, f.w.Memo())
	tx.Tags = []string{"focused", "withdraw-odd", tag}
	return tx, true
}

// stranger: EXPIRE_VOTES / PROPOSAL_FINALIZE signed by an arbitrary account against a proposal in a chosen stage.
func (f *fgen) stranger() (txgen.Tx, bool) {
	var all []*PropM
	for _, id := range f.m.Order {
		all = append(all, f.m.Props[id])
	}
	p := f.pick(all, "st-prop")
	if p == nil {
		return txgen.Tx{}, false
	}
	_, usr := f.user("st-user")
	var tx txgen.Tx
	if f.u.N(2, "st-kind") == 0 {
		tx = txgen.ExpireVotes(usr, governance.ProposalID(p.ID), usr.Addr, f.w.Fee, f.w.Memo())
	} else {
		tx = txgen.ProposalFinalize(usr, governance.ProposalID(p.ID), usr.Addr, f.w.Fee, f.w.Memo())
	}
	tx.Tags = []string{"focused", "public-router", "target-" + string(p.Stage)}
	return tx, true
}

// push moves a priority proposal one step towards a passing vote: the rest of its goal, then a yes from every snapshot validator.
func (f *fgen) push() ([]txgen.Tx, bool) {
	for _, id := range f.priority {
		p := f.m.Props[id]
		if p == nil {
			continue
		}
		switch p.Stage {
		case SF:
			if f.next() > p.Rec.FundingDeadline {
				continue
			}
			_, usr := f.user("pu-user")
			rest := new(big.Int).Sub(p.Rec.FundingGoal.BigInt(), p.total())
			tx := txgen.ProposalFund(usr, governance.ProposalID(p.ID), usr.Addr, txgen.Amt("OLT", rest), f.w.Fee, f.w.Memo())
			tx.Tags = []string{"focused", "push"}
			return []txgen.Tx{tx}, true
		case SV:
			if f.next() > p.Rec.VotingDeadline {
				continue
			}
			var out []txgen.Tx
			for _, v := range f.snapshotVals(p) {
				out = append(out, f.voteTx(p, v, governance.OPIN_POSITIVE, "push"))
			}
			if len(out) > 0 {
				return out, true
			}
		}
	}
	return nil, false
}

// drawBlock draws the transactions of the next block.
func (f *fgen) drawBlock() ([]txgen.Tx, string) {
	// deep-state drivers first: they apply only in particular model states
	r := f.u.N(100, "blk")
	if f.next() <= 2 && len(f.m.Order) == 0 && f.u.N(5, "warmup") != 0 {
		return nil, "idle" // validators are marked active at the end of block 2: earlier snapshots are empty
	}
	if f.next() <= 2 && len(f.m.Order) > 0 && f.u.N(3, "warmup-pre") == 0 {
		return nil, "idle" // (a genesis that carries proposals has work for the first blocks: vote, fund, withdraw, finalise)
	}
	if len(f.priority) > 0 && f.u.N(100, "push") < 60 {
		if txs, ok := f.push(); ok {
			return txs, "push"
		}
	}
	// the last block of a voting period: votes still count there and the expiry is due one block later — a stranger's
	// EXPIRE_VOTES (and FINALIZE) arrives in exactly that block, ahead of the votes, half of the time
	if f.u.N(2, "at-deadline") == 0 {
		for _, p := range f.byStage(SV) {
			if p.Rec.VotingDeadline == f.next() {
				_, usr := f.user("dl-user")
				ex := txgen.ExpireVotes(usr, governance.ProposalID(p.ID), usr.Addr, f.w.Fee, f.w.Memo())
				ex.Tags = []string{"focused", "public-router", "expire-at-voting-deadline"}
				out := []txgen.Tx{ex}
				if burst, ok := f.voteBurst(false); ok {
					out = append(out, burst...)
				}
				return out, "expire-at-deadline"
			}
		}
	}
	switch {
	case r < 12:
		if txs, ok := f.refundBlock(); ok {
			return txs, "refund"
		}
	case r < 34:
		if txs, ok := f.voteBurst(false); ok {
			return txs, "vote-burst"
		}
	case r < 38:
		if txs, ok := f.voteBurst(true); ok {
			return txs, "vote-late"
		}
	case r < 42:
		if tx, ok := f.fund(true); ok {
			return []txgen.Tx{tx}, "fund-late"
		}
	case r < 50:
		return nil, "idle"
	case r < 56:
		return f.g.DrawTxs(4), "shared"
	}
	n := 1 + f.u.N(4, "ntx")
	var out []txgen.Tx
	for i := 0; i < n; i++ {
		var tx txgen.Tx
		ok := false
		a := f.u.N(100, "act")
		open := len(f.byStage(SF, SV))
		if open == 0 && a < 67 {
			a = 0
		}
		if open >= 4 && a < 10 {
			a = 10 + f.u.N(57, "act-full")
		}
		switch {
		case a < 10:
			tx, ok = f.create(), true
		case a < 42:
			tx, ok = f.fund(false)
		case a < 67:
			tx, ok = f.vote()
		case a < 73:
			tx, ok = f.cancel()
		case a < 81:
			tx, ok = f.oddWithdraw()
		case a < 88:
			tx, ok = f.stranger()
		case a < 92:
			tx, ok = f.g.Stake(), true
		case a < 96:
			tx, ok = f.g.Unstake(), true
		default:
			tx, ok = f.g.Send(), true
		}
		if !ok {
			if tx, ok = f.fund(false); !ok {
				if tx, ok = f.vote(); !ok {
					tx = f.create()
				}
			}
		}
		out = append(out, tx)
	}
	return out, "act"
}
