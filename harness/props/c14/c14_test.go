// Package c14: governance proposals follow their lifecycle and their funds are accounted for.
// A reference-model monitor judges the proposal / vote / fund / option records of every
// committed block of generated histories on one replica.
package c14

import (
	"encoding/json"
	"fmt"
	"os"
	"sort"
	"strings"
	"testing"

	"pgregory.net/rapid"

	"verif/hist"
	"verif/run"
	"verif/sim"
	"verif/txgen"
)

const prop = "C14"

var debugLogs map[string]int

type caseStats struct {
	paths    []string
	mon      *Monitor
	blocks   int
	okKinds  map[string]int
	allKinds map[string]int
}

// execute runs a trace on one replica under the monitor. When draw != nil, steps are generated on the fly.
func execute(h *run.H, tr *hist.Trace, draw func(w *hist.World, m *Monitor, i int) (hist.Step, bool)) (*Violation, *caseStats) {
	cs := &caseStats{okKinds: map[string]int{}, allKinds: map[string]int{}}
	roles := tr.Roles
	if len(roles) > 1 {
		roles = roles[:1]
	}
	// a scratch directory left behind by a killed process that had the same pid may be picked up again
	// (the name is derived from the pid): a world whose genesis state is not clean is discarded and rebuilt
	var w *hist.World
	var mon *Monitor
	for try := 0; ; try++ {
		var err error
		w, err = hist.NewWorld(tr.Params, roles)
		if err != nil {
			if try < 3 {
				continue
			}
			return viol("harness", "world", "cannot build world: %v", err), cs
		}
		if _, err := w.Init(); err != nil {
			w.Close()
			if try < 3 {
				continue
			}
			return viol("harness", "init", "InitChain: %v", err), cs
		}
		gen := w.R[0].DumpMap()
		dirty := w.C.Height != 0
		carried := map[string]bool{}
		for _, pp := range tr.Params.PreProposals {
			carried[string(pp.ID())] = true
		}
		for k := range gen {
			if strings.HasPrefix(k, "prop") && !carriedKey(k, carried) {
				dirty = true
			}
		}
		if dirty && try < 3 {
			w.Close()
			continue
		}
		var bad *Violation
		mon, bad = NewMonitor(tr.Params, gen, sim.GenesisProposals(tr.Params, w.G.U))
		if bad != nil {
			w.Close()
			return bad, cs
		}
		// the shared generator's bookkeeping learns the carried proposals as if it had created them
		for _, pp := range tr.Params.PreProposals {
			if pm := mon.Props[string(pp.ID())]; pm != nil {
				pi := &hist.PropInfo{ID: pp.ID(), Type: pm.Rec.Type, Proposer: pp.Proposer % len(w.G.U.Users), FundDL: pm.Rec.FundingDeadline, VoteDL: pm.Rec.VotingDeadline}
				for _, f := range pp.Funds {
					pi.Funders = append(pi.Funders, f.User%len(w.G.U.Users))
				}
				w.Props = append(w.Props, pi)
			}
		}
		break
	}
	defer w.Close()
	cs.mon = mon
	for i := 0; ; i++ {
		var st hist.Step
		if draw != nil {
			s, ok := draw(w, mon, i)
			if !ok {
				break
			}
			st = s
			tr.Steps = append(tr.Steps, st)
			h.Journal(tr)
		} else {
			if i >= len(tr.Steps) {
				break
			}
			st = tr.Steps[i]
		}
		if st.Kind != "block" || st.Spec == nil {
			continue
		}
		b, res := w.RunBlock(*st.Spec)
		if w.R[0].Panicked {
			return viol("node-panic", w.R[0].PanicCall, "the application panicked in %s at height %d (kinds %v) and shut itself down", w.R[0].PanicCall, b.Height, st.Kinds), cs
		}
		cs.blocks++
		for k, r := range res[0].Txs {
			dt := decodeTx(st.Spec.Txs[k])
			kind := dt.Kind
			if dt.Create != nil {
				if old := mon.Props[dt.ID]; old != nil {
					cs.allKinds["create-with-existing-id-in-stage-"+string(old.Stage)]++
				}
			}
			cs.allKinds[kind]++
			if r.Code == 0 {
				cs.okKinds[kind]++
			} else if debugLogs != nil {
				l := r.Log
				if len(l) > 90 {
					l = l[:90]
				}
				debugLogs[kind+" "+l]++
			}
		}
		if v := mon.Block(b.Height, st.Spec.Txs, res[0].Txs, w.R[0].DumpMap()); v != nil {
			return v, cs
		}
	}
	for _, id := range mon.Order {
		cs.paths = append(cs.paths, mon.Props[id].PathString())
	}
	return nil, cs
}

// carriedKey reports whether a governance record key belongs to one of the proposals the genesis carries.
func carriedKey(k string, carried map[string]bool) bool {
	for id := range carried {
		if strings.Contains(k, id) {
			return true
		}
	}
	return false
}

// classes renders the case's statistics as class labels and the non-triviality key.
func classes(cs *caseStats, profile string) (string, []string) {
	var cl []string
	cl = append(cl, "mode-"+profile)
	terminal, imported := 0, 0
	set := map[string]bool{}
	if cs.mon != nil {
		for _, id := range cs.mon.Order {
			p := cs.mon.Props[id]
			ps := p.PathString()
			if p.Imported != "" {
				imported++
				cl = append(cl, "genesis-proposal:"+p.Imported+":"+ps)
				if p.Rec.Type == 0x20 && p.Imported == "passed" && p.Stage == SZ {
					cl = append(cl, "genesis-passed-config-update-applied")
				}
			}
			if Terminal(p.Stage) && !(p.Imported != "" && len(p.Path) == 1) { // carried in a terminal stage: nothing was reached
				terminal++
				set[ps] = true
				cl = append(cl, "path:"+ps)
				if p.Rec.Type == 0x20 && p.Stage == SZ {
					if p.Rec.Outcome == 0x31 {
						cl = append(cl, "config-update-applied")
					} else {
						cl = append(cl, "config-update-failed-vote")
					}
				}
			} else if Terminal(p.Stage) {
				cl = append(cl, "carried-terminal:"+ps)
			} else {
				cl = append(cl, "open:"+ps)
			}
		}
		if len(cs.mon.Order) >= 2 {
			cl = append(cl, "several-proposals")
		}
		if imported > 0 {
			cl = append(cl, "genesis-carries-proposals")
		}
		m := cs.mon
		add := func(n int, name string) {
			for i := 0; i < n; i++ {
				cl = append(cl, name)
			}
		}
		add(m.RefundsChecked, "refund-credit-checked")
		add(m.Measured, "block-value-measured")
		add(m.Unmeasured, "finalisation-unmeasured")
		add(m.FinalMeasured, "finalisation-distribution-measured")
		add(m.Noise, "measurement-noise")
		add(m.SnapshotDrift, "vote-with-power-changed-since-snapshot")
		add(m.StrangerPublicOK, "public-expire-or-finalize-succeeded")
		add(m.EmptySnapshots, "voting-began-with-empty-snapshot")
		add(m.ImportedVotes, "genesis-vote-opinion-imported-as-recorded")
		add(m.ImportedFunds, "genesis-fund-record-imported-as-recorded")
		add(m.FinalDueMet, "decided-proposal-finalised-in-time")
	}
	for k, n := range cs.okKinds {
		for i := 0; i < n; i++ {
			cl = append(cl, "ok:"+k)
		}
	}
	for k, n := range cs.allKinds {
		if strings.HasPrefix(k, "create-with-existing-id") {
			for i := 0; i < n; i++ {
				cl = append(cl, k)
			}
		}
		if strings.HasPrefix(k, "PROPOSAL") || k == "EXPIRE_VOTES" {
			for i := 0; i < n-cs.okKinds[k]; i++ {
				cl = append(cl, "rejected:"+k)
			}
		}
	}
	key := ""
	if terminal > 0 {
		var ps []string
		for p := range set {
			ps = append(ps, p)
		}
		sort.Strings(ps)
		key = strings.Join(ps, "|")
		cl = append(cl, "nontrivial")
	}
	sort.Strings(cl)
	return key, cl
}

const rule = "generated genesis (1-7 validators, fork shapes, option flavours that make fee/ons/evidence/staking config updates validate, power shapes on the pass/fail thresholds; one genesis in four carries 1-3 proposals of a dumped chain in the stages funding / voting / passed / failed / cancelled with escrowed contributions and recorded votes on and next to the pass percentage) x history of create/fund/vote/cancel/withdraw/expire/finalise from proposers, funders, validators and strangers around both deadlines, with stake changes, on one replica; non-trivial = at least one proposal reaches a terminal stage (finalised, finalise-failed, expired, cancelled, goal missed); distinct by the set of terminal paths and the trace"

func TestC14(t *testing.T) {
	h := run.Start(t, prop)
	defer h.Finish()
	if f := os.Getenv("VERIF_C14_DEBUG"); f != "" {
		debugLogs = map[string]int{}
		defer func() {
			var ks []string
			for k, n := range debugLogs {
				ks = append(ks, fmt.Sprintf("%6d %s", n, k))
			}
			sort.Strings(ks)
			_ = os.WriteFile(f, []byte(strings.Join(ks, "\n")+"\n"), 0o644)
		}()
	}
	h.SetRule(rule)
	maxBlocks := h.Scale(40, 70)
	rapid.Check(t, func(rt *rapid.T) {
		u := hist.NewU(rt)
		p, flavour, pool := genParams(rt, fmt.Sprint(h.Seed))
		mode := []string{"focused", "focused", "focused", "shared"}[u.N(4, "mode")]
		tr := &hist.Trace{Params: p, Roles: hist.Roles(p, 1), Profile: mode + "/" + flavour}
		nb := u.Range(12, maxBlocks, "nblocks")
		var g *hist.Gen
		var f *fgen
		var lastTxs []txgen.Tx
		blocks := 0
		v, cs := execute(h, tr, func(w *hist.World, m *Monitor, i int) (hist.Step, bool) {
			if g == nil {
				g = &hist.Gen{W: w, T: rt, Hostile: 4, Strange: 8, Kinds: hist.Profiles["governance"], Excl: h.Excluded, Seen: map[string]int{}, TagsN: map[string]int{}}
				f = &fgen{w: w, m: m, u: u, g: g, rt: rt, pool: pool}
				if flavour == "propopts" && u.N(3, "poq") != 0 {
					// a funding-goal update that is pushed to a passing vote while other proposals are being funded
					var goals []string
					for _, c := range pool {
						if strings.HasPrefix(c, "propOptions.") && strings.Contains(c, ".fundingGoal:") {
							goals = append(goals, c)
						}
					}
					if len(goals) > 0 {
						f.cfgQueue = []string{goals[u.N(len(goals), "poq-which")]}
					}
				}
				if flavour == "evidence" && u.N(2, "chain") == 0 {
					// each valid when proposed; applying the second first makes the first invalid at its finalisation
					f.cfgQueue = []string{"evidenceOptions.blockVotesDiff:1100", "evidenceOptions.minVotesRequired:700"}
				}
			}
			if blocks >= nb {
				return hist.Step{}, false
			}
			if len(w.Results) > 0 && lastTxs != nil {
				w.Observe(lastTxs, w.Results[len(w.Results)-1])
			}
			var txs []txgen.Tx
			if mode == "shared" {
				txs = g.DrawTxs(5)
			} else {
				txs, _ = f.drawBlock()
			}
			lastTxs = txs
			if txs == nil {
				lastTxs = []txgen.Tx{}
			}
			spec := g.DrawEnv(txs)
			blocks++
			return hist.BlockStep(spec, txs), true
		})
		key, cl := classes(cs, mode)
		cl = append(cl, "flavour-"+flavour)
		if f != nil && cs.mon != nil {
			for _, id := range f.priority {
				if p := cs.mon.Props[id]; p != nil {
					cl = append(cl, "scenario-chained-updates:"+p.PathString())
				} else {
					cl = append(cl, "scenario-chained-updates:not-created")
				}
			}
		}
		ntKey := ""
		if key != "" {
			b, _ := json.Marshal(tr.Steps)
			ntKey = key + string(b)
		}
		h.Eval(ntKey, cl, summary(tr, cs))
		if v != nil {
			h.Fail(rt, v.Oracle, v.Sig(), tr, "%s", v.Msg)
		}
	})
}

func summary(tr *hist.Trace, cs *caseStats) map[string]interface{} {
	s := tr.Summary()
	s["paths"] = cs.paths
	return s
}

func TestReplay(t *testing.T) {
	path := run.ReplayFile()
	if path == "" {
		t.Skip("no VERIF_REPLAY")
	}
	f, err := run.LoadFailure(path)
	if err != nil {
		t.Fatal(err)
	}
	var tr hist.Trace
	if err := json.Unmarshal(f.Case, &tr); err != nil {
		t.Fatal(err)
	}
	h := run.Start(t, prop)
	defer h.Finish()
	v, cs := execute(h, &tr, nil)
	if v != nil {
		h.Fail(t, v.Oracle, v.Sig(), &tr, "%s", v.Msg)
	}
	t.Logf("replayed %d blocks, paths %v", cs.blocks, cs.paths)
}
