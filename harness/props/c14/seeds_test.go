package c14

import (
	"encoding/json"
	"math/big"
	"os"
	"path/filepath"
	"testing"

	agov "github.com/Oneledger/protocol/action/governance"
	"github.com/Oneledger/protocol/data/balance"
	"github.com/Oneledger/protocol/data/governance"

	"verif/hist"
	"verif/run"
	"verif/sim"
	"verif/txgen"
)

// seedBuilder assembles hand-built scenario traces (run with VERIF_MAKE_SEEDS=<dir>).
type seedBuilder struct {
	p    sim.Params
	u    *sim.Universe
	tr   *hist.Trace
	h    int64
	memo int
	fee  txgen.Fee
}

func newSeed(p sim.Params, name string) *seedBuilder {
	g := sim.BuildGenesis(p)
	return &seedBuilder{p: p, u: g.U, tr: &hist.Trace{Params: p, Roles: hist.Roles(p, 1), Profile: "hand:" + name}, fee: txgen.DefaultFee()}
}

func (s *seedBuilder) m() string {
	s.memo++
	return "s" + string(rune('a'+s.memo%26)) + string(rune('a'+(s.memo/26)%26))
}

func (s *seedBuilder) block(txs ...txgen.Tx) {
	spec := sim.BlockSpec{GapSecs: 5}
	for _, x := range txs {
		spec.Txs = append(spec.Txs, x.Bytes)
	}
	s.tr.Steps = append(s.tr.Steps, hist.BlockStep(spec, txs))
	s.h++
}

// create builds a proposal of user ui whose funding deadline is fdl blocks after the block it is included in (the next one).
func (s *seedBuilder) create(seed string, ui int, typ governance.ProposalType, cfg string, fdl int64) (governance.ProposalID, txgen.Tx) {
	id := txgen.ProposalID(seed)
	h := s.h + 1
	usr := s.u.Users[ui]
	goal := balance.NewAmountFromBigInt(bigS(s.p.PropFundingGoal))
	return id, txgen.ProposalCreate(usr, agov.CreateProposal{ProposalID: id, ProposalType: typ, Headline: "h", Description: "d", Proposer: usr.Addr,
		InitialFunding: txgen.Amt("OLT", bigS(s.p.PropInitialFunding)), FundingDeadline: h + fdl, FundingGoal: goal,
		VotingDeadline: h + fdl + s.p.PropVotingDL, PassPercentage: s.p.PropPassPct, ConfigUpdate: cfg}, s.fee, s.m())
}

func (s *seedBuilder) fund(id governance.ProposalID, ui int, amt *big.Int) txgen.Tx {
	usr := s.u.Users[ui]
	return txgen.ProposalFund(usr, id, usr.Addr, txgen.Amt("OLT", amt), s.fee, s.m())
}

func (s *seedBuilder) vote(id governance.ProposalID, vi int, op governance.VoteOpinion) txgen.Tx {
	v := s.u.Vals[vi]
	return txgen.ProposalVote(id, v.Stake.Addr, v.Key.Addr, op, s.fee, s.m(), v.Stake, v.Key)
}

func (s *seedBuilder) withdraw(id governance.ProposalID, ui, benef int, amt *big.Int) txgen.Tx {
	usr := s.u.Users[ui]
	return txgen.ProposalWithdrawFunds(usr, id, usr.Addr, s.u.Users[benef].Addr, txgen.Amt("OLT", amt), s.fee, s.m())
}

func (s *seedBuilder) write(t *testing.T, dir, name, note string) {
	cb, _ := json.Marshal(s.tr)
	f := run.Failure{Property: prop, Test: "TestReplay", Oracle: "seed", Message: note, Sig: "C14/seed", Case: cb}
	b, _ := json.MarshalIndent(f, "", " ")
	if err := os.WriteFile(filepath.Join(dir, name), b, 0o644); err != nil {
		t.Fatal(err)
	}
}

func seedParams(tag string) sim.Params {
	p := sim.DefaultParams()
	p.Seed = "c14-" + tag
	p.PropFundingDL, p.PropVotingDL = 4, 5
	p.Evidence.BlockVotesDiff = 1000
	p.Evidence.MinVotesRequired = 800
	p.OnsBasePrice = "1000000000000000000"
	return p
}

func TestMakeSeeds(t *testing.T) {
	dir := os.Getenv("VERIF_MAKE_SEEDS")
	if dir == "" {
		t.Skip("VERIF_MAKE_SEEDS not set")
	}
	_ = os.MkdirAll(dir, 0o755)
	goal := bigS(sim.DefaultParams().PropFundingGoal)
	initial := bigS(sim.DefaultParams().PropInitialFunding)
	rest := new(big.Int).Sub(goal, initial)
	G, C := governance.ProposalTypeGeneral, governance.ProposalTypeConfigUpdate
	yes, no := governance.OPIN_POSITIVE, governance.OPIN_NEGATIVE

	// (fixed a23cee9) a stranger expires a proposal that is still collecting funds
	{
		s := newSeed(seedParams("expire-early"), "expire-early")
		s.block()
		s.block()
		id, c := s.create("p1", 0, G, "", 3)
		s.block(c)
		s.block(txgen.ExpireVotes(s.u.Users[3], id, s.u.Users[3].Addr, s.fee, s.m()))
		// and one in voting before its voting deadline
		s.block(s.fund(id, 1, rest))
		s.block(txgen.ExpireVotes(s.u.Users[3], id, s.u.Users[3].Addr, s.fee, s.m()))
		s.block()
		s.write(t, dir, "fixed-expire-early.json", "EXPIRE_VOTES from an arbitrary account on a funding-stage proposal, then on a voting-stage proposal before its deadline")
	}
	// (fixed 156d60d) a negative contribution, then cancel, then the proposer takes its contribution back
	{
		s := newSeed(seedParams("fund-negative"), "fund-negative")
		s.block()
		s.block()
		id, c := s.create("p1", 0, G, "", 3)
		s.block(c)
		s.block(s.fund(id, 1, big.NewInt(-5)))
		s.block(txgen.ProposalCancel(s.u.Users[0], id, s.u.Users[0].Addr, "x", s.fee, s.m()))
		s.block(s.withdraw(id, 0, 0, initial))
		s.write(t, dir, "fixed-fund-negative.json", "PROPOSAL_FUND with value -5 by a second account, cancel, proposer withdraws exactly its contribution")
	}
	// (fixed d01f7bb) negative withdrawal naming another account as beneficiary
	{
		s := newSeed(seedParams("withdraw-negative"), "withdraw-negative")
		s.block()
		s.block()
		id, c := s.create("p1", 0, G, "", 1)
		s.block(c) // h=3, funding deadline 4
		s.block()
		s.block(s.withdraw(id, 0, 2, big.NewInt(-1000))) // h=5 > deadline, goal missed
		s.block(s.withdraw(id, 0, 0, new(big.Int).Add(initial, big.NewInt(1000))))
		s.write(t, dir, "fixed-withdraw-negative.json", "goal missed; the proposer withdraws -1000 with another user as beneficiary, then withdraws its contribution + 1000")
	}
	// (fixed 8fa5917) the fail threshold met exactly: 33% no with pass percentage 67
	{
		p := seedParams("tally-rounding")
		p.ValPower = []int64{1650000, 1650000, 1700000}
		p.MinSelfDeleg = 500000
		p.Witnesses = []int{0}
		p.PropPassPct = 67
		s := newSeed(p, "tally-rounding")
		s.block()
		s.block()
		id, c := s.create("p1", 0, G, "", 3)
		s.block(c)
		s.block(s.fund(id, 1, rest))
		s.block(s.vote(id, 0, no))
		s.block(s.vote(id, 1, yes), s.vote(id, 2, yes))
		s.block()
		s.write(t, dir, "fixed-tally-rounding.json", "validators 33/33/34 percent, pass percentage 67: one 33% validator votes no; the other two voting yes reach 67% exactly")
	}
	// (fixed 18b310f) two proposals decided in one block are finalised in one block: the second kept its fund records
	{
		s := newSeed(seedParams("two-finalised"), "two-finalised")
		s.block()
		s.block()
		idA, cA := s.create("pA", 0, G, "", 3)
		idB, cB := s.create("pB", 1, G, "", 3)
		s.block(cA, cB)
		s.block(s.fund(idA, 4, rest), s.fund(idB, 4, rest))
		s.block(s.vote(idA, 0, yes), s.vote(idA, 1, yes), s.vote(idA, 2, yes), s.vote(idB, 0, yes), s.vote(idB, 1, yes), s.vote(idB, 2, yes))
		s.block()
		s.block()
		s.write(t, dir, "fixed-two-finalised-one-block.json", "two proposals pass in block 5 and are finalised together in block 6")
	}
	// regression scenarios (must pass; they make the mutants' behaviour reachable in one replay)
	{
		// a vote in the block after the voting deadline
		s := newSeed(seedParams("vote-late"), "vote-late")
		s.block()
		s.block()
		id, c := s.create("p1", 0, G, "", 3)
		s.block(c)                   // h=3
		s.block(s.fund(id, 1, rest)) // h=4: voting until 9
		s.block(s.vote(id, 0, yes))
		s.block()
		s.block()
		s.block()
		s.block()
		s.block(s.vote(id, 1, yes), s.vote(id, 2, yes), s.vote(id, 3, yes)) // h=10 > 9
		s.block()
		s.write(t, dir, "seed-vote-after-deadline.json", "three validators vote yes in the block after the voting deadline")
	}
	{
		// a contribution reaching the goal in the block after the funding deadline
		s := newSeed(seedParams("fund-late"), "fund-late")
		s.block()
		s.block()
		id, c := s.create("p1", 0, G, "", 1)
		s.block(c) // h=3, funding deadline 4
		s.block()
		s.block(s.fund(id, 1, rest)) // h=5
		s.block(s.withdraw(id, 0, 0, initial))
		s.write(t, dir, "seed-fund-after-deadline.json", "the goal is reached by a contribution one block after the funding deadline; then the proposer withdraws")
	}
	{
		// a config update that fails the vote, one that passes, one whose application fails at finalisation
		s := newSeed(seedParams("config"), "config")
		s.block()
		s.block()
		idA, cA := s.create("pA", 0, C, "feeOption.minFeeDecimal:12", 3)
		idB, cB := s.create("pB", 1, C, "onsOptions.perBlockFees:200000000000000", 3)
		idC, cC := s.create("pC", 2, C, "evidenceOptions.blockVotesDiff:1100", 3)
		idD, cD := s.create("pD", 3, C, "evidenceOptions.minVotesRequired:700", 3)
		s.block(cA, cB, cC, cD)
		s.block(s.fund(idA, 4, rest), s.fund(idB, 4, rest), s.fund(idC, 4, rest), s.fund(idD, 4, rest))
		// one decision per block, so that every finalisation has its own block
		s.block(s.vote(idA, 0, no), s.vote(idA, 1, no), s.vote(idA, 2, no))
		s.block(s.vote(idB, 0, yes), s.vote(idB, 1, yes), s.vote(idB, 2, yes)) // A finalised (failed): no option may change
		s.block(s.vote(idD, 0, yes), s.vote(idD, 1, yes), s.vote(idD, 2, yes)) // B finalised: ons option changes
		s.block(s.vote(idC, 0, yes), s.vote(idC, 1, yes), s.vote(idC, 2, yes)) // D finalised: evidence option changes
		s.block()                                                              // C: finalisation fails (minVotesRequired 700 < 70% of 1100)
		s.block()
		s.write(t, dir, "seed-config-updates.json", "four config-update proposals: one fails the vote, two pass and are applied, one passes but is invalid when finalised")
	}
	{
		// a chain restarted from a state dump: the genesis carries proposals in every open stage, with recorded votes
		// and escrowed contributions (validators' powers 3000000..3000003, pass percentage 51: three yes pass, two no
		// and one unknown can still pass, two no and one yes cannot)
		p := seedParams("genesis-proposals")
		ini, gl := p.PropInitialFunding, p.PropFundingGoal
		full := []sim.PreFund{{User: 0, Amount: ini}, {User: 1, Amount: rest.String()}}
		p.PreProposals = []sim.PreProposal{
			{IDSeed: "g-passed", Type: "config", Stage: "passed", Proposer: 0, Funds: full, Goal: gl, FundingDL: 0, VotingDL: 3, Votes: []string{"yes", "unknown", "yes", "yes"},
				Config: "onsOptions.perBlockFees:200000000000000"},
			{IDSeed: "g-failed", Type: "general", Stage: "failed", Proposer: 0, Funds: full, FundingDL: 0, VotingDL: 2, Votes: []string{"no", "no", "yes", "no"}},
			{IDSeed: "g-voting", Type: "general", Stage: "voting", Proposer: 2, Funds: []sim.PreFund{{User: 2, Amount: ini}, {User: 3, Amount: rest.String()}}, FundingDL: 0, VotingDL: 4,
				Votes: []string{"yes", "yes", "unknown", "no"}},
			{IDSeed: "g-voting-ended", Type: "code", Stage: "voting", Proposer: 2, Funds: []sim.PreFund{{User: 2, Amount: gl}}, FundingDL: 0, VotingDL: 0, Votes: []string{"yes", "yes", "unknown", "unknown"}},
			{IDSeed: "g-funding", Type: "general", Stage: "funding", Proposer: 4, Funds: []sim.PreFund{{User: 4, Amount: ini}, {User: 4, Amount: "1"}}, FundingDL: 4, VotingDL: 9},
			{IDSeed: "g-funding-ended", Type: "general", Stage: "funding", Proposer: 3, Funds: []sim.PreFund{{User: 3, Amount: ini}}, FundingDL: 0, VotingDL: 5},
			{IDSeed: "g-cancelled", Type: "general", Stage: "cancelled", Proposer: 1, Funds: []sim.PreFund{{User: 1, Amount: ini}, {User: 0, Amount: "5"}}, FundingDL: 3, VotingDL: 8},
		}
		s := newSeed(p, "genesis-proposals")
		id := func(seed string) governance.ProposalID { return sim.PreProposalID(seed) }
		// h=1: the block hooks finalise the passed and the failed one and expire the one whose voting period is over; a third
		// yes decides the one in voting; the proposer of the cancelled one takes its contribution back
		s.block(s.vote(id("g-voting"), 2, yes), s.withdraw(id("g-cancelled"), 1, 1, initial))
		// h=2: finalisation of g-voting; the funder of the proposal whose funding period ended below the goal withdraws; a
		// vote on the expired one and a contribution to the cancelled one are refused
		s.block(s.withdraw(id("g-funding-ended"), 3, 3, initial), s.vote(id("g-voting-ended"), 2, yes), s.fund(id("g-cancelled"), 5, big.NewInt(7)))
		// h=3: the carried funding proposal reaches its goal (snapshot of the active validators), h=4 votes, h=5 finalised
		s.block(s.fund(id("g-funding"), 5, new(big.Int).Sub(rest, big.NewInt(1))))
		s.block(s.vote(id("g-funding"), 0, no), s.vote(id("g-funding"), 1, no), s.vote(id("g-funding"), 3, no), s.withdraw(id("g-cancelled"), 0, 0, big.NewInt(5)))
		s.block(s.withdraw(id("g-failed"), 1, 1, rest)) // refused: the funds of a failed proposal were distributed
		s.block()
		s.write(t, dir, "seed-genesis-proposals.json", "genesis carrying seven proposals (passed config update, failed, voting, voting past its deadline, funding, funding past its deadline, cancelled) with recorded votes and escrowed contributions")
	}
}
