package c14

import (
	"encoding/json"
	"math/big"
	"os"
	"path/filepath"
	"testing"

	agov "github.com/Oneledger/protocol/action/governance"
	"github.com/Oneledger/protocol/data/balance"
	"github.com/Oneledger/protocol/data/governance"

	"verif/hist"
	"verif/run"
	"verif/sim"
	"verif/txgen"
)

// seedBuilder assembles hand-built scenario traces (run with VERIF_MAKE_SEEDS=<dir>).
type seedBuilder struct {
	p    sim.Params
	u    *sim.Universe
	tr   *hist.Trace
	h    int64
	memo int
	fee  txgen.Fee
}

func newSeed(p sim.Params, name string) *seedBuilder {
	g := sim.BuildGenesis(p)
	return &seedBuilder{p: p, u: g.U, tr: &hist.Trace{Params: p, Roles: hist.Roles(p, 1), Profile: "hand:" + name}, fee: txgen.DefaultFee()}
}

func (s *seedBuilder) m() string {
	s.memo++
	return "s" + string(rune('a'+s.memo%26)) + string(rune('a'+(s.memo/26)%26))
}

func (s *seedBuilder) block(txs ...txgen.Tx) {
	spec := sim.BlockSpec{GapSecs: 5}
	for _, x := range txs {
		spec.Txs = append(spec.Txs, x.Bytes)
	}
	s.tr.Steps = append(s.tr.Steps, hist.BlockStep(spec, txs))
	s.h++
}

// create builds a proposal of user ui whose funding deadline is fdl blocks after the block it is included in (the next one).
func (s *seedBuilder) create(seed string, ui int, typ governance.ProposalType, cfg string, fdl int64) (governance.ProposalID, txgen.Tx) {
	id := txgen.ProposalID(seed)
	h := s.h + 1
	usr := s.u.Users[ui]
	goal := balance.NewAmountFromBigInt(bigS(s.p.PropFundingGoal))
	return id, txgen.ProposalCreate(usr, agov.CreateProposal{ProposalID: id, ProposalType: typ, Headline: "h", Description: "d", Proposer: usr.Addr,
		InitialFunding: txgen.Amt("OLT", bigS(s.p.PropInitialFunding)), FundingDeadline: h + fdl, FundingGoal: goal,
		VotingDeadline: h + fdl + s.p.PropVotingDL, PassPercentage: s.p.PropPassPct, ConfigUpdate: cfg}, s.fee, s.m())
}

func (s *seedBuilder) fund(id governance.ProposalID, ui int, amt *big.Int) txgen.Tx {
	usr := s.u.Users[ui]
	return txgen.ProposalFund(usr, id, usr.Addr, txgen.Amt("OLT", amt), s.fee, s.m())
}

func (s *seedBuilder) vote(id governance.ProposalID, vi int, op governance.VoteOpinion) txgen.Tx {
	v := s.u.Vals[vi]
	return txgen.ProposalVote(id, v.Stake.Addr, v.Key.Addr, op, s.fee, s.m(), v.Stake, v.Key)
}

func (s *seedBuilder) withdraw(id governance.ProposalID, ui, benef int, amt *big.Int) txgen.Tx {
	usr := s.u.Users[ui]
	return txgen.ProposalWithdrawFunds(usr, id, usr.Addr, s.u.Users[benef].Addr, txgen.Amt("OLT", amt), s.fee, s.m())
}

func (s *seedBuilder) write(t *testing.T, dir, name, note string) {
	cb, _ := json.Marshal(s.tr)
	f := run.Failure{Property: prop, Test: "TestReplay", Oracle: "seed", Message: note, Sig: "C14/seed", Case: cb}
	b, _ := json.MarshalIndent(f, "", " ")
	if err := os.WriteFile(filepath.Join(dir, name), b, 0o644); err != nil {
		t.Fatal(err)
	}
}

func seedParams(tag string) sim.Params {
	p := sim.DefaultParams()
	p.Seed = "c14-" + tag
	p.PropFundingDL, p.PropVotingDL = 4, 5
	p.Evidence.BlockVotesDiff = 1000
	p.Evidence.MinVotesRequired = 800
	p.OnsBasePrice = "1000000000000000000"
	return p
}

func TestMakeSeeds(t *testing.T) {
	dir := os.Getenv("VERIF_MAKE_SEEDS")
	if dir == "" {
		t.Skip("VERIF_MAKE_SEEDS not set")
	}
	_ = os.MkdirAll(dir, 0o755)
	goal := bigS(sim.DefaultParams().PropFundingGoal)
	initial := bigS(sim.DefaultParams().PropInitialFunding)
	rest := new(big.Int).Sub(goal, initial)
	G, C := governance.ProposalTypeGeneral, governance.ProposalTypeConfigUpdate
	yes, no := governance.OPIN_POSITIVE, governance.OPIN_NEGATIVE

	// (fixed a23cee9) a stranger expires a proposal that is still collecting funds
	{
		s := newSeed(seedParams("expire-early"), "expire-early")
		s.block()
		s.block()
		id, c := s.create("p1", 0, G, "", 3)
		s.block(c)
		s.block(txgen.ExpireVotes(s.u.Users[3], id, s.u.Users[3].Addr, s.fee, s.m()))
		// and one in voting before its voting deadline
		s.block(s.fund(id, 1, rest))
		s.block(txgen.ExpireVotes(s.u.Users[3], id, s.u.Users[3].Addr, s.fee, s.m()))
		s.block()
		s.write(t, dir, "fixed-expire-early.json", "EXPIRE_VOTES from an arbitrary account on a funding-stage proposal, then on a voting-stage proposal before its deadline")
	}
	// (fixed 156d60d) a negative contribution, then cancel, then the proposer takes its contribution back
	{
		s := newSeed(seedParams("fund-negative"), "fund-negative")
		s.block()
		s.block()
		id, c := s.create("p1", 0, G, "", 3)
		s.block(c)
		s.block(s.fund(id, 1, big.NewInt(-5)))
		s.block(txgen.ProposalCancel(s.u.Users[0], id, s.u.Users[0].Addr, "x", s.fee, s.m()))
		s.block(s.withdraw(id, 0, 0, initial))
		s.write(t, dir, "fixed-fund-negative.json", "PROPOSAL_FUND with value -5 by a second account, cancel, proposer withdraws exactly its contribution")
	}
	// (fixed d01f7bb) negative withdrawal naming another account as beneficiary
	{
		s := newSeed(seedParams("withdraw-negative"), "withdraw-negative")
		s.block()
		s.block()
		id, c := s.create("p1", 0, G, "", 1)
		s.block(c) // h=3, funding deadline 4
		s.block()
		s.block(s.withdraw(id, 0, 2, big.NewInt(-1000))) // h=5 > deadline, goal missed
		s.block(s.withdraw(id, 0, 0, new(big.Int).Add(initial, big.NewInt(1000))))
		s.write(t, dir, "fixed-withdraw-negative.json", "goal missed; the proposer withdraws -1000 with another user as beneficiary, then withdraws its contribution + 1000")
	}
	// (fixed 8fa5917) the fail threshold met exactly: 33% no with pass percentage 67
	{
		p := seedParams("tally-rounding")
		p.ValPower = []int64{1650000, 1650000, 1700000}
		p.MinSelfDeleg = 500000
		p.Witnesses = []int{0}
		p.PropPassPct = 67
		s := newSeed(p, "tally-rounding")
		s.block()
		s.block()
		id, c := s.create("p1", 0, G, "", 3)
		s.block(c)
		s.block(s.fund(id, 1, rest))
		s.block(s.vote(id, 0, no))
		s.block(s.vote(id, 1, yes), s.vote(id, 2, yes))
		s.block()
		s.write(t, dir, "fixed-tally-rounding.json", "validators 33/33/34 percent, pass percentage 67: one 33% validator votes no; the other two voting yes reach 67% exactly")
	}
	// (fixed 18b310f) two proposals decided in one block are finalised in one block: the second kept its fund records
	{
		s := newSeed(seedParams("two-finalised"), "two-finalised")
		s.block()
		s.block()
		idA, cA := s.create("pA", 0, G, "", 3)
		idB, cB := s.create("pB", 1, G, "", 3)
		s.block(cA, cB)
		s.block(s.fund(idA, 4, rest), s.fund(idB, 4, rest))
		s.block(s.vote(idA, 0, yes), s.vote(idA, 1, yes), s.vote(idA, 2, yes), s.vote(idB, 0, yes), s.vote(idB, 1, yes), s.vote(idB, 2, yes))
		s.block()
		s.block()
		s.write(t, dir, "fixed-two-finalised-one-block.json", "two proposals pass in block 5 and are finalised together in block 6")
	}
	// regression scenarios (must pass; they make the mutants' behaviour reachable in one replay)
	{
		// a vote in the block after the voting deadline
		s := newSeed(seedParams("vote-late"), "vote-late")
		s.block()
		s.block()
		id, c := s.create("p1", 0, G, "", 3)
		s.block(c)                   // h=3
		s.block(s.fund(id, 1, rest)) // h=4: voting until 9
		s.block(s.vote(id, 0, yes))
		s.block()
		s.block()
		s.block()
		s.block()
		s.block(s.vote(id, 1, yes), s.vote(id, 2, yes), s.vote(id, 3, yes)) // h=10 > 9
		s.block()
		s.write(t, dir, "seed-vote-after-deadline.json", "three validators vote yes in the block after the voting deadline")
	}
	{
		// a contribution reaching the goal in the block after the funding deadline
		s := newSeed(seedParams("fund-late"), "fund-late")
		s.block()
		s.block()
		id, c := s.create("p1", 0, G, "", 1)
		s.block(c) // h=3, funding deadline 4
		s.block()
		s.block(s.fund(id, 1, rest)) // h=5
		s.block(s.withdraw(id, 0, 0, initial))
		s.write(t, dir, "seed-fund-after-deadline.json", "the goal is reached by a contribution one block after the funding deadline; then the proposer withdraws")
	}
	{
		// a config update that fails the vote, one that passes, one whose application fails at finalisation
		s := newSeed(seedParams("config"), "config")
		s.block()
		s.block()
		idA, cA := s.create("pA", 0, C, "feeOption.minFeeDecimal:12", 3)
		idB, cB := s.create("pB", 1, C, "onsOptions.perBlockFees:200000000000000", 3)
		idC, cC := s.create("pC", 2, C, "evidenceOptions.blockVotesDiff:1100", 3)
		idD, cD := s.create("pD", 3, C, "evidenceOptions.minVotesRequired:700", 3)
		s.block(cA, cB, cC, cD)
		s.block(s.fund(idA, 4, rest), s.fund(idB, 4, rest), s.fund(idC, 4, rest), s.fund(idD, 4, rest))
		// one decision per block, so that every finalisation has its own block
		s.block(s.vote(idA, 0, no), s.vote(idA, 1, no), s.vote(idA, 2, no))
		s.block(s.vote(idB, 0, yes), s.vote(idB, 1, yes), s.vote(idB, 2, yes)) // A finalised (failed): no option may change
		s.block(s.vote(idD, 0, yes), s.vote(idD, 1, yes), s.vote(idD, 2, yes)) // B finalised: ons option changes
		s.block(s.vote(idC, 0, yes), s.vote(idC, 1, yes), s.vote(idC, 2, yes)) // D finalised: evidence option changes
		s.block()                                                              // C: finalisation fails (minVotesRequired 700 < 70% of 1100)
		s.block()
		s.write(t, dir, "seed-config-updates.json", "four config-update proposals: one fails the vote, two pass and are applied, one passes but is invalid when finalised")
	}
}
