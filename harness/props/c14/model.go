package c14

import (
	"bytes"
	"encoding/binary"
	"encoding/json"
	"fmt"
	"math/big"
	"sort"
	"strings"

	"github.com/Oneledger/protocol/data/balance"
	"github.com/Oneledger/protocol/data/governance"
	"github.com/Oneledger/protocol/serialize"

	"verif/sim"
)

// Stage is the lifecycle stage of a proposal as the monitor classifies it from the dump
// (which store holds the record, its status and outcome fields).
type Stage string

const (
	SNew Stage = "new" // not seen yet
	SF   Stage = "F"   // funding
	SV   Stage = "V"   // voting
	SP   Stage = "P"   // passed by vote
	SN   Stage = "N"   // failed by vote
	SX   Stage = "X"   // expired (insufficient votes)
	SC   Stage = "C"   // cancelled by its proposer
	SM   Stage = "M"   // missed its funding goal (insufficient funds)
	SZ   Stage = "Z"   // finalised
	SZF  Stage = "ZF"  // finalisation failed (config update rejected / distribution failed)
)

func rank(s Stage) int {
	switch s {
	case SNew:
		return -1
	case SF:
		return 0
	case SV:
		return 1
	case SP, SN, SX:
		return 2
	case SZ, SZF:
		return 3
	}
	return 0 // C, M: reachable from funding only
}

// forward reports whether a proposal may be seen in stage b at the end of a block when it was in
// stage a before the block: funding -> voting -> {passed, failed, expired} -> finalised, with
// cancelled / goal-missed reachable from funding only and terminal.
func forward(a, b Stage) bool {
	if a == b {
		return true
	}
	switch a {
	case SC, SM, SZ, SZF:
		return false
	}
	switch b {
	case SC, SM:
		return a == SNew || a == SF
	case SZF:
		return a != SX
	}
	if rank(a) == 2 && rank(b) == 2 {
		return false
	}
	return rank(b) > rank(a)
}

// Terminal reports whether nothing further can happen to a proposal in this stage.
func Terminal(s Stage) bool {
	switch s {
	case SX, SC, SM, SZ, SZF:
		return true
	}
	return false
}

// Violation is an oracle verdict.
type Violation struct {
	Oracle string
	Class  string
	Msg    string
}

func (v *Violation) Sig() string { return "C14/" + v.Oracle + "/" + v.Class }

func viol(oracle, class, format string, a ...interface{}) *Violation {
	return &Violation{Oracle: oracle, Class: class, Msg: fmt.Sprintf(format, a...)}
}

// PropM is the reference model's record of one proposal.
type PropM struct {
	ID        string
	Stage     Stage
	Path      []Stage
	Rec       governance.Proposal
	Created   int64
	Contrib   map[string]*big.Int // funder (0lt…) -> sum of successful create/fund values
	Withdrawn map[string]*big.Int // funder -> sum of successful withdraw values
	VoteStart int64
	Snapshot  map[string]int64                  // validator (0lt…) -> power recorded when voting began
	Opinion   map[string]governance.VoteOpinion // last seen opinions
	FinalAt   int64
	DecidedAt int64
	CfgFamily string
	// Imported names the stage in which the genesis carried the proposal ("" = created in the history).
	// An imported proposal has Created = 0; one imported as passed / failed has DecidedAt = 0.
	Imported string
}

func (p *PropM) total() *big.Int {
	t := big.NewInt(0)
	for _, v := range p.Contrib {
		t.Add(t, v)
	}
	for _, v := range p.Withdrawn {
		t.Sub(t, v)
	}
	return t
}

func (p *PropM) outstanding(f string) *big.Int {
	o := big.NewInt(0)
	if v := p.Contrib[f]; v != nil {
		o.Add(o, v)
	}
	if v := p.Withdrawn[f]; v != nil {
		o.Sub(o, v)
	}
	return o
}

func (p *PropM) PathString() string {
	s := make([]string, len(p.Path))
	for i, x := range p.Path {
		s[i] = string(x)
	}
	return strings.Join(s, ">")
}

func add(m map[string]*big.Int, k string, v *big.Int) {
	if m[k] == nil {
		m[k] = big.NewInt(0)
	}
	m[k].Add(m[k], v)
}

// ---- dump view ----

type propRec struct {
	Store string
	P     governance.Proposal
}

type view struct {
	props  map[string][]propRec
	fundsI map[string]map[string]*big.Int
	fundsT map[string]*big.Int
	votes  map[string]map[string]governance.ProposalVote
	gov    map[string][]byte
	guard  map[string][]byte // records of other value stores; a change means the block moved value outside balances / fee pool / escrow
	sum    *big.Int          // sum of all OLT balances and all fee-pool records
	raw    map[string][]byte
}

var propStores = []struct{ prefix, name string }{
	{"propActive", "Active"}, {"propPassed", "Passed"}, {"propFailed", "Failed"},
	{"propFinalizeFailed", "FinalizeFailed"}, {"propFinalized", "Finalized"},
}

var guardPrefixes = []string{"st__", "purged_unstake", "deleg_", "delegRwz_", "rwcum_withdrawn", "keeper_", "contracts_", "bid"}

func amtOf(v []byte) (*big.Int, bool) {
	a := balance.NewAmount(0)
	if err := serialize.GetSerializer(serialize.PERSISTENT).Deserialize(v, a); err != nil {
		return nil, false
	}
	return new(big.Int).Set(a.BigInt()), true
}

func parseView(d map[string][]byte) (*view, *Violation) {
	v := &view{props: map[string][]propRec{}, fundsI: map[string]map[string]*big.Int{}, fundsT: map[string]*big.Int{},
		votes: map[string]map[string]governance.ProposalVote{}, gov: map[string][]byte{}, guard: map[string][]byte{}, sum: big.NewInt(0), raw: d}
	keys := make([]string, 0, len(d))
	for k := range d {
		keys = append(keys, k)
	}
	sort.Strings(keys)
	sz := serialize.GetSerializer(serialize.PERSISTENT)
next:
	for _, k := range keys {
		val := d[k]
		switch {
		case strings.HasPrefix(k, "g_"):
			v.gov[k] = val
		case strings.HasPrefix(k, "b_") && strings.HasSuffix(k, "_OLT"), strings.HasPrefix(k, "f_"):
			var s string
			if json.Unmarshal(val, &s) != nil {
				return nil, viol("harness", "undecodable-amount", "cannot decode amount record %q = %q", k, val)
			}
			a, ok := new(big.Int).SetString(s, 10)
			if !ok {
				return nil, viol("harness", "undecodable-amount", "cannot decode amount record %q = %q", k, val)
			}
			v.sum.Add(v.sum, a)
		case strings.HasPrefix(k, "propFunds_i_"):
			rest := k[len("propFunds_i_"):]
			if len(rest) < 66 || rest[64] != '_' {
				return nil, viol("harness", "unknown-key", "fund key of unexpected shape %q", k)
			}
			a, ok := amtOf(val)
			if !ok {
				return nil, viol("harness", "undecodable-amount", "cannot decode fund record %q = %q", k, val)
			}
			id := rest[:64]
			if v.fundsI[id] == nil {
				v.fundsI[id] = map[string]*big.Int{}
			}
			v.fundsI[id][rest[65:]] = a
		case strings.HasPrefix(k, "propFunds_t_"):
			a, ok := amtOf(val)
			if !ok {
				return nil, viol("harness", "undecodable-amount", "cannot decode fund record %q = %q", k, val)
			}
			v.fundsT[k[len("propFunds_t_"):]] = a
		case strings.HasPrefix(k, "propVotes_"):
			rest := k[len("propVotes_"):]
			if len(rest) < 66 || rest[64] != '_' {
				return nil, viol("harness", "unknown-key", "vote key of unexpected shape %q", k)
			}
			pv := governance.ProposalVote{}
			if err := sz.Deserialize(val, &pv); err != nil {
				return nil, viol("harness", "undecodable-vote", "cannot decode vote record %q = %q: %v", k, val, err)
			}
			id := rest[:64]
			if v.votes[id] == nil {
				v.votes[id] = map[string]governance.ProposalVote{}
			}
			if !bytes.Equal([]byte(rest[65:]), pv.Validator) {
				return nil, viol("vote-record", "key-mismatch", "vote record %q names validator %s", k, pv.Validator)
			}
			v.votes[id][pv.Validator.String()] = pv
		case strings.HasPrefix(k, "prop"):
			for _, st := range propStores {
				if strings.HasPrefix(k, st.prefix) && len(k) == len(st.prefix)+64 {
					r := propRec{Store: st.name}
					if err := sz.Deserialize(val, &r.P); err != nil {
						return nil, viol("harness", "undecodable-proposal", "cannot decode proposal record %q: %v", k, err)
					}
					id := k[len(st.prefix):]
					if string(r.P.ProposalID) != id {
						return nil, viol("proposal-record", "key-mismatch", "record under key %q carries id %q", k, r.P.ProposalID)
					}
					v.props[id] = append(v.props[id], r)
					continue next
				}
			}
			return nil, viol("harness", "unknown-key", "unclassified governance key %q", k)
		default:
			for _, g := range guardPrefixes {
				if strings.HasPrefix(k, g) {
					v.guard[k] = val
					break
				}
			}
		}
	}
	return v, nil
}

func classify(r propRec) (Stage, bool) {
	p := r.P
	switch r.Store {
	case "Active":
		if p.Outcome != governance.ProposalOutcomeInProgress {
			return "", false
		}
		switch p.Status {
		case governance.ProposalStatusFunding:
			return SF, true
		case governance.ProposalStatusVoting:
			return SV, true
		}
	case "Passed":
		if p.Status == governance.ProposalStatusCompleted && p.Outcome == governance.ProposalOutcomeCompletedYes {
			return SP, true
		}
	case "Failed":
		if p.Status != governance.ProposalStatusCompleted {
			return "", false
		}
		switch p.Outcome {
		case governance.ProposalOutcomeCompletedNo:
			return SN, true
		case governance.ProposalOutcomeInsufficientVotes:
			return SX, true
		case governance.ProposalOutcomeCancelled:
			return SC, true
		case governance.ProposalOutcomeInsufficientFunds:
			return SM, true
		}
	case "Finalized":
		if p.Status == governance.ProposalStatusCompleted && (p.Outcome == governance.ProposalOutcomeCompletedYes || p.Outcome == governance.ProposalOutcomeCompletedNo) {
			return SZ, true
		}
	case "FinalizeFailed":
		if p.Status == governance.ProposalStatusCompleted && (p.Outcome == governance.ProposalOutcomeCompletedYes || p.Outcome == governance.ProposalOutcomeCompletedNo) {
			return SZF, true
		}
	}
	return "", false
}

// ---- tally (documented rule, exact arithmetic) ----

type tally struct{ all, yes, no, giveup int64 }

func tallyOf(votes map[string]governance.ProposalVote) tally {
	var t tally
	for _, v := range votes {
		t.all += v.Power
		switch v.Opinion {
		case governance.OPIN_POSITIVE:
			t.yes += v.Power
		case governance.OPIN_NEGATIVE:
			t.no += v.Power
		case governance.OPIN_GIVEUP:
			t.giveup += v.Power
		}
	}
	return t
}

// passes: yes / (all - giveup) >= pass%.
func (t tally) passes(pct int) bool {
	total := t.all - t.giveup
	if total <= 0 {
		return false
	}
	l := new(big.Int).Mul(big.NewInt(t.yes), big.NewInt(100))
	r := new(big.Int).Mul(big.NewInt(int64(pct)), big.NewInt(total))
	return l.Cmp(r) >= 0
}

// cannotPass: even if every undecided validator voted yes the pass percentage would be missed,
// i.e. (total - no) / total < pass%.
func (t tally) cannotPass(pct int) bool {
	total := t.all - t.giveup
	if total <= 0 {
		return false
	}
	l := new(big.Int).Mul(big.NewInt(total-t.no), big.NewInt(100))
	r := new(big.Int).Mul(big.NewInt(int64(pct)), big.NewInt(total))
	return l.Cmp(r) < 0
}

// ---- governance option records ----

var cfgFamilies = map[string]struct{ rec, luh string }{
	"feeOption":       {"feeopt", "feeOptions"},
	"onsOptions":      {"onsopt", "onsOptions"},
	"stakingOptions":  {"stakingopt", "stakingOptions"},
	"propOptions":     {"proposal", "proposalOptions"},
	"evidenceOptions": {"evidenceopt", "evidenceOptions"},
}

func cfgSplit(update string) (family string, path []string, value string, ok bool) {
	parts := strings.Split(update, ":")
	if len(parts) != 2 {
		return "", nil, "", false
	}
	ks := strings.Split(parts[0], ".")
	if len(ks) < 2 {
		return "", nil, "", false
	}
	if _, known := cfgFamilies[ks[0]]; !known {
		return "", nil, "", false
	}
	return ks[0], ks[1:], parts[1], true
}

// currentOption returns the option record of a family that is in force in a view (the version named by
// the family's last-update-height record).
func currentOption(v *view, family string) []byte {
	f := cfgFamilies[family]
	luh := v.gov["g_"+f.luh+"_defaultOptions"]
	if len(luh) != 8 {
		return nil
	}
	h := int64(binary.LittleEndian.Uint64(luh))
	return v.gov[versionedKey(h, f.rec)]
}

// minFeePrice is the smallest gas price the application admits under the fee option of a view.
func minFeePrice(v *view) *big.Int {
	var o struct {
		FeeCurrency struct {
			Decimal int64 `json:"decimal"`
		} `json:"feeCurrency"`
		MinFeeDecimal int64 `json:"minFeeDecimal"`
	}
	if json.Unmarshal(currentOption(v, "feeOption"), &o) != nil || o.FeeCurrency.Decimal < o.MinFeeDecimal {
		return big.NewInt(0)
	}
	return new(big.Int).Exp(big.NewInt(10), big.NewInt(o.FeeCurrency.Decimal-o.MinFeeDecimal), nil)
}

func versionedKey(h int64, name string) string { return "g_" + string(rune(h)) + "_" + name }

// ---- monitor ----

// finalGrace: a proposal decided in block d must have left the passed / failed stage by the end of block d+finalGrace-1.
const finalGrace = 2

type Monitor struct {
	P     sim.Params
	Props map[string]*PropM
	Order []string
	prev  *view

	// statistics
	Measured, Unmeasured, Noise int
	FinalMeasured               int
	RefundsChecked              int
	RefundDenied                int
	VotesSeen                   int
	CfgApplied                  int
	SnapshotDrift               int // votes cast by a validator whose current power differs from the snapshot
	StrangerPublicOK            int // successful PROPOSAL_FINALIZE / EXPIRE_VOTES transactions
	EmptySnapshots              int
	ImportedVotes               int // vote records of genesis proposals carrying an opinion, found as recorded after InitChain
	ImportedFunds               int // fund records of genesis proposals found as recorded after InitChain
	FinalDueMet                 int // proposals that left the passed / failed stage in time
	Notes                       []string
}

// NewMonitor starts the monitor on the state InitChain committed. pre is the "proposals" section of the genesis
// document (nil for a genesis without proposals): what the old chain recorded. The state must hold exactly these
// records (the recorded stage, contributions and votes are what every later judgement is based on); the model
// then starts from the state's records: one PropM per proposal, as if its history so far had been observed.
func NewMonitor(p sim.Params, genesis map[string][]byte, pre []governance.GovProposal) (*Monitor, *Violation) {
	v, bad := parseView(genesis)
	if bad != nil {
		return nil, bad
	}
	m := &Monitor{P: p, Props: map[string]*PropM{}, prev: v}
	want := map[string]bool{}
	for _, gp := range pre {
		want[string(gp.Prop.ProposalID)] = true
	}
	for _, ids := range []map[string]bool{keysOfProps(v.props), keysOfAmts(v.fundsI), keysOfBig(v.fundsT), keysOfVotes(v.votes)} {
		for id := range ids {
			if !want[id] {
				return nil, viol("harness", "genesis", "genesis state holds records of proposal %s which the genesis document does not carry", id)
			}
		}
	}
	for _, gp := range pre {
		id := string(gp.Prop.ProposalID)
		if m.Props[id] != nil {
			return nil, viol("harness", "genesis", "genesis document carries proposal %s twice", id)
		}
		// --- the import is faithful: store, record, contributions, snapshot and opinions as recorded ---
		recs := v.props[id]
		if len(recs) != 1 {
			return nil, viol("genesis-import", "proposal-record", "h=0: the genesis carries proposal %s in store %s; after InitChain it is recorded in %d stores", id, gp.State, len(recs))
		}
		r := recs[0]
		if r.Store != gp.State.String() {
			return nil, viol("genesis-import", "proposal-record", "h=0: the genesis carries proposal %s in store %s; after InitChain it is in store %s", id, gp.State, r.Store)
		}
		wantRec, _ := json.Marshal(gp.Prop)
		gotRec, _ := json.Marshal(r.P)
		if !bytes.Equal(wantRec, gotRec) {
			return nil, viol("genesis-import", "proposal-record", "h=0: proposal %s: the genesis records %s; after InitChain the state holds %s", id, wantRec, gotRec)
		}
		st, okc := classify(r)
		if !okc {
			return nil, viol("harness", "genesis", "genesis proposal %s in store %s has status %s / outcome %s: not a stage a dump can hold", id, r.Store, r.P.Status, r.P.Outcome)
		}
		pm := &PropM{ID: id, Stage: st, Path: []Stage{st}, Rec: r.P, Created: 0, Contrib: map[string]*big.Int{}, Withdrawn: map[string]*big.Int{}, Imported: importName(st)}
		wantFunds := map[string]*big.Int{}
		for _, f := range gp.ProposalFunds {
			if f.FundingAmount != nil {
				add(wantFunds, f.Address.String(), f.FundingAmount.BigInt())
			}
		}
		gotFunds := v.fundsI[id]
		for _, f := range sortedKeys(wantFunds, gotFunds) {
			w, g := wantFunds[f], gotFunds[f]
			if w == nil || g == nil || w.Cmp(g) != 0 {
				return nil, viol("genesis-import", "fund-record", "h=0: proposal %s (%s): the genesis records a contribution of %s by %s; after InitChain the fund record is %s", id, pm.Imported, amtStr(w), f, amtStr(g))
			}
			add(pm.Contrib, f, g)
			m.ImportedFunds++
		}
		if t := v.fundsT[id]; (t == nil && len(wantFunds) > 0) || (t != nil && t.Cmp(pm.total()) != 0) {
			return nil, viol("genesis-import", "fund-record", "h=0: proposal %s (%s): the genesis records contributions of %s in total; after InitChain the total fund record is %s", id, pm.Imported, pm.total(), amtStr(t))
		}
		gotVotes := v.votes[id]
		if len(gotVotes) != len(gp.ProposalVotes) {
			return nil, viol("genesis-import", "vote-snapshot", "h=0: proposal %s (%s): the genesis records a snapshot of %d validators; after InitChain there are %d vote records", id, pm.Imported, len(gp.ProposalVotes), len(gotVotes))
		}
		if rank(st) >= rank(SV) && st != SC && st != SM {
			pm.VoteStart = 0
			pm.Snapshot = map[string]int64{}
			pm.Opinion = map[string]governance.VoteOpinion{}
		} else if len(gotVotes) > 0 {
			return nil, viol("harness", "genesis", "genesis proposal %s (%s) carries vote records although it never entered voting", id, pm.Imported)
		}
		for _, w := range gp.ProposalVotes {
			a := w.Validator.String()
			g, in := gotVotes[a]
			if !in || g.Power != w.Power {
				return nil, viol("genesis-import", "vote-snapshot", "h=0: proposal %s (%s): the genesis records validator %s in the snapshot with power %d; after InitChain its vote record has power %d (present %v)", id, pm.Imported, a, w.Power, g.Power, in)
			}
			if g.Opinion != w.Opinion {
				return nil, viol("genesis-import", "vote-opinion", "h=0: proposal %s (%s): the genesis records the vote of validator %s (power %d) as %s; after InitChain the vote record says %s: the proposal can no longer be judged by the votes that were recorded",
					id, pm.Imported, a, w.Power, w.Opinion, g.Opinion)
			}
			pm.Snapshot[a] = g.Power
			pm.Opinion[a] = g.Opinion
			if g.Opinion != governance.OPIN_UNKNOWN {
				m.ImportedVotes++
			}
		}
		if fam, _, _, isCfg := cfgSplit(r.P.GovernanceStateUpdate); isCfg && r.P.Type == governance.ProposalTypeConfigUpdate {
			pm.CfgFamily = fam
		}
		m.Props[id] = pm
		m.Order = append(m.Order, id)
	}
	return m, nil
}

func importName(s Stage) string {
	switch s {
	case SF:
		return "funding"
	case SV:
		return "voting"
	case SP:
		return "passed"
	case SN:
		return "failed"
	case SC:
		return "cancelled"
	case SX:
		return "expired"
	case SM:
		return "goal-missed"
	case SZ:
		return "finalised"
	case SZF:
		return "finalise-failed"
	}
	return string(s)
}

func keysOfProps(m map[string][]propRec) map[string]bool {
	o := map[string]bool{}
	for k := range m {
		o[k] = true
	}
	return o
}

func keysOfAmts(m map[string]map[string]*big.Int) map[string]bool {
	o := map[string]bool{}
	for k := range m {
		o[k] = true
	}
	return o
}

func keysOfBig(m map[string]*big.Int) map[string]bool {
	o := map[string]bool{}
	for k := range m {
		o[k] = true
	}
	return o
}

func keysOfVotes(m map[string]map[string]governance.ProposalVote) map[string]bool {
	o := map[string]bool{}
	for k := range m {
		o[k] = true
	}
	return o
}

func sortedKeys(ms ...map[string]*big.Int) []string {
	set := map[string]bool{}
	for _, m := range ms {
		for k := range m {
			set[k] = true
		}
	}
	out := make([]string, 0, len(set))
	for k := range set {
		out = append(out, k)
	}
	sort.Strings(out)
	return out
}

func amtStr(a *big.Int) string {
	if a == nil {
		return "absent"
	}
	return a.String()
}

func balOf(d map[string][]byte, addr string) *big.Int {
	v, ok := d["b_"+addr+"_OLT"]
	if !ok {
		return big.NewInt(0)
	}
	var s string
	if json.Unmarshal(v, &s) != nil {
		return big.NewInt(0)
	}
	a, ok := new(big.Int).SetString(s, 10)
	if !ok {
		return big.NewInt(0)
	}
	return a
}

type voteSeen struct {
	validator string
	opinion   governance.VoteOpinion
}

// Block judges one committed block: the transactions it carried (bytes), their delivered results
// and the dump after the commit, against the model built from the previous blocks.
func (m *Monitor) Block(h int64, raw [][]byte, res []sim.TxRes, afterDump map[string][]byte) *Violation {
	after, bad := parseView(afterDump)
	if bad != nil {
		return bad
	}
	before := m.prev
	txs := make([]*GTx, len(raw))
	for i := range raw {
		txs[i] = decodeTx(raw[i])
	}
	ok := func(i int) bool { return i < len(res) && res[i].Code == 0 }

	// --- state at the start of the block (for the refund oracle) ---
	type startInfo struct {
		stage Stage
		total *big.Int
		out   map[string]*big.Int
	}
	start := map[string]startInfo{}
	for id, p := range m.Props {
		si := startInfo{stage: p.Stage, total: p.total(), out: map[string]*big.Int{}}
		for f := range p.Contrib {
			si.out[f] = p.outstanding(f)
		}
		start[id] = si
	}

	// --- walk the successful transactions in block order ---
	tentative := map[string]Stage{}
	stageOf := func(id string) Stage {
		if s, ok := tentative[id]; ok {
			return s
		}
		if p := m.Props[id]; p != nil {
			return p.Stage
		}
		return SNew
	}
	created := map[string]*GTx{}
	votesIn := map[string][]voteSeen{}
	fundsIn, fundsOut := big.NewInt(0), big.NewInt(0)
	conserving := true
	touched := map[string]int{} // address -> number of transactions of the block naming it
	touch := func(seen map[string]bool, a fmt.Stringer) {
		s := a.String()
		if s != "" && !seen[s] {
			seen[s] = true
			touched[s]++
		}
	}
	for i, t := range txs {
		seen := map[string]bool{}
		for _, s := range t.Signers {
			if s != nil {
				touch(seen, s)
			}
		}
		switch {
		case t.Send != nil:
			touch(seen, t.Send.From)
			touch(seen, t.Send.To)
		case t.Create != nil:
			touch(seen, t.Create.Proposer)
		case t.Fund != nil:
			touch(seen, t.Fund.FunderAddress)
		case t.Withdraw != nil:
			touch(seen, t.Withdraw.Funder)
			touch(seen, t.Withdraw.Beneficiary)
		case t.Cancel != nil:
			touch(seen, t.Cancel.Proposer)
		}
		if !ok(i) {
			continue
		}
		switch t.Kind {
		case "SEND", "PROPOSAL_VOTE", "PROPOSAL_CANCEL", "PROPOSAL_CREATE", "PROPOSAL_FUND", "PROPOSAL_WITHDRAW_FUNDS":
		case "PROPOSAL_FINALIZE", "EXPIRE_VOTES":
			m.StrangerPublicOK++
		default:
			conserving = false
		}
		switch {
		case t.Create != nil:
			id := t.ID
			if m.Props[id] != nil || created[id] != nil {
				return viol("create", "duplicate-id", "h=%d tx#%d: PROPOSAL_CREATE succeeded for id %s which already exists (stage %s)", h, i, id, stageOf(id))
			}
			created[id] = t
			p := &PropM{ID: id, Stage: SNew, Created: h, Contrib: map[string]*big.Int{}, Withdrawn: map[string]*big.Int{}}
			m.Props[id] = p
			m.Order = append(m.Order, id)
			v := t.Create.InitialFunding.Value.BigInt()
			add(p.Contrib, t.Create.Proposer.String(), v)
			fundsIn.Add(fundsIn, v)
			tentative[id] = SF
			if fam, _, _, isCfg := cfgSplit(t.Create.ConfigUpdate); isCfg && t.Create.ProposalType == governance.ProposalTypeConfigUpdate {
				p.CfgFamily = fam
			}
		case t.Fund != nil:
			p := m.Props[t.ID]
			if p == nil {
				return viol("fund", "unknown-proposal", "h=%d tx#%d: PROPOSAL_FUND succeeded for a proposal id that was never created: %s", h, i, t.ID)
			}
			v := t.Fund.FundValue.Value.BigInt()
			add(p.Contrib, t.Fund.FunderAddress.String(), v)
			fundsIn.Add(fundsIn, v)
			if stageOf(t.ID) == SF && p.total().Cmp(goalOf(p, created)) >= 0 {
				tentative[t.ID] = SV
			}
		case t.Cancel != nil:
			if stageOf(t.ID) == SF {
				tentative[t.ID] = SC
			}
		case t.Withdraw != nil:
			p := m.Props[t.ID]
			if p == nil {
				return viol("withdraw", "unknown-proposal", "h=%d tx#%d: PROPOSAL_WITHDRAW_FUNDS succeeded for a proposal id that was never created: %s", h, i, t.ID)
			}
			st := stageOf(t.ID)
			fdl, goal := fundingDLOf(p, created), goalOf(p, created)
			legit := st == SC || st == SM
			if !legit && st == SF && h > fdl && p.total().Cmp(goal) < 0 {
				legit = true
				tentative[t.ID] = SM
			}
			v := t.Withdraw.WithdrawValue.Value.BigInt()
			f := t.Withdraw.Funder.String()
			if !legit {
				return viol("withdraw", "not-refundable", "h=%d tx#%d: funder %s withdrew %s from proposal %s although it is neither cancelled nor past its funding deadline (%d) below its goal (stage %s, funds %s of %s): the funds of such a proposal are to be distributed at finalisation",
					h, i, f, v, t.ID, fdl, st, p.total(), goal)
			}
			if v.Sign() < 0 && !t.Withdraw.Beneficiary.Equal(t.Withdraw.Funder) {
				b := t.Withdraw.Beneficiary.String()
				return viol("withdraw", "negative-amount", "h=%d tx#%d: PROPOSAL_WITHDRAW_FUNDS of funder %s with value %s and beneficiary %s succeeded: the funder's escrow record grows by %s (withdrawable later) and the beneficiary, which did not sign (signers %v), is debited; beneficiary balance before the block %s, after %s",
					h, i, f, v, b, new(big.Int).Neg(v), t.Signers, balOf(before.raw, b), balOf(afterDump, b))
			}
			add(p.Withdrawn, f, v)
			fundsOut.Add(fundsOut, v)
			if p.outstanding(f).Sign() < 0 {
				return viol("withdraw", "exceeds-contribution", "h=%d tx#%d: funder %s has now withdrawn %s from proposal %s but contributed only %s", h, i, f, p.Withdrawn[f], t.ID, amtStr(p.Contrib[f]))
			}
		case t.Vote != nil:
			votesIn[t.ID] = append(votesIn[t.ID], voteSeen{t.Vote.ValidatorAddress.String(), t.Vote.Opinion})
			m.VotesSeen++
			if p := m.Props[t.ID]; p != nil && p.Snapshot != nil {
				if pw, in := p.Snapshot[t.Vote.ValidatorAddress.String()]; in {
					var vr struct {
						Power int64 `json:"power"`
					}
					if json.Unmarshal(afterDump["v_"+string(t.Vote.ValidatorAddress)], &vr) != nil || vr.Power != pw {
						m.SnapshotDrift++
					}
				}
			}
		}
	}

	// --- proposals in the dump: stage order and the conditions of each stage ---
	ids := make([]string, 0, len(after.props))
	for id := range after.props {
		ids = append(ids, id)
	}
	sort.Strings(ids)
	var finalisedNow []*PropM
	reachedZ := map[string]bool{}
	for _, id := range ids {
		recs := after.props[id]
		if len(recs) > 1 {
			return viol("stage", "two-stores", "h=%d: proposal %s is recorded in %d stores at once (%s and %s)", h, id, len(recs), recs[0].Store, recs[1].Store)
		}
		r := recs[0]
		st, okc := classify(r)
		if !okc {
			return viol("stage", "inconsistent-record", "h=%d: proposal %s in store %s has status %s / outcome %s", h, id, r.Store, r.P.Status, r.P.Outcome)
		}
		p := m.Props[id]
		if p == nil {
			return viol("stage", "appeared-without-create", "h=%d: proposal %s appeared in store %s without a successful PROPOSAL_CREATE", h, id, r.Store)
		}
		old := p.Stage
		rec := r.P
		if st != old {
			if !forward(old, st) {
				return viol("stage-order", string(old)+">"+string(st), "h=%d: proposal %s moved from stage %s to stage %s (path so far %s)", h, id, old, st, p.PathString())
			}
			if st == SX && rank(old) < rank(SV) && (rec.FundingGoal == nil || p.total().Cmp(rec.FundingGoal.BigInt()) < 0) {
				return viol("expire", "without-voting", "h=%d: proposal %s expired (insufficient votes) although it never entered voting (was %s, funds %s of %v)", h, id, old, p.total(), rec.FundingGoal)
			}
			// entered (or passed through) voting in this block
			if rank(old) < rank(SV) && rank(st) >= rank(SV) && st != SC && st != SM {
				if h > rec.FundingDeadline {
					return viol("voting-start", "after-funding-deadline", "h=%d: proposal %s entered voting (now %s) after its funding deadline %d", h, id, st, rec.FundingDeadline)
				}
				if rec.FundingGoal == nil || p.total().Cmp(rec.FundingGoal.BigInt()) < 0 {
					return viol("voting-start", "goal-not-met", "h=%d: proposal %s entered voting (now %s) with contributions %s below its goal %v", h, id, st, p.total(), rec.FundingGoal)
				}
				// (an empty snapshot is possible: the application marks validators active at the end of block 2,
				// so a proposal that reaches its goal in block 1 or 2 records no voters; the property does not
				// fix the snapshot's content, only that decisions follow it)
				snap := after.votes[id]
				if len(snap) == 0 {
					m.EmptySnapshots++
				}
				p.VoteStart = h
				p.Snapshot = map[string]int64{}
				p.Opinion = map[string]governance.VoteOpinion{}
				for a, pv := range snap {
					p.Snapshot[a] = pv.Power
					p.Opinion[a] = governance.OPIN_UNKNOWN
				}
			}
			// decided by vote in this block
			decided := (st == SP || st == SN) || ((st == SZ || st == SZF) && old != SP && old != SN && old != SX)
			if decided {
				if h > rec.VotingDeadline {
					return viol("decision", "after-voting-deadline", "h=%d: proposal %s was decided by vote (now %s, outcome %s) after its voting deadline %d", h, id, st, rec.Outcome, rec.VotingDeadline)
				}
				t := tallyOf(after.votes[id])
				yes := rec.Outcome == governance.ProposalOutcomeCompletedYes
				if yes && !t.passes(rec.PassPercentage) {
					return viol("tally", "passed-without-votes", "h=%d: proposal %s passed but the recorded votes are yes=%d no=%d giveup=%d of all=%d with pass percentage %d", h, id, t.yes, t.no, t.giveup, t.all, rec.PassPercentage)
				}
				if !yes && !t.cannotPass(rec.PassPercentage) {
					return viol("tally", "failed-while-passable", "h=%d: proposal %s failed but the recorded votes are yes=%d no=%d giveup=%d of all=%d with pass percentage %d: it could still reach the pass percentage", h, id, t.yes, t.no, t.giveup, t.all, rec.PassPercentage)
				}
				p.DecidedAt = h
			}
			if st == SX {
				if h <= rec.VotingDeadline {
					return viol("expire", "before-voting-deadline", "h=%d: proposal %s expired although its voting deadline is %d", h, id, rec.VotingDeadline)
				}
			}
			if st == SZ {
				p.FinalAt = h
				finalisedNow = append(finalisedNow, p)
				reachedZ[id] = true
			}
			if (old == SP || old == SN) && (st == SZ || st == SZF) {
				m.FinalDueMet++
			}
			p.Path = append(p.Path, st)
		}
		if st == SF && rec.FundingGoal != nil && p.total().Cmp(rec.FundingGoal.BigInt()) >= 0 {
			return viol("voting-start", "goal-met-but-still-funding", "h=%d: proposal %s holds contributions of %s, its goal is %v, and it is still in funding: it can neither be voted on nor, after the funding deadline %d, refunded",
				h, id, p.total(), rec.FundingGoal, rec.FundingDeadline)
		}
		p.Stage = st
		p.Rec = rec
	}
	for _, id := range m.Order {
		if _, present := after.props[id]; !present {
			return viol("stage", "vanished", "h=%d: proposal %s (stage %s) is no longer in any store", h, id, m.Props[id].Stage)
		}
	}

	// --- passed / failed is followed by finalised: the block beginner queues the finalisation of every proposal it
	// finds decided and the block ender executes it, so a proposal decided in block d (d = 0: carried as decided
	// by the genesis) is finalised in block d+1; one more block is granted before the stage counts as stuck ---
	for _, id := range m.Order {
		p := m.Props[id]
		if (p.Stage == SP || p.Stage == SN) && h >= p.DecidedAt+finalGrace {
			t := tallyOf(after.votes[id])
			origin, class := fmt.Sprintf("decided by vote at height %d", p.DecidedAt), "decided-in-history"
			if p.Imported != "" && p.DecidedAt == 0 {
				origin, class = "carried by the genesis as "+p.Imported, "imported-"+p.Imported
			}
			return viol("finalisation-due", class, "h=%d: proposal %s (%s, outcome %s) is still in store %s: the block hooks have not finalised it, its funds (%s) stay locked; recorded votes yes=%d no=%d giveup=%d of all=%d, pass percentage %d",
				h, id, origin, p.Rec.Outcome, map[Stage]string{SP: "Passed", SN: "Failed"}[p.Stage], p.total(), t.yes, t.no, t.giveup, t.all, p.Rec.PassPercentage)
		}
	}

	// --- vote records: the snapshot is fixed when voting begins; opinions change only by a vote of that validator in time ---
	vids := make([]string, 0, len(after.votes))
	for id := range after.votes {
		vids = append(vids, id)
	}
	sort.Strings(vids)
	for _, id := range vids {
		p := m.Props[id]
		if p == nil || p.Snapshot == nil {
			return viol("votes", "without-voting-stage", "h=%d: vote records exist for proposal %s which never entered voting", h, id)
		}
		cur := after.votes[id]
		if len(cur) != len(p.Snapshot) {
			return viol("votes", "snapshot-changed", "h=%d: proposal %s has %d vote records, its snapshot had %d", h, id, len(cur), len(p.Snapshot))
		}
		vals := make([]string, 0, len(cur))
		for a := range cur {
			vals = append(vals, a)
		}
		sort.Strings(vals)
		for _, a := range vals {
			pv := cur[a]
			pw, in := p.Snapshot[a]
			if !in || pw != pv.Power {
				return viol("votes", "snapshot-changed", "h=%d: proposal %s: vote record of %s has power %d, snapshot had %d (member %v)", h, id, a, pv.Power, pw, in)
			}
			if pv.Opinion == p.Opinion[a] {
				continue
			}
			// the opinion changed in this block
			found := false
			for _, vs := range votesIn[id] {
				if vs.validator == a && vs.opinion == pv.Opinion {
					found = true
				}
			}
			if !found {
				return viol("votes", "opinion-without-vote", "h=%d: proposal %s: opinion of validator %s changed from %s to %s without a PROPOSAL_VOTE of that validator carrying it in this block", h, id, a, p.Opinion[a], pv.Opinion)
			}
			if h > p.Rec.VotingDeadline {
				return viol("votes", "after-voting-deadline", "h=%d: proposal %s: validator %s's vote was recorded after the voting deadline %d", h, id, a, p.Rec.VotingDeadline)
			}
			p.Opinion[a] = pv.Opinion
		}
	}
	for _, id := range m.Order {
		if p := m.Props[id]; len(p.Snapshot) > 0 && len(after.votes[id]) == 0 {
			return viol("votes", "snapshot-vanished", "h=%d: the vote records of proposal %s disappeared", h, id)
		}
	}

	// --- escrow records against contributions and withdrawals ---
	fids := map[string]bool{}
	for id := range after.fundsI {
		fids[id] = true
	}
	for id := range after.fundsT {
		fids[id] = true
	}
	for id := range fids {
		if m.Props[id] == nil {
			return viol("escrow", "unknown-proposal", "h=%d: fund records exist for proposal id %s which was never created", h, id)
		}
	}
	for _, id := range m.Order {
		p := m.Props[id]
		recI, recT := after.fundsI[id], after.fundsT[id]
		if p.Stage == SZ {
			for f, a := range recI {
				return viol("escrow", "not-emptied", "h=%d: proposal %s is finalised (at %d) but funder %s still has a fund record of %s", h, id, p.FinalAt, f, a)
			}
			if recT != nil && recT.Sign() != 0 {
				return viol("escrow", "not-emptied", "h=%d: proposal %s is finalised (at %d) but its total fund record is %s", h, id, p.FinalAt, recT)
			}
			continue
		}
		fs := map[string]bool{}
		for f := range p.Contrib {
			fs[f] = true
		}
		for f := range recI {
			fs[f] = true
		}
		fl := make([]string, 0, len(fs))
		for f := range fs {
			fl = append(fl, f)
		}
		sort.Strings(fl)
		for _, f := range fl {
			want := p.outstanding(f)
			got := recI[f]
			if got == nil {
				got = big.NewInt(0)
			}
			if got.Cmp(want) != 0 {
				return viol("escrow", "record-mismatch", "h=%d: proposal %s (stage %s): fund record of %s is %s, contributions minus withdrawals are %s", h, id, p.Stage, f, amtStr(recI[f]), want)
			}
		}
		got := recT
		if got == nil {
			got = big.NewInt(0)
		}
		if got.Cmp(p.total()) != 0 {
			return viol("escrow", "total-mismatch", "h=%d: proposal %s (stage %s): total fund record is %s, contributions minus withdrawals are %s", h, id, p.Stage, amtStr(recT), p.total())
		}
	}

	// --- governance option records change only when a passed config-update proposal is finalised ---
	allowed := map[string]string{}
	if m.P.Frankenstein > 0 && h == m.P.Frankenstein {
		allowed[versionedKey(h, "stakingopt")] = "fork"
		allowed["g_stakingOptions_defaultOptions"] = "fork"
	}
	type cfgFin struct {
		p      *PropM
		family string
		path   []string
		value  string
	}
	var cfgs []cfgFin
	for _, p := range finalisedNow {
		if p.Rec.Type == governance.ProposalTypeConfigUpdate && p.Rec.Outcome == governance.ProposalOutcomeCompletedYes {
			fam, path, val, okc := cfgSplit(p.Rec.GovernanceStateUpdate)
			if !okc {
				continue
			}
			cfgs = append(cfgs, cfgFin{p, fam, path, val})
			allowed[versionedKey(h, cfgFamilies[fam].rec)] = p.ID
			allowed["g_"+cfgFamilies[fam].luh+"_defaultOptions"] = p.ID
		}
	}
	gk := map[string]bool{}
	for k := range before.gov {
		gk[k] = true
	}
	for k := range after.gov {
		gk[k] = true
	}
	gkeys := make([]string, 0, len(gk))
	for k := range gk {
		gkeys = append(gkeys, k)
	}
	sort.Strings(gkeys)
	for _, k := range gkeys {
		if bytes.Equal(before.gov[k], after.gov[k]) {
			if _, a := before.gov[k]; a {
				if _, b := after.gov[k]; b {
					continue
				}
			}
		}
		if _, okk := allowed[k]; !okk {
			var fin []string
			for _, p := range finalisedNow {
				fin = append(fin, fmt.Sprintf("%s(type %s outcome %s update %q)", p.ID[:8], p.Rec.Type, p.Rec.Outcome, p.Rec.GovernanceStateUpdate))
			}
			return viol("config", "changed-without-passed-proposal", "h=%d: governance option record %q changed (%.120q -> %.120q) but no passed config-update proposal for it was finalised in this block (finalised now: %v)", h, k, before.gov[k], after.gov[k], fin)
		}
	}
	for _, c := range cfgs {
		k := versionedKey(h, cfgFamilies[c.family].rec)
		recb, present := after.gov[k]
		if !present {
			return viol("config", "not-applied", "h=%d: passed config-update proposal %s (%q) was finalised but no option record %q was written", h, c.p.ID, c.p.Rec.GovernanceStateUpdate, k)
		}
		got, found := jsonPath(recb, c.path)
		if !found {
			continue
		}
		match := got == c.value
		for _, o := range cfgs { // several updates of one field finalised in one block: the last applied wins
			if o.family == c.family && strings.Join(o.path, ".") == strings.Join(c.path, ".") && got == o.value {
				match = true
			}
		}
		if !match {
			return viol("config", "not-applied", "h=%d: passed config-update proposal %s (%q) was finalised but the option record holds %q", h, c.p.ID, c.p.Rec.GovernanceStateUpdate, got)
		}
		m.CfgApplied++
	}

	// --- total distributed at finalisation <= total contributed ---
	guardSame := len(before.guard) == len(after.guard)
	if guardSame {
		for k, v := range before.guard {
			if w, okk := after.guard[k]; !okk || !bytes.Equal(v, w) {
				guardSame = false
				break
			}
		}
	}
	if conserving && guardSame {
		d := new(big.Int).Sub(after.sum, before.sum)
		d.Add(d, fundsIn)
		d.Sub(d, fundsOut)
		m.Measured++
		if len(finalisedNow) == 0 {
			if d.Sign() != 0 {
				m.Noise++
				if len(m.Notes) < 5 {
					m.Notes = append(m.Notes, fmt.Sprintf("h=%d: balances+fee pool+escrow changed by %s in a block without finalisation", h, d))
				}
			}
		} else {
			cap := big.NewInt(0)
			for _, p := range finalisedNow {
				cap.Add(cap, p.total())
			}
			m.FinalMeasured += len(finalisedNow)
			if d.Cmp(cap) > 0 {
				return viol("distribution", "exceeds-contributed", "h=%d: finalising %d proposal(s) credited %s in total to balances and the fee pool, their contributions were %s", h, len(finalisedNow), d, cap)
			}
		}
	} else if len(finalisedNow) > 0 {
		m.Unmeasured += len(finalisedNow)
	}

	// --- refunds: a funder of a cancelled / goal-missed proposal can withdraw exactly what it put in ---
	finalProposers := map[string]bool{}
	for _, p := range finalisedNow {
		finalProposers[p.Rec.Proposer.String()] = true
	}
	for i, t := range txs {
		if t.Withdraw == nil || len(t.Signers) != 1 || t.Signers[0] == nil {
			continue
		}
		s := t.Signers[0].String()
		if t.Withdraw.Funder.String() != s || t.Withdraw.Beneficiary.String() != s || t.Withdraw.WithdrawValue.Currency != "OLT" {
			continue
		}
		if touched[s] != 1 || finalProposers[s] {
			continue
		}
		if t.Price.Cmp(minFeePrice(before)) < 0 {
			continue // a governance update raised the minimal fee above what this transaction offers: it is not admissible at all
		}
		si, known := start[t.ID]
		if !known {
			continue
		}
		p := m.Props[t.ID]
		due := si.stage == SC || si.stage == SM || (si.stage == SF && h > p.Rec.FundingDeadline && p.Rec.FundingGoal != nil && si.total.Cmp(p.Rec.FundingGoal.BigInt()) < 0)
		if !due {
			continue
		}
		// no other kind of transaction on this proposal in the block
		clean := true
		for j, o := range txs {
			if j != i && o.ID == t.ID && o.Withdraw == nil {
				clean = false
			}
		}
		if !clean {
			continue
		}
		v := t.Withdraw.WithdrawValue.Value.BigInt()
		out := si.out[s]
		if out == nil || out.Sign() <= 0 || v.Sign() <= 0 {
			continue
		}
		if !ok(i) {
			if v.Cmp(out) == 0 {
				m.RefundDenied++
				return viol("refund", "denied", "h=%d tx#%d: proposal %s is %s and funder %s asked for exactly its outstanding contribution %s but the withdrawal was rejected: %.200s", h, i, t.ID, describeDue(si.stage), s, v, res[i].Log)
			}
			continue
		}
		fee := new(big.Int).Mul(big.NewInt(res[i].GasUsed), t.Price)
		want := new(big.Int).Sub(v, fee)
		got := new(big.Int).Sub(balOf(afterDump, s), balOf(before.raw, s))
		if got.Cmp(want) != 0 {
			return viol("refund", "credit-mismatch", "h=%d tx#%d: funder %s withdrew %s from proposal %s paying a fee of %d x %s; its balance changed by %s instead of %s", h, i, s, v, t.ID, res[i].GasUsed, t.Price, got, want)
		}
		m.RefundsChecked++
	}

	m.prev = after
	return nil
}

func describeDue(s Stage) string {
	switch s {
	case SC:
		return "cancelled"
	case SM:
		return "marked as having missed its goal"
	}
	return "past its funding deadline below its goal"
}

func goalOf(p *PropM, created map[string]*GTx) *big.Int {
	if p.Rec.FundingGoal != nil {
		return p.Rec.FundingGoal.BigInt()
	}
	if c := created[p.ID]; c != nil && c.Create.FundingGoal != nil {
		return c.Create.FundingGoal.BigInt()
	}
	return big.NewInt(0)
}

func fundingDLOf(p *PropM, created map[string]*GTx) int64 {
	if p.Rec.ProposalID != "" {
		return p.Rec.FundingDeadline
	}
	if c := created[p.ID]; c != nil {
		return c.Create.FundingDeadline
	}
	return 0
}

// jsonPath reads a scalar at path from a JSON object and renders it as the update strings do.
func jsonPath(b []byte, path []string) (string, bool) {
	var cur interface{}
	dec := json.NewDecoder(bytes.NewReader(b))
	dec.UseNumber()
	if dec.Decode(&cur) != nil {
		return "", false
	}
	for _, k := range path {
		o, isObj := cur.(map[string]interface{})
		if !isObj {
			return "", false
		}
		nx, has := o[k]
		if !has {
			return "", false
		}
		cur = nx
	}
	switch x := cur.(type) {
	case string:
		return x, true
	case json.Number:
		return x.String(), true
	}
	return "", false
}
