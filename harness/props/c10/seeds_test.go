package c10

import (
	"encoding/json"
	"math/big"
	"os"
	"path/filepath"
	"testing"

	"github.com/Oneledger/protocol/action"
	astake "github.com/Oneledger/protocol/action/staking"

	"verif/hist"
	"verif/run"
	"verif/sim"
	"verif/txgen"
)

type seedBuilder struct {
	tr  *hist.Trace
	g   *sim.Genesis
	fee txgen.Fee
	n   int
}

func newSeed(p sim.Params, name string) *seedBuilder {
	return &seedBuilder{tr: &hist.Trace{Params: p, Roles: hist.Roles(p, 1), Profile: "hand:" + name}, g: sim.BuildGenesis(p), fee: txgen.DefaultFee()}
}

func (s *seedBuilder) memo() string { s.n++; return "seed" + string(rune('a'+s.n)) }

func (s *seedBuilder) block(txs ...txgen.Tx) {
	spec := sim.BlockSpec{GapSecs: 5}
	for _, x := range txs {
		spec.Txs = append(spec.Txs, x.Bytes)
	}
	s.tr.Steps = append(s.tr.Steps, hist.BlockStep(spec, txs))
}

func writeSeed(t *testing.T, dir, name, oracle, sig, msg string, tr *hist.Trace) {
	cb, _ := json.Marshal(tr)
	f := run.Failure{Property: "C10", Test: "TestReplay", Oracle: oracle, Message: msg, Sig: sig, Case: cb}
	b, _ := json.MarshalIndent(f, "", " ")
	if err := os.WriteFile(filepath.Join(dir, name), b, 0o644); err != nil {
		t.Fatal(err)
	}
}

func olt(n int64) action.Amount { return txgen.Amt("OLT", big.NewInt(n)) }

// TestMakeSeeds writes hand-built minimal scenarios as replay files (VERIF_MAKE_SEEDS=<dir>).
func TestMakeSeeds(t *testing.T) {
	dir := os.Getenv("VERIF_MAKE_SEEDS")
	if dir == "" {
		t.Skip("VERIF_MAKE_SEEDS not set")
	}
	_ = os.MkdirAll(dir, 0o755)

	// 1. a sole validator unstakes everything: the next block end removes the last member
	p := sim.DefaultParams()
	p.Seed = "c10-sole"
	p.Frankenstein = 0
	p.MinSelfDeleg, p.TopCount = 1000, 4
	p.ValPower = []int64{1005}
	p.Witnesses = nil
	s := newSeed(p, "sole-validator-unstakes-all")
	v0 := s.g.U.Vals[0]
	s.block()
	s.block(txgen.Unstake(v0.Key.Addr, v0.Stake.Addr, olt(1005), s.fee, s.memo(), v0.Stake, v0.Key))
	s.block()
	s.block()
	writeSeed(t, dir, "kf-empty-set.json", "acceptance", "C10/acceptance/empty-set", "a sole validator unstakes its whole stake", s.tr)

	// 2. an account stakes a new validator record that carries another validator's consensus key
	p = sim.DefaultParams()
	p.Seed = "c10-dupkey"
	p.Frankenstein = 0
	p.MinSelfDeleg, p.TopCount = 1000, 4
	p.ValPower = []int64{1005, 1006}
	p.Witnesses = nil
	s = newSeed(p, "stake-with-foreign-consensus-key")
	u := s.g.U.Users[0]
	victim := s.g.U.Vals[1]
	m := astake.Stake{ValidatorAddress: u.Addr, StakeAddress: u.Addr, ValidatorPubKey: victim.Key.Pub, ValidatorECDSAPubKey: victim.EcdsaPub, NodeName: "copycat", Stake: olt(1000)}
	s.block()
	s.block(txgen.Build("STAKE", action.STAKE, m, s.fee, s.memo(), u, u))
	s.block()
	s.block()
	writeSeed(t, dir, "kf-duplicate-consensus-key.json", "acceptance", "C10/acceptance/duplicate-key", "a STAKE whose ValidatorPubKey is another validator's key", s.tr)

	// 3. the same with a secp256k1 key (user 2 holds one): tendermint only admits ed25519
	p.Seed = "c10-keytype"
	s = newSeed(p, "stake-with-secp256k1-consensus-key")
	u = s.g.U.Users[2]
	m = astake.Stake{ValidatorAddress: u.Addr, StakeAddress: u.Addr, ValidatorPubKey: u.Pub, ValidatorECDSAPubKey: s.g.U.Vals[0].EcdsaPub, NodeName: "secp", Stake: olt(1000)}
	s.block()
	s.block(txgen.Build("STAKE", action.STAKE, m, s.fee, s.memo(), u, u))
	s.block()
	s.block()
	writeSeed(t, dir, "kf-secp256k1-consensus-key.json", "acceptance", "C10/acceptance/key-type", "a STAKE whose ValidatorPubKey is a secp256k1 key", s.tr)

	// 4. a guilty verdict before the missed-votes window has passed: the frozen validator stays elected
	p = sim.DefaultParams()
	p.Seed = "c10-early"
	p.Frankenstein = 0
	p.MinSelfDeleg, p.TopCount = 1000, 4
	p.ValPower = []int64{1005, 1006, 1007, 1008}
	p.Evidence.BlockVotesDiff = 8
	p.Evidence.MinVotesRequired = 1
	p.Witnesses = nil
	s = newSeed(p, "verdict-before-votes-window")
	v := s.g.U.Vals
	s.block()
	s.block()
	s.block(txgen.Allegation(v[0].Key, "q1", v[0].Key.Addr, v[3].Key.Addr, 2, "p", s.fee, s.memo()),
		txgen.AllegationVote(v[0].Key, "q1", v[0].Key.Addr, 1, s.fee, s.memo()),
		txgen.AllegationVote(v[1].Key, "q1", v[1].Key.Addr, 1, s.fee, s.memo()))
	s.block()
	s.block()
	writeSeed(t, dir, "kf-frozen-elected-before-window.json", "election", "C10/election/frozen-elected-before-window", "guilty verdict at a height <= blockVotesDiff", s.tr)

	// 5. stake, get elected, unstake everything in the next block: the record is deleted before the
	// validator shows up in the commit votes, so no removal is ever issued and it keeps its voting power
	p = sim.DefaultParams()
	p.Seed = "c10-ghost"
	p.Frankenstein = 0
	p.MinSelfDeleg, p.TopCount = 1000, 4
	p.ValPower = []int64{1005, 1006}
	p.Evidence.BlockVotesDiff = 1000
	p.Witnesses = nil
	s = newSeed(p, "elected-then-unstakes-all")
	nv := s.g.U.Vals[2]
	s.block()
	s.block(txgen.Stake(nv, nv.Stake.Addr, olt(1001), s.fee, s.memo()))
	s.block(txgen.Unstake(nv.Key.Addr, nv.Stake.Addr, olt(1001), s.fee, s.memo(), nv.Stake, nv.Key))
	for i := 0; i < 8; i++ {
		s.block()
	}
	writeSeed(t, dir, "kf-ghost-member.json", "convergence", "C10/convergence/member-without-record", "a candidate stakes, is elected, and unstakes everything one block later", s.tr)

	// 6. regression input (must pass): candidates around a top count of 3 with ties, purge, re-stake
	// after the purge delay, a verdict after the missed-votes window, release, convergence tail
	p = sim.DefaultParams()
	p.Seed = "c10-regress"
	p.Frankenstein = 0
	p.MinSelfDeleg, p.TopCount, p.Maturity = 1000, 3, 2
	p.ValPower = []int64{1010, 1005, 1005, 1003}
	p.ExtraVals = 2
	p.Evidence.BlockVotesDiff = 2
	p.Evidence.MinVotesRequired = 1
	p.Witnesses = nil
	s = newSeed(p, "boundary-purge-restake-verdict")
	v = s.g.U.Vals
	s.block()
	s.block(txgen.Stake(v[4], v[4].Stake.Addr, olt(1005), s.fee, s.memo())) // tie with the boundary
	s.block()
	s.block(txgen.Stake(v[3], v[3].Stake.Addr, olt(3), s.fee, s.memo()), // 1006: passes the tied ones (staking is refused for 2 blocks after the purge of block 2)
		txgen.Unstake(v[1].Key.Addr, v[1].Stake.Addr, olt(6), s.fee, s.memo(), v[1].Stake, v[1].Key)) // 999: below the minimum
	s.block()
	s.block(txgen.Stake(v[5], v[5].Stake.Addr, olt(999), s.fee, s.memo())) // a candidate that never reaches the minimum
	s.block(txgen.Stake(v[1], v[1].Stake.Addr, olt(8), s.fee, s.memo()))   // re-stake after the purge delay: 1007
	s.block()
	s.block(txgen.Allegation(v[0].Key, "q1", v[0].Key.Addr, v[3].Key.Addr, 2, "p", s.fee, s.memo()))
	s.block(txgen.AllegationVote(v[0].Key, "q1", v[0].Key.Addr, 1, s.fee, s.memo()),
		txgen.AllegationVote(v[1].Key, "q1", v[1].Key.Addr, 1, s.fee, s.memo()))
	s.block(txgen.Stake(v[0], v[0].Stake.Addr, olt(2), s.fee, s.memo()))
	s.block()
	s.block()
	s.block(txgen.Release(v[3].Key, v[3].Key.Addr, s.fee, s.memo()))
	for i := 0; i < 8; i++ {
		s.block()
	}
	writeSeed(t, dir, "seed-boundary-purge-restake-verdict.json", "seed", "C10/seed", "hand-built regression scenario", s.tr)
}
