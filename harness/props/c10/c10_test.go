// Package c10: the validator updates returned at each block end are acceptable to Tendermint,
// follow the staking rule (election from the previous block's records) and converge.
package c10

import (
	"bytes"
	"encoding/hex"
	"encoding/json"
	"fmt"
	"os"
	"sort"
	"strings"
	"testing"

	abci "github.com/tendermint/tendermint/abci/types"
	tmtypes "github.com/tendermint/tendermint/types"
	"pgregory.net/rapid"

	"verif/hist"
	"verif/run"
	"verif/sim"
	"verif/stk"
	"verif/txgen"
)

func TestMain(m *testing.M) {
	run.Quiet()
	os.Exit(m.Run())
}

// observer holds the three oracles of C10.
type observer struct {
	quiet  int
	feats  map[string]int
	shape  []string // per block with a membership change: "+a-r~c"
	forkAt int64
}

func newObserver(p sim.Params) *observer {
	return &observer{feats: map[string]int{}, forkAt: p.Frankenstein}
}

func classifyAcceptance(err error) string {
	s := err.Error()
	switch {
	case strings.Contains(s, "empty"):
		return "empty-set"
	case strings.Contains(s, "duplicate"):
		return "duplicate-key"
	case strings.Contains(s, "failed to find validator") || strings.Contains(s, "remove"):
		return "remove-non-member"
	case strings.Contains(s, "exceeds") || strings.Contains(s, "overflow") || strings.Contains(s, "max allowed"):
		return "total-power"
	case strings.Contains(s, "unsupported for consensus") || strings.Contains(s, "pubkey"):
		return "key-type"
	case strings.Contains(s, "negative"):
		return "negative-power"
	}
	return "other"
}

// electionInputs renders everything the election depends on (to detect blocks in which it cannot change).
func electionInputs(v *stk.View) string {
	var b strings.Builder
	for _, r := range v.SortedVals() {
		fmt.Fprintf(&b, "%s:%d:%s:%x;", r.Addr, r.Power, r.PubType, r.PubData)
	}
	var fr []string
	for a, f := range v.Frozen {
		if f.IsFrozen() {
			fr = append(fr, a)
		}
	}
	sort.Strings(fr)
	fmt.Fprintf(&b, "|%v|%s/%d", fr, v.Staking.Min, v.Staking.Top)
	return b.String()
}

// checkElection is oracle (b) for one candidate value of the staking options.
func checkElection(prev, cur *stk.View, opts stk.StakingOpts, h int64, updates []abci.ValidatorUpdate) *stk.Violation {
	el := stk.Eligible(prev, opts)
	elected := map[string]bool{}
	minPower := int64(-1)
	npos := 0
	for _, u := range updates {
		if u.Power <= 0 {
			continue
		}
		npos++
		// the records carrying this consensus key
		var named []*stk.ValRec
		for _, r := range prev.SortedVals() {
			if bytes.Equal(r.PubData, u.PubKey.Data) && r.PubType == u.PubKey.Type {
				named = append(named, r)
			}
		}
		key := hex.EncodeToString(u.PubKey.Data)
		if len(key) > 8 {
			key = key[:8]
		}
		if len(named) == 0 {
			return stk.Violate("election", "unknown-validator", "height %d: update %s:%d names no validator record of block %d", h, key, u.Power, h-1)
		}
		var hit *stk.ValRec
		why := ""
		for _, r := range named {
			inEl := false
			for _, e := range el {
				if e.Addr == r.Addr {
					inEl = true
				}
			}
			switch {
			case !inEl && prev.IsFrozen(r.Addr):
				why = fmt.Sprintf("validator %s is frozen in the records of block %d (%+v)", r.Addr, h-1, *prev.Frozen[r.Addr])
			case !inEl:
				why = fmt.Sprintf("validator %s has power %d below the minimum self delegation %s in the records of block %d", r.Addr, r.Power, opts.Min, h-1)
			case r.Power != u.Power:
				why = fmt.Sprintf("validator %s carries power %d but its record of block %d says %d", r.Addr, u.Power, h-1, r.Power)
			default:
				hit = r
			}
			if hit != nil {
				break
			}
		}
		if hit == nil {
			class := "not-eligible"
			if strings.Contains(why, "frozen") {
				class = "frozen-elected"
				if h <= prev.Evidence.BlockVotesDiff {
					// the application only consults the frozen records once the missed-votes window has passed
					class = "frozen-elected-before-window"
				}
			} else if strings.Contains(why, "carries power") {
				class = "wrong-power"
			}
			return stk.Violate("election", class, "height %d: positive update %s:%d: %s (options %s)", h, key, u.Power, why, opts)
		}
		elected[hit.Addr] = true
		if minPower < 0 || hit.Power < minPower {
			minPower = hit.Power
		}
	}
	if int64(npos) > opts.Top {
		return stk.Violate("election", "too-many", "height %d: %d positive updates but the top validator count is %d", h, npos, opts.Top)
	}
	if npos > 0 {
		flagged, maybe := stk.FlaggedAt(cur, h), stk.MaybeFlaggedAt(cur, h)
		for _, c := range el {
			if elected[c.Addr] || flagged[c.Addr] || maybe[c.Addr] {
				continue
			}
			if c.Power > minPower {
				return stk.Violate("election", "not-preferred", "height %d: eligible validator %s with stake %d was passed over while a validator with stake %d was elected (options %s)", h, c.Addr, c.Power, minPower, opts)
			}
		}
	}
	return nil
}

// checkConverged is oracle (c): the tendermint set equals the reference election exactly.
func checkConverged(cur *stk.View, set *tmtypes.ValidatorSet, which string, h int64) *stk.Violation {
	el := stk.Eligible(cur, cur.Staking)
	n := len(el)
	if int64(n) > cur.Staking.Top {
		n = int(cur.Staking.Top)
	}
	if n == 0 {
		return nil // an empty election cannot be installed; oracle (a) owns that case
	}
	elMap := map[string]*stk.ValRec{}
	for _, e := range el {
		elMap[e.Addr] = e
	}
	minPower := int64(-1)
	members := map[string]bool{}
	for _, m := range set.Validators {
		a := stk.Addr(m.Address.Bytes())
		e := elMap[a]
		if e == nil && cur.Vals[a] == nil {
			return stk.Violate("convergence", "member-without-record", "height %d: after 5 blocks without stake changes %s is in the %s validator set with voting power %d but has no validator record (locked stake %s)", h, a, which, m.VotingPower, cur.TotalOf(a))
		}
		if e == nil {
			return stk.Violate("convergence", "member-not-eligible", "height %d: after 5 blocks without stake changes %s is in the %s validator set but not eligible by the records", h, a, which)
		}
		if e.Power != m.VotingPower {
			return stk.Violate("convergence", "power", "height %d: after 5 blocks without stake changes %s has voting power %d in the %s set, its record says %d", h, a, m.VotingPower, which, e.Power)
		}
		members[a] = true
		if minPower < 0 || e.Power < minPower {
			minPower = e.Power
		}
	}
	if set.Size() != n {
		return stk.Violate("convergence", "size", "height %d: after 5 blocks without stake changes the %s validator set has %d members, the election from the records has %d (eligible %d, top count %d)", h, which, set.Size(), n, len(el), cur.Staking.Top)
	}
	for _, e := range el {
		if !members[e.Addr] && e.Power > minPower {
			return stk.Violate("convergence", "not-preferred", "height %d: after 5 blocks without stake changes eligible %s (stake %d) is outside the %s set while a member has stake %d", h, e.Addr, e.Power, which, minPower)
		}
	}
	return nil
}

func (o *observer) Block(c *stk.BlockCtx) *stk.Violation {
	for _, p := range c.Cur.Problems {
		return stk.Violate("harness", "decode", "height %d: state record not understood: %s", c.H, p)
	}
	// features: what this block's updates do to the set they apply to
	add, rem, chg := 0, 0, 0
	for _, u := range c.Res.Updates {
		a := stk.Addr(tmAddr(u))
		pw, in := stk.InSet(c.NextSet, a)
		switch {
		case u.Power == 0:
			rem++
		case !in:
			add++
		case pw != u.Power:
			chg++
		}
	}
	if add+rem > 0 {
		o.shape = append(o.shape, fmt.Sprintf("+%d-%d~%d", add, rem, chg))
		o.feats["membership-change"]++
	}
	if rem > 0 {
		o.feats["removal"]++
	}
	if add > 0 && c.H > 2 {
		o.feats["newly-elected"]++
	}
	if !c.Cur.Staking.Equal(c.Prev.Staking) {
		o.feats["options-changed"]++
		if c.H != o.forkAt {
			o.feats["options-changed-by-governance"]++
		}
	}
	// boundary: more eligible candidates than seats
	if el := stk.Eligible(c.Prev, c.EndOpts[0]); int64(len(el)) > c.EndOpts[0].Top {
		o.feats["more-candidates-than-seats"]++
		if len(el) > int(c.EndOpts[0].Top) && el[c.EndOpts[0].Top-1].Power == el[c.EndOpts[0].Top].Power {
			o.feats["tie-at-boundary"]++
		}
	}

	// (a) acceptance by tendermint's own rule
	if c.AdvErr != nil {
		return stk.Violate("acceptance", classifyAcceptance(c.AdvErr), "tendermint rejects the validator updates %s of block %d: %v (set they apply to: %d members)", sim.FmtUpdates(c.Res.Updates), c.H, c.AdvErr, c.NextSet.Size())
	}
	// (b) election from the previous block's records
	var first *stk.Violation
	ok := false
	for _, opts := range c.EndOpts {
		v := checkElection(c.Prev, c.Cur, opts, c.H, c.Res.Updates)
		if v == nil {
			ok = true
			break
		}
		if first == nil {
			first = v
		}
	}
	if !ok {
		return first
	}
	// (c) convergence
	if c.H >= 2 && c.H != o.forkAt && electionInputs(c.Cur) == electionInputs(c.Prev) && len(stk.FlaggedAt(c.Cur, c.H)) == 0 {
		o.quiet++
	} else {
		o.quiet = 0
	}
	if o.quiet >= 5 {
		o.feats["convergence-checked"]++
		if v := checkConverged(c.Cur, c.W.C.Next, "next", c.H); v != nil {
			return v
		}
		if v := checkConverged(c.Cur, c.W.C.Vals, "current", c.H); v != nil {
			return v
		}
	}
	return nil
}

func tmAddr(u abci.ValidatorUpdate) []byte {
	pk, err := tmtypes.PB2TM.PubKey(u.PubKey)
	if err != nil {
		return nil
	}
	return pk.Address().Bytes()
}

var modes = []string{"shared-staking", "shared-evidence", "focus-staking", "focus-staking", "focus-evidence", "focus-gov"}

var focusWeights = map[string]map[string]int{
	"focus-staking":  {"stake_new": 6, "stake_top": 6, "unstake": 8, "withdraw": 2, "stake_hostile_key": 1, "allegation": 1, "vote_wave": 2, "release": 1, "send": 1},
	"focus-evidence": {"stake_new": 2, "stake_top": 2, "unstake": 3, "allegation": 5, "vote": 3, "vote_wave": 5, "vote_hostile": 1, "release": 3, "send": 1},
	"focus-gov":      {"stake_new": 6, "stake_top": 4, "unstake": 5, "gov": 5, "allegation": 1, "vote_wave": 1, "release": 1, "stake_hostile_key": 1},
}

// drawer generates a history step by step.
type drawer struct {
	h      *run.H
	rt     *rapid.T
	mode   string
	nb     int // generated blocks before the quiet tail
	tail   int
	blocks int
	g      *hist.Gen
	f      *stk.Focus
	last   []txgen.Tx
	tags   map[string]int
}

func (d *drawer) draw(w *hist.World, v *stk.View, i int) (hist.Step, bool) {
	if d.blocks >= d.nb+d.tail {
		return hist.Step{}, false
	}
	d.blocks++
	if d.blocks > d.nb {
		// quiet tail: empty blocks, everybody signs
		spec := sim.BlockSpec{GapSecs: 5, ProposerIdx: d.blocks}
		return hist.BlockStep(spec, nil), true
	}
	var txs []txgen.Tx
	var spec sim.BlockSpec
	if strings.HasPrefix(d.mode, "shared-") {
		if d.g == nil {
			d.g = &hist.Gen{W: w, T: d.rt, Hostile: 4, Strange: 8, Kinds: hist.Profiles[strings.TrimPrefix(d.mode, "shared-")], Excl: d.h.Excluded, Seen: map[string]int{}, TagsN: map[string]int{}}
		}
		if len(w.Results) > 0 {
			w.Observe(d.last, w.Results[len(w.Results)-1])
		}
		txs = stk.FilterShared(w, v, d.g.DrawTxs(5), d.h.Excluded)
		spec = d.g.DrawEnv(txs)
		stk.ProtectAnchor(w, &spec, d.h.Excluded)
	} else {
		if d.f == nil {
			d.f = &stk.Focus{W: w, T: d.rt, Excl: d.h.Excluded, Wt: focusWeights[d.mode], Max: 4, Feat: map[string]int{}}
		}
		txs = d.f.DrawBlock(v)
		spec = d.f.DrawEnv(txs)
	}
	d.last = txs
	for _, tx := range txs {
		for _, tg := range tx.Tags {
			d.tags[tg]++
		}
	}
	return hist.BlockStep(spec, txs), true
}

func genParams(rt *rapid.T, h *run.H, mode string) sim.Params {
	switch mode {
	case "focus-gov":
		return stk.FocusParams(rt, fmt.Sprint(h.Seed), "gov", h.Excluded)
	case "focus-staking", "focus-evidence":
		return stk.FocusParams(rt, fmt.Sprint(h.Seed), "small", h.Excluded)
	}
	p := hist.GenParams(rt, fmt.Sprint(h.Seed))
	stk.ProtectParams(&p, h.Excluded)
	return p
}

func classesOf(o *observer, d *drawer) (string, []string) {
	var cl []string
	for _, k := range []string{"membership-change", "removal", "newly-elected", "options-changed", "options-changed-by-governance", "more-candidates-than-seats", "tie-at-boundary", "convergence-checked"} {
		if o.feats[k] > 0 {
			cl = append(cl, k)
		}
	}
	for _, k := range []string{"restake-after-purge", "stake-key-duplicate", "unstake-all", "stake-addr-shared", "wave"} {
		if d != nil && d.tags[k] > 0 {
			cl = append(cl, "gen:"+k)
		}
	}
	nt := ""
	if o.feats["membership-change"] > 0 {
		nt = strings.Join(o.shape, ",")
	}
	return nt, cl
}

func TestC10(t *testing.T) {
	h := run.Start(t, "C10")
	defer h.Finish()
	h.SetRule("generated genesis (1-8 validators + 2-4 further candidates, ties around the minimum self delegation and the top count, fork block at 1 / disabled / mid-history, main-net sized options for governance histories) x history of stake / unstake / withdraw / allegation / vote / release / config-update proposals / missed votes on one replica; every block: tendermint's own acceptance of the updates, election recomputed from the dump of the previous block, convergence after 5 unchanged blocks; non-trivial = at least one block whose updates add or remove a member of the validator set; distinct by the sequence of (added, removed, changed) counts")
	maxBlocks := h.Scale(30, 60)
	rapid.Check(t, func(rt *rapid.T) {
		u := hist.NewU(rt)
		mode := modes[u.N(len(modes), "mode")]
		p := genParams(rt, h, mode)
		tr := &hist.Trace{Params: p, Roles: hist.Roles(p, 1), Profile: mode}
		d := &drawer{h: h, rt: rt, mode: mode, nb: u.Range(6, maxBlocks, "nblocks"), tags: map[string]int{}}
		if u.N(10, "tail") < 7 {
			d.tail = 6
		}
		o := newObserver(p)
		viol := stk.Execute(h, tr, d.draw, []stk.Observer{o})
		if viol != nil && viol.Oracle == "harness" && viol.Class == "world" {
			rt.Skip(viol.Msg)
		}
		nt, classes := classesOf(o, d)
		classes = append(classes, "mode-"+mode)
		h.Eval(nt, classes, tr.Summary())
		if viol != nil {
			h.Fail(rt, viol.Oracle, viol.Sig("C10"), tr, "%s", viol.Msg)
		}
	})
}

func TestReplay(t *testing.T) {
	path := run.ReplayFile()
	if path == "" {
		t.Skip("no VERIF_REPLAY")
	}
	f, err := run.LoadFailure(path)
	if err != nil {
		t.Fatal(err)
	}
	var tr hist.Trace
	if err := json.Unmarshal(f.Case, &tr); err != nil {
		t.Fatal(err)
	}
	h := run.Start(t, "C10")
	defer h.Finish()
	o := newObserver(tr.Params)
	viol := stk.Execute(h, &tr, nil, []stk.Observer{o})
	if viol != nil {
		h.Fail(t, viol.Oracle, viol.Sig("C10"), &tr, "%s", viol.Msg)
	}
}
