// Package c19: allegations — verdicts follow the votes of distinct active validators, a guilty
// validator is frozen, penalised exactly, leaves the validator set and stays locked until released.
package c19

import (
	"encoding/json"
	"fmt"
	"math/big"
	"os"
	"sort"
	"strings"
	"testing"
	"time"

	"github.com/Oneledger/protocol/data/evidence"
	"pgregory.net/rapid"

	"verif/hist"
	"verif/run"
	"verif/sim"
	"verif/stk"
	"verif/txgen"
)

func TestMain(m *testing.M) {
	run.Quiet()
	os.Exit(m.Run())
}

// request is the reference tally of one open allegation.
type request struct {
	id       string
	reporter string
	accused  string
	opened   int64
	votes    map[string]int8
}

func (q *request) counts() (yes, no int) {
	for _, c := range q.votes {
		switch c {
		case stk.VoteYes:
			yes++
		case stk.VoteNo:
			no++
		}
	}
	return
}

// leaving tracks a guilty validator until it is out of the validator set.
type leaving struct {
	verdictH int64
	frozenH  int64
}

type monitor struct {
	open   map[string]*request
	leave  map[string]*leaving
	feats  map[string]int
	events []string
	e18    *big.Int
	benign map[string]bool
}

func newMonitor() *monitor {
	return &monitor{open: map[string]*request{}, leave: map[string]*leaving{}, feats: map[string]int{},
		e18:    new(big.Int).Exp(big.NewInt(10), big.NewInt(18), nil),
		benign: map[string]bool{"STAKE": true, "UNSTAKE": true, "WITHDRAW": true, "ALLEGATION": true, "ALLEGATION_VOTE": true, "RELEASE": true, "SEND": true, "WITHDRAW_REWARD": true}}
}

// possiblyActive: the address is an active validator by the application's election status of
// the previous block or by membership of any tendermint set in the pipeline at this block.
func possiblyActive(c *stk.BlockCtx, a string) bool {
	if s := c.Prev.Status[a]; s != nil && s.Active {
		return true
	}
	if _, in := stk.InSet(c.LastSet, a); in {
		return true
	}
	if _, in := stk.InSet(c.ValSet, a); in {
		return true
	}
	if _, in := stk.InSet(c.NextSet, a); in {
		return true
	}
	return false
}

// surelyFrozenGuilty: a frozen record of a guilty verdict stood during every transaction of the block.
func surelyFrozenGuilty(c *stk.BlockCtx, val string) bool {
	p, q := c.Prev.Frozen[val], c.Cur.Frozen[val]
	return p != nil && q != nil && p.IsFrozen() && q.IsFrozen() && p.Status == stk.StatusByzantine && q.Status == stk.StatusByzantine && p.FrozenHeight == q.FrozenHeight
}

func guiltyAt(c *stk.BlockCtx, val string) bool {
	q := c.Cur.Frozen[val]
	if q == nil || q.Status != stk.StatusByzantine || q.FrozenHeight != c.H || !q.IsFrozen() {
		return false
	}
	return true
}

// expected evaluates the documented rule in exact integers for one value of the active count.
func expected(o evidence.Options, active, yes, no int) string {
	if active <= 0 || o.ValidatorVoteDecimals <= 0 || o.AllegationDecimals <= 0 {
		return "none"
	}
	required := (int64(active)*o.ValidatorVotePercentage + o.ValidatorVoteDecimals - 1) / o.ValidatorVoteDecimals
	if required <= 0 {
		// yes/0 is +Inf (or NaN for 0/0, which compares false)
		switch {
		case yes > 0:
			return "guilty"
		case no > 0:
			return "innocent"
		}
		return "none"
	}
	switch {
	case int64(yes)*o.AllegationDecimals > o.AllegationPercentage*required:
		return "guilty"
	case int64(no)*o.AllegationDecimals > (o.AllegationDecimals-o.AllegationPercentage)*required:
		return "innocent"
	}
	return "none"
}

func penaltyOf(o evidence.Options, stake *big.Int) *big.Int {
	// round(stake * pct / decimals): +0.5 then truncation
	num := new(big.Int).Mul(stake, big.NewInt(2*o.PenaltyBasePercentage))
	num.Add(num, big.NewInt(o.PenaltyBaseDecimals))
	return num.Div(num, big.NewInt(2*o.PenaltyBaseDecimals))
}

func (m *monitor) Block(c *stk.BlockCtx) *stk.Violation {
	for _, p := range c.Cur.Problems {
		return stk.Violate("harness", "decode", "height %d: state record not understood: %s", c.H, p)
	}
	opts := c.Prev.Evidence
	benignBlock := true
	stakeDelta := map[string]*big.Int{}
	addDelta := func(v string, a *big.Int) {
		if stakeDelta[v] == nil {
			stakeDelta[v] = big.NewInt(0)
		}
		stakeDelta[v].Add(stakeDelta[v], a)
	}
	for _, t := range c.Txs {
		if t.Code == 0 && !m.benign[t.Kind] {
			benignBlock = false
		}
		if !t.OK() {
			if t.Code != 0 {
				switch t.Kind {
				case "RELEASE":
					if strings.Contains(t.Log, "could be released after") || strings.Contains(t.Log, "not ready") {
						m.feats["release-before-time-rejected"]++
					}
				case "STAKE", "UNSTAKE", "WITHDRAW":
					if strings.Contains(t.Log, "frozen") {
						m.feats["frozen-"+strings.ToLower(t.Kind)+"-rejected"]++
					}
				case "ALLEGATION_VOTE":
					if strings.Contains(t.Log, "already voted") {
						m.feats["duplicate-vote-rejected"]++
					}
					if strings.Contains(t.Log, "non active") {
						m.feats["inactive-voter-rejected"]++
					}
				case "ALLEGATION":
					if strings.Contains(t.Log, "non active") {
						m.feats["inactive-reporter-rejected"]++
					}
				}
			}
			continue
		}
		switch t.Kind {
		case "ALLEGATION":
			if !possiblyActive(c, t.Reporter) {
				return stk.Violate("outsider", "ALLEGATION", "height %d: ALLEGATION %s by %s succeeded although the reporter is not an active validator (election status of block %d: %+v, not in tendermint's sets)", c.H, t.ReqID, t.Reporter, c.H-1, c.Prev.Status[t.Reporter])
			}
			m.open[t.ReqID] = &request{id: t.ReqID, reporter: t.Reporter, accused: t.Accused, opened: c.H, votes: map[string]int8{}}
			m.feats["allegation-ok"]++
		case "ALLEGATION_VOTE":
			if !possiblyActive(c, t.Voter) {
				return stk.Violate("outsider", "ALLEGATION_VOTE", "height %d: ALLEGATION_VOTE on %s by %s succeeded although the voter is not an active validator (election status of block %d: %+v, not in tendermint's sets)", c.H, t.ReqID, t.Voter, c.H-1, c.Prev.Status[t.Voter])
			}
			q := m.open[t.ReqID]
			if q == nil {
				continue
			}
			if _, dup := q.votes[t.Voter]; dup {
				return stk.Violate("double-vote", "ALLEGATION_VOTE", "height %d: a second ALLEGATION_VOTE of %s on request %s succeeded (first choice %d, now %d)", c.H, t.Voter, t.ReqID, q.votes[t.Voter], t.Choice)
			}
			q.votes[t.Voter] = t.Choice
		case "STAKE", "UNSTAKE", "WITHDRAW":
			if surelyFrozenGuilty(c, t.Val) {
				return stk.Violate("frozen", t.Kind, "height %d: %s of %s on validator %s succeeded while it is frozen by a guilty verdict and not released (%+v)", c.H, t.Kind, t.Amount, t.Val, *c.Cur.Frozen[t.Val])
			}
			switch t.Kind {
			case "STAKE":
				addDelta(t.Val, t.Amount)
			case "UNSTAKE":
				addDelta(t.Val, new(big.Int).Neg(t.Amount))
			}
		case "RELEASE":
			if p := c.Prev.Frozen[t.Val]; p != nil && p.IsFrozen() && p.Status == stk.StatusByzantine && p.FrozenAt != nil {
				earliest := p.FrozenAt.Add(time.Duration(opts.ValidatorReleaseTime) * 24 * time.Hour)
				if c.Block.Time.Before(earliest) {
					return stk.Violate("release", "before-release-time", "height %d: RELEASE of %s succeeded at block time %s, frozen at %s with a release time of %d day(s): not before %s", c.H, t.Val, c.Block.Time.UTC(), p.FrozenAt.UTC(), opts.ValidatorReleaseTime, earliest.UTC())
				}
				m.feats["release-ok"]++
				if opts.ValidatorReleaseTime > 0 {
					m.feats["release-ok-after-days"]++
				}
			}
		}
	}

	// evidence records change only through accepted transactions
	for id, r := range c.Cur.Reqs {
		q := m.open[id]
		if q == nil {
			return stk.Violate("records", "request-without-accepted-allegation", "height %d: allegation request %s (reporter %s, accused %s) is in the evidence store but no ALLEGATION transaction for it was accepted", c.H, id, r.Reporter, r.Accused)
		}
		seen := map[string]bool{}
		for _, v := range r.Votes {
			if seen[v.Addr] {
				return stk.Violate("double-vote", "record", "height %d: request %s records two votes of %s", c.H, id, v.Addr)
			}
			seen[v.Addr] = true
			if ch, ok := q.votes[v.Addr]; !ok || ch != v.Choice {
				return stk.Violate("records", "vote-without-accepted-transaction", "height %d: request %s records vote %d of %s but no such ALLEGATION_VOTE was accepted (accepted: %v)", c.H, id, v.Choice, v.Addr, q.votes)
			}
		}
	}

	// verdicts: a guilty declaration is the frozen record of this height, an innocent one the
	// allegation_tracker event of the block end; a request that disappears without either was
	// dropped (the application removes a second request against the same accused), not decided
	declared := map[string]int8{}
	for _, ev := range c.Res.End.Events {
		if ev.Type != "allegation_tracker" {
			continue
		}
		acc, st := "", int8(0)
		for _, a := range ev.Attributes {
			switch string(a.Key) {
			case "block.malicious":
				acc = stk.Addr(a.Value)
			case "block.status":
				if len(a.Value) == 1 {
					st = int8(a.Value[0])
				}
			}
		}
		if acc != "" {
			declared[acc] = st
		}
	}
	cand := map[int]bool{c.ValSet.Size(): true}
	for _, so := range c.EndOpts {
		for _, n := range stk.ElectedCounts(c.Prev, c.Cur, so, c.H) {
			cand[n] = true
		}
	}
	// requests are decided per accused: the application keeps one request per accused (a second
	// one accepted in the same block is dropped at the block end), so the outcome observed for
	// an accused must follow the rule for one of the open requests against it
	groups := map[string][]*request{}
	for _, q := range m.open {
		groups[q.accused] = append(groups[q.accused], q)
	}
	var accs []string
	for a := range groups {
		accs = append(accs, a)
	}
	sort.Strings(accs)
	verdicts := 0
	penalties := big.NewInt(0)
	for _, acc := range accs {
		qs := groups[acc]
		sort.Slice(qs, func(i, j int) bool { return qs[i].id < qs[j].id })
		anyStill := false
		want := map[string]bool{}
		desc := ""
		for _, q := range qs {
			yes, no := q.counts()
			if _, still := c.Cur.Reqs[q.id]; still {
				anyStill = true
			}
			if c.H <= 1 {
				want["none"] = true
			} else {
				for n := range cand {
					want[expected(opts, n, yes, no)] = true
				}
			}
			desc += fmt.Sprintf(" %q: %d yes / %d no;", q.id, yes, no)
		}
		observed := "none"
		switch {
		case guiltyAt(c, acc) || declared[acc] == stk.ReqGuilty:
			observed = "guilty"
		case declared[acc] == stk.ReqInnocent:
			observed = "innocent"
		case !anyStill:
			observed = "dropped" // disappeared without a declaration: not a verdict, nothing to judge
			m.feats["request-dropped-without-verdict"]++
		}
		if observed != "dropped" && !want[observed] {
			var ws []string
			for w := range want {
				ws = append(ws, w)
			}
			sort.Strings(ws)
			var ns []int
			for n := range cand {
				ns = append(ns, n)
			}
			sort.Ints(ns)
			return stk.Violate("verdict", observed+"-expected-"+strings.Join(ws, "|"), "height %d: accused %s: observed outcome %s, but the votes of distinct active validators on the open requests (%s) with %v active validators (vote share %d/%d, allegation share %d/%d) give %s by the rule", c.H, acc, observed, desc, ns, opts.ValidatorVotePercentage, opts.ValidatorVoteDecimals, opts.AllegationPercentage, opts.AllegationDecimals, strings.Join(ws, "|"))
		}
		if observed == "guilty" || observed == "innocent" {
			verdicts++
			m.feats["verdict-"+observed]++
			yes, no := qs[0].counts()
			m.events = append(m.events, fmt.Sprintf("%d:%s:%d/%d", c.H, observed, yes, no))
		}
		if len(qs) > 1 {
			m.feats["two-requests-one-accused"]++
		}
		if observed == "guilty" {
			if c.Prev.Vals[acc] == nil {
				m.feats["guilty-without-validator-record"]++
			} else {
				before := new(big.Int).Set(c.Prev.TotalOf(acc))
				if d := stakeDelta[acc]; d != nil {
					before.Add(before, d)
				}
				pen := penaltyOf(opts, before)
				after := c.Cur.TotalOf(acc)
				if new(big.Int).Sub(before, pen).Cmp(after) != 0 {
					return stk.Violate("penalty", "amount", "height %d: guilty %s had stake %s; the penalty round(%s * %d/%d) = %s should leave %s, the delegation store says %s", c.H, acc, before, before, opts.PenaltyBasePercentage, opts.PenaltyBaseDecimals, pen, new(big.Int).Sub(before, pen), after)
				}
				penalties.Add(penalties, pen)
				if pen.Sign() > 0 {
					m.feats["penalty-applied"]++
				}
			}
			m.leave[acc] = &leaving{verdictH: c.H, frozenH: c.H}
		}
		for _, q := range qs {
			if _, still := c.Cur.Reqs[q.id]; !still {
				delete(m.open, q.id)
			}
		}
	}
	if verdicts >= 2 {
		m.feats["two-verdicts-one-block"]++
	}
	// bounty credit bounded by the penalties of this block
	if benignBlock {
		credit := new(big.Int).Sub(c.Cur.Bounty, c.Prev.Bounty)
		if credit.Cmp(new(big.Int).Mul(penalties, m.e18)) > 0 {
			return stk.Violate("penalty", "bounty-exceeds-penalty", "height %d: the bounty program was credited %s base units, the penalties of this block are %s OLT", c.H, credit, penalties)
		}
		if credit.Sign() > 0 {
			m.feats["bounty-credited"]++
		}
	}

	// a guilty validator leaves the validator set
	for a, l := range m.leave {
		f := c.Cur.Frozen[a]
		if f == nil || !f.IsFrozen() || f.FrozenHeight != l.frozenH {
			delete(m.leave, a) // released (or frozen anew): no longer required to be out
			continue
		}
		if p := c.Prev.Purged[a]; c.H == l.verdictH+1 && (p == 0 || c.H > p+2) {
			// (a validator purged in block P cannot be purged again before P+3: it is still listed
			// in the commit votes of P+1 and P+2 although it has left the next set)
			_, inLast := stk.InSet(c.LastSet, a)
			_, inNextBefore := stk.InSet(c.NextSet, a)
			_, inNext := stk.InSet(c.W.C.Next, a)
			if inLast && inNextBefore && inNext {
				return stk.Violate("leave-set", "no-removal", "height %d: %s was found guilty at height %d and signs blocks as a member of the validator set, but the updates of this block do not remove it", c.H, a, l.verdictH)
			}
		}
		if c.H >= l.verdictH+4 {
			_, inVals := stk.InSet(c.W.C.Vals, a)
			_, inNext := stk.InSet(c.W.C.Next, a)
			if inVals || inNext {
				return stk.Violate("leave-set", "still-member", "height %d: %s was found guilty at height %d, is still frozen, and is still in the validator set (current %v, next %v)", c.H, a, l.verdictH, inVals, inNext)
			}
			m.feats["left-validator-set"]++
			delete(m.leave, a)
		}
	}
	return nil
}

var modes = []string{"shared-evidence", "focus-evidence", "focus-evidence", "focus-evidence", "focus-accused-traffic"}

var focusWeights = map[string]map[string]int{
	"focus-evidence":        {"stake_new": 1, "stake_top": 1, "unstake": 1, "allegation": 7, "vote": 4, "vote_wave": 6, "vote_hostile": 3, "release": 4, "send": 1},
	"focus-accused-traffic": {"stake_new": 1, "stake_top": 5, "unstake": 5, "withdraw": 4, "allegation": 5, "vote": 2, "vote_wave": 6, "vote_hostile": 1, "release": 5},
}

type drawer struct {
	h      *run.H
	rt     *rapid.T
	mode   string
	nb     int
	blocks int
	g      *hist.Gen
	f      *stk.Focus
	last   []txgen.Tx
	tags   map[string]int
}

func (d *drawer) draw(w *hist.World, v *stk.View, i int) (hist.Step, bool) {
	if d.blocks >= d.nb {
		return hist.Step{}, false
	}
	d.blocks++
	var txs []txgen.Tx
	var spec sim.BlockSpec
	if strings.HasPrefix(d.mode, "shared-") {
		if d.g == nil {
			d.g = &hist.Gen{W: w, T: d.rt, Hostile: 4, Strange: 8, Kinds: hist.Profiles[strings.TrimPrefix(d.mode, "shared-")], Excl: d.h.Excluded, Seen: map[string]int{}, TagsN: map[string]int{}}
		}
		if len(w.Results) > 0 {
			w.Observe(d.last, w.Results[len(w.Results)-1])
		}
		txs = stk.FilterShared(w, v, d.g.DrawTxs(5), d.h.Excluded)
		spec = d.g.DrawEnv(txs)
		stk.ProtectAnchor(w, &spec, d.h.Excluded)
	} else {
		if d.f == nil {
			d.f = &stk.Focus{W: w, T: d.rt, Excl: d.h.Excluded, Wt: focusWeights[d.mode], Max: 4, Feat: map[string]int{}}
		}
		txs = d.f.DrawBlock(v)
		spec = d.f.DrawEnv(txs)
	}
	d.last = txs
	for _, tx := range txs {
		for _, tg := range tx.Tags {
			d.tags[tg]++
		}
	}
	return hist.BlockStep(spec, txs), true
}

func genParams(rt *rapid.T, h *run.H, mode string) sim.Params {
	if strings.HasPrefix(mode, "focus-") {
		p := stk.FocusParams(rt, fmt.Sprint(h.Seed), "small", h.Excluded)
		// allegations need a reporter, an accused and voters
		for len(p.ValPower) < 4 {
			p.ValPower = append(p.ValPower, p.ValPower[0]+int64(len(p.ValPower)))
		}
		if p.TopCount < 3 && hist.NewU(rt).N(4, "moretop") != 0 {
			p.TopCount += 3
		}
		return p
	}
	p := hist.GenParams(rt, fmt.Sprint(h.Seed))
	stk.ProtectParams(&p, h.Excluded)
	return p
}

func classesOf(m *monitor, d *drawer) (string, []string) {
	var cl []string
	keys := []string{"allegation-ok", "verdict-guilty", "verdict-innocent", "two-verdicts-one-block", "penalty-applied", "bounty-credited", "left-validator-set", "release-ok", "release-ok-after-days",
		"release-before-time-rejected", "frozen-stake-rejected", "frozen-unstake-rejected", "frozen-withdraw-rejected", "duplicate-vote-rejected", "inactive-voter-rejected", "inactive-reporter-rejected", "guilty-without-validator-record"}
	for _, k := range keys {
		if m.feats[k] > 0 {
			cl = append(cl, k)
		}
	}
	for _, k := range []string{"vote-duplicate", "voter-inactive", "voter-outsider", "signer-other", "enum-out", "request-id-reused", "vote-burst", "alleg-pair"} {
		if d != nil && d.tags[k] > 0 {
			cl = append(cl, "gen:"+k)
		}
	}
	nt := ""
	if m.feats["verdict-guilty"]+m.feats["verdict-innocent"] > 0 {
		nt = strings.Join(m.events, ",")
	}
	return nt, cl
}

func TestC19(t *testing.T) {
	h := run.Start(t, "C19")
	defer h.Finish()
	h.SetRule("generated genesis (3-8 validators, vote share 50/67/100 %, allegation share 34/50/66 %, penalty 10-33 %, release time 0-1 day, block gaps from seconds to more than a day) x history of allegation / vote / release from active validators, inactive candidates, frozen validators and outsiders, concurrent allegations, duplicate votes, staking traffic of the accused; reference tally per request from accepted transactions, verdicts / penalties / bounty / set membership observed in per-block dumps; non-trivial = at least one verdict (two verdicts in one block counted as a class); distinct by the sequence of verdicts (height, outcome, yes/no counts)")
	maxBlocks := h.Scale(32, 60)
	rapid.Check(t, func(rt *rapid.T) {
		u := hist.NewU(rt)
		mode := modes[u.N(len(modes), "mode")]
		p := genParams(rt, h, mode)
		tr := &hist.Trace{Params: p, Roles: hist.Roles(p, 1), Profile: mode}
		d := &drawer{h: h, rt: rt, mode: mode, nb: u.Range(8, maxBlocks, "nblocks"), tags: map[string]int{}}
		m := newMonitor()
		viol := stk.Execute(h, tr, d.draw, []stk.Observer{m})
		if viol != nil && viol.Oracle == "harness" && viol.Class == "world" {
			rt.Skip(viol.Msg)
		}
		nt, classes := classesOf(m, d)
		classes = append(classes, "mode-"+mode)
		h.Eval(nt, classes, tr.Summary())
		if viol != nil {
			h.Fail(rt, viol.Oracle, viol.Sig("C19"), tr, "%s", viol.Msg)
		}
	})
}

func TestReplay(t *testing.T) {
	path := run.ReplayFile()
	if path == "" {
		t.Skip("no VERIF_REPLAY")
	}
	f, err := run.LoadFailure(path)
	if err != nil {
		t.Fatal(err)
	}
	var tr hist.Trace
	if err := json.Unmarshal(f.Case, &tr); err != nil {
		t.Fatal(err)
	}
	h := run.Start(t, "C19")
	defer h.Finish()
	if viol := stk.Execute(h, &tr, nil, []stk.Observer{newMonitor()}); viol != nil {
		h.Fail(t, viol.Oracle, viol.Sig("C19"), &tr, "%s", viol.Msg)
	}
}
