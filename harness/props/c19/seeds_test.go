package c19

import (
	"encoding/json"
	"math/big"
	"os"
	"path/filepath"
	"testing"

	"github.com/Oneledger/protocol/action"

	"verif/hist"
	"verif/run"
	"verif/sim"
	"verif/txgen"
)

func olt(n int64) action.Amount { return txgen.Amt("OLT", big.NewInt(n)) }

// TestMakeSeeds writes a hand-built regression scenario as a replay file (VERIF_MAKE_SEEDS=<dir>):
// two allegations decided in one block (one guilty, one innocent), duplicate and outsider votes,
// staking on the frozen validator, release before and after the release time.
func TestMakeSeeds(t *testing.T) {
	dir := os.Getenv("VERIF_MAKE_SEEDS")
	if dir == "" {
		t.Skip("VERIF_MAKE_SEEDS not set")
	}
	_ = os.MkdirAll(dir, 0o755)
	p := sim.DefaultParams()
	p.Seed = "c19-regress"
	p.Frankenstein = 0
	p.MinSelfDeleg, p.TopCount, p.Maturity = 1000, 5, 2
	p.ValPower = []int64{1010, 1006, 1007, 1008, 1009}
	p.Evidence.BlockVotesDiff = 2
	p.Evidence.MinVotesRequired = 1
	p.Evidence.ValidatorReleaseTime = 1
	p.Evidence.PenaltyBasePercentage = 33
	p.Witnesses = nil
	g := sim.BuildGenesis(p)
	fee := txgen.DefaultFee()
	tr := &hist.Trace{Params: p, Roles: hist.Roles(p, 1), Profile: "hand:two-verdicts-release"}
	n := 0
	memo := func() string { n++; return "seed" + string(rune('a'+n)) }
	block := func(gap int64, txs ...txgen.Tx) {
		spec := sim.BlockSpec{GapSecs: gap}
		for _, x := range txs {
			spec.Txs = append(spec.Txs, x.Bytes)
		}
		tr.Steps = append(tr.Steps, hist.BlockStep(spec, txs))
	}
	v := g.U.Vals
	out := g.U.Users[0]
	vote := func(i int, id string, c int8) txgen.Tx {
		return txgen.AllegationVote(v[i].Key, id, v[i].Key.Addr, c, fee, memo())
	}
	block(5)
	block(5)
	block(5, txgen.Allegation(v[0].Key, "q1", v[0].Key.Addr, v[3].Key.Addr, 2, "p", fee, memo()),
		txgen.Allegation(v[0].Key, "q2", v[0].Key.Addr, v[4].Key.Addr, 2, "p", fee, memo()),
		txgen.Allegation(out, "q3", out.Addr, v[1].Key.Addr, 2, "p", fee, memo())) // an outsider alleges: refused
	block(5, vote(0, "q1", 1), vote(1, "q1", 1), vote(2, "q1", 1),
		vote(0, "q1", 2), vote(1, "q1", 2), vote(2, "q1", 2), // second votes: refused
		vote(0, "q2", 2), vote(1, "q2", 2), vote(2, "q2", 2),
		txgen.AllegationVote(out, "q2", out.Addr, 1, fee, memo()),      // an outsider votes: refused
		txgen.AllegationVote(out, "q2", v[3].Key.Addr, 1, fee, memo())) // an outsider signs for a validator: refused
	block(5, txgen.Stake(v[3], v[3].Stake.Addr, olt(1), fee, memo()), // frozen: refused
		txgen.Release(v[3].Key, v[3].Key.Addr, fee, memo())) // before the release time: refused
	block(90000, txgen.Release(v[3].Key, v[3].Key.Addr, fee, memo()))
	block(5, txgen.Stake(v[3], v[3].Stake.Addr, olt(1), fee, memo()))
	for i := 0; i < 4; i++ {
		block(5)
	}
	cb, _ := json.Marshal(tr)
	f := run.Failure{Property: "C19", Test: "TestReplay", Oracle: "seed", Message: "hand-built regression scenario", Sig: "C19/seed", Case: cb}
	b, _ := json.MarshalIndent(f, "", " ")
	if err := os.WriteFile(filepath.Join(dir, "seed-two-verdicts-release.json"), b, 0o644); err != nil {
		t.Fatal(err)
	}
}
