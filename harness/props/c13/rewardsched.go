// Package c13: block rewards stay within the pulled amount and the yearly schedule.
//
// rewardsched.go is an independent reference of the documented reward schedule. It never reads
// the application's own schedule records (rwcum_ydist / rwcum_tdist); it is fed with the block
// times the harness generated, the genesis reward options, and the amounts the monitor observed
// being credited (growth of validator reward records and delegator claims in the state dump).
//
// The rule, per calculation cycle of `Cycle` blocks (cycle c covers heights c*Cycle+1 .. (c+1)*Cycle):
//
//	reference time  tRef   = time of the cycle's first block (time of block 1 in the first cycle)
//	cycle duration  secs   = time(first block of this cycle) - time(first block of the previous cycle)
//	                         (the configured estimate in the first cycle)
//	reward years           = consecutive calendar years starting at the time of block 1
//	current year    y      = the first year whose close is at least `Window` seconds after tRef and
//	                         for which at least one more block is forecast
//	forecast        n      = floor((close_y - tRef) * Cycle / secs)            (blocks left in year y)
//	per-block amount       = floor((share_y - distributedTillLastCycle_y) / n)
//	after the schedule     = min(burnout rate, balance of the rewards pool before the block)
//
// "distributed till last cycle" of a year is what was credited in that year up to the end of the
// last completed cycle. A genesis that carries an exported reward state keeps the reward years of
// the exported chain (their closes are not laid out again from block 1) and states what each year
// had distributed, in total and till the last completed cycle, at the export (Import); cycles and
// their durations are counted from the new chain's block 1. The integer floor of the forecast equals the float expression
// int64(float64(a)/float64(b)) for a < 2^53 (DESIGN section 9).
package c13

import (
	"math/big"
	"time"
)

type Sched struct {
	Cycle, EstSecs, Window int64
	Shares                 []*big.Int
	Burnout                *big.Int

	times    map[int64]time.Time
	closes   []time.Time
	imported bool       // the reward years (closes, distributed amounts) were carried by the genesis
	dist     []*big.Int // per year: credited so far
	till     []*big.Int // per year: credited till the end of the last completed cycle

	// state of the current cycle
	cycleNo   int64 // 1-based; 0 = nothing computed yet
	Year      int   // -1 = schedule over
	Forecast  int64
	YearLeft  *big.Int
	Amount    *big.Int
	Over      bool
	ZeroSkips int // years skipped in this cycle because the forecast was 0 blocks

	// Ambiguous records that a cycle ended the schedule only because every remaining year had a
	// forecast of 0 blocks (a very slow previous cycle) although the last year was still open.
	// The schedule is re-evaluated at every cycle (the running application once kept such a
	// burn-out for ever in memory; fixed in bdc129b), so this is a statistic only.
	Ambiguous bool

	// statistics
	YearsUsed     map[int]bool
	CyclesSeen    int
	WindowSkipped bool // a cycle began inside a year's close window (0 < time to close < Window)
	// Exceeded: years in which more was credited in total than the year's share. The statement bounds
	// every block's pull by what was left when its cycle began, not the sum over a cycle, so this is
	// recorded, not judged (it happens when a cycle's forecast is shorter than the cycle).
	Exceeded map[int]bool
}

func NewSched(cycle, est, window int64, shares []*big.Int, burnout *big.Int) *Sched {
	s := &Sched{Cycle: cycle, EstSecs: est, Window: window, Shares: shares, Burnout: burnout,
		times: map[int64]time.Time{}, YearsUsed: map[int]bool{}, Exceeded: map[int]bool{}, Year: -1}
	for range shares {
		s.dist = append(s.dist, new(big.Int))
		s.till = append(s.till, new(big.Int))
	}
	return s
}

// Block registers the time of block h (heights must arrive in order, starting at 1).
func (s *Sched) Block(h int64, t time.Time) {
	s.times[h] = t.UTC()
	if h == 1 && !s.imported {
		start := t.UTC()
		for range s.Shares {
			c := start.AddDate(1, 0, 0).UTC()
			s.closes = append(s.closes, c)
			start = c
		}
	}
}

// Import starts the schedule from reward years carried by the genesis (an exported chain state):
// the years keep the closes of the exported chain instead of being laid out from the time of
// block 1, and each year starts with what the genesis states as distributed so far and as
// distributed till the end of the last completed cycle.
func (s *Sched) Import(closes []time.Time, dist, till []*big.Int) {
	s.imported = true
	s.closes = nil
	for i := range s.Shares {
		s.closes = append(s.closes, closes[i].UTC())
		s.dist[i] = new(big.Int).Set(dist[i])
		s.till[i] = new(big.Int).Set(till[i])
	}
}

func secsBetween(a, b time.Time) int64 { return int64(b.Sub(a) / time.Second) }

func (s *Sched) compute(h int64) {
	c := (h - 1) / s.Cycle
	s.cycleNo = c + 1
	s.CyclesSeen++
	first := c*s.Cycle + 1
	tRef := s.times[1]
	secs := s.EstSecs
	if c > 0 {
		tRef = s.times[first]
		secs = secsBetween(s.times[first-s.Cycle], tRef)
	}
	s.Year, s.Forecast, s.Over, s.ZeroSkips = -1, 0, false, 0
	s.YearLeft, s.Amount = new(big.Int), new(big.Int)
	for i := range s.Shares {
		toClose := secsBetween(tRef, s.closes[i])
		if toClose < s.Window {
			if toClose > 0 {
				s.WindowSkipped = true
			}
			continue
		}
		n := new(big.Int).Mul(big.NewInt(toClose), big.NewInt(s.Cycle))
		n.Div(n, big.NewInt(secs))
		if n.Sign() == 0 {
			s.ZeroSkips++
			continue
		}
		s.Year = i
		s.Forecast = n.Int64()
		break
	}
	if s.Year < 0 {
		s.Over = true
		if s.ZeroSkips > 0 {
			s.Ambiguous = true
		}
		return
	}
	s.YearsUsed[s.Year] = true
	left := new(big.Int).Sub(s.Shares[s.Year], s.till[s.Year])
	if left.Sign() < 0 {
		left = new(big.Int) // the year's supply is used up: nothing is left to pull
	}
	s.YearLeft = left
	s.Amount = new(big.Int).Div(left, big.NewInt(s.Forecast))
}

func minBig(a, b *big.Int) *big.Int {
	if a.Cmp(b) < 0 {
		return a
	}
	return b
}

// Pulled returns the reference amount pulled for block h and the bound the statement puts on
// it (what was left of the year when the cycle began, or min(burnout, pool) after the schedule).
// pool is the balance of the rewards pool before the block.
func (s *Sched) Pulled(h int64, pool *big.Int) (amount, bound *big.Int) {
	if (h-1)/s.Cycle+1 != s.cycleNo {
		s.compute(h)
	}
	burn := minBig(s.Burnout, pool)
	if burn.Sign() < 0 {
		burn = new(big.Int)
	}
	if s.Over {
		return new(big.Int).Set(burn), new(big.Int).Set(burn)
	}
	return new(big.Int).Set(s.Amount), new(big.Int).Set(s.YearLeft)
}

// Observe records what was credited in block h.
func (s *Sched) Observe(h int64, credited *big.Int) {
	if s.Over || s.Year < 0 {
		return
	}
	s.dist[s.Year].Add(s.dist[s.Year], credited)
	if s.dist[s.Year].Cmp(s.Shares[s.Year]) > 0 {
		s.Exceeded[s.Year] = true
	}
	if h%s.Cycle == 0 {
		s.till[s.Year] = new(big.Int).Set(s.dist[s.Year])
	}
}
