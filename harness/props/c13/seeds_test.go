package c13

import (
	"encoding/json"
	"math/big"
	"os"
	"path/filepath"
	"testing"

	"verif/hist"
	"verif/run"
	"verif/sim"
	"verif/txgen"
)

const year1 = 365 * day // 2020-09-13 .. 2021-09-13

func baseParams(seed string) sim.Params {
	p := sim.DefaultParams()
	p.Seed = seed
	p.RewardCycle = 2
	p.RewardEstSecs = 10
	p.RewardCloseWin = 30
	p.RewardYearShares = []string{"1000000000000000000000"}
	p.RewardBurnout = "50000000000000000"
	p.RewardInterval = 1
	p.RewardPoolFund = "1000000000000000000000000"
	p.Evidence.BlockVotesDiff = 1000
	return p
}

func blk(c *Case, gap int64, txs ...txgen.Tx) {
	spec := sim.BlockSpec{GapSecs: gap}
	for _, x := range txs {
		spec.Txs = append(spec.Txs, x.Bytes)
	}
	c.Steps = append(c.Steps, hist.BlockStep(spec, txs))
}

// TestMakeSeeds writes hand-built scenarios as replay files (run with VERIF_MAKE_SEEDS=<dir>).
func TestMakeSeeds(t *testing.T) {
	dir := os.Getenv("VERIF_MAKE_SEEDS")
	if dir == "" {
		t.Skip("VERIF_MAKE_SEEDS not set")
	}
	_ = os.MkdirAll(dir, 0o755)

	u := sim.BuildGenesis(baseParams("c13-regular")).U
	fee := txgen.DefaultFee()

	// 1. witness (known finding zero-forecast): block 3 opens cycle 2 1000 s before the year closes
	// after a cycle that lasted almost the whole year (forecast 0 blocks -> schedule treated as over);
	// cycle 3 is fast again; a twin restarted after block 4 resumes the yearly schedule, the
	// uninterrupted replica keeps paying the burnout rate.
	{
		c := &Case{Params: baseParams("c13-zero-forecast-restart"), Profile: "hand:zero-forecast-then-restart", RestartAt: 4}
		blk(c, 5)
		blk(c, 5)
		blk(c, year1-5-1000)
		blk(c, 1)
		for i := 0; i < 6; i++ {
			blk(c, 1)
		}
		write(t, dir, "fixed-zero-forecast-restart.json", c)
	}

	// 2. witness (known finding short forecast, minimal): one halt of 200 days in block 6; cycle 4
	// (blocks 7,8) begins 165 days before the close after a 200-day cycle: forecast 1 block for a
	// 2-block cycle, so the cycle pays the rest of the year twice; cycle 5 (blocks 9,10) begins in
	// the same year: block 9 gets no reward processing at all, block 10 pays the stale amount.
	{
		c := &Case{Params: baseParams("c13-short-forecast"), Profile: "hand:forecast-shorter-than-cycle"}
		for h := 1; h <= 5; h++ {
			blk(c, 5)
		}
		blk(c, 200*day)
		for h := 7; h <= 12; h++ {
			blk(c, 1)
		}
		write(t, dir, "fixed-short-forecast.json", c)
	}

	// 3. witness (same finding, devnet reward options verbatim): 149 blocks at 17 s, block 150 after a
	// halt of 350 days, then 17 s again. Cycle 3 (blocks 201..300) begins ~15 days before the close
	// after a 350-day cycle (forecast 4 blocks for a 100-block cycle); cycle 4 begins in the same year.
	{
		p := sim.DefaultParams()
		p.Seed = "c13-devnet-halt"
		p.Evidence.BlockVotesDiff = 1000
		c := &Case{Params: p, Profile: "hand:devnet-one-halt"}
		for h := 1; h <= 149; h++ {
			blk(c, 17)
		}
		blk(c, 350*day)
		for h := 151; h <= 310; h++ {
			blk(c, 17)
		}
		write(t, dir, "fixed-short-forecast-devnet-halt.json", c)
	}

	// 4. regression (must pass): cycles of 3 blocks, delegations, an absent signer, reward withdrawals
	// (whole, too much, by a stranger), a donation, a power change, a restart inside a cycle, the year
	// boundary and the end of a two-year schedule reached by 40-day blocks with a nearly empty pool.
	{
		p := baseParams("c13-regular")
		p.RewardCycle, p.RewardEstSecs, p.RewardCloseWin = 3, 15, 600
		p.RewardYearShares = []string{"70000000000000000000000000", "999999999999999999999"}
		p.RewardInterval = 2
		p.RewardPoolFund = "200000000000000000000"
		p.PreDelegations = []sim.PreDeleg{{User: 0, Amount: "390000000000000000000000"}, {User: 1, Amount: "821"}}
		c := &Case{Params: p, Profile: "hand:regular", RestartAt: 7}
		v := u.Vals
		one := func(n int64) *big.Int { return big.NewInt(n) }
		blk(c, 5)
		blk(c, 5, txgen.Delegate(u.Users[2], u.Users[2].Addr, txgen.Amt("OLT", new(big.Int).Mul(one(1000000), pow10(18))), fee, "d1"))
		c.Steps = append(c.Steps, hist.BlockStep(sim.BlockSpec{GapSecs: 5, Absent: []int{1}}, nil))
		blk(c, 5)
		blk(c, 5, txgen.Stake(v[1], v[1].Stake.Addr, txgen.Amt("OLT", one(500000)), fee, "s1"))
		blk(c, 5)
		blk(c, 5, txgen.WithdrawReward(v[0].Key.Addr, v[0].Stake.Addr, txgen.Amt("OLT", one(1)), fee, "w1", v[0].Stake),
			txgen.WithdrawReward(v[1].Key.Addr, v[1].Stake.Addr, txgen.Amt("OLT", one(1000000)), fee, "w2", v[1].Stake),
			txgen.WithdrawReward(v[2].Key.Addr, u.Users[5].Addr, txgen.Amt("OLT", one(1)), fee, "w3", u.Users[5]))
		blk(c, 5, txgen.SendPool(u.Users[4], u.Users[4].Addr, "RewardsPool", txgen.Amt("OLT", new(big.Int).Mul(one(50), pow10(18))), fee, "f1"))
		blk(c, 17)
		blk(c, 17, txgen.WithdrawReward(v[3].Key.Addr, v[3].Stake.Addr, txgen.Amt("OLT", one(2)), fee, "w4", v[3].Stake))
		for i := 0; i < 22; i++ {
			blk(c, 40*day)
		}
		write(t, dir, "seed-regular.json", c)
	}

	// 5. regression (must pass): a history that starts from an exported reward state. A first chain
	// (cycles of 10 blocks, reward interval 5) runs 33 blocks; validator 3 signs only up to height 8, so
	// all it earned sits in the first two chunks and matured long before the export; validator 0
	// withdraws 20 OLT at height 20. The reward state is exported with the node's own export and the
	// second chain starts from a genesis carrying it one hour later: validator 3 stays absent and
	// withdraws all it has at height 12, validator 1 withdraws at height 11 (after the two chunks that
	// were not matured at the export have matured), a twin restarts after height 7.
	{
		p := baseParams("c13-carried")
		p.RewardCycle, p.RewardEstSecs, p.RewardCloseWin = 10, 150, 600
		p.RewardYearShares = []string{"70000000000000000000000000", "40000000000000000000000000"}
		p.RewardInterval = 5
		v := sim.BuildGenesis(p).U.Vals
		first := &Case{Params: p, Profile: "hand:first-chain"}
		abs := -1
		var pre *sim.PreRewards
		var last int64
		h := run.Start(t, "C13")
		out, _ := execute(h, first, func(w *hist.World, m *monitor, i int) (hist.Step, bool) {
			if i >= 33 {
				return hist.Step{}, false
			}
			spec := sim.BlockSpec{GapSecs: 15}
			var txs []txgen.Tx
			if i+1 > 8 {
				abs, _ = w.C.Last.GetByAddress(v[3].Key.Addr.Bytes())
				spec.Absent = []int{abs}
			}
			if i+1 == 20 {
				txs = append(txs, txgen.WithdrawReward(v[0].Key.Addr, v[0].Stake.Addr, txgen.Amt("OLT", big.NewInt(20)), fee, "w0", v[0].Stake))
				spec.Txs = append(spec.Txs, txs[0].Bytes)
			}
			return hist.BlockStep(spec, txs), true
		}, func(w *hist.World, m *monitor) *outcome {
			st, err := w.Primary().ExportRewards()
			if err != nil {
				t.Fatal(err)
			}
			if pre, err = sim.PreRewardsFromState(st, w.G.U); err != nil {
				t.Fatal(err)
			}
			last = w.C.Time.Unix()
			return nil
		})
		if out != nil || pre == nil || abs < 0 {
			t.Fatalf("first chain of the carried-state seed: %+v", out)
		}
		p2 := p
		p2.PreRewards = pre
		p2.GenesisUnix = last + 3600
		c := &Case{Params: p2, Profile: "hand:carried-reward-state", RestartAt: 7}
		for hh := 1; hh <= 24; hh++ {
			spec := sim.BlockSpec{GapSecs: 15, Absent: []int{abs}}
			var txs []txgen.Tx
			switch hh {
			case 3:
				// what matured before the export can be withdrawn right away
				txs = append(txs, txgen.WithdrawReward(v[2].Key.Addr, v[2].Stake.Addr, txgen.Amt("OLT", big.NewInt(30)), fee, "c1", v[2].Stake))
			case 11:
				txs = append(txs, txgen.WithdrawReward(v[1].Key.Addr, v[1].Stake.Addr, txgen.Amt("OLT", big.NewInt(200)), fee, "c2", v[1].Stake))
			case 12:
				txs = append(txs, txgen.WithdrawReward(v[3].Key.Addr, v[3].Stake.Addr, txgen.Amt("OLT", big.NewInt(50)), fee, "c3", v[3].Stake),
					txgen.WithdrawReward(v[3].Key.Addr, v[3].Stake.Addr, txgen.Amt("OLT", big.NewInt(1000000)), fee, "c4", v[3].Stake))
			}
			for _, x := range txs {
				spec.Txs = append(spec.Txs, x.Bytes)
			}
			c.Steps = append(c.Steps, hist.BlockStep(spec, txs))
		}
		write(t, dir, "seed-carried-reward-state.json", c)
	}
}

// TestMakeSuspects writes the scenario that confirms / refutes the suspicions about WITHDRAW_REWARD
// (DESIGN C08/C13 R). None of them violates C13's statement; the replay prints what happened.
func TestMakeSuspects(t *testing.T) {
	dir := os.Getenv("VERIF_MAKE_SEEDS")
	if dir == "" {
		t.Skip("VERIF_MAKE_SEEDS not set")
	}
	_ = os.MkdirAll(dir, 0o755)
	p := baseParams("c13-withdraw-suspects")
	p.RewardYearShares = []string{"70000000000000000000000000"}
	p.RewardEstSecs = 10
	u := sim.BuildGenesis(p).U
	fee := txgen.DefaultFee()
	v := u.Vals
	c := &Case{Params: p, Profile: "hand:withdraw-suspects"}
	blk(c, 5)
	blk(c, 5)
	// validator 3 unstakes everything: its record is deleted two blocks later
	blk(c, 5, txgen.Unstake(v[3].Key.Addr, v[3].Stake.Addr, txgen.Amt("OLT", big.NewInt(p.ValPower[3])), fee, "u1", v[3].Stake, v[3].Key))
	for i := 0; i < 5; i++ {
		blk(c, 5)
	}
	// a stranger withdraws validator 3's matured rewards; validator 0 withdraws -3 and 2^64+2 OLT
	blk(c, 5, txgen.WithdrawReward(v[3].Key.Addr, u.Users[5].Addr, txgen.Amt("OLT", big.NewInt(2)), fee, "w1", u.Users[5]))
	blk(c, 5, txgen.WithdrawReward(v[0].Key.Addr, v[0].Stake.Addr, txgen.Amt("OLT", big.NewInt(-3)), fee, "w2", v[0].Stake))
	blk(c, 5, txgen.WithdrawReward(v[0].Key.Addr, v[0].Stake.Addr, txgen.Amt("OLT", new(big.Int).Add(new(big.Int).Lsh(big.NewInt(1), 64), big.NewInt(2))), fee, "w3", v[0].Stake))
	blk(c, 5)
	write(t, dir, "seed-withdraw-suspects.json", c)
}

func write(t *testing.T, dir, name string, c *Case) {
	cb, _ := json.Marshal(c)
	f := run.Failure{Property: "C13", Test: "TestReplay", Oracle: "seed", Message: "hand-built scenario", Sig: "C13/seed", Case: cb}
	b, _ := json.MarshalIndent(f, "", " ")
	if err := os.WriteFile(filepath.Join(dir, name), b, 0o644); err != nil {
		t.Fatal(err)
	}
}
