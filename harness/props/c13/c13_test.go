package c13

// The monitor runs after every commit of the primary replica and judges, from state-dump deltas
// only (never from the block_rewards event):
//
//	credited<=pulled   growth of validator reward records (rwz_*) + growth of delegator claims
//	                   (delegRwz_balance_* + delegRwz_pending_*, corrected for pay-outs and reinvestments
//	                   of the block) <= the reference amount pulled for the block;
//	pulled<=year-left  ... and <= what was left of the reward year when the cycle began, or
//	                   <= min(burnout rate, rewards pool) once the schedule is over;
//	withdrawn<=matured per validator rwcum_withdrawn <= the rewards that have matured for it under the
//	                   interval rule (credits are collected in numbered chunks of `interval` blocks; at every
//	                   height that is a multiple of the interval the chunk two below the current one matures,
//	                   once; on a chain started from a plain genesis credits of interval j mature at height
//	                   (j+2)*interval), and what it can still withdraw (rwcum_balance) does not exceed the rest.
//	                   A genesis that carries an exported reward state (sim.Params.PreRewards) continues the
//	                   numbering of the exported chain: its chunks up to two below the one being filled at the
//	                   export have matured, the last two mature at the first two maturity heights;
//	withdraw-accounting in a block with successful WITHDRAW_REWARD transactions the rewards pool is
//	                   debited by exactly what the signers are credited and what rwcum_withdrawn records;
//	restart-pull       a twin restarted from a crash image at a generated height writes the same reward
//	                   records as the uninterrupted replica at every later height.

import (
	"bytes"
	"crypto/sha256"
	"encoding/hex"
	"encoding/json"
	"fmt"
	"math/big"
	"os"
	"sort"
	"strings"
	"testing"
	"time"

	"pgregory.net/rapid"

	"github.com/Oneledger/protocol/action"

	"verif/dlgrw"
	"verif/hist"
	"verif/run"
	"verif/sim"
	"verif/txgen"
)

func TestMain(m *testing.M) {
	run.Quiet()
	os.Exit(m.Run())
}

// Case is the replay payload.
type Case struct {
	Params    sim.Params  `json:"params"`
	Profile   string      `json:"profile"`
	RestartAt int64       `json:"restart_at,omitempty"` // the twin starts from the crash image taken after this height's commit
	Steps     []hist.Step `json:"steps"`
}

type outcome struct {
	oracle string
	class  string
	msg    string
}

func (o *outcome) sig() string { return "C13/" + o.oracle + "/" + o.class }

// ---------------------------------------------------------------------------------------
// monitor

type monitor struct {
	s        *Sched
	interval int64
	prev     *dlgrw.View
	seenTx   map[[32]byte]bool
	recs     []sim.PreInterval             // chunk numbering records carried by the genesis (none: plain genesis)
	chunks   map[int64]map[string]*big.Int // chunk index -> validator -> credited, not matured yet
	firstNew int64                         // index of the first chunk this chain fills; chunks below came with the genesis
	carried  bool                          // the genesis carries a reward state
	// withdrawn before the genesis according to the genesis, and the withdrawn records of the first state
	// (equal when the import is faithful; both empty on a plain genesis)
	wdGenesis, cwInit map[string]*big.Int
	matured           map[string]*big.Int // validator -> matured so far (reference)
	names             map[string]string
	feats             map[string]int
	maxOver           *big.Int
}

// chunkIndex numbers the chunk that collects the credits of height h: the numbering record in force
// (the one with the greatest LastHeight <= h; {0, 0} when there is none) continues its LastIndex by
// one chunk per `interval` blocks.
func (m *monitor) chunkIndex(h int64) int64 {
	rec, max := sim.PreInterval{}, int64(0)
	for _, r := range m.recs {
		if r.LastHeight > max && r.LastHeight <= h {
			rec, max = r, r.LastHeight
		}
	}
	return rec.LastIndex + (h-rec.LastHeight)/m.interval + 1
}

func (m *monitor) credit(index int64, val string, amt *big.Int) {
	if m.chunks[index] == nil {
		m.chunks[index] = map[string]*big.Int{}
	}
	m.chunks[index][val] = new(big.Int).Add(get(m.chunks[index], val), amt)
}

// importRewards initialises the reference from the reward state the genesis carries.
func (m *monitor) importRewards(w *hist.World, pr *sim.PreRewards) {
	m.feats["genesis-carries-reward-state"] = 1
	m.carried = true
	m.recs = append(m.recs, pr.Intervals...)
	m.firstNew = m.chunkIndex(2) // rewards are first credited at height 2
	current := m.firstNew - 1    // the chunk that was being filled at the export
	nv := len(w.G.U.Vals)
	addr := func(i int) string { return w.G.U.Vals[((i%nv)+nv)%nv].Key.Addr.String() }
	first, last2 := map[string]*big.Int{}, map[string]*big.Int{}
	for _, c := range pr.Chunks {
		a, amt := addr(c.Val), mustBig(c.Amount)
		m.feats["imported-chunks"]++
		if c.Index <= current-2 {
			m.matured[a] = new(big.Int).Add(get(m.matured, a), amt)
		} else {
			m.credit(c.Index, a, amt)
			if amt.Sign() > 0 {
				m.feats["imported-chunks-not-matured"]++
			}
			last2[a] = new(big.Int).Add(get(last2, a), amt)
		}
		if c.Index == 1 {
			first[a] = amt
		}
	}
	for a, x := range first {
		// a validator that earned at the beginning of the exported chain and less than that in the two chunks before the export
		if x.Cmp(get(last2, a)) > 0 {
			m.feats["imported-first-chunk-exceeds-last-two"] = 1
		}
	}
	for _, b := range pr.Withdrawn {
		if mustBig(b.Amount).Sign() > 0 {
			m.feats["imported-withdrawn-amounts"] = 1
		}
		m.wdGenesis[addr(b.Val)] = new(big.Int).Add(get(m.wdGenesis, addr(b.Val)), mustBig(b.Amount))
	}
	// the application takes the year records over only when there is one per yearly share
	if len(pr.Years) == len(m.s.Shares) && len(pr.Years) > 0 {
		var closes []time.Time
		var dist, till []*big.Int
		for _, y := range pr.Years {
			closes = append(closes, y.Close)
			dist = append(dist, mustBig(y.Distributed))
			till = append(till, mustBig(y.TillLastCycle))
		}
		m.s.Import(closes, dist, till)
		m.feats["genesis-carries-reward-years"] = 1
	}
}

func mustBig(s string) *big.Int {
	v, ok := new(big.Int).SetString(s, 10)
	if !ok {
		panic("bad amount " + s)
	}
	return v
}

func newMonitor(w *hist.World) *monitor {
	p := w.P
	var shares []*big.Int
	for _, s := range p.RewardYearShares {
		shares = append(shares, mustBig(s))
	}
	m := &monitor{
		s:         NewSched(p.RewardCycle, p.RewardEstSecs, p.RewardCloseWin, shares, mustBig(p.RewardBurnout)),
		interval:  p.RewardInterval,
		seenTx:    map[[32]byte]bool{},
		chunks:    map[int64]map[string]*big.Int{},
		matured:   map[string]*big.Int{},
		wdGenesis: map[string]*big.Int{},
		names:     map[string]string{},
		feats:     map[string]int{},
	}
	for _, v := range w.G.U.Vals {
		m.names[v.Key.Addr.String()] = v.Name
		m.names[v.Stake.Addr.String()] = v.Name + "-stake"
	}
	for _, u := range w.G.U.Users {
		m.names[u.Addr.String()] = u.Name
	}
	if p.PreRewards != nil {
		m.importRewards(w, p.PreRewards)
	}
	m.prev = dlgrw.NewView(w.Primary().DumpMap())
	m.cwInit = m.prev.CumWithdrawn()
	return m
}

func (m *monitor) name(a string) string {
	if n := m.names[a]; n != "" {
		return n + "(" + a + ")"
	}
	return a
}

func get(mp map[string]*big.Int, k string) *big.Int {
	if v := mp[k]; v != nil {
		return v
	}
	return new(big.Int)
}

func sortedKeys(ms ...map[string]*big.Int) []string {
	seen := map[string]bool{}
	var out []string
	for _, mp := range ms {
		for k := range mp {
			if !seen[k] {
				seen[k] = true
				out = append(out, k)
			}
		}
	}
	sort.Strings(out)
	return out
}

func (m *monitor) block(b *sim.Block, res *sim.BlockRes, dump map[string][]byte) *outcome {
	h := b.Height
	v := dlgrw.NewView(dump)
	prev := m.prev

	// ---- what the block's successful transactions state
	eff := dlgrw.NewEffects()
	reinvested := new(big.Int)
	wdSigners := map[string]bool{}
	nWd := 0
	for i, raw := range b.Txs {
		if i >= len(res.Txs) {
			break
		}
		hsh := sha256.Sum256(raw)
		replayed := m.seenTx[hsh]
		m.seenTx[hsh] = true
		if res.Txs[i].Code != 0 || replayed {
			continue
		}
		d, known := dlgrw.Decode(raw)
		eff.Apply(d, known, res.Txs[i].GasUsed)
		if d == nil || !known {
			continue
		}
		m.feats["ok:"+d.Kind]++
		switch d.Type {
		case action.REWARDS_REINVEST_NETWORK_DELEGATE:
			reinvested.Add(reinvested, d.Amt)
		case action.WITHDRAW_REWARD:
			nWd++
			wdSigners[d.Addr] = true
			switch {
			case d.Amt.Sign() < 0:
				m.feats["ok:WITHDRAW_REWARD:amt-neg"]++
			case !d.Amt.IsInt64():
				m.feats["ok:WITHDRAW_REWARD:amt-beyond-int64"]++
			case d.Amt.Sign() > 0:
				m.feats["ok:WITHDRAW_REWARD:amt-pos"]++
			}
			if len(dump["v_"+string(mustAddrBytes(d.Val))]) == 0 {
				m.feats["ok:WITHDRAW_REWARD:validator-record-absent"]++
				if d.Amt.Sign() > 0 && d.Amt.IsInt64() && m.names[d.Addr] != m.names[d.Val]+"-stake" {
					// somebody who is not the validator's stake account took matured rewards of a validator whose record is gone
					m.feats["ok:WITHDRAW_REWARD:stranger-took-rewards-of-removed-validator"]++
				}
			}
		}
	}

	// ---- reference pull
	pool := prev.Bal(dlgrw.RewardPool)
	m.s.Block(h, b.Time)
	amount, bound := m.s.Pulled(h, pool)

	// ---- credited in this block (dump deltas)
	rwzPrev, rwzNew := prev.Rwz(), v.Rwz()
	credVals := new(big.Int)
	perVal := map[string]*big.Int{}
	for _, a := range sortedKeys(rwzPrev, rwzNew) {
		d := new(big.Int).Sub(get(rwzNew, a), get(rwzPrev, a))
		if d.Sign() > 0 {
			credVals.Add(credVals, d)
			perVal[a] = d
		}
	}
	claimsPrev := new(big.Int).Add(dlgrw.Sum(prev.RwBalance()), dlgrw.SumHA(prev.RwPending()))
	claimsNew := new(big.Int).Add(dlgrw.Sum(v.RwBalance()), dlgrw.SumHA(v.RwPending()))
	paidOut := new(big.Int)
	newPend := v.RwPending()
	for ha, x := range prev.RwPending() {
		if ha.H == h {
			y := newPend[ha]
			if y == nil {
				y = new(big.Int)
			}
			paidOut.Add(paidOut, new(big.Int).Sub(x, y))
		}
	}
	credDeleg := new(big.Int).Sub(claimsNew, claimsPrev)
	credDeleg.Add(credDeleg, paidOut)
	credDeleg.Add(credDeleg, reinvested)
	if len(v.Err) > 0 || len(prev.Err) > 0 {
		return &outcome{"decode", "record", fmt.Sprintf("h=%d: unreadable reward records: %v %v", h, prev.Err, v.Err)}
	}
	credited := new(big.Int).Add(credVals, credDeleg)

	where := fmt.Sprintf("h=%d cycle %d (blocks of %d), reference: year %d, forecast %d blocks, year left at cycle start %s, schedule over=%v ambiguous=%v, rewards pool %s",
		h, (h-1)/m.s.Cycle+1, m.s.Cycle, m.s.Year+1, m.s.Forecast, m.s.YearLeft, m.s.Over, m.s.Ambiguous, pool)
	if credited.Cmp(amount) > 0 {
		class := "in-schedule"
		switch {
		case m.s.Over:
			class = "after-schedule"
		case m.s.YearLeft.Sign() == 0:
			class = "year-supply-used-up"
		}
		return &outcome{"credited<=pulled", class, fmt.Sprintf("%s: credited to validators %s + delegator claims %s = %s exceeds the reference pull %s", where, credVals, credDeleg, credited, amount)}
	}
	if credited.Cmp(bound) > 0 || amount.Cmp(bound) > 0 {
		return &outcome{"pulled<=year-left", "bound", fmt.Sprintf("%s: credited %s / reference pull %s exceed the bound %s", where, credited, amount, bound)}
	}
	m.s.Observe(h, credited)
	if credited.Sign() > 0 {
		m.feats["blocks-with-rewards"]++
	}
	if m.s.Over {
		m.feats["blocks-after-schedule"]++
		if credited.Sign() > 0 {
			m.feats["burnout-paid"]++
		}
		if pool.Cmp(m.s.Burnout) < 0 {
			m.feats["burnout-capped-by-pool"]++
		}
	}
	if credDeleg.Sign() > 0 {
		m.feats["delegators-rewarded"]++
	}
	absent := 0
	for _, vt := range b.Votes {
		if !vt.SignedLastBlock {
			absent++
		}
	}
	if absent > 0 {
		m.feats["blocks-with-absent-signers"]++
		if credited.Sign() > 0 {
			m.feats["rewards-with-absent-signers"]++
		}
	}

	// ---- matured reference and withdrawals
	cur := m.chunkIndex(h)
	for a, d := range perVal {
		m.credit(cur, a, d)
	}
	if h%m.interval == 0 {
		for a, d := range m.chunks[cur-2] {
			m.matured[a] = new(big.Int).Add(get(m.matured, a), d)
			if m.carried && cur-2 < m.firstNew && d.Sign() > 0 {
				m.feats["imported-chunk-matured"]++
			}
		}
		delete(m.chunks, cur-2) // a chunk matures once
	}
	cb, cw := v.CumBalance(), v.CumWithdrawn()
	for _, a := range sortedKeys(cb, cw, m.wdGenesis) {
		mat := get(m.matured, a)
		// withdrawn in total = what the genesis states as withdrawn before + what this chain's record grew by since its first state
		wd := new(big.Int).Sub(get(cw, a), get(m.cwInit, a))
		wd.Add(wd, get(m.wdGenesis, a))
		before := ""
		if m.carried {
			before = fmt.Sprintf(" (%s of it before the genesis, by the genesis; withdrawn record at height 0: %s)", get(m.wdGenesis, a), get(m.cwInit, a))
		}
		if wd.Cmp(mat) > 0 {
			return &outcome{"withdrawn<=matured", "withdrawn", fmt.Sprintf("h=%d: validator %s has withdrawn %s in total%s but only %s has matured for it (interval %d)", h, m.name(a), wd, before, mat, m.interval)}
		}
		can := new(big.Int).Add(wd, get(cb, a))
		if can.Cmp(mat) > 0 {
			return &outcome{"withdrawn<=matured", "withdrawable", fmt.Sprintf("h=%d: validator %s has withdrawn %s%s and can still withdraw %s, together more than the %s that has matured for it (interval %d)", h, m.name(a), wd, before, get(cb, a), mat, m.interval)}
		}
		if get(cw, a).Sign() < 0 {
			m.feats["negative-withdrawn-record"]++
		}
	}
	dW := new(big.Int)
	cwPrev := prev.CumWithdrawn()
	for _, a := range sortedKeys(cw, cwPrev) {
		dW.Add(dW, new(big.Int).Sub(get(cw, a), get(cwPrev, a)))
	}
	if nWd > 0 {
		// pool debit net of what the block's other successful transactions state for the pool
		poolDelta := new(big.Int).Sub(v.Bal(dlgrw.RewardPool), pool)
		poolDelta.Sub(poolDelta, get(eff.Delta, dlgrw.RewardPool))
		debit := new(big.Int).Neg(poolDelta)
		credit := new(big.Int)
		judgeable := !eff.All
		var signers []string
		for a := range wdSigners {
			signers = append(signers, a)
		}
		sort.Strings(signers)
		for _, a := range signers {
			d := new(big.Int).Sub(v.Bal(a), prev.Bal(a))
			d.Sub(d, get(eff.Delta, a))
			credit.Add(credit, d)
			// an account that is also a delegator may be paid a matured undelegation / reward withdrawal in this block
			if get(prev.Active(), a).Sign() != 0 || get(v.Active(), a).Sign() != 0 {
				judgeable = false
			}
			for ha := range prev.Pending() {
				if ha.Addr == a {
					judgeable = false
				}
			}
			for ha := range prev.RwPending() {
				if ha.Addr == a {
					judgeable = false
				}
			}
		}
		if !judgeable {
			m.feats["withdraw-block-not-judged"]++
		} else {
			m.feats["withdraw-block-judged"]++
			if debit.Cmp(credit) != 0 {
				return &outcome{"withdraw-accounting", "debit!=credit", fmt.Sprintf("h=%d: %d successful WITHDRAW_REWARD: rewards pool debited by %s but the signers %v were credited %s", h, nWd, debit, signers, credit)}
			}
			if debit.Cmp(dW) != 0 {
				return &outcome{"withdraw-accounting", "debit!=recorded", fmt.Sprintf("h=%d: %d successful WITHDRAW_REWARD: rewards pool debited by %s but rwcum_withdrawn grew by %s", h, nWd, debit, dW)}
			}
		}
	}
	m.prev = v
	return nil
}

func mustAddrBytes(olt string) []byte {
	b, _ := hex.DecodeString(strings.TrimPrefix(olt, "0lt"))
	return b
}

// rewardRecords extracts the records the reward hooks write.
func rewardRecords(d map[string][]byte) map[string][]byte {
	out := map[string][]byte{}
	for k, v := range d {
		if strings.HasPrefix(k, "rwz_") || strings.HasPrefix(k, "rwcum_") || strings.HasPrefix(k, "delegRwz_") || strings.HasPrefix(k, "rwaddr_") || strings.HasPrefix(k, "ri_") {
			out[k] = v
		}
	}
	return out
}

// ---------------------------------------------------------------------------------------
// execution

// atEnd, when given, runs on the live world after the last block (the generator exports the reward state there).
func execute(h *run.H, c *Case, draw func(w *hist.World, m *monitor, i int) (hist.Step, bool), atEnd func(w *hist.World, m *monitor) *outcome) (*outcome, map[string]int) {
	w, err := hist.NewWorld(c.Params, []sim.Role{{ValIdx: 0, IsWitness: false}})
	if err != nil {
		return &outcome{"harness", "setup", "cannot build world: " + err.Error()}, map[string]int{}
	}
	defer w.Close()
	if _, err := w.Init(); err != nil {
		return &outcome{"harness", "setup", "InitChain: " + err.Error()}, map[string]int{}
	}
	if w.Primary().Panicked {
		return &outcome{"node-panic", "InitChain", "the application panicked in InitChain"}, map[string]int{}
	}
	m := newMonitor(w)
	twinFrom := int64(0)
	for i := 0; ; i++ {
		var st hist.Step
		if draw != nil {
			s, ok := draw(w, m, i)
			if !ok {
				break
			}
			st = s
			c.Steps = append(c.Steps, st)
			h.Journal(c)
		} else {
			if i >= len(c.Steps) {
				break
			}
			st = c.Steps[i]
		}
		if st.Kind != "block" || st.Spec == nil {
			continue
		}
		b, res := w.RunBlock(*st.Spec)
		for ri, r := range w.R {
			if r.Panicked || res[ri].Aborted {
				return &outcome{"node-panic", r.PanicCall, fmt.Sprintf("replica %d: the application panicked in %s at height %d (kinds %v) and shut itself down", ri, r.PanicCall, b.Height, st.Kinds)}, m.feats
			}
		}
		dump := w.Primary().DumpMap()
		if o := m.block(b, res[0], dump); o != nil {
			return o, m.feats
		}
		if len(w.R) > 1 {
			td := w.R[1].DumpMap()
			if diff := sim.DiffDumps(rewardRecords(dump), rewardRecords(td)); len(diff) > 0 {
				k := diff[0]
				class := "inside-cycle"
				if twinFrom%c.Params.RewardCycle == 0 {
					class = "at-cycle-boundary"
				}
				switch {
				case m.s.Ambiguous:
					// the schedule ended once on a forecast of 0 blocks while the last year was still open
					class = "after-zero-forecast"
				case !m.s.Over && m.s.YearLeft.Sign() == 0:
					class = "year-supply-used-up"
				}
				return &outcome{"restart-pull", class, fmt.Sprintf(
					"h=%d: the replica restarted after height %d (cycle length %d) wrote different reward records than the uninterrupted replica: %d keys differ, first %q: uninterrupted %s, restarted %s (reference: year %d, schedule over=%v ambiguous=%v, year left %s)",
					b.Height, twinFrom, c.Params.RewardCycle, len(diff), k, trunc(dump[k]), trunc(td[k]), m.s.Year+1, m.s.Over, m.s.Ambiguous, m.s.YearLeft)}, m.feats
			}
			if !bytes.Equal(res[0].AppHash, res[1].AppHash) {
				m.feats["twin-apphash-differs-outside-reward-records"]++
			}
			m.feats["twin-blocks-compared"]++
		}
		if c.RestartAt > 0 && b.Height == c.RestartAt && len(w.R) == 1 {
			dir, err := w.Primary().CrashImage("twin")
			if err != nil {
				return &outcome{"harness", "crash-image", err.Error()}, m.feats
			}
			idx, idb := w.Primary().CloneIndex()
			twin, err := sim.Reopen("twin", w.Primary(), w.C, dir, idx, idb)
			if err != nil {
				_ = os.RemoveAll(dir)
				return &outcome{"harness", "reopen", err.Error()}, m.feats
			}
			w.R = append(w.R, twin)
			info := twin.Info()
			if info.LastBlockHeight != b.Height || !bytes.Equal(info.LastBlockAppHash, res[0].AppHash) {
				return &outcome{"harness", "reopen-state", fmt.Sprintf("the restarted twin reports height %d hash %x, expected %d %x", info.LastBlockHeight, info.LastBlockAppHash, b.Height, res[0].AppHash)}, m.feats
			}
			twinFrom = b.Height
			if b.Height%c.Params.RewardCycle == 0 {
				m.feats["restart-at-cycle-boundary"]++
			} else {
				m.feats["restart-inside-cycle"]++
			}
			if m.s.Over {
				m.feats["restart-after-schedule"]++
			}
		}
	}
	if atEnd != nil {
		if o := atEnd(w, m); o != nil {
			return o, m.feats
		}
	}
	m.feats["blocks"] = int(w.C.Height)
	m.feats["cycles"] = m.s.CyclesSeen
	m.feats["years-used"] = len(m.s.YearsUsed)
	if m.s.WindowSkipped {
		m.feats["cycle-began-inside-close-window"] = 1
	}
	if m.s.Over {
		m.feats["end-of-schedule"] = 1
	}
	if m.s.Ambiguous {
		m.feats["zero-forecast-ambiguity"] = 1
	}
	if len(m.s.Exceeded) > 0 {
		m.feats["year-share-exceeded-in-total(not judged)"] = 1
	}
	if dlgrw.NewView(w.Primary().DumpMap()).Bal(dlgrw.DelegPool).Sign() > 0 || m.feats["delegators-rewarded"] > 0 {
		m.feats["delegation-pool-nonzero"] = 1
	}
	return nil, m.feats
}

func trunc(b []byte) string {
	s := string(b)
	if len(s) > 260 {
		s = s[:260] + "…"
	}
	if s == "" {
		s = "(absent)"
	}
	return s
}

// ---------------------------------------------------------------------------------------
// generation

func pow10(e int) *big.Int { return new(big.Int).Exp(big.NewInt(10), big.NewInt(int64(e)), nil) }

const day = 86400

var (
	gapsFast = []int64{1, 1, 2, 5, 5, 17, 17, 60}
	gapsSlow = []int64{day, 3 * day, 5 * day, 12 * day, 12 * day, 30 * day, 45 * day}
	gapsMid  = []int64{60, 600, 3600, 6 * 3600, day}
)

// scaledRewardOptions overrides the reward options so that cycle, close-window, year and
// end-of-schedule boundaries fall inside a 30-80 block history (with the matching tempo).
func scaledRewardOptions(u *hist.U, p *sim.Params) {
	p.RewardCycle = int64(u.Range(2, 6, "cycle"))
	p.RewardEstSecs = p.RewardCycle * dlgrw.Pick(u, []int64{1, 5, 17, 60, 3600, day, 10 * day}, "estper")
	p.RewardCloseWin = dlgrw.Pick(u, []int64{30, 120, 600, day, 10 * day, 30 * day}, "closewin")
	n := u.Range(1, 3, "nyears")
	p.RewardYearShares = nil
	for i := 0; i < n; i++ {
		p.RewardYearShares = append(p.RewardYearShares, dlgrw.Pick(u, []string{
			"70000000000000000000000000", "40000000000000000000000000", "1000000000000000000000",
			"999999999999999999999", "12345678901234567890123", "1000003", "7",
		}, "share"))
	}
	p.RewardBurnout = dlgrw.Pick(u, []string{"5000000000000000000", "50000000000000000", "1", "0", "3000000000000000000000"}, "burnout")
	p.RewardInterval = int64(u.Range(1, 5, "rewint"))
	p.RewardPoolFund = dlgrw.Pick(u, []string{"0", "7", "3000000000000000000", "1000000000000000000000000", "1000000000000000000000000"}, "poolfund")
}

func delegationShape(u *hist.U, p *sim.Params) string {
	p.PreDelegations = nil
	switch u.N(5, "delegshape") {
	case 0:
		return "none"
	case 1:
		p.PreDelegations = []sim.PreDeleg{{User: 0, Amount: "821"}, {User: 1, Amount: "1"}}
		return "tiny"
	case 2:
		p.PreDelegations = []sim.PreDeleg{{User: 0, Amount: new(big.Int).Mul(big.NewInt(int64(u.Range(1, 999, "dk"))), pow10(21)).String()}}
		return "small"
	case 3:
		// dominant: far above the validators' total stake
		p.PreDelegations = []sim.PreDeleg{{User: 0, Amount: new(big.Int).Mul(big.NewInt(int64(u.Range(1, 9, "dk"))), pow10(27)).String()},
			{User: 1, Amount: new(big.Int).Mul(big.NewInt(int64(u.Range(1, 999, "dk2"))), pow10(24)).String()},
			{User: 2, Amount: "3"}}
		return "dominant"
	default:
		return "in-history"
	}
}

// tempo draws the next block's time gap. Block 1 fixes the reward years; from then on the
// generator can aim at a boundary: a year close (+-), or the start of its close window (+-).
type tempo struct {
	kind   string
	closes []time.Time
	window int64
	cycle  int64
	est    int64
	avoid  func(hazard string) bool // known-finding exclusions: hazards the generator must not construct
}

// hazards names the schedule situations the next block would create if it came `gap` seconds
// after now (only the first block of a calculation cycle decides anything):
//
//	forecast-shorter-than-cycle  the cycle's forecast of blocks left in the year is below the cycle length
//	zero-forecast                a year that is still open (beyond its close window) gets a forecast of 0 blocks
func (tp *tempo) hazards(c *sim.Chain, gap int64) []string {
	h := c.Height + 1
	if h == 1 || (h-1)%tp.cycle != 0 || len(tp.closes) == 0 {
		return nil
	}
	tRef := c.Time.Add(time.Duration(gap) * time.Second)
	secs := secsBetween(c.Blocks[h-tp.cycle-1].Time, tRef)
	var out []string
	for _, cl := range tp.closes {
		toClose := secsBetween(tRef, cl)
		if toClose < tp.window {
			continue
		}
		n := new(big.Int).Mul(big.NewInt(toClose), big.NewInt(tp.cycle))
		n.Div(n, big.NewInt(secs))
		if n.Sign() == 0 {
			out = append(out, "zero-forecast")
			continue
		}
		if n.Cmp(big.NewInt(tp.cycle)) < 0 {
			out = append(out, "forecast-shorter-than-cycle")
		}
		break
	}
	return out
}

func (tp *tempo) draw(u *hist.U, now time.Time) int64 {
	aim := func() int64 {
		if len(tp.closes) == 0 {
			return 0
		}
		var cands []int64
		for _, c := range tp.closes {
			for _, off := range []int64{-tp.window, 0} {
				t := secsBetween(now, c) + off
				if t > 8 {
					cands = append(cands, t)
				}
			}
		}
		if len(cands) == 0 {
			return 0
		}
		t := cands[0]
		if len(cands) > 1 && u.N(4, "aimfar") == 0 {
			t = cands[u.N(len(cands), "aimwhich")]
		}
		return t + int64(u.Range(-4, 4, "aimoff"))
	}
	switch tp.kind {
	case "fast":
		return dlgrw.Pick(u, gapsFast, "gap")
	case "slow":
		return dlgrw.Pick(u, gapsSlow, "gap")
	case "mixed":
		switch u.N(10, "mix") {
		case 0:
			return dlgrw.Pick(u, gapsSlow, "gap")
		case 1, 2:
			return dlgrw.Pick(u, gapsMid, "gap")
		}
		return dlgrw.Pick(u, gapsFast, "gap")
	default: // aimed
		if u.N(6, "aim") == 0 {
			if g := aim(); g >= 1 {
				return g
			}
		}
		switch u.N(12, "mix") {
		case 0:
			return dlgrw.Pick(u, gapsSlow, "gap")
		case 1:
			return dlgrw.Pick(u, gapsMid, "gap")
		}
		return dlgrw.Pick(u, gapsFast, "gap")
	}
}

// gap draws the next gap; when the drawn one would construct an excluded hazard it is replaced
// by the nearest alternative that does not (1 s, past the start of the next close window, past
// the next year close). ok=false: no alternative exists, the history ends here.
func (tp *tempo) gap(u *hist.U, c *sim.Chain) (int64, bool) {
	g := tp.draw(u, c.Time)
	if g < 1 {
		g = 1
	}
	bad := func(g int64) bool {
		for _, hz := range tp.hazards(c, g) {
			if tp.avoid != nil && tp.avoid("REWARDS:"+hz) {
				return true
			}
		}
		return false
	}
	if !bad(g) {
		return g, true
	}
	cands := []int64{1}
	for _, cl := range tp.closes {
		if t := secsBetween(c.Time, cl); t-tp.window+1 >= 1 {
			cands = append(cands, t-tp.window+1)
		}
		if t := secsBetween(c.Time, cl); t+1 >= 1 {
			cands = append(cands, t+1)
		}
	}
	for _, x := range cands {
		if !bad(x) {
			return x, true
		}
	}
	return 0, false
}

// withdrawReward draws a WITHDRAW_REWARD: mostly the stake account of a validator that has a
// matured balance asks for whole OLT up to that balance; sometimes boundary / hostile amounts,
// a stranger as signer, a validator whose record no longer exists.
func withdrawReward(u *hist.U, h *run.H, w *hist.World, v *dlgrw.View) txgen.Tx {
	cb := v.CumBalance()
	var withBal []string
	for _, a := range sortedKeys(cb) {
		if cb[a].Cmp(dlgrw.E18) >= 0 {
			withBal = append(withBal, a)
		}
	}
	val := w.G.U.Vals[u.N(len(w.G.U.Vals), "wval")]
	if len(withBal) > 0 && u.N(8, "wanyval") != 0 {
		a := withBal[u.N(len(withBal), "wwhich")]
		for _, x := range w.G.U.Vals {
			if x.Key.Addr.String() == a {
				val = x
			}
		}
	}
	signer := val.Stake
	for _, r := range w.ValRecs() {
		if r.Address.Equal(val.Key.Addr) {
			if x := w.G.U.ByAddr(r.StakeAddress); x != nil {
				signer = x
			}
		}
	}
	tags := []string{}
	if u.N(10, "wstranger") == 0 {
		signer = w.G.U.Users[u.N(len(w.G.U.Users), "wsu")]
		tags = append(tags, "signer-other")
	}
	whole := new(big.Int).Div(get(cb, val.Key.Addr.String()), dlgrw.E18)
	amt := new(big.Int).Set(whole)
	switch u.N(16, "wamt") {
	case 0, 1, 2, 3, 4, 5:
		tags = append(tags, "amt-all")
	case 6, 7, 8:
		if whole.Sign() > 0 {
			amt = big.NewInt(int64(u.Range(1, int(minI64(whole, 1000000)), "wpart")))
		}
		tags = append(tags, "amt-ok")
	case 9:
		amt = big.NewInt(1)
		tags = append(tags, "amt-one")
	case 10:
		amt.Add(whole, big.NewInt(1))
		tags = append(tags, "amt-over")
	case 11:
		amt = big.NewInt(0)
		tags = append(tags, "amt-zero")
	case 12:
		amt = big.NewInt(-int64(u.Range(1, 50, "wneg")))
		tags = append(tags, "amt-neg")
		if h.Excluded("WITHDRAW_REWARD:amt-neg") {
			amt, tags = big.NewInt(1), []string{"amt-one"}
		}
	case 13:
		amt = new(big.Int).Add(new(big.Int).Lsh(big.NewInt(1), 64), big.NewInt(int64(u.Range(0, 40, "wk"))))
		tags = append(tags, "amt-2^64+k")
		if h.Excluded("WITHDRAW_REWARD:amt-beyond-int64") {
			amt, tags = big.NewInt(1), []string{"amt-one"}
		}
	case 14:
		amt = new(big.Int).Lsh(big.NewInt(1), 63)
		tags = append(tags, "amt-2^63")
		if h.Excluded("WITHDRAW_REWARD:amt-beyond-int64") {
			amt, tags = big.NewInt(1), []string{"amt-one"}
		}
	default:
		amt = new(big.Int).Lsh(big.NewInt(1), 256)
		tags = append(tags, "amt-2^256")
		if h.Excluded("WITHDRAW_REWARD:amt-beyond-int64") {
			amt, tags = big.NewInt(1), []string{"amt-one"}
		}
	}
	tx := txgen.WithdrawReward(val.Key.Addr, signer.Addr, txgen.Amt("OLT", amt), w.Fee, w.Memo(), signer)
	tx.Tags = tags
	return tx
}

func minI64(a *big.Int, b int64) int64 {
	if a.IsInt64() && a.Int64() < b {
		return a.Int64()
	}
	return b
}

// powerChange draws a STAKE / UNSTAKE by a validator's own stake account (changes its power
// two blocks later); "all" removes the validator (its record is deleted) when enough remain.
func powerChange(u *hist.U, w *hist.World) []txgen.Tx {
	recs := w.ValRecs()
	if len(recs) == 0 {
		return nil
	}
	r := recs[u.N(len(recs), "pcval")]
	vi := w.ValIdxByAddr(r.Address)
	if vi < 0 {
		return nil
	}
	v := w.G.U.Vals[vi]
	st := w.G.U.ByAddr(r.StakeAddress)
	if st == nil {
		st = v.Stake
	}
	locked := hist.ParseAmt(w.Get("st__e_" + v.Key.Addr.String() + "_" + st.Addr.String()))
	switch u.N(6, "pckind") {
	case 0, 1:
		k := dlgrw.Pick(u, []int64{1, 7, 1000, 500000, 2999999}, "pcstake")
		return []txgen.Tx{txgen.Stake(v, st.Addr, txgen.Amt("OLT", big.NewInt(k)), w.Fee, w.Memo(), st, v.Key)}
	case 2:
		if len(w.ActiveValIdx()) >= 3 && locked.Sign() > 0 {
			x := txgen.Unstake(v.Key.Addr, st.Addr, txgen.Amt("OLT", locked), w.Fee, w.Memo(), st, v.Key)
			x.Tags = []string{"unstake-all"}
			return []txgen.Tx{x}
		}
		fallthrough
	default:
		if locked.Sign() <= 0 {
			return nil
		}
		k := int64(u.Range(1, int(minI64(locked, 600000)), "pcun"))
		return []txgen.Tx{txgen.Unstake(v.Key.Addr, st.Addr, txgen.Amt("OLT", big.NewInt(k)), w.Fee, w.Memo(), st, v.Key)}
	}
}

func delegateOp(u *hist.U, w *hist.World) txgen.Tx {
	usr := w.G.U.Users[u.N(4, "deluser")]
	k := int64(u.Range(1, 999, "delk"))
	e := dlgrw.Pick(u, []int{0, 18, 21, 23}, "dele")
	return txgen.Delegate(usr, usr.Addr, txgen.Amt("OLT", new(big.Int).Mul(big.NewInt(k), pow10(e))), w.Fee, w.Memo())
}

func fundPool(u *hist.U, w *hist.World) txgen.Tx {
	usr := w.G.U.Users[(4+u.N(2, "funduser"))%len(w.G.U.Users)]
	amt := new(big.Int).Mul(big.NewInt(int64(u.Range(1, 999, "fundk"))), pow10(dlgrw.Pick(u, []int{0, 18, 20}, "funde")))
	return txgen.SendPool(usr, usr.Addr, "RewardsPool", txgen.Amt("OLT", amt), w.Fee, w.Memo())
}

// drawTxs draws the transactions of one block.
func drawTxs(u *hist.U, h *run.H, g *hist.Gen, w *hist.World, m *monitor, busyPct int) []txgen.Tx {
	if u.N(100, "busy") >= busyPct {
		return nil
	}
	var txs []txgen.Tx
	n := u.Range(1, 3, "nops")
	for i := 0; i < n; i++ {
		switch u.N(12, "op") {
		case 0, 1, 2, 3:
			txs = append(txs, withdrawReward(u, h, w, m.prev))
		case 4, 5:
			txs = append(txs, powerChange(u, w)...)
		case 6:
			txs = append(txs, delegateOp(u, w))
		case 7:
			txs = append(txs, fundPool(u, w))
		default:
			txs = append(txs, g.DrawTxs(2)...)
		}
	}
	return txs
}

func classify(f map[string]int, c *Case) (string, []string) {
	var classes []string
	for _, k := range []string{"end-of-schedule", "cycle-began-inside-close-window", "zero-forecast-ambiguity", "delegation-pool-nonzero", "delegators-rewarded",
		"blocks-with-absent-signers", "rewards-with-absent-signers", "burnout-paid", "burnout-capped-by-pool", "restart-inside-cycle", "restart-at-cycle-boundary", "restart-after-schedule",
		"withdraw-block-judged", "withdraw-block-not-judged", "ok:WITHDRAW_REWARD:amt-pos", "ok:WITHDRAW_REWARD:amt-neg", "ok:WITHDRAW_REWARD:amt-beyond-int64", "ok:WITHDRAW_REWARD:validator-record-absent", "ok:WITHDRAW_REWARD:stranger-took-rewards-of-removed-validator",
		"negative-withdrawn-record", "twin-apphash-differs-outside-reward-records", "hazard:forecast-shorter-than-cycle", "hazard:zero-forecast", "year-share-exceeded-in-total(not judged)", "ok:STAKE", "ok:UNSTAKE", "ok:ADD_NETWORK_DELEGATION",
		"genesis-carries-reward-state", "genesis-carries-reward-years", "imported-chunk-matured", "imported-first-chunk-exceeds-last-two", "imported-withdrawn-amounts"} {
		if f[k] > 0 {
			classes = append(classes, k)
		}
	}
	if f["cycles"] >= 2 {
		classes = append(classes, "crosses-cycle-boundary")
	}
	if f["years-used"] >= 2 {
		classes = append(classes, "crosses-year-boundary")
	}
	if f["genesis-carries-reward-state"] > 0 {
		n := f["imported-chunks"]
		switch {
		case n == 0:
			classes = append(classes, "imported-chunks:0")
		case n < 10:
			classes = append(classes, "imported-chunks:1-9")
		case n < 40:
			classes = append(classes, "imported-chunks:10-39")
		default:
			classes = append(classes, "imported-chunks:40+")
		}
		if f["ok:WITHDRAW_REWARD:amt-pos"] > 0 {
			classes = append(classes, "rewards-withdrawn-on-carried-state")
		}
	}
	classes = append(classes, "profile-"+c.Profile)
	nt := ""
	if f["cycles"] >= 2 && (f["rewards-with-absent-signers"] > 0 || f["delegators-rewarded"] > 0) {
		b, _ := json.Marshal(c.Steps)
		s := sha256.Sum256(b)
		nt = fmt.Sprintf("%x|%s|%d", s[:], c.Params.Seed, c.RestartAt)
	}
	return nt, classes
}

const rule = "generated genesis (1-7 validators with tied or distinct stakes, reward options, rewards pool funded / nearly empty / zero, delegation pool none / tiny / small / dominant) x block history with generated block times (gaps >= 1 s), proposers, absent signers, stake / unstake (power changes, validator removal), delegations, donations and reward withdrawals (whole, partial, boundary and hostile amounts, strangers as signers); about one history in four starts from a genesis that carries the reward state exported (the node's own export) at the end of a generated first history (itself judged), in which a validator may stop signing early; executed on one replica plus a twin restarted from a crash image at a generated height; non-trivial = the history crosses at least one calculation-cycle boundary and rewards were paid in a block with an absent signer or to a non-empty delegation pool; distinct by trace hash"

// fade makes one validator stop signing from a height on: it earned at the beginning of the
// history and is idle at its end (offline, as far as the two-thirds rule lets it be absent).
type fade struct {
	val  int   // universe index
	from int64 // first block whose last-commit it is missing from
}

type caseOpts struct {
	nb, busyPct int
	restartAt   int64
	fade        *fade
	atEnd       func(w *hist.World, m *monitor) *outcome
	classes     []string // extra class labels
}

// runCase generates and judges one history.
func runCase(rt *rapid.T, h *run.H, p sim.Params, profile string, tp *tempo, o caseOpts) {
	c := &Case{Params: p, Profile: profile, RestartAt: o.restartAt}
	u := hist.NewU(rt)
	var g *hist.Gen
	blocks := 0
	if pr := p.PreRewards; pr != nil && len(pr.Years) == len(p.RewardYearShares) {
		// the reward years of the exported chain go on
		for _, y := range pr.Years {
			tp.closes = append(tp.closes, y.Close.UTC())
		}
	}
	out, feats := execute(h, c, func(w *hist.World, m *monitor, i int) (hist.Step, bool) {
		if g == nil {
			g = &hist.Gen{W: w, T: rt, Hostile: 3, Strange: 5, Kinds: hist.Profiles["rewards"], Excl: h.Excluded, Seen: map[string]int{}, TagsN: map[string]int{}}
		}
		if blocks >= o.nb {
			return hist.Step{}, false
		}
		blocks++
		if len(tp.closes) == 0 && len(w.C.Blocks) > 0 {
			start := w.C.Blocks[0].Time.UTC()
			for range p.RewardYearShares {
				cl := start.AddDate(1, 0, 0).UTC()
				tp.closes = append(tp.closes, cl)
				start = cl
			}
		}
		gap, ok := tp.gap(u, w.C)
		if !ok {
			return hist.Step{}, false
		}
		for _, hz := range tp.hazards(w.C, gap) {
			m.feats["hazard:"+hz]++
		}
		txs := dlgrw.FilterTxs(h.Excluded, w, drawTxs(u, h, g, w, m, o.busyPct))
		spec := dlgrw.DrawEnv(u, []int64{1}, 3, txs)
		spec.GapSecs = gap
		if f := o.fade; f != nil && w.C.Height+1 >= f.from && w.C.Last != nil {
			if i, _ := w.C.Last.GetByAddress(w.G.U.Vals[f.val].Key.Addr.Bytes()); i >= 0 {
				spec.Absent = append([]int{i}, spec.Absent...)
			}
		}
		return hist.BlockStep(spec, txs), true
	}, o.atEnd)
	nt, classes := classify(feats, c)
	classes = append(classes, o.classes...)
	h.Eval(nt, classes, summary(c, feats))
	if out != nil {
		h.Fail(rt, out.oracle, out.sig(), c, "%s", out.msg)
	}
}

// exportedChain generates, runs and judges a first history from the plain genesis p and exports
// its reward state at the end with the node's own export (what "olfullnode save_state" writes).
// It returns the genesis description of a chain that starts from that export: same keys, options
// and validators, the exported reward state, the rewards pool as the first chain left it, and a
// genesis time after the first chain's last block. The description is complete: a replay of the
// second history does not re-run the first.
func exportedChain(rt *rapid.T, h *run.H, p sim.Params, profile string, tp *tempo, nb, busyPct int) sim.Params {
	u := hist.NewU(rt)
	var f *fade
	if nv := len(p.ValPower); nv >= 4 && u.N(3, "fade") != 0 {
		// keep the first chunk signed (heights < interval) and at least the last two chunks unsigned when the length allows
		lo := int(p.RewardInterval)
		hi := (nb/int(p.RewardInterval) - 1) * int(p.RewardInterval)
		if hi < lo {
			hi = lo
		}
		f = &fade{val: u.N(nv, "fadeval"), from: int64(u.Range(lo, hi, "fadefrom"))}
	}
	var pre *sim.PreRewards
	var pool *big.Int
	var last time.Time
	runCase(rt, h, p, profile, tp, caseOpts{nb: nb, busyPct: busyPct, fade: f, classes: []string{"reward-state-exported-at-end"},
		atEnd: func(w *hist.World, m *monitor) *outcome {
			st, err := w.Primary().ExportRewards()
			if err != nil {
				return &outcome{"harness", "export", err.Error()}
			}
			pre, err = sim.PreRewardsFromState(st, w.G.U)
			if err != nil {
				return &outcome{"harness", "export", err.Error()}
			}
			pool = m.prev.Bal(dlgrw.RewardPool)
			last = w.C.Time
			return nil
		}})
	if pre == nil {
		rt.Fatalf("the first chain ended without an export")
	}
	p2 := p
	p2.PreRewards = pre
	p2.RewardPoolFund = pool.String()
	p2.GenesisUnix = last.Unix() + dlgrw.Pick(u, []int64{1, 17, 3600, day, 40 * day}, "exportgap")
	return p2
}

// TestC13 uses reward options scaled so that every boundary falls inside 30-80 blocks.
func TestC13(t *testing.T) {
	h := run.Start(t, "C13")
	defer h.Finish()
	h.SetRule(rule)
	maxBlocks := h.Scale(70, 110)
	rapid.Check(t, func(rt *rapid.T) {
		p := hist.GenParams(rt, fmt.Sprint(h.Seed))
		u := hist.NewU(rt)
		scaledRewardOptions(u, &p)
		shape := delegationShape(u, &p)
		kind := dlgrw.Pick(u, []string{"fast", "slow", "slow", "mixed", "aimed", "aimed", "aimed"}, "tempo")
		newTempo := func() *tempo {
			return &tempo{kind: kind, window: p.RewardCloseWin, cycle: p.RewardCycle, est: p.RewardEstSecs, avoid: h.Excluded}
		}
		nb := u.Range(12, maxBlocks, "nblocks")
		restartAt := int64(0)
		if u.N(5, "norestart") != 0 {
			restartAt = int64(u.Range(1, nb-1, "restart"))
		}
		profile := "scaled-" + kind + "-deleg-" + shape
		if u.N(4, "carried") == 0 {
			// the history starts from the exported reward state of a first chain
			nb1 := u.Range(int(3*p.RewardInterval)+2, int(3*p.RewardInterval)+22, "nblocks1")
			p = exportedChain(rt, h, p, profile+"-exported", newTempo(), nb1, 60)
			profile += "-carried"
		}
		runCase(rt, h, p, profile, newTempo(), caseOpts{nb: nb, busyPct: 60, restartAt: restartAt})
	})
}

// TestC13Devnet uses the devnet reward options verbatim (cycle of 100 blocks, 1728 s estimate,
// one-day close window, five yearly shares) with 250-400 mostly empty blocks.
func TestC13Devnet(t *testing.T) {
	h := run.Start(t, "C13")
	defer h.Finish()
	h.SetRule(rule)
	rapid.Check(t, func(rt *rapid.T) {
		p := hist.GenParams(rt, fmt.Sprint(h.Seed))
		u := hist.NewU(rt)
		d := sim.DefaultParams()
		p.RewardCycle, p.RewardEstSecs, p.RewardCloseWin = d.RewardCycle, d.RewardEstSecs, d.RewardCloseWin
		p.RewardYearShares, p.RewardBurnout = d.RewardYearShares, d.RewardBurnout
		p.RewardInterval = dlgrw.Pick(u, []int64{3, 3, 5, 150}, "rewint")
		p.RewardPoolFund = dlgrw.Pick(u, []string{"0", "7", "1000000000000000000000000"}, "poolfund")
		shape := delegationShape(u, &p)
		kind := dlgrw.Pick(u, []string{"fast", "fast", "mixed", "aimed"}, "tempo")
		newTempo := func() *tempo {
			return &tempo{kind: kind, window: p.RewardCloseWin, cycle: p.RewardCycle, est: p.RewardEstSecs, avoid: h.Excluded}
		}
		nb := u.Range(250, h.Scale(400, 600), "nblocks")
		restartAt := int64(0)
		if u.N(6, "norestart") != 0 {
			restartAt = int64(u.Range(1, nb-1, "restart"))
		}
		profile := "devnet-" + kind + "-deleg-" + shape
		if u.N(4, "carried") == 0 && p.RewardInterval <= 5 {
			nb1 := u.Range(20, 110, "nblocks1")
			p = exportedChain(rt, h, p, profile+"-exported", newTempo(), nb1, 8)
			profile += "-carried"
		}
		runCase(rt, h, p, profile, newTempo(), caseOpts{nb: nb, busyPct: 8, restartAt: restartAt})
	})
}

func summary(c *Case, f map[string]int) map[string]interface{} {
	tr := hist.Trace{Params: c.Params, Profile: c.Profile, Steps: c.Steps}
	s := tr.Summary()
	s["reward_options"] = map[string]interface{}{"cycle": c.Params.RewardCycle, "est_secs": c.Params.RewardEstSecs, "close_window": c.Params.RewardCloseWin,
		"year_shares": c.Params.RewardYearShares, "burnout": c.Params.RewardBurnout, "interval": c.Params.RewardInterval, "pool_fund": c.Params.RewardPoolFund}
	s["restart_at"] = c.RestartAt
	if pr := c.Params.PreRewards; pr != nil {
		s["genesis_reward_state"] = map[string]interface{}{"intervals": pr.Intervals, "chunks": len(pr.Chunks), "validators": len(pr.AddrList),
			"total_distributed": pr.TotalDistributed, "chunks_matured_in_history": f["imported-chunk-matured"]}
	}
	s["blocks"] = f["blocks"]
	s["cycles"] = f["cycles"]
	s["years_used"] = f["years-used"]
	s["end_of_schedule"] = f["end-of-schedule"] > 0
	return s
}

func TestReplay(t *testing.T) {
	path := run.ReplayFile()
	if path == "" {
		t.Skip("no VERIF_REPLAY")
	}
	f, err := run.LoadFailure(path)
	if err != nil {
		t.Fatal(err)
	}
	var c Case
	if err := json.Unmarshal(f.Case, &c); err != nil {
		t.Fatal(err)
	}
	h := run.Start(t, "C13")
	defer h.Finish()
	out, feats := execute(h, &c, nil, nil)
	t.Logf("features: %v", feats)
	if out != nil {
		h.Fail(t, out.oracle, out.sig(), &c, "%s", out.msg)
	}
}
