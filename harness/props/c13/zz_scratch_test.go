package c13

import (
	"fmt"
	"math/big"
	"os"
	"testing"

	"verif/dlgrw"
	"verif/hist"
	"verif/run"
	"verif/sim"
)

// scratch: plain chain A (33 blocks, interval 5) -> export -> chain B (8 blocks) -> export -> chain C (16 blocks)
func TestScratchDoubleExport(t *testing.T) {
	if os.Getenv("VERIF_SCRATCH_TEST") == "" {
		t.Skip()
	}
	p := baseParams("c13-double")
	p.RewardCycle, p.RewardEstSecs, p.RewardCloseWin = 10, 150, 600
	p.RewardYearShares = []string{"70000000000000000000000000", "40000000000000000000000000"}
	p.RewardInterval = 5
	h := run.Start(t, "C13")
	runChain := func(p sim.Params, n int) (sim.Params, map[string][]byte) {
		c := &Case{Params: p, Profile: "scratch"}
		var pre *sim.PreRewards
		var last int64
		var dump map[string][]byte
		out, feats := execute(h, c, func(w *hist.World, m *monitor, i int) (hist.Step, bool) {
			if i >= n {
				return hist.Step{}, false
			}
			return hist.BlockStep(sim.BlockSpec{GapSecs: 15}, nil), true
		}, func(w *hist.World, m *monitor) *outcome {
			st, err := w.Primary().ExportRewards()
			if err != nil {
				t.Fatal(err)
			}
			pre, _ = sim.PreRewardsFromState(st, w.G.U)
			last = w.C.Time.Unix()
			dump = w.Primary().DumpMap()
			return nil
		})
		fmt.Fprintf(os.Stderr, "chain of %d blocks: outcome %+v feats %v\n", n, out, feats)
		p2 := p
		p2.PreRewards = pre
		p2.GenesisUnix = last + 3600
		return p2, dump
	}
	pB, _ := runChain(p, 33)
	fmt.Fprintf(os.Stderr, "export A: %+v\n", pB.PreRewards.Intervals)
	pC, _ := runChain(pB, 8)
	fmt.Fprintf(os.Stderr, "export B: %+v\n", pC.PreRewards.Intervals)
	_, dump := runChain(pC, 16)
	v := dlgrw.NewView(dump)
	a := sim.BuildGenesis(p).U.Vals[0].Key.Addr.String()
	fmt.Fprintf(os.Stderr, "val0 matured balance %s withdrawn %s\n", v.CumBalance()[a], v.CumWithdrawn()[a])
	sum := new(big.Int)
	for i := int64(1); i <= 14; i++ {
		x := v.Amt(fmt.Sprintf("rwz_%s_%d", a, i))
		fmt.Fprintf(os.Stderr, "  chunk %d = %s\n", i, x)
		if i <= 10 {
			sum.Add(sum, x)
		}
	}
	fmt.Fprintf(os.Stderr, "sum of chunks 1..10 = %s\n", sum)
}
