// Package c06: failed transactions are atomic no-ops — removing every transaction that returned
// a non-zero code from a block yields the same application hash, validator updates and results
// for the remaining transactions (twin replica fed the filtered blocks).
package c06

import (
	"crypto/sha256"
	"encoding/json"
	"fmt"
	"math/big"
	"os"
	"sort"
	"strings"
	"testing"
	"time"

	ethcmn "github.com/ethereum/go-ethereum/common"
	ethtypes "github.com/ethereum/go-ethereum/core/types"
	abci "github.com/tendermint/tendermint/abci/types"
	tmtypes "github.com/tendermint/tendermint/types"
	"pgregory.net/rapid"

	"github.com/Oneledger/protocol/action"
	aolvm "github.com/Oneledger/protocol/action/olvm"
	"github.com/Oneledger/protocol/serialize"

	"verif/hist"
	"verif/run"
	"verif/sim"
	"verif/txgen"
)

func TestMain(m *testing.M) {
	run.Quiet()
	os.Exit(m.Run())
}

func debugf(format string, a ...interface{}) {
	if os.Getenv("VERIF_DEBUG") != "" {
		fmt.Fprintf(run.Quiet(), format, a...)
	}
}

type outcome struct {
	oracle string
	class  string
	msg    string
}

// ---- classification of a failed DeliverTx from its response ---------------------------------
//
// txDeliverer runs Validate, then ProcessDeliver, then ALWAYS ProcessFee (also when the handler
// failed), and commits the session only when both succeeded. The response log is
// marshalLog(handler log) + ", fee response log: " + fee log when the fee step failed.
//
//   validate            rejected before the session received a write (GasUsed = 0, no fee step ran)
//   handler+fee-charged the handler failed, the fee step then succeeded: it debited the payer and
//                       credited the fee pool inside the session that is discarded     (non-trivial)
//   fee-gas-overflow    the handler succeeded (its writes are in the session), the fee step found
//                       used gas > Fee.Gas                                             (non-trivial)
//   fee-unpayable       the handler succeeded, the fee could not be debited            (non-trivial)
//   handler+fee-failed  both failed (the handler may have written before failing: not counted)
//   vm-precheck         OLVM: passed Validate, then a consensus pre-check of the state transition failed
//                       (e.g. intrinsic gas with the payload's access list) after buyGas debited the
//                       sender object; Apply finalises that object into the session               (counted apart)
func classifyFailure(kind string, r sim.TxRes) (class string, wrote bool) {
	if r.Code == 0 {
		return "", false
	}
	feeIdx := strings.Index(r.Log, ", fee response log: ")
	var e struct {
		Code int    `json:"code"`
		Msg  string `json:"msg"`
	}
	_ = json.Unmarshal([]byte(r.Log), &e)
	if kind == "OLVM" && r.GasUsed == 0 && r.GasWanted > 0 {
		// passed Validate, rejected by the VM's consensus pre-checks (buyGas may already have debited the sender object)
		return "vm-precheck", false
	}
	if feeIdx < 0 {
		if r.GasUsed > 0 {
			return "handler+fee-charged", true
		}
		return "validate", false
	}
	handlerOK := e.Code == 0 && strings.HasPrefix(e.Msg, ", fee response log: ")
	feeLog := r.Log[feeIdx:]
	switch {
	case handlerOK && strings.Contains(feeLog, "gas used exceed limit"):
		return "fee-gas-overflow", true
	case handlerOK && kind != "OLVM":
		return "fee-unpayable", true
	case handlerOK:
		return "vm-fee-failed", false
	}
	return "handler+fee-failed", false
}

// olvmShape names what an OLVM transaction did: VM errors (revert, out of gas, ...) are reported
// with code 0 by the handler (the nonce moves, gas is charged), consensus pre-check failures with a non-zero code.
func olvmShape(r sim.TxRes, d abci.ResponseDeliverTx) string {
	if r.Code != 0 {
		for _, m := range []string{"nonce too low", "insufficient funds", "intrinsic gas", "invalid chain id", "wrong memo", "not enabled", "mismatch sender", "invalid sender"} {
			if strings.Contains(strings.ToLower(r.Log), m) {
				return "olvm:rejected:" + strings.ReplaceAll(m, " ", "-")
			}
		}
		return "olvm:rejected:other"
	}
	for _, ev := range d.Events {
		for _, a := range ev.Attributes {
			if string(a.Key) == "tx.error" {
				v := string(a.Value)
				if len(v) > 24 {
					v = v[:24]
				}
				return "olvm:code0-vm-error:" + strings.ReplaceAll(v, " ", "-")
			}
		}
	}
	return "olvm:executed"
}

// engineeredOutcome compares what an engineered transaction did on replica A with what it was built for.
func engineeredOutcome(note, kind string, r sim.TxRes) string {
	parts := strings.Split(note, ":")
	label := parts[1]
	var used int64
	if i := strings.Index(note, "used="); i >= 0 {
		fmt.Sscanf(note[i:], "used=%d", &used)
	}
	class, _ := classifyFailure(kind, r)
	hit := false
	switch {
	case label == "gas+0":
		hit = r.Code == 0 && r.GasUsed == used && r.GasWanted == used
	case strings.HasPrefix(label, "gas-"):
		hit = class == "fee-gas-overflow" && r.GasWanted < used
	case label == "fee-short-by-0":
		hit = r.Code == 0 && r.GasUsed == used
	case strings.HasPrefix(label, "fee-short-by-"):
		hit = class == "fee-unpayable"
	}
	if hit {
		return "eng-as-built:" + label
	}
	return "eng-missed:" + label
}

// ---- speculative block for the scout ---------------------------------------------------------

// specBlock builds the block Chain.MakeBlock would build from spec, without saving it or
// advancing the chain (the scout executes it up to its last DeliverTx and forgets it).
func specBlock(c *sim.Chain, spec sim.BlockSpec) *sim.Block {
	h := c.Height + 1
	gap := spec.GapSecs
	if gap < 1 {
		gap = 1
	}
	t := c.Time.Add(time.Duration(gap) * time.Second)
	n := c.Vals.Size()
	pi := spec.ProposerIdx % n
	if pi < 0 {
		pi += n
	}
	proposer := c.Vals.Validators[pi]
	var votes []abci.VoteInfo
	if h > 1 {
		absent := map[int]bool{}
		total := c.Last.TotalVotingPower()
		absPower := int64(0)
		for _, ai := range spec.Absent {
			if c.Last.Size() == 0 {
				break
			}
			i := ai % c.Last.Size()
			if i < 0 {
				i += c.Last.Size()
			}
			if absent[i] {
				continue
			}
			p := c.Last.Validators[i].VotingPower
			if (total-absPower-p)*3 > total*2 {
				absent[i] = true
				absPower += p
			}
		}
		for i, v := range c.Last.Validators {
			votes = append(votes, abci.VoteInfo{Validator: tmtypes.TM2PB.Validator(v), SignedLastBlock: !absent[i]})
		}
	}
	var byz []abci.Evidence
	for _, bi := range spec.ByzIdx {
		i := bi % n
		if i < 0 {
			i += n
		}
		v := c.Vals.Validators[i]
		byz = append(byz, abci.Evidence{Type: "duplicate/vote", Validator: tmtypes.TM2PB.Validator(v), Height: h - 1, Time: t, TotalVotingPower: c.Vals.TotalVotingPower()})
	}
	hash := sha256.Sum256([]byte(fmt.Sprintf("speculative-%d", h)))
	return &sim.Block{Height: h, Time: t, Proposer: proposer.Address, Votes: votes, Byz: byz, Txs: spec.Txs, Hash: hash[:],
		Header: abci.Header{ChainID: c.G.Doc.ChainID, Height: h, Time: t, ProposerAddress: proposer.Address, AppHash: c.AppHash}}
}

// scout delivers txs in a speculative next block on s and returns the responses (nil when the scout died).
func scout(s *sim.Replica, c *sim.Chain, spec sim.BlockSpec, txs [][]byte) []abci.ResponseDeliverTx {
	if s == nil || s.Panicked {
		return nil
	}
	spec.Txs = txs
	b := specBlock(c, spec)
	s.BeginBlock(b)
	if s.Panicked {
		return nil
	}
	var out []abci.ResponseDeliverTx
	for _, tx := range txs {
		d := s.DeliverTx(tx)
		if s.Panicked {
			return nil
		}
		out = append(out, d)
	}
	return out
}

// ---- executor ---------------------------------------------------------------------------------

type stats struct {
	feats    map[string]int
	nt       int
	failed   int
	okTxs    int
	blocks   int
	engNotes map[int]string // block index -> engineered class labels (generation only)
}

type blockPlan struct {
	step hist.Step
	txs  []txgen.Tx
}

// execute runs a trace: replica A (world replica 0) gets every block as recorded, twin B (own
// chain and block store, same node identity) gets the block without the transactions that failed
// on A. When draw != nil the blocks are generated on the fly and world replica 1 is the scout.
func execute(h *run.H, tr *hist.Trace, draw func(w *hist.World, scoutR *sim.Replica) (*blockPlan, bool)) (*outcome, *stats) {
	st := &stats{feats: map[string]int{}}
	roles := tr.Roles
	if len(roles) < 1 {
		roles = hist.Roles(tr.Params, 1)
	}
	rs := []sim.Role{roles[0]}
	if draw != nil {
		rs = append(rs, roles[0])
	}
	w, err := hist.NewWorld(tr.Params, rs)
	if err != nil {
		return &outcome{"harness", "", "cannot build world: " + err.Error()}, st
	}
	defer w.Close()
	if _, err := w.Init(); err != nil {
		return &outcome{"init", "", "InitChain: " + err.Error()}, st
	}
	a := w.R[0]
	var sc *sim.Replica
	if draw != nil {
		sc = w.R[1]
	}
	cB := sim.NewChain(w.G)
	b, err := sim.NewReplica("twin", w.G, cB, roles[0], "")
	if err != nil {
		return &outcome{"harness", "", "cannot build twin: " + err.Error()}, st
	}
	defer b.Close()
	if err := cB.SetInitialValidators(b.InitChain(cB)); err != nil {
		return &outcome{"init", "", "twin InitChain: " + err.Error()}, st
	}
	if d := sim.CompareInit(a.LastInit, b.LastInit); d != "" {
		return &outcome{"init", "", d}, st
	}
	for i := 0; ; i++ {
		var step hist.Step
		var txs []txgen.Tx
		if draw != nil {
			p, ok := draw(w, sc)
			if !ok {
				break
			}
			step, txs = p.step, p.txs
			tr.Steps = append(tr.Steps, step)
			h.Journal(tr)
		} else {
			if i >= len(tr.Steps) {
				break
			}
			step = tr.Steps[i]
			if step.Kind != "block" {
				continue
			}
		}
		spec := *step.Spec
		bA := w.C.MakeBlock(spec)
		resA := a.RunBlock(bA)
		if a.Panicked {
			return &outcome{"node-panic", a.PanicCall, fmt.Sprintf("the application panicked in %s at height %d (kinds %v) and shut itself down", a.PanicCall, bA.Height, step.Kinds)}, st
		}
		if sc != nil && !sc.Panicked {
			sc.RunBlock(bA)
		}
		w.Results = append(w.Results, resA)
		_ = w.C.Advance(resA.AppHash, resA.Updates)

		// the twin's block: same environment, failed transactions removed
		specB := spec
		specB.Txs = nil
		// the twin's block keeps the subject's header and hash (computed from the full transaction list): a contract
		// may read BLOCKHASH, and a block's hash legitimately covers the transactions that failed
		specB.HeaderTxs = spec.Txs
		if specB.HeaderTxs == nil {
			specB.HeaderTxs = [][]byte{}
		}
		kept := &sim.BlockRes{Height: resA.Height, Updates: resA.Updates, AppHash: resA.AppHash}
		var failedKinds []string
		for k, r := range resA.Txs {
			kind := "?"
			if k < len(step.Kinds) {
				kind = step.Kinds[k]
			}
			debugf("h=%d A tx#%d %s code=%d gas=%d/%d log=%.200s\n", bA.Height, k, kind, r.Code, r.GasUsed, r.GasWanted, r.Log)
			if k < len(txs) && strings.HasPrefix(txs[k].Note, "eng:") {
				st.feats[engineeredOutcome(txs[k].Note, kind, r)]++
			}
			if kind == "OLVM" && k < len(resA.Deliver) {
				st.feats[olvmShape(r, resA.Deliver[k])]++
			}
			if r.Code != 0 {
				class, wrote := classifyFailure(kind, r)
				st.failed++
				st.feats["fail:"+class]++
				st.feats["failkind:"+kind]++
				if wrote {
					st.nt++
					st.feats["rolled-back-writes:"+kind]++
				}
				failedKinds = append(failedKinds, kind+"/"+class)
				continue
			}
			st.okTxs++
			specB.Txs = append(specB.Txs, spec.Txs[k])
			kept.Txs = append(kept.Txs, r)
		}
		// an OLVM transaction that failed in the VM pre-checks followed by an OLVM transaction that executed in the same block
		preAt := -1
		for k, r := range resA.Txs {
			if k >= len(step.Kinds) || step.Kinds[k] != "OLVM" {
				continue
			}
			if c, _ := classifyFailure("OLVM", r); c == "vm-precheck" && preAt < 0 {
				preAt = k
			} else if r.Code == 0 && preAt >= 0 {
				st.feats["olvm-pair:vm-precheck-then-executed-in-one-block"]++
				break
			}
		}
		bB := cB.MakeBlock(specB)
		resB := b.RunBlock(bB)
		if b.Panicked {
			return &outcome{"node-panic", "twin:" + b.PanicCall, fmt.Sprintf("the twin panicked in %s at height %d and shut itself down", b.PanicCall, bB.Height)}, st
		}
		_ = cB.Advance(resB.AppHash, resB.Updates)
		st.blocks++
		debugf("h=%d apphash A=%x B=%x failed=%v\n", bA.Height, resA.AppHash, resB.AppHash, failedKinds)
		if d := sim.CompareBlockRes(kept, resB); d != "" {
			da, db := a.DumpMap(), b.DumpMap()
			diff := sim.DiffDumps(da, db)
			if len(diff) > 8 {
				diff = diff[:8]
			}
			if len(diff) > 0 {
				debugf("first differing key %q: subject %x twin %x\n", diff[0], da[diff[0]], db[diff[0]])
			}
			class := "none-failed"
			if len(failedKinds) > 0 {
				class = strings.SplitN(failedKinds[0], "/", 2)[0]
			}
			return &outcome{"failed-tx-not-a-noop", class, fmt.Sprintf("block with vs. without its failed transactions: %s; failed in this block %v; block kinds %v; first differing keys %q", d, failedKinds, step.Kinds, diff)}, st
		}
		if draw != nil {
			w.Observe(txs, resA)
		}
	}
	if diff := sim.DiffDumps(a.DumpMap(), b.DumpMap()); len(diff) > 0 {
		if len(diff) > 8 {
			diff = diff[:8]
		}
		return &outcome{"final-dump", "", fmt.Sprintf("identical transcripts but the committed states differ in %q", diff)}, st
	}
	return nil, st
}

// withAccessList sets the access list member of an OLVM payload. The member is not covered by the
// EIP-155 signature: Validate computes the intrinsic gas without it, the state transition with it.
func withAccessList(tx txgen.Tx, al ethtypes.AccessList) txgen.Tx {
	var stx action.SignedTx
	if err := serialize.GetSerializer(serialize.NETWORK).Deserialize(tx.Bytes, &stx); err != nil {
		return tx
	}
	var m aolvm.Transaction
	if err := m.Unmarshal(stx.Data); err != nil {
		return tx
	}
	m.AccessList = &al
	data, err := m.Marshal()
	if err != nil {
		return tx
	}
	stx.Data = data
	b, err := serialize.GetSerializer(serialize.NETWORK).Serialize(stx)
	if err != nil {
		return tx
	}
	tx.Bytes = b
	return tx
}

// ---- exclusions owned by other properties, honoured by construction ---------------------------

// validatorOf returns the validatorAddress member of a staking transaction's payload.
func validatorOf(tx txgen.Tx) string {
	var raw struct {
		Data []byte `json:"data"`
	}
	if json.Unmarshal(tx.Bytes, &raw) != nil {
		return ""
	}
	var m struct {
		ValidatorAddress string
	}
	_ = json.Unmarshal(raw.Data, &m)
	return m.ValidatorAddress
}

// applyExclusions replaces transactions that known findings of other properties exclude:
// STAKE:zero-power-record (C11: a STAKE to a record of power 0 is lost when the block end deletes
// the record; the validator later gets negative power and the fee distribution kills the process).
func applyExclusions(h *run.H, g *hist.Gen, txs []txgen.Tx) []txgen.Tx {
	var zero map[string]bool
	for i, tx := range txs {
		if tx.Kind != "STAKE" {
			continue
		}
		if zero == nil {
			zero = map[string]bool{}
			for _, r := range g.W.ValRecs() {
				if r.Power <= 0 {
					zero[r.Address.String()] = true
				}
			}
		}
		if zero[validatorOf(tx)] && h.Excluded("STAKE:zero-power-record") {
			txs[i] = g.Send()
		}
	}
	return txs
}

// negativePower reports a committed validator record with negative power (the next fee distribution calls logger.Fatal).
func negativePower(w *hist.World) bool {
	for _, r := range w.ValRecs() {
		if r.Power < 0 {
			return true
		}
	}
	return false
}

// ---- engineered failures ----------------------------------------------------------------------

var oneE18 = new(big.Int).Exp(big.NewInt(10), big.NewInt(18), nil)

type fresh struct {
	u      *sim.User
	amount *big.Int // what it was funded with
	tx     []byte   // the funding transaction
	funded bool
	spent  bool
}

type engineer struct {
	rt     *rapid.T
	u      *hist.U
	g      *hist.Gen
	n      int
	fresh  []*fresh
	labels map[string]int
}

func (e *engineer) memo() string { e.n++; return fmt.Sprintf("c06e%d", e.n) }

// baseTx draws a transaction that is expected to succeed and returns a builder that re-creates it with another fee.
func (e *engineer) baseTx() (string, func(fee txgen.Fee) txgen.Tx) {
	w := e.g.W
	users := w.G.U.Users
	a := users[e.u.N(len(users), "eng-a")]
	b := users[e.u.N(len(users), "eng-b")]
	memo := e.memo()
	amt := big.NewInt(int64(e.u.Range(1, 999999, "eng-amt")))
	switch e.u.N(7, "eng-kind") {
	case 0, 1:
		return "SEND", func(fee txgen.Fee) txgen.Tx { return txgen.Send(a, a.Addr, b.Addr, txgen.Amt("OLT", amt), fee, memo) }
	case 2:
		return "SENDPOOL", func(fee txgen.Fee) txgen.Tx {
			return txgen.SendPool(a, a.Addr, "RewardsPool", txgen.Amt("OLT", amt), fee, memo)
		}
	case 3:
		whole := new(big.Int).Mul(big.NewInt(int64(e.u.Range(1, 50, "eng-deleg"))), oneE18)
		return "ADD_NETWORK_DELEGATE", func(fee txgen.Fee) txgen.Tx { return txgen.Delegate(a, a.Addr, txgen.Amt("OLT", whole), fee, memo) }
	case 4:
		name := fmt.Sprintf("c06n%d.ol", e.n)
		base, _ := new(big.Int).SetString(w.P.OnsBasePrice, 10)
		per, _ := new(big.Int).SetString(w.P.OnsPerBlock, 10)
		price := new(big.Int).Add(base, new(big.Int).Mul(per, big.NewInt(20)))
		return "DOMAIN_CREATE", func(fee txgen.Fee) txgen.Tx {
			return txgen.DomainCreate(a, a.Addr, a.Addr, name, "http://a.b/c", txgen.Amt("OLT", price), fee, memo)
		}
	case 5:
		v := w.G.U.Vals[e.u.N(len(w.P.ValPower), "eng-val")]
		return "UNSTAKE", func(fee txgen.Fee) txgen.Tx {
			return txgen.Unstake(v.Key.Addr, v.Stake.Addr, txgen.Amt("OLT", big.NewInt(1)), fee, memo, v.Stake, v.Key)
		}
	default:
		// a transfer between stake accounts (also fee payers of evidence transactions)
		v := w.G.U.Vals[e.u.N(len(w.G.U.Vals), "eng-val")]
		return "SEND", func(fee txgen.Fee) txgen.Tx { return txgen.Send(v.Stake, v.Stake.Addr, b.Addr, txgen.Amt("OLT", amt), fee, memo) }
	}
}

func feeWithGas(gas int64) txgen.Fee {
	f := txgen.DefaultFee()
	f.Gas = gas
	return f
}

// engineerInto inserts engineered transactions into txs. The gas a transaction needs is measured
// by delivering the block so far on the scout in a speculative block; every engineered
// transaction is measured with the engineered ones before it already in their final form.
func (e *engineer) engineerInto(sc *sim.Replica, spec sim.BlockSpec, txs []txgen.Tx) []txgen.Tx {
	w := e.g.W
	bytesOf := func(l []txgen.Tx) [][]byte {
		var o [][]byte
		for _, t := range l {
			o = append(o, t.Bytes)
		}
		return o
	}
	measure := func(l []txgen.Tx, at int) (abci.ResponseDeliverTx, bool) {
		r := scout(sc, w.C, spec, bytesOf(l[:at+1]))
		if r == nil {
			return abci.ResponseDeliverTx{}, false
		}
		return r[at], true
	}
	insert := func(l []txgen.Tx, at int, t txgen.Tx) []txgen.Tx {
		o := append([]txgen.Tx{}, l[:at]...)
		o = append(o, t)
		return append(o, l[at:]...)
	}
	n := 1 + e.u.N(2, "eng-n")
	for j := 0; j < n; j++ {
		at := e.u.N(len(txs)+1, "eng-at")
		switch e.u.N(12, "eng-shape") {
		case 0, 1, 2, 3, 4: // Fee.Gas relative to the measured use: one below (fails in the fee step), exact (boundary, succeeds)
			kind, mk := e.baseTx()
			delta := []int64{-1, -1, -1, 0, -20}[e.u.N(5, "eng-delta")]
			// the transaction's size (hence its gas) depends on the number of digits of Fee.Gas only:
			// measure with a generous limit that has as many digits as the final one
			digits := func(x int64) int { return len(fmt.Sprint(x)) }
			gas := int64(99999)
			var used int64
			ok := false
			for pass := 0; pass < 3 && !ok; pass++ {
				r, alive := measure(insert(txs, at, mk(feeWithGas(gas))), at)
				if !alive {
					return txs
				}
				if r.Code != 0 {
					if strings.Contains(r.Log, "gas used exceed limit") && gas == 99999 {
						gas = 999999
						continue
					}
					break // the base transaction fails for its own reasons here: leave it out
				}
				used = r.GasUsed
				if used+delta < 1000 {
					break
				}
				if digits(used+delta) == digits(gas) {
					ok = true
				} else if digits(used+delta) == 4 {
					gas = 9999
				} else {
					break
				}
			}
			if !ok {
				continue
			}
			t := mk(feeWithGas(used + delta))
			label := fmt.Sprintf("gas%+d", delta)
			t.Tags = []string{"engineered", label}
			t.Note = fmt.Sprintf("eng:%s:%s:used=%d", label, kind, used)
			txs = insert(txs, at, t)
			e.labels["eng:"+label]++
		case 9, 10, 11: // OLVM: access list in the payload, Fee.Gas between the intrinsic gas without and with the list; a valid OLVM transfer after it
			if w.P.Frankenstein == 0 || w.C.Height+1 < w.P.Frankenstein || len(w.G.U.Eth) < 2 {
				continue
			}
			i1 := e.u.N(len(w.G.U.Eth), "olvm-e1")
			i2 := (i1 + 1 + e.u.N(len(w.G.U.Eth)-1, "olvm-e2")) % len(w.G.U.Eth)
			e1, e2 := w.G.U.Eth[i1], w.G.U.Eth[i2]
			to := ethcmn.BytesToAddress(w.G.U.Users[e.u.N(len(w.G.U.Users), "olvm-to")].Addr)
			nkeys := e.u.N(3, "olvm-keys")
			al := ethtypes.AccessList{{Address: to}}
			for k := 0; k < nkeys; k++ {
				al[0].StorageKeys = append(al[0].StorageKeys, ethcmn.BigToHash(big.NewInt(int64(k))))
			}
			with := int64(21000 + 2400 + 1900*nkeys)
			gas := int64(21000) + int64(e.u.N(int(with-21000), "olvm-gas")) // in [21000, with)
			price := big.NewInt(1000000000)
			n1 := w.OlvmNext[e1.Name]
			t1 := txgen.OLVM(e1, txgen.OLVMArgs{ChainID: w.P.ChainID, Nonce: n1, To: &to, Value: big.NewInt(int64(e.u.Range(0, 1000, "olvm-v1"))), Fee: txgen.Fee{Price: price, Cur: "OLT", Gas: gas}})
			t1 = withAccessList(t1, al)
			t1.Tags = []string{"engineered", "olvm-accesslist-gas-between-intrinsics"}
			t1.Note = fmt.Sprintf("olvm:%s:%d", e1.Name, n1)
			n2 := w.OlvmNext[e2.Name]
			t2 := txgen.OLVM(e2, txgen.OLVMArgs{ChainID: w.P.ChainID, Nonce: n2, To: &to, Value: big.NewInt(int64(e.u.Range(1, 1000, "olvm-v2"))), Fee: txgen.Fee{Price: price, Cur: "OLT", Gas: 21000}})
			t2.Tags = []string{"engineered", "olvm-after-precheck-failure"}
			t2.Note = fmt.Sprintf("olvm:%s:%d", e2.Name, n2)
			txs = insert(txs, at, t1)
			at2 := at + 1 + e.u.N(len(txs)-at, "olvm-at2")
			txs = insert(txs, at2, t2)
			e.labels["eng:olvm-precheck-pair"]++
		case 5, 6: // fund a fresh account that no generator knows
			f := &fresh{u: sim.NewEdUser(fmt.Sprintf("fresh%d", len(e.fresh)), fmt.Sprintf("%s/c06-fresh/%d", w.P.Seed, len(e.fresh)))}
			f.amount = new(big.Int).Mul(big.NewInt(int64(e.u.Range(2, 9, "fresh-amt"))), new(big.Int).Exp(big.NewInt(10), big.NewInt(16), nil))
			a := w.G.U.Users[e.u.N(len(w.G.U.Users), "fresh-from")]
			t := txgen.Send(a, a.Addr, f.u.Addr, txgen.Amt("OLT", f.amount), txgen.DefaultFee(), e.memo())
			t.Tags = []string{"engineered", "fund-fresh"}
			f.tx = t.Bytes
			e.fresh = append(e.fresh, f)
			txs = insert(txs, at, t)
			e.labels["eng:fund-fresh"]++
		default: // a fresh account spends balance - fee + delta: the payload is covered, the fee is short by delta
			var f *fresh
			for _, x := range e.fresh {
				if x.funded && !x.spent {
					f = x
				}
			}
			if f == nil {
				continue
			}
			if hist.ParseAmt(w.Get("b_"+f.u.Addr.String()+"_OLT")).Cmp(f.amount) != 0 {
				continue
			}
			to := w.G.U.Users[e.u.N(len(w.G.U.Users), "fresh-to")]
			memo := e.memo()
			delta := []int64{1, 1, 1, 0, 1000000}[e.u.N(5, "fresh-delta")]
			price := txgen.DefaultFee().Price
			mk := func(amount *big.Int) txgen.Tx {
				return txgen.Send(f.u, f.u.Addr, to.Addr, txgen.Amt("OLT", amount), txgen.DefaultFee(), memo)
			}
			amount := new(big.Int).Sub(f.amount, new(big.Int).Mul(big.NewInt(20000), price))
			var used int64
			stable := false
			for pass := 0; pass < 3; pass++ {
				r, alive := measure(insert(txs, at, mk(amount)), at)
				if !alive {
					return txs
				}
				if r.Code != 0 || r.GasUsed == 0 {
					break
				}
				if r.GasUsed == used {
					stable = true
					break
				}
				used = r.GasUsed
				amount = new(big.Int).Sub(f.amount, new(big.Int).Mul(big.NewInt(used), price))
				// measured with an amount that leaves exactly the fee; same number of digits as the final one
			}
			if !stable {
				continue
			}
			final := new(big.Int).Add(amount, big.NewInt(delta))
			t := mk(final)
			label := fmt.Sprintf("fee-short-by-%d", delta)
			t.Tags = []string{"engineered", label}
			t.Note = fmt.Sprintf("eng:%s:used=%d", label, used)
			txs = insert(txs, at, t)
			if delta == 0 {
				f.spent = true
			}
			e.labels["eng:"+label]++
		}
	}
	return txs
}

// observeFresh marks fresh accounts whose funding transaction succeeded.
func (e *engineer) observeFresh(spec sim.BlockSpec, res *sim.BlockRes) {
	for _, f := range e.fresh {
		if f.funded {
			continue
		}
		for k, tx := range spec.Txs {
			if k < len(res.Txs) && res.Txs[k].Code == 0 && string(tx) == string(f.tx) {
				f.funded = true
			}
		}
	}
}

func TestC06(t *testing.T) {
	h := run.Start(t, "C06")
	defer h.Finish()
	h.SetRule("generated genesis x block history with many failing transactions (hostile value pools 20%, inapplicable choices 25%, plus engineered failures: Fee.Gas one below the gas a scout replica measured for the same transaction at the same position, a fresh account spending balance - fee + 1, OLVM nonce / revert / out-of-gas shapes from the olvm profile); replica A executes every block, twin B the same block without the transactions that returned a non-zero code on A; non-trivial = at least one failed transaction whose session held writes when it was discarded, judged from the DeliverTx response: (a) no fee-step log and GasUsed > 0, i.e. the handler failed and the fee step, which txDeliverer runs regardless, then debited the payer and credited the fee pool inside the session, or (b) the handler part of the log is empty and the fee step failed (gas overflow or unpayable fee) after a successful handler of a native kind; distinct by trace hash")
	maxBlocks := h.Scale(28, 60)
	saved := false
	rapid.Check(t, func(rt *rapid.T) {
		p := hist.GenParams(rt, fmt.Sprint(h.Seed))
		p.MaxGas = -1 // unlimited block gas: the running gas total cannot change outcomes
		u := hist.NewU(rt)
		prof := hist.ProfileNames[u.N(len(hist.ProfileNames), "profile")]
		role := hist.Roles(p, 2)[u.N(2, "role")]
		tr := &hist.Trace{Params: p, Roles: []sim.Role{role}, Profile: prof}
		nb := u.Range(4, maxBlocks, "nblocks")
		var g *hist.Gen
		var eng *engineer
		blocks := 0
		var lastSpec sim.BlockSpec
		out, st := execute(h, tr, func(w *hist.World, sc *sim.Replica) (*blockPlan, bool) {
			if g == nil {
				g = &hist.Gen{W: w, T: rt, Hostile: 20, Strange: 25, Kinds: hist.Profiles[prof], Excl: h.Excluded, Seen: map[string]int{}, TagsN: map[string]int{}, NoBlockGasObserver: true}
				eng = &engineer{rt: rt, u: u, g: g, labels: map[string]int{}}
			}
			if blocks > 0 && len(w.Results) > 0 {
				eng.observeFresh(lastSpec, w.Results[len(w.Results)-1])
			}
			if blocks >= nb {
				return nil, false
			}
			if negativePower(w) && (h.Excluded("STAKE:zero-power-record") || h.Excluded("ALLEGATION_VOTE:accused-not-elected")) {
				return nil, false // known findings of C11: the next fee distribution would kill the process
			}
			blocks++
			txs := applyExclusions(h, g, g.DrawTxs(5))
			spec := g.DrawEnv(nil)
			// the scout cannot run a speculative BeginBlock for the first block of a reward cycle (the
			// calculator reads that block's own meta from the block store) nor for block 1
			scoutable := w.C.Height >= 1 && w.P.RewardCycle > 0 && w.C.Height%w.P.RewardCycle != 0
			if scoutable && u.N(100, "engineer") < 45 {
				// journal the candidate block first: if the application exits during scouting the journal reproduces it
				cand := spec
				for _, tx := range txs {
					cand.Txs = append(cand.Txs, tx.Bytes)
				}
				jt := *tr
				jt.Steps = append(append([]hist.Step{}, tr.Steps...), hist.BlockStep(cand, txs))
				h.Journal(&jt)
				txs = eng.engineerInto(sc, spec, txs)
			}
			for _, tx := range txs {
				spec.Txs = append(spec.Txs, tx.Bytes)
			}
			lastSpec = spec
			return &blockPlan{step: hist.BlockStep(spec, txs), txs: txs}, true
		})
		classes := []string{"profile-" + prof}
		for k, v := range st.feats {
			if v > 0 {
				classes = append(classes, k)
			}
		}
		if eng != nil {
			for k := range eng.labels {
				classes = append(classes, k)
			}
		}
		sort.Strings(classes)
		ntKey := ""
		if st.nt > 0 {
			b, _ := json.Marshal(tr.Steps)
			ntKey = string(b)
			classes = append(classes, "non-trivial")
		}
		h.Eval(ntKey, classes, tr.Summary())
		// VERIF_C06_SAVE=<dir>: keep the first passing case that rolled back writes at every depth as a regression replay
		if dir := os.Getenv("VERIF_C06_SAVE"); dir != "" && out == nil && !saved && st.feats["fail:fee-gas-overflow"] > 0 && st.feats["fail:fee-unpayable"] > 0 && st.feats["fail:handler+fee-charged"] > 2 && st.feats["olvm-pair:vm-precheck-then-executed-in-one-block"] > 0 && st.blocks <= 16 {
			saved = true
			cb, _ := json.Marshal(tr)
			f := run.Failure{Property: "C06", Test: "TestReplay", Oracle: "seed", Message: "generated history kept as a regression input: failures in Validate, in handlers after the fee was charged, in the fee step (gas one below the measured use, fee short by one unit) and in the OLVM pre-checks followed by an executed OLVM transaction", Sig: "C06/seed", Case: cb}
			fb, _ := json.MarshalIndent(f, "", " ")
			_ = os.MkdirAll(dir, 0o755)
			_ = os.WriteFile(dir+"/seed-generated-failures-at-every-depth.json", fb, 0o644)
		}
		h.Class("txs-failed", st.failed)
		h.Class("txs-failed-after-session-writes", st.nt)
		h.Class("txs-succeeded", st.okTxs)
		h.Class("blocks", st.blocks)
		if out != nil {
			h.Fail(rt, out.oracle, "C06/"+out.oracle+"/"+out.class, tr, "%s", out.msg)
		}
	})
}

func TestReplay(t *testing.T) {
	path := run.ReplayFile()
	if path == "" {
		t.Skip("no VERIF_REPLAY")
	}
	f, err := run.LoadFailure(path)
	if err != nil {
		t.Fatal(err)
	}
	var tr hist.Trace
	if err := json.Unmarshal(f.Case, &tr); err != nil {
		t.Fatal(err)
	}
	h := run.Start(t, "C06")
	defer h.Finish()
	if out, _ := execute(h, &tr, nil); out != nil {
		h.Fail(t, out.oracle, "C06/"+out.oracle+"/"+out.class, &tr, "%s", out.msg)
	}
}
