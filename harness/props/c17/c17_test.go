// Package c17: OLVM transactions keep one ledger and charge exactly the gas used.
package c17

import (
	"bytes"
	"encoding/hex"
	"encoding/json"
	"fmt"
	ethtypes "github.com/ethereum/go-ethereum/core/types"
	"io"
	"math/big"
	"os"
	"sort"
	"strings"
	"testing"

	ethcmn "github.com/ethereum/go-ethereum/common"
	ethcrypto "github.com/ethereum/go-ethereum/crypto"
	abci "github.com/tendermint/tendermint/abci/types"
	"pgregory.net/rapid"

	"github.com/Oneledger/protocol/action"
	aolvm "github.com/Oneledger/protocol/action/olvm"
	"github.com/Oneledger/protocol/data/balance"
	"github.com/Oneledger/protocol/data/evm"
	"github.com/Oneledger/protocol/data/keys"
	"github.com/Oneledger/protocol/log"
	"github.com/Oneledger/protocol/serialize"
	"github.com/Oneledger/protocol/storage"
	"github.com/Oneledger/protocol/vm"

	"verif/hist"
	"verif/run"
	"verif/sim"
	"verif/txgen"
)

func TestMain(m *testing.M) {
	run.Quiet()
	os.Exit(m.Run())
}

// ---- trace ---------------------------------------------------------------------------------

// Block is one generated block: its transactions in order; Check lists positions at which the
// mempool check of that transaction is run right before it is delivered.
type Block struct {
	Gap   int64    `json:"gap"`
	Txs   [][]byte `json:"txs"`
	Kinds []string `json:"kinds"`
	Tags  []string `json:"tags"`
	Check []int    `json:"check,omitempty"`
}

type Trace struct {
	Params sim.Params `json:"params"`
	Blocks []Block    `json:"blocks"`
}

type violation struct {
	oracle string
	class  string
	msg    string
}

func (v *violation) sig() string { return "C17/" + v.oracle + "/" + v.class }

// ---- small contracts -------------------------------------------------------------------------

var runtimes = map[string][]byte{
	"store":  ethcmn.FromHex("0x60003560005500"),                   // SSTORE(0, CALLDATALOAD(0)); STOP
	"revert": ethcmn.FromHex("0x60006000fd"),                       // REVERT(0,0)
	"loop":   ethcmn.FromHex("0x5b600056"),                         // infinite loop: out of gas
	"kill":   ethcmn.FromHex("0x33ff"),                             // SELFDESTRUCT(CALLER)
	"log":    ethcmn.FromHex("0x600160006000a1600160015401600155"), // LOG1; SSTORE(1, SLOAD(1)+1)
	// "fund, then deploy": CALL(to = CALLDATALOAD(0), value = CALLVALUE), then CREATE2(init = STOP, salt 0); called with
	// its own child address it pays the address first and deploys a contract there afterwards, in one transaction
	"factory": hist.RtFactory,
	// calls itself once; the inner frame (CALLER == ADDRESS) sends 1 wei to a fresh address (calldata word 2: account
	// creation), reads the balances of the accounts in words 0 and 1 (first touch) and reverts; the outer frame then pays
	// the call value to the account in word 0
	"nest": hist.RtNest,
	// pays half the call value to the address in calldata word 0, then runs CREATE2 with its whole balance as value and a
	// reverting constructor: called with its own child address, a value-carrying creation over a just-funded address fails
	"factoryrv": hist.RtFactoryRv,
	// calls the address in calldata word 0 twice with no value (aimed at a self-destructing contract: the second call finds
	// an account that already destroyed itself in this transaction)
	"double": ethcmn.FromHex("0x60006000600060006000600035" + "5af150" + "60006000600060006000600035" + "5af150" + "00"),
}

var runtimeNames = []string{"store", "revert", "loop", "kill", "log", "factory", "nest", "factoryrv", "double"}

func initCode(rt []byte) []byte {
	n := byte(len(rt))
	c := []byte{0x60, n, 0x60, 0x0c, 0x60, 0x00, 0x39, 0x60, n, 0x60, 0x00, 0xf3}
	return append(c, rt...)
}

func codeType(code []byte) string {
	if len(code) == 0 {
		return "none"
	}
	for _, n := range runtimeNames {
		if bytes.Equal(code, runtimes[n]) {
			return n
		}
	}
	return "unknown"
}

// ---- reading the (uncommitted) deliver state without side effects -----------------------------

type view struct {
	r   *sim.Replica
	st  *storage.State // the application's deliver state of the current block (nil between blocks)
	cur *balance.CurrencySet
	lg  *log.Logger
}

func newView(r *sim.Replica) *view {
	cur := balance.NewCurrencySet()
	_ = cur.Register(sim.CurOLT)
	return &view{r: r, cur: cur, lg: log.NewLoggerWithPrefix(io.Discard, "c17").WithLevel(log.Fatal)}
}

// cache returns the block cache below the gas store (reads through it are not metered).
func (v *view) cache() storage.SessionedDirectStorage {
	if v.st == nil {
		return nil
	}
	if g, ok := v.st.GetGasStore().(*storage.GasStore); ok {
		return g.SessionedDirectStorage
	}
	return nil
}

// snapshot is the content of the block cache: every write of the block so far.
func (v *view) snapshot() map[string]string {
	m := map[string]string{}
	if c := v.cache(); c != nil {
		c.GetIterable().Iterate(func(k, val []byte) bool {
			m[string(k)] = string(val)
			return false
		})
	}
	return m
}

// get reads a key as the next transaction of the block would see it.
func (v *view) get(key string) []byte {
	if c := v.cache(); c != nil {
		if val, err := c.Get(storage.StoreKey(key)); err == nil {
			if string(val) == storage.TOMBSTONE {
				return nil
			}
			return val
		}
	}
	val, _ := v.r.App.Context.Storage().Chainstate.Get([]byte(key))
	return val
}

// committed reads a key from the last committed state.
func (v *view) committed(key string) []byte {
	val, _ := v.r.App.Context.Storage().Chainstate.Get([]byte(key))
	return val
}

func balKey(a keys.Address) string { return "b_" + a.String() + "_OLT" }

func (v *view) nativeBal(a keys.Address) *big.Int { return hist.ParseAmt(v.get(balKey(a))) }

func (v *view) feePool() *big.Int { return hist.ParseAmt(v.get("f_00000000000000000000")) }

// adapter builds a brand-new EVM state adapter over a private copy of the current view (the
// committed tree plus the block's writes), so that reading through it changes nothing in the application.
func (v *view) adapter() *vm.CommitStateDB {
	tmp := storage.NewState(v.r.App.Context.Storage().Chainstate)
	for k, val := range v.snapshot() {
		if val == storage.TOMBSTONE {
			_, _ = tmp.Delete(storage.StoreKey(k))
		} else {
			_ = tmp.Set(storage.StoreKey(k), []byte(val))
		}
	}
	ak := balance.NewNesterAccountKeeper(tmp, balance.NewStore("b", tmp), v.cur)
	return vm.NewCommitStateDB(evm.NewContractStore(tmp), ak, v.lg)
}

// ---- decoding a transaction from its bytes ------------------------------------------------------

type olvmTx struct {
	from  keys.Address
	to    *keys.Address
	value *big.Int
	nonce uint64
	price *big.Int
	gas   int64
	data  []byte
}

func decodeOLVM(raw []byte) (*olvmTx, bool) {
	stx := &action.SignedTx{}
	if err := serialize.GetSerializer(serialize.NETWORK).Deserialize(raw, stx); err != nil || stx.Type != action.OLVM {
		return nil, false
	}
	m := &aolvm.Transaction{}
	if err := m.Unmarshal(stx.Data); err != nil {
		return nil, false
	}
	o := &olvmTx{from: keys.Address(m.From), value: m.Amount.Value.BigInt(), nonce: m.Nonce, price: stx.Fee.Price.Value.BigInt(), gas: stx.Fee.Gas, data: m.Data}
	if m.To != nil {
		t := keys.Address(*m.To)
		o.to = &t
	}
	return o, true
}

func eventValue(d abci.ResponseDeliverTx, key string) (string, bool) {
	for _, ev := range d.Events {
		for _, a := range ev.Attributes {
			if string(a.Key) == key {
				return string(a.Value), true
			}
		}
	}
	return "", false
}

// ---- execution with the oracles -----------------------------------------------------------------

type stats struct {
	classes map[string]int
	nt      bool
}

func (s *stats) add(c string) { s.classes[c]++ }

type runner struct {
	w       *hist.World
	v       *view
	tracked map[string]keys.Address
	st      *stats
}

func (r *runner) track(a keys.Address) {
	if len(a) == 20 {
		r.tracked[string(a)] = a
	}
}

func (r *runner) trackedSorted() []keys.Address {
	var ks []string
	for k := range r.tracked {
		ks = append(ks, k)
	}
	sort.Strings(ks)
	out := make([]keys.Address, 0, len(ks))
	for _, k := range ks {
		out = append(out, r.tracked[k])
	}
	return out
}

// oneLedger: for every tracked account the native balance record equals the balance the EVM
// adapter reports, and the EVM account record carries no balance of its own that disagrees.
func (r *runner) oneLedger(where string) *violation {
	ad := r.v.adapter()
	for _, a := range r.trackedSorted() {
		nat := r.v.nativeBal(a)
		ev := ad.GetBalance(ethcmn.BytesToAddress(a))
		if nat.Cmp(ev) != 0 {
			return &violation{"one-ledger", "balance-views", fmt.Sprintf("%s: account %s native record %s, EVM view %s", where, a.String(), nat, ev)}
		}
		if rec := r.v.get("keeper_" + string(a)); len(rec) > 0 {
			if v := keeperCoins(rec); v != nil && v.Cmp(nat) != 0 {
				return &violation{"one-ledger", "keeper-record-balance", fmt.Sprintf("%s: account %s keeper record carries balance %s, native record %s", where, a.String(), v, nat)}
			}
		}
	}
	return nil
}

// keeperCoins extracts a balance stored inside an EVM account record (nil when it carries none).
func keeperCoins(rec []byte) *big.Int {
	var k struct {
		Coins struct {
			Amount *string `json:"amount"`
		} `json:"coins"`
	}
	if json.Unmarshal(rec, &k) != nil || k.Coins.Amount == nil {
		return nil
	}
	v, ok := new(big.Int).SetString(*k.Coins.Amount, 10)
	if !ok {
		return nil
	}
	return v
}

// oneLedgerCommitted checks every balance record of the committed tree.
func (r *runner) oneLedgerCommitted(where string) *violation {
	rep := r.w.Primary()
	tmp := storage.NewState(rep.App.Context.Storage().Chainstate)
	ak := balance.NewNesterAccountKeeper(tmp, balance.NewStore("b", tmp), r.v.cur)
	ad := vm.NewCommitStateDB(evm.NewContractStore(tmp), ak, r.v.lg)
	for _, kv := range rep.Dump() {
		if !strings.HasPrefix(kv.K, "b_0lt") || !strings.HasSuffix(kv.K, "_OLT") {
			if strings.HasPrefix(kv.K, "keeper_") {
				a := keys.Address(kv.K[len("keeper_"):])
				nat := hist.ParseAmt(r.w.Get(balKey(a)))
				if v := keeperCoins(kv.V); v != nil && v.Cmp(nat) != 0 {
					return &violation{"one-ledger", "keeper-record-balance", fmt.Sprintf("%s: account %s keeper record carries balance %s, native record %s", where, a.String(), v, nat)}
				}
				if ev := ad.GetBalance(ethcmn.BytesToAddress(a)); ev.Cmp(nat) != 0 {
					return &violation{"one-ledger", "balance-views", fmt.Sprintf("%s: EVM account %s native record %s, EVM view %s", where, a.String(), nat, ev)}
				}
			}
			continue
		}
		hx := kv.K[len("b_0lt") : len(kv.K)-len("_OLT")]
		raw, err := hex.DecodeString(hx)
		if err != nil || len(raw) != 20 {
			continue
		}
		nat := hist.ParseAmt(kv.V)
		if ev := ad.GetBalance(ethcmn.BytesToAddress(raw)); ev.Cmp(nat) != 0 {
			return &violation{"one-ledger", "balance-views", fmt.Sprintf("%s: account 0lt%s native record %s, EVM view %s", where, hx, nat, ev)}
		}
	}
	return nil
}

// failClass is the part of a tag behind '+': the engineered pre-check failure / nonce or price shape.
func failClass(tag string) string {
	if i := strings.IndexByte(tag, '+'); i >= 0 {
		return tag[i+1:]
	}
	return "none"
}

func diffSnap(a, b map[string]string) []string {
	var d []string
	for k, v := range a {
		if w, ok := b[k]; !ok || w != v {
			d = append(d, k)
		}
	}
	for k := range b {
		if _, ok := a[k]; !ok {
			d = append(d, k)
		}
	}
	sort.Strings(d)
	return d
}

// deliver executes one transaction of the current block and applies the per-transaction oracles.
func (r *runner) deliver(h int64, i int, raw []byte, kind, tag string) (*violation, abci.ResponseDeliverTx) {
	rep := r.w.Primary()
	where := fmt.Sprintf("h=%d tx#%d %s[%s]", h, i, kind, tag)
	o, isOLVM := decodeOLVM(raw)
	var preSender, preRecip, prePool, prePayee *big.Int
	var payee keys.Address
	var preNonce uint64
	var recip keys.Address
	var rtype string
	var before map[string]string
	if isOLVM {
		r.track(o.from)
		pre := r.v.adapter()
		preNonce = pre.GetNonce(ethcmn.BytesToAddress(o.from))
		if o.to != nil {
			recip = *o.to
			rtype = codeType(pre.GetCode(ethcmn.BytesToAddress(recip)))
		} else {
			recip = keys.Address(ethcrypto.CreateAddress(ethcmn.BytesToAddress(o.from), preNonce).Bytes())
			rtype = "create"
		}
		r.track(recip)
		preSender, preRecip, prePool = r.v.nativeBal(o.from), r.v.nativeBal(recip), r.v.feePool()
		if rtype == "nest" && len(o.data) >= 96 {
			payee = keys.Address(o.data[12:32])
			r.track(payee)
			prePayee = r.v.nativeBal(payee)
		}
		before = r.v.snapshot()
	}
	d := rep.DeliverTx(raw)
	if rep.Panicked {
		return &violation{"node-panic", kind, fmt.Sprintf("%s: the application panicked in DeliverTx and shut itself down", where)}, d
	}
	if isOLVM {
		after := r.v.snapshot()
		if d.Code != 0 {
			r.st.add("olvm-rejected:" + failClass(tag))
			// failed its consensus pre-checks: nothing at all may have changed
			if df := diffSnap(before, after); len(df) > 0 {
				return &violation{"rejected-changes-state", tag, fmt.Sprintf("%s: rejected (code %d, log %q) but %d records of the block state changed: %q", where, d.Code, d.Log, len(df), df)}, d
			}
			// ... and only a transaction that failed a pre-check may be refused. (a) a response that reports gas used reports
			// an execution; (b) a transaction the generator built without any pre-check defect, whose nonce is the account's
			// next one and whose sender can pay gas limit x price + value, passes every consensus pre-check there is (nonce,
			// balance, intrinsic gas are checked here from the state before the transaction) and has to be executed: charged
			// for its gas, nonce raised, whether the EVM run succeeded, reverted or ran out of gas.
			if d.GasUsed > 0 {
				return &violation{"executed-not-charged", tag, fmt.Sprintf("%s: answered code %d with gas used %d (an execution), yet sender, fee pool and nonce are unchanged (log %q)", where, d.Code, d.GasUsed, d.Log)}, d
			}
			if failClass(tag) == "none" && o.nonce == preNonce {
				need := new(big.Int).Add(new(big.Int).Mul(big.NewInt(o.gas), o.price), o.value)
				intrinsic, ierr := vm.IntrinsicGas(o.data, nil, o.to == nil)
				if ierr == nil && preSender.Cmp(need) >= 0 && uint64(o.gas) >= intrinsic && o.price.Cmp(big.NewInt(1000000000)) == 0 {
					return &violation{"valid-not-executed", tag, fmt.Sprintf("%s: passes every consensus pre-check (nonce %d = account nonce, balance %s >= gas %d x price %s + value %s, intrinsic gas %d) but was refused with code %d (log %q) and nothing was charged", where, o.nonce, preSender, o.gas, o.price, o.value, intrinsic, d.Code, d.Log)}, d
				}
			}
		} else {
			status, _ := eventValue(d, "tx.status")
			errTxt, _ := eventValue(d, "tx.error")
			ok := status == "1"
			cls := "ok"
			if !ok {
				cls = "vmfail"
				if strings.Contains(errTxt, "out of gas") {
					cls = "oog"
				} else if strings.Contains(errTxt, "revert") {
					cls = "revert"
				}
			}
			r.st.add("olvm-executed:" + cls + ":" + rtype)
			if fc := failClass(tag); fc != "none" {
				r.st.add("olvm-executed-with:" + fc)
			}
			if !ok && o.value.Sign() > 0 {
				r.st.add("nt:failed-with-value")
				r.st.nt = true
			}
			fee := new(big.Int).Mul(big.NewInt(d.GasUsed), o.price)
			post := r.v.adapter()
			// nonce
			if n := post.GetNonce(ethcmn.BytesToAddress(o.from)); n != preNonce+1 {
				return &violation{"nonce", cls, fmt.Sprintf("%s: sender nonce %d -> %d, want +1 (tx nonce %d)", where, preNonce, n, o.nonce)}, d
			}
			// fee pool
			if got := new(big.Int).Sub(r.v.feePool(), prePool); got.Cmp(fee) != 0 {
				return &violation{"fee-pool", cls, fmt.Sprintf("%s: fee pool changed by %s, want gasUsed %d x price %s = %s (gas limit %d)", where, got, d.GasUsed, o.price, fee, o.gas)}, d
			}
			// sender and recipient
			dS := new(big.Int).Sub(r.v.nativeBal(o.from), preSender)
			dR := new(big.Int).Sub(r.v.nativeBal(recip), preRecip)
			moved := new(big.Int)
			if ok {
				moved.Set(o.value)
			}
			wantS := new(big.Int).Neg(new(big.Int).Add(fee, moved))
			wantR := new(big.Int).Set(moved)
			known := rtype != "unknown" && rtype != "factory" && rtype != "nest" && rtype != "factoryrv" && rtype != "double" // (a factory passes the value on to its child: judged by conservation)
			if rtype == "nest" && prePayee != nil && dS.Cmp(wantS) != 0 && !bytes.Equal(o.from, payee) {
				return &violation{"sender-debit", cls, fmt.Sprintf("%s: sender balance changed by %s, want %s (nest call, value %s, status %s %s)", where, dS, wantS, o.value, status, errTxt)}, d
			}
			if rtype == "nest" && prePayee != nil && !bytes.Equal(o.from, payee) && !bytes.Equal(recip, payee) {
				// the contract keeps the value or passes it on to the account named in its first calldata word (the inner frame's
				// transfer is reverted): contract + payee receive exactly what moved, and nobody else's record changes
				dP := new(big.Int).Sub(r.v.nativeBal(payee), prePayee)
				if dR.Sign() < 0 || dP.Sign() < 0 || new(big.Int).Add(dR, dP).Cmp(moved) != 0 {
					return &violation{"recipient-credit", cls, fmt.Sprintf("%s: nest contract %s changed by %s and its payee %s by %s, want both non-negative and %s in total (value %s, status %s %s)", where, recip.String(), dR, payee.String(), dP, moved, o.value, status, errTxt)}, d
				}
				for _, k := range diffSnap(before, after) {
					if !strings.HasPrefix(k, "b_") || !strings.HasSuffix(k, "_OLT") {
						continue
					}
					who := strings.TrimSuffix(strings.TrimPrefix(k, "b_"), "_OLT")
					if who != keys.Address(o.from).String() && who != recip.String() && who != payee.String() {
						return &violation{"third-party-balance", cls, fmt.Sprintf("%s: the balance record of %s, neither sender (%s), nest contract (%s) nor its payee (%s), changed from %s to %s",
							where, who, keys.Address(o.from).String(), recip.String(), payee.String(), before[k], after[k])}, d
					}
				}
			}
			if ok && rtype == "kill" {
				// SELFDESTRUCT(CALLER): what the contract held, plus the value, goes to the sender
				wantS = new(big.Int).Add(new(big.Int).Neg(fee), preRecip)
				wantR = new(big.Int).Neg(preRecip)
			}
			if bytes.Equal(o.from, recip) {
				wantS = new(big.Int).Neg(fee)
				wantR = wantS
			}
			// conservation: whatever this transaction did, the balance records it wrote and the fee pool sum to what they
			// summed to before (the EVM moves value, only the fee leaves the accounts, and it goes to the pool)
			{
				sum := new(big.Int).Sub(r.v.feePool(), prePool)
				amt := func(s string) *big.Int {
					if s == "" || s == storage.TOMBSTONE {
						return new(big.Int)
					}
					return hist.ParseAmt([]byte(s))
				}
				var changed []string
				for _, k := range diffSnap(before, after) {
					if strings.HasPrefix(k, "b_") && strings.HasSuffix(k, "_OLT") {
						pre := before[k]
						if _, had := before[k]; !had {
							pre = string(r.v.committed(k)) // first write of the block: the committed value was the old one
						}
						sum.Add(sum, new(big.Int).Sub(amt(after[k]), amt(pre)))
						changed = append(changed, k)
					}
				}
				if sum.Sign() != 0 {
					return &violation{"conservation", cls, fmt.Sprintf("%s: the balance records written by this transaction %q and the fee pool changed by %s in total, want 0 (value %s, gasUsed %d, status %s %s, recipient type %s)",
						where, changed, sum, o.value, d.GasUsed, status, errTxt, rtype)}, d
				}
			}
			if known {
				if dS.Cmp(wantS) != 0 {
					return &violation{"sender-debit", cls, fmt.Sprintf("%s: sender balance changed by %s, want %s (gasUsed %d x price %s = %s, value %s, transferred %s, status %s %s, gas limit %d)", where, dS, wantS, d.GasUsed, o.price, fee, o.value, moved, status, errTxt, o.gas)}, d
				}
				if dR.Cmp(wantR) != 0 {
					return &violation{"recipient-credit", cls, fmt.Sprintf("%s: recipient %s balance changed by %s, want %s (value %s, status %s %s)", where, recip.String(), dR, wantR, o.value, status, errTxt)}, d
				}
				// nobody else: the generated contracts pay nobody but their caller, so the balance records this transaction
				// wrote are the sender's and the recipient's (what an earlier transaction left behind in the shared state
				// DB must not surface here)
				for _, k := range diffSnap(before, after) {
					if !strings.HasPrefix(k, "b_") || !strings.HasSuffix(k, "_OLT") {
						continue
					}
					who := strings.TrimSuffix(strings.TrimPrefix(k, "b_"), "_OLT")
					if who != keys.Address(o.from).String() && who != recip.String() {
						return &violation{"third-party-balance", cls, fmt.Sprintf("%s: the balance record of %s, neither sender (%s) nor recipient (%s) of this transaction, changed from %s to %s",
							where, who, keys.Address(o.from).String(), recip.String(), before[k], after[k])}, d
					}
				}
			}
		}
	} else if d.Code == 0 {
		r.st.add("native-executed:" + kind)
	} else {
		r.st.add("native-rejected:" + kind)
	}
	if v := r.oneLedger(where); v != nil {
		return v, d
	}
	return nil, d
}

// runBlock executes one block transaction by transaction.
func (r *runner) runBlock(b Block) (*violation, []abci.ResponseDeliverTx) {
	w := r.w
	rep := w.Primary()
	blk := w.C.MakeBlock(sim.BlockSpec{GapSecs: b.Gap, Txs: b.Txs})
	rep.BeginBlock(blk)
	if rep.Panicked {
		return &violation{"node-panic", "BeginBlock", fmt.Sprintf("h=%d: the application panicked in BeginBlock", blk.Height)}, nil
	}
	r.v.st = rep.App.Context.Storage().Balances.State
	check := map[int]bool{}
	for _, c := range b.Check {
		check[c] = true
	}
	var res []abci.ResponseDeliverTx
	for i, tx := range b.Txs {
		if check[i] {
			rep.CheckTx(tx) // the mempool works concurrently with block execution
			if rep.Panicked {
				return &violation{"node-panic", "CheckTx", fmt.Sprintf("h=%d tx#%d: the application panicked in CheckTx", blk.Height, i)}, res
			}
		}
		v, d := r.deliver(blk.Height, i, tx, b.Kinds[i], b.Tags[i])
		res = append(res, d)
		if v != nil {
			return v, res
		}
	}
	end := rep.EndBlock(blk.Height)
	if rep.Panicked {
		return &violation{"node-panic", "EndBlock", fmt.Sprintf("h=%d: the application panicked in EndBlock", blk.Height)}, res
	}
	r.v.st = nil
	cm := rep.Commit()
	if rep.Panicked {
		return &violation{"node-panic", "Commit", fmt.Sprintf("h=%d: the application panicked in Commit", blk.Height)}, res
	}
	rep.IndexBlock(blk, res)
	_ = w.C.Advance(cm.Data, end.ValidatorUpdates)
	if v := r.oneLedgerCommitted(fmt.Sprintf("h=%d after commit", blk.Height)); v != nil {
		return v, res
	}
	// non-triviality: the block mixes native and OLVM transactions that executed and touch a common account
	nat, olv := map[string]bool{}, map[string]bool{}
	for i, tx := range b.Txs {
		if res[i].Code != 0 {
			continue
		}
		if o, ok := decodeOLVM(tx); ok {
			olv[string(o.from)] = true
			if o.to != nil {
				olv[string(*o.to)] = true
			}
		} else {
			for _, a := range nativeParties(tx) {
				nat[string(a)] = true
			}
		}
	}
	for a := range nat {
		if olv[a] {
			r.st.add("nt:mixed-block-common-account")
			r.st.nt = true
			break
		}
	}
	return nil, res
}

// nativeParties returns sender and receiver of a SEND / SENDPOOL.
func nativeParties(raw []byte) []keys.Address {
	stx := &action.SignedTx{}
	if err := serialize.GetSerializer(serialize.NETWORK).Deserialize(raw, stx); err != nil {
		return nil
	}
	var m struct {
		From keys.Address `json:"from"`
		To   keys.Address `json:"to"`
	}
	if json.Unmarshal(stx.Data, &m) != nil {
		return nil
	}
	return []keys.Address{m.From, m.To}
}

// ---- generator ------------------------------------------------------------------------------------

type gen struct {
	u        *hist.U
	w        *hist.World
	r        *runner
	memo     int
	nonce    map[string]uint64 // expected next nonce per eth user (state nonce + expected executions in the block being built)
	ctrs     []ethcmn.Address  // contracts believed to exist (committed or created earlier in the block being built)
	ctrType  map[ethcmn.Address]string
	seen     map[string]bool // transaction bytes already used (a byte-identical resubmission returns the cached response)
	spent    map[string]bool // eth users that already have a transaction in the block being built
	olvmGaps bool
}

func (g *gen) pick(xs []string, label string) string { return xs[g.u.N(len(xs), label)] }

func fresh(n int) keys.Address {
	b := make([]byte, 20)
	b[0], b[19] = 0xfa, byte(n)
	return keys.Address(b)
}

var e18 = new(big.Int).Exp(big.NewInt(10), big.NewInt(18), nil)

func (g *gen) someValue(label string) *big.Int {
	switch g.u.N(10, label) {
	case 0, 1, 2, 3:
		return big.NewInt(0)
	case 4, 5, 6:
		return big.NewInt(int64(g.u.Range(1, 1000000, label+"-s")))
	case 7, 8:
		return new(big.Int).Mul(big.NewInt(int64(g.u.Range(1, 5, label+"-o"))), e18)
	default:
		return big.NewInt(1)
	}
}

// olvm draws one OLVM transaction of user e.
func (g *gen) olvm(e *sim.EthUser) (txgen.Tx, string) {
	w := g.w
	a := txgen.OLVMArgs{ChainID: w.P.ChainID, Nonce: g.nonce[e.Name], Fee: txgen.Fee{Price: big.NewInt(1000000000), Cur: "OLT", Gas: 300000}}
	tag := ""
	valid := true
	// shape
	shape := g.u.N(100, "shape")
	switch {
	case shape < 30 || (shape >= 50 && len(g.ctrs) == 0 && shape < 70):
		var to keys.Address
		switch g.u.N(10, "tok") {
		case 0, 1, 2:
			to = w.G.U.Eth[g.u.N(len(w.G.U.Eth), "toe")].OLAddr()
			tag = "transfer-eth"
		case 3, 4, 5:
			to = w.G.U.Users[g.u.N(len(w.G.U.Users), "tou")].Addr
			tag = "transfer-native"
		case 6:
			to = w.G.U.Vals[g.u.N(len(w.G.U.Vals), "tov")].Stake.Addr
			tag = "transfer-stake"
		case 7:
			to = keys.Address("00000000000000000001")
			tag = "transfer-pool"
		default:
			to = fresh(g.u.N(4, "tof"))
			tag = "transfer-fresh"
		}
		t := ethcmn.BytesToAddress(to)
		a.To = &t
		a.Value = g.someValue("value")
		a.Fee.Gas = []int64{21000, 21000, 21000, 50000, 100000}[g.u.N(5, "gas")]
	case shape < 50 || len(g.ctrs) == 0:
		rt := g.pick(runtimeNames, "rt")
		a.Data = initCode(runtimes[rt])
		a.Value = g.someValue("value")
		a.Fee.Gas = []int64{300000, 300000, 100000, 70000, 58000}[g.u.N(5, "gas")]
		tag = "create-" + rt
		if a.Fee.Gas >= 100000 {
			c := ethcrypto.CreateAddress(e.Addr, g.nonce[e.Name])
			g.ctrs = append(g.ctrs, c)
			g.ctrType[c] = rt
		}
	default:
		c := g.ctrs[g.u.N(len(g.ctrs), "ctr")]
		a.To = &c
		arg := make([]byte, 32)
		arg[31] = byte([]int{0, 0, 1, 7, 9}[g.u.N(5, "arg")])
		a.Data = arg
		if g.u.N(6, "nodata") == 0 {
			a.Data = nil
		}
		a.Value = g.someValue("value")
		a.Fee.Gas = []int64{300000, 300000, 100000, 50000, 30000, 23000, 22000}[g.u.N(7, "gas")]
		tag = "call-" + g.ctrType[c]
		if g.ctrType[c] == "factory" {
			a.Data = ethcmn.LeftPadBytes(hist.FactoryChild(c).Bytes(), 32)
			a.Fee.Gas = []int64{300000, 300000, 100000, 60000}[g.u.N(4, "fgas")]
		}
		if g.ctrType[c] == "double" {
			// aim it at a self-destructing contract when there is one (any other contract otherwise)
			target := g.ctrs[g.u.N(len(g.ctrs), "dbl-any")]
			var kills []ethcmn.Address
			for _, k := range g.ctrs {
				if g.ctrType[k] == "kill" {
					kills = append(kills, k)
				}
			}
			if len(kills) > 0 && g.u.N(5, "dbl-kill") != 0 {
				target = kills[g.u.N(len(kills), "dbl-which")]
			}
			a.Data = ethcmn.LeftPadBytes(target.Bytes(), 32)
			a.Fee.Gas = []int64{300000, 300000, 100000}[g.u.N(3, "dgas")]
		}
		if g.ctrType[c] == "factoryrv" {
			a.Data = ethcmn.LeftPadBytes(hist.FactoryRvChild(c).Bytes(), 32)
			if a.Value.Sign() == 0 && g.u.N(4, "frv-zero") != 0 {
				a.Value = big.NewInt(int64(g.u.Range(2, 1000000, "frv-v")))
			}
			a.Fee.Gas = []int64{300000, 300000, 100000}[g.u.N(3, "frgas")]
		}
		if g.ctrType[c] == "nest" {
			pickAcc := func(label string) []byte {
				if g.u.N(2, label) == 0 {
					return w.G.U.Eth[g.u.N(len(w.G.U.Eth), label+"e")].OLAddr()
				}
				return w.G.U.Users[g.u.N(len(w.G.U.Users), label+"u")].Addr
			}
			a.Data = append(append(ethcmn.LeftPadBytes(pickAcc("nest-a"), 32), ethcmn.LeftPadBytes(pickAcc("nest-b"), 32)...),
				ethcmn.LeftPadBytes(hist.NestFresh(fmt.Sprintf("%s-%d", e.Name, a.Nonce)), 32)...)
			if a.Value.Sign() == 0 && g.u.N(4, "nest-zero") != 0 {
				a.Value = big.NewInt(int64(g.u.Range(1, 1000000, "nest-v")))
			}
			a.Fee.Gas = []int64{300000, 300000, 100000, 60000}[g.u.N(4, "ngas")]
		}
	}
	// failure classes of the consensus pre-checks, and nonce shapes
	switch g.u.N(32, "fail") {
	case 0:
		if a.Nonce > 0 {
			a.Nonce -= uint64(g.u.Range(1, int(min64(a.Nonce, 2)), "low"))
			tag += "+nonce-low"
			valid = false
		}
	case 1, 2:
		if g.olvmGaps {
			a.Nonce += uint64(g.u.Range(1, 3, "gap"))
			tag += "+nonce-gap"
		}
	case 3:
		a.SignChain = big.NewInt(int64(g.u.Range(1, 5, "chain")))
		tag += "+wrong-sign-chain"
		valid = false
	case 4:
		a.MsgChain = big.NewInt(int64(g.u.Range(1, 5, "chain")))
		tag += "+wrong-msg-chain"
		valid = false
	case 5:
		m := g.pick([]string{"x", "", "-1", "99999"}, "memo")
		a.Memo = &m
		tag += "+bad-memo"
		valid = false
	case 6:
		a.Fee.Price = new(big.Int).Mul(e18, e18) // gas x price beyond any balance
		tag += "+cannot-pay-gas"
		valid = false
	case 7:
		a.Value = new(big.Int).Mul(big.NewInt(200000000), e18) // more than the account holds
		tag += "+value-over-balance"
		valid = false
	case 8:
		a.Fee.Gas = []int64{20999, 1, 0, 15000}[g.u.N(4, "lowgas")]
		tag += "+gas-below-intrinsic"
		valid = false
	case 9:
		a.Fee.Price = big.NewInt(int64(g.u.Range(0, 999999999, "price")))
		tag += "+price-below-minimum"
		valid = false
	case 10:
		a.Fee.Price = big.NewInt(int64(g.u.Range(1000000001, 5000000000, "price")))
		tag += "+price-high"
	case 12, 13:
		// an access list in the payload raises the intrinsic gas the VM demands; the mempool check prices the
		// transaction without it: a limit between the two values is refused after the gas was bought
		al := ethtypes.AccessList{{Address: ethcmn.BytesToAddress([]byte{0xaa}), StorageKeys: []ethcmn.Hash{{1}}}}
		extra := int64(2400 + 1900)
		a.Access = &al
		if base, err := vm.IntrinsicGas(a.Data, nil, a.To == nil); err == nil {
			short := []int64{0, extra - 1, 2400}[g.u.N(3, "alshort")]
			a.Fee.Gas = int64(base) + short
			tag += "+access-list-gas-short"
			valid = false
		} else {
			a.Access = nil
		}
	case 11:
		// spend the whole balance: value = committed balance - gas limit x price (exact only for a plain
		// transfer that is the sender's first spending in the block; otherwise it is over the balance)
		if a.To != nil && len(a.Data) == 0 && !g.spent[e.Name] {
			a.Fee.Gas = 21000
			cost := new(big.Int).Mul(big.NewInt(a.Fee.Gas), a.Fee.Price)
			if bal := g.w.Bal(e.OLAddr(), "OLT"); bal.Cmp(cost) > 0 {
				a.Value = new(big.Int).Sub(bal, cost)
				tag += "+drain-exact"
			}
		}
	}
	g.spent[e.Name] = true
	tx := txgen.OLVM(e, a)
	for g.seen[string(tx.Bytes)] {
		a.Fee.Gas++
		tx = txgen.OLVM(e, a)
	}
	g.seen[string(tx.Bytes)] = true
	if valid {
		g.nonce[e.Name]++
	}
	return tx, tag
}

func min64(a, b uint64) uint64 {
	if a < b {
		return a
	}
	return b
}

// send draws a native transfer; focus is the eth user the block concentrates on.
func (g *gen) send(focus *sim.EthUser) (txgen.Tx, string) {
	w := g.w
	from := w.G.U.Users[g.u.N(len(w.G.U.Users), "from")]
	var to keys.Address
	tag := ""
	switch k := g.u.N(20, "tok"); {
	case k < 10:
		to, tag = focus.OLAddr(), "to-focus-eth"
	case k < 12:
		to, tag = w.G.U.Eth[g.u.N(len(w.G.U.Eth), "toe")].OLAddr(), "to-eth"
	case k < 15 && len(g.ctrs) > 0:
		to, tag = keys.Address(g.ctrs[g.u.N(len(g.ctrs), "toc")].Bytes()), "to-contract"
	case k < 18:
		to, tag = w.G.U.Users[g.u.N(len(w.G.U.Users), "tou")].Addr, "to-native"
	default:
		to, tag = fresh(g.u.N(4, "tof")), "to-fresh"
	}
	amt := g.someValue("amt")
	if g.u.N(25, "over") == 0 {
		amt = new(big.Int).Mul(big.NewInt(300000000), e18)
		tag += "+over-balance"
	}
	g.memo++
	tx := txgen.Send(from, from.Addr, to, txgen.Amt("OLT", amt), w.Fee, fmt.Sprintf("c17-%d", g.memo))
	return tx, tag
}

func (g *gen) sendPool() (txgen.Tx, string) {
	w := g.w
	from := w.G.U.Users[g.u.N(len(w.G.U.Users), "from")]
	pool := g.pick([]string{"RewardsPool", "DelegationPool", "BountyPool", "FeePool"}, "pool")
	g.memo++
	tx := txgen.SendPool(from, from.Addr, pool, txgen.Amt("OLT", g.someValue("amt")), w.Fee, fmt.Sprintf("c17-%d", g.memo))
	return tx, "pool-" + pool
}

// refresh re-reads nonces and contracts from the committed state before a block is built.
func (g *gen) refresh() {
	tmp := storage.NewState(g.w.Primary().App.Context.Storage().Chainstate)
	ak := balance.NewNesterAccountKeeper(tmp, balance.NewStore("b", tmp), g.r.v.cur)
	for _, e := range g.w.G.U.Eth {
		g.nonce[e.Name] = ak.GetNonce(e.OLAddr())
	}
	ad := vm.NewCommitStateDB(evm.NewContractStore(tmp), ak, g.r.v.lg)
	var live []ethcmn.Address
	for _, c := range g.ctrs {
		if t := codeType(ad.GetCode(c)); t != "none" {
			g.ctrType[c] = t
			live = append(live, c)
		}
	}
	g.ctrs = live
}

func (g *gen) block(maxTx int) Block {
	g.refresh()
	g.spent = map[string]bool{}
	b := Block{Gap: int64([]int{1, 5, 5, 17, 3600}[g.u.N(5, "gap")])}
	focus := g.w.G.U.Eth[g.u.N(len(g.w.G.U.Eth), "focus")]
	n := g.u.Range(0, maxTx, "ntx")
	for i := 0; i < n; i++ {
		var tx txgen.Tx
		var tag string
		switch k := g.u.N(20, "kind"); {
		case k < 12:
			e := focus
			if g.u.N(4, "other") == 0 {
				e = g.w.G.U.Eth[g.u.N(len(g.w.G.U.Eth), "e")]
			}
			tx, tag = g.olvm(e)
		case k < 18:
			tx, tag = g.send(focus)
		default:
			tx, tag = g.sendPool()
		}
		b.Txs = append(b.Txs, tx.Bytes)
		b.Kinds = append(b.Kinds, tx.Kind)
		b.Tags = append(b.Tags, tag)
		if g.u.N(4, "check") == 0 {
			b.Check = append(b.Check, i)
		}
	}
	return b
}

// ---- the property ---------------------------------------------------------------------------------

func newRunner(p sim.Params) (*runner, error) {
	w, err := hist.NewWorld(p, hist.Roles(p, 1))
	if err != nil {
		return nil, err
	}
	if _, err := w.Init(); err != nil {
		w.Close()
		return nil, err
	}
	r := &runner{w: w, v: newView(w.Primary()), tracked: map[string]keys.Address{}, st: &stats{classes: map[string]int{}}}
	for _, e := range w.G.U.Eth {
		r.track(e.OLAddr())
	}
	for _, u := range w.G.U.Users {
		r.track(u.Addr)
	}
	for _, v := range w.G.U.Vals {
		r.track(v.Stake.Addr)
	}
	for i := 0; i < 4; i++ {
		r.track(fresh(i))
	}
	r.track(keys.Address("00000000000000000001"))
	return r, nil
}

func params(seed string) sim.Params {
	p := sim.DefaultParams()
	p.Seed = "c17-" + seed
	p.Frankenstein = 1
	return p
}

// execute runs a trace; with draw != nil blocks are generated on the fly.
func execute(h *run.H, tr *Trace, draw func(r *runner, i int) (Block, bool)) (*violation, *stats) {
	r, err := newRunner(tr.Params)
	if err != nil {
		return &violation{"harness", "world", err.Error()}, &stats{classes: map[string]int{}}
	}
	defer r.w.Close()
	// block 1 switches the EVM on
	if v, _ := r.runBlock(Block{Gap: 5}); v != nil {
		return v, r.st
	}
	for i := 0; ; i++ {
		var b Block
		if draw != nil {
			nb, ok := draw(r, i)
			if !ok {
				break
			}
			b = nb
			tr.Blocks = append(tr.Blocks, b)
			if h != nil {
				h.Journal(tr)
			}
		} else {
			if i >= len(tr.Blocks) {
				break
			}
			b = tr.Blocks[i]
		}
		if v, _ := r.runBlock(b); v != nil {
			return v, r.st
		}
	}
	return nil, r.st
}

func summary(tr *Trace) string {
	var sb strings.Builder
	for _, b := range tr.Blocks {
		sb.WriteString("[")
		for i, k := range b.Kinds {
			if i > 0 {
				sb.WriteString(" ")
			}
			sb.WriteString(k + ":" + b.Tags[i])
		}
		sb.WriteString("]")
	}
	s := sb.String()
	if len(s) > 900 {
		s = s[:900] + "…"
	}
	return s
}

const rule = "histories of 4-30 blocks with 0-5 transactions each on the application (fork at block 1 so the EVM is on): OLVM transfers to eth, native-only, stake, pool and fresh accounts, contract creations (5 runtimes: store, revert, out-of-gas loop, self-destruct, log) and calls with generated gas limits, prices and values, nonce equal / lower / gapped, wrong chain id (signature and message), bad memo, unpayable gas, value over balance, gas below intrinsic, price below minimum, mixed with native SEND (mostly to the block's focus OLVM sender) and SENDPOOL, with mempool checks interleaved; after every transaction: native balance record = EVM adapter balance for every tracked account and the EVM account record carries no balance of its own, executed OLVM transactions: sender -(gasUsed x price + value transferred), fee pool +gasUsed x price, recipient +value transferred, nonce +1, rejected OLVM transactions: the block's write set is identical before and after; after every commit: every balance record of the tree against a fresh adapter; non-trivial = a block with an executed native and an executed OLVM transaction touching a common account, or an OLVM transaction that reverted / ran out of gas with value attached; distinct by trace hash"

func TestC17(t *testing.T) {
	h := run.Start(t, "C17")
	defer h.Finish()
	h.SetRule(rule)
	maxBlocks := h.Scale(14, 30)
	rapid.Check(t, func(rt *rapid.T) {
		u := hist.NewU(rt)
		tr := &Trace{Params: params(fmt.Sprint(h.Seed))}
		nb := u.Range(4, maxBlocks, "nblocks")
		var g *gen
		v, st := execute(h, tr, func(r *runner, i int) (Block, bool) {
			if g == nil {
				g = &gen{u: u, w: r.w, r: r, nonce: map[string]uint64{}, ctrType: map[ethcmn.Address]string{}, seen: map[string]bool{}, spent: map[string]bool{}, olvmGaps: true}
			}
			if i >= nb {
				return Block{}, false
			}
			return g.block(5), true
		})
		ntKey := ""
		if st.nt {
			b, _ := json.Marshal(tr.Blocks)
			ntKey = string(b)
		}
		var classes []string
		for c, n := range st.classes {
			for k := 0; k < n; k++ {
				classes = append(classes, c)
			}
		}
		var sample interface{}
		if len(tr.Blocks) <= 6 {
			sample = summary(tr)
		}
		h.Eval(ntKey, classes, sample)
		if v != nil {
			h.Fail(rt, v.oracle, v.sig(), tr, "%s | %s", v.msg, summary(tr))
		}
	})
}

func TestReplay(t *testing.T) {
	path := run.ReplayFile()
	if path == "" {
		t.Skip("no VERIF_REPLAY")
	}
	f, err := run.LoadFailure(path)
	if err != nil {
		t.Fatal(err)
	}
	var tr Trace
	if err := json.Unmarshal(f.Case, &tr); err != nil {
		t.Fatal(err)
	}
	h := run.Start(t, "C17")
	defer h.Finish()
	if v, _ := execute(nil, &tr, nil); v != nil {
		h.Fail(t, v.oracle, v.sig(), &tr, "%s", v.msg)
	}
}
