package c05

// Re-encoding operators: the original transaction is parsed into an ordered JSON tree and
// re-serialised with decorations that a JSON decoder ignores (constructed, not filtered).

import (
	"bytes"
	"encoding/base64"
	"encoding/json"
	"errors"
	"fmt"
	"math/big"
	"reflect"
	"strings"

	"github.com/Oneledger/protocol/action"
)

// chooser abstracts the source of choices (rapid draws or fuzz bytes).
type chooser interface {
	Intn(n int, label string) int
}

type node struct {
	kind  byte // o object, a array, s string, n number, l literal (true/false/null)
	keys  []string
	vals  []*node
	items []*node
	str   string
	raw   string
}

func parseTree(b []byte) (*node, error) {
	dec := json.NewDecoder(bytes.NewReader(b))
	dec.UseNumber()
	n, err := parseValue(dec)
	if err != nil {
		return nil, err
	}
	if dec.More() {
		return nil, errors.New("trailing data")
	}
	return n, nil
}

func parseValue(dec *json.Decoder) (*node, error) {
	tok, err := dec.Token()
	if err != nil {
		return nil, err
	}
	switch t := tok.(type) {
	case json.Delim:
		switch t {
		case '{':
			n := &node{kind: 'o'}
			for dec.More() {
				kt, err := dec.Token()
				if err != nil {
					return nil, err
				}
				k, ok := kt.(string)
				if !ok {
					return nil, errors.New("bad key")
				}
				v, err := parseValue(dec)
				if err != nil {
					return nil, err
				}
				n.keys = append(n.keys, k)
				n.vals = append(n.vals, v)
			}
			_, err := dec.Token()
			return n, err
		case '[':
			n := &node{kind: 'a'}
			for dec.More() {
				v, err := parseValue(dec)
				if err != nil {
					return nil, err
				}
				n.items = append(n.items, v)
			}
			_, err := dec.Token()
			return n, err
		}
		return nil, errors.New("unexpected delimiter")
	case string:
		return &node{kind: 's', str: t}, nil
	case json.Number:
		return &node{kind: 'n', raw: t.String()}, nil
	case bool:
		if t {
			return &node{kind: 'l', raw: "true"}, nil
		}
		return &node{kind: 'l', raw: "false"}, nil
	case nil:
		return &node{kind: 'l', raw: "null"}, nil
	}
	return nil, errors.New("unexpected token")
}

// emitOpts are the decorations of one re-serialisation. Paths: "" is the root object,
// members are joined with '.', array elements are "[i]" (e.g. "signatures[0].Signer.data").
type emitOpts struct {
	Lead, Trail string
	Interior    string            // inserted after every ':' and ','
	KeyName     map[string]string // member path -> key text to emit instead (case variants)
	EscapeKey   map[string]bool   // member path -> emit the key with \u escapes
	EscapeStr   map[string]bool   // string value path -> emit every character as \uXXXX
	Order       map[string]int    // object path -> rotate members by k
	Extra       map[string]string // object path -> raw member text appended (`"k":v`)
	ExtraFirst  map[string]string // object path -> raw member text prepended
	DupBefore   map[string]string // member path -> raw junk value emitted (same key) before the real member
	DupSame     map[string]bool   // member path -> member emitted twice
	Replace     map[string]string // value path -> raw JSON text emitted instead of the value
}

func quoteEscaped(s string) string {
	var sb strings.Builder
	sb.WriteByte('"')
	for _, r := range s {
		if r > 0xffff {
			r1, r2 := utf16pair(r)
			fmt.Fprintf(&sb, `\u%04x\u%04x`, r1, r2)
		} else {
			fmt.Fprintf(&sb, `\u%04x`, r)
		}
	}
	sb.WriteByte('"')
	return sb.String()
}

func utf16pair(r rune) (rune, rune) {
	r -= 0x10000
	return 0xd800 + (r>>10)&0x3ff, 0xdc00 + r&0x3ff
}

func quote(s string) string {
	b, _ := json.Marshal(s)
	return string(b)
}

func emit(n *node, o *emitOpts) []byte {
	var sb bytes.Buffer
	sb.WriteString(o.Lead)
	emitNode(&sb, n, "", o)
	sb.WriteString(o.Trail)
	return sb.Bytes()
}

func join(path, key string) string {
	if path == "" {
		return key
	}
	return path + "." + key
}

func emitNode(sb *bytes.Buffer, n *node, path string, o *emitOpts) {
	if r, ok := o.Replace[path]; ok {
		sb.WriteString(r)
		return
	}
	switch n.kind {
	case 'o':
		sb.WriteByte('{')
		first := true
		sep := func() {
			if !first {
				sb.WriteByte(',')
				sb.WriteString(o.Interior)
			}
			first = false
		}
		if x, ok := o.ExtraFirst[path]; ok {
			sep()
			sb.WriteString(x)
		}
		idx := make([]int, len(n.keys))
		for i := range idx {
			idx[i] = i
		}
		if k, ok := o.Order[path]; ok && len(idx) > 1 {
			k %= len(idx)
			idx = append(idx[k:], idx[:k]...)
		}
		for _, i := range idx {
			mp := join(path, n.keys[i])
			key := n.keys[i]
			if kn, ok := o.KeyName[mp]; ok {
				key = kn
			}
			keyText := quote(key)
			if o.EscapeKey[mp] {
				keyText = quoteEscaped(key)
			}
			times := 1
			if o.DupSame[mp] {
				times = 2
			}
			if junk, ok := o.DupBefore[mp]; ok {
				sep()
				sb.WriteString(keyText)
				sb.WriteByte(':')
				sb.WriteString(o.Interior)
				sb.WriteString(junk)
			}
			for t := 0; t < times; t++ {
				sep()
				sb.WriteString(keyText)
				sb.WriteByte(':')
				sb.WriteString(o.Interior)
				emitNode(sb, n.vals[i], mp, o)
			}
		}
		if x, ok := o.Extra[path]; ok {
			sep()
			sb.WriteString(x)
		}
		sb.WriteByte('}')
	case 'a':
		sb.WriteByte('[')
		for i, it := range n.items {
			if i > 0 {
				sb.WriteByte(',')
				sb.WriteString(o.Interior)
			}
			emitNode(sb, it, fmt.Sprintf("%s[%d]", path, i), o)
		}
		sb.WriteByte(']')
	case 's':
		if o.EscapeStr[path] {
			sb.WriteString(quoteEscaped(n.str))
		} else {
			sb.WriteString(quote(n.str))
		}
	default:
		sb.WriteString(n.raw)
	}
}

// lookup returns the node at a path.
func lookup(n *node, path string) *node {
	if path == "" {
		return n
	}
	cur := n
	for _, part := range strings.Split(path, ".") {
		name := part
		idx := -1
		if i := strings.IndexByte(part, '['); i >= 0 {
			name = part[:i]
			fmt.Sscanf(part[i:], "[%d]", &idx)
		}
		if cur == nil || cur.kind != 'o' {
			return nil
		}
		var next *node
		for k, key := range cur.keys {
			if key == name {
				next = cur.vals[k]
			}
		}
		cur = next
		if idx >= 0 {
			if cur == nil || cur.kind != 'a' || idx >= len(cur.items) {
				return nil
			}
			cur = cur.items[idx]
		}
	}
	return cur
}

// ---- paths of a signed transaction -------------------------------------------------------

var objectPaths = []string{"", "fee", "fee.price", "signatures[0]", "signatures[0].Signer"}

var memberPaths = []string{"type", "data", "fee", "memo", "signatures", "fee.price", "fee.gas", "fee.price.currency", "fee.price.value",
	"signatures[0].Signer", "signatures[0].Signed", "signatures[0].Signer.keyType", "signatures[0].Signer.data"}

var stringPaths = []string{"data", "memo", "fee.price.currency", "fee.price.value", "signatures[0].Signed", "signatures[0].Signer.keyType", "signatures[0].Signer.data"}

var base64Paths = []string{"data", "signatures[0].Signed", "signatures[0].Signer.data"}

func lastKey(p string) string {
	if i := strings.LastIndexByte(p, '.'); i >= 0 {
		return p[i+1:]
	}
	return p
}

func caseVariant(k string, which int) string {
	switch which % 4 {
	case 0:
		return strings.ToUpper(k)
	case 1:
		return strings.ToUpper(k[:1]) + k[1:]
	case 2:
		return strings.ToLower(k)
	default:
		b := []byte(k)
		for i := range b {
			if i%2 == 1 {
				b[i] = strings.ToUpper(string(b[i]))[0]
			} else {
				b[i] = strings.ToLower(string(b[i]))[0]
			}
		}
		return string(b)
	}
}

// junkFor returns a type-compatible throw-away value for a member path.
func junkFor(p string) string {
	switch lastKey(p) {
	case "type":
		return "2"
	case "gas":
		return "7"
	case "data", "Signed":
		return `"anVuaw=="`
	case "memo":
		return `"junk"`
	case "currency":
		return `"VT"`
	case "value":
		return `"7"`
	case "keyType":
		return `"secp256k1"`
	case "fee":
		return `{"price":{"currency":"VT","value":"1"},"gas":1}`
	case "price":
		return `{"currency":"VT","value":"1"}`
	case "signatures":
		return `[]`
	case "Signer":
		return `{"keyType":"secp256k1","data":"anVuaw=="}`
	}
	return "null"
}

// Enc is one re-encoding of a transaction.
type Enc struct {
	Op    string `json:"op"`
	Bytes []byte `json:"bytes"`
}

var wsChoices = []string{" ", "\n", "\t", "\r\n", "  ", " \n\t"}

// opNames lists the tx-level re-encoding operators.
var opNames = []string{
	"identity", "ws-leading", "ws-trailing", "ws-interior", "key-reorder", "dup-key-junk-first", "dup-key-same",
	"extra-field-top", "extra-field-fee", "extra-field-signature", "extra-field-first", "key-case", "key-escape", "string-escape",
	"base64-crlf", "base64-trailing-bits", "numeric-value", "number-form", "trailing-garbage", "declared-absent-member",
}

// declaredAbsent lists, as `"name":value` texts, the members the repository's own envelope type declares (read by
// reflection from action.SignedTx, so a member added to that type is found without being guessed) that the given
// top-level object does not carry — an optional member left out by the canonical writer. On the pinned type every
// declared member is always written, so the list is empty and the operator degenerates to the identity.
func declaredAbsent(tree *node) []string {
	have := map[string]bool{}
	if tree != nil && tree.kind == 'o' {
		for _, k := range tree.keys {
			have[strings.ToLower(k)] = true
		}
	}
	var out []string
	var walk func(t reflect.Type)
	walk = func(t reflect.Type) {
		for i := 0; i < t.NumField(); i++ {
			f := t.Field(i)
			if f.Anonymous && f.Type.Kind() == reflect.Struct {
				walk(f.Type)
				continue
			}
			if f.PkgPath != "" {
				continue
			}
			name := f.Name
			if tag := f.Tag.Get("json"); tag != "" {
				if n := strings.Split(tag, ",")[0]; n == "-" {
					continue
				} else if n != "" {
					name = n
				}
			}
			if have[strings.ToLower(name)] {
				continue
			}
			v := `"x"`
			switch f.Type.Kind() {
			case reflect.Bool:
				v = "true"
			case reflect.Int, reflect.Int8, reflect.Int16, reflect.Int32, reflect.Int64, reflect.Uint, reflect.Uint8, reflect.Uint16, reflect.Uint32, reflect.Uint64, reflect.Float32, reflect.Float64:
				v = "1"
			case reflect.Slice:
				v = `"eA=="`
				if f.Type.Elem().Kind() != reflect.Uint8 {
					v = "[]"
				}
			case reflect.Map, reflect.Struct, reflect.Ptr, reflect.Interface:
				v = "{}"
			}
			out = append(out, quote(name)+":"+v)
		}
	}
	walk(reflect.TypeOf(action.SignedTx{}))
	return out
}

// reencode applies one operator.
func reencode(tree *node, op string, c chooser) []byte {
	o := &emitOpts{}
	switch op {
	case "identity":
	case "ws-leading":
		o.Lead = wsChoices[c.Intn(len(wsChoices), "ws")]
	case "ws-trailing":
		o.Trail = wsChoices[c.Intn(len(wsChoices), "ws")]
	case "ws-interior":
		o.Interior = wsChoices[c.Intn(len(wsChoices), "ws")]
	case "key-reorder":
		p := objectPaths[c.Intn(len(objectPaths), "obj")]
		o.Order = map[string]int{p: 1 + c.Intn(4, "rot")}
	case "dup-key-junk-first":
		p := memberPaths[c.Intn(len(memberPaths), "member")]
		o.DupBefore = map[string]string{p: junkFor(p)}
	case "dup-key-same":
		p := memberPaths[c.Intn(len(memberPaths), "member")]
		o.DupSame = map[string]bool{p: true}
	case "extra-field-top":
		o.Extra = map[string]string{"": []string{`"extra":1`, `"nonce":7`, `"x":{"type":2,"memo":"no"}`, `"":null`}[c.Intn(4, "extra")]}
	case "declared-absent-member":
		if cands := declaredAbsent(tree); len(cands) > 0 {
			o.Extra = map[string]string{"": cands[c.Intn(len(cands), "declared")]}
		}
	case "extra-field-fee":
		o.Extra = map[string]string{[]string{"fee", "fee.price"}[c.Intn(2, "where")]: `"tip":"5"`}
	case "extra-field-signature":
		o.Extra = map[string]string{[]string{"signatures[0]", "signatures[0].Signer"}[c.Intn(2, "where")]: `"note":"x"`}
	case "extra-field-first":
		p := objectPaths[c.Intn(len(objectPaths), "obj")]
		o.ExtraFirst = map[string]string{p: `"zz":[1,{"a":null}]`}
	case "key-case":
		p := memberPaths[c.Intn(len(memberPaths), "member")]
		o.KeyName = map[string]string{p: caseVariant(lastKey(p), c.Intn(4, "case"))}
	case "key-escape":
		p := memberPaths[c.Intn(len(memberPaths), "member")]
		o.EscapeKey = map[string]bool{p: true}
	case "string-escape":
		p := stringPaths[c.Intn(len(stringPaths), "string")]
		o.EscapeStr = map[string]bool{p: true}
	case "base64-crlf":
		p := base64Paths[c.Intn(len(base64Paths), "b64")]
		if n := lookup(tree, p); n != nil && n.kind == 's' && len(n.str) > 0 {
			i := c.Intn(len(n.str)+1, "pos")
			o.Replace = map[string]string{p: quote(n.str[:i] + []string{"\r\n", "\n", "\r"}[c.Intn(3, "nl")] + n.str[i:])}
		}
	case "base64-trailing-bits":
		// non-canonical trailing bits in the last quantum (Go's decoder is not strict)
		for k := 0; k < len(base64Paths); k++ {
			p := base64Paths[(c.Intn(len(base64Paths), "b64")+k)%len(base64Paths)]
			n := lookup(tree, p)
			if n == nil || n.kind != 's' || !strings.HasSuffix(n.str, "=") {
				continue
			}
			s := []byte(n.str)
			i := len(s) - 1
			for i > 0 && s[i] == '=' {
				i--
			}
			const alpha = "ABCDEFGHIJKLMNOPQRSTUVWXYZabcdefghijklmnopqrstuvwxyz0123456789+/"
			v := strings.IndexByte(alpha, s[i])
			if v < 0 {
				continue // (stacked operators: a line break was inserted here before)
			}
			s[i] = alpha[v|1] // set an unused low bit
			if string(s) == n.str {
				s[i] = alpha[v|2]
			}
			o.Replace = map[string]string{p: quote(string(s))}
			break
		}
	case "numeric-value":
		if n := lookup(tree, "fee.price.value"); n != nil && n.kind == 's' {
			if v, ok := new(big.Int).SetString(n.str, 10); ok {
				forms := []string{"0x" + v.Text(16), "+" + v.String(), "0b" + v.Text(2), "0o" + v.Text(8), "0X" + strings.ToUpper(v.Text(16)), underscored(v.String())}
				o.Replace = map[string]string{"fee.price.value": quote(forms[c.Intn(len(forms), "form")])}
			}
		}
	case "number-form":
		p := []string{"type", "fee.gas"}[c.Intn(2, "which")]
		if n := lookup(tree, p); n != nil && n.kind == 'n' {
			forms := []string{n.raw + ".0", n.raw + "e0", n.raw + "E+0", "-0" + n.raw}
			o.Replace = map[string]string{p: forms[c.Intn(len(forms), "form")]}
		}
	case "trailing-garbage":
		o.Trail = []string{"{}", " null", "\x00", ","}[c.Intn(4, "garbage")]
	}
	return emit(tree, o)
}

func underscored(s string) string {
	if len(s) < 4 {
		return s
	}
	return s[:len(s)-3] + "_" + s[len(s)-3:]
}

// ---- OLVM payload-level re-encodings (same ethereum transaction, different data / memo /
// signer-entry bytes) -----------------------------------------------------------------------

var olvmOpNames = []string{"olvm-payload-whitespace", "olvm-payload-key-reorder", "olvm-payload-extra-member", "olvm-payload-from-hex-form",
	"olvm-payload-accesslist-empty", "olvm-memo-leading-zeros", "olvm-signer-key-altered", "olvm-signer-keytype-altered"}

func olvmReencode(tree *node, op string, c chooser) []byte {
	dn := lookup(tree, "data")
	if dn == nil || dn.kind != 's' {
		return emit(tree, &emitOpts{})
	}
	payload, err := base64.StdEncoding.DecodeString(dn.str)
	if err != nil {
		return emit(tree, &emitOpts{})
	}
	pt, err := parseTree(payload)
	if err != nil {
		return emit(tree, &emitOpts{})
	}
	o := &emitOpts{}
	po := &emitOpts{}
	switch op {
	case "olvm-payload-whitespace":
		po.Interior = " "
		po.Lead = wsChoices[c.Intn(len(wsChoices), "ws")]
	case "olvm-payload-key-reorder":
		po.Order = map[string]int{"": 1 + c.Intn(6, "rot")}
	case "olvm-payload-extra-member":
		po.Extra = map[string]string{"": `"gasLimit":1`}
	case "olvm-payload-from-hex-form":
		if n := lookup(pt, "from"); n != nil && n.kind == 's' {
			s := n.str
			switch c.Intn(3, "form") {
			case 0:
				s = strings.TrimPrefix(s, "0lt")
			case 1:
				s = "0lt" + strings.ToUpper(strings.TrimPrefix(s, "0lt"))
			default:
				s = strings.ToUpper(strings.TrimPrefix(s, "0lt"))
			}
			po.Replace = map[string]string{"from": quote(s)}
		}
	case "olvm-payload-accesslist-empty":
		po.Replace = map[string]string{"accessList": "[]"}
	case "olvm-memo-leading-zeros":
		if n := lookup(tree, "memo"); n != nil && n.kind == 's' {
			o.Replace = map[string]string{"memo": quote(strings.Repeat("0", 1+c.Intn(3, "zeros")) + n.str)}
		}
	case "olvm-signer-key-altered":
		if n := lookup(tree, "signatures[0].Signer.data"); n != nil && n.kind == 's' {
			raw, _ := base64.StdEncoding.DecodeString(n.str)
			if len(raw) > 0 {
				raw[c.Intn(len(raw), "pos")] ^= 0x40
			}
			o.Replace = map[string]string{"signatures[0].Signer.data": quote(base64.StdEncoding.EncodeToString(raw))}
		}
	case "olvm-signer-keytype-altered":
		o.Replace = map[string]string{"signatures[0].Signer.keyType": quote([]string{"ed25519", "secp256k1", "btcecsecp", "", "whatever"}[c.Intn(5, "kt")])}
	}
	if strings.HasPrefix(op, "olvm-payload") {
		np := emit(pt, po)
		o.Replace = map[string]string{"data": quote(base64.StdEncoding.EncodeToString(np))}
	}
	return emit(tree, o)
}
