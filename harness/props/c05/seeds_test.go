package c05

import (
	"encoding/json"
	"os"
	"path/filepath"
	"testing"

	"verif/hist"
	"verif/run"
)

type fixedChooser struct{}

func (fixedChooser) Intn(n int, label string) int { return 0 }

// TestMakeSeeds writes hand-built cases as replay files (run with VERIF_MAKE_SEEDS=<dir>).
func TestMakeSeeds(t *testing.T) {
	dir := os.Getenv("VERIF_MAKE_SEEDS")
	if dir == "" {
		t.Skip("VERIF_MAKE_SEEDS not set")
	}
	_ = os.MkdirAll(dir, 0o755)
	mk := func(kind string) *Case {
		c := &Case{Seed: "c05-seed", Opts: hist.FarmOpts{A: 0, B: 1, Eth: 0, Var: 0}, Kind: kind, Pre: 0, Gap: 2}
		w, f, err := buildWorld(c.Seed, c.Opts)
		if err != nil {
			t.Fatal(err)
		}
		defer w.Close()
		tx, err := f.Make(kind)
		if err != nil {
			t.Fatal(err)
		}
		c.Orig = tx.Bytes
		return c
	}
	// the minimal witness of the known finding: a SEND executed in block h, resubmitted with one
	// leading space in block h+2
	c := mk("SEND")
	c.Encs = []Enc{{"ws-leading", append([]byte(" "), c.Orig...)}}
	write(t, dir, "kf-leading-space-send.json", c, "noncanonical-replay-admitted", "C05/noncanonical-replay-admitted/SEND/ws-leading",
		"SEND executed in block h; the same bytes with one leading space are admitted by CheckTx and execute again in block h+2")
	// second known finding: an OLVM transfer whose nonce is one above the account's next nonce
	// executes; re-encoding its payload (different data bytes, same EIP-155 content) executes it again
	{
		c := &Case{Seed: "c05-seed", Opts: hist.FarmOpts{A: 0, B: 1, Eth: 0, Var: 0}, Kind: "OLVM", Gapn: 1, Pre: 0, Gap: 1}
		w, f, err := buildWorld(c.Seed, c.Opts)
		if err != nil {
			t.Fatal(err)
		}
		c.Orig = f.MakeOLVM(1, 777).Bytes
		w.Close()
		tree, _ := parseTree(c.Orig)
		c.Encs = []Enc{{"olvm-payload-whitespace", olvmReencode(tree, "olvm-payload-whitespace", fixedChooser{})}}
		write(t, dir, "kf-olvm-nonce-gap.json", c, "olvm-replay-executed", "C05/olvm-replay-executed/OLVM+nonce-gap/olvm-payload-whitespace",
			"OLVM transfer with nonce = account nonce + 1 executes; the same EIP-155 content with a space inside the payload JSON executes again")
	}
	// regression: message calls that fail inside the EVM consume their nonce too
	for _, which := range []string{"revert", "loop", "store"} {
		c := &Case{Seed: "c05-seed", Opts: hist.FarmOpts{A: 0, B: 1, Eth: 0, Var: 0}, Kind: "OLVM", Call: which, Pre: 0, Gap: 1}
		w, f, err := buildWorld(c.Seed, c.Opts)
		if err != nil {
			t.Fatal(err)
		}
		c.Orig = f.MakeOLVMCall(which, 0, 7).Bytes
		w.Close()
		c.Encs, err = buildEncs("OLVM", c.Orig, fixedChooser{}, nil)
		if err != nil {
			t.Fatal(err)
		}
		write(t, dir, "seed-olvm-call-"+which+".json", c, "seed", "C05/seed", "every re-encoding operator on an executed OLVM message call ("+which+")")
	}
	// regression inputs that must pass
	c = mk("SEND")
	c.Encs = []Enc{{"identity", c.Orig}}
	write(t, dir, "seed-identical-send.json", c, "seed", "C05/seed", "byte-identical resubmission of a SEND")
	c = mk("OLVM")
	var err error
	c.Encs, err = buildEncs("OLVM", c.Orig, fixedChooser{}, nil)
	if err != nil {
		t.Fatal(err)
	}
	write(t, dir, "seed-olvm-all-operators.json", c, "seed", "C05/seed", "every re-encoding operator on an executed OLVM transfer")
}

func write(t *testing.T, dir, name string, c *Case, oracle, sig, msg string) {
	cb, _ := json.Marshal(c)
	f := run.Failure{Property: "C05", Test: "TestReplay", Oracle: oracle, Message: msg, Sig: sig, Case: cb}
	b, _ := json.MarshalIndent(f, "", " ")
	if err := os.WriteFile(filepath.Join(dir, name), b, 0o644); err != nil {
		t.Fatal(err)
	}
}
