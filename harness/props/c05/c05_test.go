// Package c05: at-most-once — a signed transaction never takes effect twice.
//
// A well-formed transaction of some kind is executed in a block of a warmed-up state
// (hist.Farm). 1..10 blocks later it is submitted again, byte-identical and in re-encodings
// that parse to the same signed content (whitespace, key order, duplicate keys, unknown
// members, key case, string escapes, base64 variants, numeric forms; for OLVM also payload /
// memo / signer-entry variants of the same EIP-155 content). Asserted for every equivalent
// encoding e: CheckTx(e).Code != 0, and a block carrying e leaves the committed state equal
// to that of a twin that received the same block without it.
package c05

import (
	"crypto/sha256"

	"bytes"
	"encoding/json"
	"fmt"
	"github.com/Oneledger/protocol/data/keys"
	"math/big"

	ethcmn "github.com/ethereum/go-ethereum/common"
	"os"
	"strconv"
	"strings"
	"sync"
	"testing"

	"pgregory.net/rapid"

	"github.com/Oneledger/protocol/action"
	aolvm "github.com/Oneledger/protocol/action/olvm"

	"verif/hist"
	"verif/run"
	"verif/sim"
	"verif/txgen"
)

func TestMain(m *testing.M) {
	run.Quiet()
	os.Exit(m.Run())
}

// exclusion tag for OLVM originals whose nonce is above the account's next nonce.
const exclNonceGap = "C05:olvm-nonce-gap"

// Case is the replay payload.
type Case struct {
	Seed string        `json:"seed"`
	Opts hist.FarmOpts `json:"opts"`
	Kind string        `json:"kind"`
	Gapn uint64        `json:"nonce_gap,omitempty"` // OLVM only: the original's nonce is the account's next nonce plus this
	Call string        `json:"olvm_call,omitempty"` // OLVM only: "" transfer, or a message call to the farm's "store" (succeeds), "revert", "loop" (out of gas) contract
	Pre  int           `json:"pre"`                 // empty blocks between the farm prefix and the block that executes the original
	Orig []byte        `json:"orig"`                // the executed transaction
	Gap  int           `json:"gap"`                 // the first resubmission is delivered Gap blocks after the execution (1..10)
	Encs []Enc         `json:"resubmissions"`
	// OLVM only: the original spends the sender's whole balance (it ends at exactly zero); Refund, a native
	// SEND to the sender, is delivered to subject and twin in the block after the execution: the account
	// nonce is then the only thing between the old transaction and a second execution
	Ledger bool   `json:"ledger_signed,omitempty"` // the original is signed in the hardware-wallet (pre-hash) form
	Drain  bool   `json:"olvm_drain,omitempty"`
	Refund []byte `json:"refund_tx,omitempty"`
}

type violation struct {
	oracle string
	class  string
	msg    string
	min    *Case
}

// replica 0: subject; replica 1: twin (same blocks without the resubmissions); replica 2:
// effect probe (gets the execution block without the original, to see the original's effect).
var roles = []sim.Role{{ValIdx: 0, IsWitness: true}, {ValIdx: 0, IsWitness: true}, {ValIdx: 0, IsWitness: true}}

func buildWorld(seed string, o hist.FarmOpts) (w *hist.World, f *hist.Farm, err error) {
	// (a loaded machine can fail to open the scratch databases: try again before giving up)
	for attempt := 0; attempt < 3; attempt++ {
		if w, f, err = buildWorldOnce(seed, o); err == nil {
			return
		}
	}
	return
}

func buildWorldOnce(seed string, o hist.FarmOpts) (*hist.World, *hist.Farm, error) {
	p := hist.PrepareFarmParams(hist.FarmParams(seed), o)
	w, err := hist.NewWorld(p, roles)
	if err != nil {
		return nil, nil, err
	}
	if _, err := w.Init(); err != nil {
		w.Close()
		return nil, nil, err
	}
	f := hist.BuildFarm(w, o)
	if len(f.PrefixFail) > 0 {
		w.Close()
		return nil, nil, fmt.Errorf("farm prefix transaction failed: %v", f.PrefixFail)
	}
	for _, r := range w.R {
		if r.Panicked {
			w.Close()
			return nil, nil, fmt.Errorf("application panicked in %s during the farm prefix", r.PanicCall)
		}
	}
	return w, f, nil
}

// ---- classification with "the parser" -------------------------------------------------------

func decode(b []byte) (*action.SignedTx, error) {
	tx := &action.SignedTx{}
	if err := json.Unmarshal(b, tx); err != nil {
		return nil, err
	}
	return tx, nil
}

func sameFee(a, b action.Fee) bool {
	return a.Gas == b.Gas && a.Price.Currency == b.Price.Currency && a.Price.Value.BigInt().Cmp(b.Price.Value.BigInt()) == 0
}

// equivalent: same parsed (type, data, fee, memo, signatures).
func equivalent(a, b *action.SignedTx) bool {
	if a.Type != b.Type || !bytes.Equal(a.Data, b.Data) || !sameFee(a.Fee, b.Fee) || a.Memo != b.Memo || len(a.Signatures) != len(b.Signatures) {
		return false
	}
	for i := range a.Signatures {
		x, y := a.Signatures[i], b.Signatures[i]
		if x.Signer.KeyType != y.Signer.KeyType || !bytes.Equal(x.Signer.Data, y.Signer.Data) || !bytes.Equal(x.Signed, y.Signed) {
			return false
		}
	}
	return true
}

// olvmEquivalent: the same EIP-155 signed content (nonce, to, value, data, gas, gas price,
// chain id, signature) from the same sender, memo still denoting the nonce.
func olvmEquivalent(a, b *action.SignedTx) bool {
	if a.Type != action.OLVM || b.Type != action.OLVM || !sameFee(a.Fee, b.Fee) || len(a.Signatures) != 1 || len(b.Signatures) != 1 ||
		!bytes.Equal(a.Signatures[0].Signed, b.Signatures[0].Signed) {
		return false
	}
	var x, y aolvm.Transaction
	if json.Unmarshal(a.Data, &x) != nil || json.Unmarshal(b.Data, &y) != nil {
		return false
	}
	if x.Nonce != y.Nonce || !x.From.Equal(y.From) || (x.To == nil) != (y.To == nil) || (x.To != nil && !x.To.Equal(*y.To)) ||
		x.Amount.Currency != y.Amount.Currency || x.Amount.Value.BigInt().Cmp(y.Amount.Value.BigInt()) != 0 || !bytes.Equal(x.Data, y.Data) {
		return false
	}
	if x.ChainID == nil || y.ChainID == nil || x.ChainID.Cmp(y.ChainID) != 0 {
		return false
	}
	n, err := strconv.ParseUint(b.Memo, 10, 64)
	return err == nil && n == y.Nonce
}

// ---- effect of the original ------------------------------------------------------------------

// visibleEffect: does the execution block's state differ from the probe's (same block
// without the original) in more than the fee?
func visibleEffect(with, without map[string][]byte, gasUsed int64, price *big.Int) (bool, []string) {
	diff := sim.DiffDumps(with, without)
	var rest []string
	for _, k := range diff {
		if strings.HasPrefix(k, "f_") {
			continue // fee pool / fee shares
		}
		rest = append(rest, k)
	}
	if len(rest) == 0 {
		return false, diff
	}
	if len(rest) == 1 && strings.HasPrefix(rest[0], "b_") && strings.HasSuffix(rest[0], "_OLT") {
		fee := new(big.Int).Mul(big.NewInt(gasUsed), price)
		d := new(big.Int).Sub(hist.ParseAmt(without[rest[0]]), hist.ParseAmt(with[rest[0]]))
		if d.Cmp(fee) == 0 {
			return false, diff // only the fee payer's balance, by exactly the fee
		}
	}
	return true, diff
}

// ---- execution ----------------------------------------------------------------------------------

type encRes struct {
	op     string
	class  string // identical | noncanonical | olvm | not-equivalent | undecodable
	differ bool   // bytes differ from the original
}

type caseRes struct {
	kind     string
	origCode uint32
	origLog  string
	visible  bool
	encs     []encRes
}

func withTxs(b *sim.Block, txs [][]byte) *sim.Block {
	c := *b
	c.Txs = txs
	return &c
}

func short(b []byte) string {
	s := string(b)
	if len(s) > 600 {
		s = s[:600] + "…"
	}
	return s
}

func classOf(c *Case, po *action.SignedTx, e *Enc) string {
	if bytes.Equal(e.Bytes, c.Orig) {
		return "identical"
	}
	pe, err := decode(e.Bytes)
	if err != nil {
		return "undecodable"
	}
	if strings.HasPrefix(e.Op, "olvm-") {
		if olvmEquivalent(po, pe) {
			return "olvm"
		}
		return "not-equivalent"
	}
	if equivalent(po, pe) {
		if po.Type == action.OLVM {
			return "olvm"
		}
		return "noncanonical"
	}
	if strings.HasPrefix(e.Op, "siglist-") && sameSignedContent(po, pe) {
		return "siglist"
	}
	return "not-equivalent"
}

// sameSignedContent: the same signed part (type, data, fee, memo) and every original signature entry
// still present, in order, at the head of the list: only the unsigned signature list was extended.
func sameSignedContent(a, b *action.SignedTx) bool {
	if a.Type != b.Type || !bytes.Equal(a.Data, b.Data) || !sameFee(a.Fee, b.Fee) || a.Memo != b.Memo || len(b.Signatures) < len(a.Signatures) {
		return false
	}
	for i := range a.Signatures {
		x, y := a.Signatures[i], b.Signatures[i]
		// the signature bytes are the original's; the key entry may be the same key in another container
		if !bytes.HasPrefix(y.Signed, x.Signed) || !bytes.HasSuffix(y.Signer.Data, x.Signer.Data) {
			return false
		}
	}
	return true
}

// sigListOps: the signature list is not covered by any signature. These operators keep the signed part
// and every original entry and append entries; the result is serialised canonically (SignedBytes).
var sigListOps = []string{"siglist-append-copy-of-first", "siglist-append-junk", "siglist-append-foreign-valid", "siglist-append-empty-entry",
	"siglist-key-amino-prefixed", "siglist-key-prefixed-5-bytes", "siglist-signature-trailing-byte", "siglist-signature-trailing-64-bytes"}

func sigListReencode(orig []byte, op string, foreign *sim.User) []byte {
	tx, err := decode(orig)
	if err != nil || len(tx.Signatures) == 0 {
		return orig
	}
	switch op {
	case "siglist-append-copy-of-first":
		tx.Signatures = append(tx.Signatures, tx.Signatures[0])
	case "siglist-append-junk":
		tx.Signatures = append(tx.Signatures, action.Signature{Signer: tx.Signatures[0].Signer, Signed: []byte("not a signature at all, just sixty-four bytes of text to fill it.")})
	case "siglist-append-foreign-valid":
		if foreign != nil {
			more, derr := decode(txgen.SignRaw(tx.RawTx, foreign))
			if derr == nil && len(more.Signatures) == 1 {
				tx.Signatures = append(tx.Signatures, more.Signatures[0])
			}
		}
	case "siglist-append-empty-entry":
		tx.Signatures = append(tx.Signatures, action.Signature{})
	case "siglist-key-amino-prefixed":
		// the signer's key bytes behind tendermint's amino type prefix
		pre := []byte{0x16, 0x24, 0xde, 0x64, 0x20}
		if len(tx.Signatures[0].Signer.Data) == 33 {
			pre = []byte{0xeb, 0x5a, 0xe9, 0x87, 0x21}
		}
		tx.Signatures[0].Signer.Data = append(pre, tx.Signatures[0].Signer.Data...)
	case "siglist-key-prefixed-5-bytes":
		tx.Signatures[0].Signer.Data = append([]byte{9, 8, 7, 6, 5}, tx.Signatures[0].Signer.Data...)
	case "siglist-signature-trailing-byte":
		// the signature VALUE is not signed either: bytes behind it
		tx.Signatures[0].Signed = append(append([]byte{}, tx.Signatures[0].Signed...), 0x90)
	case "siglist-signature-trailing-64-bytes":
		tx.Signatures[0].Signed = append(append([]byte{}, tx.Signatures[0].Signed...), make([]byte, 64)...)
	}
	return tx.SignedBytes()
}

// runCase executes a case on a fresh world.
func runCase(h *run.H, c *Case) (*caseRes, *violation) {
	w, _, err := buildWorld(c.Seed, c.Opts)
	if err != nil {
		return nil, &violation{"harness", "farm", err.Error(), c}
	}
	defer w.Close()
	return runOn(w, c)
}

func runOn(w *hist.World, c *Case) (*caseRes, *violation) {
	r0, r1, r2 := w.R[0], w.R[1], w.R[2]
	res := &caseRes{kind: c.Kind}
	if c.Call != "" {
		res.kind = c.Kind + "-call-" + c.Call
	}
	if c.Gapn > 0 {
		res.kind += "+nonce-gap"
	}
	if c.Ledger {
		res.kind += "+ledger-signed"
	}
	minCase := func(e *Enc) *Case {
		m := *c
		m.Encs = nil
		if e != nil {
			m.Encs = []Enc{*e}
		}
		return &m
	}
	panicked := func(where string, e *Enc) *violation {
		for i, r := range w.R {
			if r.Panicked {
				return &violation{"node-panic", c.Kind, fmt.Sprintf("replica %d: the application panicked in %s (%s) and shut itself down", i, r.PanicCall, where), minCase(e)}
			}
		}
		return nil
	}
	po, err := decode(c.Orig)
	if err != nil {
		return nil, &violation{"harness", c.Kind, "the original does not decode: " + err.Error(), minCase(nil)}
	}
	for i := 0; i < c.Pre; i++ {
		w.RunBlock(sim.BlockSpec{GapSecs: 5})
	}
	// block h: the original executes on the subject and on the twin, not on the probe
	tmpl := w.C.MakeBlock(sim.BlockSpec{GapSecs: 5})
	b0 := r0.RunBlock(withTxs(tmpl, [][]byte{c.Orig}))
	b1 := r1.RunBlock(withTxs(tmpl, [][]byte{c.Orig}))
	r2.RunBlock(withTxs(tmpl, nil))
	if v := panicked("the block executing the original", nil); v != nil {
		return res, v
	}
	_ = w.C.Advance(b0.AppHash, b0.Updates)
	if !bytes.Equal(b0.AppHash, b1.AppHash) {
		return res, &violation{"harness", c.Kind, "subject and twin differ after executing the original", minCase(nil)}
	}
	res.origCode, res.origLog = b0.Txs[0].Code, b0.Txs[0].Log
	if res.origCode != 0 {
		return res, nil // not executed: nothing to assert
	}
	res.visible, _ = visibleEffect(r0.DumpMap(), r2.DumpMap(), b0.Txs[0].GasUsed, po.Fee.Price.Value.BigInt())
	execHeight := tmpl.Height
	// the probe is not needed any more
	r2.Close()
	w.R = w.R[:2]

	if c.Drain {
		var otx aolvm.Transaction
		if json.Unmarshal(po.Data, &otx) == nil {
			if w.Bal(otx.From, "OLT").Sign() == 0 {
				res.kind += "+balance-zero"
			} else {
				res.kind += "+balance-left"
			}
		}
	}
	if len(c.Refund) > 0 {
		_, rr := w.RunBlock(sim.BlockSpec{GapSecs: 5, Txs: [][]byte{c.Refund}})
		if v := panicked("the block refunding the drained sender", nil); v != nil {
			return res, v
		}
		if len(rr[0].Txs) == 1 && rr[0].Txs[0].Code == 0 {
			res.kind += "+drained-refunded"
		}
	}
	for i := 1; i < c.Gap; i++ {
		w.RunBlock(sim.BlockSpec{GapSecs: 5})
	}
	if c.Opts.Restart && !r0.Panicked {
		// the subject node was restarted between the execution and the resubmissions (real Prepare() on its data
		// directory, the tx index as committed): what it remembers of the executed transaction is what is on disk
		if nr, rerr := sim.Restart(r0, w.C, "c05rs"); rerr == nil {
			w.R[0], r0 = nr, nr
			res.kind += "+restarted"
		}
	}
	for i := range c.Encs {
		e := &c.Encs[i]
		er := encRes{op: e.Op, class: classOf(c, po, e), differ: !bytes.Equal(e.Bytes, c.Orig)}
		res.encs = append(res.encs, er)
		if er.class == "not-equivalent" || er.class == "undecodable" {
			continue
		}
		ck := r0.CheckTx(e.Bytes)
		if v := panicked("CheckTx of resubmission "+e.Op, e); v != nil {
			return res, v
		}
		tm := w.C.MakeBlock(sim.BlockSpec{GapSecs: 5})
		x0 := r0.RunBlock(withTxs(tm, [][]byte{e.Bytes}))
		x1 := r1.RunBlock(withTxs(tm, nil))
		if v := panicked("the block carrying resubmission "+e.Op, e); v != nil {
			return res, v
		}
		_ = w.C.Advance(x1.AppHash, x1.Updates)
		changed := !bytes.Equal(x0.AppHash, x1.AppHash)
		if ck.Code == 0 || changed {
			what := fmt.Sprintf("%s executed in block %d (code 0); its resubmission (%s, %s): CheckTx code %d after block %d; delivered in block %d: DeliverTx code %d, ",
				res.kind, execHeight, e.Op, er.class, ck.Code, tm.Height-1, tm.Height, x0.Txs[0].Code)
			oracle := er.class + "-replay-admitted"
			if changed {
				oracle = er.class + "-replay-executed"
				diff := sim.DiffDumps(r0.DumpMap(), r1.DumpMap())
				if len(diff) > 8 {
					diff = diff[:8]
				}
				what += fmt.Sprintf("the committed state differs from the twin (same block without it) in keys %q", diff)
			} else {
				what += "state equal to the twin's"
			}
			return res, &violation{oracle, res.kind + "/" + e.Op, fmt.Sprintf("%s. resubmitted=%q original=%q", what, short(e.Bytes), short(c.Orig)), minCase(e)}
		}
	}
	return res, nil
}

func record(h *run.H, r *caseRes) {
	if r == nil {
		return
	}
	if r.origCode != 0 {
		h.Class("original-FAILED:"+r.kind, 1)
		if !noted[r.kind] {
			noted[r.kind] = true
			h.Note(fmt.Sprintf("original %s failed: %s", r.kind, r.origLog))
		}
		h.Eval("", []string{"kind:" + r.kind, "original-failed"}, nil)
		return
	}
	h.Class("original-executed:"+r.kind, 1)
	if r.visible {
		h.Class("effect-visible:"+r.kind, 1)
	} else {
		h.Class("effect-fee-only:"+r.kind, 1)
	}
	for _, e := range r.encs {
		key := ""
		if r.visible && e.differ && (e.class == "noncanonical" || e.class == "olvm" || e.class == "siglist") {
			key = r.kind + "/" + e.op
		}
		var sample interface{}
		if key != "" {
			sample = map[string]string{"kind": r.kind, "operator": e.op, "class": e.class, "result": "rejected by CheckTx; block with it leaves the state equal to the twin's"}
		}
		h.Eval(key, []string{"kind:" + r.kind, "op:" + e.op, "class:" + e.class}, sample)
	}
}

var noted = map[string]bool{}

// foreignSigner is an account outside every generated universe: its signature over the original's
// signed part is valid, it is just nobody the transaction requires.
var foreignSigner = sim.NewEdUser("c05-foreign", "c05-foreign-signer")

type rapidChooser struct{ u *hist.U }

func (r rapidChooser) Intn(n int, label string) int { return r.u.N(n, label) }

// buildEncs materialises the resubmissions of an original.
func buildEncs(kind string, orig []byte, c chooser, excl func(string) bool) ([]Enc, error) {
	tree, err := parseTree(orig)
	if err != nil {
		return nil, err
	}
	if got := emit(tree, &emitOpts{}); !bytes.Equal(got, orig) {
		return nil, fmt.Errorf("plain re-serialisation of the %s original differs from its bytes", kind)
	}
	var out []Enc
	native := kind != "OLVM"
	for _, op := range opNames {
		out = append(out, Enc{op, reencode(tree, op, c)})
	}
	if !native {
		for _, op := range olvmOpNames {
			out = append(out, Enc{op, olvmReencode(tree, op, c)})
		}
	} else {
		for _, op := range sigListOps {
			out = append(out, Enc{op, sigListReencode(orig, op, foreignSigner)})
		}
	}
	// rotate so that every operator is sometimes the first resubmission (exactly Gap blocks later)
	if len(out) > 1 {
		k := c.Intn(len(out), "first")
		out = append(out[k:], out[:k]...)
	}
	// the byte-identical resubmission once more at the end (after it and its variants were rejected:
	// a rejection must not be remembered as "seen, let it pass")
	out = append(out, Enc{"identity-again", orig})
	return out, nil
}

const rule = "for each of the 39 transaction kinds (33 native / OLVM and the six of the bid application) (OLVM: transfers and message calls, including calls that fail inside the EVM by revert / out of gas and are committed as executed): a well-formed transaction executed in a block of a warmed-up state, then resubmitted 1..10 blocks later (occasionally 40..120; further resubmissions in the following blocks, the byte-identical one twice) byte-identical and under 19 re-encoding operators that keep the parsed signed content (whitespace, key order, duplicate keys, unknown members, members the repository's envelope type declares but its writer left out, key case, key / string escapes, base64 line breaks and trailing bits, numeric forms) and 6 operators that alter the unsigned signature list in a canonical encoding (appended: copy of the first entry, junk, a valid signature of a foreign key, an empty entry; the first signer's key bytes behind an amino prefix / five arbitrary bytes; OLVM additionally 8 inner-payload / memo / signer-entry variants of the same EIP-155 content with a canonical outer encoding); every resubmission is classified with the parser (equivalent or not); oracle: CheckTx rejects and the block carrying it leaves the committed state equal to the twin's; non-trivial = the original succeeded with an effect beyond the fee (probe replica) and the resubmitted bytes differ from the original; distinct by (kind, operator)"

func TestC05(t *testing.T) {
	h := run.Start(t, "C05")
	defer h.Finish()
	h.SetRule(rule)
	shard, _ := run.Shard()
	var first *violation
	rapid.Check(t, func(rt *rapid.T) {
		if first != nil {
			h.Fail(rt, first.oracle, "C05/"+first.oracle+"/"+first.class, first.min, "%s", first.msg)
		}
		u := hist.NewU(rt)
		c := &Case{Seed: fmt.Sprintf("c05-%d-%d", h.Seed, u.N(4, "keyseed"))}
		c.Opts = hist.FarmOpts{A: u.N(8, "A"), B: u.N(8, "B"), Eth: u.N(4, "eth"), Var: u.N(50, "var")}
		if c.Opts.B == c.Opts.A {
			c.Opts.B = (c.Opts.A + 1) % 8
		}
		// where the genesis puts the fork: block 1 (mostly), a height the history never reaches, or nowhere
		c.Opts.Fork = []int{0, 0, 0, 0, 1, 2}[u.N(6, "fork")]
		c.Opts.Restart = u.N(4, "restart") == 0
		// OLVM carries the nonce-based protection and the full operator set even while the known
		// finding is excluded: give it a fixed share of the cases
		if u.N(5, "olvm") < 2 && c.Opts.Fork == 0 {
			c.Kind = "OLVM"
		} else {
			c.Kind = hist.FarmKinds[(u.N(len(hist.FarmKinds), "kind")+shard)%len(hist.FarmKinds)]
		}
		if c.Opts.Fork != 0 && c.Kind == "OLVM" {
			c.Kind = "SEND" // no EVM without the fork
		}
		c.Gap = 1 + u.N(10, "gap")
		if u.N(20, "longgap") == 0 {
			c.Gap = 40 + u.N(80, "gaplong") // occasionally much later ("all later heights")
		}
		switch c.Kind {
		case "EXPIRE_VOTES", "PROPOSAL_FINALIZE":
			c.Pre = 0 // only in the block right after the prefix (see hist.FarmKinds)
		default:
			c.Pre = u.N(3, "pre")
		}
		w, f, err := buildWorld(c.Seed, c.Opts)
		if err != nil {
			h.Fail(rt, "harness", "C05/harness/farm", c, "%v", err)
		}
		defer w.Close()
		tx, err := f.Make(c.Kind)
		if err != nil {
			h.Fail(rt, "harness", "C05/harness/farm", c, "%s: %v", c.Kind, err)
		}
		if c.Kind == "OLVM" {
			// transfers and message calls, also calls that fail inside the EVM (they are charged and
			// committed as executed, so they must consume their nonce like any other)
			c.Call = []string{"", "store", "revert", "loop"}[u.N(4, "olvmcall")]
			if u.N(3, "noncegap") == 0 && !h.Excluded(exclNonceGap) {
				c.Gapn = uint64(1 + u.N(3, "gapn")) // (the exclusion covers exactly this: nonce above the account's)
			}
			if c.Call != "" {
				tx = f.MakeOLVMCall(c.Call, c.Gapn, byte(1+u.N(200, "arg")))
			} else if c.Gapn > 0 {
				tx = f.MakeOLVM(c.Gapn, int64(1000+u.N(1000, "value")))
			} else if u.N(3, "drain") == 0 {
				// a plain transfer costs exactly 21000 gas: value = balance - 21000 x price leaves exactly zero
				price := big.NewInt(1000000000)
				bal := w.Bal(f.E.OLAddr(), "OLT")
				val := new(big.Int).Sub(bal, new(big.Int).Mul(big.NewInt(21000), price))
				// the refund must cover the old transaction once more (value + fee), or its second execution
				// would fail for lack of funds whatever the nonce
				refund := new(big.Int).Add(bal, big.NewInt(int64(u.N(1000, "refund"))))
				// (the recipient of the drained value pays it back)
				if val.Sign() > 0 && w.Bal(f.B.Addr, "OLT").Cmp(big.NewInt(1000000000000000000)) > 0 {
					to := ethcmn.BytesToAddress(f.B.Addr)
					nonce := w.OlvmNext[f.E.Name]
					tx = txgen.OLVM(f.E, txgen.OLVMArgs{ChainID: w.P.ChainID, Nonce: nonce, To: &to, Value: val,
						Fee: txgen.Fee{Price: price, Cur: "OLT", Gas: 21000}})
					c.Drain = true
					c.Refund = txgen.Send(f.B, f.B.Addr, f.E.OLAddr(), txgen.Amt("OLT", refund), w.Fee, "c05-refund").Bytes
				}
			}
		}
		if c.Kind != "OLVM" && u.N(4, "ledger") == 0 {
			// the hardware-wallet form: the signer's ed25519 key signs the SHA-256 of the raw transaction, the
			// signature value carries the hash tag in front
			if stx, derr := decode(tx.Bytes); derr == nil && len(stx.Signatures) == 1 && stx.Signatures[0].Signer.KeyType == keys.ED25519 && bytes.Equal(stx.Signatures[0].Signer.Data, f.A.Pub.Data) {
				d := sha256.Sum256(stx.RawBytes())
				stx.Signatures[0].Signed = append([]byte("SHA256"), f.A.Sign(d[:])...)
				tx.Bytes = stx.SignedBytes()
				c.Ledger = true
			}
		}
		c.Orig = tx.Bytes
		c.Encs, err = buildEncs(c.Kind, c.Orig, rapidChooser{u}, h.Excluded)
		if err != nil {
			h.Fail(rt, "harness", "C05/harness/encode", c, "%v", err)
		}
		h.Journal(c)
		r, v := runOn(w, c)
		record(h, r)
		if v != nil {
			first = v
			h.Fail(rt, v.oracle, "C05/"+v.oracle+"/"+v.class, v.min, "%s", v.msg)
		}
	})
}

func TestReplay(t *testing.T) {
	path := run.ReplayFile()
	if path == "" {
		t.Skip("no VERIF_REPLAY")
	}
	f, err := run.LoadFailure(path)
	if err != nil {
		t.Fatal(err)
	}
	var c Case
	if err := json.Unmarshal(f.Case, &c); err != nil {
		t.Fatal(err)
	}
	h := run.Start(t, "C05")
	defer h.Finish()
	r, v := runCase(h, &c)
	record(h, r)
	if r != nil {
		t.Logf("%s: original code=%d visible=%v", r.kind, r.origCode, r.visible)
		for _, e := range r.encs {
			t.Logf("   %-34s %s", e.op, e.class)
		}
	}
	if v != nil {
		h.Fail(t, v.oracle, "C05/"+v.oracle+"/"+v.class, v.min, "%s", v.msg)
	}
}

// ---- native fuzz target (thorough tier) ----------------------------------------------------------

type byteChooser struct {
	b []byte
	i int
}

func (c *byteChooser) Intn(n int, label string) int {
	if n <= 1 {
		return 0
	}
	v := 0
	for k := 0; k < 2; k++ {
		v <<= 8
		if c.i < len(c.b) {
			v |= int(c.b[c.i])
			c.i++
		}
	}
	return v % n
}

// The fuzz world: every kind's original is executed once (in successive blocks of one
// world); afterwards each input re-serialises one executed original with decorations chosen
// by the input's bytes (several operators stacked) and resubmits it.
type fuzzWorld struct {
	w     *hist.World
	origs map[string][]byte
	kinds []string
	err   error
	execs int
}

var (
	fzOnce sync.Once
	fz     fuzzWorld
)

func fuzzExcluded(tag string) bool {
	return strings.Contains(","+os.Getenv("VERIF_EXCLUDE")+",", ","+tag+",")
}

func fuzzInit() {
	o := hist.FarmOpts{A: 1, B: 2, Eth: 1, Var: 4}
	w, f, err := buildWorld("c05-fuzz", o)
	if err != nil {
		fz.err = err
		return
	}
	// the probe replica is not used here
	w.R[2].Close()
	w.R = w.R[:2]
	fz.w = w
	fz.origs = map[string][]byte{}
	for _, k := range hist.FarmKinds {
		tx, err := f.Make(k)
		if err != nil {
			fz.err = err
			return
		}
		_, res := w.RunBlock(sim.BlockSpec{GapSecs: 5, Txs: [][]byte{tx.Bytes}})
		if res[0].Txs[0].Code == 0 {
			fz.origs[k] = tx.Bytes
			fz.kinds = append(fz.kinds, k)
		}
	}
	for _, r := range w.R {
		if r.Panicked {
			fz.err = fmt.Errorf("panic in %s while executing the originals", r.PanicCall)
		}
	}
}

// stackedOpts merges several operators' decorations into one re-serialisation.
func stacked(tree *node, c chooser, n int, kind string) ([]byte, []string) {
	var names []string
	cur := tree
	var out []byte
	for i := 0; i < n; i++ {
		var op string
		if kind == "OLVM" && c.Intn(3, "olvmop") == 0 {
			op = olvmOpNames[c.Intn(len(olvmOpNames), "op")]
			out = olvmReencode(cur, op, c)
		} else {
			op = opNames[c.Intn(len(opNames), "op")]
			out = reencode(cur, op, c)
		}
		names = append(names, op)
		// whitespace / escapes are lost when re-parsing, so only the last operator may be one of
		// those; structural decorations (duplicates, extra members, order, replaced values) survive
		t, err := parseTree(out)
		if err != nil {
			break
		}
		cur = t
	}
	return out, names
}

func FuzzC05(f *testing.F) {
	for k := 0; k < len(hist.FarmKinds); k += 3 {
		f.Add([]byte{byte(k), 1, 0, 1, 2, 3, 4, 5, 6, 7, 8})
		f.Add([]byte{byte(k), 3, 9, 9, 1, 1, 200, 7, 13, 0, 5, 6, 44, 2})
	}
	f.Fuzz(func(t *testing.T, data []byte) {
		fzOnce.Do(fuzzInit)
		if fz.err != nil {
			t.Skip("farm: " + fz.err.Error())
		}
		if len(data) < 3 || len(fz.kinds) == 0 {
			return
		}
		kind := fz.kinds[int(data[0])%len(fz.kinds)]
		orig := fz.origs[kind]
		tree, err := parseTree(orig)
		if err != nil {
			t.Fatal(err)
		}
		c := &byteChooser{b: data[2:]}
		e, names := stacked(tree, c, 1+int(data[1])%3, kind)
		po, _ := decode(orig)
		pe, err := decode(e)
		if err != nil {
			return
		}
		if !(equivalent(po, pe) || (kind == "OLVM" && olvmEquivalent(po, pe))) {
			return
		}
		w := fz.w
		r0, r1 := w.R[0], w.R[1]
		ck := r0.CheckTx(e)
		if r0.Panicked {
			t.Fatalf("node-panic in CheckTx: %s %v %q", kind, names, e)
		}
		if ck.Code == 0 {
			t.Fatalf("replay-admitted: %s %v: CheckTx code 0 for %q (original %q)", kind, names, e, orig)
		}
		tm := w.C.MakeBlock(sim.BlockSpec{GapSecs: 5})
		x0 := r0.RunBlock(withTxs(tm, [][]byte{e}))
		x1 := r1.RunBlock(withTxs(tm, nil))
		if r0.Panicked || r1.Panicked {
			t.Fatalf("node-panic in the block: %s %v %q", kind, names, e)
		}
		_ = w.C.Advance(x1.AppHash, x1.Updates)
		if !bytes.Equal(x0.AppHash, x1.AppHash) {
			t.Fatalf("replay-executed: %s %v: block %d with %q changes the state (keys %q)", kind, names, tm.Height, e, sim.DiffDumps(r0.DumpMap(), r1.DumpMap()))
		}
	})
}
