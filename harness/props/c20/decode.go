package c20

import (
	"encoding/json"
	"math/big"

	"github.com/Oneledger/protocol/action"
	aons "github.com/Oneledger/protocol/action/ons"
	"github.com/Oneledger/protocol/action/transfer"
	"github.com/Oneledger/protocol/data/keys"
	"github.com/Oneledger/protocol/serialize"
)

// DTx is a transaction of a block as the monitor sees it, decoded from the block's bytes.
type DTx struct {
	Kind     string
	Signers  []keys.Address
	Price    *big.Int // gas price
	Name     string   // domain name the transaction addresses ("" for other kinds)
	Create   *aons.DomainCreate
	Update   *aons.DomainUpdate
	Sale     *aons.DomainSale
	Purchase *aons.DomainPurchase
	DSend    *aons.DomainSend
	Renew    *aons.RenewDomain
	DelSub   *aons.DeleteSub
	Send     *transfer.Send
}

func decodeTx(b []byte) *DTx {
	d := &DTx{Kind: "UNDECODABLE", Price: big.NewInt(0)}
	stx := &action.SignedTx{}
	if err := serialize.GetSerializer(serialize.NETWORK).Deserialize(b, stx); err != nil {
		return d
	}
	d.Kind = stx.Type.String()
	d.Price = new(big.Int).Set(stx.Fee.Price.Value.BigInt())
	for _, s := range stx.Signatures {
		h, err := s.Signer.GetHandler()
		if err != nil {
			d.Signers = append(d.Signers, nil)
			continue
		}
		d.Signers = append(d.Signers, h.Address())
	}
	bad := func() *DTx { d.Kind = "UNDECODABLE:" + d.Kind; return d }
	switch stx.Type {
	case action.DOMAIN_CREATE:
		m := &aons.DomainCreate{}
		if json.Unmarshal(stx.Data, m) != nil {
			return bad()
		}
		d.Create, d.Name = m, m.Name.String()
	case action.DOMAIN_UPDATE:
		m := &aons.DomainUpdate{}
		if json.Unmarshal(stx.Data, m) != nil {
			return bad()
		}
		d.Update, d.Name = m, m.Name.String()
	case action.DOMAIN_SELL:
		m := &aons.DomainSale{}
		if json.Unmarshal(stx.Data, m) != nil {
			return bad()
		}
		d.Sale, d.Name = m, m.Name.String()
	case action.DOMAIN_PURCHASE:
		m := &aons.DomainPurchase{}
		if json.Unmarshal(stx.Data, m) != nil {
			return bad()
		}
		d.Purchase, d.Name = m, m.Name.String()
	case action.DOMAIN_SEND:
		m := &aons.DomainSend{}
		if json.Unmarshal(stx.Data, m) != nil {
			return bad()
		}
		d.DSend, d.Name = m, m.Name.String()
	case action.DOMAIN_RENEW:
		m := &aons.RenewDomain{}
		if json.Unmarshal(stx.Data, m) != nil {
			return bad()
		}
		d.Renew, d.Name = m, m.Name.String()
	case action.DOMAIN_DELETE_SUB:
		m := &aons.DeleteSub{}
		if json.Unmarshal(stx.Data, m) != nil {
			return bad()
		}
		d.DelSub, d.Name = m, m.Name.String()
	case action.SEND:
		m := &transfer.Send{}
		if json.Unmarshal(stx.Data, m) != nil {
			return bad()
		}
		d.Send = m
	}
	return d
}

func (d *DTx) signer0() string {
	if len(d.Signers) == 0 || d.Signers[0] == nil {
		return ""
	}
	return d.Signers[0].String()
}
