package c20

import (
	"os"
	"testing"

	"verif/run"
)

func TestMain(m *testing.M) {
	run.Quiet()
	os.Exit(m.Run())
}
