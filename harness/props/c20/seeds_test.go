package c20

import (
	"encoding/json"
	"math/big"
	"os"
	"path/filepath"
	"testing"

	"verif/hist"
	"verif/run"
	"verif/sim"
	"verif/txgen"
)

type seedBuilder struct {
	p    sim.Params
	u    *sim.Universe
	tr   *hist.Trace
	h    int64
	memo int
	fee  txgen.Fee
}

func newSeed(p sim.Params, name string) *seedBuilder {
	g := sim.BuildGenesis(p)
	return &seedBuilder{p: p, u: g.U, tr: &hist.Trace{Params: p, Roles: hist.Roles(p, 1), Profile: "hand:" + name}, fee: txgen.DefaultFee()}
}

func (s *seedBuilder) m() string {
	s.memo++
	return "s" + string(rune('a'+s.memo%26)) + string(rune('a'+(s.memo/26)%26))
}

func (s *seedBuilder) block(txs ...txgen.Tx) {
	spec := sim.BlockSpec{GapSecs: 5}
	for _, x := range txs {
		spec.Txs = append(spec.Txs, x.Bytes)
	}
	s.tr.Steps = append(s.tr.Steps, hist.BlockStep(spec, txs))
	s.h++
}

func (s *seedBuilder) base() *big.Int { return bigS(s.p.OnsBasePrice) }
func (s *seedBuilder) per() *big.Int  { return bigS(s.p.OnsPerBlock) }

// price of a creation that buys k blocks
func (s *seedBuilder) life(k int64) *big.Int {
	return new(big.Int).Add(new(big.Int).Add(s.base(), mul(s.per(), k)), big.NewInt(1))
}

func (s *seedBuilder) create(ui int, name string, price *big.Int) txgen.Tx {
	u := s.u.Users[ui]
	return txgen.DomainCreate(u, u.Addr, u.Addr, name, "http://a.b", txgen.Amt("OLT", price), s.fee, s.m())
}
func (s *seedBuilder) update(ui int, name string, benef int, active bool) txgen.Tx {
	u := s.u.Users[ui]
	return txgen.DomainUpdate(u, u.Addr, s.u.Users[benef].Addr, name, active, "http://c.d", s.fee, s.m())
}
func (s *seedBuilder) sell(ui int, name string, price *big.Int, cancel bool) txgen.Tx {
	u := s.u.Users[ui]
	return txgen.DomainSale(u, u.Addr, name, txgen.Amt("OLT", price), cancel, s.fee, s.m())
}
func (s *seedBuilder) buy(ui int, name string, offer *big.Int) txgen.Tx {
	u := s.u.Users[ui]
	return txgen.DomainPurchase(u, u.Addr, u.Addr, name, txgen.Amt("OLT", offer), s.fee, s.m())
}
func (s *seedBuilder) renew(ui int, name string, price *big.Int) txgen.Tx {
	u := s.u.Users[ui]
	return txgen.DomainRenew(u, u.Addr, name, txgen.Amt("OLT", price), s.fee, s.m())
}
func (s *seedBuilder) delSub(ui int, name string) txgen.Tx {
	u := s.u.Users[ui]
	return txgen.DomainDeleteSub(u, u.Addr, name, s.fee, s.m())
}

func (s *seedBuilder) write(t *testing.T, dir, name, note string) {
	cb, _ := json.Marshal(s.tr)
	f := run.Failure{Property: prop, Test: "TestReplay", Oracle: "seed", Message: note, Sig: "C20/seed", Case: cb}
	b, _ := json.MarshalIndent(f, "", " ")
	if err := os.WriteFile(filepath.Join(dir, name), b, 0o644); err != nil {
		t.Fatal(err)
	}
}

func seedParams(tag string) sim.Params {
	p := sim.DefaultParams()
	p.Seed = "c20-" + tag
	p.OnsBasePrice = "1000000000000000000"
	p.OnsPerBlock = "100000000000000"
	return p
}

func TestMakeSeeds(t *testing.T) {
	dir := os.Getenv("VERIF_MAKE_SEEDS")
	if dir == "" {
		t.Skip("VERIF_MAKE_SEEDS not set")
	}
	_ = os.MkdirAll(dir, 0o755)
	olt := func(n int64) *big.Int { return mul(big.NewInt(1000000000000000000), n) }

	// open finding: a sub-name created in the block in which its parent is bought survives the purchase
	{
		s := newSeed(seedParams("sub-purchase"), "sub-survives-purchase")
		s.block()
		s.block(s.create(0, "bob.ol", s.life(50)))
		s.block(s.sell(0, "bob.ol", olt(5), false))
		s.block(s.create(0, "z.bob.ol", s.life(0)), s.buy(1, "bob.ol", new(big.Int).Add(olt(5), mul(s.per(), 7))))
		s.block()
		s.write(t, dir, "kf-sub-survives-purchase.json", "owner creates z.bob.ol and, later in the same block, another account buys bob.ol")
	}
	// open finding: a sub-name created in the block in which its parent is renewed keeps the old expiry
	{
		s := newSeed(seedParams("sub-renew"), "sub-misses-renewal")
		s.block()
		s.block(s.create(0, "bob.ol", s.life(50)))
		s.block()
		s.block(s.create(0, "z.bob.ol", s.life(0)), s.renew(0, "bob.ol", mul(s.per(), 9)))
		s.block()
		s.write(t, dir, "kf-sub-misses-renewal.json", "owner creates z.bob.ol and, later in the same block, renews bob.ol")
	}
	// open finding: with a tiny per-block price a payment buys more blocks than an int64 holds and the expiry wraps around
	{
		p := seedParams("overflow")
		p.OnsBasePrice, p.OnsPerBlock = "0", "3"
		s := newSeed(p, "expiry-overflow")
		s.block()
		s.block(s.create(0, "alice.ol", olt(30)))
		s.block()
		s.write(t, dir, "kf-expiry-overflow.json", "per-block price 3 (governance accepts 1..MaxInt64): a creation paying 30 OLT buys 10^19 blocks")
	}
	// regression scenarios (must pass)
	{
		s := newSeed(seedParams("sale"), "sale-and-purchase")
		s.block()
		s.block(s.create(0, "alice.ol", s.life(40)), s.create(0, "al.ol", s.life(40)))
		s.block(s.create(0, "x.alice.ol", s.life(0)), s.create(0, "y.alice.ol", s.life(0)), s.create(0, "x.al.ol", s.life(0)))
		s.block(s.sell(0, "alice.ol", olt(7), false))
		s.block(s.buy(1, "alice.ol", new(big.Int).Sub(olt(7), big.NewInt(1))))                 // below the asking price
		s.block(s.buy(1, "alice.ol", new(big.Int).Add(olt(7), mul(s.per(), 11))))              // alone in its block
		s.block(s.update(0, "alice.ol", 2, true), s.update(1, "alice.ol", 2, true))            // previous owner is a stranger now
		s.block(s.renew(1, "alice.ol", mul(s.per(), 5)), s.create(1, "x.alice.ol", s.life(0))) // renew first, then a sub-name
		s.block(s.renew(1, "alice.ol", mul(s.per(), 3)))
		s.block(s.delSub(1, "x.alice.ol"), s.delSub(1, "x.al.ol"))
		s.write(t, dir, "seed-sale-purchase-subs.json", "sale, purchase below and above the asking price, sub-names removed by the purchase, renewals carrying sub-names")
	}
	{
		s := newSeed(seedParams("strangers"), "strangers")
		s.block()
		s.block(s.create(0, "alice.ol", s.life(40)))
		s.block(s.create(0, "x.alice.ol", s.life(0)))
		s.block(s.update(1, "alice.ol", 1, false), s.sell(1, "alice.ol", olt(1), false), s.renew(1, "alice.ol", mul(s.per(), 5)), s.delSub(1, "x.alice.ol"),
			s.create(1, "y.alice.ol", s.life(0)), s.buy(1, "alice.ol", olt(100)), s.update(1, "x.alice.ol", 1, false))
		s.block(s.create(1, "alice.ol", s.life(10)))
		s.write(t, dir, "seed-stranger-operations.json", "a second account tries every owner-only operation, a purchase of a name not for sale and a second creation")
	}
	{
		s := newSeed(seedParams("expired"), "expired")
		s.block()
		s.block(s.create(0, "alice.ol", s.life(2))) // h=2: expires at 1+2 = 3
		s.block(s.create(0, "x.alice.ol", s.life(0)))
		s.block()
		s.block()
		s.block(s.renew(0, "alice.ol", mul(s.per(), 5)))                           // expired: cannot be renewed
		s.block(s.buy(1, "alice.ol", new(big.Int).Sub(s.base(), big.NewInt(1))))   // below the base price
		s.block(s.buy(1, "alice.ol", new(big.Int).Add(s.base(), mul(s.per(), 6)))) // alone in its block
		s.block(s.sell(1, "alice.ol", olt(3), false), s.create(1, "y.alice.ol", s.life(0)))
		s.block(s.buy(0, "alice.ol", new(big.Int).Add(olt(3), big.NewInt(5))))
		s.write(t, dir, "seed-expired-name.json", "a name expires, is bought at the base price, sold again")
	}
}
