package c20

import (
	"encoding/binary"
	"encoding/json"
	"fmt"
	"math/big"
	"sort"
	"strings"

	"github.com/Oneledger/protocol/data/ons"
	"github.com/Oneledger/protocol/serialize"

	"verif/sim"
)

// Violation is an oracle verdict.
type Violation struct {
	Oracle string
	Class  string
	Msg    string
}

func (v *Violation) Sig() string { return "C20/" + v.Oracle + "/" + v.Class }

func viol(oracle, class, format string, a ...interface{}) *Violation {
	return &Violation{Oracle: oracle, Class: class, Msg: fmt.Sprintf(format, a...)}
}

// Opts are the name-service price options in force.
type Opts struct {
	PerBlock *big.Int
	Base     *big.Int
}

func (o Opts) equal(p Opts) bool { return o.PerBlock.Cmp(p.PerBlock) == 0 && o.Base.Cmp(p.Base) == 0 }

type view struct {
	doms map[string]*ons.Domain
	opts Opts
	raw  map[string][]byte
}

func reverse(s string) string {
	r := []rune(s)
	for i, j := 0, len(r)-1; i < j; i, j = i+1, j-1 {
		r[i], r[j] = r[j], r[i]
	}
	return string(r)
}

func parseView(d map[string][]byte) (*view, *Violation) {
	v := &view{doms: map[string]*ons.Domain{}, raw: d}
	sz := serialize.GetSerializer(serialize.PERSISTENT)
	for k, val := range d {
		if !strings.HasPrefix(k, "d_") {
			continue
		}
		dom := &ons.Domain{}
		if err := sz.Deserialize(val, dom); err != nil {
			return nil, viol("harness", "undecodable-domain", "cannot decode domain record %q: %v", k, err)
		}
		name := reverse(k[2:])
		if dom.Name.String() != name {
			return nil, viol("record", "key-mismatch", "the record under key %q (name %q) carries the name %q", k, name, dom.Name)
		}
		v.doms[name] = dom
	}
	luh := d["g_onsOptions_defaultOptions"]
	if len(luh) != 8 {
		return nil, viol("harness", "ons-options", "no last-update-height record for the name-service options")
	}
	h := int64(binary.LittleEndian.Uint64(luh))
	var o struct {
		PerBlockFees    string `json:"perBlockFees"`
		BaseDomainPrice string `json:"baseDomainPrice"`
	}
	rec := d["g_"+string(rune(h))+"_onsopt"]
	if json.Unmarshal(rec, &o) != nil {
		return nil, viol("harness", "ons-options", "cannot decode the name-service options at height %d: %q", h, rec)
	}
	pb, ok1 := new(big.Int).SetString(o.PerBlockFees, 10)
	bp, ok2 := new(big.Int).SetString(o.BaseDomainPrice, 10)
	if !ok1 || !ok2 {
		return nil, viol("harness", "ons-options", "cannot decode the name-service options at height %d: %q", h, rec)
	}
	v.opts = Opts{PerBlock: pb, Base: bp}
	return v, nil
}

func balOf(d map[string][]byte, addr string) *big.Int {
	v, ok := d["b_"+addr+"_OLT"]
	if !ok {
		return big.NewInt(0)
	}
	var s string
	if json.Unmarshal(v, &s) != nil {
		return big.NewInt(0)
	}
	a, ok := new(big.Int).SetString(s, 10)
	if !ok {
		return big.NewInt(0)
	}
	return a
}

func isSub(name string) bool { return ons.Name(name).IsSub() }

// parentOf returns the top-level name a sub-name belongs to (its last two labels).
func parentOf(name string) string {
	ar := strings.Split(name, ".")
	if len(ar) < 2 {
		return name
	}
	return ar[len(ar)-2] + "." + ar[len(ar)-1]
}

// mstate is the reference registry's entry for a name while the block's transactions are walked.
type mstate struct {
	exists bool
	owner  string
	onSale bool
	price  *big.Int
	expiry map[int64]bool // the expiry heights the statement admits (either base, either option set when they change in the block)
}

var groups = []string{"existence", "owner", "beneficiary", "uri", "active", "sale", "expiry"}

// Monitor is the reference registry and the per-block judge.
type Monitor struct {
	P    sim.Params
	prev *view

	// statistics
	PurchasesOnSale, PurchasesExpired, OwnershipChanges int
	StrangerRejected, OwnerOps                          int
	PaymentChecked, PaymentUnchecked                    int
	ExpiryChecked, SubCreated, Renewals                 int
	OptionChanges, SubExpiryChecked                     int
	SubsRemovedByPurchase                               int
}

func NewMonitor(p sim.Params, genesis map[string][]byte) (*Monitor, *Violation) {
	v, bad := parseView(genesis)
	if bad != nil {
		return nil, bad
	}
	return &Monitor{P: p, prev: v}, nil
}

// Registry returns the committed registry (name -> record) and the options in force, for generators.
func (m *Monitor) Registry() (map[string]*ons.Domain, Opts) { return m.prev.doms, m.prev.opts }

func setOf(vals ...int64) map[int64]bool {
	s := map[int64]bool{}
	for _, v := range vals {
		s[v] = true
	}
	return s
}

func fmtSet(s map[int64]bool) string {
	var l []int64
	for v := range s {
		l = append(l, v)
	}
	sort.Slice(l, func(i, j int) bool { return l[i] < l[j] })
	return fmt.Sprint(l)
}

type payment struct {
	tx        int
	name      string
	buyer     string
	prevOwner string
	ask       *big.Int // asking price (on sale) or base price (expired)
	onSale    bool
}

// Block judges one committed block. version is the committed tree version the block executed on.
func (m *Monitor) Block(h, version int64, raw [][]byte, res []sim.TxRes, afterDump map[string][]byte) *Violation {
	after, bad := parseView(afterDump)
	if bad != nil {
		return bad
	}
	before := m.prev
	txs := make([]*DTx, len(raw))
	for i := range raw {
		txs[i] = decodeTx(raw[i])
	}
	ok := func(i int) bool { return i < len(res) && res[i].Code == 0 }
	// the price options change either inside the block (a delivered, successful PROPOSAL_FINALIZE: the transactions
	// behind it see the new ones) or at its end (the block hook: every transaction of the block still sees the old ones)
	optSets := []Opts{before.opts}
	if !before.opts.equal(after.opts) {
		m.OptionChanges++
		for i, t := range txs {
			if t.Kind == "PROPOSAL_FINALIZE" && ok(i) {
				optSets = append(optSets, after.opts)
				break
			}
		}
	}
	bases := []int64{version, h}
	if version == h {
		bases = []int64{h}
	}

	ms := map[string]*mstate{}
	for n, d := range before.doms {
		st := &mstate{exists: true, owner: d.Owner.String(), onSale: d.OnSaleFlag, expiry: setOf(d.ExpireHeight)}
		if d.SalePrice != nil {
			st.price = d.SalePrice.BigInt()
		}
		ms[n] = st
	}
	get := func(n string) *mstate {
		if ms[n] == nil {
			ms[n] = &mstate{expiry: map[int64]bool{}}
		}
		return ms[n]
	}
	subsOf := func(parent string) []string {
		var out []string
		for n, st := range ms {
			if st.exists && n != parent && isSub(n) && parentOf(n) == parent {
				out = append(out, n)
			}
		}
		sort.Strings(out)
		return out
	}
	overflow := map[string]bool{} // names whose payment buys more blocks than an int64 holds
	auth := map[string]map[string]bool{}
	allow := func(n string, gs ...string) {
		if auth[n] == nil {
			auth[n] = map[string]bool{}
		}
		for _, g := range gs {
			auth[n][g] = true
		}
	}
	touched := map[string]int{}
	credited := map[string]int{} // address -> number of successful purchases that pay it as the previous owner
	domainSendOK := false
	var pays []payment
	var onName = map[string][]string{} // name -> description of the block's transactions addressing it

	for i, t := range txs {
		seen := map[string]bool{}
		mark := func(a string) {
			if a != "" && !seen[a] {
				seen[a] = true
				touched[a]++
			}
		}
		for _, s := range t.Signers {
			if s != nil {
				mark(s.String())
			}
		}
		switch {
		case t.Send != nil:
			mark(t.Send.From.String())
			mark(t.Send.To.String())
		case t.Create != nil:
			mark(t.Create.Owner.String())
		case t.Purchase != nil:
			mark(t.Purchase.Buyer.String())
		case t.Renew != nil:
			mark(t.Renew.Owner.String())
		case t.DSend != nil:
			mark(t.DSend.From.String())
		}
		if t.Name != "" {
			onName[t.Name] = append(onName[t.Name], fmt.Sprintf("#%d %s by %s code %d", i, t.Kind, t.signer0(), res[i].Code))
		}
		signer := t.signer0()
		// a rejected owner-only operation by somebody else on an existing name (statistics for the non-triviality rule)
		if !ok(i) {
			var target string
			switch {
			case t.Update != nil, t.Sale != nil, t.Renew != nil:
				target = t.Name
			case t.DelSub != nil:
				target = parentOf(t.Name)
			case t.Create != nil && isSub(t.Name):
				target = parentOf(t.Name)
			}
			if st := ms[target]; target != "" && st != nil && st.exists && st.owner != signer {
				m.StrangerRejected++
			}
			continue
		}
		switch {
		case t.DSend != nil:
			domainSendOK = true
		case t.Create != nil:
			n := t.Name
			st := get(n)
			if st.exists {
				return viol("exclusive", "create-over-existing", "h=%d tx#%d: DOMAIN_CREATE of %q by %s succeeded although the name is owned by %s", h, i, n, signer, st.owner)
			}
			paid := t.Create.BuyingPrice.Value.BigInt()
			exp := map[int64]bool{}
			if isSub(n) {
				par := parentOf(n)
				ps := ms[par]
				if ps == nil || !ps.exists || ps.owner != signer {
					po := "nobody"
					if ps != nil && ps.exists {
						po = ps.owner
					}
					return viol("authority", "sub-created-by-non-owner", "h=%d tx#%d: sub-name %q was created by %s but its parent %q is owned by %s", h, i, n, signer, par, po)
				}
				for e := range ps.expiry {
					exp[e] = true
				}
				m.SubCreated++
			} else {
				for _, o := range optSets {
					if paid.Cmp(o.Base) < 0 {
						continue
					}
					nb := new(big.Int).Div(new(big.Int).Sub(paid, o.Base), o.PerBlock)
					if !fits(nb) {
						overflow[n] = true
						continue
					}
					for _, b := range bases {
						exp[b+nb.Int64()] = true
					}
				}
			}
			*st = mstate{exists: true, owner: t.Create.Owner.String(), expiry: exp}
			allow(n, groups...)
		case t.Update != nil:
			st := ms[t.Name]
			if st != nil && st.exists && st.owner == signer {
				m.OwnerOps++
				allow(t.Name, "beneficiary", "uri", "active")
				if !isSub(t.Name) && !t.Update.Active {
					for _, s := range subsOf(t.Name) {
						allow(s, "active")
					}
				}
			}
		case t.Sale != nil:
			st := ms[t.Name]
			if st != nil && st.exists && st.owner == signer {
				m.OwnerOps++
				allow(t.Name, "sale", "active")
				if t.Sale.CancelSale {
					st.onSale, st.price = false, nil
				} else {
					st.onSale, st.price = true, t.Sale.Price.Value.BigInt()
				}
			}
		case t.Renew != nil:
			st := ms[t.Name]
			if st != nil && st.exists && st.owner == signer {
				m.OwnerOps++
				m.Renewals++
				paid := t.Renew.BuyingPrice.Value.BigInt()
				exp := map[int64]bool{}
				for _, o := range optSets {
					nb := new(big.Int).Div(paid, o.PerBlock)
					if !fits(nb) {
						overflow[t.Name] = true
						continue
					}
					for e := range st.expiry {
						exp[e+nb.Int64()] = true
					}
				}
				st.expiry = exp
				allow(t.Name, "expiry")
				for _, s := range subsOf(t.Name) {
					allow(s, "expiry")
					ms[s].expiry = exp
				}
			}
		case t.DelSub != nil:
			par := t.Name
			if isSub(t.Name) {
				par = parentOf(t.Name)
			}
			ps := ms[par]
			if ps != nil && ps.exists && ps.owner == signer {
				m.OwnerOps++
				if isSub(t.Name) {
					allow(t.Name, "existence")
					get(t.Name).exists = false
				} else {
					for _, s := range subsOf(par) {
						allow(s, "existence")
						ms[s].exists = false
					}
				}
			}
		case t.Purchase != nil:
			n := t.Name
			st := ms[n]
			if st == nil || !st.exists {
				continue // the record comparison reports a name that appears without a creation
			}
			offer := t.Purchase.Offering.Value.BigInt()
			buyer := t.Purchase.Buyer.String()
			prev := st.owner
			live, dead := false, false
			for e := range st.expiry {
				if version <= e {
					live = true
				} else {
					dead = true
				}
			}
			saleBranch := st.onSale && live && st.price != nil
			expiredBranch := dead
			if !saleBranch && !expiredBranch {
				return viol("purchase", "not-for-sale", "h=%d tx#%d: %s bought %q from %s although the name is neither on sale nor expired (expiry %s, tree version %d)", h, i, buyer, n, prev, fmtSet(st.expiry), version)
			}
			exp := map[int64]bool{}
			if saleBranch {
				if offer.Cmp(st.price) < 0 {
					return viol("purchase", "below-asking-price", "h=%d tx#%d: %s bought %q from %s offering %s, the asking price is %s", h, i, buyer, n, prev, offer, st.price)
				}
				for _, o := range optSets {
					nb := new(big.Int).Div(new(big.Int).Sub(offer, st.price), o.PerBlock)
					if !fits(nb) {
						overflow[n] = true
						continue
					}
					for e := range st.expiry {
						if version > e {
							continue
						}
						for _, b := range bases {
							base := b
							if e > base {
								base = e
							}
							exp[base+nb.Int64()] = true
						}
					}
				}
			}
			if expiredBranch {
				for _, o := range optSets {
					if offer.Cmp(o.Base) < 0 {
						continue
					}
					nb := new(big.Int).Div(new(big.Int).Sub(offer, o.Base), o.PerBlock)
					if !fits(nb) {
						overflow[n] = true
						continue
					}
					for _, b := range bases {
						exp[b+nb.Int64()] = true
					}
				}
			}
			if saleBranch && !expiredBranch {
				m.PurchasesOnSale++
				pays = append(pays, payment{tx: i, name: n, buyer: buyer, prevOwner: prev, ask: new(big.Int).Set(st.price), onSale: true})
			} else if expiredBranch && !saleBranch {
				m.PurchasesExpired++
				minBase := optSets[0].Base
				for _, o := range optSets {
					if o.Base.Cmp(minBase) < 0 {
						minBase = o.Base
					}
				}
				pays = append(pays, payment{tx: i, name: n, buyer: buyer, prevOwner: prev, ask: new(big.Int).Set(minBase)})
			}
			if buyer != prev {
				m.OwnershipChanges++
			}
			credited[prev]++
			for _, s := range subsOf(n) {
				allow(s, "existence")
				ms[s].exists = false
				m.SubsRemovedByPurchase++
			}
			*st = mstate{exists: true, owner: buyer, expiry: exp}
			allow(n, "owner", "beneficiary", "uri", "active", "sale", "expiry")
		}
	}

	// --- every change of a record must be covered by a transaction of the current owner or a purchase ---
	names := map[string]bool{}
	for n := range before.doms {
		names[n] = true
	}
	for n := range after.doms {
		names[n] = true
	}
	nl := make([]string, 0, len(names))
	for n := range names {
		nl = append(nl, n)
	}
	sort.Strings(nl)
	for _, n := range nl {
		b, a := before.doms[n], after.doms[n]
		var changed []string
		if (b == nil) != (a == nil) {
			changed = append(changed, "existence")
		} else {
			if !b.Owner.Equal(a.Owner) {
				changed = append(changed, "owner")
			}
			if !b.Beneficiary.Equal(a.Beneficiary) {
				changed = append(changed, "beneficiary")
			}
			if b.URI != a.URI {
				changed = append(changed, "uri")
			}
			if b.ActiveFlag != a.ActiveFlag {
				changed = append(changed, "active")
			}
			bp, ap := "none", "none"
			if b.SalePrice != nil {
				bp = b.SalePrice.BigInt().String()
			}
			if a.SalePrice != nil {
				ap = a.SalePrice.BigInt().String()
			}
			if b.OnSaleFlag != a.OnSaleFlag || bp != ap {
				changed = append(changed, "sale")
			}
			if b.ExpireHeight != a.ExpireHeight {
				changed = append(changed, "expiry")
			}
		}
		for _, g := range changed {
			if !auth[n][g] {
				ownerBefore := "nobody"
				if b != nil {
					ownerBefore = b.Owner.String()
				}
				ctx := append([]string{}, onName[n]...)
				if isSub(n) {
					ctx = append(ctx, onName[parentOf(n)]...)
				}
				return viol("unauthorised-change", g, "h=%d: %s of name %q changed (%s) but no successful transaction of its owner (%s before the block) and no purchase in this block covers it; transactions addressing the name or its parent: %v",
					h, g, n, describe(b, a, g), ownerBefore, ctx)
			}
		}
	}
	// --- a sub-name expires with its parent ---
	for _, n := range nl {
		a := after.doms[n]
		if a == nil || !isSub(n) {
			continue
		}
		p := after.doms[parentOf(n)]
		if p == nil {
			continue
		}
		if a.ExpireHeight != p.ExpireHeight {
			class := "differs-from-parent"
			if before.doms[n] == nil {
				class = "created-in-block" // the sub-name was created in this very block
			}
			return viol("sub-expiry", class, "h=%d: sub-name %q expires at %d, its parent %q at %d (transactions: %v)", h, n, a.ExpireHeight, parentOf(n), p.ExpireHeight, append(append([]string{}, onName[n]...), onName[parentOf(n)]...))
		}
		m.SubExpiryChecked++
	}

	// --- ownership and expiry arithmetic of the records that changed ---
	for _, n := range nl {
		b, a := before.doms[n], after.doms[n]
		if a == nil {
			continue
		}
		st := ms[n]
		if st != nil && st.exists {
			if a.Owner.String() != st.owner {
				return viol("owner", "mismatch", "h=%d: name %q is recorded as owned by %s, the transactions of the block make %s its owner", h, n, a.Owner, st.owner)
			}
			expChanged := b == nil || b.ExpireHeight != a.ExpireHeight
			if expChanged && auth[n]["expiry"] {
				if !st.expiry[a.ExpireHeight] && overflow[n] {
					return viol("expiry-overflow", expiryClass(txs, res, n), "h=%d: name %q expires at %d: a payment of this block buys more blocks than a 64-bit height holds under per-block price %s and the expiry wrapped around (transactions: %v)",
						h, n, a.ExpireHeight, optSets[len(optSets)-1].PerBlock, onName[n])
				}
				if !st.expiry[a.ExpireHeight] {
					return viol("expiry", expiryClass(txs, res, n), "h=%d (tree version %d): name %q expires at %d; the payments of this block under per-block price %s / base price %s admit %s (transactions: %v)",
						h, version, n, a.ExpireHeight, optSets[len(optSets)-1].PerBlock, optSets[len(optSets)-1].Base, fmtSet(st.expiry), append(append([]string{}, onName[n]...), onName[parentOf(n)]...))
				}
				m.ExpiryChecked++
			}
		}
	}
	// --- a purchase pays the asking price to the previous owner (base price for an expired name) ---
	for _, p := range pays {
		if domainSendOK || p.buyer == p.prevOwner || touched[p.buyer] != 1 || credited[p.buyer] != 0 || touched[p.prevOwner] != 0 || credited[p.prevOwner] != 1 {
			m.PaymentUnchecked++
			continue
		}
		dBuyer := new(big.Int).Sub(balOf(afterDump, p.buyer), balOf(before.raw, p.buyer))
		if new(big.Int).Neg(dBuyer).Cmp(p.ask) < 0 {
			what := "base price"
			if p.onSale {
				what = "asking price"
			}
			return viol("payment", "buyer-paid-less", "h=%d tx#%d: %s bought %q; its balance changed by %s, the %s is %s", h, p.tx, p.buyer, p.name, dBuyer, what, p.ask)
		}
		if p.onSale {
			dPrev := new(big.Int).Sub(balOf(afterDump, p.prevOwner), balOf(before.raw, p.prevOwner))
			if dPrev.Cmp(p.ask) != 0 {
				return viol("payment", "seller-not-paid", "h=%d tx#%d: %s bought %q from %s at the asking price %s; the previous owner's balance changed by %s", h, p.tx, p.buyer, p.name, p.prevOwner, p.ask, dPrev)
			}
		}
		m.PaymentChecked++
	}

	m.prev = after
	return nil
}

// fits reports whether a number of blocks can be added to a height without leaving the int64 range.
func fits(nb *big.Int) bool {
	return nb.IsInt64() && nb.Int64() >= 0 && nb.Int64() < 1<<62
}

func expiryClass(txs []*DTx, res []sim.TxRes, name string) string {
	c := "other"
	for i, t := range txs {
		if i >= len(res) || res[i].Code != 0 {
			continue
		}
		if t.Name == name || t.Name == parentOf(name) {
			switch {
			case t.Create != nil:
				c = "create"
			case t.Renew != nil:
				c = "renew"
			case t.Purchase != nil:
				c = "purchase"
			}
		}
	}
	return c
}

func describe(b, a *ons.Domain, g string) string {
	f := func(d *ons.Domain) string {
		if d == nil {
			return "absent"
		}
		switch g {
		case "owner":
			return d.Owner.String()
		case "beneficiary":
			return d.Beneficiary.String()
		case "uri":
			return fmt.Sprintf("%q", d.URI)
		case "active":
			return fmt.Sprint(d.ActiveFlag)
		case "sale":
			p := "none"
			if d.SalePrice != nil {
				p = d.SalePrice.BigInt().String()
			}
			return fmt.Sprintf("onSale=%v price=%s", d.OnSaleFlag, p)
		case "expiry":
			return fmt.Sprint(d.ExpireHeight)
		}
		return "present (owner " + d.Owner.String() + ")"
	}
	return f(b) + " -> " + f(a)
}
