package c20

import (
	"fmt"
	"math/big"
	"sort"

	"pgregory.net/rapid"

	agov "github.com/Oneledger/protocol/action/governance"
	"github.com/Oneledger/protocol/data/balance"
	"github.com/Oneledger/protocol/data/governance"
	"github.com/Oneledger/protocol/data/keys"
	"github.com/Oneledger/protocol/data/ons"

	"verif/hist"
	"verif/sim"
	"verif/txgen"
)

// genParams draws a genesis for name-service histories: prices inside the range the governance
// validation accepts (so that price-option proposals can pass) and short proposal deadlines.
func genParams(rt *rapid.T, seedTag string) sim.Params {
	p := hist.GenParams(rt, seedTag)
	u := hist.NewU(rt)
	p.OnsBasePrice = []string{"1000000000000000000", "1000000000000000000", "0", "7"}[u.N(4, "c20-base")]
	// per-block prices: the default, tiny ones, 1 OLT, and prices that no longer fit an int64 (10 OLT, 20 OLT, 2^64 base units)
	p.OnsPerBlock = []string{"100000000000000", "100000000000000", "100000000000000", "3", "3", "1000000000000000000", "1000000000000000000",
		"10000000000000000000", "20000000000000000000", "18446744073709551616"}[u.N(10, "c20-per")]
	p.PropFundingDL = 3
	p.PropVotingDL = 6
	p.PropPassPct = 51
	return p
}

// names: top-level names that are prefixes / extensions of one another, and sub-names (two levels deep too)
var topNames = []string{"alice.ol", "al.ol", "alicex.ol", "bob.ol", "b.ol", "Alice.ol"}
var subNames = []string{"x.alice.ol", "y.alice.ol", "w.x.alice.ol", "z.bob.ol", "x.al.ol", "x.alicex.ol"}

type fgen struct {
	w  *hist.World
	m  *Monitor
	u  *hist.U
	g  *hist.Gen
	rt *rapid.T
	// governance scenario (price option change): proposal id, stage
	finalizePooled int // blocks after the vote in which a PROPOSAL_FINALIZE sat in the mempool
	propID         governance.ProposalID
	propStep       int
	propCfg        string
}

func (f *fgen) next() int64 { return f.w.C.Height + 1 }

func (f *fgen) trader(label string) *sim.User { return f.w.G.U.Users[f.u.N(4, label)] }

func (f *fgen) userByAddr(a keys.Address) *sim.User {
	for _, u := range f.w.G.U.Users {
		if u.Addr.Equal(a) {
			return u
		}
	}
	return nil
}

func (f *fgen) existing(filter func(n string, d *ons.Domain) bool) []string {
	reg, _ := f.m.Registry()
	var out []string
	for n, d := range reg {
		if filter == nil || filter(n, d) {
			out = append(out, n)
		}
	}
	sort.Strings(out)
	return out
}

func (f *fgen) pickName(l []string, label string) (string, bool) {
	if len(l) == 0 {
		return "", false
	}
	return l[f.u.N(len(l), label)], true
}

// signer returns the owner of the record, or (one time in six) somebody else.
func (f *fgen) signer(d *ons.Domain, label string) (*sim.User, bool) {
	o := f.userByAddr(d.Owner)
	if o == nil || f.u.N(6, label+"-stranger") == 0 {
		s := f.trader(label + "-who")
		return s, o == nil || !s.Addr.Equal(o.Addr)
	}
	return o, false
}

func mul(a *big.Int, k int64) *big.Int { return new(big.Int).Mul(a, big.NewInt(k)) }

func (f *fgen) create() txgen.Tx {
	reg, o := f.m.Registry()
	usr := f.trader("cr-user")
	var free []string
	for _, n := range topNames {
		if reg[n] == nil {
			free = append(free, n)
		}
	}
	name, ok := f.pickName(free, "cr-name")
	if !ok || f.u.N(10, "cr-dup") == 0 {
		name = topNames[f.u.N(len(topNames), "cr-any")]
	}
	// a life of a few blocks, so that names expire inside the history
	k := int64(f.u.N(9, "cr-blocks"))
	if f.u.N(4, "cr-long") == 0 {
		k = int64(20 + f.u.N(100, "cr-longv"))
	}
	price := new(big.Int).Add(o.Base, mul(o.PerBlock, k))
	price.Add(price, big.NewInt(int64(1+f.u.N(3, "cr-extra"))))
	if f.u.N(12, "cr-under") == 0 {
		price = new(big.Int).Set(o.Base)
	}
	benef := usr.Addr
	if f.u.N(3, "cr-benef") == 0 {
		benef = f.trader("cr-benefu").Addr
	}
	tx := txgen.DomainCreate(usr, usr.Addr, benef, name, "http://a.b/c", txgen.Amt("OLT", price), f.w.Fee, f.w.Memo())
	tx.Tags = []string{"focused"}
	return tx
}

func (f *fgen) createSub() (txgen.Tx, bool) {
	reg, o := f.m.Registry()
	var cands []string
	for _, s := range subNames {
		if reg[s] == nil && reg[parentOf(s)] != nil {
			cands = append(cands, s)
		}
	}
	name, ok := f.pickName(cands, "cs-name")
	if !ok {
		return txgen.Tx{}, false
	}
	usr, strange := f.signer(reg[parentOf(name)], "cs")
	price := new(big.Int).Add(o.Base, big.NewInt(int64(1+f.u.N(5, "cs-extra"))))
	tx := txgen.DomainCreate(usr, usr.Addr, usr.Addr, name, "", txgen.Amt("OLT", price), f.w.Fee, f.w.Memo())
	tx.Tags = []string{"focused", "sub"}
	if strange {
		tx.Tags = append(tx.Tags, "stranger")
	}
	return tx, true
}

func (f *fgen) update() (txgen.Tx, bool) {
	reg, _ := f.m.Registry()
	name, ok := f.pickName(f.existing(nil), "up-name")
	if !ok {
		return txgen.Tx{}, false
	}
	usr, strange := f.signer(reg[name], "up")
	benef := f.trader("up-benef").Addr
	uri := []string{"http://a.b", "ftp://x.y/z", "", "https://q"}[f.u.N(4, "up-uri")]
	tx := txgen.DomainUpdate(usr, usr.Addr, benef, name, f.u.N(3, "up-active") != 0, uri, f.w.Fee, f.w.Memo())
	tx.Tags = []string{"focused"}
	if strange {
		tx.Tags = append(tx.Tags, "stranger")
	}
	return tx, true
}

func (f *fgen) sale() (txgen.Tx, bool) {
	reg, o := f.m.Registry()
	name, ok := f.pickName(f.existing(func(n string, d *ons.Domain) bool { return !isSub(n) || f.u.N(8, "sa-sub") == 0 }), "sa-name")
	if !ok {
		return txgen.Tx{}, false
	}
	usr, strange := f.signer(reg[name], "sa")
	price := new(big.Int).Add(o.PerBlock, big.NewInt(int64(1+f.u.N(1000000, "sa-price"))))
	if f.u.N(3, "sa-big") == 0 {
		price = new(big.Int).Mul(big.NewInt(int64(1+f.u.N(50, "sa-olt"))), big.NewInt(1000000000000000000))
		if price.Cmp(o.PerBlock) <= 0 {
			price = new(big.Int).Add(o.PerBlock, big.NewInt(1))
		}
	}
	cancel := reg[name].OnSaleFlag && f.u.N(3, "sa-cancel") == 0
	tx := txgen.DomainSale(usr, usr.Addr, name, txgen.Amt("OLT", price), cancel, f.w.Fee, f.w.Memo())
	tx.Tags = []string{"focused"}
	if strange {
		tx.Tags = append(tx.Tags, "stranger")
	}
	return tx, true
}

// purchase: a name on sale (offer below / at / above the asking price) or an expired name (offer around the base price).
func (f *fgen) purchase() (txgen.Tx, bool) {
	reg, o := f.m.Registry()
	h := f.next()
	var onSale, expired, other []string
	for _, n := range f.existing(nil) {
		d := reg[n]
		switch {
		case d.ExpireHeight < h-1:
			expired = append(expired, n)
		case d.OnSaleFlag:
			onSale = append(onSale, n)
		default:
			other = append(other, n)
		}
	}
	var name string
	var ok bool
	switch r := f.u.N(10, "pu-which"); {
	case r < 5:
		name, ok = f.pickName(onSale, "pu-sale")
	case r < 9:
		name, ok = f.pickName(expired, "pu-exp")
	default:
		name, ok = f.pickName(other, "pu-other")
	}
	if !ok {
		if name, ok = f.pickName(append(onSale, expired...), "pu-any"); !ok {
			return txgen.Tx{}, false
		}
	}
	d := reg[name]
	buyer := f.trader("pu-buyer")
	if buyer.Addr.Equal(d.Owner) && f.u.N(4, "pu-self") != 0 {
		buyer = f.trader("pu-buyer2")
	}
	var offer *big.Int
	k := int64(f.u.N(8, "pu-blocks"))
	if d.OnSaleFlag && d.SalePrice != nil && d.ExpireHeight >= h-1 {
		offer = new(big.Int).Add(d.SalePrice.BigInt(), mul(o.PerBlock, k))
		offer.Add(offer, big.NewInt(int64(f.u.N(3, "pu-extra"))))
		if f.u.N(8, "pu-low") == 0 {
			offer = new(big.Int).Sub(d.SalePrice.BigInt(), big.NewInt(1))
		}
	} else {
		offer = new(big.Int).Add(o.Base, mul(o.PerBlock, k))
		offer.Add(offer, big.NewInt(int64(f.u.N(3, "pu-extra2"))))
		if f.u.N(8, "pu-low2") == 0 && o.Base.Sign() > 0 {
			offer = new(big.Int).Sub(o.Base, big.NewInt(1))
		}
	}
	acct := buyer.Addr
	if f.u.N(3, "pu-acct") == 0 {
		acct = f.trader("pu-acctu").Addr
	}
	tx := txgen.DomainPurchase(buyer, buyer.Addr, acct, name, txgen.Amt("OLT", offer), f.w.Fee, f.w.Memo())
	tx.Tags = []string{"focused"}
	return tx, true
}

func (f *fgen) renew() (txgen.Tx, bool) {
	reg, o := f.m.Registry()
	name, ok := f.pickName(f.existing(func(n string, d *ons.Domain) bool { return !isSub(n) || f.u.N(8, "re-sub") == 0 }), "re-name")
	if !ok {
		return txgen.Tx{}, false
	}
	usr, strange := f.signer(reg[name], "re")
	k := int64(2 + f.u.N(8, "re-blocks"))
	price := mul(o.PerBlock, k)
	price.Add(price, big.NewInt(int64(f.u.N(3, "re-extra"))))
	if f.u.N(10, "re-low") == 0 {
		price = new(big.Int).Set(o.PerBlock)
	}
	tx := txgen.DomainRenew(usr, usr.Addr, name, txgen.Amt("OLT", price), f.w.Fee, f.w.Memo())
	tx.Tags = []string{"focused"}
	if strange {
		tx.Tags = append(tx.Tags, "stranger")
	}
	return tx, true
}

func (f *fgen) deleteSub() (txgen.Tx, bool) {
	reg, _ := f.m.Registry()
	name, ok := f.pickName(f.existing(func(n string, d *ons.Domain) bool { return isSub(n) || f.u.N(4, "ds-top") == 0 }), "ds-name")
	if !ok {
		return txgen.Tx{}, false
	}
	par := name
	if isSub(name) {
		par = parentOf(name)
	}
	pd := reg[par]
	if pd == nil {
		return txgen.Tx{}, false
	}
	usr, strange := f.signer(pd, "ds")
	tx := txgen.DomainDeleteSub(usr, usr.Addr, name, f.w.Fee, f.w.Memo())
	tx.Tags = []string{"focused"}
	if strange {
		tx.Tags = append(tx.Tags, "stranger")
	}
	return tx, true
}

func (f *fgen) domainSend() (txgen.Tx, bool) {
	name, ok := f.pickName(f.existing(nil), "se-name")
	if !ok {
		return txgen.Tx{}, false
	}
	usr := f.trader("se-user")
	tx := txgen.DomainSend(usr, usr.Addr, name, txgen.Amt("OLT", big.NewInt(int64(1+f.u.N(1000000, "se-amt")))), f.w.Fee, f.w.Memo())
	tx.Tags = []string{"focused"}
	return tx, true
}

// govStep drives one proposal that changes a price option to its finalisation: create, fund to the goal, every active validator votes yes.
func (f *fgen) govStep() ([]txgen.Tx, bool) {
	w := f.w
	gu := w.G.U.Users[len(w.G.U.Users)-1] // an account that never trades names
	_, o := f.m.Registry()
	switch f.propStep {
	case 0:
		if f.next() < 3 {
			return nil, false
		}
		cfgs := []string{
			"onsOptions.perBlockFees:" + new(big.Int).Add(o.PerBlock, big.NewInt(int64(1+f.u.N(5, "gv-dper")))).String(),
			"onsOptions.perBlockFees:" + mul(o.PerBlock, 2).String(),
			"onsOptions.baseDomainPrice:" + new(big.Int).Add(o.Base, big.NewInt(int64(1+f.u.N(1000, "gv-dbase")))).String(),
			"onsOptions.baseDomainPrice:" + mul(o.PerBlock, 3).String(),
			"onsOptions.perBlockFees:" + []string{"10000000000000000000", "20000000000000000000", "18446744073709551616"}[f.u.N(3, "gv-big")],
			// a price of nothing per block must be refused when it is proposed (it is a divisor)
			"onsOptions.perBlockFees:0",
		}
		f.propCfg = cfgs[f.u.N(len(cfgs), "gv-cfg")]
		f.propID = txgen.ProposalID(fmt.Sprintf("c20-%d-%s", f.next(), w.P.Seed))
		h := f.next()
		m := agov.CreateProposal{ProposalID: f.propID, ProposalType: governance.ProposalTypeConfigUpdate, Headline: "h", Description: "d", Proposer: gu.Addr,
			InitialFunding: txgen.Amt("OLT", bigS(w.P.PropInitialFunding)), FundingDeadline: h + w.P.PropFundingDL, FundingGoal: balance.NewAmountFromBigInt(bigS(w.P.PropFundingGoal)),
			VotingDeadline: h + w.P.PropFundingDL + w.P.PropVotingDL, PassPercentage: w.P.PropPassPct, ConfigUpdate: f.propCfg}
		f.propStep = 1
		tx := txgen.ProposalCreate(gu, m, w.Fee, w.Memo())
		tx.Tags = []string{"focused", "price-option"}
		return []txgen.Tx{tx}, true
	case 1:
		f.propStep = 2
		tx := txgen.ProposalFund(gu, f.propID, gu.Addr, txgen.Amt("OLT", bigS(w.P.PropFundingGoal)), w.Fee, w.Memo())
		tx.Tags = []string{"focused", "price-option"}
		return []txgen.Tx{tx}, true
	case 2:
		f.propStep = 3
		var out []txgen.Tx
		for _, vi := range w.ActiveValIdx() {
			v := w.G.U.Vals[vi]
			tx := txgen.ProposalVote(f.propID, v.Stake.Addr, v.Key.Addr, governance.OPIN_POSITIVE, w.Fee, w.Memo(), v.Stake, v.Key)
			tx.Tags = []string{"focused", "price-option"}
			out = append(out, tx)
		}
		return out, len(out) > 0
	case 3:
		f.propStep = 0 // this block finalises (at its end); a further proposal may follow
		// names are renewed / created in the block whose end applies the new price: they are still priced by the old one
		var out []txgen.Tx
		if tx, ok := f.renew(); ok {
			out = append(out, tx)
		}
		if f.u.N(2, "gv-create-in-window") == 0 {
			out = append(out, f.create())
		}
		return out, len(out) > 0
	}
	return nil, false
}

// poolFinalize returns a PROPOSAL_FINALIZE for the price-option proposal that is being voted on or has just passed:
// anybody may send it, it costs nothing, and a node's mempool checks it while the block hooks have not finalised yet.
func (f *fgen) poolFinalize() ([]byte, bool) {
	if f.propID == "" || (f.propStep != 3 && f.propStep != 0) {
		return nil, false
	}
	u := f.w.G.U.Users[f.u.N(len(f.w.G.U.Users), "gv-pool-signer")]
	return txgen.ProposalFinalize(u, f.propID, u.Addr, f.w.Fee, f.w.Memo()).Bytes, true
}

func bigS(s string) *big.Int { b, _ := new(big.Int).SetString(s, 10); return b }

func (f *fgen) one() txgen.Tx {
	for tries := 0; tries < 4; tries++ {
		var tx txgen.Tx
		ok := false
		switch a := f.u.N(100, "act"); {
		case a < 16:
			tx, ok = f.create(), true
		case a < 26:
			tx, ok = f.createSub()
		case a < 38:
			tx, ok = f.update()
		case a < 54:
			tx, ok = f.sale()
		case a < 74:
			tx, ok = f.purchase()
		case a < 86:
			tx, ok = f.renew()
		case a < 92:
			tx, ok = f.deleteSub()
		case a < 96:
			tx, ok = f.domainSend()
		default:
			tx, ok = f.g.Draw(), true
		}
		if ok {
			return tx
		}
	}
	return f.create()
}

// drawBlock draws the transactions of the next block.
func (f *fgen) drawBlock() ([]txgen.Tx, string) {
	r := f.u.N(100, "blk")
	if f.propStep > 0 {
		r = 0 // a started price-option proposal is driven block by block (its funding period is short)
	}
	switch {
	case r < 12:
		if f.propStep > 0 || f.u.N(3, "gv-start") == 0 {
			if txs, ok := f.govStep(); ok {
				// name transactions ride along so that they execute around the option change
				if f.u.N(2, "gv-ride") == 0 {
					txs = append(txs, f.one())
				}
				return txs, "price-option"
			}
		}
	case r < 30:
		// a purchase alone in its block: the balances of buyer and seller move by this transaction only
		if tx, ok := f.purchase(); ok {
			return []txgen.Tx{tx}, "purchase-alone"
		}
	case r < 38:
		return nil, "idle"
	case r < 46:
		return f.g.DrawTxs(4), "shared"
	}
	n := 1 + f.u.N(4, "ntx")
	var out []txgen.Tx
	for i := 0; i < n; i++ {
		out = append(out, f.one())
	}
	return out, "act"
}
