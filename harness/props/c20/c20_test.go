// Package c20: domain names — exclusive ownership, owner-only changes, paid transfers, expiry arithmetic.
// A reference registry judges the domain records and balances of every committed block.
package c20

import (
	"encoding/json"
	"fmt"
	"math/big"
	"os"
	"sort"
	"strings"
	"testing"

	"pgregory.net/rapid"

	"verif/hist"
	"verif/run"
	"verif/txgen"
)

const prop = "C20"

var debugLogs map[string]int

// tagSubInBlock keeps the creation of a sub-name out of blocks that also carry an operation on its parent
// (the application's prefix iteration does not see records written earlier in the same block).
const tagSubInBlock = "C20:sub-created-with-parent-op"

// tagOverflow keeps payments from buying more blocks than a 64-bit height holds.
const tagOverflow = "C20:expiry-overflow"

func filter(h *run.H, m *Monitor, txs []txgen.Tx) []txgen.Tx {
	if h.IsExcluded(tagOverflow) {
		_, o := m.Registry()
		var out []txgen.Tx
		for _, tx := range txs {
			d := decodeTx(tx.Bytes)
			var paid *big.Int
			switch {
			case d.Create != nil:
				paid = d.Create.BuyingPrice.Value.BigInt()
			case d.Renew != nil:
				paid = d.Renew.BuyingPrice.Value.BigInt()
			case d.Purchase != nil:
				paid = d.Purchase.Offering.Value.BigInt()
			}
			// a proposal may halve nothing: per-block prices only move through the generator's own (larger) values
			if paid != nil && paid.Sign() > 0 && !fits(new(big.Int).Div(paid, o.PerBlock)) && h.Excluded(tagOverflow) {
				continue
			}
			out = append(out, tx)
		}
		txs = out
	}
	if !h.IsExcluded(tagSubInBlock) {
		return txs
	}
	ds := make([]*DTx, len(txs))
	for i, tx := range txs {
		ds[i] = decodeTx(tx.Bytes)
	}
	var out []txgen.Tx
	for i, tx := range txs {
		drop := false
		if d := ds[i]; d.Create != nil && isSub(d.Name) {
			// only a purchase or renewal of exactly its parent LATER in the same block misses the new sub-name
			for j := i + 1; j < len(txs); j++ {
				if o := ds[j]; (o.Purchase != nil || o.Renew != nil) && o.Name == parentOf(d.Name) {
					drop = true
				}
			}
		}
		if drop && h.Excluded(tagSubInBlock) {
			continue
		}
		out = append(out, tx)
	}
	return out
}

type caseStats struct {
	mon      *Monitor
	blocks   int
	okKinds  map[string]int
	allKinds map[string]int
}

func execute(h *run.H, tr *hist.Trace, draw func(w *hist.World, m *Monitor, i int) (hist.Step, bool)) (*Violation, *caseStats) {
	cs := &caseStats{okKinds: map[string]int{}, allKinds: map[string]int{}}
	roles := tr.Roles
	if len(roles) > 1 {
		roles = roles[:1]
	}
	// a scratch directory left behind by a killed process that had the same pid may be picked up again
	// (the name is derived from the pid): a world whose genesis state is not clean is discarded and rebuilt
	var w *hist.World
	var mon *Monitor
	for try := 0; ; try++ {
		var err error
		w, err = hist.NewWorld(tr.Params, roles)
		if err != nil {
			if try < 3 {
				continue
			}
			return viol("harness", "world", "cannot build world: %v", err), cs
		}
		if _, err := w.Init(); err != nil {
			w.Close()
			if try < 3 {
				continue
			}
			return viol("harness", "init", "InitChain: %v", err), cs
		}
		gen := w.R[0].DumpMap()
		dirty := w.C.Height != 0
		for k := range gen {
			if strings.HasPrefix(k, "d_") {
				dirty = true
			}
		}
		if dirty && try < 3 {
			w.Close()
			continue
		}
		var bad *Violation
		mon, bad = NewMonitor(tr.Params, gen)
		if bad != nil {
			w.Close()
			return bad, cs
		}
		break
	}
	defer w.Close()
	cs.mon = mon
	for i := 0; ; i++ {
		var st hist.Step
		if draw != nil {
			s, ok := draw(w, mon, i)
			if !ok {
				break
			}
			st = s
			tr.Steps = append(tr.Steps, st)
			h.Journal(tr)
		} else {
			if i >= len(tr.Steps) {
				break
			}
			st = tr.Steps[i]
		}
		if st.Kind != "block" || st.Spec == nil {
			continue
		}
		version := w.R[0].App.Context.Storage().Chainstate.Version
		b, res := w.RunBlock(*st.Spec)
		if w.R[0].Panicked {
			return viol("node-panic", w.R[0].PanicCall, "the application panicked in %s at height %d (kinds %v) and shut itself down", w.R[0].PanicCall, b.Height, st.Kinds), cs
		}
		cs.blocks++
		for k, r := range res[0].Txs {
			kind := decodeTx(st.Spec.Txs[k]).Kind
			cs.allKinds[kind]++
			if r.Code == 0 {
				cs.okKinds[kind]++
			} else if debugLogs != nil {
				l := r.Log
				if len(l) > 90 {
					l = l[:90]
				}
				debugLogs[kind+" "+l]++
			}
		}
		if v := mon.Block(b.Height, version, st.Spec.Txs, res[0].Txs, w.R[0].DumpMap()); v != nil {
			return v, cs
		}
	}
	return nil, cs
}

func classes(cs *caseStats, mode string) (bool, []string) {
	cl := []string{"mode-" + mode}
	nt := false
	if m := cs.mon; m != nil {
		add := func(n int, name string) {
			for i := 0; i < n; i++ {
				cl = append(cl, name)
			}
		}
		add(m.OwnershipChanges, "ownership-change-by-purchase")
		add(m.PurchasesOnSale, "purchase-on-sale")
		add(m.PurchasesExpired, "purchase-expired-name")
		add(m.StrangerRejected, "stranger-operation-rejected")
		add(m.OwnerOps, "owner-operation-applied")
		add(m.PaymentChecked, "payment-checked")
		add(m.PaymentUnchecked, "payment-unchecked")
		add(m.ExpiryChecked, "expiry-checked")
		add(m.SubCreated, "sub-name-created")
		add(m.Renewals, "renewal")
		add(m.SubExpiryChecked, "sub-expiry-checked")
		add(m.OptionChanges, "price-option-changed")
		add(m.SubsRemovedByPurchase, "sub-names-removed-by-purchase")
		nt = m.OwnershipChanges > 0 || m.StrangerRejected > 0
	}
	for k, n := range cs.okKinds {
		for i := 0; i < n; i++ {
			cl = append(cl, "ok:"+k)
		}
	}
	for k, n := range cs.allKinds {
		if strings.HasPrefix(k, "DOMAIN") {
			for i := 0; i < n-cs.okKinds[k]; i++ {
				cl = append(cl, "rejected:"+k)
			}
		}
	}
	if nt {
		cl = append(cl, "nontrivial")
	}
	sort.Strings(cl)
	return nt, cl
}

const rule = "generated genesis (price options incl. 0 / tiny / large, fork shapes, 1-7 validators) x history of create/update/sell/purchase/send/renew/delete-sub by owners and strangers on names that are prefixes of one another and on sub-names (two levels), names living a few blocks so that they expire, offers below/at/above the asking price, price options changed by governance proposals; non-trivial = at least one ownership change by purchase or at least one rejected owner-only operation by a stranger on an existing name; distinct by trace"

func TestC20(t *testing.T) {
	h := run.Start(t, prop)
	defer h.Finish()
	h.SetRule(rule)
	defer startDebug()()
	maxBlocks := h.Scale(35, 60)
	rapid.Check(t, func(rt *rapid.T) {
		u := hist.NewU(rt)
		p := genParams(rt, fmt.Sprint(h.Seed))
		mode := []string{"focused", "focused", "focused", "shared"}[u.N(4, "mode")]
		if mode == "shared" {
			// the shared generator's price pools are built around the devnet prices
			p.OnsBasePrice, p.OnsPerBlock = "1000000000000000000000", "100000000000000"
		}
		tr := &hist.Trace{Params: p, Roles: hist.Roles(p, 1), Profile: mode}
		nb := u.Range(10, maxBlocks, "nblocks")
		var g *hist.Gen
		var f *fgen
		var lastTxs []txgen.Tx
		blocks := 0
		v, cs := execute(h, tr, func(w *hist.World, m *Monitor, i int) (hist.Step, bool) {
			if g == nil {
				g = &hist.Gen{W: w, T: rt, Hostile: 4, Strange: 10, Kinds: hist.Profiles["ons"], Excl: h.Excluded, Seen: map[string]int{}, TagsN: map[string]int{}}
				f = &fgen{w: w, m: m, u: u, g: g, rt: rt}
			}
			if blocks >= nb {
				return hist.Step{}, false
			}
			if len(w.Results) > 0 && lastTxs != nil {
				w.Observe(lastTxs, w.Results[len(w.Results)-1])
			}
			var txs []txgen.Tx
			if mode == "shared" {
				txs = g.DrawTxs(5)
			} else {
				txs, _ = f.drawBlock()
			}
			txs = filter(h, m, txs)
			lastTxs = txs
			if txs == nil {
				lastTxs = []txgen.Tx{}
			}
			spec := g.DrawEnv(txs)
			if f != nil && mode != "shared" {
				if b, ok := f.poolFinalize(); ok && (f.propStep == 3 || f.finalizePooled < 2) {
					spec.Pool = append(spec.Pool, b)
					if f.propStep == 0 {
						f.finalizePooled++
					} else {
						f.finalizePooled = 0
					}
				}
			}
			blocks++
			return hist.BlockStep(spec, txs), true
		})
		nt, cl := classes(cs, mode)
		ntKey := ""
		if nt {
			b, _ := json.Marshal(tr.Steps)
			ntKey = string(b)
		}
		h.Eval(ntKey, cl, tr.Summary())
		if v != nil {
			h.Fail(rt, v.Oracle, v.Sig(), tr, "%s", v.Msg)
		}
	})
}

// startDebug collects the logs of rejected transactions into the file named by VERIF_C20_DEBUG.
func startDebug() func() {
	f := os.Getenv("VERIF_C20_DEBUG")
	if f == "" {
		return func() {}
	}
	debugLogs = map[string]int{}
	return func() {
		var ks []string
		for k, n := range debugLogs {
			ks = append(ks, fmt.Sprintf("%6d %s", n, k))
		}
		sort.Strings(ks)
		_ = os.WriteFile(f, []byte(strings.Join(ks, "\n")+"\n"), 0o644)
	}
}

func TestReplay(t *testing.T) {
	defer startDebug()()
	path := run.ReplayFile()
	if path == "" {
		t.Skip("no VERIF_REPLAY")
	}
	f, err := run.LoadFailure(path)
	if err != nil {
		t.Fatal(err)
	}
	var tr hist.Trace
	if err := json.Unmarshal(f.Case, &tr); err != nil {
		t.Fatal(err)
	}
	h := run.Start(t, prop)
	defer h.Finish()
	v, _ := execute(h, &tr, nil)
	if v != nil {
		h.Fail(t, v.Oracle, v.Sig(), &tr, "%s", v.Msg)
	}
}
