package c04

// Single-field mutation operators over a well-formed signed transaction.

import (
	"bytes"
	"crypto/sha256"
	"encoding/hex"
	"encoding/json"
	"fmt"
	"math/big"
	"strconv"
	"strings"

	ethcmn "github.com/ethereum/go-ethereum/common"

	"verif/sim"
	"verif/txgen"
)

// chooser abstracts the source of choices (rapid draws, or the bytes of a fuzz input).
type chooser interface {
	Intn(n int, label string) int
}

// mTx is a transaction under construction; encode() lays it out exactly as the network
// serialisation of a signed transaction.
type mSig struct {
	KeyType string
	Key     []byte
	Sig     []byte
}

type mTx struct {
	Type int64
	Data []byte
	Cur  string
	Val  string
	Gas  int64
	Memo string
	Sigs []mSig
}

func js(v interface{}) string {
	b, err := json.Marshal(v)
	if err != nil {
		panic(err)
	}
	return string(b)
}

func (m *mTx) encode() []byte {
	var sb strings.Builder
	fmt.Fprintf(&sb, `{"type":%d,"data":%s,"fee":{"price":{"currency":%s,"value":%s},"gas":%d},"memo":%s,"signatures":[`,
		m.Type, js(m.Data), js(m.Cur), js(m.Val), m.Gas, js(m.Memo))
	for i, s := range m.Sigs {
		if i > 0 {
			sb.WriteByte(',')
		}
		fmt.Fprintf(&sb, `{"Signer":{"keyType":%s,"data":%s},"Signed":%s}`, js(s.KeyType), js(s.Key), js(s.Sig))
	}
	sb.WriteString("]}")
	return []byte(sb.String())
}

func (m *mTx) clone() *mTx {
	c := *m
	c.Data = append([]byte{}, m.Data...)
	c.Sigs = make([]mSig, len(m.Sigs))
	for i, s := range m.Sigs {
		c.Sigs[i] = mSig{s.KeyType, append([]byte{}, s.Key...), append([]byte{}, s.Sig...)}
	}
	return &c
}

func fromParsed(p *pTx) *mTx {
	m := &mTx{Type: p.Type, Data: p.Data, Cur: p.Cur, Val: p.Val.String(), Gas: p.Gas, Memo: p.Memo}
	for _, s := range p.Sigs {
		m.Sigs = append(m.Sigs, mSig{s.KeyType, s.Key, s.Sig})
	}
	return m.clone()
}

// signedBytes: the canonical (type, data, fee, memo) bytes of m (via the oracle's own canonicaliser).
func (m *mTx) signedBytes() []byte {
	v, ok := new(big.Int).SetString(m.Val, 0)
	if !ok {
		v = big.NewInt(0)
	}
	p := &pTx{Type: m.Type, Data: m.Data, Cur: m.Cur, Val: v, Gas: m.Gas, Memo: m.Memo}
	return p.canonical()
}

// Mut is one mutant.
type Mut struct {
	Op    string `json:"op"`
	Bytes []byte `json:"bytes"`
}

type mctx struct {
	u       *sim.Universe
	chainID string
	kind    *kindInfo
	orig    *mTx
	signers []*sim.User // who signed the original (native kinds), by position
	ethKey  *sim.EthUser
	c       chooser
	excl    func(string) bool
}

// allAccounts lists every native account key of the universe, by class.
func accountClasses(u *sim.Universe) [][]*sim.User {
	var users, stakes, vkeys []*sim.User
	users = append(users, u.Users...)
	for _, v := range u.Vals {
		stakes = append(stakes, v.Stake)
		vkeys = append(vkeys, v.Key)
	}
	return [][]*sim.User{users, stakes, vkeys}
}

func findUserByKey(u *sim.Universe, key []byte) *sim.User {
	for _, cl := range accountClasses(u) {
		for _, x := range cl {
			if bytes.Equal(x.Pub.Data, key) {
				return x
			}
		}
	}
	return nil
}

// otherOf returns an account of the same class as a, different from every account in avoid.
func otherOf(u *sim.Universe, a []byte, avoid []*sim.User, pick int) *sim.User {
	classes := accountClasses(u)
	cl := classes[0]
	for _, c := range classes {
		for _, x := range c {
			if bytes.Equal(x.Addr, a) {
				cl = c
			}
		}
	}
	var cand []*sim.User
	for _, x := range cl {
		bad := bytes.Equal(x.Addr, a)
		for _, av := range avoid {
			if av != nil && bytes.Equal(av.Addr, x.Addr) {
				bad = true
			}
		}
		if !bad {
			cand = append(cand, x)
		}
	}
	if len(cand) == 0 {
		return u.Users[pick%len(u.Users)]
	}
	return cand[pick%len(cand)]
}

func (x *mctx) foreign(label string) *sim.User {
	return otherOf(x.u, nil, x.signers, x.c.Intn(64, label))
}

func addrJSON(a []byte) json.RawMessage {
	return json.RawMessage(js("0lt" + hex.EncodeToString(a)))
}

// setMember replaces the value of a payload member (case-insensitive name).
func setMember(data []byte, name string, val json.RawMessage) ([]byte, bool) {
	fs, err := splitObject(data)
	if err != nil {
		return nil, false
	}
	done := false
	for i := range fs {
		if strings.EqualFold(fs[i].Key, name) {
			fs[i].Val = val
			done = true
		}
	}
	if !done {
		fs = append(fs, jfield{name, val})
	}
	return joinObject(fs), true
}

// mutateValue changes a JSON value into a different one of the same shape.
func (x *mctx) mutateValue(v json.RawMessage, depth int) json.RawMessage {
	s := strings.TrimSpace(string(v))
	switch {
	case s == "null":
		return json.RawMessage(`"0lt00000000000000000000000000000000000000aa"`)
	case s == "true":
		return json.RawMessage("false")
	case s == "false":
		return json.RawMessage("true")
	case strings.HasPrefix(s, `"`):
		var str string
		_ = json.Unmarshal(v, &str)
		if strings.HasPrefix(str, "0lt") && len(str) == 43 {
			raw, _ := hex.DecodeString(str[3:])
			o := otherOf(x.u, raw, nil, x.c.Intn(64, "victim"))
			return addrJSON(o.Addr)
		}
		if n, ok := new(big.Int).SetString(str, 10); ok {
			return json.RawMessage(js(n.Add(n, big.NewInt(int64(1+x.c.Intn(1000, "delta")))).String()))
		}
		if len(str) == 0 {
			return json.RawMessage(`"x"`)
		}
		b := []byte(str)
		i := x.c.Intn(len(b), "pos")
		if b[i] == 'A' {
			b[i] = 'B'
		} else {
			b[i] = 'A'
		}
		return json.RawMessage(js(string(b)))
	case strings.HasPrefix(s, "{"):
		fs, err := splitObject(v)
		if err != nil || len(fs) == 0 || depth > 3 {
			return json.RawMessage(`{"x":1}`)
		}
		i := x.c.Intn(len(fs), "sub")
		fs[i].Val = x.mutateValue(fs[i].Val, depth+1)
		return joinObject(fs)
	case strings.HasPrefix(s, "["):
		if s == "[]" {
			return json.RawMessage("[1]")
		}
		return json.RawMessage("[]")
	default: // number
		if n, ok := new(big.Int).SetString(s, 10); ok {
			return json.RawMessage(n.Add(n, big.NewInt(int64(1+x.c.Intn(3, "delta")))).String())
		}
		return json.RawMessage("7")
	}
}

func flipByte(b []byte, c chooser, label string) []byte {
	out := append([]byte{}, b...)
	if len(out) == 0 {
		return []byte{1}
	}
	i := c.Intn(len(out), label+"-pos")
	out[i] ^= byte(1 << uint(c.Intn(8, label+"-bit")))
	return out
}

// a valid compressed secp256k1 public key (any will do for the btcec tag)
func someSecpKey(u *sim.Universe) []byte { return u.Vals[0].EcdsaPub.Data }

// resign recomputes every signature of m with the given native signers.
func resign(m *mTx, signers []*sim.User) {
	msg := m.signedBytes()
	m.Sigs = m.Sigs[:0]
	for _, s := range signers {
		m.Sigs = append(m.Sigs, mSig{KeyType: keyTypeName(s), Key: append([]byte{}, s.Pub.Data...), Sig: s.Sign(msg)})
	}
}

func keyTypeName(s *sim.User) string {
	if len(s.Pub.Data) == 33 {
		return "secp256k1"
	}
	return "ed25519"
}

// nativeMutants builds every single-field mutant of a natively signed transaction.
func (x *mctx) nativeMutants() []Mut {
	var out []Mut
	add := func(op string, m *mTx) { out = append(out, Mut{op, m.encode()}) }
	o := x.orig
	c := x.c

	// --- payload
	{
		m := o.clone()
		m.Data = flipByte(m.Data, c, "data")
		add("data-flip", m)
	}
	if fs, err := splitObject(o.Data); err == nil && len(fs) > 0 {
		m := o.clone()
		i := c.Intn(len(fs), "member")
		fs[i].Val = x.mutateValue(fs[i].Val, 0)
		m.Data = joinObject(fs)
		add("data-field", m)
	}
	// --- fee
	{
		m := o.clone()
		v, _ := new(big.Int).SetString(o.Val, 10)
		switch c.Intn(4, "feeval") {
		case 0:
			m.Val = new(big.Int).Add(v, big.NewInt(1)).String()
		case 1:
			m.Val = new(big.Int).Mul(v, big.NewInt(2)).String()
		case 2:
			m.Val = "0"
		default:
			m.Val = new(big.Int).Sub(v, big.NewInt(1)).String()
		}
		add("fee-price-value", m)
	}
	{
		m := o.clone()
		m.Cur = []string{"VT", "", "olt", "ETH", "OLT "}[c.Intn(5, "feecur")]
		add("fee-price-currency", m)
	}
	{
		m := o.clone()
		switch c.Intn(5, "feegas") {
		case 0:
			m.Gas++
		case 1:
			m.Gas *= 10
		case 2:
			m.Gas = 0
		case 3:
			m.Gas = -1
		default:
			m.Gas--
		}
		add("fee-gas", m)
	}
	// --- memo
	{
		m := o.clone()
		switch c.Intn(3, "memo") {
		case 0:
			m.Memo += "x"
		case 1:
			m.Memo = ""
		default:
			m.Memo = "pay me"
		}
		add("memo", m)
	}
	// --- type: another kind
	{
		m := o.clone()
		var cand []int64
		for _, k := range kindTable {
			if k.Code == o.Type {
				continue
			}
			cand = append(cand, k.Code)
		}
		m.Type = cand[c.Intn(len(cand), "kind")]
		add("type", m)
	}
	// --- per signature
	for i := range o.Sigs {
		sfx := fmt.Sprintf("#%d", i)
		{
			m := o.clone()
			m.Sigs[i].Key = flipByte(m.Sigs[i].Key, c, "key")
			add("key-flip"+sfx, m)
		}
		{
			m := o.clone()
			f := x.foreign("keyother")
			m.Sigs[i].KeyType, m.Sigs[i].Key = keyTypeName(f), append([]byte{}, f.Pub.Data...)
			add("key-other"+sfx, m)
		}
		{
			// the same key in another container: tendermint's amino type prefix (ed25519 1624de6420, secp256k1 eb5ae98721)
			// or five arbitrary bytes in front, or bytes behind: not the signer's key bytes any more
			m := o.clone()
			pre := [][]byte{{0x16, 0x24, 0xde, 0x64, 0x20}, {0xeb, 0x5a, 0xe9, 0x87, 0x21}, {1, 2, 3, 4, 5}, {0, 0, 0, 0, 0}}[c.Intn(4, "keypre")]
			m.Sigs[i].Key = append(append([]byte{}, pre...), m.Sigs[i].Key...)
			add("key-prefixed-5-bytes"+sfx, m)
		}
		{
			m := o.clone()
			m.Sigs[i].Key = append(append([]byte{}, m.Sigs[i].Key...), make([]byte, 1+c.Intn(5, "keysuf"))...)
			add("key-zero-bytes-appended"+sfx, m)
		}
		{
			m := o.clone()
			if len(m.Sigs[i].Key) > 1 {
				m.Sigs[i].Key = append([]byte{}, m.Sigs[i].Key[:len(m.Sigs[i].Key)-1]...)
			}
			add("key-truncated"+sfx, m)
		}
		for _, tag := range []string{"ed25519", "secp256k1", "btcecsecp", "ethsecp", "nosuchalgo", ""} {
			if tag == o.Sigs[i].KeyType {
				continue
			}
			m := o.clone()
			m.Sigs[i].KeyType = tag
			name := tag
			if name == "" {
				name = "empty"
			}
			add("algo-"+name+sfx, m)
		}
		{
			m := o.clone()
			m.Sigs[i].KeyType, m.Sigs[i].Key = "btcecsecp", someSecpKey(x.u)
			add("algo-btcecsecp-validkey"+sfx, m)
		}
		{
			m := o.clone()
			m.Sigs[i].Sig = flipByte(m.Sigs[i].Sig, c, "sig")
			add("sig-flip"+sfx, m)
		}
		{
			m := o.clone()
			s := m.Sigs[i].Sig
			switch c.Intn(4, "trunc") {
			case 0:
				s = s[:len(s)-1]
			case 1:
				s = s[:len(s)/2]
			case 2:
				s = s[1:]
			default:
				s = []byte{}
			}
			m.Sigs[i].Sig = s
			add("sig-truncate"+sfx, m)
		}
		{
			m := o.clone()
			m.Sigs[i].Sig = append(m.Sigs[i].Sig, byte(c.Intn(256, "ext")))
			add("sig-extend"+sfx, m)
		}
		{
			m := o.clone()
			m.Sigs[i].Sig = append([]byte("SHA256"), m.Sigs[i].Sig...)
			add("sig-prehash-tag-only"+sfx, m)
		}
		if s := x.signers[i]; s != nil && keyTypeName(s) == "ed25519" {
			// hardware-wallet form: the right key signs the SHA-256 of the right bytes (authentic)
			m := o.clone()
			d := sha256.Sum256(o.signedBytes())
			m.Sigs[i].Sig = append([]byte("SHA256"), s.Sign(d[:])...)
			add("sig-prehash-resigned"+sfx, m)
		}
		if s := x.signers[i]; s != nil && keyTypeName(s) == "ed25519" {
			// the hardware-wallet form with bytes behind the signature value
			m := o.clone()
			d := sha256.Sum256(o.signedBytes())
			m.Sigs[i].Sig = append(append([]byte("SHA256"), s.Sign(d[:])...), [][]byte{{0x90}, {0x90, 0x00}, make([]byte, 64)}[c.Intn(3, "pretail")]...)
			add("sig-prehash-resigned-with-tail"+sfx, m)
		}
		if len(o.Sigs[i].Sig) == 64 && (o.Sigs[i].KeyType == "secp256k1" || o.Sigs[i].KeyType == "btcecsecp") {
			// ECDSA malleability: (r, N-s) verifies wherever (r, s) does unless the verifier insists on the low half
			m := o.clone()
			n, _ := new(big.Int).SetString("fffffffffffffffffffffffffffffffebaaedce6af48a03bbfd25e8cd0364141", 16)
			sv := new(big.Int).SetBytes(m.Sigs[i].Sig[32:])
			hs := new(big.Int).Sub(n, sv).Bytes()
			sig := append([]byte{}, m.Sigs[i].Sig[:32]...)
			sig = append(sig, make([]byte, 32-len(hs))...)
			m.Sigs[i].Sig = append(sig, hs...)
			add("sig-ecdsa-other-s"+sfx, m)
		}
		// --- signature bytes reused unchanged from somewhere else (the key entry stays the required signer's)
		if len(o.Sigs) >= 2 {
			// another slot's signature bytes of this very transaction
			m := o.clone()
			m.Sigs[i].Sig = append([]byte{}, o.Sigs[(i+1)%len(o.Sigs)].Sig...)
			add("sig-copied-from-other-slot"+sfx, m)
		}
		if s := x.signers[i]; s != nil {
			// the right key's genuine signature, but over another transaction (same content, other memo / fee)
			other := o.clone()
			if c.Intn(2, "othertx") == 0 {
				other.Memo += "-earlier"
			} else {
				other.Gas++
			}
			m := o.clone()
			m.Sigs[i].Sig = s.Sign(other.signedBytes())
			add("sig-of-other-transaction"+sfx, m)
		}
		{
			// a foreign key's genuine signature over this transaction, under the required signer's key entry
			m := o.clone()
			f := x.foreign("foreignsig")
			m.Sigs[i].Sig = f.Sign(o.signedBytes())
			add("sig-of-foreign-key"+sfx, m)
		}
		{
			m := o.clone()
			m.Sigs = append(m.Sigs[:i], m.Sigs[i+1:]...)
			add("sigs-drop"+sfx, m)
		}
		{
			m := o.clone()
			m.Sigs = append(m.Sigs, m.Sigs[i])
			add("sigs-duplicate"+sfx, m)
		}
		{
			// the wrong key signs (correctly) in place of the required signer
			m := o.clone()
			f := x.foreign("wrongkey")
			m.Sigs[i] = mSig{KeyType: keyTypeName(f), Key: append([]byte{}, f.Pub.Data...), Sig: f.Sign(o.signedBytes())}
			add("resign-wrong-key"+sfx, m)
		}
		if i < len(x.kind.Signers) && x.signers[i] != nil {
			// the payload names somebody else as the required signer; the original keys re-sign
			m := o.clone()
			cur := x.signers[i].Addr
			victim := otherOf(x.u, cur, x.signers, c.Intn(64, "victim"))
			if d, ok := setMember(m.Data, x.kind.Signers[i], addrJSON(victim.Addr)); ok {
				m.Data = d
				ok2 := true
				for _, s := range x.signers {
					if s == nil {
						ok2 = false
					}
				}
				if ok2 {
					resign(m, x.signers)
					add("victim-address-resigned"+sfx, m)
				}
			}
		}
		if i < len(x.kind.Signers) {
			// degenerate signer: empty address in the payload, key with the btcec tag
			m := o.clone()
			if d, ok := setMember(m.Data, x.kind.Signers[i], json.RawMessage(`""`)); ok {
				m.Data = d
				m.Sigs[i].KeyType, m.Sigs[i].Key = "btcecsecp", someSecpKey(x.u)
				add("empty-signer-btcecsecp"+sfx, m)
			}
		}
	}
	// --- signature list
	{
		m := o.clone()
		m.Sigs = nil
		add("sigs-none", m)
	}
	{
		m := o.clone()
		f := x.foreign("append")
		m.Sigs = append(m.Sigs, mSig{KeyType: keyTypeName(f), Key: append([]byte{}, f.Pub.Data...), Sig: f.Sign(o.signedBytes())})
		add("sigs-append-foreign", m)
	}
	{
		m := o.clone()
		f := x.foreign("prepend")
		m.Sigs = append([]mSig{{KeyType: keyTypeName(f), Key: append([]byte{}, f.Pub.Data...), Sig: f.Sign(o.signedBytes())}}, m.Sigs...)
		add("sigs-prepend-foreign", m)
	}
	if len(o.Sigs) >= 2 {
		m := o.clone()
		m.Sigs[0], m.Sigs[1] = m.Sigs[1], m.Sigs[0]
		add("sigs-reorder", m)
		m2 := o.clone()
		m2.Sigs[1] = m2.Sigs[0]
		add("sigs-second-replaced-by-first", m2)
		// only the signature bytes change places, the key entries stay
		m3 := o.clone()
		m3.Sigs[0].Sig, m3.Sigs[1].Sig = m3.Sigs[1].Sig, m3.Sigs[0].Sig
		add("sigs-bytes-swapped", m3)
		// every slot carries the first signer's signature bytes
		m4 := o.clone()
		for k := 1; k < len(m4.Sigs); k++ {
			m4.Sigs[k].Sig = append([]byte{}, o.Sigs[0].Sig...)
		}
		add("sigs-all-copies-of-first", m4)
	}
	// --- encoding only (classification control: same parsed content, not C04's subject)
	{
		b := o.encode()
		out = append(out, Mut{"encoding-whitespace", append([]byte(" "), b...)})
	}
	return out
}

// olvmMutants builds the mutants of an OLVM transaction.
func (x *mctx) olvmMutants() []Mut {
	var out []Mut
	add := func(op string, m *mTx) {
		if pl, err := parseOLVM(m.Data); err == nil && x.excl != nil {
			// known finding "OLVM:unsigned-payload-member", reached through another operator (e.g. a
			// bit flip inside the payload's type member, or a memo that still parses to the nonce)
			unsignedMember := pl.TxType != 0 || !emptyAccessList(pl.AccessList)
			if n, err := strconv.ParseUint(m.Memo, 10, 64); err == nil && n == pl.Nonce && m.Memo != strconv.FormatUint(pl.Nonce, 10) {
				unsignedMember = true
			}
			if unsignedMember && !strings.HasPrefix(op, "olvm-") && x.excl("OLVM:unsigned-payload-member") {
				return
			}
		}
		out = append(out, Mut{op, m.encode()})
	}
	o := x.orig
	c := x.c
	pay, err := parseOLVM(o.Data)
	if err != nil {
		return nil
	}
	{
		m := o.clone()
		m.Data = flipByte(m.Data, c, "data")
		add("data-flip", m)
	}
	for _, member := range []string{"nonce", "from", "to", "amount", "data", "chainID"} {
		m := o.clone()
		fs, _ := splitObject(o.Data)
		for i := range fs {
			if fs[i].Key == member {
				if member == "from" || member == "to" {
					e := x.u.Eth[(c.Intn(len(x.u.Eth)-1, "ethvictim")+1+ethIndex(x.u, x.ethKey))%len(x.u.Eth)]
					fs[i].Val = addrJSON(e.Addr.Bytes())
				} else if member == "data" {
					fs[i].Val = json.RawMessage(js([]byte{0x60, 0x00, byte(c.Intn(256, "code"))}))
				} else {
					fs[i].Val = x.mutateValue(fs[i].Val, 0)
				}
			}
		}
		m.Data = joinObject(fs)
		add("data-field-"+member, m)
	}
	{
		// the chain id member removed / null
		fs, _ := splitObject(o.Data)
		var kept []jfield
		for _, f := range fs {
			if f.Key != "chainID" {
				kept = append(kept, f)
			}
		}
		m := o.clone()
		m.Data = joinObject(kept)
		add("data-field-chainID-removed", m)
		m2 := o.clone()
		m2.Data, _ = setMember(o.Data, "chainID", json.RawMessage("null"))
		add("data-field-chainID-null", m2)
	}
	if !(x.excl != nil && x.excl("OLVM:unsigned-payload-member")) {
		{
			m := o.clone()
			al := `[{"address":"0x00000000000000000000000000000000000000aa","storageKeys":["0x0000000000000000000000000000000000000000000000000000000000000001"]}]`
			m.Data, _ = setMember(o.Data, "accessList", json.RawMessage(al))
			add("olvm-access-list", m)
		}
		{
			m := o.clone()
			m.Data, _ = setMember(o.Data, "type", json.RawMessage("1"))
			add("olvm-payload-type", m)
		}
	}
	{
		m := o.clone()
		v, _ := new(big.Int).SetString(o.Val, 10)
		switch c.Intn(3, "feeval") {
		case 0:
			m.Val = new(big.Int).Add(v, big.NewInt(1)).String()
		case 1:
			m.Val = new(big.Int).Mul(v, big.NewInt(2)).String()
		default:
			m.Val = new(big.Int).Sub(v, big.NewInt(1)).String()
		}
		add("fee-price-value", m)
	}
	{
		m := o.clone()
		m.Cur = []string{"VT", "", "olt", "ETH"}[c.Intn(4, "feecur")]
		add("fee-price-currency", m)
	}
	{
		m := o.clone()
		switch c.Intn(3, "feegas") {
		case 0:
			m.Gas++
		case 1:
			m.Gas *= 2
		default:
			m.Gas--
		}
		add("fee-gas", m)
	}
	{
		m := o.clone()
		switch c.Intn(4, "memo") {
		case 0:
			m.Memo += "1"
		case 1:
			m.Memo = ""
		case 2:
			m.Memo = fmt.Sprint(pay.Nonce + 1)
		default:
			m.Memo = "+" + m.Memo
		}
		add("memo", m)
	}
	if !(x.excl != nil && x.excl("OLVM:unsigned-payload-member")) {
		// a different memo that still denotes the nonce
		m := o.clone()
		m.Memo = strings.Repeat("0", 1+c.Intn(3, "zeros")) + m.Memo
		add("olvm-memo-leading-zeros", m)
	}
	{
		m := o.clone()
		for {
			k := kindTable[c.Intn(len(kindTable), "kind")]
			if k.Code != o.Type {
				m.Type = k.Code
				break
			}
		}
		add("type", m)
	}
	{
		m := o.clone()
		m.Sigs[0].Sig = flipByte(m.Sigs[0].Sig, c, "sig")
		add("sig-flip#0", m)
	}
	{
		m := o.clone()
		s := m.Sigs[0].Sig
		switch c.Intn(3, "trunc") {
		case 0:
			s = s[:len(s)-1]
		case 1:
			s = s[:32]
		default:
			s = []byte{}
		}
		m.Sigs[0].Sig = s
		add("sig-truncate#0", m)
	}
	{
		m := o.clone()
		m.Sigs[0].Sig = append(m.Sigs[0].Sig, byte(c.Intn(256, "ext")))
		add("sig-extend#0", m)
	}
	{
		m := o.clone()
		m.Sigs = nil
		add("sigs-none", m)
	}
	{
		m := o.clone()
		m.Sigs = append(m.Sigs, m.Sigs[0])
		add("sigs-duplicate#0", m)
	}
	{
		// the sender's genuine signature over another transaction (other value), attached to this one
		var to *ethcmn.Address
		if pay.To != nil {
			t := ethcmn.BytesToAddress(*pay.To)
			to = &t
		}
		v, _ := new(big.Int).SetString(o.Val, 10)
		otherTx := txgen.OLVM(x.ethKey, txgen.OLVMArgs{ChainID: x.chainID, Nonce: pay.Nonce, To: to, Value: new(big.Int).Add(pay.Amount.Value.V, big.NewInt(1)), Data: pay.Data,
			Fee: txgen.Fee{Price: v, Cur: o.Cur, Gas: o.Gas}})
		if po, err := parseTx(otherTx.Bytes); err == nil && len(po.Sigs) == 1 {
			m := o.clone()
			m.Sigs[0].Sig = po.Sigs[0].Sig
			add("sig-of-other-transaction#0", m)
		}
	}
	{
		// another ethereum key signs the same content, payload still names the original sender
		other := x.u.Eth[(ethIndex(x.u, x.ethKey)+1+c.Intn(len(x.u.Eth)-1, "ethother"))%len(x.u.Eth)]
		var to *ethcmn.Address
		if pay.To != nil {
			t := ethcmn.BytesToAddress(*pay.To)
			to = &t
		}
		from := x.ethKey.OLAddr()
		v, _ := new(big.Int).SetString(o.Val, 10)
		tx := txgen.OLVM(other, txgen.OLVMArgs{ChainID: x.chainID, Nonce: pay.Nonce, To: to, Value: pay.Amount.Value.V, Data: pay.Data,
			Fee: txgen.Fee{Price: v, Cur: o.Cur, Gas: o.Gas}, FromAddr: &from})
		out = append(out, Mut{"resign-wrong-key#0", tx.Bytes})
	}
	// the signer entry's public key is decoration for OLVM (the sender is recovered): these
	// stay authentic and are only classified
	{
		m := o.clone()
		m.Sigs[0].Key = flipByte(m.Sigs[0].Key, c, "key")
		add("key-flip#0", m)
	}
	{
		m := o.clone()
		m.Sigs[0].KeyType = "ed25519"
		add("algo-ed25519#0", m)
	}
	{
		// payload re-encoded (same parsed payload, different data bytes)
		m := o.clone()
		m.Data = append([]byte(" "), m.Data...)
		add("olvm-payload-whitespace", m)
	}
	{
		b := o.encode()
		out = append(out, Mut{"encoding-whitespace", append([]byte(" "), b...)})
	}
	return out
}

func ethIndex(u *sim.Universe, e *sim.EthUser) int {
	for i, x := range u.Eth {
		if x == e {
			return i
		}
	}
	return 0
}

// opClass strips the signature index from an operator name.
func opClass(op string) string {
	if i := strings.IndexByte(op, '#'); i >= 0 {
		return op[:i]
	}
	return op
}
