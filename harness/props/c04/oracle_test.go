package c04

// The harness's own authenticity oracle. Nothing in this file calls the repository's
// Signers(), ValidateBasic, key handlers or serializer: the wire format is decoded with
// encoding/json into mirror types, the signed bytes are re-derived from the parsed content,
// the required signer set comes from the table below and signatures are verified with the
// crypto libraries directly (tendermint ed25519 / secp256k1, go-ethereum for EIP-155).

import (
	"bytes"
	"crypto/sha256"
	"crypto/sha512"
	"encoding/hex"
	"encoding/json"
	"errors"
	"fmt"
	"hash"
	"hash/fnv"
	"math/big"
	"strconv"
	"strings"

	ethcmn "github.com/ethereum/go-ethereum/common"
	ethtypes "github.com/ethereum/go-ethereum/core/types"
	ethcrypto "github.com/ethereum/go-ethereum/crypto"
	"github.com/tendermint/tendermint/crypto/ed25519"
	"github.com/tendermint/tendermint/crypto/secp256k1"
)

// ---- kinds ----------------------------------------------------------------------

type kindInfo struct {
	Name    string
	Code    int64
	Signers []string // payload JSON field names of the addresses whose authority the payload requires, in order
}

// kindTable is written from the property's mechanism note and the message definitions:
// "for each address whose authority the payload requires".
var kindTable = []kindInfo{
	{"SEND", 0x01, []string{"from"}},
	{"SENDPOOL", 0x02, []string{"From"}},
	{"STAKE", 0x11, []string{"StakeAddress", "ValidatorAddress"}},
	{"UNSTAKE", 0x12, []string{"StakeAddress", "ValidatorAddress"}},
	{"WITHDRAW", 0x13, []string{"StakeAddress", "ValidatorAddress"}},
	{"WITHDRAW_REWARD", 0x41, []string{"signerAddress"}},
	{"ADD_NETWORK_DELEGATE", 0x51, []string{"delegationAddress"}},
	{"NETWORK_UNDELEGATE", 0x52, []string{"delegator"}},
	{"REWARDS_WITHDRAW_NETWORK_DELEGATE", 0x53, []string{"delegator"}},
	{"REWARDS_REINVEST_NETWORK_DELEGATE", 0x54, []string{"delegator"}},
	{"ALLEGATION", 0x61, []string{"ValidatorAddress"}},
	{"ALLEGATION_VOTE", 0x62, []string{"Address"}},
	{"RELEASE", 0x63, []string{"ValidatorAddress"}},
	{"DOMAIN_CREATE", 0x21, []string{"owner"}},
	{"DOMAIN_UPDATE", 0x22, []string{"owner"}},
	{"DOMAIN_SELL", 0x23, []string{"ownerAddress"}},
	{"DOMAIN_PURCHASE", 0x24, []string{"buyer"}},
	{"DOMAIN_SEND", 0x25, []string{"from"}},
	{"DOMAIN_DELETE_SUB", 0x26, []string{"owner"}},
	{"DOMAIN_RENEW", 0x27, []string{"owner"}},
	{"PROPOSAL_CREATE", 0x30, []string{"proposerAddress"}},
	{"PROPOSAL_CANCEL", 0x31, []string{"proposerAddress"}},
	{"PROPOSAL_FUND", 0x32, []string{"funderAddress"}},
	{"PROPOSAL_VOTE", 0x33, []string{"address", "validatorAddress"}},
	// public-router kinds: their payload names one address (validatorAddress) and their
	// Validate requires that address's signature; nothing ties it to an actual validator
	// (that is C14's subject), so the authority the payload requires is that address.
	{"PROPOSAL_FINALIZE", 0x34, []string{"validatorAddress"}},
	{"EXPIRE_VOTES", 0x35, []string{"validatorAddress"}},
	{"PROPOSAL_WITHDRAW_FUNDS", 0x36, []string{"funderAddress"}},
	{"ETH_LOCK", 0x91, []string{"Locker"}},
	{"ETH_REPORT_FINALITY_MINT", 0x92, []string{"ValidatorAddress"}},
	{"ETH_REDEEM", 0x93, []string{"Owner"}},
	{"ERC20_LOCK", 0x94, []string{"Locker"}},
	{"ERC20_REDEEM", 0x95, []string{"Owner"}},
	{"OLVM", 0x101, []string{"from"}},
	// bid application (external_apps/bid): the party the message names; BID_EXPIRE is the block hook's own
	// transaction, routed from outside as well: like the public governance kinds it names one address
	// (validatorAddress) whose signature its Validate requires
	{"BID_CREATE", 0x901, []string{"bidder"}},
	{"BID_CONTER_OFFER", 0x902, []string{"assetOwner"}},
	{"BID_CANCEL", 0x903, []string{"bidder"}},
	{"BID_BIDDER_DECISION", 0x904, []string{"bidder"}},
	{"BID_EXPIRE", 0x905, []string{"validatorAddress"}},
	{"BID_OWNER_DECISION", 0x906, []string{"owner"}},
}

const olvmCode = 0x101

func kindByCode(c int64) *kindInfo {
	for i := range kindTable {
		if kindTable[i].Code == c {
			return &kindTable[i]
		}
	}
	return nil
}

func kindByName(n string) *kindInfo {
	for i := range kindTable {
		if kindTable[i].Name == n {
			return &kindTable[i]
		}
	}
	return nil
}

// ---- wire mirror types ---------------------------------------------------------------

// algo mirrors the wire semantics of the key algorithm tag: a JSON string; the four known
// names select an algorithm, any other text leaves the field as it was.
type algo string

func (a *algo) UnmarshalText(b []byte) error {
	switch string(b) {
	case "ed25519", "secp256k1", "btcecsecp", "ethsecp":
		*a = algo(b)
	}
	return nil
}

// amt mirrors the wire semantics of an amount value: a JSON string holding an integer in Go
// literal syntax (base prefix allowed).
type amt struct{ V *big.Int }

func (a *amt) UnmarshalJSON(b []byte) error {
	s := ""
	if err := json.Unmarshal(b, &s); err != nil {
		return err
	}
	v, ok := new(big.Int).SetString(s, 0)
	if !ok {
		return errors.New("not an integer: " + s)
	}
	a.V = v
	return nil
}

// addr mirrors an address: JSON string, optional 0lt prefix, hex.
type addr []byte

func (a *addr) UnmarshalText(b []byte) error {
	s := string(b)
	s = strings.TrimPrefix(s, "0lt")
	raw, err := hex.DecodeString(s)
	if err != nil {
		return err
	}
	*a = raw
	return nil
}

type wireKey struct {
	KeyType algo   `json:"keyType"`
	Data    []byte `json:"data"`
}

type wireSig struct {
	Signer wireKey
	Signed []byte
}

type wireAmount struct {
	Currency string `json:"currency"`
	Value    amt    `json:"value"`
}

type wireFee struct {
	Price wireAmount `json:"price"`
	Gas   int64      `json:"gas"`
}

type wireTx struct {
	Type       int       `json:"type"`
	Data       []byte    `json:"data"`
	Fee        wireFee   `json:"fee"`
	Memo       string    `json:"memo"`
	Signatures []wireSig `json:"signatures"`
}

// pTx is the parsed content of a transaction.
type pSig struct {
	KeyType string
	Key     []byte
	Sig     []byte
}

type pTx struct {
	Type int64
	Data []byte
	Cur  string
	Val  *big.Int
	Gas  int64
	Memo string
	Sigs []pSig
}

// parseTx is the harness's own parse. An error means "not parsable by this parser": such
// inputs are outside C04's assertions.
func parseTx(b []byte) (*pTx, error) {
	var w wireTx
	if err := json.Unmarshal(b, &w); err != nil {
		return nil, err
	}
	if w.Fee.Price.Value.V == nil {
		return nil, errors.New("fee value missing")
	}
	p := &pTx{Type: int64(w.Type), Data: w.Data, Cur: w.Fee.Price.Currency, Val: w.Fee.Price.Value.V, Gas: w.Fee.Gas, Memo: w.Memo}
	for _, s := range w.Signatures {
		p.Sigs = append(p.Sigs, pSig{KeyType: string(s.Signer.KeyType), Key: s.Signer.Data, Sig: s.Signed})
	}
	return p, nil
}

// sameContent: equal parsed (type, data, fee, memo, signatures).
func sameContent(a, b *pTx) bool {
	if a.Type != b.Type || !bytes.Equal(a.Data, b.Data) || a.Cur != b.Cur || a.Val.Cmp(b.Val) != 0 || a.Gas != b.Gas || a.Memo != b.Memo || len(a.Sigs) != len(b.Sigs) {
		return false
	}
	for i := range a.Sigs {
		if a.Sigs[i].KeyType != b.Sigs[i].KeyType || !bytes.Equal(a.Sigs[i].Key, b.Sigs[i].Key) || !bytes.Equal(a.Sigs[i].Sig, b.Sigs[i].Sig) {
			return false
		}
	}
	return true
}

// canonical serialisation of (type, data, fee, memo): what a signature must cover.
type cAmt struct {
	Currency string `json:"currency"`
	Value    string `json:"value"`
}
type cFee struct {
	Price cAmt  `json:"price"`
	Gas   int64 `json:"gas"`
}
type cRaw struct {
	Type int64  `json:"type"`
	Data []byte `json:"data"`
	Fee  cFee   `json:"fee"`
	Memo string `json:"memo"`
}

func (p *pTx) canonical() []byte {
	b, err := json.Marshal(cRaw{Type: p.Type, Data: p.Data, Fee: cFee{Price: cAmt{Currency: p.Cur, Value: p.Val.String()}, Gas: p.Gas}, Memo: p.Memo})
	if err != nil {
		panic(err)
	}
	return b
}

// ---- keys: address derivation and verification -------------------------------------

// keyAddress returns the account address a public key stands for (nil: the key has none).
func keyAddress(kt string, key []byte) []byte {
	switch kt {
	case "ed25519":
		if len(key) != ed25519.PubKeyEd25519Size {
			return nil
		}
		var k ed25519.PubKeyEd25519
		copy(k[:], key)
		return k.Address().Bytes()
	case "secp256k1":
		if len(key) != secp256k1.PubKeySecp256k1Size {
			return nil
		}
		var k secp256k1.PubKeySecp256k1
		copy(k[:], key)
		return k.Address().Bytes()
	case "ethsecp":
		pk, err := ethcrypto.DecompressPubkey(key)
		if err != nil {
			return nil
		}
		return ethcrypto.PubkeyToAddress(*pk).Bytes()
	}
	// btcecsecp keys and unknown algorithms do not stand for any account address
	return nil
}

func preHash(tag string) hash.Hash {
	switch tag {
	case "SHA224":
		return sha256.New224()
	case "SHA256":
		return sha256.New()
	case "SHA384":
		return sha512.New384()
	case "SHA512":
		return sha512.New()
	}
	return nil
}

// verifies: does sig verify under (kt,key) over msg? Deliberately generous (hardware-wallet
// pre-hash form for ed25519, several digest conventions for eth keys): C04 only asserts
// "accepted => authentic", so generosity here cannot raise a false alarm.
func verifies(kt string, key, msg, sig []byte) bool {
	switch kt {
	case "ed25519":
		if len(key) != ed25519.PubKeyEd25519Size {
			return false
		}
		var k ed25519.PubKeyEd25519
		copy(k[:], key)
		if k.VerifyBytes(msg, sig) {
			return true
		}
		if len(sig) == 6+64 {
			if h := preHash(string(sig[:6])); h != nil {
				h.Write(msg)
				return k.VerifyBytes(h.Sum(nil), sig[6:])
			}
		}
		return false
	case "secp256k1":
		if len(key) != secp256k1.PubKeySecp256k1Size {
			return false
		}
		var k secp256k1.PubKeySecp256k1
		copy(k[:], key)
		return k.VerifyBytes(msg, sig)
	case "ethsecp":
		pk, err := ethcrypto.DecompressPubkey(key)
		if err != nil {
			return false
		}
		pub := ethcrypto.CompressPubkey(pk)
		s := sig
		if len(s) == 65 {
			s = s[:64]
		}
		if len(s) != 64 {
			return false
		}
		if len(msg) == 32 && ethcrypto.VerifySignature(pub, msg, s) {
			return true
		}
		if ethcrypto.VerifySignature(pub, ethcrypto.Keccak256(msg), s) {
			return true
		}
		d := sha256.Sum256(msg)
		return ethcrypto.VerifySignature(pub, d[:], s)
	}
	return false
}

// ---- payload access --------------------------------------------------------------------

type jfield struct {
	Key string
	Val json.RawMessage
}

// splitObject decodes a JSON object into its members in document order.
func splitObject(b []byte) ([]jfield, error) {
	dec := json.NewDecoder(bytes.NewReader(b))
	tok, err := dec.Token()
	if err != nil {
		return nil, err
	}
	if d, ok := tok.(json.Delim); !ok || d != '{' {
		return nil, errors.New("not an object")
	}
	var out []jfield
	for dec.More() {
		kt, err := dec.Token()
		if err != nil {
			return nil, err
		}
		k, ok := kt.(string)
		if !ok {
			return nil, errors.New("bad key")
		}
		var raw json.RawMessage
		if err := dec.Decode(&raw); err != nil {
			return nil, err
		}
		out = append(out, jfield{k, raw})
	}
	if _, err := dec.Token(); err != nil {
		return nil, err
	}
	if dec.More() {
		return nil, errors.New("trailing data")
	}
	return out, nil
}

func joinObject(fs []jfield) []byte {
	var sb bytes.Buffer
	sb.WriteByte('{')
	for i, f := range fs {
		if i > 0 {
			sb.WriteByte(',')
		}
		k, _ := json.Marshal(f.Key)
		sb.Write(k)
		sb.WriteByte(':')
		sb.Write(f.Val)
	}
	sb.WriteByte('}')
	return sb.Bytes()
}

// payloadAddr reads an address-valued member (matched case-insensitively; a member present
// more than once is ambiguous and reported as an error).
func payloadAddr(fs []jfield, name string) ([]byte, error) {
	var found *jfield
	for i := range fs {
		if strings.EqualFold(fs[i].Key, name) {
			if found != nil {
				return nil, errors.New("ambiguous member " + name)
			}
			found = &fs[i]
		}
	}
	if found == nil || string(found.Val) == "null" {
		return []byte{}, nil
	}
	var a addr
	if err := json.Unmarshal(found.Val, &a); err != nil {
		return nil, err
	}
	return []byte(a), nil
}

// requiredSigners is S(x): the ordered addresses whose authority the payload requires.
func requiredSigners(k *kindInfo, data []byte) ([][]byte, error) {
	fs, err := splitObject(data)
	if err != nil {
		return nil, err
	}
	var out [][]byte
	for _, n := range k.Signers {
		a, err := payloadAddr(fs, n)
		if err != nil {
			return nil, err
		}
		out = append(out, a)
	}
	return out, nil
}

// ---- verdicts --------------------------------------------------------------------------

type verdict int

const (
	vAuthentic verdict = iota
	vUnauthentic
	vUnknown // the oracle cannot decide (kind outside the table, payload it cannot read while some signature verifies)
)

func (v verdict) String() string { return [...]string{"authentic", "unauthentic", "undecided"}[v] }

// OLVM

type olvmPayload struct {
	Nonce      uint64          `json:"nonce"`
	From       addr            `json:"from"`
	To         *addr           `json:"to"`
	Amount     wireAmount      `json:"amount"`
	Data       []byte          `json:"data"`
	ChainID    *big.Int        `json:"chainID"`
	TxType     int64           `json:"type"`
	AccessList json.RawMessage `json:"accessList"`
}

func netChainID(chainID string) *big.Int {
	h := fnv.New32a()
	h.Write([]byte(chainID))
	return new(big.Int).SetUint64(uint64(h.Sum32()))
}

func parseOLVM(data []byte) (*olvmPayload, error) {
	var m olvmPayload
	if err := json.Unmarshal(data, &m); err != nil {
		return nil, err
	}
	if m.Amount.Value.V == nil {
		return nil, errors.New("amount value missing")
	}
	return &m, nil
}

// olvmSender recovers the EIP-155 sender of the ethereum transaction the OLVM payload and
// fee describe.
func olvmSender(p *pTx, m *olvmPayload, chainID string) ([]byte, error) {
	if len(p.Sigs) < 1 {
		return nil, errors.New("no signature")
	}
	if len(p.Sigs[0].Sig) != 65 {
		// (go-ethereum's signer panics on any other length)
		return nil, fmt.Errorf("signature of %d bytes, an EIP-155 signature has 65", len(p.Sigs[0].Sig))
	}
	var to *ethcmn.Address
	if m.To != nil {
		t := ethcmn.BytesToAddress(*m.To)
		to = &t
	}
	tx := ethtypes.NewTx(&ethtypes.LegacyTx{Nonce: m.Nonce, To: to, Value: m.Amount.Value.V, Gas: uint64(p.Gas), GasPrice: p.Val, Data: m.Data})
	signer := ethtypes.NewEIP155Signer(netChainID(chainID))
	stx, err := tx.WithSignature(signer, p.Sigs[0].Sig)
	if err != nil {
		return nil, err
	}
	a, err := signer.Sender(stx)
	if err != nil {
		return nil, err
	}
	return a.Bytes(), nil
}

func emptyAccessList(r json.RawMessage) bool {
	s := strings.TrimSpace(string(r))
	return s == "" || s == "null" || s == "[]"
}

// authOLVM: the EIP-155 signature covers nonce, to, value, data, gas limit, gas price and the
// chain id. Everything else in (type, payload, fee, memo) must be fixed by those, otherwise
// it could be changed after signing: memo = nonce, the two currencies = OLT, payload chain
// id = the network's, payload type 0 and no access list (the mechanism note: "EIP-155 sender
// recovery, memo must equal nonce").
func authOLVM(p *pTx, chainID string) (verdict, string) {
	m, err := parseOLVM(p.Data)
	if err != nil {
		return vUnknown, "payload: " + err.Error()
	}
	from, err := olvmSender(p, m, chainID)
	if err != nil {
		return vUnauthentic, "no sender recoverable: " + err.Error()
	}
	if !bytes.Equal(from, m.From) {
		return vUnauthentic, fmt.Sprintf("recovered sender %x is not the payload's from %x", from, []byte(m.From))
	}
	if p.Memo != strconv.FormatUint(m.Nonce, 10) {
		return vUnauthentic, "memo is not the signed nonce"
	}
	if p.Cur != "OLT" || m.Amount.Currency != "OLT" {
		return vUnauthentic, "a currency name not covered by the signature differs from OLT"
	}
	if m.ChainID == nil || m.ChainID.Cmp(netChainID(chainID)) != 0 {
		return vUnauthentic, "payload chain id differs from the signed one"
	}
	if m.TxType != 0 || !emptyAccessList(m.AccessList) {
		return vUnauthentic, "payload member not covered by the signature (type / accessList) is set"
	}
	return vAuthentic, ""
}

// auth decides authenticity of a parsed transaction.
func auth(p *pTx, chainID string) (verdict, string) {
	k := kindByCode(p.Type)
	if k == nil {
		return vUnknown, "kind outside the table"
	}
	if k.Code == olvmCode {
		return authOLVM(p, chainID)
	}
	msg := p.canonical()
	type sv struct {
		ok   bool
		addr []byte
	}
	sigs := make([]sv, len(p.Sigs))
	any := false
	for i, s := range p.Sigs {
		a := keyAddress(s.KeyType, s.Key)
		ok := a != nil && verifies(s.KeyType, s.Key, msg, s.Sig)
		sigs[i] = sv{ok, a}
		any = any || ok
	}
	if !any {
		return vUnauthentic, "no signature verifies over the canonical (type, data, fee, memo) under an account key"
	}
	req, err := requiredSigners(k, p.Data)
	if err != nil {
		return vUnknown, "payload: " + err.Error()
	}
	if len(p.Sigs) < len(req) {
		return vUnauthentic, fmt.Sprintf("%d signatures for %d required signers", len(p.Sigs), len(req))
	}
	for i, r := range req {
		if !sigs[i].ok {
			return vUnauthentic, fmt.Sprintf("signature %d does not verify", i)
		}
		if !bytes.Equal(sigs[i].addr, r) {
			return vUnauthentic, fmt.Sprintf("signature %d is by %x, the payload requires %x", i, sigs[i].addr, r)
		}
	}
	return vAuthentic, ""
}
