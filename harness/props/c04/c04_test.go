// Package c04: only authentically signed, untampered transactions are admitted or executed.
//
// For every transaction kind the harness can build, a well-formed signed transaction t that
// is applicable in a warmed-up state (hist.Farm) and every single-field mutant m(t) are
// submitted to the real application. An independent oracle (oracle_test.go) decides
// auth(m). Asserted: CheckTx(m).Code == 0 => auth(m); DeliverTx(m).Code == 0 or any change
// of the committed state => auth(m). Nothing is demanded of authentic transactions.
package c04

import (
	"bytes"
	"encoding/json"
	"fmt"
	"os"
	"sort"
	"strings"
	"sync"
	"testing"

	"pgregory.net/rapid"

	"verif/hist"
	"verif/run"
	"verif/sim"
	"verif/txgen"
)

func TestMain(m *testing.M) {
	run.Quiet()
	os.Exit(m.Run())
}

// Subject is one original transaction and its mutants, evaluated in the block Pre+1 blocks
// after the farm prefix.
type Subject struct {
	Kind string `json:"kind"`
	Pre  int    `json:"pre"` // empty blocks between the farm prefix and the subject's first block
	// Mode says what the node saw of the ORIGINAL before it sees the mutants ("the oracle must
	// hold regardless of what the node saw before", e.g. validation caches):
	//   fresh          nothing
	//   primed-check   the original passed through CheckTx on the same node and is not delivered
	//   primed-deliver the original was delivered (executed) in the block before
	Mode string `json:"mode,omitempty"`
	Orig []byte `json:"orig"`
	Muts []Mut  `json:"mutants"`
	note string // generator bookkeeping note of the original (OLVM nonce)
}

var modes = []string{"fresh", "primed-check", "primed-deliver"}

// Case is the replay payload.
type Case struct {
	Seed     string        `json:"seed"`
	Opts     hist.FarmOpts `json:"opts"`
	Subjects []Subject     `json:"subjects"`
}

type violation struct {
	oracle string
	class  string
	msg    string
	min    *Case // minimal reproduction
}

// replica 0 receives the mutants, replica 1 is its twin (same blocks without the mutants,
// nothing else), replica 2 runs the control executions of the originals (its mempool state
// is touched by them, so it is never compared).
var roles = []sim.Role{{ValIdx: 0, IsWitness: true}, {ValIdx: 0, IsWitness: true}, {ValIdx: 0, IsWitness: true}}

// buildWorld builds the farm world of a case.
func buildWorld(seed string, o hist.FarmOpts) (w *hist.World, f *hist.Farm, err error) {
	// (a loaded machine can fail to open the scratch databases: try again before giving up)
	for attempt := 0; attempt < 3; attempt++ {
		if w, f, err = buildWorldOnce(seed, o); err == nil {
			return
		}
	}
	return
}

func buildWorldOnce(seed string, o hist.FarmOpts) (*hist.World, *hist.Farm, error) {
	p := hist.PrepareFarmParams(hist.FarmParams(seed), o)
	w, err := hist.NewWorld(p, roles)
	if err != nil {
		return nil, nil, err
	}
	if _, err := w.Init(); err != nil {
		w.Close()
		return nil, nil, err
	}
	f := hist.BuildFarm(w, o)
	if len(f.PrefixFail) > 0 {
		w.Close()
		return nil, nil, fmt.Errorf("farm prefix transaction failed: %v", f.PrefixFail)
	}
	for _, r := range w.R {
		if r.Panicked {
			w.Close()
			return nil, nil, fmt.Errorf("application panicked in %s during the farm prefix", r.PanicCall)
		}
	}
	return w, f, nil
}

type mutRes struct {
	op      string
	verdict string // same-content | unparsable | authentic | undecided | unauthentic
	control bool
}

type subjRes struct {
	kind      string
	mode      string
	ctlCheck  uint32
	ctlDeliv  uint32
	ctlLog    string
	mutants   []mutRes
	delivered int
	survey    []string
}

func withTxs(b *sim.Block, txs [][]byte) *sim.Block {
	c := *b
	c.Txs = txs
	return &c
}

func short(b []byte) string {
	s := string(b)
	if len(s) > 700 {
		s = s[:700] + "…"
	}
	return s
}

// evalSubject evaluates one subject on the world: replica 0 receives the mutants, replica 1
// is the twin (control execution of the original, then the block without the mutants).
func evalSubject(w *hist.World, c *Case, s *Subject) (*subjRes, *violation) {
	r0, r1, r2 := w.R[0], w.R[1], w.R[2]
	chainID := w.P.ChainID
	res := &subjRes{kind: s.Kind}
	minCase := func(m *Mut) *Case {
		ms := []Mut{}
		if m != nil {
			ms = []Mut{*m}
		}
		return &Case{Seed: c.Seed, Opts: c.Opts, Subjects: []Subject{{Kind: s.Kind, Pre: s.Pre, Mode: s.Mode, Orig: s.Orig, Muts: ms}}}
	}
	panicked := func(where string, m *Mut) *violation {
		for i, r := range w.R {
			if r.Panicked {
				cl := s.Kind
				if m != nil {
					cl += "/" + opClass(m.Op)
				}
				return &violation{"node-panic", cl, fmt.Sprintf("replica %d: the application panicked in %s (%s) and shut itself down", i, r.PanicCall, where), minCase(m)}
			}
		}
		return nil
	}

	po, err := parseTx(s.Orig)
	if err != nil {
		return nil, &violation{"harness", s.Kind, "own parse rejects the original: " + err.Error(), minCase(nil)}
	}
	origVerdict, origWhy := auth(po, chainID)

	tmpl := w.C.MakeBlock(sim.BlockSpec{GapSecs: 5})

	// control: the original on the control replica (mempool check, then speculative delivery at this height)
	ck := r2.CheckTx(s.Orig)
	if v := panicked("CheckTx of the original", nil); v != nil {
		return res, v
	}
	sp := r2.SpecBlock(withTxs(tmpl, [][]byte{s.Orig}))
	if v := panicked("DeliverTx of the original", nil); v != nil {
		return res, v
	}
	res.ctlCheck, res.ctlDeliv = ck.Code, sp.Txs[0].Code
	res.ctlLog = ck.Log + " | " + sp.Txs[0].Log
	control := ck.Code == 0 && sp.Txs[0].Code == 0
	res.mode = s.Mode
	if origVerdict != vAuthentic {
		// the transaction was signed by the right keys with the repository's own signing bytes; if the
		// oracle's canonical (type, data, fee, memo) bytes are not what those signatures cover and the
		// application accepts it, signatures do not cover exactly the stated content
		if ck.Code == 0 || sp.Txs[0].Code == 0 {
			return res, &violation{"signed-bytes", s.Kind + "/original",
				fmt.Sprintf("the well-formed %s transaction is accepted (CheckTx code %d, DeliverTx code %d) but its signatures do not verify over the canonical serialisation of exactly (type, data, fee, memo): %s. tx=%s", s.Kind, ck.Code, sp.Txs[0].Code, origWhy, short(s.Orig)), minCase(nil)}
		}
		return res, &violation{"harness", s.Kind, "oracle self-check: the well-formed original is neither authentic by the oracle nor accepted: " + origWhy, minCase(nil)}
	}

	// priming: what the subject node (and, identically, its twin) saw of the original before
	switch s.Mode {
	case "primed-check":
		r0.CheckTx(s.Orig)
		r1.CheckTx(s.Orig)
		if v := panicked("priming CheckTx of the original", nil); v != nil {
			return res, v
		}
	case "primed-deliver":
		// the original is executed for real in this block on every replica; the mutants follow in the next
		p0 := r0.RunBlock(withTxs(tmpl, [][]byte{s.Orig}))
		p1 := r1.RunBlock(withTxs(tmpl, [][]byte{s.Orig}))
		p2 := r2.RunBlock(withTxs(tmpl, [][]byte{s.Orig}))
		if v := panicked("the priming block executing the original", nil); v != nil {
			return res, v
		}
		_ = w.C.Advance(p1.AppHash, p1.Updates)
		if !bytes.Equal(p0.AppHash, p1.AppHash) {
			return res, &violation{"harness", s.Kind, "subject and twin differ after executing the original in the priming block", minCase(nil)}
		}
		w.Observe([]txgen.Tx{{Bytes: s.Orig, Kind: s.Kind, Note: s.note}}, p2)
		tmpl = w.C.MakeBlock(sim.BlockSpec{GapSecs: 5})
	}

	// mutants: classify, mempool check
	var deliver []int
	for i := range s.Muts {
		m := &s.Muts[i]
		mr := mutRes{op: m.Op, control: control}
		pm, err := parseTx(m.Bytes)
		switch {
		case err != nil:
			mr.verdict = "unparsable"
		case sameContent(pm, po):
			mr.verdict = "same-content"
		default:
			v, why := auth(pm, chainID)
			mr.verdict = v.String()
			if v == vUnauthentic {
				rc := r0.CheckTx(m.Bytes)
				if pv := panicked("CheckTx of mutant "+m.Op, m); pv != nil {
					return res, pv
				}
				if rc.Code == 0 && os.Getenv("VERIF_C04_SURVEY") != "" {
					// survey mode (exploration aid, never used by the supervisor): count and go on
					res.survey = append(res.survey, "checktx-admits/"+s.Kind+"/"+opClass(m.Op))
					res.mutants = append(res.mutants, mr)
					continue
				}
				if rc.Code == 0 {
					return res, &violation{"checktx-admits", s.Kind + "/" + opClass(m.Op),
						fmt.Sprintf("%s mutant %q is admitted by CheckTx (code 0) although it is not authentic: %s. mutant=%s original=%s", s.Kind, m.Op, why, short(m.Bytes), short(s.Orig)), minCase(m)}
				}
				deliver = append(deliver, i)
			}
		}
		res.mutants = append(res.mutants, mr)
	}

	// the block: replica 0 gets the unauthentic mutants, the twin gets none
	var txs [][]byte
	for _, i := range deliver {
		txs = append(txs, s.Muts[i].Bytes)
	}
	res.delivered = len(txs)
	b0 := r0.RunBlock(withTxs(tmpl, txs))
	if v := panicked("the block carrying the mutants", nil); v != nil {
		if len(deliver) > 0 && len(b0.Txs) < len(deliver) {
			v.min = minCase(&s.Muts[deliver[len(b0.Txs)]])
		}
		return res, v
	}
	b1 := r1.RunBlock(withTxs(tmpl, nil))
	r2.RunBlock(withTxs(tmpl, nil))
	if v := panicked("the twin's block", nil); v != nil {
		return res, v
	}
	_ = w.C.Advance(b1.AppHash, b1.Updates)
	for k, i := range deliver {
		if b0.Txs[k].Code == 0 && os.Getenv("VERIF_C04_SURVEY") != "" {
			res.survey = append(res.survey, "delivertx-executes/"+s.Kind+"/"+opClass(s.Muts[i].Op))
			continue
		}
		if b0.Txs[k].Code == 0 {
			m := &s.Muts[i]
			pm, _ := parseTx(m.Bytes)
			_, why := auth(pm, chainID)
			eff := "committed state equal to the twin's"
			if !bytes.Equal(b0.AppHash, b1.AppHash) {
				diff := sim.DiffDumps(r0.DumpMap(), r1.DumpMap())
				if len(diff) > 6 {
					diff = diff[:6]
				}
				eff = fmt.Sprintf("committed state differs from the twin's in keys %q (block of %d mutants)", diff, len(deliver))
			}
			return res, &violation{"delivertx-executes", s.Kind + "/" + opClass(m.Op),
				fmt.Sprintf("%s mutant %q succeeds in DeliverTx (code 0) although it is not authentic: %s; %s. mutant=%s original=%s", s.Kind, m.Op, why, eff, short(m.Bytes), short(s.Orig)), minCase(m)}
		}
	}
	if !bytes.Equal(b0.AppHash, b1.AppHash) && os.Getenv("VERIF_C04_SURVEY") != "" {
		res.survey = append(res.survey, "state-changed/"+s.Kind)
		return res, &violation{"survey-stop", s.Kind, "survey: state diverged, case ends here", minCase(nil)}
	}
	if !bytes.Equal(b0.AppHash, b1.AppHash) {
		diff := sim.DiffDumps(r0.DumpMap(), r1.DumpMap())
		if len(diff) > 8 {
			diff = diff[:8]
		}
		var ops []string
		mc := &Case{Seed: c.Seed, Opts: c.Opts, Subjects: []Subject{{Kind: s.Kind, Pre: s.Pre, Mode: s.Mode, Orig: s.Orig}}}
		for _, i := range deliver {
			ops = append(ops, s.Muts[i].Op)
			mc.Subjects[0].Muts = append(mc.Subjects[0].Muts, s.Muts[i])
		}
		return res, &violation{"state-changed", s.Kind,
			fmt.Sprintf("a block carrying only rejected, unauthentic %s mutants %v leaves a committed state different from the twin's empty block; differing keys %q", s.Kind, ops, diff), mc}
	}
	return res, nil
}

// runCase executes a materialised case (replay, journal replay).
func runCase(c *Case) ([]*subjRes, *violation) {
	w, _, err := buildWorld(c.Seed, c.Opts)
	if err != nil {
		return nil, &violation{"harness", "farm", err.Error(), c}
	}
	defer w.Close()
	var out []*subjRes
	pre := 0
	for i := range c.Subjects {
		s := &c.Subjects[i]
		for pre < s.Pre {
			w.RunBlock(sim.BlockSpec{GapSecs: 5})
			pre++
		}
		r, v := evalSubject(w, c, s)
		pre++
		if s.Mode == "primed-deliver" {
			pre++
		}
		if r != nil {
			out = append(out, r)
		}
		if v != nil {
			return out, v
		}
	}
	return out, nil
}

type rapidChooser struct{ u *hist.U }

func (r rapidChooser) Intn(n int, label string) int { return r.u.N(n, label) }

// buildMutants materialises the mutants of an original.
func buildMutants(w *hist.World, f *hist.Farm, kind string, orig []byte, c chooser, excl func(string) bool) ([]Mut, error) {
	p, err := parseTx(orig)
	if err != nil {
		return nil, err
	}
	k := kindByName(kind)
	if k == nil || k.Code != p.Type {
		return nil, fmt.Errorf("kind table has no entry matching %s (type %d)", kind, p.Type)
	}
	x := &mctx{u: w.G.U, chainID: w.P.ChainID, kind: k, orig: fromParsed(p), c: c, excl: excl}
	if !bytes.Equal(x.orig.encode(), orig) {
		return nil, fmt.Errorf("%s: re-encoding the parsed original does not give its bytes back", kind)
	}
	if k.Code == olvmCode {
		x.ethKey = f.E
		return x.olvmMutants(), nil
	}
	for _, s := range p.Sigs {
		x.signers = append(x.signers, findUserByKey(w.G.U, s.Key))
	}
	return x.nativeMutants(), nil
}

var noted = map[string]bool{}

func record(h *run.H, rs []*subjRes) {
	for _, r := range rs {
		if r.ctlCheck == 0 && r.ctlDeliv == 0 {
			h.Class("control-accepted:"+r.kind, 1)
		} else {
			h.Class("control-REJECTED:"+r.kind, 1)
			if !noted[r.kind] {
				noted[r.kind] = true
				h.Note(fmt.Sprintf("control rejected %s: check=%d deliver=%d %s", r.kind, r.ctlCheck, r.ctlDeliv, r.ctlLog))
			}
		}
		for _, sv := range r.survey {
			h.Class("SURVEY:"+sv, 1)
		}
		for _, m := range r.mutants {
			key := ""
			if m.control && m.verdict == "unauthentic" {
				key = r.kind + "/" + opClass(m.op)
			}
			var sample interface{}
			if key != "" {
				sample = map[string]string{"kind": r.kind, "operator": m.op, "oracle": m.verdict, "result": "rejected by CheckTx, non-zero in DeliverTx, state equal to the twin's"}
			}
			h.Eval(key, []string{"op:" + opClass(m.op), "kind:" + r.kind, "verdict:" + m.verdict, "mode:" + r.mode}, sample)
		}
	}
}

const rule = "for each of the 39 transaction kinds (33 native / OLVM and the six of the bid application): a well-formed signed transaction applicable in a warmed-up state x every single-field mutation operator (payload byte flip / member replacement, fee value / currency / gas, memo, type, signer key bytes, key algorithm tag incl. btcecsecp / ethsecp / unknown / empty, signature flip / truncate / extend / pre-hash tag, signature bytes reused unchanged from another slot / another transaction of the same key / a foreign key, signature list drop / duplicate / reorder / byte swap / copies of the first / append / prepend foreign, wrong key re-signing, victim address with re-signing, empty signer with btcec key; OLVM: EIP-155 fields, memo, unsigned payload members) x what the node saw of the original before (nothing; the original passed CheckTx on the same node; the original was executed in the previous block); oracle = own parse + own required-signer table + direct crypto-library verification; non-trivial = the mutant is unauthentic by the oracle and its original was accepted by CheckTx and succeeded in DeliverTx on the control replica; distinct by (kind, operator)"

func TestC04(t *testing.T) {
	h := run.Start(t, "C04")
	defer h.Finish()
	h.SetRule(rule)
	shard, shards := run.Shard()
	perCase := h.Scale(13, 39)
	var first *violation // once a violation is found its minimal case is final: rapid's own shrinking re-runs end at once
	rapid.Check(t, func(rt *rapid.T) {
		u := hist.NewU(rt)
		if first != nil {
			h.Fail(rt, first.oracle, "C04/"+first.oracle+"/"+first.class, first.min, "%s", first.msg)
		}
		c := &Case{Seed: fmt.Sprintf("c04-%d-%d", h.Seed, u.N(4, "keyseed"))}
		c.Opts = hist.FarmOpts{A: u.N(8, "A"), B: u.N(8, "B"), Eth: u.N(4, "eth"), Var: u.N(50, "var")}
		if c.Opts.B == c.Opts.A {
			c.Opts.B = (c.Opts.A + 1) % 8
		}
		// which kinds this case covers: a window of the kind list that depends on the shard, so
		// that the shards of one run cover every kind; the window start is a draw
		windows := (len(hist.FarmKinds) + perCase - 1) / perCase
		start := ((u.N(windows, "window") + shard) % windows) * perCase
		_ = shards
		w, f, err := buildWorld(c.Seed, c.Opts)
		if err != nil {
			h.Fail(rt, "harness", "C04/harness/farm", c, "%v", err)
		}
		defer w.Close()
		var results []*subjRes
		defer func() { record(h, results) }()
		blocks := 0
		for k := 0; k < perCase; k++ {
			kind := hist.FarmKinds[(start+k)%len(hist.FarmKinds)]
			tx, err := f.Make(kind)
			if err != nil {
				h.Fail(rt, "harness", "C04/harness/farm", c, "%s: %v", kind, err)
			}
			muts, err := buildMutants(w, f, kind, tx.Bytes, rapidChooser{u}, h.Excluded)
			if err != nil {
				h.Fail(rt, "harness", "C04/harness/mutants", c, "%v", err)
			}
			s := Subject{Kind: kind, Pre: blocks, Mode: modes[u.N(len(modes), "mode")], Orig: tx.Bytes, Muts: muts, note: tx.Note}
			blocks++
			if s.Mode == "primed-deliver" {
				blocks++
			}
			c.Subjects = append(c.Subjects, s)
			h.Journal(&Case{Seed: c.Seed, Opts: c.Opts, Subjects: []Subject{s}})
			r, v := evalSubject(w, c, &c.Subjects[len(c.Subjects)-1])
			if r != nil {
				results = append(results, r)
			}
			if v != nil && v.oracle == "survey-stop" {
				break
			}
			if v != nil {
				first = v
				h.Fail(rt, v.oracle, "C04/"+v.oracle+"/"+v.class, v.min, "%s", v.msg)
			}
		}
	})
}

func TestReplay(t *testing.T) {
	path := run.ReplayFile()
	if path == "" {
		t.Skip("no VERIF_REPLAY")
	}
	f, err := run.LoadFailure(path)
	if err != nil {
		t.Fatal(err)
	}
	var c Case
	if err := json.Unmarshal(f.Case, &c); err != nil {
		t.Fatal(err)
	}
	h := run.Start(t, "C04")
	defer h.Finish()
	rs, v := runCase(&c)
	record(h, rs)
	for _, r := range rs {
		t.Logf("%s: control check=%d deliver=%d; %d mutants, %d delivered", r.kind, r.ctlCheck, r.ctlDeliv, len(r.mutants), r.delivered)
		for _, m := range r.mutants {
			t.Logf("   %-34s %s", m.op, m.verdict)
		}
	}
	if v != nil {
		h.Fail(t, v.oracle, "C04/"+v.oracle+"/"+v.class, v.min, "%s", v.msg)
	}
}

// ---- native fuzz target (thorough tier) ------------------------------------------------------

type byteChooser struct {
	b []byte
	i int
}

func (c *byteChooser) Intn(n int, label string) int {
	if n <= 1 {
		return 0
	}
	v := 0
	for k := 0; k < 2; k++ {
		v <<= 8
		if c.i < len(c.b) {
			v |= int(c.b[c.i])
			c.i++
		}
	}
	return v % n
}

type fuzzWorld struct {
	w     *hist.World
	f     *hist.Farm
	tmpl  *sim.Block
	origs map[string][]byte
	err   error
}

var (
	fzOnce sync.Once
	fz     fuzzWorld
)

func fuzzInit() {
	o := hist.FarmOpts{A: 0, B: 2, Eth: 1, Var: 5}
	w, f, err := buildWorld("c04-fuzz", o)
	if err != nil {
		fz.err = err
		return
	}
	fz.w, fz.f = w, f
	fz.origs = map[string][]byte{}
	for _, k := range hist.FarmKinds {
		tx, err := f.Make(k)
		if err != nil {
			fz.err = err
			return
		}
		fz.origs[k] = tx.Bytes
	}
	fz.tmpl = w.C.MakeBlock(sim.BlockSpec{GapSecs: 5})
}

// FuzzC04: the bytes select the kind, the operator and every choice the operator makes
// (positions, replacement values); a tail of the input can additionally replace the memo.
// The oracle runs inside the target: an unauthentic mutant must be rejected by CheckTx and
// must not return code 0 from DeliverTx (speculative block: nothing is ever committed, so
// the warmed-up state stays the same for every input).
func FuzzC04(f *testing.F) {
	for k := 0; k < len(hist.FarmKinds); k += 4 {
		f.Add([]byte{byte(k), 0, 3, 1, 4, 1, 5, 9, 2, 6})
		f.Add([]byte{byte(k), 7, 200, 100, 50, 25, 12, 6, 3, 1, 0, 9})
	}
	f.Fuzz(func(t *testing.T, data []byte) {
		fzOnce.Do(fuzzInit)
		if fz.err != nil {
			t.Skip("farm: " + fz.err.Error())
		}
		if len(data) < 2 {
			return
		}
		kind := hist.FarmKinds[int(data[0])%len(hist.FarmKinds)]
		c := &byteChooser{b: data[2:]}
		muts, err := buildMutants(fz.w, fz.f, kind, fz.origs[kind], c, func(tag string) bool {
			return strings.Contains(","+os.Getenv("VERIF_EXCLUDE")+",", ","+tag+",")
		})
		if err != nil || len(muts) == 0 {
			t.Fatalf("mutants: %v", err)
		}
		m := muts[int(data[1])%len(muts)]
		po, _ := parseTx(fz.origs[kind])
		pm, err := parseTx(m.Bytes)
		if err != nil || sameContent(pm, po) {
			return
		}
		v, why := auth(pm, fz.w.P.ChainID)
		if v != vUnauthentic {
			return
		}
		r := fz.w.R[0]
		rc := r.CheckTx(m.Bytes)
		if r.Panicked {
			t.Fatalf("node-panic in CheckTx: %s %s %s", kind, m.Op, m.Bytes)
		}
		if rc.Code == 0 {
			t.Fatalf("checktx-admits %s %s (%s): %s", kind, m.Op, why, m.Bytes)
		}
		sp := r.SpecBlock(withTxs(fz.tmpl, [][]byte{m.Bytes}))
		if r.Panicked {
			t.Fatalf("node-panic in DeliverTx: %s %s %s", kind, m.Op, m.Bytes)
		}
		if sp.Txs[0].Code == 0 {
			t.Fatalf("delivertx-executes %s %s (%s): %s", kind, m.Op, why, m.Bytes)
		}
	})
}

// sortedKeys is a small helper for deterministic reports.
func sortedKeys(m map[string]int) []string {
	var ks []string
	for k := range m {
		ks = append(ks, k)
	}
	sort.Strings(ks)
	return ks
}
