// Package c08: crash-restart equivalence — a node that dies at any ABCI boundary and is restarted
// from a byte copy of its data directory reports its last completed commit and, after the missing
// block is replayed, produces the transcript of a node that never stopped.
package c08

import (
	"bytes"
	"encoding/json"
	"fmt"
	"math/big"
	"os"
	"os/exec"
	"path/filepath"
	"runtime"
	"sort"
	"strings"
	"testing"
	"time"

	agov "github.com/Oneledger/protocol/action/governance"
	"github.com/Oneledger/protocol/data/balance"
	"github.com/Oneledger/protocol/data/governance"

	"pgregory.net/rapid"

	"verif/hist"
	"verif/run"
	"verif/sim"
	"verif/txgen"
)

func TestMain(m *testing.M) {
	run.Quiet()
	os.Exit(m.Run())
}

func debugf(format string, a ...interface{}) {
	if os.Getenv("VERIF_DEBUG") != "" {
		fmt.Fprintf(run.Quiet(), format, a...)
	}
}

type outcome struct {
	oracle string
	class  string
	msg    string
}

type stats struct {
	feats   map[string]int
	nt      int
	crashes int
	blocks  int
}

// node is replica B across its incarnations.
type node struct {
	r     *sim.Replica
	dead  []*sim.Replica // abandoned instances (closed and removed when the case ends)
	w     *hist.World
	gen   int
	lastH int64  // last completed commit of this node
	lastA []byte // its app hash
}

func (n *node) cleanup() {
	for _, d := range n.dead {
		d.App.VerifCloseAll()
		_ = os.RemoveAll(d.Dir)
	}
	n.dead = nil
	if n.r != nil {
		n.r.Close()
	}
}

// listing describes every file below dir (path, size, modification time).
func listing(dir string) string {
	var out []string
	_ = filepath.Walk(dir, func(p string, info os.FileInfo, err error) error {
		if err != nil || info == nil {
			out = append(out, p+":?")
			return nil
		}
		if !info.IsDir() {
			out = append(out, fmt.Sprintf("%s:%d:%d", p, info.Size(), info.ModTime().UnixNano()))
		}
		return nil
	})
	sort.Strings(out)
	return strings.Join(out, "\n")
}

// stableCopy byte-copies a live data directory at one instant: goleveldb compacts in background
// goroutines (new table, manifest record, deletion of the old tables), so a copy is only accepted when the
// directory listing (names, sizes, modification times) is the same before and after it was taken.
func stableCopy(src, tag string) (string, error) {
	dst := sim.NewScratchDir(tag)
	var lastErr error
	for attempt := 0; attempt < 20; attempt++ {
		before := listing(src)
		_ = os.RemoveAll(dst)
		out, err := exec.Command("cp", "-r", src, dst).CombinedOutput()
		after := listing(src)
		if err == nil && before == after {
			return dst, nil
		}
		lastErr = fmt.Errorf("attempt %d: %v %s (directory changed during the copy: %v)", attempt, err, strings.TrimSpace(string(out)), before != after)
		runtime.Gosched()
	}
	_ = os.RemoveAll(dst)
	return "", lastErr
}

// crash kills the current incarnation (byte copy of the data directory as the OS sees it now, the
// tx index as of the last completed commit), starts a new application on the copy through the
// real Prepare(), and does what Tendermint's handshake does first: Info (and InitChain when the
// application reports height 0).
func (n *node) crash(where string, a *sim.Replica) *outcome {
	dir, err := stableCopy(n.r.Dir, fmt.Sprintf("b%d", n.gen+1))
	if err != nil {
		return &outcome{"harness", "", "crash image: " + err.Error()}
	}
	idx, idb := n.r.CloneIndex()
	old := n.r
	old.Abandon()
	n.dead = append(n.dead, old)
	n.gen++
	nr, err := sim.Reopen(fmt.Sprintf("b%d", n.gen), old, n.w.C, dir, idx, idb)
	if err != nil {
		n.r = nil
		_ = os.RemoveAll(dir)
		return &outcome{"restart-failed", where, fmt.Sprintf("crash %s: the application does not start on its own data directory: %v", where, err)}
	}
	n.r = nr
	info := nr.Info()
	if nr.Panicked {
		return &outcome{"node-panic", "Info", fmt.Sprintf("crash %s: the restarted application panicked in Info", where)}
	}
	debugf("   restart after crash %s: Info height=%d hash=%x (expected %d %x)\n", where, info.LastBlockHeight, info.LastBlockAppHash, n.lastH, n.lastA)
	if info.LastBlockHeight != n.lastH || (n.lastH > 0 && !bytes.Equal(info.LastBlockAppHash, n.lastA)) {
		return &outcome{"info", where, fmt.Sprintf("crash %s: restarted node reports height %d app hash %x, its last completed commit was height %d app hash %x", where, info.LastBlockHeight, info.LastBlockAppHash, n.lastH, n.lastA)}
	}
	if info.LastBlockHeight == 0 {
		// nothing was ever committed: Tendermint sends InitChain again
		res := nr.InitChain(n.w.C)
		if nr.Panicked {
			return &outcome{"node-panic", "InitChain", fmt.Sprintf("crash %s: the restarted application panicked in InitChain", where)}
		}
		if d := sim.CompareInit(a.LastInit, res); d != "" {
			return &outcome{"init", where, "InitChain after a crash before the first commit: " + d}
		}
	}
	return nil
}

// runBlock executes block b on the node, crashing at the given boundaries (one per attempt; the
// block is replayed from its start after every crash that happened before its commit).
func (n *node) runBlock(b *sim.Block, crashes []string, a *sim.Replica, onCrash func(at string, delivered int)) (*sim.BlockRes, *outcome) {
	died := func(call string) *outcome {
		return &outcome{"node-panic", call, fmt.Sprintf("the (restarted %d times) node panicked in %s at height %d and shut itself down", n.gen, n.r.PanicCall, b.Height)}
	}
	for attempt := 0; ; attempt++ {
		cp := ""
		if len(crashes) > 0 {
			cp, crashes = crashes[0], crashes[1:]
		}
		if strings.HasPrefix(cp, "after-tx:") {
			var k int
			fmt.Sscanf(cp, "after-tx:%d", &k)
			if len(b.Txs) == 0 {
				cp = "after-begin"
			} else if k >= len(b.Txs) {
				cp = fmt.Sprintf("after-tx:%d", len(b.Txs)-1)
			}
		}
		res := &sim.BlockRes{Height: b.Height}
		res.Begin = n.r.BeginBlock(b)
		if n.r.Panicked {
			return nil, died("BeginBlock")
		}
		if cp == "after-begin" {
			onCrash(cp, 0)
			if o := n.crash(fmt.Sprintf("after BeginBlock(%d)", b.Height), a); o != nil {
				return nil, o
			}
			continue
		}
		crashed := false
		for k, tx := range b.Txs {
			d := n.r.DeliverTx(tx)
			if n.r.Panicked {
				return nil, died("DeliverTx")
			}
			res.Deliver = append(res.Deliver, d)
			res.Txs = append(res.Txs, sim.TxRes{Code: d.Code, Data: d.Data, GasWanted: d.GasWanted, GasUsed: d.GasUsed, Log: d.Log})
			if cp == fmt.Sprintf("after-tx:%d", k) {
				onCrash(cp, k+1)
				if o := n.crash(fmt.Sprintf("after DeliverTx #%d of block %d", k, b.Height), a); o != nil {
					return nil, o
				}
				crashed = true
				break
			}
		}
		if crashed {
			continue
		}
		res.End = n.r.EndBlock(b.Height)
		if n.r.Panicked {
			return nil, died("EndBlock")
		}
		res.Updates = res.End.ValidatorUpdates
		if cp == "after-end" {
			onCrash(cp, len(b.Txs))
			if o := n.crash(fmt.Sprintf("after EndBlock(%d)", b.Height), a); o != nil {
				return nil, o
			}
			continue
		}
		cm := n.r.Commit()
		if n.r.Panicked {
			return nil, died("Commit")
		}
		res.AppHash = cm.Data
		n.r.IndexBlock(b, res.Deliver)
		n.lastH, n.lastA = b.Height, cm.Data
		if cp == "after-commit" {
			onCrash(cp, len(b.Txs))
			if o := n.crash(fmt.Sprintf("after Commit(%d)", b.Height), a); o != nil {
				return nil, o
			}
			// further crash points of this block: the node dies again right after it came up
			for range crashes {
				onCrash("after-restart", len(b.Txs))
				if o := n.crash(fmt.Sprintf("right after the restart that followed Commit(%d)", b.Height), a); o != nil {
					return nil, o
				}
			}
		}
		return res, nil
	}
}

// forecast re-computes, from block times only (two fixed defects lived in these regimes: replays/C08/fixed-*.json),
// what data/rewards/calculator.go forecasts when block h (time tH) is the first of a reward cycle:
// "" (nothing special or not a cycle start), "below-cycle" (0 < forecast blocks < cycle length for
// the chosen year: the cycle will overdraw the year), "zero" (every open year got a forecast of 0
// blocks: spurious burn-out).
func forecast(w *hist.World, h int64, tH time.Time) string {
	cyc := w.P.RewardCycle
	if cyc <= 0 || (h-1)%cyc != 0 {
		return ""
	}
	t1 := tH
	if h > 1 && len(w.C.Blocks) > 0 {
		t1 = w.C.Blocks[0].Time
	}
	secsPerCycle := w.P.RewardEstSecs
	tEnd := t1
	if h > cyc {
		bi := h - cyc - 1 // index of block height h-cyc
		if bi < 0 || int(bi) >= len(w.C.Blocks) {
			return ""
		}
		tEnd = tH
		secsPerCycle = int64(tEnd.Sub(w.C.Blocks[bi].Time).Seconds())
	}
	if secsPerCycle <= 0 {
		return ""
	}
	openYearSkipped := false
	tStart := t1.UTC()
	for range w.P.RewardYearShares {
		tClose := tStart.AddDate(1, 0, 0).UTC()
		tStart = tClose
		secsToClose := int64(tClose.Sub(tEnd.UTC()).Seconds())
		if secsToClose < w.P.RewardCloseWin {
			continue
		}
		n := int64(float64(secsToClose*cyc) / float64(secsPerCycle))
		if n == 0 {
			openYearSkipped = true
			continue
		}
		if n < cyc {
			return "below-cycle"
		}
		return ""
	}
	if openYearSkipped {
		return "zero"
	}
	return ""
}

// overdrawn reports whether a reward year has distributed more than its share (committed state of replica A).
func overdrawn(w *hist.World) bool {
	var y struct {
		Years []struct {
			Distributed string
		}
	}
	if json.Unmarshal(w.Get("rwcum_ydist"), &y) != nil {
		return false
	}
	for i, yr := range y.Years {
		if i >= len(w.P.RewardYearShares) {
			break
		}
		d, ok1 := new(big.Int).SetString(yr.Distributed, 10)
		sh, ok2 := new(big.Int).SetString(w.P.RewardYearShares[i], 10)
		if ok1 && ok2 && d.Cmp(sh) > 0 {
			return true
		}
	}
	return false
}

// heightClasses describes a height for the evidence (reward cycle position, fork, maturities, option changes).
func heightClasses(w *hist.World, h int64, govChanged bool) []string {
	var c []string
	cyc := w.P.RewardCycle
	switch {
	case h == 1:
		c = append(c, "first-block")
	case cyc > 0 && (h-1)%cyc == 0:
		c = append(c, "cycle-first")
	case cyc > 0 && h%cyc == 0:
		c = append(c, "cycle-last")
	default:
		c = append(c, "cycle-mid")
	}
	f := w.P.Frankenstein
	switch {
	case f > 1 && h == f:
		c = append(c, "fork-block")
	case f > 1 && h < f:
		c = append(c, "before-fork")
	case f > 1 && h == f+1:
		c = append(c, "block-after-fork")
	}
	if len(w.Get(fmt.Sprintf("st__m_%d", h))) > 0 {
		c = append(c, "unstake-matures")
	}
	if w.P.RewardInterval > 0 && h%w.P.RewardInterval == 0 {
		c = append(c, "reward-interval-end")
	}
	if govChanged {
		c = append(c, "after-option-change")
	}
	return c
}

// execute runs a trace: replica A (world replica 0) runs uninterrupted, node B is crashed at the
// recorded boundaries. Crash steps precede the block step they apply to.
func execute(h *run.H, tr *hist.Trace, draw func(w *hist.World) ([]hist.Step, []txgen.Tx, bool)) (*outcome, *stats) {
	st := &stats{feats: map[string]int{}}
	roles := tr.Roles
	if len(roles) < 1 {
		roles = hist.Roles(tr.Params, 1)
	}
	w, err := hist.NewWorld(tr.Params, []sim.Role{roles[0]})
	if err != nil {
		return &outcome{"harness", "", "cannot build world: " + err.Error()}, st
	}
	defer w.Close()
	if _, err := w.Init(); err != nil {
		return &outcome{"init", "", "InitChain: " + err.Error()}, st
	}
	a := w.R[0]
	br, err := sim.NewReplica("b0", w.G, w.C, roles[0], "")
	if err != nil {
		return &outcome{"harness", "", "cannot build node B: " + err.Error()}, st
	}
	nb := &node{r: br, w: w}
	defer nb.cleanup()
	br.InitChain(w.C)
	if d := sim.CompareInit(a.LastInit, br.LastInit); d != "" {
		return &outcome{"init", "", d}, st
	}
	optionChanged := false
	cfgProps := map[string]bool{}
	yearOverdrawn, spuriousBurnout := false, false
	pos := 0
	for {
		var steps []hist.Step
		var txs []txgen.Tx
		if draw != nil {
			s, t, ok := draw(w)
			if !ok {
				break
			}
			steps, txs = s, t
			tr.Steps = append(tr.Steps, steps...)
			h.Journal(tr)
		} else {
			if pos >= len(tr.Steps) {
				break
			}
			for pos < len(tr.Steps) {
				s := tr.Steps[pos]
				pos++
				steps = append(steps, s)
				if s.Kind == "block" {
					break
				}
			}
			if steps[len(steps)-1].Kind != "block" {
				break
			}
		}
		blk := steps[len(steps)-1]
		var crashes []string
		for _, s := range steps[:len(steps)-1] {
			if s.Kind == "crash" {
				crashes = append(crashes, s.At)
			}
		}
		b := w.C.MakeBlock(*blk.Spec)
		switch forecast(w, b.Height, b.Time) {
		case "zero":
			spuriousBurnout = true
			st.feats["reward-forecast:zero-for-open-year"]++
		case "below-cycle":
			st.feats["reward-forecast:below-cycle-length"]++
		}
		ref := a.RunBlock(b)
		if a.Panicked {
			return &outcome{"node-panic", "uninterrupted:" + a.PanicCall, fmt.Sprintf("the uninterrupted node panicked in %s at height %d (kinds %v) and shut itself down", a.PanicCall, b.Height, blk.Kinds)}, st
		}
		for i, t := range ref.Txs {
			kind := ""
			if i < len(blk.Kinds) {
				kind = blk.Kinds[i]
			}
			debugf("h=%d A tx#%d %s code=%d gas=%d log=%.120s\n", b.Height, i, kind, t.Code, t.GasUsed, t.Log)
		}
		hc := heightClasses(w, b.Height, optionChanged)
		firstInCycle := w.P.RewardCycle > 0 && (b.Height-1)%w.P.RewardCycle == 0
		nextFirstInCycle := w.P.RewardCycle > 0 && b.Height%w.P.RewardCycle == 0
		onCrash := func(at string, delivered int) {
			st.crashes++
			bk := at
			if strings.HasPrefix(at, "after-tx:") {
				bk = "after-tx"
			}
			for _, c := range hc {
				st.feats["crash@"+bk+"/"+c]++
			}
			okBefore := 0
			for i := 0; i < delivered && i < len(ref.Txs); i++ {
				if ref.Txs[i].Code == 0 {
					okBefore++
				}
			}
			inside := at == "after-begin" || at == "after-end" || strings.HasPrefix(at, "after-tx:")
			restartFirst := firstInCycle
			if !inside {
				restartFirst = nextFirstInCycle
			}
			if inside && okBefore > 0 {
				st.nt++
				st.feats["nt:inside-block-after-successful-tx"]++
			}
			if !restartFirst {
				st.nt++
				st.feats["nt:restart-not-at-cycle-start"]++
			}
			if optionChanged {
				st.nt++
				st.feats["nt:after-option-change"]++
			}
		}
		if len(crashes) > 1 {
			st.feats["two-crashes-for-one-block"]++
		}
		res, out := nb.runBlock(b, crashes, a, onCrash)
		w.Results = append(w.Results, ref)
		_ = w.C.Advance(ref.AppHash, ref.Updates)
		if out != nil {
			return out, st
		}
		st.blocks++
		debugf("h=%d apphash A=%x B=%x crashes=%v\n", b.Height, ref.AppHash, res.AppHash, crashes)
		if d := sim.CompareBlockRes(ref, res); d != "" {
			da, db := a.DumpMap(), nb.r.DumpMap()
			diff := sim.DiffDumps(da, db)
			if len(diff) > 8 {
				diff = diff[:8]
			}
			for i, k := range diff {
				if i < 4 {
					debugf("   key %q\n     A=%.300s\n     B=%.300s\n", k, da[k], db[k])
				}
			}
			class := "no-crash-in-this-block"
			if len(crashes) > 0 {
				class = strings.SplitN(crashes[0], ":", 2)[0]
			} else if nb.gen > 0 {
				class = "later-block"
			}
			rewardKeys := len(diff) > 0
			for _, k := range diff {
				if !strings.HasPrefix(k, "rw") && !strings.HasPrefix(k, "delegRwz") {
					rewardKeys = false
				}
			}
			if rewardKeys && (yearOverdrawn || overdrawn(w)) {
				class = "reward-cache-overdrawn-year"
			} else if rewardKeys && spuriousBurnout {
				class = "reward-burnout-flag-sticky"
			}
			return &outcome{"transcript-after-restart", class, fmt.Sprintf("uninterrupted node vs node restarted %d times so far (crash points in this block %v): %s; block kinds %v; height classes %v; first differing keys %q", nb.gen, crashes, d, blk.Kinds, hc, diff)}, st
		}
		if draw != nil {
			w.Observe(txs, ref)
		}
		if !yearOverdrawn && overdrawn(w) {
			yearOverdrawn = true
			st.feats["reach:reward-year-overdrawn"]++
		}
		// a finalised config-update proposal = governance options changed
		for _, p := range w.Props {
			if p.Type == governance.ProposalTypeConfigUpdate && !cfgProps[string(p.ID)] && len(w.Get("propFinalized"+string(p.ID))) > 0 {
				cfgProps[string(p.ID)] = true
				optionChanged = true
				st.feats["reach:config-update-finalised"]++
			}
		}
		if draw == nil && !optionChanged {
			// replay mode has no generator bookkeeping: look at the store directly
			for k := range prefixKeys(a, "propFinalized") {
				if strings.Contains(string(w.Get(k)), `"proposalType":1`) {
					optionChanged = true
				}
			}
		}
	}
	if diff := sim.DiffDumps(a.DumpMap(), nb.r.DumpMap()); len(diff) > 0 {
		if len(diff) > 8 {
			diff = diff[:8]
		}
		return &outcome{"final-dump", "", fmt.Sprintf("identical transcripts but the committed states differ in %q", diff)}, st
	}
	return nil, st
}

func prefixKeys(r *sim.Replica, prefix string) map[string]bool {
	out := map[string]bool{}
	r.App.Context.Storage().Chainstate.IterateRange([]byte(prefix), []byte(prefix+"~"), true, func(k, v []byte) bool {
		out[string(k)] = true
		return false
	})
	return out
}

// ---- exclusions owned by other properties, honoured by construction ---------------------------

// validatorOf returns the validatorAddress member of a staking transaction's payload.
func validatorOf(tx txgen.Tx) string {
	var raw struct {
		Data []byte `json:"data"`
	}
	if json.Unmarshal(tx.Bytes, &raw) != nil {
		return ""
	}
	var m struct {
		ValidatorAddress string
	}
	_ = json.Unmarshal(raw.Data, &m)
	return m.ValidatorAddress
}

// applyExclusions replaces transactions that known findings of other properties exclude:
// STAKE:zero-power-record (C11: a STAKE to a record of power 0 is lost when the block end deletes
// the record; the validator later gets negative power and the fee distribution kills the process).
func applyExclusions(h *run.H, g *hist.Gen, txs []txgen.Tx) []txgen.Tx {
	var zero map[string]bool
	for i, tx := range txs {
		if tx.Kind != "STAKE" {
			continue
		}
		if zero == nil {
			zero = map[string]bool{}
			for _, r := range g.W.ValRecs() {
				if r.Power <= 0 {
					zero[r.Address.String()] = true
				}
			}
		}
		if zero[validatorOf(tx)] && h.Excluded("STAKE:zero-power-record") {
			txs[i] = g.Send()
		}
	}
	return txs
}

// negativePower reports a committed validator record with negative power (the next fee distribution calls logger.Fatal).
func negativePower(w *hist.World) bool {
	for _, r := range w.ValRecs() {
		if r.Power < 0 {
			return true
		}
	}
	return false
}

// ---- generation ---------------------------------------------------------------------------------

var cfgUpdates = []string{
	"onsOptions.perBlockFees:100000000000001", "onsOptions.baseDomainPrice:1000000000000000000001",
	"feeOption.minFeeDecimal:9", "feeOption.minFeeDecimal:10", "stakingOptions.maturityTime:109300",
	"stakingOptions.topValidatorCount:8", "stakingOptions.minSelfDelegationAmount:600000",
}

// scriptCfgProposal returns the stages of a config-update proposal: [create, fund to goal], [one yes vote per genesis validator].
func scriptCfgProposal(u *hist.U, g *hist.Gen, n int) [][]txgen.Tx {
	w := g.W
	ui := u.N(len(w.G.U.Users), "cfg-proposer")
	usr := w.G.U.Users[ui]
	id := txgen.ProposalID(fmt.Sprintf("c08-cfg-%d-%s", n, w.P.Seed))
	hgt := w.C.Height + 1
	fundDL := hgt + 1 + int64(u.N(int(w.P.PropFundingDL), "cfg-fdl"))
	voteDL := fundDL + w.P.PropVotingDL
	goal := hist.ParseAmt([]byte(`"` + w.P.PropFundingGoal + `"`))
	initial := hist.ParseAmt([]byte(`"` + w.P.PropInitialFunding + `"`))
	cfg := cfgUpdates[u.N(len(cfgUpdates), "cfg-update")]
	create := txgen.ProposalCreate(usr, agov.CreateProposal{ProposalID: id, ProposalType: governance.ProposalTypeConfigUpdate, Headline: "h", Description: "d",
		Proposer: usr.Addr, InitialFunding: txgen.Amt("OLT", initial), FundingDeadline: fundDL, FundingGoal: balance.NewAmountFromBigInt(goal),
		VotingDeadline: voteDL, PassPercentage: w.P.PropPassPct, ConfigUpdate: cfg}, w.Fee, w.Memo())
	create.Note = fmt.Sprintf("%s:%d:%d:%d:%d", id, ui, fundDL, voteDL, int(governance.ProposalTypeConfigUpdate))
	create.Tags = []string{"scripted", cfg}
	fu := w.G.U.Users[u.N(len(w.G.U.Users), "cfg-funder")]
	fund := txgen.ProposalFund(fu, id, fu.Addr, txgen.Amt("OLT", goal), w.Fee, w.Memo())
	var votes []txgen.Tx
	for i := range w.P.ValPower {
		v := w.G.U.Vals[i]
		votes = append(votes, txgen.ProposalVote(id, v.Stake.Addr, v.Key.Addr, governance.OPIN_POSITIVE, w.Fee, w.Memo(), v.Stake, v.Key))
	}
	return [][]txgen.Tx{{create, fund}, votes}
}

func TestC08(t *testing.T) {
	h := run.Start(t, "C08")
	defer h.Finish()
	h.SetRule("generated genesis x block history x crash schedule: node A runs uninterrupted; node B (same identity) is killed 1-3 times at generated ABCI boundaries (after BeginBlock, after the k-th DeliverTx, after EndBlock, after Commit; two crashes may fall on the same block = a crash during the replay, or a crash right after a restart). A crash = byte copy of B's data directory at that instant + tx index as of the last completed commit, opened by a new application through the real Prepare(); then Info (must equal B's last completed commit = A's at that height; height 0 => InitChain again) and replay of the uncommitted block from the block list. B's results for every block from the crash height on and the final dumps must equal A's. Non-trivial = a crash strictly inside a block after >= 1 successful DeliverTx, or a restart whose first executed block is not the first of a reward cycle, or a restart after a config-update proposal was finalised; distinct by trace hash. Classes crash@<boundary>/<height class> list the boundary kinds x height classes hit")
	maxBlocks := h.Scale(30, 60)
	rapid.Check(t, func(rt *rapid.T) {
		p := hist.GenParams(rt, fmt.Sprint(h.Seed))
		u := hist.NewU(rt)
		prof := hist.ProfileNames[u.N(len(hist.ProfileNames), "profile")]
		if u.N(4, "govbias") == 0 {
			prof = "governance"
		}
		role := hist.Roles(p, 2)[u.N(2, "role")]
		tr := &hist.Trace{Params: p, Roles: []sim.Role{role}, Profile: prof}
		nblocks := u.Range(4, maxBlocks, "nblocks")
		slowClock := u.N(3, "slowclock") == 0 || os.Getenv("VERIF_C08_SLOW") != "" // months between blocks: year-close and burn-out boundaries fall inside the history
		standstill := u.N(2, "standstillmode") == 0
		scripted := u.N(3, "cfgscript") == 0
		if slowClock && standstill {
			tr.Profile += "+standstill"
		} else if slowClock {
			tr.Profile += "+slowclock"
		}
		if scripted {
			tr.Profile += "+cfgscript"
		}
		// crash schedule: 1-3 crashes on block ordinals (a repeated ordinal = second crash while that block is replayed)
		ncr := u.Range(1, 3, "ncrashes")
		crashAt := map[int]int{}
		var chosen []int
		for i := 0; i < ncr; i++ {
			o := u.Range(1, nblocks, "crashblock")
			if i > 0 && u.N(4, "sameblock") == 0 {
				o = chosen[u.N(len(chosen), "whichblock")]
			}
			chosen = append(chosen, o)
			crashAt[o]++
		}
		var g *hist.Gen
		blocks := 0
		var script [][]txgen.Tx
		nscript := 0
		out, st := execute(h, tr, func(w *hist.World) ([]hist.Step, []txgen.Tx, bool) {
			if g == nil {
				g = &hist.Gen{W: w, T: rt, Hostile: 4, Strange: 8, Kinds: hist.Profiles[prof], Excl: h.Excluded, Seen: map[string]int{}, TagsN: map[string]int{}}
			}
			if blocks >= nblocks {
				return nil, nil, false
			}
			if negativePower(w) && (h.Excluded("STAKE:zero-power-record") || h.Excluded("ALLEGATION_VOTE:accused-not-elected")) {
				return nil, nil, false // known findings of C11: the next fee distribution would kill the process
			}
			blocks++
			txs := applyExclusions(h, g, g.DrawTxs(5))
			if scripted {
				if len(script) == 0 && nscript < 3 && w.C.Height >= 2 && u.N(3, "newscript") == 0 {
					nscript++
					script = scriptCfgProposal(u, g, nscript)
				}
				if len(script) > 0 && u.N(3, "scriptwait") != 0 {
					at := u.N(len(txs)+1, "scriptat")
					ins := script[0]
					script = script[1:]
					txs = append(txs[:at:at], append(append([]txgen.Tx{}, ins...), txs[at:]...)...)
				}
			}
			spec := g.DrawEnv(txs)
			if slowClock && standstill {
				// a chain that runs at normal speed and stood still for months once or twice
				spec.GapSecs = []int64{1, 5, 60}[u.N(3, "fastgap")]
				if u.N(6, "standstill") == 0 {
					spec.GapSecs = int64([]int{100, 150, 200, 250, 280, 300, 330, 345}[u.N(8, "standstilldays")]) * 86400
				}
			} else if slowClock {
				spec.GapSecs = []int64{1, 5, 86400, 864000, 2592000, 7776000, 7776000}[u.N(7, "slowgap")]
			}
			var steps []hist.Step
			for i := 0; i < crashAt[blocks]; i++ {
				at := ""
				switch u.N(6, "boundary") {
				case 0:
					at = "after-begin"
				case 1, 2:
					at = fmt.Sprintf("after-tx:%d", u.N(len(txs)+1, "crashtx"))
					if len(txs) == 0 {
						at = "after-begin"
					} else if at == fmt.Sprintf("after-tx:%d", len(txs)) {
						at = fmt.Sprintf("after-tx:%d", len(txs)-1)
					}
				case 3:
					at = "after-end"
				default:
					at = "after-commit"
				}
				steps = append(steps, hist.Step{Kind: "crash", At: at, Replica: 1})
			}
			steps = append(steps, hist.BlockStep(spec, txs))
			return steps, txs, true
		})
		classes := []string{"profile-" + prof}
		if slowClock {
			classes = append(classes, "slow-clock")
		}
		for k, v := range st.feats {
			if v > 0 {
				classes = append(classes, k)
			}
		}
		sort.Strings(classes)
		ntKey := ""
		if st.nt > 0 {
			b, _ := json.Marshal(tr.Steps)
			ntKey = string(b)
			classes = append(classes, "non-trivial")
		}
		h.Eval(ntKey, classes, tr.Summary())
		h.Class("crashes", st.crashes)
		h.Class("blocks", st.blocks)
		if out != nil && out.oracle == "harness" {
			h.Class("harness-inconclusive-case", 1) // the harness could not set the case up (e.g. no stable copy): not a verdict
			return
		}
		if out != nil {
			h.Fail(rt, out.oracle, "C08/"+out.oracle+"/"+out.class, tr, "%s", out.msg)
		}
	})
}

func TestReplay(t *testing.T) {
	path := run.ReplayFile()
	if path == "" {
		t.Skip("no VERIF_REPLAY")
	}
	f, err := run.LoadFailure(path)
	if err != nil {
		t.Fatal(err)
	}
	var tr hist.Trace
	if err := json.Unmarshal(f.Case, &tr); err != nil {
		t.Fatal(err)
	}
	h := run.Start(t, "C08")
	defer h.Finish()
	if out, _ := execute(h, &tr, nil); out != nil {
		if out.oracle == "harness" {
			t.Skipf("harness could not set the case up: %s", out.msg)
		}
		h.Fail(t, out.oracle, "C08/"+out.oracle+"/"+out.class, &tr, "%s", out.msg)
	}
}
