package c08

import (
	"encoding/json"
	"math/big"
	"os"
	"path/filepath"
	"testing"

	"verif/hist"
	"verif/run"
	"verif/sim"
	"verif/txgen"
)

type seedBuilder struct {
	p    sim.Params
	tr   *hist.Trace
	pend []hist.Step
}

func newSeed(name string, p sim.Params) *seedBuilder {
	p.Seed = name
	return &seedBuilder{p: p, tr: &hist.Trace{Params: p, Roles: []sim.Role{{ValIdx: 0}}, Profile: "hand:" + name}}
}

func (s *seedBuilder) crash(at string) {
	s.pend = append(s.pend, hist.Step{Kind: "crash", At: at, Replica: 1})
}

func (s *seedBuilder) block(gap int64, txs ...txgen.Tx) {
	spec := sim.BlockSpec{GapSecs: gap}
	for _, x := range txs {
		spec.Txs = append(spec.Txs, x.Bytes)
	}
	s.tr.Steps = append(s.tr.Steps, s.pend...)
	s.pend = nil
	s.tr.Steps = append(s.tr.Steps, hist.BlockStep(spec, txs))
}

const day = 86400

func oneOLT() *big.Int { return new(big.Int).Exp(big.NewInt(10), big.NewInt(18), nil) }

// TestMakeSeeds writes hand-built scenario traces as replay files (run with VERIF_MAKE_SEEDS=<dir>).
func TestMakeSeeds(t *testing.T) {
	dir := os.Getenv("VERIF_MAKE_SEEDS")
	if dir == "" {
		t.Skip("VERIF_MAKE_SEEDS not set")
	}
	_ = os.MkdirAll(dir, 0o755)

	scaled := func() sim.Params {
		p := sim.DefaultParams()
		p.ValPower = p.ValPower[:1]
		p.Witnesses = nil
		p.Evidence.BlockVotesDiff = 1000
		p.Evidence.MinVotesRequired = 1
		p.RewardCycle = 2
		p.RewardEstSecs = 10
		p.RewardCloseWin = 30
		p.RewardYearShares = []string{"1000000000000000000000"}
		p.RewardBurnout = "50000000000000000"
		return p
	}

	// 1. Minimal witness: reward cycle of 2 blocks, one reward year. Cycle 1 (blocks 1-2) is fast. Block 3
	// opens cycle 2 after the chain stood still for 200 days: the calculator forecasts a single more block
	// before the year closes and pays everything that is left per block, so blocks 3 and 4 together overdraw
	// the year. At block 5 (start of cycle 3) the remaining year supply is negative: Calculate returns an
	// error WITHOUT touching its cache. From block 6 on a node that never stopped keeps paying cycle 2's
	// cached amount, a node restarted after Commit(5) recomputes, hits the error again and pays nothing.
	{
		s := newSeed("kf-reward-cache", scaled())
		s.block(5)
		s.block(100 * day)
		s.block(100 * day)
		s.block(1)
		s.crash("after-commit") // applies to the next block step: block 5 is committed, then the node dies
		s.block(1)
		s.block(1) // block 6 differs
		write(t, dir, "fixed-reward-cache-survives-overdrawn-year.json", s.tr)
	}
	// 1b. Second in-memory leftover of the same calculator: the burned-out flag. Block 3 opens cycle 2 after a
	// standstill of 300 days; 65 days are left in the only reward year, the forecast int(65d*2/300d) is 0 blocks,
	// the year is skipped and the calculator declares all years burned out - and never recalculates again. A node
	// restarted in cycle 3 (two fast blocks) recomputes, forecasts millions of blocks and pays a share of the
	// year that is still open, while the node that never stopped keeps paying the burn-out rate.
	{
		s := newSeed("kf-burnout-flag", scaled())
		s.block(5)
		s.block(150 * day)
		s.block(150 * day)
		s.block(1)
		s.crash("after-commit")
		s.block(1)
		s.block(1)
		write(t, dir, "fixed-burnout-flag-only-in-memory.json", s.tr)
	}
	// 2. regression shapes that must pass: the same chain without the long standstill, crashes at every boundary kind
	{
		s := newSeed("ok-fast", scaled())
		s.block(5)
		s.crash("after-begin")
		s.block(5)
		s.crash("after-end")
		s.block(5)
		s.crash("after-commit")
		s.crash("after-commit")
		s.block(5)
		s.crash("after-begin")
		s.crash("after-end")
		s.block(5)
		s.block(5)
		write(t, dir, "seed-crash-every-boundary-empty-blocks.json", s.tr)
	}
	// 3. crash inside the very first block: nothing was committed, Info must say height 0 and InitChain is redone
	{
		p := sim.DefaultParams()
		g := sim.BuildGenesis(func() sim.Params { q := p; q.Seed = "ok-first"; return q }())
		a, b := g.U.Users[0], g.U.Users[1]
		s := newSeed("ok-first", p)
		fee := txgen.DefaultFee()
		s.crash("after-tx:0")
		s.crash("after-end")
		s.block(5, txgen.Send(a, a.Addr, b.Addr, txgen.Amt("OLT", oneOLT()), fee, "s1"))
		s.block(5, txgen.Send(b, b.Addr, a.Addr, txgen.Amt("OLT", oneOLT()), fee, "s2"))
		s.block(5)
		write(t, dir, "seed-crash-before-first-commit.json", s.tr)
	}
}

func write(t *testing.T, dir, name string, tr *hist.Trace) {
	cb, _ := json.Marshal(tr)
	f := run.Failure{Property: "C08", Test: "TestReplay", Oracle: "seed", Message: "hand-built scenario", Sig: "C08/seed", Case: cb}
	b, _ := json.MarshalIndent(f, "", " ")
	if err := os.WriteFile(filepath.Join(dir, name), b, 0o644); err != nil {
		t.Fatal(err)
	}
}
