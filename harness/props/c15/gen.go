package c15

import (
	"fmt"
	"math/big"

	ethcmn "github.com/ethereum/go-ethereum/common"
	ethcrypto "github.com/ethereum/go-ethereum/crypto"
	"pgregory.net/rapid"

	"github.com/Oneledger/protocol/data/keys"

	"verif/hist"
	"verif/sim"
	"verif/txgen"
)

// genParams draws a genesis focused on the bridge: 1-7 validators, a non-empty witness subset
// (1-7 witnesses, so that non-witness validators exist too), users pre-funded with wrapped
// balances (mirrored in the supply counter by sim.BuildGenesis) so that redeems are possible at once.
func genParams(rt *rapid.T, seedTag string) sim.Params {
	p := sim.DefaultParams()
	p.Seed = "c15-" + seedTag
	u := hist.NewU(rt)
	nw := u.Range(1, 7, "nwit")
	nv := u.Range(nw, 7, "nvals")
	p.ValPower = nil
	for i := 0; i < nv; i++ {
		p.ValPower = append(p.ValPower, p.MinSelfDeleg+int64(i))
	}
	p.ExtraVals = 1
	p.TopCount = 8
	// witnesses: nw distinct validator indexes
	perm := rapid.Permutation(seq(nv)).Draw(rt, "witperm")
	p.Witnesses = append([]int{}, perm[:nw]...)
	p.NumUsers = 5
	p.NumEth = 3
	p.Evidence.BlockVotesDiff = 1000 // keep the missed-votes logic away
	p.PreEthBalances = nil
	// trackers carried over by a state dump: decided locks of the previous network, mostly as the block end archives them
	if u.N(3, "pretrk") == 0 {
		uni := sim.NewUniverse(p.Seed, 0, p.NumUsers, p.NumEth)
		for i, n := 0, u.Range(1, 3, "npretrk"); i < n; i++ {
			e := uni.Eth[u.N(len(uni.Eth), "pretrk-eth")]
			raw := txgen.EthLockRaw(e, uint64(1000+i), &sim.LockRedeemContract, big.NewInt(int64(u.Range(1, 1000000, "pretrk-amt"))))
			p.PreTrackers = append(p.PreTrackers, sim.PreTracker{Raw: raw, Failed: u.N(3, "pretrk-failed") == 0, Owner: u.N(p.NumUsers, "pretrk-owner"), Cleaned: u.N(4, "pretrk-clean") != 0})
		}
	}
	if u.N(2, "ethcap") == 0 {
		p.EthCap = "1000000000000000000000" // 1000 ether; the default of 2 ether refuses every lock of main-net size
	}
	for i := 0; i < 3; i++ {
		if u.N(4, "preeth") != 0 {
			p.PreEthBalances = append(p.PreEthBalances, sim.PreBal{User: i, Cur: "ETH", Amount: fmt.Sprint(u.Range(1, 900000, "preethamt"))})
		}
		if u.N(3, "prettc") != 0 {
			p.PreEthBalances = append(p.PreEthBalances, sim.PreBal{User: i, Cur: "TTC", Amount: fmt.Sprint(u.Range(1, 900000, "prettcamt"))})
		}
	}
	return p
}

func seq(n int) []int {
	out := make([]int, n)
	for i := range out {
		out[i] = i
	}
	return out
}

// roles: a witness validator node and a node that is neither validator nor witness.
func roles(p sim.Params, two bool) []sim.Role {
	r := []sim.Role{{ValIdx: p.Witnesses[0], IsWitness: true}}
	if two {
		r = append(r, sim.Role{ValIdx: len(p.ValPower), IsWitness: false})
	}
	return r
}

// sub remembers a lock/redeem submission the generator made.
type sub struct {
	Kind  string
	Raw   []byte
	Owner int
	Bytes []byte
	Name  ethcmn.Hash
	Truth bool // what the external chain "really" says about it (drives most witnesses' votes)
	Block int  // generator block number in which it was drawn
}

type gen struct {
	rt    *rapid.T
	u     *hist.U
	w     *hist.World
	m     *monitor
	excl  func(string) bool
	nonce map[string]uint64
	subs  []*sub
	tags  map[string]int
	block int // number of the block being drawn
}

func (g *gen) pct(p int, label string) bool { return g.u.N(100, label) < p }

// rng draws an approximately uniform integer in [lo, hi] (rapid's own IntRange is biased to small values).
func (g *gen) rng(lo, hi int, label string) int { return g.u.Range(lo, hi, label) }

func (g *gen) excluded(tag string) bool { return g.excl != nil && g.excl(tag) }

func (g *gen) user(label string) (int, *sim.User) {
	i := g.rng(0, len(g.w.G.U.Users)-1, label)
	return i, g.w.G.U.Users[i]
}

func (g *gen) ethUser(label string) *sim.EthUser {
	e := g.w.G.U.Eth
	return e[g.rng(0, len(e)-1, label)]
}

func (g *gen) nextNonce(e *sim.EthUser) uint64 {
	n := g.nonce[e.Name]
	g.nonce[e.Name]++
	return n
}

func (g *gen) remember(kind string, raw []byte, owner int, tx txgen.Tx) {
	g.subs = append(g.subs, &sub{Kind: kind, Raw: raw, Owner: owner, Bytes: tx.Bytes, Name: txgen.TrackerName(raw),
		Truth: g.rng(0, 9, "truth") < 6, Block: g.block})
}

// lockAmount: wei amounts of every size a lock can carry — dust, ether-sized values (10^15..3*10^19) and the
// neighbourhood of the machine-word boundaries 2^63 and 2^64 (about 9.22 and 18.45 ether).
func (g *gen) lockAmount() *big.Int {
	switch g.rng(0, 5, "amt-shape") {
	case 3:
		return new(big.Int).Mul(big.NewInt(int64(g.rng(1, 30000, "amt-milli"))), big.NewInt(1e15))
	case 4:
		b := new(big.Int).Lsh(big.NewInt(1), uint(63+g.rng(0, 1, "amt-word")))
		return b.Add(b, big.NewInt(int64(g.rng(-2, 2, "amt-off"))))
	case 5:
		return new(big.Int).Mul(big.NewInt(int64(g.rng(1, 1000000, "amt-micro"))), big.NewInt(1e12))
	}
	return big.NewInt(int64(g.rng(1, 1000000, "amt")))
}

// upTo draws an amount in 1..bal (bal > 0).
func (g *gen) upTo(bal *big.Int) *big.Int {
	if bal.IsInt64() && bal.Int64() < 1<<40 {
		return big.NewInt(int64(g.rng(1, int(bal.Int64()), "amt")))
	}
	a := new(big.Int).Mul(bal, big.NewInt(int64(g.rng(1, 1000, "amt-permille"))))
	return a.Div(a, big.NewInt(1000))
}

func (g *gen) lock() txgen.Tx {
	ui, u := g.user("u")
	e := g.ethUser("e")
	if g.rng(0, 2, "erc") == 0 {
		a := g.lockAmount()
		raw := txgen.ERC20LockRaw(e, g.nextNonce(e), &sim.TestTokenContract, sim.ERCLockContract, a)
		tx := txgen.ERC20Lock(u, u.Addr, raw, g.w.Fee, g.w.Memo())
		g.remember("ERC20_LOCK", raw, ui, tx)
		return tx
	}
	a := g.lockAmount()
	raw := txgen.EthLockRaw(e, g.nextNonce(e), &sim.LockRedeemContract, a)
	if pre := g.w.P.PreTrackers; len(pre) > 0 && g.pct(20, "pretrk-again") {
		// the ethereum transaction of a tracker the genesis carried, submitted again (by its owner or by somebody else)
		pt := pre[g.rng(0, len(pre)-1, "pretrk-which")]
		raw = pt.Raw
		if g.pct(60, "pretrk-owner") {
			ui = pt.Owner % len(g.w.G.U.Users)
			u = g.w.G.U.Users[ui]
		}
		g.tags["genesis-tracker-resubmitted"]++
	}
	tx := txgen.EthLock(u, u.Addr, raw, g.w.Fee, g.w.Memo())
	g.remember("ETH_LOCK", raw, ui, tx)
	return tx
}

func (g *gen) redeem() txgen.Tx {
	cur := []string{"ETH", "ETH", "TTC"}[g.rng(0, 2, "cur")]
	// prefer a holder
	var holders []int
	for i, u := range g.w.G.U.Users {
		if amt(g.m.led, lkey(u.Addr, cur)).Sign() > 0 {
			holders = append(holders, i)
		}
	}
	ui, u := g.user("u")
	if len(holders) > 0 && g.pct(85, "holder") {
		ui = holders[g.rng(0, len(holders)-1, "hi")]
		u = g.w.G.U.Users[ui]
	}
	bal := amt(g.m.led, lkey(u.Addr, cur))
	var a *big.Int
	tag := "amt-ok"
	switch {
	case bal.Sign() > 0 && g.pct(80, "fits"):
		a = g.upTo(bal)
		if g.pct(15, "all") {
			a = new(big.Int).Set(bal)
			tag = "amt-all"
		}
	case g.pct(20, "zero"):
		a, tag = big.NewInt(0), "amt-zero"
	default:
		a, tag = new(big.Int).Add(bal, big.NewInt(int64(g.rng(1, 1000, "over")))), "amt-over"
	}
	e := g.ethUser("e")
	var tx txgen.Tx
	var raw []byte
	// a receiving address whose tail is the redeem method's selector: the selector then occurs in the raw
	// transaction before the call data does (the redeem parsers look for it in the raw bytes)
	selTo := func(base ethcmn.Address, sel []byte) *ethcmn.Address {
		to := base
		copy(to[16:], sel)
		return &to
	}
	odd := g.pct(6, "sel-in-to")
	if cur == "ETH" {
		to := &sim.LockRedeemContract
		if odd {
			to = selTo(sim.LockRedeemContract, ethcmn.FromHex("0xdb006a75"))
		}
		raw = txgen.EthRedeemRaw(e, g.nextNonce(e), to, a)
		tx = txgen.EthRedeem(u, u.Addr, e.Addr, raw, g.w.Fee, g.w.Memo())
		g.remember("ETH_REDEEM", raw, ui, tx)
	} else {
		to := &sim.ERCLockContract
		if odd {
			to = selTo(sim.ERCLockContract, ethcrypto.Keccak256([]byte("redeem(uint256,address)"))[:4])
		}
		raw = txgen.ERC20RedeemRaw(e, g.nextNonce(e), to, sim.TestTokenContract, a)
		tx = txgen.ERC20Redeem(u, u.Addr, e.Addr, raw, g.w.Fee, g.w.Memo())
		g.remember("ERC20_REDEEM", raw, ui, tx)
	}
	tx.Tags = []string{tag}
	if odd {
		tx.Tags = append(tx.Tags, "eth-selector-in-to-address")
	}
	return tx
}

// dup resubmits an external transaction that was submitted before: byte-identical, in a new
// native transaction (same or other account), or with different trailing bytes.
func (g *gen) dup() txgen.Tx {
	if len(g.subs) == 0 {
		return g.lock()
	}
	s := g.subs[len(g.subs)-1-g.rng(0, min(3, len(g.subs)-1), "which")]
	variant := []string{"new-tx", "new-tx", "other-account", "trailing-bytes", "byte-identical"}[g.rng(0, 4, "variant")]
	if s.Kind == "ERC20_LOCK" && variant != "trailing-bytes" && g.excluded("ERC20_LOCK:dup-eth-tx") {
		// known finding: a second ERC20_LOCK for the same ethereum transaction is accepted. Byte-identical
		// bytes are only answered from the cache once the first one is committed.
		if variant != "byte-identical" || s.Block == g.block {
			variant = "trailing-bytes"
		}
	}
	if (s.Kind == "ETH_REDEEM" || s.Kind == "ERC20_REDEEM") && variant == "trailing-bytes" && g.excluded("ETH_REDEEM:trailing-bytes") {
		variant = "new-tx"
	}
	if variant == "other-account" && (s.Kind == "ETH_LOCK" || s.Kind == "ERC20_LOCK") && g.excluded("ETH_REPORT_FINALITY_MINT:locker-other") {
		// known finding: the mint follows the beneficiary named by the crossing report. While it is excluded
		// every incarnation of a lock keeps one owner, so that generated reports never name another account by accident.
		variant = "new-tx"
	}
	ui := s.Owner
	raw := s.Raw
	switch variant {
	case "byte-identical":
		return txgen.Tx{Bytes: s.Bytes, Kind: s.Kind, Tags: []string{"dup-byte-identical"}}
	case "other-account":
		ui, _ = g.user("other")
	case "trailing-bytes":
		n := g.rng(1, 40, "ntrail")
		raw = append(append([]byte{}, s.Raw...), rapid.SliceOfN(rapid.Byte(), n, n).Draw(g.rt, "trail")...)
	}
	u := g.w.G.U.Users[ui]
	e := g.w.G.U.Eth[0]
	var tx txgen.Tx
	switch s.Kind {
	case "ETH_LOCK":
		tx = txgen.EthLock(u, u.Addr, raw, g.w.Fee, g.w.Memo())
	case "ERC20_LOCK":
		tx = txgen.ERC20Lock(u, u.Addr, raw, g.w.Fee, g.w.Memo())
	case "ETH_REDEEM":
		tx = txgen.EthRedeem(u, u.Addr, e.Addr, raw, g.w.Fee, g.w.Memo())
	default:
		tx = txgen.ERC20Redeem(u, u.Addr, e.Addr, raw, g.w.Fee, g.w.Memo())
	}
	tx.Tags = []string{"dup-" + variant}
	if variant == "trailing-bytes" {
		// if it is accepted it is a tracker of its own that reports can aim at
		g.subs = append(g.subs, &sub{Kind: s.Kind, Raw: raw, Owner: ui, Bytes: tx.Bytes, Name: txgen.TrackerName(raw), Truth: s.Truth, Block: g.block})
	}
	return tx
}

func (g *gen) send() txgen.Tx {
	cur := []string{"ETH", "TTC"}[g.rng(0, 1, "cur")]
	_, from := g.user("from")
	for _, u := range g.w.G.U.Users {
		if amt(g.m.led, lkey(u.Addr, cur)).Sign() > 0 && g.pct(70, "holder") {
			from = u
			break
		}
	}
	_, to := g.user("to")
	bal := amt(g.m.led, lkey(from.Addr, cur))
	a := big.NewInt(1)
	if bal.Sign() > 0 {
		a = g.upTo(bal)
	}
	return txgen.Send(from, from.Addr, to.Addr, txgen.Amt(cur, a), g.w.Fee, g.w.Memo())
}

// report draws a finality report: target, reporter (witness in every order, repeated, non-witness
// validator, ordinary account), index (right, wrong), vote, named beneficiary.
func (g *gen) report() txgen.Tx {
	u := g.w.G.U
	// target: trackers the model knows as ongoing, recent first; sometimes any submission (decided, failed, never accepted)
	var live []*trk
	for _, s := range g.subs {
		if t := g.m.trk[s.Name]; t != nil && t.Where == "ongoing" && t.Decided == "" {
			dupl := false
			for _, x := range live {
				if x == t {
					dupl = true
				}
			}
			if !dupl {
				live = append(live, t)
			}
		}
	}
	var name ethcmn.Hash
	var t *trk
	truth := true
	var pending []*sub // drawn for the block under construction: reports may share the block with the lock
	for _, s := range g.subs {
		if s.Block == g.block && g.m.trk[s.Name] == nil {
			pending = append(pending, s)
		}
	}
	var pend *sub
	switch {
	case len(pending) > 0 && g.pct(35, "pending"):
		pend = pending[g.rng(0, len(pending)-1, "pi")]
		name = pend.Name
	case len(live) > 0 && g.pct(92, "live"):
		t = live[g.rng(0, len(live)-1, "ti")]
		if g.pct(65, "closest") {
			// concentrate on the tracker with most votes so that large witness sets reach a threshold
			for _, x := range live {
				y0, n0 := t.counts()
				y1, n1 := x.counts()
				if y1+n1 > y0+n0 {
					t = x
				}
			}
		}
		name = t.Name
	case len(g.subs) > 0:
		s := g.subs[g.rng(0, len(g.subs)-1, "si")]
		name = s.Name
		t = g.m.trk[name]
	default:
		name = ethcmn.BytesToHash([]byte{1, 2, 3})
	}
	for _, s := range g.subs {
		if s.Name == name {
			truth = s.Truth
		}
	}
	wit := g.m.wit
	if t != nil {
		wit = t.Wit
	}
	tags := []string{}
	// reporter
	var signer *sim.User
	idx := int64(0)
	role := g.rng(0, 99, "role")
	valOf := func(a keys.Address) *sim.Val {
		for _, v := range u.Vals {
			if v.Key.Addr.Equal(a) {
				return v
			}
		}
		return nil
	}
	switch {
	case role < 80 && len(wit) > 0:
		// a witness; prefer one that has not voted yet
		var fresh, voted []int
		for i := range wit {
			if t != nil && i < len(t.Votes) && t.Votes[i] != 0 {
				voted = append(voted, i)
			} else {
				fresh = append(fresh, i)
			}
		}
		pool := fresh
		if len(fresh) == 0 || (len(voted) > 0 && g.pct(12, "repeat")) {
			pool = voted
			tags = append(tags, "repeat")
		}
		wi := pool[g.rng(0, len(pool)-1, "wi")]
		if v := valOf(wit[wi]); v != nil {
			signer = v.Key
		}
		idx = int64(wi)
	case role < 90:
		// a validator that is not a witness (if any)
		for _, v := range u.Vals {
			isW := false
			for _, a := range wit {
				if a.Equal(v.Key.Addr) {
					isW = true
				}
			}
			if !isW {
				signer = v.Key
				break
			}
		}
		idx = int64(g.rng(0, 7, "nwidx"))
		tags = append(tags, "non-witness")
	default:
		_, usr := g.user("reporter")
		signer = usr
		idx = int64(g.rng(0, 7, "uidx"))
		tags = append(tags, "non-witness")
	}
	if signer == nil {
		_, usr := g.user("reporter2")
		signer = usr
		tags = append(tags, "non-witness")
	}
	if g.pct(8, "wrongidx") {
		idx = []int64{idx + 1, int64(len(wit)), 0, 1 << 31, 1<<63 - 1}[g.rng(0, 4, "idxv")]
		tags = append(tags, "idx-other")
	}
	success := truth
	if g.pct(22, "dissent") {
		success = !truth
	}
	locker := keys.Address{}
	if t != nil {
		locker = t.Owner
	} else if pend != nil {
		locker = g.w.G.U.Users[pend.Owner].Addr
	} else {
		for _, s := range g.subs {
			if s.Name == name {
				locker = g.w.G.U.Users[s.Owner].Addr
			}
		}
	}
	if g.pct(10, "liar") && !g.excluded("ETH_REPORT_FINALITY_MINT:locker-other") {
		_, o := g.user("liar-o")
		locker = o.Addr
		tags = append(tags, "locker-other")
	}
	tx := txgen.ReportFinality(signer, name, locker, signer.Addr, idx, success, g.w.Fee, g.w.Memo())
	tx.Tags = tags
	return tx
}

func (g *gen) draw() txgen.Tx {
	k := g.rng(0, 99, "action")
	// few trackers at a time: votes must accumulate on one tracker to reach the threshold of a large witness set
	undecided := 0
	for _, t := range g.m.trk {
		if t.Where == "ongoing" && t.Decided == "" {
			undecided++
		}
	}
	if undecided >= 3 && k < 24 && g.pct(75, "enough") {
		k = 50
	}
	var tx txgen.Tx
	switch {
	case k < 12:
		tx = g.lock()
	case k < 20:
		tx = g.redeem()
	case k < 29:
		tx = g.dup()
	case k < 33:
		tx = g.send()
	default:
		if len(g.subs) == 0 {
			tx = g.lock()
		} else {
			tx = g.report()
		}
	}
	g.tags["kind:"+tx.Kind]++
	for _, t := range tx.Tags {
		g.tags[tx.Kind+":"+t]++
	}
	return tx
}

func min(a, b int) int {
	if a < b {
		return a
	}
	return b
}
