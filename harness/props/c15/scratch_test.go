package c15

import (
	"fmt"
	"math/big"
	"os"
	"strings"
	"testing"

	"verif/run"
	"verif/sim"
	"verif/txgen"
)

func TestMain(m *testing.M) {
	run.Quiet()
	os.Exit(m.Run())
}

func TestScratch(t *testing.T) {
	out := sim.Quiet()
	p := sim.DefaultParams()
	p.Witnesses = []int{0, 1, 2, 3}
	p.PreEthBalances = []sim.PreBal{{User: 0, Cur: "ETH", Amount: "500000"}, {User: 1, Cur: "TTC", Amount: "700000"}}
	g := sim.BuildGenesis(p)
	c := sim.NewChain(g)
	r, err := sim.NewReplica("n0", g, c, sim.Role{ValIdx: 0, IsWitness: true}, "")
	if err != nil {
		t.Fatal(err)
	}
	defer r.Close()
	if err := c.SetInitialValidators(r.InitChain(c)); err != nil {
		t.Fatal(err)
	}
	fee := txgen.DefaultFee()
	u := g.U
	n := 0
	memo := func() string { n++; return fmt.Sprintf("m%d", n) }
	dumpEth := func() {
		for _, kv := range r.Dump() {
			if strings.HasPrefix(kv.K, "eth") || strings.HasSuffix(kv.K, "_ETH") || strings.HasSuffix(kv.K, "_TTC") || strings.HasPrefix(kv.K, "w_") {
				fmt.Fprintf(out, "   KEY %q = %.400q\n", kv.K, string(kv.V))
			}
		}
	}
	runb := func(txs ...txgen.Tx) {
		var bs [][]byte
		for _, tx := range txs {
			ck := r.CheckTx(tx.Bytes)
			fmt.Fprintf(out, "  check %-34s code=%d log=%.120s\n", tx.Kind, ck.Code, ck.Log)
			bs = append(bs, tx.Bytes)
		}
		b := c.MakeBlock(sim.BlockSpec{GapSecs: 5, Txs: bs})
		br := r.RunBlock(b)
		for i, tr := range br.Txs {
			fmt.Fprintf(out, "h=%d deliver %-34s code=%d gas=%d/%d log=%.160s\n", b.Height, txs[i].Kind, tr.Code, tr.GasUsed, tr.GasWanted, tr.Log)
		}
		if r.Panicked {
			fmt.Fprintf(out, "PANICKED in %s\n", r.PanicCall)
		}
		_ = c.Advance(br.AppHash, br.Updates)
		dumpEth()
	}
	a, b2 := u.Users[0], u.Users[1]
	runb()
	e0 := u.Eth[0]
	lockRaw := txgen.EthLockRaw(e0, 0, &sim.LockRedeemContract, big.NewInt(1000000))
	fmt.Fprintf(out, "lockRaw len=%d %x\n", len(lockRaw), lockRaw)
	name := txgen.TrackerName(lockRaw)
	// report in same block as the lock
	wl := []int{}
	_ = wl
	runb(txgen.EthLock(a, a.Addr, lockRaw, fee, memo()))
	// find witness order from dump
	runb(txgen.ReportFinality(u.Vals[0].Key, name, a.Addr, u.Vals[0].Key.Addr, 0, true, fee, memo()),
		txgen.ReportFinality(u.Vals[0].Key, name, a.Addr, u.Vals[0].Key.Addr, 1, true, fee, memo()),
		txgen.ReportFinality(u.Vals[0].Key, name, a.Addr, u.Vals[0].Key.Addr, 2, true, fee, memo()),
		txgen.ReportFinality(u.Vals[0].Key, name, a.Addr, u.Vals[0].Key.Addr, 3, true, fee, memo()),
		txgen.ReportFinality(u.Vals[0].Key, name, a.Addr, u.Vals[0].Key.Addr, 4, true, fee, memo()),
		txgen.ReportFinality(a, name, a.Addr, a.Addr, 0, true, fee, memo()),
	)
	// trailing bytes lock
	lock2 := append(append([]byte{}, lockRaw...), 1, 2, 3)
	runb(txgen.EthLock(b2, b2.Addr, lock2, fee, memo()))
	// redeem with trailing bytes
	red := txgen.EthRedeemRaw(e0, 1, &sim.LockRedeemContract, big.NewInt(500))
	red2 := append(append([]byte{}, red...), 9, 9, 9)
	runb(txgen.EthRedeem(a, a.Addr, e0.Addr, red, fee, memo()), txgen.EthRedeem(a, a.Addr, e0.Addr, red2, fee, memo()))
	// erc20 lock twice
	erc := txgen.ERC20LockRaw(e0, 2, &sim.TestTokenContract, sim.ERCLockContract, big.NewInt(777))
	runb(txgen.ERC20Lock(a, a.Addr, erc, fee, memo()))
	runb(txgen.ERC20Lock(b2, b2.Addr, erc, fee, memo()))
}
