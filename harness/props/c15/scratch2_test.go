package c15

import (
	"fmt"
	"math/big"
	"strings"
	"testing"

	"github.com/Oneledger/protocol/data/keys"

	"verif/sim"
	"verif/txgen"
)

func TestScratch2(t *testing.T) {
	out := sim.Quiet()
	s := newSeed("x", 4)
	g := s.g
	c := sim.NewChain(g)
	r, err := sim.NewReplica("n0", g, c, sim.Role{ValIdx: 0, IsWitness: true}, "")
	if err != nil {
		t.Fatal(err)
	}
	defer r.Close()
	_ = c.SetInitialValidators(r.InitChain(c))
	u := g.U.Users
	e := g.U.Eth[0]
	show := func() {
		for _, kv := range r.Dump() {
			if strings.HasSuffix(kv.K, "_ETH") || strings.HasSuffix(kv.K, "_TTC") {
				fmt.Fprintf(out, "   %s = %s\n", kv.K, kv.V)
			}
			if strings.HasPrefix(kv.K, "eth") {
				fmt.Fprintf(out, "   %q\n", kv.K[:12])
			}
		}
	}
	runb := func(txs ...txgen.Tx) {
		var bs [][]byte
		for _, tx := range txs {
			bs = append(bs, tx.Bytes)
		}
		b := c.MakeBlock(sim.BlockSpec{GapSecs: 5, Txs: bs})
		br := r.RunBlock(b)
		for i, tr := range br.Txs {
			fmt.Fprintf(out, "h=%d %-26s code=%d log=%.140s\n", b.Height, txs[i].Kind, tr.Code, tr.Log)
		}
		if r.Panicked {
			fmt.Fprintf(out, "PANICKED in %s\n", r.PanicCall)
		}
		_ = c.Advance(br.AppHash, br.Updates)
	}
	el := txgen.ERC20LockRaw(e, 0, &sim.TestTokenContract, sim.ERCLockContract, big.NewInt(5000))
	runb()
	runb(txgen.ERC20Lock(u[2], u[2].Addr, el, s.fee, s.m()))
	runb(s.vote(el, 0, true, u[2]), s.vote(el, 1, true, u[2]), s.vote(el, 2, true, u[2]))
	runb()
	show()
	runb(txgen.ERC20Lock(u[2], u[2].Addr, el, s.fee, s.m()))
	runb(s.vote(el, 0, true, u[2]), s.vote(el, 1, true, u[2]), s.vote(el, 2, true, u[2]))
	runb()
	fmt.Fprintf(out, "after second round (user2 = %s)\n", u[2].Addr)
	show()
	// send wrapped ETH to the supply counter address
	runb(txgen.Send(u[0], u[0].Addr, keys.Address(sim.SupplyAddr), txgen.Amt("ETH", big.NewInt(1234)), s.fee, s.m()))
	show()
	// negative index report
	l1 := txgen.EthLockRaw(e, 1, &sim.LockRedeemContract, big.NewInt(1000))
	runb(txgen.EthLock(u[2], u[2].Addr, l1, s.fee, s.m()))
	v := s.wit[0]
	neg := txgen.ReportFinality(v.Key, txgen.TrackerName(l1), u[2].Addr, v.Key.Addr, -1, true, s.fee, s.m())
	ck := r.CheckTx(neg.Bytes)
	fmt.Fprintf(out, "check neg idx: code=%d log=%s panicked=%v\n", ck.Code, ck.Log, r.Panicked)
	runb(neg)
	// ERC20 redeem: yes votes
	er := txgen.ERC20RedeemRaw(e, 2, &sim.ERCLockContract, sim.TestTokenContract, big.NewInt(10))
	runb(txgen.ERC20Redeem(u[1], u[1].Addr, e.Addr, er, s.fee, s.m()))
	runb(s.vote(er, 0, true, u[1]), s.vote(er, 1, true, u[1]), s.vote(er, 2, true, u[1]), s.vote(er, 3, true, u[1]))
	er2 := txgen.ERC20RedeemRaw(e, 3, &sim.ERCLockContract, sim.TestTokenContract, big.NewInt(10))
	runb(txgen.ERC20Redeem(u[1], u[1].Addr, e.Addr, er2, s.fee, s.m()))
	runb(s.vote(er2, 0, false, u[1]), s.vote(er2, 1, false, u[1]), s.vote(er2, 2, false, u[1]), s.vote(er2, 3, false, u[1]))
	runb()
	show()
}
