package c15

import (
	"encoding/json"
	"fmt"
	"os"
	"sort"
	"testing"

	"pgregory.net/rapid"

	"verif/hist"
	"verif/run"
	"verif/sim"
	"verif/txgen"
)

func TestMain(m *testing.M) {
	run.Quiet()
	os.Exit(m.Run())
}

type outcome struct {
	v *viol
}

// execute runs a trace (generated on the fly when draw != nil) with one monitor per replica.
func execute(h *run.H, tr *hist.Trace, draw func(w *hist.World, m *monitor, i int) (hist.Step, bool)) (*viol, *monitor) {
	w, err := hist.NewWorld(tr.Params, tr.Roles)
	if err != nil {
		return &viol{"harness", "world", "cannot build world: " + err.Error()}, nil
	}
	defer w.Close()
	if _, err := w.Init(); err != nil {
		return &viol{"harness", "init", "InitChain: " + err.Error()}, nil
	}
	var mons []*monitor
	for _, r := range w.R {
		m := newMonitor(r)
		if v := m.start(); v != nil {
			return v, m
		}
		mons = append(mons, m)
	}
	for i := 0; ; i++ {
		var st hist.Step
		if draw != nil {
			s, ok := draw(w, mons[0], i)
			if !ok {
				break
			}
			st = s
			tr.Steps = append(tr.Steps, st)
			h.Journal(tr)
		} else {
			if i >= len(tr.Steps) {
				break
			}
			st = tr.Steps[i]
		}
		if st.Kind != "block" {
			continue
		}
		if st.Arg == "check-first" {
			for _, tx := range st.Spec.Txs {
				w.R[0].CheckTx(tx)
				if w.R[0].Panicked {
					return &viol{"node-panic", "CheckTx", fmt.Sprintf("the application panicked in CheckTx before block %d (kinds %v) and shut itself down", w.C.Height+1, st.Kinds)}, mons[0]
				}
			}
		}
		b, res := w.RunBlock(*st.Spec)
		for r := range w.R {
			if w.R[r].Panicked {
				return &viol{"node-panic", w.R[r].PanicCall, fmt.Sprintf("replica %d: the application panicked in %s at height %d (kinds %v) and shut itself down", r, w.R[r].PanicCall, b.Height, st.Kinds)}, mons[0]
			}
		}
		for r, m := range mons {
			if v := m.block(b.Height, st.Spec.Txs, res[r]); v != nil {
				v.msg = fmt.Sprintf("replica %d (role %+v): %s", r, w.R[r].Role, v.msg)
				return v, mons[0]
			}
		}
	}
	return nil, mons[0]
}

const rule = "generated bridge history (1-7 witnesses among 1-7 validators; ETH and ERC-20 locks and redeems carrying real signed ethereum transactions; finality reports from witnesses in every order and yes/no mixture, repeated, with wrong index, from non-witness validators and ordinary accounts, naming another beneficiary; duplicate submissions byte-identical / in a new transaction / by another account / with different trailing bytes; resubmission after failure; wrapped-token transfers; empty blocks) executed on a witness replica and a non-witness replica, each checked by the reference tracker model at every commit; non-trivial = at least one tracker reached the yes or no threshold; distinct by (tracker type, vote-order string) of the decided trackers"

func TestC15(t *testing.T) {
	h := run.Start(t, "C15")
	defer h.Finish()
	h.SetRule(rule)
	maxBlocks := h.Scale(25, 45)
	rapid.Check(t, func(rt *rapid.T) {
		p := genParams(rt, fmt.Sprint(h.Seed))
		u := hist.NewU(rt)
		two := u.N(3, "two-replicas") != 0
		tr := &hist.Trace{Params: p, Roles: roles(p, two), Profile: "bridge"}
		nb := u.Range(6, maxBlocks, "nblocks")
		var g *gen
		blocks := 0
		v, m := execute(h, tr, func(w *hist.World, m *monitor, i int) (hist.Step, bool) {
			if g == nil {
				g = &gen{rt: rt, u: u, w: w, m: m, excl: h.Excluded, nonce: map[string]uint64{}, tags: map[string]int{}}
			}
			if blocks >= nb {
				return hist.Step{}, false
			}
			blocks++
			g.block = blocks
			var txs []txgen.Tx
			if u.N(6, "empty") != 0 {
				n := u.Range(1, 5, "ntx")
				for k := 0; k < n; k++ {
					txs = append(txs, g.draw())
				}
			}
			spec := sim.BlockSpec{GapSecs: 5, ProposerIdx: u.N(7, "proposer")}
			for _, x := range txs {
				spec.Txs = append(spec.Txs, x.Bytes)
			}
			st := hist.BlockStep(spec, txs)
			if u.N(4, "checkfirst") == 0 {
				st.Arg = "check-first"
			}
			return st, true
		})
		ntKey, classes := "", []string{}
		if m != nil {
			ntKey, classes = m.ntKey()
			classes = append(classes, fmt.Sprintf("witnesses=%d", len(p.Witnesses)))
			var ks []string
			for k := range m.feats {
				ks = append(ks, k)
			}
			sort.Strings(ks)
			for _, k := range ks {
				h.Class("tx-"+k, m.feats[k])
			}
		}
		if g != nil {
			for k, n := range g.tags {
				h.Class("drawn-"+k, n)
			}
		}
		if two {
			classes = append(classes, "two-replicas")
		}
		h.Eval(ntKey, classes, tr.Summary())
		if v != nil {
			h.Fail(rt, v.oracle, v.sig(), tr, "%s", v.msg)
		}
	})
}

func TestReplay(t *testing.T) {
	path := run.ReplayFile()
	if path == "" {
		t.Skip("no VERIF_REPLAY")
	}
	f, err := run.LoadFailure(path)
	if err != nil {
		t.Fatal(err)
	}
	var tr hist.Trace
	if err := json.Unmarshal(f.Case, &tr); err != nil {
		t.Fatal(err)
	}
	h := run.Start(t, "C15")
	defer h.Finish()
	v, m := execute(h, &tr, nil)
	if m != nil {
		k, classes := m.ntKey()
		for f, n := range m.feats {
			h.Class("tx-"+f, n)
		}
		h.Eval(k, classes, nil)
		h.Note("decided: " + k)
	}
	if v != nil {
		h.Fail(t, v.oracle, v.sig(), &tr, "%s", v.msg)
	}
}
