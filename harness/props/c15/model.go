// Package c15: cross-chain lock / redeem — threshold-gated, exactly-once mint and refund.
//
// model.go holds the reference tracker model (a monitor over one replica): it replays every
// delivered transaction of a block on its own bookkeeping, then reads the replica's committed
// state (tracker records of the three stores, wrapped balances, supply counter) and checks the
// implications the property states.
package c15

import (
	"crypto/sha256"
	"encoding/json"
	"fmt"
	"math/big"
	"sort"
	"strings"

	ethcmn "github.com/ethereum/go-ethereum/common"
	ethtypes "github.com/ethereum/go-ethereum/core/types"
	"github.com/ethereum/go-ethereum/rlp"

	"github.com/Oneledger/protocol/action"
	aeth "github.com/Oneledger/protocol/action/eth"
	"github.com/Oneledger/protocol/action/transfer"
	trackerlib "github.com/Oneledger/protocol/data/ethereum"
	"github.com/Oneledger/protocol/data/keys"

	"verif/sim"
)

const (
	tLock      = 1
	tRedeem    = 2
	tLockERC   = 3
	tRedeemERC = 4
)

var typeName = map[int]string{tLock: "ETH_LOCK", tRedeem: "ETH_REDEEM", tLockERC: "ERC20_LOCK", tRedeemERC: "ERC20_REDEEM"}

// op is what the monitor understands of a transaction (decoded from its bytes only).
type op struct {
	Kind    string
	Raw     []byte       // embedded ethereum transaction (creation kinds)
	Owner   keys.Address // Locker / Owner field of a creation kind
	Name    ethcmn.Hash  // report: tracker name
	Signer  keys.Address // report: ValidatorAddress
	Index   int64
	Success bool
	Locker  keys.Address // report: the beneficiary the report names
	From    keys.Address // send
	To      keys.Address
	Cur     string
	Amt     *big.Int
}

// decodeTx parses a signed transaction the way a client library would (never fails loudly).
func decodeTx(b []byte) *op {
	stx := &action.SignedTx{}
	if err := json.Unmarshal(b, stx); err != nil {
		return nil
	}
	switch stx.Type {
	case action.ETH_LOCK:
		m := &aeth.Lock{}
		if m.Unmarshal(stx.Data) != nil {
			return nil
		}
		return &op{Kind: "ETH_LOCK", Raw: m.ETHTxn, Owner: m.Locker}
	case action.ERC20_LOCK:
		m := &aeth.ERC20Lock{}
		if m.Unmarshal(stx.Data) != nil {
			return nil
		}
		return &op{Kind: "ERC20_LOCK", Raw: m.ETHTxn, Owner: m.Locker}
	case action.ETH_REDEEM:
		m := &aeth.Redeem{}
		if m.Unmarshal(stx.Data) != nil {
			return nil
		}
		return &op{Kind: "ETH_REDEEM", Raw: m.ETHTxn, Owner: m.Owner}
	case action.ERC20_REDEEM:
		m := &aeth.ERC20Redeem{}
		if m.Unmarshal(stx.Data) != nil {
			return nil
		}
		return &op{Kind: "ERC20_REDEEM", Raw: m.ETHTxn, Owner: m.Owner}
	case action.ETH_REPORT_FINALITY_MINT:
		m := &aeth.ReportFinality{}
		if m.Unmarshal(stx.Data) != nil {
			return nil
		}
		return &op{Kind: "ETH_REPORT_FINALITY_MINT", Name: m.TrackerName, Signer: m.ValidatorAddress, Index: m.VoteIndex, Success: m.Success, Locker: m.Locker}
	case action.SEND:
		m := &transfer.Send{}
		if m.Unmarshal(stx.Data) != nil {
			return nil
		}
		return &op{Kind: "SEND", From: m.From, To: m.To, Cur: m.Amount.Currency, Amt: new(big.Int).Set(m.Amount.Value.BigInt())}
	}
	return nil
}

// firstEthTx decodes the leading RLP item of raw as an ethereum transaction (trailing bytes ignored).
func firstEthTx(raw []byte) *ethtypes.Transaction {
	_, _, rest, err := rlp.Split(raw)
	if err != nil {
		return nil
	}
	tx := &ethtypes.Transaction{}
	if rlp.DecodeBytes(raw[:len(raw)-len(rest)], tx) != nil {
		return nil
	}
	return tx
}

// extID identifies the external (ethereum) transaction a submission refers to: the ethereum
// transaction hash of the transaction carried in the submission; the raw bytes when none decodes.
func extID(raw []byte) string {
	if tx := firstEthTx(raw); tx != nil {
		return tx.Hash().Hex()
	}
	s := sha256.Sum256(raw)
	return fmt.Sprintf("raw:%x", s[:12])
}

// extAmount is the amount the external transaction locks / redeems, and the wrapped currency.
func extAmount(typ int, raw []byte) (*big.Int, string, bool) {
	tx := firstEthTx(raw)
	if tx == nil {
		return nil, "", false
	}
	d := tx.Data()
	switch typ {
	case tLock:
		return new(big.Int).Set(tx.Value()), "ETH", true
	case tRedeem: // redeem(uint256)
		if len(d) < 36 {
			return nil, "", false
		}
		return new(big.Int).SetBytes(d[4:36]), "ETH", true
	case tLockERC: // transfer(address,uint256) on the token contract
		if len(d) < 68 {
			return nil, "", false
		}
		return new(big.Int).SetBytes(d[36:68]), "TTC", true
	case tRedeemERC: // redeem(uint256,address)
		if len(d) < 68 {
			return nil, "", false
		}
		return new(big.Int).SetBytes(d[4:36]), "TTC", true
	}
	return nil, "", false
}

// trk is the model of one tracker incarnation.
type trk struct {
	Name    ethcmn.Hash
	Type    int
	Owner   keys.Address
	Raw     []byte
	Ext     string
	Cur     string
	Amt     *big.Int
	Wit     []keys.Address
	Votes   []int  // 0 none, 1 yes, 2 no
	Decided string // "", "yes", "no"
	Where   string // ongoing | passed | failed
	Order   []string
	Born    int64
	Cross   keys.Address // beneficiary named by the threshold-crossing report
	Liar    bool         // some report named a different beneficiary
}

func (t *trk) counts() (y, n int) {
	for _, v := range t.Votes {
		if v == 1 {
			y++
		} else if v == 2 {
			n++
		}
	}
	return
}

func (t *trk) threshold() int { return len(t.Wit)*2/3 + 1 }

func (t *trk) witIdx(a keys.Address) int {
	for i, w := range t.Wit {
		if w.Equal(a) {
			return i
		}
	}
	return -1
}

type viol struct {
	oracle string
	class  string
	msg    string
}

func (v *viol) sig() string { return "C15/" + v.oracle + "/" + v.class }

// obsTracker is a tracker record read from the committed state.
type obsTracker struct {
	Store string
	T     trackerlib.Tracker
}

type observed struct {
	trackers map[ethcmn.Hash][]obsTracker // by name; more than one entry = present in several stores
	ledger   map[string]*big.Int          // "<addr string>|<cur>" -> amount (ETH and TTC only)
	wit      []keys.Address
}

var supplyKey = keys.Address(sim.SupplyAddr).String()

func lkey(a keys.Address, cur string) string { return a.String() + "|" + cur }

func observe(r *sim.Replica) (*observed, error) {
	o := &observed{trackers: map[ethcmn.Hash][]obsTracker{}, ledger: map[string]*big.Int{}}
	var perr error
	for _, kv := range r.Dump() {
		k := kv.K
		store := ""
		switch {
		case strings.HasPrefix(k, "etht_"):
			store, k = "ongoing", k[len("etht_"):]
		case strings.HasPrefix(k, "ethfailed_"):
			store, k = "failed", k[len("ethfailed_"):]
		case strings.HasPrefix(k, "ethsuccess_"):
			store, k = "passed", k[len("ethsuccess_"):]
		case strings.HasPrefix(k, "w_Ethereum_"):
			o.wit = append(o.wit, keys.Address([]byte(k[len("w_Ethereum_"):])))
			continue
		case strings.HasPrefix(k, "b_") && (strings.HasSuffix(k, "_ETH") || strings.HasSuffix(k, "_TTC")):
			cur := k[len(k)-3:]
			addr := k[2 : len(k)-4]
			var s string
			if err := json.Unmarshal(kv.V, &s); err != nil {
				perr = fmt.Errorf("balance record %q: %v", kv.K, err)
				continue
			}
			v, ok := new(big.Int).SetString(s, 10)
			if !ok {
				perr = fmt.Errorf("balance record %q: %q", kv.K, s)
				continue
			}
			o.ledger[addr+"|"+cur] = v
			continue
		default:
			continue
		}
		ot := obsTracker{Store: store}
		if err := json.Unmarshal(kv.V, &ot.T); err != nil {
			perr = fmt.Errorf("tracker record %q: %v", kv.K, err)
			continue
		}
		name := ethcmn.BytesToHash([]byte(k))
		o.trackers[name] = append(o.trackers[name], ot)
	}
	return o, perr
}

type mintEvent struct {
	t      *trk
	locker keys.Address
}

// monitor is the reference model attached to one replica.
type monitor struct {
	rep     *sim.Replica
	trk     map[ethcmn.Hash]*trk
	ext     map[string]ethcmn.Hash
	seenTx  map[[32]byte]bool
	led     map[string]*big.Int
	wit     []keys.Address
	feats   map[string]int
	done    []*trk // decided trackers (for the non-triviality key)
	drift   int
	started bool
}

func newMonitor(r *sim.Replica) *monitor {
	return &monitor{rep: r, trk: map[ethcmn.Hash]*trk{}, ext: map[string]ethcmn.Hash{}, seenTx: map[[32]byte]bool{}, led: map[string]*big.Int{}, feats: map[string]int{}}
}

func amt(m map[string]*big.Int, k string) *big.Int {
	if v := m[k]; v != nil {
		return v
	}
	return new(big.Int)
}

func add(m map[string]*big.Int, k string, d *big.Int) {
	m[k] = new(big.Int).Add(amt(m, k), d)
}

// start reads the genesis state (height 0 commit) and checks the counter equality there.
func (m *monitor) start() *viol {
	o, err := observe(m.rep)
	if err != nil {
		return &viol{"harness", "decode", err.Error()}
	}
	m.led, m.wit = o.ledger, o.wit
	m.started = true
	// trackers the genesis carried are decided trackers of the reference model
	for _, pt := range m.rep.G.P.PreTrackers {
		name := ethcmn.BytesToHash(pt.Raw)
		a, cur, _ := extAmount(tLock, pt.Raw)
		t := &trk{Name: name, Type: tLock, Owner: m.rep.G.U.Users[pt.Owner%len(m.rep.G.U.Users)].Addr, Raw: pt.Raw, Ext: extID(pt.Raw), Cur: cur, Amt: a,
			Wit: m.wit, Votes: make([]int, len(m.wit)), Where: "passed", Decided: "yes"}
		if pt.Failed {
			t.Where, t.Decided = "failed", "no"
		}
		if recs := o.trackers[name]; len(recs) != 1 || recs[0].Store != t.Where {
			// not a violation by itself: the statement speaks about what a later submission of the same external transaction may do
			m.feats["genesis-tracker-not-imported-as-carried"]++
		}
		m.trk[name], m.ext[t.Ext] = t, name
		m.feats["genesis-tracker:"+t.Where]++
	}
	return m.supplyCheck(o, 0)
}

func (m *monitor) supplyCheck(o *observed, h int64) *viol {
	for _, cur := range []string{"ETH", "TTC"} {
		sum := new(big.Int)
		var ks []string
		for k := range o.ledger {
			ks = append(ks, k)
		}
		sort.Strings(ks)
		for _, k := range ks {
			if strings.HasSuffix(k, "|"+cur) && !strings.HasPrefix(k, supplyKey+"|") {
				sum.Add(sum, o.ledger[k])
			}
		}
		c := amt(o.ledger, supplyKey+"|"+cur)
		if c.Cmp(sum) != 0 {
			return &viol{"supply-counter", cur, fmt.Sprintf("height %d: wrapped-supply counter for %s is %s but the other holders own %s", h, cur, c, sum)}
		}
	}
	return nil
}

// block replays one executed block on the model and checks the replica's committed state.
func (m *monitor) block(height int64, txs [][]byte, res *sim.BlockRes) *viol {
	exp := map[string]*big.Int{}
	for k, v := range m.led {
		exp[k] = new(big.Int).Set(v)
	}
	var mints []mintEvent
	var first *viol
	note := func(v *viol) {
		if first == nil {
			first = v
		}
	}
	touched := map[ethcmn.Hash]bool{}
	var hashes [][32]byte
	for i, tx := range txs {
		hsh := sha256.Sum256(tx)
		hashes = append(hashes, hsh)
		if m.seenTx[hsh] {
			m.feats["byte-identical-replay"]++
			continue // the application answers with the cached response and executes nothing
		}
		if i >= len(res.Txs) {
			break
		}
		o := decodeTx(tx)
		if o == nil {
			continue
		}
		if res.Txs[i].Code != 0 {
			m.feats["rejected:"+o.Kind]++
			if o.Kind == "ETH_REPORT_FINALITY_MINT" {
				if t := m.trk[o.Name]; t != nil && t.Where == "ongoing" {
					if t.witIdx(o.Signer) >= 0 {
						t.Order = append(t.Order, "r") // refused repeated vote
					}
				}
			}
			continue
		}
		m.feats["ok:"+o.Kind]++
		switch o.Kind {
		case "SEND":
			if o.Cur == "ETH" || o.Cur == "TTC" {
				add(exp, lkey(o.From, o.Cur), new(big.Int).Neg(o.Amt))
				add(exp, lkey(o.To, o.Cur), o.Amt)
			}
		case "ETH_LOCK", "ETH_REDEEM", "ERC20_LOCK", "ERC20_REDEEM":
			typ := map[string]int{"ETH_LOCK": tLock, "ETH_REDEEM": tRedeem, "ERC20_LOCK": tLockERC, "ERC20_REDEEM": tRedeemERC}[o.Kind]
			name := ethcmn.BytesToHash(o.Raw)
			ext := extID(o.Raw)
			if prev, ok := m.ext[ext]; ok {
				if t0 := m.trk[prev]; t0 != nil {
					if t0.Where == "failed" {
						m.feats["resubmitted-after-failure:"+o.Kind]++
					}
					if t0.Where != "failed" {
						variant := "same-bytes"
						if prev != name {
							variant = "different-trailing-bytes"
						}
						class := o.Kind + ":" + variant
						if variant == "different-trailing-bytes" && (typ == tRedeem || typ == tRedeemERC) {
							class = "redeem:" + variant // one root cause for both redeem kinds
						}
						note(&viol{"two-trackers", class, fmt.Sprintf("height %d tx#%d: %s accepted (code 0) for external transaction %s although tracker %s (%s, %s, decided=%q) already exists for it",
							height, i, o.Kind, ext, prev.Hex(), typeName[t0.Type], t0.Where, t0.Decided)})
					}
					delete(m.trk, prev)
				}
			}
			if t0 := m.trk[name]; t0 != nil && t0.Ext != ext {
				delete(m.ext, t0.Ext)
			}
			a, cur, ok := extAmount(typ, o.Raw)
			if !ok {
				a, cur = new(big.Int), map[int]string{tLock: "ETH", tRedeem: "ETH", tLockERC: "TTC", tRedeemERC: "TTC"}[typ]
				m.feats["unparsed-amount"]++
			}
			t := &trk{Name: name, Type: typ, Owner: o.Owner, Raw: o.Raw, Ext: ext, Cur: cur, Amt: a, Wit: m.wit, Votes: make([]int, len(m.wit)), Where: "ongoing", Born: height}
			m.trk[name] = t
			m.ext[ext] = name
			touched[name] = true
			if typ == tRedeem || typ == tRedeemERC {
				// the redeem debits owner and counter in the transaction that creates the tracker
				add(exp, lkey(o.Owner, cur), new(big.Int).Neg(a))
				add(exp, supplyKey+"|"+cur, new(big.Int).Neg(a))
			}
		case "ETH_REPORT_FINALITY_MINT":
			t := m.trk[o.Name]
			if t == nil || t.Where != "ongoing" || t.Decided != "" {
				continue
			}
			touched[o.Name] = true
			if !o.Locker.Equal(t.Owner) {
				t.Liar = true
			}
			wi := t.witIdx(o.Signer)
			ev := ""
			counted := false
			switch {
			case wi < 0:
				ev = "x" // non-witness
			case t.Votes[wi] != 0:
				ev = "r" // repeated (not refused because ... should not happen with code 0)
			case o.Index != int64(wi):
				ev = "w" // witness naming a wrong index: fills no slot
			default:
				counted = true
				if o.Success {
					t.Votes[wi] = 1
					ev = fmt.Sprintf("Y%d", wi)
				} else {
					t.Votes[wi] = 2
					ev = fmt.Sprintf("N%d", wi)
				}
			}
			if !o.Locker.Equal(t.Owner) {
				ev += "!"
			}
			t.Order = append(t.Order, ev)
			if !counted {
				continue
			}
			y, n := t.counts()
			switch {
			case y >= t.threshold():
				t.Decided = "yes"
				t.Cross = o.Locker
				m.done = append(m.done, t)
				if t.Type == tLock || t.Type == tLockERC {
					add(exp, lkey(t.Owner, t.Cur), t.Amt)
					add(exp, supplyKey+"|"+t.Cur, t.Amt)
					mints = append(mints, mintEvent{t, o.Locker})
				}
			case n >= t.threshold():
				switch t.Type {
				case tLock:
					t.Decided = "no"
					m.done = append(m.done, t)
				case tRedeem:
					t.Decided = "no"
					m.done = append(m.done, t)
					add(exp, lkey(t.Owner, t.Cur), t.Amt)
					add(exp, supplyKey+"|"+t.Cur, t.Amt)
				default:
					// ERC-20 trackers: the application answers "Tracker Type Unknown" and returns before
					// saving the tracker, so the crossing no-vote is not recorded. The statement fixes
					// neither recording nor refund here; the model follows the application.
					t.Votes[wi] = 0
					t.Order[len(t.Order)-1] += "~"
					m.feats["erc-failure-threshold-vote-dropped"]++
				}
			}
		}
	}

	o, err := observe(m.rep)
	if err != nil {
		return &viol{"harness", "decode", err.Error()}
	}

	// ---- one external transaction backs at most one tracker across the three stores ----
	var names []ethcmn.Hash
	for n := range o.trackers {
		names = append(names, n)
	}
	sort.Slice(names, func(i, j int) bool { return strings.Compare(names[i].Hex(), names[j].Hex()) < 0 })
	extSeen := map[string]ethcmn.Hash{}
	for _, n := range names {
		recs := o.trackers[n]
		if len(recs) > 1 {
			var st []string
			for _, r := range recs {
				st = append(st, r.Store)
			}
			kind := "?"
			if t := m.trk[n]; t != nil {
				kind = typeName[t.Type]
			}
			note(&viol{"two-trackers", kind + ":several-stores", fmt.Sprintf("height %d: tracker %s exists in several stores at once: %v", height, n.Hex(), st)})
		}
		ext := ""
		if t := m.trk[n]; t != nil {
			ext = t.Ext
		} else if len(recs[0].T.SignedETHTx) > 0 {
			ext = extID(recs[0].T.SignedETHTx)
		}
		if ext != "" {
			if other, dup := extSeen[ext]; dup && other != n {
				note(&viol{"two-trackers", "distinct-names", fmt.Sprintf("height %d: trackers %s and %s both stand for external transaction %s", height, other.Hex(), n.Hex(), ext)})
			}
			extSeen[ext] = n
		}
	}

	// ---- per tracker: votes, threshold, store ----
	var mnames []ethcmn.Hash
	for n := range m.trk {
		mnames = append(mnames, n)
	}
	sort.Slice(mnames, func(i, j int) bool { return strings.Compare(mnames[i].Hex(), mnames[j].Hex()) < 0 })
	for _, n := range mnames {
		t := m.trk[n]
		recs := o.trackers[n]
		if len(recs) == 0 {
			if t.Where == "ongoing" {
				m.feats["tracker-vanished"]++
			}
			continue
		}
		rec := recs[0]
		for _, r := range recs {
			if r.Store == "ongoing" {
				rec = r
			}
		}
		switch rec.Store {
		case "ongoing":
			if t.Born == height && len(rec.T.Witnesses) > 0 {
				// recorded witnesses are what the record says
				if !sameAddrs(rec.T.Witnesses, t.Wit) {
					m.feats["recorded-witnesses-differ-from-set"]++
					t.Wit = rec.T.Witnesses
				}
			}
			if !rec.T.ProcessOwner.Equal(t.Owner) {
				note(&viol{"two-trackers", typeName[t.Type] + ":owner-replaced", fmt.Sprintf("height %d: tracker %s owner is %s in the state but the lock was submitted by %s", height, n.Hex(), rec.T.ProcessOwner, t.Owner)})
			}
			for i := 0; i < len(rec.T.FinalityVotes) && i < len(t.Votes); i++ {
				ov := int(rec.T.FinalityVotes[i])
				if ov != 0 && ov != t.Votes[i] {
					note(&viol{"vote-count", typeName[t.Type], fmt.Sprintf("height %d: tracker %s slot %d (witness %s) holds vote %d in the state, but the reports delivered so far justify %d (order %v)",
						height, n.Hex(), i, t.Wit[i], ov, t.Votes[i], t.Order)})
				}
				if ov == 0 && t.Votes[i] != 0 && t.Decided == "" {
					m.drift++
					m.feats["model-vote-not-in-state"]++
					t.Votes[i] = 0
				}
			}
			if touched[n] || t.Decided != "" {
				// a decided tracker is cleaned up by the block end of the deciding block
				if t.Decided != "" {
					m.feats["decided-but-still-ongoing"]++
				}
			}
		case "passed":
			if t.Decided != "yes" {
				y, nn := t.counts()
				note(&viol{"threshold", typeName[t.Type] + ":passed", fmt.Sprintf("height %d: tracker %s moved to the passed store with %d yes / %d no votes of %d recorded witnesses (needs more than %d yes); order %v",
					height, n.Hex(), y, nn, len(t.Wit), len(t.Wit)*2/3, t.Order)})
			}
			t.Where = "passed"
		case "failed":
			if t.Decided != "no" {
				y, nn := t.counts()
				note(&viol{"threshold", typeName[t.Type] + ":failed", fmt.Sprintf("height %d: tracker %s moved to the failed store with %d yes / %d no votes of %d recorded witnesses (needs more than %d no); order %v",
					height, n.Hex(), y, nn, len(t.Wit), len(t.Wit)*2/3, t.Order)})
			}
			t.Where = "failed"
		}
	}

	// ---- wrapped balances: mint / debit / refund exactly as the model says ----
	if first == nil {
		if d := diffLedger(exp, o.ledger); len(d) > 0 {
			v := &viol{"ledger", "balances", fmt.Sprintf("height %d: wrapped balances differ from the reference model: %s", height, strings.Join(d, "; "))}
			// is it a mint credited to the beneficiary named by the crossing report?
			alt := map[string]*big.Int{}
			for k, x := range exp {
				alt[k] = x
			}
			var lied []mintEvent
			for _, me := range mints {
				if !me.locker.Equal(me.t.Owner) {
					add(alt, lkey(me.t.Owner, me.t.Cur), new(big.Int).Neg(me.t.Amt))
					add(alt, lkey(me.locker, me.t.Cur), me.t.Amt)
					lied = append(lied, me)
				}
			}
			if len(lied) > 0 && len(diffLedger(alt, o.ledger)) == 0 {
				me := lied[0]
				v = &viol{"mint-beneficiary", typeName[me.t.Type], fmt.Sprintf("height %d: tracker %s reached the threshold (order %v); %s %s were minted to %s, the address named in the threshold-crossing witness's report, instead of %s who submitted the lock",
					height, me.t.Name.Hex(), me.t.Order, me.t.Amt, me.t.Cur, me.locker, me.t.Owner)}
			}
			note(v)
		}
	}
	if first == nil {
		first = m.supplyCheck(o, height)
	}

	// ---- resynchronise ----
	m.led = o.ledger
	for _, h := range hashes {
		m.seenTx[h] = true
	}
	return first
}

func sameAddrs(a, b []keys.Address) bool {
	if len(a) != len(b) {
		return false
	}
	for i := range a {
		if !a[i].Equal(b[i]) {
			return false
		}
	}
	return true
}

func diffLedger(exp, obs map[string]*big.Int) []string {
	ks := map[string]bool{}
	for k := range exp {
		ks[k] = true
	}
	for k := range obs {
		ks[k] = true
	}
	var all []string
	for k := range ks {
		all = append(all, k)
	}
	sort.Strings(all)
	var d []string
	for _, k := range all {
		if amt(exp, k).Cmp(amt(obs, k)) != 0 {
			d = append(d, fmt.Sprintf("%s expected %s observed %s", k, amt(exp, k), amt(obs, k)))
		}
	}
	return d
}

// ntKey is the distinctness key of a case: type and vote-order string of every tracker that reached a threshold.
func (m *monitor) ntKey() (string, []string) {
	var parts, classes []string
	for _, t := range m.done {
		parts = append(parts, typeName[t.Type]+":"+strings.Join(t.Order, ","))
		c := "threshold-" + t.Decided + ":" + typeName[t.Type]
		classes = append(classes, c, fmt.Sprintf("threshold-with-witnesses=%d", len(t.Wit)))
		if t.Liar {
			classes = append(classes, "threshold-with-lying-report")
		}
		mixed, ignored := false, false
		y, n := t.counts()
		if y > 0 && n > 0 {
			mixed = true
		}
		for _, e := range t.Order {
			if strings.HasPrefix(e, "x") || strings.HasPrefix(e, "r") || strings.HasPrefix(e, "w") {
				ignored = true
			}
		}
		if mixed {
			classes = append(classes, "threshold-with-mixed-votes")
		}
		if ignored {
			classes = append(classes, "threshold-with-ignored-reports")
		}
	}
	sort.Strings(parts)
	return strings.Join(parts, "|"), classes
}
