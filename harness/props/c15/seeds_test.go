package c15

import (
	"encoding/json"
	"math/big"
	"os"
	"path/filepath"
	"testing"

	"verif/hist"
	"verif/run"
	"verif/sim"
	"verif/txgen"
)

// witnessOrder returns the validators in the order the application records witnesses (sorted by address bytes).
func witnessOrder(g *sim.Genesis, p sim.Params) []*sim.Val {
	var vs []*sim.Val
	for _, wi := range p.Witnesses {
		vs = append(vs, g.U.Vals[wi])
	}
	for i := range vs {
		for j := i + 1; j < len(vs); j++ {
			if string(vs[j].Key.Addr) < string(vs[i].Key.Addr) {
				vs[i], vs[j] = vs[j], vs[i]
			}
		}
	}
	return vs
}

type seedB struct {
	tr   *hist.Trace
	g    *sim.Genesis
	wit  []*sim.Val
	memo int
	fee  txgen.Fee
}

func newSeed(name string, nw int) *seedB {
	p := sim.DefaultParams()
	p.Seed = "c15-seed-" + name
	p.Evidence.BlockVotesDiff = 1000
	p.Witnesses = seq(nw)
	p.PreEthBalances = []sim.PreBal{{User: 0, Cur: "ETH", Amount: "500000"}, {User: 1, Cur: "TTC", Amount: "700000"}}
	g := sim.BuildGenesis(p)
	return &seedB{tr: &hist.Trace{Params: p, Roles: roles(p, true), Profile: "hand:" + name}, g: g, wit: witnessOrder(g, p), fee: txgen.DefaultFee()}
}

func (s *seedB) m() string { s.memo++; return "seed" + string(rune('a'+s.memo%26)) + string(rune('a'+s.memo/26)) }

func (s *seedB) block(txs ...txgen.Tx) {
	spec := sim.BlockSpec{GapSecs: 5}
	for _, x := range txs {
		spec.Txs = append(spec.Txs, x.Bytes)
	}
	s.tr.Steps = append(s.tr.Steps, hist.BlockStep(spec, txs))
}

// vote builds the report of witness i (position in the recorded list).
func (s *seedB) vote(raw []byte, i int, yes bool, locker *sim.User) txgen.Tx {
	v := s.wit[i]
	return txgen.ReportFinality(v.Key, txgen.TrackerName(raw), locker.Addr, v.Key.Addr, int64(i), yes, s.fee, s.m())
}

// TestMakeSeeds writes hand-built scenarios as replay files (VERIF_MAKE_SEEDS=<dir>).
func TestMakeSeeds(t *testing.T) {
	dir := os.Getenv("VERIF_MAKE_SEEDS")
	if dir == "" {
		t.Skip("VERIF_MAKE_SEEDS not set")
	}
	_ = os.MkdirAll(dir, 0o755)

	// regression: honest flows in one history — lock minted, lock failed and resubmitted, redeem burnt, redeem refunded
	{
		s := newSeed("flows", 4)
		u := s.g.U.Users
		e := s.g.U.Eth[0]
		l1 := txgen.EthLockRaw(e, 0, &sim.LockRedeemContract, big.NewInt(1000))
		l2 := txgen.EthLockRaw(e, 1, &sim.LockRedeemContract, big.NewInt(2000))
		r1 := txgen.EthRedeemRaw(e, 2, &sim.LockRedeemContract, big.NewInt(300))
		r2 := txgen.EthRedeemRaw(e, 3, &sim.LockRedeemContract, big.NewInt(400))
		el := txgen.ERC20LockRaw(e, 4, &sim.TestTokenContract, sim.ERCLockContract, big.NewInt(77))
		s.block()
		s.block(txgen.EthLock(u[2], u[2].Addr, l1, s.fee, s.m()), txgen.EthLock(u[3], u[3].Addr, l2, s.fee, s.m()),
			txgen.EthRedeem(u[0], u[0].Addr, e.Addr, r1, s.fee, s.m()), txgen.EthRedeem(u[0], u[0].Addr, e.Addr, r2, s.fee, s.m()),
			txgen.ERC20Lock(u[4], u[4].Addr, el, s.fee, s.m()))
		s.block(s.vote(l1, 3, true, u[2]), s.vote(l2, 0, false, u[3]), s.vote(r1, 1, true, u[0]))
		s.block()
		s.block(s.vote(l1, 1, false, u[2]), s.vote(l1, 0, true, u[2]), s.vote(l2, 2, false, u[3]), s.vote(r2, 0, false, u[0]), s.vote(el, 2, true, u[4]))
		// repeated votes, non-witness, wrong index
		s.block(s.vote(l1, 1, true, u[2]), txgen.ReportFinality(u[1], txgen.TrackerName(l1), u[2].Addr, u[1].Addr, 2, true, s.fee, s.m()),
			txgen.ReportFinality(s.wit[2].Key, txgen.TrackerName(l1), u[2].Addr, s.wit[2].Key.Addr, 1, true, s.fee, s.m()))
		s.block(s.vote(l1, 2, true, u[2]), s.vote(l2, 3, false, u[3]), s.vote(r1, 0, true, u[0]), s.vote(r1, 3, true, u[0]),
			s.vote(r2, 2, false, u[0]), s.vote(r2, 3, false, u[0]), s.vote(el, 0, true, u[4]), s.vote(el, 1, true, u[4]))
		s.block()
		// duplicates after the decision, resubmission of the failed lock
		s.block(txgen.EthLock(u[2], u[2].Addr, l1, s.fee, s.m()), txgen.EthLock(u[3], u[3].Addr, l2, s.fee, s.m()),
			txgen.EthRedeem(u[0], u[0].Addr, e.Addr, r1, s.fee, s.m()), txgen.EthRedeem(u[0], u[0].Addr, e.Addr, r2, s.fee, s.m()))
		s.block(s.vote(l2, 0, true, u[3]), s.vote(l2, 1, true, u[3]), s.vote(l2, 2, true, u[3]))
		s.block()
		s.block()
		writeSeed(t, dir, "seed-honest-flows.json", s.tr)
	}
	// known finding: the threshold-crossing witness names another beneficiary
	{
		s := newSeed("liar", 4)
		u := s.g.U.Users
		e := s.g.U.Eth[0]
		l1 := txgen.EthLockRaw(e, 0, &sim.LockRedeemContract, big.NewInt(1000))
		s.block()
		s.block(txgen.EthLock(u[2], u[2].Addr, l1, s.fee, s.m()))
		s.block(s.vote(l1, 0, true, u[2]), s.vote(l1, 1, true, u[2]))
		s.block(s.vote(l1, 2, true, u[3]))
		s.block()
		writeSeed(t, dir, "kf-mint-to-reported-locker.json", s.tr)
	}
	// known finding: a second ERC20_LOCK for the same ethereum transaction is accepted (after the first was minted)
	{
		s := newSeed("erc-dup", 4)
		u := s.g.U.Users
		e := s.g.U.Eth[0]
		el := txgen.ERC20LockRaw(e, 0, &sim.TestTokenContract, sim.ERCLockContract, big.NewInt(5000))
		s.block()
		s.block(txgen.ERC20Lock(u[2], u[2].Addr, el, s.fee, s.m()))
		s.block(s.vote(el, 0, true, u[2]), s.vote(el, 1, true, u[2]), s.vote(el, 2, true, u[2]))
		s.block()
		s.block(txgen.ERC20Lock(u[2], u[2].Addr, el, s.fee, s.m()))
		s.block(s.vote(el, 0, true, u[2]), s.vote(el, 1, true, u[2]), s.vote(el, 2, true, u[2]))
		s.block()
		writeSeed(t, dir, "kf-erc20-lock-accepted-twice.json", s.tr)
	}
	// known finding: the same ethereum redeem transaction with extra trailing bytes gets a second tracker
	{
		s := newSeed("trailing", 4)
		u := s.g.U.Users
		e := s.g.U.Eth[0]
		r1 := txgen.EthRedeemRaw(e, 0, &sim.LockRedeemContract, big.NewInt(300))
		r1b := append(append([]byte{}, r1...), 0)
		s.block()
		s.block(txgen.EthRedeem(u[0], u[0].Addr, e.Addr, r1, s.fee, s.m()))
		s.block(txgen.EthRedeem(u[0], u[0].Addr, e.Addr, r1b, s.fee, s.m()))
		s.block()
		writeSeed(t, dir, "kf-redeem-trailing-bytes.json", s.tr)
	}
}

func writeSeed(t *testing.T, dir, name string, tr *hist.Trace) {
	cb, _ := json.Marshal(tr)
	f := run.Failure{Property: "C15", Test: "TestReplay", Oracle: "seed", Message: "hand-built scenario", Sig: "C15/seed", Case: cb}
	b, _ := json.MarshalIndent(f, "", " ")
	if err := os.WriteFile(filepath.Join(dir, name), b, 0o644); err != nil {
		t.Fatal(err)
	}
}
