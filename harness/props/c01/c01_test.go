// Package c01: replica determinism — same blocks give the same state and results on every node.
package c01

import (
	"encoding/json"
	"fmt"
	"os"
	"sort"
	"strings"
	"testing"

	"pgregory.net/rapid"

	"github.com/Oneledger/protocol/data/jobs"
	"github.com/Oneledger/protocol/event"

	"verif/hist"
	"verif/run"
	"verif/sim"
	"verif/txgen"
)

func TestMain(m *testing.M) {
	run.Quiet()
	os.Exit(m.Run())
}

type outcome struct {
	oracle string
	msg    string
}

// touchJobs manipulates a witness replica's node-local job store the way the job bus
// (or an operator wiping nodedata) could: mark broadcast jobs done / failed, or lose them.
func touchJobs(r *sim.Replica, how string) int {
	js, ok := r.App.VerifJobStore().(*jobs.JobStore)
	if !ok || js == nil {
		return 0
	}
	var all []jobs.Job
	js.WithChain(1).Iterate(func(j jobs.Job) { all = append(all, j) })
	n := 0
	for _, j := range all {
		switch how {
		case "done":
			if b, ok := j.(*event.JobETHBroadcast); ok {
				b.Status = jobs.Completed
				_ = js.SaveJob(b)
				n++
			}
		case "failed":
			if b, ok := j.(*event.JobETHBroadcast); ok {
				b.Status = jobs.Failed
				_ = js.SaveJob(b)
				n++
			}
		case "lose":
			_ = js.DeleteJob(j)
			n++
		}
	}
	return n
}

// execute runs a trace on its replicas. When draw != nil, steps are generated on the fly.
func execute(h *run.H, tr *hist.Trace, draw func(w *hist.World, i int) (hist.Step, bool)) (*outcome, map[string]int) {
	feats := map[string]int{}
	w, err := hist.NewWorld(tr.Params, tr.Roles)
	if err != nil {
		return &outcome{"harness", "cannot build world: " + err.Error()}, feats
	}
	defer w.Close()
	if _, err := w.Init(); err != nil {
		return &outcome{"init", "InitChain: " + err.Error()}, feats
	}
	// node-local mempool traffic is one more thing that differs between nodes: the last replica answers the checks
	// a node's mempool issues around every block (the block's transactions as they arrive, the pool's other
	// content), the others have an idle mempool
	if n := len(w.R); n >= 2 {
		w.R[n-1].Ambient = true
		feats["replica-with-mempool-traffic"]++
	}
	for i := 1; i < len(w.R); i++ {
		if d := sim.CompareInit(w.R[0].LastInit, w.R[i].LastInit); d != "" {
			return &outcome{"init", fmt.Sprintf("replica %d vs 0: %s", i, d)}, feats
		}
	}
	for i := 0; ; i++ {
		var st hist.Step
		if draw != nil {
			s, ok := draw(w, i)
			if !ok {
				break
			}
			st = s
			tr.Steps = append(tr.Steps, st)
			h.Journal(tr)
		} else {
			if i >= len(tr.Steps) {
				break
			}
			st = tr.Steps[i]
		}
		switch st.Kind {
		case "restart":
			// a node-local event: replica st.Replica is stopped between two blocks and started again on its data
			// directory (real Prepare(), Info); the others keep running
			if st.Replica > 0 && st.Replica < len(w.R) {
				nr, err := sim.Restart(w.R[st.Replica], w.C, fmt.Sprintf("c01r%d", i))
				if err != nil {
					feats["restart-not-possible"]++ // harness-side (copy of a compacting database): not judged
					if w.R[st.Replica].Closed() {
						return nil, feats
					}
					break
				}
				w.R[st.Replica] = nr
				feats["replica-restarted"]++
				if nr.Panicked {
					return &outcome{"node-panic", fmt.Sprintf("replica %d: the application panicked in %s when restarted after height %d", st.Replica, nr.PanicCall, w.C.Height)}, feats
				}
			}
		case "jobs":
			if st.Replica < len(w.R) && w.R[st.Replica].Role.IsWitness {
				if touchJobs(w.R[st.Replica], st.Arg) > 0 {
					feats["jobs-"+st.Arg]++
				}
			}
		case "block":
			b, res := w.RunBlock(*st.Spec)
			for r := range w.R {
				if w.R[r].Panicked {
					return &outcome{"node-panic", fmt.Sprintf("replica %d: the application panicked in %s at height %d (kinds %v) and shut itself down", r, w.R[r].PanicCall, b.Height, st.Kinds)}, feats
				}
			}
			for r := 1; r < len(res); r++ {
				if d := sim.CompareBlockRes(res[0], res[r]); d != "" {
					diff := sim.DiffDumps(w.R[0].DumpMap(), w.R[r].DumpMap())
					if len(diff) > 6 {
						diff = diff[:6]
					}
					return &outcome{"replica-divergence", fmt.Sprintf("replica %d (role %+v) vs replica 0 (role %+v): %s; first differing keys %q", r, w.R[r].Role, w.R[0].Role, d, diff)}, feats
				}
			}
			noteFeatures(feats, b, res[0], st)
		}
	}
	feats["blocks"] = int(w.C.Height)
	if len(tr.Params.PreMature) > 1 {
		feats["genesis-with-pending-maturities"]++
	}
	return nil, feats
}

// noteFeatures classifies what happened in a block (used for the non-triviality rule).
func noteFeatures(f map[string]int, b *sim.Block, res *sim.BlockRes, st hist.Step) {
	ok := 0
	for i, t := range res.Txs {
		if t.Code == 0 {
			ok++
			if i < len(st.Kinds) {
				f["ok:"+st.Kinds[i]]++
			}
		}
	}
	if ok >= 2 {
		f["block-with-2+-successful-txs"]++
	}
	for _, ev := range res.Begin.Events {
		if ev.Type == "block_rewards" {
			n := 0
			for _, a := range ev.Attributes {
				if strings.HasPrefix(string(a.Key), "0lt") && string(a.Value) != "0" {
					n++
				}
			}
			if n >= 2 {
				f["rewards-to-2+-validators"]++
			}
		}
		if ev.Type == "deleg_undelegate" {
			f["undelegation-matured"]++
		}
	}
	verdicts := 0
	for _, ev := range res.End.Events {
		if ev.Type == "allegation_tracker" {
			verdicts++
		}
	}
	if verdicts == 1 {
		f["verdict"]++
	} else if verdicts >= 2 {
		f["two-verdicts-one-block"]++
	}
	nz, z := 0, 0
	for _, u := range res.Updates {
		if u.Power == 0 {
			z++
		} else {
			nz++
		}
	}
	if z > 0 {
		f["validator-removed"]++
	}
	if nz >= 2 {
		f["updates-for-2+-validators"]++
	}
}

func classify(f map[string]int) (bool, string, []string) {
	var classes []string
	multi := 0
	for _, k := range []string{"two-verdicts-one-block", "verdict", "genesis-with-pending-maturities", "block-with-2+-successful-txs", "rewards-to-2+-validators", "updates-for-2+-validators", "validator-removed", "undelegation-matured"} {
		if f[k] > 0 {
			classes = append(classes, k)
			multi++
		}
	}
	for k := range f {
		if strings.HasPrefix(k, "jobs-") || k == "replica-restarted" || k == "restart-not-possible" || k == "replica-with-mempool-traffic" {
			classes = append(classes, k)
		}
	}
	sort.Strings(classes)
	nt := f["blocks"] >= 10 && multi > 0
	return nt, strings.Join(classes, "+"), classes
}

func TestC01(t *testing.T) {
	h := run.Start(t, "C01")
	defer h.Finish()
	h.SetRule("generated genesis configuration x block history (all transaction families, 9 focus profiles, block environment with absentees / byzantine evidence / time gaps, job-store perturbations on witnesses) executed on 3 replicas with different roles (validator+witness, validator, non-validator) and keys, one of which answers node-local mempool checks around every block and one of which is occasionally stopped and restarted on its data directory between two blocks; non-trivial = at least 10 blocks and at least one block where a block-level hook or several transactions wrote state for 2+ subjects (2+ validators rewarded, 2+ validator updates, a removal, a matured undelegation, 2+ successful txs); distinct by trace hash")
	maxBlocks := h.Scale(35, 70)
	caseN := 0
	rapid.Check(t, func(rt *rapid.T) {
		caseN++
		p := hist.GenParams(rt, fmt.Sprint(h.Seed))
		// a genesis produced by a state dump carries pending unstake maturities (several heights)
		if rapid.IntRange(0, 3).Draw(rt, "premature") == 0 {
			n := rapid.IntRange(2, 5).Draw(rt, "npremature")
			for i := 0; i < n; i++ {
				p.PreMature = append(p.PreMature, sim.PreMat{Val: rapid.IntRange(0, 6).Draw(rt, "pmval"), Amount: int64(rapid.IntRange(1, 50).Draw(rt, "pmamt")), Height: int64(rapid.IntRange(2, 12).Draw(rt, "pmh"))})
			}
		}
		prof := hist.PickProfile(rt)
		tr := &hist.Trace{Params: p, Roles: hist.Roles(p, 3), Profile: prof}
		uu := hist.NewU(rt)
		// node-local chain-state rotation (which old versions a node keeps on disk): the built-in default, an archive
		// node (the devnet's setting), "last version only" and small schedules; replica 0 keeps the default
		rots := []*[3]int64{nil, {0, 1, 0}, {0, 0, 0}, {1, 0, 0}, {3, 2, 1}, {2, 5, 0}, {10, 100, 10}}
		for ri := 1; ri < len(tr.Roles); ri++ {
			tr.Roles[ri].Rot = rots[uu.N(len(rots), "rot")]
		}
		// the hosts' local time zones (replica 0 stays in UTC)
		zones := []int{0, 0, 19800, -28800, 3600, 45900}
		for ri := 1; ri < len(tr.Roles); ri++ {
			tr.Roles[ri].TZ = zones[uu.N(len(zones), "tz")]
		}
		nb := uu.Range(8, maxBlocks, "nblocks")
		var g *hist.Gen
		blocks := 0
		out, feats := execute(h, tr, func(w *hist.World, i int) (hist.Step, bool) {
			if g == nil {
				g = &hist.Gen{W: w, T: rt, Hostile: 4, Strange: 8, Kinds: hist.Profiles[prof], Excl: h.Excluded, Seen: map[string]int{}, TagsN: map[string]int{}}
			}
			if blocks >= nb {
				return hist.Step{}, false
			}
			// observe the previous block's results before drawing
			if len(w.Results) > 0 && len(tr.Steps) > 0 {
				last := tr.Steps[len(tr.Steps)-1]
				if last.Kind == "block" {
					w.Observe(lastTxs, w.Results[len(w.Results)-1])
				}
			}
			if blocks > 0 && len(tr.Steps) > 0 && tr.Steps[len(tr.Steps)-1].Kind == "block" && uu.N(15, "restart") == 0 {
				return hist.Step{Kind: "restart", Replica: 1}, true
			}
			if prof == "eth" && rapid.IntRange(0, 5).Draw(rt, "jobs") == 0 {
				return hist.Step{Kind: "jobs", Replica: rapid.IntRange(0, 1).Draw(rt, "jobrep"), Arg: rapid.SampledFrom([]string{"done", "done", "failed", "lose"}).Draw(rt, "jobhow")}, true
			}
			txs := g.DrawTxs(5)
			lastTxs = txs
			spec := g.DrawEnv(txs)
			blocks++
			return hist.BlockStep(spec, txs), true
		})
		nt, key, classes := classify(feats)
		ntKey := ""
		if nt {
			b, _ := json.Marshal(tr.Steps)
			ntKey = key + string(b)
		}
		classes = append(classes, "profile-"+prof)
		h.Eval(ntKey, classes, tr.Summary())
		if out != nil {
			h.Fail(rt, out.oracle, "C01/"+out.oracle, tr, "%s", out.msg)
		}
	})
}

var lastTxs []txgen.Tx

func TestReplay(t *testing.T) {
	path := run.ReplayFile()
	if path == "" {
		t.Skip("no VERIF_REPLAY")
	}
	f, err := run.LoadFailure(path)
	if err != nil {
		t.Fatal(err)
	}
	var tr hist.Trace
	if err := json.Unmarshal(f.Case, &tr); err != nil {
		t.Fatal(err)
	}
	h := run.Start(t, "C01")
	defer h.Finish()
	// map-order effects are probabilistic per run: repeat
	reps := run.EnvInt("VERIF_C01_REPS", 20)
	for k := 0; k < reps; k++ {
		if out, _ := execute(h, &tr, nil); out != nil {
			h.Fail(t, out.oracle, "C01/"+out.oracle, &tr, "repetition %d of %d: %s", k+1, reps, out.msg)
		}
	}
}
