package c01

import (
	"encoding/json"
	"os"
	"path/filepath"
	"testing"

	"verif/hist"
	"verif/run"
	"verif/sim"
	"verif/txgen"
)

// TestMakeSeeds writes hand-built scenario traces as replay files (run with VERIF_MAKE_SEEDS=<dir>).
func TestMakeSeeds(t *testing.T) {
	dir := os.Getenv("VERIF_MAKE_SEEDS")
	if dir == "" {
		t.Skip("VERIF_MAKE_SEEDS not set")
	}
	_ = os.MkdirAll(dir, 0o755)

	// two allegation verdicts decided in the same block
	p := sim.DefaultParams()
	p.Seed = "seed-two-verdicts"
	p.Evidence.BlockVotesDiff = 1000 // keep the missed-votes logic out of the way
	p.Evidence.MinVotesRequired = 1
	g := sim.BuildGenesis(p)
	u := g.U
	fee := txgen.DefaultFee()
	tr := &hist.Trace{Params: p, Roles: hist.Roles(p, 3), Profile: "hand:two-verdicts"}
	block := func(txs ...txgen.Tx) {
		spec := sim.BlockSpec{GapSecs: 5}
		for _, x := range txs {
			spec.Txs = append(spec.Txs, x.Bytes)
		}
		tr.Steps = append(tr.Steps, hist.BlockStep(spec, txs))
	}
	block()
	block()
	block()
	v := u.Vals
	block(txgen.Allegation(v[0].Key, "reqA", v[0].Key.Addr, v[2].Key.Addr, 3, "p", fee, "a1"),
		txgen.Allegation(v[0].Key, "reqB", v[0].Key.Addr, v[3].Key.Addr, 3, "p", fee, "a2"))
	block()
	block(txgen.AllegationVote(v[0].Key, "reqA", v[0].Key.Addr, 1, fee, "v1"),
		txgen.AllegationVote(v[1].Key, "reqA", v[1].Key.Addr, 1, fee, "v2"),
		txgen.AllegationVote(v[0].Key, "reqB", v[0].Key.Addr, 1, fee, "v3"),
		txgen.AllegationVote(v[1].Key, "reqB", v[1].Key.Addr, 1, fee, "v4"))
	for i := 0; i < 4; i++ {
		block()
	}
	write(t, dir, "seed-two-verdicts-one-block.json", tr)
}

func write(t *testing.T, dir, name string, tr *hist.Trace) {
	cb, _ := json.Marshal(tr)
	f := run.Failure{Property: "C01", Test: "TestReplay", Oracle: "seed", Message: "hand-built scenario", Sig: "C01/seed", Case: cb}
	b, _ := json.MarshalIndent(f, "", " ")
	if err := os.WriteFile(filepath.Join(dir, name), b, 0o644); err != nil {
		t.Fatal(err)
	}
}
