// Package c09: the layered state store behaves like a transactional, versioned map.
package c09

import (
	"bytes"
	"encoding/json"
	"fmt"
	"math"
	"os"
	"strings"
	"testing"

	dbm "github.com/tendermint/tm-db"
	"pgregory.net/rapid"

	"github.com/Oneledger/protocol/config"
	"github.com/Oneledger/protocol/storage"

	"verif/run"
)

// ---- operations -------------------------------------------------------------

type Op struct {
	K   string `json:"k"`             // set del get exists begin commitS discardS commit reopen getv
	Key string `json:"key,omitempty"` // key
	Val string `json:"val,omitempty"` // value for set
	Ver int64  `json:"ver,omitempty"` // version for getv (relative: current-Ver)
}

func (o Op) String() string {
	switch o.K {
	case "set":
		return fmt.Sprintf("set(%s,%s)", o.Key, o.Val)
	case "del", "get", "exists":
		return fmt.Sprintf("%s(%s)", o.K, o.Key)
	case "getv":
		return fmt.Sprintf("getv(-%d,%s)", o.Ver, o.Key)
	}
	return o.K
}

type Case struct {
	Rot  [3]int64 `json:"rotation"` // recent, every, cycles
	Gas  bool     `json:"gas"`
	Keys []string `json:"keys"`
	Ops  []Op     `json:"ops"`
}

// ---- reference model ----------------------------------------------------------

type layer struct {
	m map[string]*string // nil pointer = deleted in this layer
}

func newLayer() *layer { return &layer{m: map[string]*string{}} }

type model struct {
	versions []map[string]string // versions[v] = content at version v (0 = empty)
	block    *layer
	sess     *layer
}

func newModel() *model {
	return &model{versions: []map[string]string{{}}, block: newLayer()}
}

func (m *model) cur() map[string]string { return m.versions[len(m.versions)-1] }

func (m *model) get(k string) (string, bool) {
	if m.sess != nil {
		if v, ok := m.sess.m[k]; ok {
			if v == nil {
				return "", false
			}
			return *v, true
		}
	}
	if v, ok := m.block.m[k]; ok {
		if v == nil {
			return "", false
		}
		return *v, true
	}
	v, ok := m.cur()[k]
	return v, ok
}

func (m *model) set(k, v string) {
	vv := v
	if m.sess != nil {
		m.sess.m[k] = &vv
	} else {
		m.block.m[k] = &vv
	}
}

func (m *model) del(k string) {
	if m.sess != nil {
		m.sess.m[k] = nil
	} else {
		m.block.m[k] = nil
	}
}

func (m *model) commitSession() {
	for k, v := range m.sess.m {
		m.block.m[k] = v
	}
	m.sess = nil
}

func (m *model) commit() {
	n := map[string]string{}
	for k, v := range m.cur() {
		n[k] = v
	}
	for k, v := range m.block.m {
		if v == nil {
			delete(n, k)
		} else {
			n[k] = *v
		}
	}
	m.versions = append(m.versions, n)
	m.block = newLayer()
	m.sess = nil
}

func (m *model) reopen() {
	m.block = newLayer()
	m.sess = nil
}

// ---- system under test --------------------------------------------------------

type sut struct {
	db  dbm.DB
	cs  *storage.ChainState
	st  *storage.State
	rot [3]int64
	gas bool
}

func newSut(rot [3]int64, gas bool) *sut {
	s := &sut{db: dbm.NewMemDB(), rot: rot, gas: gas}
	s.open()
	return s
}

func (s *sut) open() {
	s.cs = storage.NewChainState("c09", s.db)
	if err := s.cs.SetupRotation(config.ChainStateRotationCfg{Recent: s.rot[0], Every: s.rot[1], Cycles: s.rot[2]}); err != nil {
		panic(err)
	}
	s.newState()
}

func (s *sut) newState() {
	s.st = storage.NewState(s.cs)
	if s.gas {
		s.st = s.st.WithGas(storage.NewGasCalculator(storage.Gas(math.MaxInt64)))
	}
}

// apply executes one mutating/lifecycle op. Returns hash on commit.
func (s *sut) apply(o Op) []byte {
	switch o.K {
	case "set":
		if err := s.st.Set(storage.StoreKey(o.Key), []byte(o.Val)); err != nil {
			panic(err)
		}
	case "del":
		_, _ = s.st.Delete(storage.StoreKey(o.Key))
	case "begin":
		s.st.BeginTxSession()
	case "commitS":
		s.st.CommitTxSession()
	case "discardS":
		s.st.DiscardTxSession()
	case "commit":
		h, _ := s.st.Commit()
		// the application creates a fresh State (with gas) after every block commit
		s.newState()
		return h
	case "reopen":
		s.open()
	}
	return nil
}

// retained reports whether version v must still be readable under the rotation setting
// when the current version is cur (only the part of the rule the configuration documents:
// the most recent `recent`+1 versions, and every version when every == 1).
func retained(rot [3]int64, cur, v int64) bool {
	if v < 1 || v > cur {
		return false
	}
	if v >= cur-rot[0] {
		return true
	}
	return rot[1] == 1 && rot[2] == 0
}

type violation struct {
	oracle string
	msg    string
}

// runCase executes the case; a panic inside the store (e.g. IAVL refusing to reopen) is a violation too.
func runCase(c Case) (v *violation) {
	defer func() {
		if r := recover(); r != nil {
			v = &violation{"panic", fmt.Sprintf("the store panicked: %v", r)}
		}
	}()
	return runCase0(c)
}

// runCase0 executes the case on the store, the model and the read-free twin.
func runCase0(c Case) *violation {
	s := newSut(c.Rot, c.Gas)
	twin := newSut(c.Rot, c.Gas)
	m := newModel()

	// the twin skips reads and whole discarded sessions: find which ops belong to a session that is discarded
	skip := make([]bool, len(c.Ops))
	{
		open := -1
		for i, o := range c.Ops {
			switch o.K {
			case "begin":
				if open >= 0 { // re-begin discards the previous session
					for j := open; j < i; j++ {
						skip[j] = true
					}
				}
				open = i
			case "commitS":
				open = -1
			case "discardS", "commit", "reopen":
				if open >= 0 {
					for j := open; j < i; j++ {
						skip[j] = true
					}
					open = -1
				}
				if o.K == "discardS" {
					skip[i] = true
				}
			case "get", "exists", "getv":
				skip[i] = true
			}
		}
		if open >= 0 {
			for j := open; j < len(c.Ops); j++ {
				skip[j] = true
			}
		}
	}

	checkReads := func(step int, o Op) *violation {
		for _, k := range c.Keys {
			want, ok := m.get(k)
			got, err := s.st.Get(storage.StoreKey(k))
			ex := s.st.Exists(storage.StoreKey(k))
			if err != nil {
				return &violation{"read-model", fmt.Sprintf("step %d after %s: Get(%s) error %v", step, o, k, err)}
			}
			if ok {
				if !bytes.Equal(got, []byte(want)) {
					return &violation{"read-model", fmt.Sprintf("step %d after %s: Get(%s)=%q want %q", step, o, k, got, want)}
				}
				if !ex {
					return &violation{"read-model", fmt.Sprintf("step %d after %s: Exists(%s)=false want true", step, o, k)}
				}
			} else {
				if len(got) != 0 {
					return &violation{"read-model", fmt.Sprintf("step %d after %s: Get(%s)=%q on a key that is absent/deleted", step, o, k, got)}
				}
				if ex {
					return &violation{"read-model", fmt.Sprintf("step %d after %s: Exists(%s)=true on a key that is absent/deleted", step, o, k)}
				}
			}
		}
		// iteration is a read as well: it walks the committed keys and must yield exactly those of them that
		// still exist, with their current values (keys that only live in the caches are documented as not iterable)
		for pass := 0; pass < 2; pass++ {
			seen := map[string][]byte{}
			fn := func(k, v []byte) bool {
				seen[string(k)] = append([]byte{}, v...)
				return false
			}
			name := "Iterate"
			if pass == 0 {
				s.st.Iterate(fn)
			} else {
				name = "IterateRange"
				s.st.IterateRange([]byte("a"), []byte("d"), true, fn)
			}
			for k, v := range seen {
				want, ok := m.get(k)
				if !ok {
					return &violation{"iterate-model", fmt.Sprintf("step %d after %s: %s yields key %s (value %q) although it is deleted", step, o, name, k, v)}
				}
				if !bytes.Equal(v, []byte(want)) {
					return &violation{"iterate-model", fmt.Sprintf("step %d after %s: %s yields %s=%q want %q", step, o, name, k, v, want)}
				}
			}
			for k := range m.cur() {
				if _, ok := m.get(k); ok {
					if _, in := seen[k]; !in {
						return &violation{"iterate-model", fmt.Sprintf("step %d after %s: %s misses the committed, still existing key %s", step, o, name, k)}
					}
				}
			}
		}
		return nil
	}
	checkVersions := func(step int, o Op) *violation {
		cur := int64(len(m.versions) - 1)
		if s.cs.Version != cur {
			return &violation{"version", fmt.Sprintf("step %d after %s: version %d want %d", step, o, s.cs.Version, cur)}
		}
		for v := int64(1); v <= cur; v++ {
			if !retained(c.Rot, cur, v) {
				continue
			}
			for _, k := range c.Keys {
				want, ok := m.versions[v][k]
				got := s.st.GetVersioned(v, storage.StoreKey(k))
				if ok && !bytes.Equal(got, []byte(want)) || !ok && len(got) != 0 {
					return &violation{"versioned-read", fmt.Sprintf("step %d after %s: GetVersioned(%d,%s)=%q want %q (present=%v)", step, o, v, k, got, want, ok)}
				}
			}
		}
		return nil
	}

	for i, o := range c.Ops {
		switch o.K {
		case "get", "exists":
			// explicit reads: performed on s (and compared below like any step); nothing for the model
			_, _ = s.st.Get(storage.StoreKey(o.Key))
			_ = s.st.Exists(storage.StoreKey(o.Key))
		case "getv":
			cur := int64(len(m.versions) - 1)
			v := cur - o.Ver
			if retained(c.Rot, cur, v) {
				want, ok := m.versions[v][o.Key]
				got := s.st.GetVersioned(v, storage.StoreKey(o.Key))
				if ok && !bytes.Equal(got, []byte(want)) || !ok && len(got) != 0 {
					return &violation{"versioned-read", fmt.Sprintf("step %d %s: got %q want %q (present=%v)", i, o, got, want, ok)}
				}
			}
		case "set":
			s.apply(o)
			m.set(o.Key, o.Val)
		case "del":
			s.apply(o)
			m.del(o.Key)
		case "begin":
			s.apply(o)
			m.sess = newLayer()
		case "commitS":
			s.apply(o)
			m.commitSession()
		case "discardS":
			s.apply(o)
			m.sess = nil
		case "commit":
			h := s.apply(o)
			m.commit()
			if !bytes.Equal(h, s.cs.Hash) {
				return &violation{"commit-hash", fmt.Sprintf("step %d: Commit returned %x but chain state hash is %x", i, h, s.cs.Hash)}
			}
		case "reopen":
			beforeV, beforeH := s.cs.Version, append([]byte{}, s.cs.Hash...)
			s.apply(o)
			m.reopen()
			if s.cs.Version != beforeV || !bytes.Equal(s.cs.Hash, beforeH) {
				return &violation{"reopen", fmt.Sprintf("step %d: reopen gave version %d hash %x, last commit was version %d hash %x", i, s.cs.Version, s.cs.Hash, beforeV, beforeH)}
			}
		}
		if !skip[i] {
			th := twin.apply(o)
			if o.K == "commit" {
				if !bytes.Equal(th, s.cs.Hash) {
					return &violation{"read-independence", fmt.Sprintf("step %d: commit hash %x differs from the hash %x of a twin that skipped reads and discarded sessions", i, s.cs.Hash, th)}
				}
			}
		}
		if v := checkReads(i, o); v != nil {
			return v
		}
		if o.K == "commit" || o.K == "reopen" {
			if v := checkVersions(i, o); v != nil {
				return v
			}
		}
	}
	return nil
}

// ---- classification -------------------------------------------------------------

func opString(ops []Op) string {
	var sb strings.Builder
	for _, o := range ops {
		sb.WriteString(o.String())
		sb.WriteByte(';')
	}
	return sb.String()
}

// nonTrivial: a delete followed by a read of that key before the next block commit (every
// step reads every key, so: a delete not immediately followed by commit), or a discarded
// session containing a write, or a versioned read of an overwritten key.
func nonTrivial(c Case) (bool, []string) {
	var classes []string
	delRead, discWrite, verOver, reopen := false, false, false, false
	sessWrites := -1
	commits := 0
	for i, o := range c.Ops {
		switch o.K {
		case "del":
			if i+1 < len(c.Ops) || true {
				delRead = true
			}
			if sessWrites >= 0 {
				sessWrites++
			}
		case "set":
			if sessWrites >= 0 {
				sessWrites++
			}
			if commits > 0 {
				verOver = true
			}
		case "begin":
			if sessWrites > 0 {
				discWrite = true
			}
			sessWrites = 0
		case "commitS":
			sessWrites = -1
		case "discardS", "commit", "reopen":
			if sessWrites > 0 {
				discWrite = true
			}
			sessWrites = -1
			if o.K == "commit" {
				commits++
			}
			if o.K == "reopen" {
				reopen = true
			}
		}
	}
	if delRead {
		classes = append(classes, "delete-then-read")
	}
	if discWrite {
		classes = append(classes, "discarded-session-with-write")
	}
	if verOver && commits > 1 {
		classes = append(classes, "versioned-read-of-overwritten-key")
	}
	if reopen {
		classes = append(classes, "reopen")
	}
	return delRead || discWrite || (verOver && commits > 1), classes
}

func sig(v *violation) string { return "C09/" + v.oracle }

// ---- exhaustive enumeration -------------------------------------------------------

func alphabet() []Op {
	return []Op{
		{K: "set", Key: "a", Val: "x"}, {K: "set", Key: "a", Val: "y"}, {K: "set", Key: "b", Val: "x"},
		{K: "del", Key: "a"}, {K: "del", Key: "b"},
		{K: "begin"}, {K: "commitS"}, {K: "discardS"}, {K: "commit"}, {K: "reopen"},
	}
}

func TestMain(m *testing.M) {
	run.Quiet()
	os.Exit(m.Run())
}

func TestC09Exhaustive(t *testing.T) {
	h := run.Start(t, "C09")
	defer h.Finish()
	L := h.Scale(5, 6)
	if v := run.EnvInt("VERIF_C09_LEN", 0); v > 0 {
		L = v
	}
	shard, shards := run.Shard()
	al := alphabet()
	h.SetRule(fmt.Sprintf("all sequences of length %d over %d operations {set a x, set a y, set b x, del a, del b, begin, commit-session, discard-session, block-commit, reopen} (sequences with a session commit/discard while no session is open are pruned as equivalent); every key is read and existence-checked after every step; non-trivial = contains a delete (read before the next commit), a discarded session with a write, or an overwrite after a commit with a later versioned read; distinct by operation string", L, len(al)))
	h.SetExhaustive(shards == 1)
	idx := make([]int, L)
	n := 0
	total := 0
	for {
		// build and validate
		ops := make([]Op, L)
		open := false
		valid := true
		for i, x := range idx {
			ops[i] = al[x]
			switch ops[i].K {
			case "begin":
				open = true
			case "commitS", "discardS":
				if !open {
					valid = false
				}
				open = false
			case "commit", "reopen":
				open = false
			}
		}
		if valid {
			if total%shards == shard {
				c := Case{Rot: [3]int64{1, 0, 0}, Gas: n%2 == 0, Keys: []string{"a", "b"}, Ops: ops}
				nt, classes := nonTrivial(c)
				key := ""
				if nt {
					key = opString(ops)
				}
				var sample interface{}
				if n%9973 == 0 {
					sample = opString(ops)
				}
				h.Eval(key, classes, sample)
				if v := runCase(c); v != nil {
					h.Fail(t, v.oracle, sig(v), c, "%s | ops=%s", v.msg, opString(ops))
				}
				n++
			}
			total++
		}
		// next
		i := L - 1
		for ; i >= 0; i-- {
			idx[i]++
			if idx[i] < len(al) {
				break
			}
			idx[i] = 0
		}
		if i < 0 {
			break
		}
	}
	h.Note(fmt.Sprintf("exhaustive length %d: %d valid sequences in this shard of %d total", L, n, total))
}

// ---- random long sequences ---------------------------------------------------------

func genCase(t *rapid.T, maxOps int) Case {
	rots := [][3]int64{{10, 100, 10}, {0, 1, 0}, {1, 0, 0}, {0, 0, 0}, {2, 3, 1}}
	c := Case{
		Rot:  rots[rapid.IntRange(0, len(rots)-1).Draw(t, "rot")],
		Gas:  rapid.Bool().Draw(t, "gas"),
		Keys: []string{"a", "b", "c", "ab"},
	}
	n := rapid.IntRange(1, maxOps).Draw(t, "n")
	open := false
	vals := []string{"x", "y", "zz", "x\x00", "\xe2\x9b", ""} // never the marker itself: no caller writes it
	for i := 0; i < n; i++ {
		kind := rapid.SampledFrom([]string{"set", "set", "set", "del", "del", "get", "exists", "begin", "commitS", "discardS", "commit", "commit", "reopen", "getv"}).Draw(t, "op")
		o := Op{K: kind}
		switch kind {
		case "set":
			o.Key = rapid.SampledFrom(c.Keys).Draw(t, "k")
			o.Val = rapid.SampledFrom(vals).Draw(t, "v")
		case "del", "get", "exists":
			o.Key = rapid.SampledFrom(c.Keys).Draw(t, "k")
		case "getv":
			o.Key = rapid.SampledFrom(c.Keys).Draw(t, "k")
			o.Ver = int64(rapid.IntRange(0, 12).Draw(t, "ver"))
		case "begin":
			open = true
		case "commitS":
			if !open {
				o.K = "begin"
				open = true
			} else {
				open = false
			}
		case "discardS", "commit", "reopen":
			open = false
		}
		c.Ops = append(c.Ops, o)
	}
	return c
}

func TestC09Random(t *testing.T) {
	h := run.Start(t, "C09")
	defer h.Finish()
	h.SetRule("random operation sequences (1..400 ops, thorough 1..2000) over keys {a,b,c,ab}, 6 values (the empty value included), 5 rotation settings, with and without a gas store; non-trivial as in the exhaustive part; distinct by operation string")
	maxOps := h.Scale(400, 2000)
	rapid.Check(t, func(rt *rapid.T) {
		c := genCase(rt, maxOps)
		nt, classes := nonTrivial(c)
		key := ""
		if nt {
			key = opString(c.Ops)
		}
		var sample interface{}
		if len(c.Ops) < 25 {
			sample = opString(c.Ops)
		}
		h.Eval(key, classes, sample)
		if v := runCase(c); v != nil {
			h.Fail(rt, v.oracle, sig(v), c, "%s | ops=%s", v.msg, opString(c.Ops))
		}
	})
}

// ---- replay -------------------------------------------------------------------------

func TestReplay(t *testing.T) {
	path := run.ReplayFile()
	if path == "" {
		t.Skip("no VERIF_REPLAY")
	}
	f, err := run.LoadFailure(path)
	if err != nil {
		t.Fatal(err)
	}
	var c Case
	if err := json.Unmarshal(f.Case, &c); err != nil {
		t.Fatal(err)
	}
	h := run.Start(t, "C09")
	defer h.Finish()
	if v := runCase(c); v != nil {
		h.Fail(t, v.oracle, sig(v), c, "%s | ops=%s", v.msg, opString(c.Ops))
	}
}

// ---- native fuzz (thorough tier) -----------------------------------------------------

func FuzzC09(f *testing.F) {
	f.Add([]byte{0, 8, 3, 8, 0})
	f.Add([]byte{5, 0, 3, 6, 8, 9, 1})
	f.Add([]byte{5, 3, 7, 8, 2, 8, 4, 8})
	al := alphabet()
	f.Fuzz(func(t *testing.T, data []byte) {
		if len(data) > 64 {
			data = data[:64]
		}
		c := Case{Rot: [3]int64{1, 0, 0}, Gas: true, Keys: []string{"a", "b"}}
		open := false
		for _, b := range data {
			o := al[int(b)%len(al)]
			switch o.K {
			case "begin":
				open = true
			case "commitS", "discardS":
				if !open {
					continue
				}
				open = false
			case "commit", "reopen":
				open = false
			}
			c.Ops = append(c.Ops, o)
		}
		if v := runCase(c); v != nil {
			t.Fatalf("%s | ops=%s", v.msg, opString(c.Ops))
		}
	})
}
