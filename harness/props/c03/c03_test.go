// Package c03: no unauthorised debit — across a block the holdings of an externally owned account
// (balances in every currency, locked + unlocking + withdrawable stake, delegated + undelegating
// amounts, delegation reward claims) decrease only if the account signed a transaction included in
// the block, or is the stake account of a validator whose key signed one, or of a validator found
// guilty by an allegation vote in that block.
package c03

import (
	"bytes"
	"encoding/json"
	"fmt"
	"math/big"
	"os"
	"regexp"
	"sort"
	"strings"
	"testing"

	ethcmn "github.com/ethereum/go-ethereum/common"
	"pgregory.net/rapid"

	"github.com/Oneledger/protocol/action"
	"github.com/Oneledger/protocol/serialize"

	"verif/hist"
	"verif/ledger"
	"verif/run"
	"verif/sim"
	"verif/txgen"
)

func TestMain(m *testing.M) {
	run.Quiet()
	os.Exit(m.Run())
}

// Case is the replay payload: a trace plus, per step and transaction, the addresses of the keys that
// really signed it (hist.Step does not carry them).
type Case struct {
	hist.Trace
	Signers [][][]string `json:"signers"`
}

type outcome struct {
	oracle string
	sig    string
	msg    string
}

type blockFacts struct {
	nonTrivial bool
	key        string
	classes    []string
}

func splitTags(tags []string) []string {
	var out []string
	for _, t := range tags {
		for _, p := range strings.Split(t, ",") {
			if p != "" {
				out = append(out, p)
			}
		}
	}
	return out
}

// suspectTag marks argument classes that make a successful transaction the first suspect.
func suspectTag(t string) bool {
	switch {
	case strings.HasPrefix(t, "amt-neg"), strings.HasPrefix(t, "amt-2^"), t == "signer-other", t == "val-other", t == "val-nonexistent",
		t == "locker-other", t == "payload-signer-other", t == "envelope-signer-swapped", t == "olvm-from-other", t == "signer-missing",
		t == "cur-other", t == "cur-unknown", t == "addr-user", t == "addr-stake", t == "addr-eth":
		return true
	}
	return false
}

func normTag(t string) string {
	switch {
	case strings.HasPrefix(t, "amt-neg"):
		return "amt-neg"
	case strings.HasPrefix(t, "amt-2^"):
		return "amt-huge"
	}
	return t
}

var addrRe = regexp.MustCompile(`0lt[0-9a-f]{40}`)

// msgOf returns the message JSON of a serialised signed transaction.
func msgOf(tx []byte) []byte {
	var stx struct {
		Data []byte `json:"data"`
	}
	if json.Unmarshal(tx, &stx) != nil {
		return nil
	}
	return stx.Data
}

// namedAddrs returns the addresses that appear in the transaction's message.
func namedAddrs(tx []byte) []string {
	m := map[string]bool{}
	for _, a := range addrRe.FindAll(msgOf(tx), -1) {
		m[string(a)] = true
	}
	var out []string
	for a := range m {
		out = append(out, a)
	}
	sort.Strings(out)
	return out
}

// eoas returns the externally owned accounts of the universe: users, stake accounts, validator key
// accounts and the eth users' native addresses (not pools, not the supply counter, not contracts).
func eoas(g *sim.Genesis) map[string]string {
	m := map[string]string{}
	for _, u := range g.U.Users {
		m[u.Addr.String()] = u.Name
	}
	for _, v := range g.U.Vals {
		m[v.Stake.Addr.String()] = v.Stake.Name
		m[v.Key.Addr.String()] = v.Name + "-key"
	}
	for _, e := range g.U.Eth {
		m[e.OLAddr().String()] = e.Name
	}
	return m
}

func in(l []string, x string) bool {
	for _, y := range l {
		if x == y {
			return true
		}
	}
	return false
}

// guiltyValidators returns the validators found guilty in this block: a delayed-unstake (penalty)
// record created in the block, the allegation_tracker end-block event with status GUILTY, or a new
// frozen record with the byzantine-fault status.
func guiltyValidators(prev, cur *ledger.Ledger, res *sim.BlockRes) map[string]string {
	out := map[string]string{}
	known := map[string]bool{}
	for _, u := range prev.Unstakes {
		known[u.Key] = true
	}
	for _, u := range cur.Unstakes {
		if !known[u.Key] {
			out[u.Address] = "penalty-record"
		}
	}
	for _, evs := range [][]eventT{eventsOf(res)} {
		for _, ev := range evs {
			if ev.typ != "allegation_tracker" {
				continue
			}
			var mal string
			status := -1
			for k, v := range ev.attrs {
				switch k {
				case "block.malicious":
					mal = ledger.Owner(v)
				case "block.status":
					if len(v) == 1 {
						status = int(v[0])
					}
				}
			}
			if status == 3 && mal != "" { // evidence.GUILTY
				if _, ok := out[mal]; !ok {
					out[mal] = "verdict-event"
				}
			}
		}
	}
	for a, f := range cur.Frozen {
		if p, was := prev.Frozen[a]; f.Status == 2 && (!was || p.Status != 2 || p.FrozenHeight != f.FrozenHeight) {
			if _, ok := out[a]; !ok {
				out[a] = "frozen-byzantine"
			}
		}
	}
	return out
}

type eventT struct {
	typ   string
	attrs map[string][]byte
}

func eventsOf(res *sim.BlockRes) []eventT {
	var out []eventT
	for _, e := range res.Begin.Events {
		ev := eventT{typ: e.Type, attrs: map[string][]byte{}}
		for _, a := range e.Attributes {
			ev.attrs[string(a.Key)] = a.Value
		}
		out = append(out, ev)
	}
	for _, e := range res.End.Events {
		ev := eventT{typ: e.Type, attrs: map[string][]byte{}}
		for _, a := range e.Attributes {
			ev.attrs[string(a.Key)] = a.Value
		}
		out = append(out, ev)
	}
	return out
}

func bigOf(m map[string]*big.Int, k string) *big.Int {
	if v := m[k]; v != nil {
		return v
	}
	return new(big.Int)
}

// checkBlock applies the C03 oracle to one committed block.
func checkBlock(accounts map[string]string, prev, cur *ledger.Ledger, st hist.Step, signers [][]string, res *sim.BlockRes) (*outcome, blockFacts) {
	var f blockFacts
	h := res.Height

	signed := map[string]bool{}
	for _, s := range signers {
		for _, a := range s {
			signed[a] = true
		}
	}
	// stake accounts of validators whose key signed (fees of validator operations are charged there)
	byValKey := map[string]string{}
	for _, l := range []*ledger.Ledger{prev, cur} {
		for _, v := range l.Vals {
			if signed[v.Address] {
				byValKey[v.Stake] = v.Address
			}
		}
	}
	guilty := guiltyValidators(prev, cur, res)
	byVerdict := map[string]string{}
	for _, l := range []*ledger.Ledger{prev, cur} {
		for _, v := range l.Vals {
			if how, ok := guilty[v.Address]; ok {
				byVerdict[v.Stake] = v.Address + " (" + how + ")"
			}
		}
	}

	hp, hc := prev.AllHoldingsAt(h-1), cur.AllHoldingsAt(h)
	var owners []string
	for o := range accounts {
		owners = append(owners, o)
	}
	sort.Strings(owners)
	matured := map[string]bool{}
	for _, e := range prev.Entries {
		if e.Height == h && e.Amt.Sign() != 0 && (e.Class == ledger.StakeUnlocking || e.Class == ledger.Undelegating || e.Class == ledger.ClaimPending) {
			matured[e.Owner] = true
		}
	}
	for _, o := range owners {
		if cur.Contracts[o] || prev.Contracts[o] {
			continue // an address that carries code is a contract account
		}
		curs := map[string]bool{}
		for c := range hp[o] {
			curs[c] = true
		}
		for c := range hc[o] {
			curs[c] = true
		}
		var cl []string
		for c := range curs {
			cl = append(cl, c)
		}
		sort.Strings(cl)
		for _, c := range cl {
			b, a := bigOf(hp[o], c), bigOf(hc[o], c)
			if a.Cmp(b) >= 0 {
				continue
			}
			switch {
			case signed[o]:
				f.classes = append(f.classes, "debit-authorised:own-signature")
			case byValKey[o] != "":
				f.classes = append(f.classes, "debit-authorised:validator-key-signed")
			case byVerdict[o] != "":
				f.classes = append(f.classes, "debit-authorised:guilty-verdict")
			default:
				who := blame(st, res)
				return &outcome{"unauthorised-debit", "C03/unauthorised-debit/" + who,
					fmt.Sprintf("height %d: %s (%s) holds %s %s less (%s -> %s) although it signed no transaction of the block, is not the stake account of a validator whose key signed one, and no validator it stakes for was found guilty; per class: %s; signers in the block: %v; guilty: %v; transactions: %s",
						h, accounts[o], o, new(big.Int).Sub(b, a), c, b, a, classDiff(prev, cur, o), signerList(signed), guilty, txList(st, res))}, f
			}
		}
		if matured[o] && !signed[o] {
			f.classes = append(f.classes, "owner-with-maturity-only")
		}
	}

	// ---- statistics ----
	var parts []string
	named := false
	for i, t := range res.Txs {
		k := "?"
		if i < len(st.Kinds) {
			k = st.Kinds[i]
		}
		okS := "rej"
		if t.Code == 0 {
			okS = "ok"
		}
		tg := ""
		if i < len(st.Tags) {
			tg = strings.Join(splitTags(st.Tags[i]), ",")
		}
		var sg []string
		if i < len(signers) {
			sg = signers[i]
		}
		namesOther := false
		if i < len(st.Spec.Txs) {
			for _, a := range namedAddrs(st.Spec.Txs[i]) {
				if _, isEOA := accounts[a]; isEOA && !in(sg, a) {
					namesOther = true
				}
			}
		}
		n := ""
		if namesOther {
			named = true
			n = "*"
			f.classes = append(f.classes, "names-non-signer:"+okS+":"+k)
		}
		parts = append(parts, k+n+"["+tg+"]"+okS)
		f.classes = append(f.classes, okS+":"+k)
		if i < len(st.Tags) {
			for _, x := range splitTags(st.Tags[i]) {
				if suspectTag(x) && !strings.HasPrefix(x, "addr-") {
					f.classes = append(f.classes, okS+"-with:"+k+":"+normTag(x))
				}
			}
		}
	}
	for range guilty {
		f.classes = append(f.classes, "hook:guilty-verdict")
	}
	sort.Strings(parts)
	f.nonTrivial = named
	if named {
		f.classes = append(f.classes, "block:names-non-signer")
		f.key = strings.Join(parts, ";")
	}
	return nil, f
}

func signerList(m map[string]bool) []string {
	var out []string
	for a := range m {
		out = append(out, a)
	}
	sort.Strings(out)
	return out
}

func classDiff(prev, cur *ledger.Ledger, o string) string {
	a, b := prev.HoldingsByClass(o), cur.HoldingsByClass(o)
	ks := map[string]bool{}
	for k := range a {
		ks[k] = true
	}
	for k := range b {
		ks[k] = true
	}
	var sorted []string
	for k := range ks {
		sorted = append(sorted, k)
	}
	sort.Strings(sorted)
	var out []string
	for _, k := range sorted {
		x, y := bigOf(a, k), bigOf(b, k)
		if x.Cmp(y) != 0 {
			out = append(out, fmt.Sprintf("%s %s -> %s", k, x, y))
		}
	}
	return strings.Join(out, "; ")
}

func txList(st hist.Step, res *sim.BlockRes) string {
	var out []string
	for i, t := range res.Txs {
		k, tg := "?", ""
		if i < len(st.Kinds) {
			k = st.Kinds[i]
		}
		if i < len(st.Tags) {
			tg = strings.Join(splitTags(st.Tags[i]), ",")
		}
		okS := "ok"
		if t.Code != 0 {
			okS = "rej"
		}
		out = append(out, k+"["+tg+"]"+okS)
	}
	if len(out) == 0 {
		return "none"
	}
	return strings.Join(out, " ")
}

// blame names the transaction class most likely responsible as "<KIND>/<detail>".
func blame(st hist.Step, res *sim.BlockRes) string {
	var suspect, ok []string
	for i, t := range res.Txs {
		if t.Code != 0 || i >= len(st.Kinds) {
			continue
		}
		ok = append(ok, st.Kinds[i]+"/-")
		if i < len(st.Tags) {
			var tg []string
			for _, x := range splitTags(st.Tags[i]) {
				if suspectTag(x) && !strings.HasPrefix(x, "addr-") {
					tg = append(tg, normTag(x))
				}
			}
			if len(tg) > 0 {
				sort.Strings(tg)
				suspect = append(suspect, st.Kinds[i]+"/"+tg[0])
			}
		}
	}
	pick := func(l []string) string {
		sort.Strings(l)
		return l[0]
	}
	if len(suspect) > 0 {
		return pick(suspect)
	}
	if len(ok) > 0 {
		return pick(ok)
	}
	return "hooks"
}

// execute runs a case on ONE replica and checks every committed block.
func execute(h *run.H, c *Case, draw func(w *hist.World, i int) (hist.Step, []txgen.Tx, bool), onBlock func(blockFacts)) *outcome {
	w, err := hist.NewWorld(c.Params, c.Roles[:1])
	if err != nil {
		return &outcome{"harness", "C03/harness", "cannot build world: " + err.Error()}
	}
	defer w.Close()
	if _, err := w.Init(); err != nil {
		return &outcome{"harness", "C03/harness", "InitChain: " + err.Error()}
	}
	accounts := eoas(w.G)
	prev, err := ledger.Decode(w.R[0].DumpMap())
	if err != nil {
		return &outcome{"decode", "C03/decode/genesis", "genesis state: " + err.Error()}
	}
	for i := 0; ; i++ {
		var st hist.Step
		var txs []txgen.Tx
		if draw != nil {
			s, t, ok := draw(w, i)
			if !ok {
				break
			}
			st, txs = s, t
			c.Steps = append(c.Steps, st)
			var sg [][]string
			for _, tx := range txs {
				sg = append(sg, tx.Signers)
			}
			c.Signers = append(c.Signers, sg)
			h.Journal(c)
		} else {
			if i >= len(c.Steps) {
				break
			}
			st = c.Steps[i]
		}
		if st.Kind != "block" {
			continue
		}
		var signers [][]string
		if i < len(c.Signers) {
			signers = c.Signers[i]
		}
		_, res := w.RunBlock(*st.Spec)
		if w.R[0].Panicked {
			return &outcome{"node-panic", "C03/node-panic/" + strings.Join(uniq(st.Kinds), "+"),
				fmt.Sprintf("the application panicked in %s at height %d (kinds %v, tags %v) and shut itself down", w.R[0].PanicCall, w.C.Height, st.Kinds, st.Tags)}
		}
		if dbg := os.Getenv("VERIF_DEBUG_TAG"); dbg != "" {
			for k, t := range res[0].Txs {
				if k < len(st.Tags) && in(splitTags(st.Tags[k]), dbg) {
					fmt.Fprintf(os.Stderr, "h=%d %s %v code=%d log=%.300s\n", w.C.Height, st.Kinds[k], st.Tags[k], t.Code, t.Log)
				}
			}
		}
		cur, err := ledger.Decode(w.R[0].DumpMap())
		if err != nil {
			return &outcome{"decode", "C03/decode", fmt.Sprintf("height %d: %v", w.C.Height, err)}
		}
		out, facts := checkBlock(accounts, prev, cur, st, signers, res[0])
		if out != nil {
			return out
		}
		if onBlock != nil {
			onBlock(facts)
		}
		if txs != nil {
			w.Observe(txs, res[0])
		}
		prev = cur
	}
	return nil
}

func uniq(l []string) []string {
	m := map[string]bool{}
	var out []string
	for _, x := range l {
		if !m[x] {
			m[x] = true
			out = append(out, x)
		}
	}
	sort.Strings(out)
	return out
}

// ---- generation ----

func olvmData(tx []byte) []byte {
	var m struct {
		Data []byte `json:"data"`
	}
	if json.Unmarshal(msgOf(tx), &m) != nil {
		return nil
	}
	return m.Data
}

// excludedTx reports whether a drawn transaction belongs to a class excluded by a known finding.
// zeroPowerRestake reports whether tx is a STAKE on a validator whose committed record has no power, or
// that has no record while the delegation store still holds a locked total for it (known finding owned
// by C11: the block end deletes such a record, a later UNSTAKE drives the new record negative and the
// negative total power kills the node in the fee distribution).
func zeroPowerRestake(w *hist.World, tx txgen.Tx) bool {
	if tx.Kind != "STAKE" || w == nil {
		return false
	}
	var m struct {
		ValidatorAddress string
	}
	if json.Unmarshal(msgBytes(tx.Bytes), &m) != nil || m.ValidatorAddress == "" {
		return false
	}
	for _, r := range w.ValRecs() {
		if r.Address.String() == m.ValidatorAddress {
			return r.Power <= 0
		}
	}
	return hist.ParseAmt(w.Get("st__t_"+m.ValidatorAddress)).Sign() > 0
}

func msgBytes(tx []byte) []byte {
	var stx struct {
		Data []byte `json:"data"`
	}
	if json.Unmarshal(tx, &stx) != nil {
		return nil
	}
	return stx.Data
}

func excludedTx(h *run.H, w *hist.World, tx txgen.Tx) bool {
	if zeroPowerRestake(w, tx) && h.Excluded("STAKE:zero-power-record") {
		return true
	}
	if tx.Kind == "OLVM" && bytes.HasSuffix(olvmData(tx.Bytes), []byte{0x33, 0xff}) && h.Excluded("OLVM:selfdestruct-contract") {
		return true
	}
	for _, t := range splitTags(tx.Tags) {
		cands := []string{tx.Kind + ":" + t}
		if strings.HasPrefix(t, "amt-neg") && t != "amt-neg" {
			cands = append(cands, tx.Kind+":amt-neg")
		}
		if strings.HasPrefix(t, "amt-2^") {
			cands = append(cands, tx.Kind+":amt-huge")
		}
		for _, c := range cands {
			if h.Excluded(c) {
				return true
			}
		}
	}
	return false
}

// swapEnvelopeSigner replaces the public key of the first signature by victim's, keeping the signature
// bytes: the envelope now claims a signer that never signed.
func swapEnvelopeSigner(tx txgen.Tx, victim *sim.User) (txgen.Tx, bool) {
	stx := &action.SignedTx{}
	szr := serialize.GetSerializer(serialize.NETWORK)
	if err := szr.Deserialize(tx.Bytes, stx); err != nil || len(stx.Signatures) == 0 {
		return tx, false
	}
	stx.Signatures[0].Signer = victim.Pub
	b, err := szr.Serialize(stx)
	if err != nil {
		return tx, false
	}
	out := tx
	out.Bytes = b
	out.Tags = append(append([]string{}, tx.Tags...), "envelope-signer-swapped")
	return out, true
}

// substituted draws a transaction whose payload (or envelope) names somebody else's account in a field
// the shared generator always fills consistently with the signer.
func substituted(g *hist.Gen, u *hist.U) (txgen.Tx, bool) {
	w := g.W
	users := w.G.U.Users
	attacker := users[u.N(len(users), "sub-attacker")]
	switch u.N(3, "sub-kind") {
	case 0: // WITHDRAW_REWARD naming the validator's stake account (or any account) as "signer address"
		recs := w.ValRecs()
		if len(recs) == 0 {
			return txgen.Tx{}, false
		}
		r := recs[u.N(len(recs), "sub-val")]
		victim := r.StakeAddress
		if u.N(4, "sub-victim-user") == 0 {
			victim = users[u.N(len(users), "sub-victim")].Addr
		}
		amt, tag := big.NewInt(int64(1+u.N(3, "sub-amt"))), "amt-ok"
		switch u.N(4, "sub-amt-kind") {
		case 0:
			amt, tag = big.NewInt(-int64(1+u.N(1000, "sub-neg"))), "amt-neg"
		case 1:
			amt, tag = big.NewInt(0), "amt-zero"
		}
		tx := txgen.WithdrawReward(r.Address, victim, txgen.Amt("OLT", amt), w.Fee, w.Memo(), attacker)
		tx.Tags = []string{"payload-signer-other", tag}
		return tx, true
	case 1: // OLVM transfer whose From is not the key that signed
		eth := w.G.U.Eth
		e := eth[u.N(len(eth), "sub-eth")]
		from := eth[u.N(len(eth), "sub-from")].OLAddr()
		if u.N(2, "sub-from-user") == 0 {
			from = users[u.N(len(users), "sub-from-u")].Addr
		}
		if from.Equal(e.OLAddr()) {
			return txgen.Tx{}, false
		}
		to := ethcmn.BytesToAddress(e.OLAddr())
		tx := txgen.OLVM(e, txgen.OLVMArgs{ChainID: w.P.ChainID, Nonce: w.OlvmNext[e.Name], To: &to, Value: big.NewInt(int64(1 + u.N(100000, "sub-value"))),
			Fee: txgen.Fee{Price: big.NewInt(1000000000), Cur: "OLT", Gas: 21000}, FromAddr: &from})
		tx.Signers = []string{e.OLAddr().String()} // the key that really signed
		tx.Tags = []string{"olvm-from-other"}
		return tx, true
	default: // any generated transaction with the envelope's first public key replaced
		tx := g.Draw()
		if tx.Kind == "OLVM" {
			return txgen.Tx{}, false
		}
		victim := users[u.N(len(users), "sub-env-victim")]
		if u.N(3, "sub-env-stake") == 0 {
			victim = w.G.U.Vals[u.N(len(w.G.U.Vals), "sub-env-val")].Stake
		}
		if in(tx.Signers, victim.Addr.String()) {
			return txgen.Tx{}, false
		}
		return swapEnvelopeSigner(tx, victim)
	}
}

// drawTxs draws the next block's transactions: the shared generator's draws (single and bursts) plus,
// now and then, a substituted one; draws of classes excluded by a known finding are dropped.
func drawTxs(h *run.H, g *hist.Gen, u *hist.U, max int) []txgen.Tx {
	var out []txgen.Tx
	for _, tx := range g.DrawTxs(max) {
		if u.N(100, "sub") < 12 {
			if s, ok := substituted(g, u); ok && !excludedTx(h, g.W, s) {
				out = append(out, s)
			}
		}
		if !excludedTx(h, g.W, tx) {
			out = append(out, tx)
		}
	}
	return out
}

const rule = "generated genesis configuration x block history (all transaction families, 9 focus profiles, 30% of the signer / address / asset choices are somebody else's, 20-30% hostile amounts, plus transactions whose payload or signature envelope names an account that did not sign: WITHDRAW_REWARD signer address, OLVM from, swapped first public key) on one replica; the unit is one committed block: per externally owned account (users, stake accounts, validator key accounts, eth users) and currency the holdings decoded from the dump before and after may only decrease if the account's key signed a transaction of the block, or it is the stake account of a validator whose key signed one or that was found guilty in the block; non-trivial = the block contains at least one transaction whose message names an externally owned account that did not sign it; distinct by the multiset of (kind, named-non-signer flag, value-class tags, success) of the block"

func TestC03(t *testing.T) {
	h := run.Start(t, "C03")
	defer h.Finish()
	h.SetRule(rule)
	maxBlocks := h.Scale(30, 60)
	rapid.Check(t, func(rt *rapid.T) {
		p := hist.GenParams(rt, fmt.Sprint(h.Seed))
		prof := hist.PickProfile(rt)
		u := hist.NewU(rt)
		hostile := []int{20, 25, 30}[u.N(3, "hostile")]
		c := &Case{Trace: hist.Trace{Params: p, Roles: hist.Roles(p, 1), Profile: prof}}
		nb := rapid.IntRange(4, maxBlocks).Draw(rt, "nblocks")
		var g *hist.Gen
		blocks := 0
		h.Class("history", 1)
		h.Class("profile-"+prof, 1)
		out := execute(h, c, func(w *hist.World, i int) (hist.Step, []txgen.Tx, bool) {
			if g == nil {
				g = &hist.Gen{W: w, T: rt, Hostile: hostile, Strange: 30, Kinds: hist.Profiles[prof], Excl: h.Excluded, Seen: map[string]int{}, TagsN: map[string]int{}}
			}
			if blocks >= nb {
				return hist.Step{}, nil, false
			}
			txs := drawTxs(h, g, u, 5)
			spec := g.DrawEnv(txs)
			blocks++
			return hist.BlockStep(spec, txs), txs, true
		}, func(f blockFacts) {
			key := ""
			if f.nonTrivial {
				key = f.key
			}
			h.Eval(key, f.classes, map[string]interface{}{"profile": prof, "validators": len(p.ValPower), "fork": p.Frankenstein, "block": f.key})
		})
		if out != nil {
			h.Fail(rt, out.oracle, out.sig, c, "%s", out.msg)
		}
	})
}

func TestReplay(t *testing.T) {
	path := run.ReplayFile()
	if path == "" {
		t.Skip("no VERIF_REPLAY")
	}
	f, err := run.LoadFailure(path)
	if err != nil {
		t.Fatal(err)
	}
	var c Case
	if err := json.Unmarshal(f.Case, &c); err != nil {
		t.Fatal(err)
	}
	if len(c.Roles) == 0 {
		c.Roles = hist.Roles(c.Params, 1)
	}
	h := run.Start(t, "C03")
	defer h.Finish()
	if out := execute(h, &c, nil, nil); out != nil {
		h.Fail(t, out.oracle, out.sig, &c, "%s", out.msg)
	}
}
