package c03

import (
	"encoding/json"
	"math/big"
	"os"
	"path/filepath"
	"testing"

	agov "github.com/Oneledger/protocol/action/governance"
	"github.com/Oneledger/protocol/data/balance"
	"github.com/Oneledger/protocol/data/governance"

	"verif/hist"
	"verif/run"
	"verif/sim"
	"verif/txgen"
)

// TestMakeSeeds writes hand-built minimal cases as replay files (run with VERIF_MAKE_SEEDS=<dir>).
func TestMakeSeeds(t *testing.T) {
	dir := os.Getenv("VERIF_MAKE_SEEDS")
	if dir == "" {
		t.Skip("VERIF_MAKE_SEEDS not set")
	}
	_ = os.MkdirAll(dir, 0o755)

	// PROPOSAL_WITHDRAW_FUNDS with a negative amount naming another user as beneficiary: the beneficiary,
	// who signed nothing, was debited (repaired in /repo by d01f7bb; regression input that must pass)
	{
		p := sim.DefaultParams()
		p.Seed = "seed-withdraw-funds-negative"
		g := sim.BuildGenesis(p)
		u := g.U.Users
		fee := txgen.DefaultFee()
		c := &Case{Trace: hist.Trace{Params: p, Roles: hist.Roles(p, 1), Profile: "hand:withdraw-funds-negative"}}
		block := func(tags [][]string, txs ...txgen.Tx) {
			spec := sim.BlockSpec{GapSecs: 5}
			var sg [][]string
			for i := range txs {
				spec.Txs = append(spec.Txs, txs[i].Bytes)
				if i < len(tags) {
					txs[i].Tags = tags[i]
				}
				sg = append(sg, txs[i].Signers)
			}
			c.Steps = append(c.Steps, hist.BlockStep(spec, txs))
			c.Signers = append(c.Signers, sg)
		}
		block(nil)
		id := txgen.ProposalID("seed-p1")
		initial, _ := new(big.Int).SetString(p.PropInitialFunding, 10)
		goal, _ := new(big.Int).SetString(p.PropFundingGoal, 10)
		m := agov.CreateProposal{ProposalID: id, ProposalType: governance.ProposalTypeGeneral, Headline: "h", Description: "d", Proposer: u[0].Addr,
			InitialFunding: txgen.Amt("OLT", initial), FundingDeadline: 3, FundingGoal: balance.NewAmountFromBigInt(goal),
			VotingDeadline: 3 + p.PropVotingDL, PassPercentage: p.PropPassPct}
		block([][]string{{"amt-ok"}}, txgen.ProposalCreate(u[0], m, fee, "m1"))
		block(nil)
		block([][]string{{"amt-neg", "addr-user", "cur-ok"}}, txgen.ProposalWithdrawFunds(u[0], id, u[0].Addr, u[1].Addr, txgen.Amt("OLT", big.NewInt(-1000)), fee, "m2"))
		block(nil)
		write(t, dir, "fixed-withdraw-funds-negative-debits-beneficiary.json", "unauthorised-debit", "C03/unauthorised-debit/PROPOSAL_WITHDRAW_FUNDS/amt-neg", c)
	}
}

func write(t *testing.T, dir, name, oracle, sig string, c *Case) {
	cb, _ := json.Marshal(c)
	f := run.Failure{Property: "C03", Test: "TestReplay", Oracle: oracle, Message: "hand-built minimal case", Sig: sig, Case: cb}
	b, _ := json.MarshalIndent(f, "", " ")
	if err := os.WriteFile(filepath.Join(dir, name), b, 0o644); err != nil {
		t.Fatal(err)
	}
}
