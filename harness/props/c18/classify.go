package c18

import (
	"encoding/hex"
	"encoding/json"
	"strings"

	ethcmn "github.com/ethereum/go-ethereum/common"
	ethtypes "github.com/ethereum/go-ethereum/core/types"
	ethcrypto "github.com/ethereum/go-ethereum/crypto"
	"github.com/ethereum/go-ethereum/rlp"

	"github.com/Oneledger/protocol/action"
	"github.com/Oneledger/protocol/external_apps/bid/bid_action"
	"github.com/Oneledger/protocol/external_apps/bid/bid_data"

	"verif/sim"
)

// Root-cause classes of confirmed crashers. A known finding excludes exactly one of them; the
// generator recognises the class on the finished input (whatever tier produced it) and redraws.

var (
	sigLock      = "f83d08ba"
	sigRedeem    = "db006a75"
	sigTransfer  = "a9059cbb"
	sigErcRedeem = hex.EncodeToString(ethcrypto.Keccak256([]byte("redeem(uint256,address)"))[:4])
)

func afterSig(raw []byte, sig string) (string, bool) {
	ss := strings.Split(hex.EncodeToString(raw), sig)
	if len(ss) < 2 {
		return "", false
	}
	return ss[1], true
}

func decodeEth(raw []byte) *ethtypes.Transaction {
	tx := &ethtypes.Transaction{}
	if rlp.DecodeBytes(raw, tx) != nil {
		return nil
	}
	return tx
}

// rootClasses returns the crash classes ("KIND:class") the input falls in.
func rootClasses(b []byte) []string {
	// like the application, keep whatever a failing decode filled in (it only logs the error and goes on)
	stx := &action.SignedTx{}
	_ = json.Unmarshal(b, stx)
	var out []string
	var msg map[string]json.RawMessage
	_ = json.Unmarshal(stx.Data, &msg)
	ethTxn := func() ([]byte, bool) {
		var m struct{ ETHTxn []byte }
		if json.Unmarshal(stx.Data, &m) != nil {
			return nil, false
		}
		return m.ETHTxn, true
	}
	isNull := func(field string) bool {
		v, ok := msg[field]
		return !ok || strings.TrimSpace(string(v)) == "null"
	}
	switch stx.Type {
	case action.ETH_REDEEM:
		if raw, ok := ethTxn(); ok && raw != nil {
			if _, has := afterSig(raw, sigRedeem); !has {
				out = append(out, "ETH_REDEEM:ethtxn-without-method-signature")
			}
		}
	case action.ERC20_REDEEM:
		if raw, ok := ethTxn(); ok && raw != nil {
			if rest, has := afterSig(raw, sigErcRedeem); !has || len(rest) < 128 {
				out = append(out, "ERC20_REDEEM:ethtxn-without-method-signature-or-short")
			}
		}
	case action.ETH_LOCK:
		if raw, ok := ethTxn(); ok {
			if tx := decodeEth(raw); tx != nil && tx.To() == nil && hex.EncodeToString(tx.Data()) == sigLock {
				out = append(out, "ETH_LOCK:eth-contract-creation")
			}
		}
	case action.ERC20_LOCK:
		if raw, ok := ethTxn(); ok {
			if tx := decodeEth(raw); tx != nil {
				switch {
				case tx.To() == nil:
					out = append(out, "ERC20_LOCK:eth-contract-creation")
				case *tx.To() == sim.TestTokenContract:
					rest, has := afterSig(raw, sigTransfer)
					if !has || len(rest) < 128 {
						out = append(out, "ERC20_LOCK:ethtxn-without-method-signature-or-short")
					} else if ethcmn.HexToAddress(rest[24:64]) != sim.ERCLockContract {
						out = append(out, "ERC20_LOCK:receiver-not-lock-contract")
					}
				}
			}
		}
	case action.OLVM:
		if len(stx.Signatures) == 1 && len(stx.Signatures[0].Signed) != 65 {
			out = append(out, "OLVM:signature-size")
		}
		if isNull("chainID") {
			out = append(out, "OLVM:chainID=null")
		}
		var m struct{ Data []byte }
		if json.Unmarshal(stx.Data, &m) == nil && usesOpcode(m.Data, 0x48) {
			out = append(out, "OLVM:basefee")
		}
	case action.PROPOSAL_CREATE:
		if isNull("fundingGoal") {
			out = append(out, "PROPOSAL_CREATE:fundingGoal-nil")
		}
	case bid_action.BID_CREATE:
		var m struct {
			BidConvId string `json:"bidConvId"`
			AssetType int64  `json:"assetType"`
		}
		if json.Unmarshal(stx.Data, &m) == nil && m.BidConvId == "" && m.AssetType != int64(bid_data.BidAssetOns) && m.AssetType != int64(bid_data.BidAssetExample) {
			out = append(out, "BID_CREATE:assetType-unknown")
		}
	}
	return out
}

// usesOpcode scans EVM code linearly (skipping push data) for an opcode.
func usesOpcode(code []byte, op byte) bool {
	for i := 0; i < len(code); i++ {
		c := code[i]
		if c == op {
			return true
		}
		if c >= 0x60 && c <= 0x7f {
			i += int(c-0x60) + 1
		}
	}
	return false
}

// excludedInput reports whether a known finding excludes the input, and under which tag.
func excludedInput(b []byte, excl func(string) bool) (string, bool) {
	if excl == nil {
		return "", false
	}
	for _, c := range rootClasses(b) {
		if excl(c) {
			return c, true
		}
	}
	return "", false
}
