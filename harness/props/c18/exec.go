package c18

import (
	"fmt"
	"math/big"
	"strings"
	"time"

	abci "github.com/tendermint/tendermint/abci/types"

	"verif/hist"
	"verif/sim"
	"verif/txgen"
)

// Case is the replay payload: a farm (deterministic warmed-up world) and the inputs executed on it,
// or (mode "history") a generated trace.
type Case struct {
	Mode   string         `json:"mode"` // inputs | history
	Seed   string         `json:"seed,omitempty"`
	Opts   hist.FarmOpts  `json:"opts"`
	Inputs []Input        `json:"inputs,omitempty"`
	Trace  *hist.Trace    `json:"trace,omitempty"`
	Note   map[string]int `json:"-"`
}

type verdict struct {
	oracle string
	class  string
	msg    string
}

func (v *verdict) sig() string { return "C18/" + v.oracle + "/" + v.class }

func classOf(in Input) string {
	if rc := rootClasses(in.Bytes); len(rc) > 0 {
		return rc[0]
	}
	t := strings.Join(in.Tags, ",")
	if len(t) > 120 {
		t = t[:120]
	}
	return in.Kind + ":" + t
}

// pair is the subject node and the control node that never sees a hostile input.
type pair struct {
	S, C   *hist.Farm
	probeN int
	prefix []string
}

const probeUser = 7 // reserved: never signs a hostile input
const probeDest = 6

func newFarm(seed string, o hist.FarmOpts) (*hist.Farm, error) {
	p := hist.PrepareFarmParams(hist.FarmParams(seed), o)
	p.PropVotingDL = 60 // the farm's "vote" proposal stays in its voting period while the inputs run
	w, err := hist.NewWorld(p, []sim.Role{{ValIdx: 0, IsWitness: true}})
	if err != nil {
		return nil, err
	}
	if _, err := w.Init(); err != nil {
		w.Close()
		return nil, err
	}
	f := hist.BuildFarm(w, o)
	return f, nil
}

func newPair(seed string, o hist.FarmOpts, control bool) (*pair, error) {
	s, err := newFarm(seed, o)
	if err != nil {
		return nil, err
	}
	p := &pair{S: s, prefix: s.PrefixFail}
	if o.Restart && !s.W.R[0].Panicked {
		// the subject was restarted since the prefix ran (real Prepare() on its data directory); a harness-side
		// failure of the copy leaves the running incarnation in place
		if nr, rerr := sim.Restart(s.W.R[0], s.W.C, "c18rs"); rerr == nil {
			s.W.R[0] = nr
		}
	}
	if control {
		c, err := newFarm(seed, o)
		if err != nil {
			s.W.Close()
			return nil, err
		}
		p.C = c
	}
	return p, nil
}

func (p *pair) close() {
	p.S.W.Close()
	if p.C != nil {
		p.C.W.Close()
	}
}

// passedValidate tells from the shape of a CheckTx response whether the handler's Validate accepted
// the transaction: a Validate error is returned as the bare error text, anything later goes through
// marshalLog (empty or a JSON object) and carries the fee handler's gas figures.
func passedValidate(r abci.ResponseCheckTx) bool {
	if r.Code == 0 {
		return true
	}
	return r.Log == "" || strings.HasPrefix(r.Log, "{") || r.GasUsed != 0 || r.GasWanted != 0
}

type inputResult struct {
	passedValidate bool
	checkCode      uint32
	deliverCode    uint32
}

// runInput executes one hostile input on the subject (mempool check, then a block containing it)
// followed by the probe on subject and control. It returns the first violation.
func (p *pair) runInput(in Input) (*verdict, inputResult) {
	var ir inputResult
	S := p.S.W.R[0]
	cls := classOf(in)
	ck := S.CheckTx(in.Bytes)
	if S.Panicked {
		return &verdict{"node-panic", cls, fmt.Sprintf("the application panicked in CheckTx of a %s input (tier %s, tags %v) and shut itself down", in.Kind, in.Tier, in.Tags)}, ir
	}
	ir.passedValidate = passedValidate(ck)
	ir.checkCode = ck.Code
	b, res := p.S.W.RunBlock(sim.BlockSpec{GapSecs: 5, Txs: [][]byte{in.Bytes}})
	if S.Panicked {
		return &verdict{"node-panic", cls, fmt.Sprintf("the application panicked in %s of block %d carrying a %s input (tier %s, tags %v; CheckTx had answered code %d %.200q) and shut itself down", S.PanicCall, b.Height, in.Kind, in.Tier, in.Tags, ck.Code, ck.Log)}, ir
	}
	if len(res[0].Txs) > 0 {
		ir.deliverCode = res[0].Txs[0].Code
	}
	if p.C != nil {
		p.C.W.RunBlock(sim.BlockSpec{GapSecs: 5})
	}
	return p.probe(in, cls), ir
}

// probe: a fresh valid SEND through CheckTx and in a block, then Info; the answers must be those of the control node.
func (p *pair) probe(in Input, cls string) *verdict {
	p.probeN++
	mk := func(f *hist.Farm) txgen.Tx {
		u := f.W.G.U.Users
		return txgen.Send(u[probeUser], u[probeUser].Addr, u[probeDest].Addr, txgen.Amt("OLT", big.NewInt(1000+int64(p.probeN))), f.W.Fee, fmt.Sprintf("probe-%d", p.probeN))
	}
	// a staking-family transaction rides along: it must come back (store locks leaked by the input
	// would block it or the block end); its result code is not compared, the input may have changed the stake
	mkStake := func(f *hist.Farm) txgen.Tx {
		v := f.W.G.U.Vals[2]
		if p.probeN%2 == 1 {
			return txgen.Stake(v, v.Stake.Addr, txgen.Amt("OLT", big.NewInt(1)), f.W.Fee, fmt.Sprintf("probe-stake-%d", p.probeN))
		}
		return txgen.Unstake(v.Key.Addr, v.Stake.Addr, txgen.Amt("OLT", big.NewInt(1)), f.W.Fee, fmt.Sprintf("probe-unstake-%d", p.probeN), v.Stake, v.Key)
	}
	S := p.S.W.R[0]
	tx := mk(p.S)
	stk := mkStake(p.S)
	ck := S.CheckTx(tx.Bytes)
	if !S.Panicked {
		S.CheckTx(stk.Bytes)
	}
	if S.Panicked {
		return &verdict{"node-panic", cls, fmt.Sprintf("after a %s input (tags %v) the probe's CheckTx made the application panic", in.Kind, in.Tags)}
	}
	b, res := p.S.W.RunBlock(sim.BlockSpec{GapSecs: 5, Txs: [][]byte{tx.Bytes, stk.Bytes}})
	if S.Panicked {
		return &verdict{"node-panic", cls, fmt.Sprintf("after a %s input (tags %v) the probe block %d made the application panic in %s", in.Kind, in.Tags, b.Height, S.PanicCall)}
	}
	info := S.Info()
	if S.Panicked {
		return &verdict{"node-panic", cls, fmt.Sprintf("after a %s input (tags %v) Info made the application panic", in.Kind, in.Tags)}
	}
	if ck.Code != 0 || len(res[0].Txs) != 2 || res[0].Txs[0].Code != 0 {
		dl := ""
		dc := uint32(99)
		if len(res[0].Txs) >= 1 {
			dl, dc = res[0].Txs[0].Log, res[0].Txs[0].Code
		}
		return &verdict{"probe-failed", cls, fmt.Sprintf("after a %s input (tier %s, tags %v) a fresh valid SEND from an untouched account no longer succeeds: CheckTx code %d %.200q, DeliverTx code %d %.200q", in.Kind, in.Tier, in.Tags, ck.Code, ck.Log, dc, dl)}
	}
	if info.LastBlockHeight != b.Height || len(info.LastBlockAppHash) == 0 {
		return &verdict{"probe-failed", cls, fmt.Sprintf("after a %s input (tags %v) Info reports height %d (block %d was committed), app hash %x", in.Kind, in.Tags, info.LastBlockHeight, b.Height, info.LastBlockAppHash)}
	}
	if p.C != nil {
		C := p.C.W.R[0]
		ctx := mk(p.C)
		cstk := mkStake(p.C)
		cck := C.CheckTx(ctx.Bytes)
		C.CheckTx(cstk.Bytes)
		_, cres := p.C.W.RunBlock(sim.BlockSpec{GapSecs: 5, Txs: [][]byte{ctx.Bytes, cstk.Bytes}})
		if cck.Code != 0 || len(cres[0].Txs) != 2 || cres[0].Txs[0].Code != 0 {
			return &verdict{"harness", "control", fmt.Sprintf("the probe fails on the control node: %d %q", cck.Code, cck.Log)}
		}
		s, c := res[0].Txs[0], cres[0].Txs[0]
		if ck.GasUsed != cck.GasUsed || ck.GasWanted != cck.GasWanted || s.GasUsed != c.GasUsed || s.GasWanted != c.GasWanted {
			return &verdict{"probe-differs", cls, fmt.Sprintf("after a %s input (tier %s, tags %v) the probe answers differently from the control node that never saw the input: CheckTx gas %d/%d vs %d/%d, DeliverTx gas %d/%d vs %d/%d",
				in.Kind, in.Tier, in.Tags, ck.GasUsed, ck.GasWanted, cck.GasUsed, cck.GasWanted, s.GasUsed, s.GasWanted, c.GasUsed, c.GasWanted)}
		}
	}
	return nil
}

// ---- watchdog: "keeps serving" also means the calls come back ----

// caseTimeout bounds the ABCI calls of one input (mempool check, its block, the probe block, Info). They
// take milliseconds; the bound is generous because the machine may be heavily loaded. It is a guard, not
// an oracle: only a timeout that reproduces on a fresh node with twice the bound is reported.
var caseTimeout = 120 * time.Second

// guarded runs f in its own goroutine and reports whether it returned within d. A goroutine stuck inside
// the application cannot be killed; it is abandoned together with its node.
func guarded(d time.Duration, f func()) bool {
	done := make(chan struct{})
	go func() {
		defer close(done)
		f()
	}()
	select {
	case <-done:
		return true
	case <-time.After(d):
		return false
	}
}

// rerunInputs executes the inputs on a fresh pair with the doubled bound; it returns the pair and the
// index of the input that did not come back (-1 if all did), or the verdict of an input that violated.
func rerunInputs(seed string, o hist.FarmOpts, inputs []Input) (*pair, int, *verdict, error) {
	p, err := newPair(seed, o, true)
	if err != nil {
		return nil, -1, nil, err
	}
	for i, in := range inputs {
		var v *verdict
		if !guarded(2*caseTimeout, func() { v, _ = p.runInput(in) }) {
			return p, i, nil, nil
		}
		if v != nil {
			return p, -1, v, nil
		}
	}
	return p, -1, nil, nil
}
