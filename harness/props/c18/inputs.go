// Package c18: no transaction input can crash or halt the node.
//
// inputs.go builds the hostile inputs: raw byte strings (tier a) and structurally valid,
// correctly signed transactions of every kind whose fields come from hostile pools (tier b).
package c18

import (
	"bytes"
	"encoding/base64"
	"encoding/hex"
	"encoding/json"
	"fmt"
	"math/big"
	"sort"
	"strings"

	ethcmn "github.com/ethereum/go-ethereum/common"
	ethtypes "github.com/ethereum/go-ethereum/core/types"
	ethcrypto "github.com/ethereum/go-ethereum/crypto"
	"github.com/ethereum/go-ethereum/rlp"

	"github.com/Oneledger/protocol/action"
	"github.com/Oneledger/protocol/data/balance"
	"github.com/Oneledger/protocol/data/keys"
	"github.com/Oneledger/protocol/external_apps/bid/bid_action"
	"github.com/Oneledger/protocol/external_apps/bid/bid_data"
	"github.com/Oneledger/protocol/serialize"
	"github.com/Oneledger/protocol/utils"

	"verif/hist"
	"verif/sim"
	"verif/txgen"
)

// Input is one hostile input.
type Input struct {
	Bytes []byte   `json:"bytes"`
	Kind  string   `json:"kind"`
	Tier  string   `json:"tier"` // raw | gen | field | envelope | eth | olvm | bid
	Tags  []string `json:"tags,omitempty"`
}

func (in Input) key() string { return in.Tier + "/" + in.Kind + "/" + strings.Join(in.Tags, ",") }

// src is the source of choices: rapid in the property test, the fuzz bytes in the fuzz target.
type src interface {
	N(n int, label string) int // uniform in [0,n)
	Bytes(max int, label string) []byte
}

type rapidSrc struct{ u *hist.U }

func (r rapidSrc) N(n int, label string) int { return r.u.N(n, label) }
func (r rapidSrc) Bytes(max int, label string) []byte {
	n := r.u.N(max+1, label+"-n")
	b := make([]byte, n)
	for i := 0; i < n; i += 8 {
		v := uint64(r.u.N(1<<62, label))
		for j := 0; j < 8 && i+j < n; j++ {
			b[i+j] = byte(v >> (8 * j))
		}
	}
	return b
}

// byteSrc consumes a byte string (fuzzing): deterministic, total.
type byteSrc struct {
	b []byte
	i int
}

func (s *byteSrc) next() byte {
	if s.i >= len(s.b) {
		s.i++
		return 0
	}
	v := s.b[s.i]
	s.i++
	return v
}
func (s *byteSrc) N(n int, label string) int {
	if n <= 1 {
		return 0
	}
	if n <= 256 {
		return int(s.next()) % n
	}
	v := 0
	for k := 0; k < 4; k++ {
		v = v<<8 | int(s.next())
	}
	if v < 0 {
		v = -v
	}
	return v % n
}
func (s *byteSrc) Bytes(max int, label string) []byte {
	n := s.N(max+1, label)
	out := make([]byte, n)
	for i := range out {
		out[i] = s.next()
	}
	return out
}

type maker struct {
	s     src
	f     *hist.Farm
	excl  func(string) bool
	n     int
	convs []bid_data.BidConvId // bid conversations this maker tried to open
}

func min(a, b int) int {
	if a < b {
		return a
	}
	return b
}

func (m *maker) excluded(kind, class string) bool {
	return m.excl != nil && m.excl(kind+":"+class)
}

func (m *maker) pick(n int, label string) int { return m.s.N(n, label) }

func (m *maker) memo() string {
	m.n++
	return fmt.Sprintf("c18-%d", m.n)
}

// ---------------------------------------------------------------- hostile pools

var (
	p63  = new(big.Int).Lsh(big.NewInt(1), 63)
	p64  = new(big.Int).Lsh(big.NewInt(1), 64)
	p200 = new(big.Int).Lsh(big.NewInt(1), 200)
	p256 = new(big.Int).Lsh(big.NewInt(1), 256)
)

type hv struct {
	v     interface{}
	class string
}

func rawJSON(s string) json.RawMessage { return json.RawMessage(s) }

func (m *maker) hostileAddr() hv {
	u := m.f.W.G.U
	pool := []hv{
		{nil, "addr-nil"},
		{"", "addr-empty"},
		{"0lt", "addr-empty"},
		{"0", "addr-text-1char"},
		{"0l", "addr-text-2chars"},
		{"0x", "addr-text-0x"},
		{"lt", "addr-text-2chars"},
		{"0LT" + strings.Repeat("00", 20), "addr-text-upper-prefix"},
		{" 0lt" + strings.Repeat("00", 20), "addr-text-leading-space"},
		{"0lt0", "addr-odd-hex"},
		{"０ｌｔ" + strings.Repeat("00", 20), "addr-text-unicode"},
		{"0lt" + strings.Repeat("é", 20), "addr-text-unicode"},
		{rawJSON(`{"0lt":1}`), "addr-object"},
		{"0lt00", "addr-1byte"},
		{"0ltabc", "addr-odd-hex"},
		{"0ltzz", "addr-not-hex"},
		{"0lt" + strings.Repeat("00", 19), "addr-19"},
		{"0lt" + strings.Repeat("11", 21), "addr-21"},
		{"0lt" + strings.Repeat("00", 20), "addr-zero"},
		{"0lt" + hex.EncodeToString([]byte("00000000000000000001")), "addr-pool"},
		{"0lt" + hex.EncodeToString([]byte(sim.RewardPoolAddr)), "addr-pool"},
		{"0lt" + hex.EncodeToString([]byte(sim.SupplyAddr)), "addr-supply"},
		{"0lt" + hex.EncodeToString([]byte(sim.BountyAddr)), "addr-pool"},
		{u.Users[1].Addr.String(), "addr-other-user"},
		{u.Vals[1].Key.Addr.String(), "addr-validator"},
		{u.Vals[1].Stake.Addr.String(), "addr-stake"},
		{u.Vals[len(u.Vals)-1].Key.Addr.String(), "addr-candidate"},
		{strings.Repeat("ff", 20), "addr-no-prefix"},
		{rawJSON("12345"), "addr-number"},
		{rawJSON("[]"), "addr-array"},
		{"0lt" + strings.Repeat("ab", 2000), "addr-4kB"},
	}
	// absent / empty addresses are the class handlers most often forget: a third of the draws
	if m.pick(3, "addrnil") == 0 {
		return pool[m.pick(3, "addrnilk")]
	}
	return pool[m.pick(len(pool), "addr")]
}

func (m *maker) hostileCur() (string, string) {
	pool := [][2]string{{"", "cur-unknown"}, {"olt", "cur-unknown"}, {"XYZ", "cur-unknown"}, {"OLT ", "cur-unknown"}, {strings.Repeat("C", 1024), "cur-unknown"},
		{"VT", "cur-other"}, {"ETH", "cur-other"}, {"TTC", "cur-other"}, {"BTC", "cur-other"}, {"OLT", "cur-ok"}}
	x := pool[m.pick(len(pool), "cur")]
	return x[0], x[1]
}

func (m *maker) hostileAmtValue() (string, string) {
	k := m.pick(5000000, "k")
	pool := [][2]string{
		{"-1", "amt-neg"}, {new(big.Int).Neg(p200).String(), "amt-neg-huge"}, {new(big.Int).Neg(new(big.Int).Add(p64, big.NewInt(1))).String(), "amt-neg-2^64"},
		{"0", "amt-zero"}, {"1", "amt-one"}, {new(big.Int).Sub(p63, big.NewInt(1)).String(), "amt-2^63-1"}, {p63.String(), "amt-2^63"}, {p64.String(), "amt-2^64"},
		{new(big.Int).Add(p64, big.NewInt(int64(k))).String(), "amt-2^64+k"}, {p256.String(), "amt-2^256"},
		{"100000000000000000000000000000", "amt-over"}, {"10000000", "amt-1e7"}, {"4611686018427387904", "amt-2^62"},
		{"1e5", "amt-malformed"}, {"abc", "amt-malformed"}, {"", "amt-malformed"}, {"-", "amt-malformed"}, {"+", "amt-malformed"}, {"0x", "amt-malformed"}, {"١٢٣", "amt-malformed"}, {"-0", "amt-zero"}, {" 5", "amt-malformed"}, {"0x10", "amt-malformed"}, {"1.5", "amt-malformed"},
		{strings.Repeat("9", 5000), "amt-5000-digits"},
	}
	x := pool[m.pick(len(pool), "amtv")]
	return x[0], x[1]
}

// hostileAmount replaces an action.Amount ({"currency":..,"value":".."}).
func (m *maker) hostileAmount(old map[string]interface{}) hv {
	// values just beyond what the well-formed transaction asked for (refusals deep in the stores)
	if ov, ok := old["value"].(string); ok && m.pick(5, "amtrel") == 0 {
		if b, ok := new(big.Int).SetString(ov, 10); ok {
			mul := []int64{2, 1000, 10000000, 1000000000000}[m.pick(4, "amtmul")]
			return hv{map[string]interface{}{"currency": old["currency"], "value": new(big.Int).Mul(b, big.NewInt(mul)).String()}, fmt.Sprintf("amt-x%d", mul)}
		}
	}
	switch m.pick(6, "amtshape") {
	case 0:
		c, ct := m.hostileCur()
		return hv{map[string]interface{}{"currency": c, "value": old["value"]}, ct}
	case 1, 2:
		v, vt := m.hostileAmtValue()
		return hv{map[string]interface{}{"currency": old["currency"], "value": v}, vt}
	case 3:
		c, ct := m.hostileCur()
		v, vt := m.hostileAmtValue()
		return hv{map[string]interface{}{"currency": c, "value": v}, ct + "+" + vt}
	case 4:
		x := []hv{{nil, "amt-null"}, {map[string]interface{}{}, "amt-empty-object"}, {"5", "amt-string"}, {map[string]interface{}{"currency": old["currency"]}, "amt-no-value"},
			{map[string]interface{}{"currency": old["currency"], "value": nil}, "amt-value-null"}, {map[string]interface{}{"currency": old["currency"], "value": rawJSON("7")}, "amt-value-number"}}
		return x[m.pick(len(x), "amtodd")]
	default:
		c, ct := m.hostileCur()
		return hv{map[string]interface{}{"currency": c, "value": old["value"]}, ct}
	}
}

func (m *maker) hostileInt() hv {
	pool := []hv{
		{rawJSON("-1"), "int-neg"}, {rawJSON("0"), "int-zero"}, {rawJSON("1"), "int-one"}, {rawJSON("2"), "int-small"}, {rawJSON("3"), "int-small"}, {rawJSON("4"), "int-small"},
		{rawJSON("127"), "int-127"}, {rawJSON("128"), "int-128"}, {rawJSON("255"), "int-255"}, {rawJSON("256"), "int-256"}, {rawJSON("-128"), "int-neg"}, {rawJSON("-129"), "int-neg"},
		{rawJSON("2147483647"), "int-2^31"}, {rawJSON("2147483648"), "int-2^31"}, {rawJSON("9223372036854775807"), "int-maxint64"}, {rawJSON("-9223372036854775808"), "int-minint64"},
		{rawJSON("9223372036854775808"), "int-overflow"}, {rawJSON("18446744073709551616"), "int-overflow"}, {rawJSON("1e30"), "int-float"}, {rawJSON("1.5"), "int-float"},
		{"7", "int-string"}, {nil, "int-null"}, {rawJSON("true"), "int-bool"},
	}
	return pool[m.pick(len(pool), "int")]
}

func (m *maker) hostileBool() hv {
	pool := []hv{{nil, "bool-null"}, {"true", "bool-string"}, {rawJSON("1"), "bool-number"}, {rawJSON("false"), "bool-false"}, {rawJSON("true"), "bool-true"}}
	return pool[m.pick(len(pool), "bool")]
}

func (m *maker) hostileStr(old string) hv {
	pool := []hv{{"", "str-empty"}, {"0", "str-1char"}, {"0l", "str-2chars"}, {"0lt", "str-0lt"}, {"0x", "str-0x"}, {"-", "str-1char"}, {strings.Repeat("A", 1024), "str-1kB"}, {strings.Repeat("B", 70000), "str-70kB"}, {nil, "str-null"}, {rawJSON("5"), "str-number"},
		{old + "x", "str-changed"}, {strings.ToUpper(old), "str-upper"}, {"\u0000", "str-nul"}, {"..", "str-dots"}, {"a.b.c.d.e.f.g.ol", "str-deep-name"}, {old + old, "str-doubled"},
		{strings.Repeat("é", 40), "str-multibyte"}, {"%s%n%x", "str-format"}, {rawJSON(`{"a":1}`), "str-object"}}
	return pool[m.pick(len(pool), "str")]
}

func (m *maker) hostileBytes(old []byte) hv {
	pool := []hv{{"", "bytes-empty"}, {nil, "bytes-null"}, {"!!!not base64", "bytes-not-base64"}, {"=", "bytes-not-base64"}, {"A", "bytes-not-base64"}, {"====", "bytes-not-base64"}, {"0lt", "bytes-not-base64"}, {base64.StdEncoding.EncodeToString([]byte{0}), "bytes-one"},
		{base64.StdEncoding.EncodeToString(m.s.Bytes(64, "rndbytes")), "bytes-random"}, {rawJSON("[1,2,3]"), "bytes-array"}, {rawJSON("7"), "bytes-number"}}
	if len(old) > 2 {
		pool = append(pool, hv{base64.StdEncoding.EncodeToString(old[:len(old)/2]), "bytes-truncated"},
			hv{base64.StdEncoding.EncodeToString(append(append([]byte{}, old...), 1, 2, 3)), "bytes-trailing"},
			hv{base64.StdEncoding.EncodeToString(bytes.Repeat(old, 50)), "bytes-repeated"})
		fl := append([]byte{}, old...)
		fl[m.pick(len(fl), "flip")] ^= byte(1 << uint(m.pick(8, "bit")))
		pool = append(pool, hv{base64.StdEncoding.EncodeToString(fl), "bytes-bitflip"})
	}
	return pool[m.pick(len(pool), "bytes")]
}

// ---------------------------------------------------------------- generic field mutation

type fieldRef struct {
	path  string
	class string // addr | amount | int | bool | str | bytes | null | object | array
	set   func(v interface{})
	del   func()
	old   interface{}
}

func looksBase64(s string) ([]byte, bool) {
	if len(s) < 24 || len(s)%4 != 0 {
		return nil, false
	}
	b, err := base64.StdEncoding.DecodeString(s)
	if err != nil {
		return nil, false
	}
	return b, true
}

func collect(prefix string, v interface{}, out *[]fieldRef) {
	switch x := v.(type) {
	case map[string]interface{}:
		var ks []string
		for k := range x {
			ks = append(ks, k)
		}
		sort.Strings(ks)
		for _, k := range ks {
			k := k
			child := x[k]
			ref := fieldRef{path: prefix + k, old: child, set: func(v interface{}) { x[k] = v }, del: func() { delete(x, k) }}
			switch c := child.(type) {
			case map[string]interface{}:
				if _, ok := c["currency"]; ok && len(c) <= 2 {
					ref.class = "amount"
					*out = append(*out, ref)
					continue
				}
				ref.class = "object"
				*out = append(*out, ref)
				collect(prefix+k+".", c, out)
			case []interface{}:
				ref.class = "array"
				*out = append(*out, ref)
				collect(prefix+k+".", c, out)
			case string:
				if strings.HasPrefix(c, "0lt") {
					ref.class = "addr"
				} else if _, ok := looksBase64(c); ok {
					ref.class = "bytes"
				} else {
					ref.class = "str"
				}
				*out = append(*out, ref)
			case json.Number:
				ref.class = "int"
				*out = append(*out, ref)
			case bool:
				ref.class = "bool"
				*out = append(*out, ref)
			case nil:
				ref.class = "null"
				*out = append(*out, ref)
			}
		}
	case []interface{}:
		for i := range x {
			i := i
			if mm, ok := x[i].(map[string]interface{}); ok {
				collect(fmt.Sprintf("%s%d.", prefix, i), mm, out)
			} else if s, ok := x[i].(string); ok && strings.HasPrefix(s, "0lt") {
				*out = append(*out, fieldRef{path: fmt.Sprintf("%s%d", prefix, i), class: "addr", old: s, set: func(v interface{}) { x[i] = v }, del: func() { x[i] = nil }})
			}
		}
	}
}

func decodeObj(b []byte) (map[string]interface{}, error) {
	d := json.NewDecoder(bytes.NewReader(b))
	d.UseNumber()
	var v map[string]interface{}
	if err := d.Decode(&v); err != nil {
		return nil, err
	}
	return v, nil
}

// signersOf finds the harness keys behind the signatures of a signed transaction.
func (m *maker) signersOf(stx *action.SignedTx) ([]*sim.User, bool) {
	var out []*sim.User
	for _, s := range stx.Signatures {
		h, err := s.Signer.GetHandler()
		if err != nil {
			return nil, false
		}
		u := m.f.W.G.U.ByAddr(h.Address())
		if u == nil {
			return nil, false
		}
		out = append(out, u)
	}
	return out, true
}

// ser serialises a signed transaction the way the node does (SignedBytes): the canonical encoding, the only one
// the node accepts since the canonical-encoding fix.
func ser(stx action.SignedTx) ([]byte, error) {
	return serialize.GetSerializer(serialize.NETWORK).Serialize(stx)
}

func parseSigned(b []byte) (*action.SignedTx, error) {
	stx := &action.SignedTx{}
	if err := json.Unmarshal(b, stx); err != nil {
		return nil, err
	}
	return stx, nil
}

// mutateFields takes a well-formed applicable transaction, replaces 1-2 message fields by hostile
// values of the field's class and signs the result with the original signers' keys.
func (m *maker) mutateFields(base txgen.Tx) (Input, bool) {
	stx, err := parseSigned(base.Bytes)
	if err != nil {
		return Input{}, false
	}
	signers, ok := m.signersOf(stx)
	if !ok {
		return Input{}, false
	}
	msg, err := decodeObj(stx.Data)
	if err != nil {
		return Input{}, false
	}
	var tags []string
	// a BTCECSECP-typed public key has the nil address and "verifies" every signature: a message whose
	// signer fields are nil passes the signature check without any key
	keyless := m.pick(9, "keyless") == 0
	if keyless {
		addrs := map[string]bool{}
		for _, u := range signers {
			addrs[u.Addr.String()] = true
		}
		var refs []fieldRef
		collect("", msg, &refs)
		empty := m.pick(2, "nilorempty") == 0
		for _, r := range refs {
			if sv, ok := r.old.(string); ok && r.class == "addr" && addrs[sv] {
				if empty {
					r.set("")
				} else {
					r.set(nil)
				}
				tags = append(tags, r.path+"=addr-nil+keyless-signature")
			}
		}
		if len(tags) == 0 {
			keyless = false
		}
	}
	nmut := 1 + m.pick(4, "nmut")/3 // mostly one field
	if keyless {
		nmut = m.pick(2, "nmutk")
	}
	for k := 0; k < nmut; k++ {
		var refs []fieldRef
		collect("", msg, &refs)
		if len(refs) == 0 {
			break
		}
		r := refs[m.pick(len(refs), "field")]
		var h hv
		switch {
		case m.pick(14, "structural") == 0:
			r.del()
			h = hv{nil, "field-deleted"}
			tags = append(tags, r.path+"="+h.class)
			continue
		case r.class == "addr":
			h = m.hostileAddr()
		case r.class == "amount":
			h = m.hostileAmount(r.old.(map[string]interface{}))
		case r.class == "int":
			h = m.hostileInt()
		case r.class == "bool":
			h = m.hostileBool()
		case r.class == "bytes":
			old, _ := looksBase64(r.old.(string))
			if strings.Contains(strings.ToLower(r.path), "ethtxn") && m.pick(3, "ethspecial") != 0 {
				raw, class := m.hostileEthTx(base.Kind)
				h = hv{base64.StdEncoding.EncodeToString(raw), class}
			} else {
				h = m.hostileBytes(old)
			}
		case r.class == "str":
			h = m.hostileStr(r.old.(string))
		case r.class == "null":
			x := []hv{{"0lt" + strings.Repeat("00", 20), "null-to-addr"}, {rawJSON("1"), "null-to-number"}, {map[string]interface{}{}, "null-to-object"}, {rawJSON("[[]]"), "null-to-array"}}
			h = x[m.pick(len(x), "nullv")]
		default: // object, array
			x := []hv{{nil, "object-null"}, {rawJSON("[]"), "object-to-array"}, {rawJSON("{}"), "object-empty"}, {"x", "object-to-string"}}
			h = x[m.pick(len(x), "objv")]
		}
		if m.excluded(base.Kind, h.class) || m.excluded(base.Kind, r.path+"="+h.class) {
			continue
		}
		r.set(h.v)
		tags = append(tags, r.path+"="+h.class)
	}
	if len(tags) == 0 {
		tags = []string{"unchanged"}
	}
	data, err := json.Marshal(msg)
	if err != nil {
		return Input{}, false
	}
	raw := action.RawTx{Type: stx.Type, Data: data, Fee: stx.Fee, Memo: m.memo()}
	if keyless {
		var sigs []action.Signature
		for range signers {
			sigs = append(sigs, action.Signature{Signer: m.f.W.G.U.Vals[0].EcdsaPub, Signed: []byte{1}})
		}
		b, err := ser(action.SignedTx{RawTx: raw, Signatures: sigs})
		if err != nil {
			return Input{}, false
		}
		return Input{Bytes: b, Kind: base.Kind, Tier: "field", Tags: tags}, true
	}
	return Input{Bytes: txgen.SignRaw(raw, signers...), Kind: base.Kind, Tier: "field", Tags: tags}, true
}

// otherActor takes a well-formed applicable transaction and issues it from somebody else: every message field that
// holds the first signer's address is rewritten to another account's address and the transaction is signed by that
// account (so it passes the signature and signer checks and reaches the handler's "not yours" branches: a withdrawal
// by a non-funder, a cancel by a non-proposer, an update by a non-owner ...).
func (m *maker) otherActor(base txgen.Tx) (Input, bool) {
	stx, err := parseSigned(base.Bytes)
	if err != nil {
		return Input{}, false
	}
	signers, ok := m.signersOf(stx)
	if !ok || len(signers) == 0 {
		return Input{}, false
	}
	msg, err := decodeObj(stx.Data)
	if err != nil {
		return Input{}, false
	}
	u := m.f.W.G.U
	var other *sim.User
	switch m.pick(3, "actor") {
	case 0:
		other = u.Users[m.pick(len(u.Users), "actor-user")]
	case 1:
		other = u.Vals[m.pick(len(u.Vals), "actor-val")].Stake
	default:
		other = u.Users[len(u.Users)-1-m.pick(2, "actor-last")]
	}
	if other == nil || other.Addr.String() == signers[0].Addr.String() {
		return Input{}, false
	}
	var refs []fieldRef
	collect("", msg, &refs)
	n := 0
	for _, r := range refs {
		if sv, ok := r.old.(string); ok && r.class == "addr" && sv == signers[0].Addr.String() {
			r.set(other.Addr.String())
			n++
		}
	}
	if n == 0 {
		return Input{}, false
	}
	data, err := json.Marshal(msg)
	if err != nil {
		return Input{}, false
	}
	raw := action.RawTx{Type: stx.Type, Data: data, Fee: stx.Fee, Memo: m.memo()}
	ns := append([]*sim.User{other}, signers[1:]...)
	return Input{Bytes: txgen.SignRaw(raw, ns...), Kind: base.Kind, Tier: "actor", Tags: []string{"issued-by-another-account"}}, true
}

// mutateEnvelope keeps the message and makes fee / memo / signature list / type hostile.
func (m *maker) mutateEnvelope(base txgen.Tx) (Input, bool) {
	stx, err := parseSigned(base.Bytes)
	if err != nil {
		return Input{}, false
	}
	signers, ok := m.signersOf(stx)
	if !ok {
		return Input{}, false
	}
	raw := action.RawTx{Type: stx.Type, Data: stx.Data, Fee: stx.Fee, Memo: m.memo()}
	tag := ""
	resign := true
	var sigs []action.Signature
	switch m.pick(12, "env") {
	case 0:
		c, ct := m.hostileCur()
		raw.Fee.Price.Currency = c
		tag = "fee-" + ct
	case 1:
		v, vt := m.hostileAmtValue()
		b, ok := new(big.Int).SetString(v, 10)
		if !ok {
			b = big.NewInt(-7)
			vt = "amt-neg"
		}
		raw.Fee.Price.Value = *balance.NewAmountFromBigInt(b)
		tag = "fee-price-" + vt
	case 2:
		g := []int64{-1, 0, 1, -9223372036854775808, 9223372036854775807, 40000, 1 << 40}
		raw.Fee.Gas = g[m.pick(len(g), "gas")]
		tag = fmt.Sprintf("fee-gas=%d", raw.Fee.Gas)
	case 3:
		raw.Memo = []string{"", strings.Repeat("m", 70000), "\u0000", "18446744073709551616", "-1"}[m.pick(5, "memo")]
		tag = "memo-odd"
	case 4:
		resign = false
		tag = "signatures-empty"
	case 5:
		signers = append(signers, signers[0])
		tag = "signatures-extra"
	case 6:
		signers = signers[:len(signers)-1]
		tag = "signatures-one-less"
		if len(signers) == 0 {
			resign = false
			tag = "signatures-empty"
		}
	case 7:
		t := []action.Type{0, 0xFF, 0x7fffffff, -1, 0x03, 0x85, 0x900, 0x907}
		raw.Type = t[m.pick(len(t), "type")]
		tag = fmt.Sprintf("type=%d", raw.Type)
	case 8:
		// signature by the right key over other bytes / garbage signature / nil key
		resign = false
		b := txgen.SignRaw(raw, signers...)
		s2, _ := parseSigned(b)
		sigs = s2.Signatures
		switch m.pick(4, "sigodd") {
		case 0:
			sigs[0].Signed = nil
			tag = "signature-nil"
		case 1:
			sigs[0].Signed = m.s.Bytes(70, "sig")
			tag = "signature-random"
		case 2:
			sigs[0].Signer = keys.PublicKey{}
			tag = "signer-empty-key"
		default:
			sigs[0].Signer = keys.PublicKey{KeyType: keys.Algorithm(m.pick(7, "alg")), Data: m.s.Bytes(40, "key")}
			tag = "signer-odd-key"
		}
	case 9:
		raw.Fee = action.Fee{}
		tag = "fee-zero-value"
	case 10:
		raw.Data = []byte{}
		tag = "data-empty"
	default:
		x := []string{"null", "[]", "\"x\"", "{}", "{\"a\":{\"a\":{\"a\":1}}}", "7"}
		raw.Data = []byte(x[m.pick(len(x), "dataodd")])
		tag = "data=" + string(raw.Data)
	}
	if m.excluded(base.Kind, tag) {
		return Input{}, false
	}
	var out []byte
	if resign {
		out = txgen.SignRaw(raw, signers...)
	} else {
		if sigs == nil {
			sigs = []action.Signature{}
		}
		b, err := ser(action.SignedTx{RawTx: raw, Signatures: sigs})
		if err != nil {
			return Input{}, false
		}
		out = b
	}
	return Input{Bytes: out, Kind: base.Kind, Tier: "envelope", Tags: []string{tag}}, true
}

// ---------------------------------------------------------------- embedded ethereum transactions

var ethChain = big.NewInt(4)

func rlpOf(tx *ethtypes.Transaction) []byte {
	b, err := rlp.EncodeToBytes(tx)
	if err != nil {
		b2, err2 := tx.MarshalBinary()
		if err2 != nil {
			return []byte{0xc0}
		}
		return b2
	}
	return b
}

// hostileEthTx builds a malformed / unexpected embedded ethereum transaction for the kind.
func (m *maker) hostileEthTx(kind string) ([]byte, string) {
	e := m.f.E
	lockSig := ethcmn.FromHex("0xf83d08ba")
	redeemSig := ethcmn.FromHex("0xdb006a75")
	ercRedeemSig := ethcrypto.Keccak256([]byte("redeem(uint256,address)"))[:4]
	transferSig := ethcmn.FromHex("0xa9059cbb")
	word := func(v *big.Int) []byte { return ethcmn.LeftPadBytes(v.Bytes(), 32) }
	sign := func(tx *ethtypes.Transaction) []byte {
		var s ethtypes.Signer = ethtypes.NewEIP155Signer(ethChain)
		if tx.Type() != ethtypes.LegacyTxType {
			s = ethtypes.NewLondonSigner(ethChain)
		}
		st, err := ethtypes.SignTx(tx, s, e.Key)
		if err != nil {
			return rlpOf(tx)
		}
		if tx.Type() != ethtypes.LegacyTxType {
			b, _ := st.MarshalBinary()
			return b
		}
		return rlpOf(st)
	}
	legacy := func(to *ethcmn.Address, value *big.Int, data []byte) []byte {
		return sign(ethtypes.NewTx(&ethtypes.LegacyTx{Nonce: uint64(m.pick(1000, "ethnonce")), To: to, Value: value, Gas: 300000, GasPrice: big.NewInt(18000000000), Data: data}))
	}
	contract := &sim.LockRedeemContract
	goodData := lockSig
	switch kind {
	case "ETH_REDEEM":
		goodData = append(append([]byte{}, redeemSig...), word(big.NewInt(5))...)
	case "ERC20_LOCK":
		contract = &sim.TestTokenContract
		goodData = append(append(append([]byte{}, transferSig...), ethcmn.LeftPadBytes(sim.ERCLockContract.Bytes(), 32)...), word(big.NewInt(5))...)
	case "ERC20_REDEEM":
		contract = &sim.ERCLockContract
		goodData = append(append(append([]byte{}, ercRedeemSig...), word(big.NewInt(5))...), ethcmn.LeftPadBytes(sim.TestTokenContract.Bytes(), 32)...)
	}
	other := ethcmn.HexToAddress("0x99")
	switch m.pick(24, "ethshape") {
	case 22:
		// the method selector once more, earlier in the raw bytes: as the tail of the receiving address
		to := *contract
		copy(to[16:], goodData[:4])
		return legacy(&to, big.NewInt(1000), goodData), "eth-selector-in-to-address"
	case 23:
		// ... or inside the value
		v := new(big.Int).SetBytes(append(append([]byte{1}, goodData[:4]...), 0, 0))
		return legacy(contract, v, goodData), "eth-selector-in-value"
	case 0:
		return m.s.Bytes(120, "ethrnd"), "eth-random-bytes"
	case 1:
		return []byte{}, "eth-empty"
	case 2:
		return legacy(nil, big.NewInt(1000), goodData), "eth-contract-creation"
	case 3:
		return legacy(contract, big.NewInt(1000), nil), "eth-no-data"
	case 4:
		return legacy(contract, big.NewInt(1000), []byte{1, 2, 3}), "eth-short-data"
	case 5:
		return legacy(contract, big.NewInt(1000), goodData[:4]), "eth-sig-only"
	case 6:
		return legacy(contract, big.NewInt(1000), append(append([]byte{}, goodData[:4]...), 1, 2, 3, 4, 5)), "eth-sig-short-args"
	case 7:
		// data of another method (wrong ABI)
		d := [][]byte{lockSig, append(append([]byte{}, redeemSig...), word(big.NewInt(5))...), append(append([]byte{}, transferSig...), word(big.NewInt(1))...), append(append([]byte{}, ercRedeemSig...), word(big.NewInt(5))...)}
		return legacy(contract, big.NewInt(1000), d[m.pick(len(d), "wrongabi")]), "eth-wrong-abi"
	case 8:
		return legacy(&other, big.NewInt(1000), goodData), "eth-wrong-contract"
	case 9:
		return legacy(contract, new(big.Int).Set(p256).Sub(p256, big.NewInt(1)), goodData), "eth-value-2^256-1"
	case 10:
		d := append([]byte{}, goodData...)
		for len(d) < 36 {
			d = append(d, 0)
		}
		copy(d[4:36], word(new(big.Int).Sub(p256, big.NewInt(1))))
		return legacy(contract, big.NewInt(0), d), "eth-arg-2^256-1"
	case 11:
		return sign(ethtypes.NewTx(&ethtypes.AccessListTx{ChainID: ethChain, Nonce: 1, To: contract, Value: big.NewInt(1000), Gas: 300000, GasPrice: big.NewInt(1), Data: goodData})), "eth-typed-2930"
	case 12:
		return sign(ethtypes.NewTx(&ethtypes.DynamicFeeTx{ChainID: ethChain, Nonce: 1, To: contract, Value: big.NewInt(1000), Gas: 300000, GasFeeCap: big.NewInt(1), GasTipCap: big.NewInt(1), Data: goodData})), "eth-typed-1559"
	case 13:
		// typed transaction without a destination
		return sign(ethtypes.NewTx(&ethtypes.DynamicFeeTx{ChainID: ethChain, Nonce: 1, To: nil, Value: big.NewInt(1000), Gas: 300000, GasFeeCap: big.NewInt(1), GasTipCap: big.NewInt(1), Data: goodData})), "eth-typed-creation"
	case 14:
		b := legacy(contract, big.NewInt(1000), goodData)
		return b[:len(b)/2], "eth-truncated"
	case 15:
		return []byte{0xc0}, "eth-empty-list"
	case 16:
		return []byte{0xf8, 0xff, 0x01}, "eth-bad-length"
	case 17:
		// unsigned transaction
		return rlpOf(ethtypes.NewTx(&ethtypes.LegacyTx{Nonce: 1, To: contract, Value: big.NewInt(1000), Gas: 300000, GasPrice: big.NewInt(1), Data: goodData})), "eth-unsigned"
	case 18:
		// not a transaction at all but containing the method signature (redeem parsers split the hex text on it)
		return append(append([]byte("junk"), goodData[:4]...), 1, 2), "eth-sig-in-junk"
	case 19:
		// method signature at the very end
		return append([]byte("junkjunkjunk"), goodData[:4]...), "eth-sig-at-end"
	case 20:
		// signature occurring twice
		return legacy(contract, big.NewInt(1), append(append(append([]byte{}, goodData...), goodData...), goodData...)), "eth-sig-repeated"
	default:
		return legacy(contract, big.NewInt(0), goodData), "eth-value-zero"
	}
}

// ethInput builds a lock/redeem of the kind around a hostile embedded transaction.
func (m *maker) ethInput() Input {
	kinds := []string{"ETH_LOCK", "ETH_REDEEM", "ERC20_LOCK", "ERC20_REDEEM"}
	kind := kinds[m.pick(4, "ethkind")]
	var raw []byte
	var class string
	for try := 0; ; try++ {
		raw, class = m.hostileEthTx(kind)
		if !m.excluded(kind, class) || try > 8 {
			break
		}
	}
	if m.excluded(kind, class) {
		raw, class = []byte{0xc0}, "eth-empty-list"
	}
	A := m.f.A
	fee := m.f.W.Fee
	var tx txgen.Tx
	switch kind {
	case "ETH_LOCK":
		tx = txgen.EthLock(A, A.Addr, raw, fee, m.memo())
	case "ETH_REDEEM":
		tx = txgen.EthRedeem(A, A.Addr, m.f.E.Addr, raw, fee, m.memo())
	case "ERC20_LOCK":
		tx = txgen.ERC20Lock(A, A.Addr, raw, fee, m.memo())
	default:
		tx = txgen.ERC20Redeem(A, A.Addr, m.f.E.Addr, raw, fee, m.memo())
	}
	return Input{Bytes: tx.Bytes, Kind: kind, Tier: "eth", Tags: []string{class}}
}

// ---------------------------------------------------------------- finality reports on the ongoing tracker

// reportInput aims a finality report at the farm's ongoing, unfinalised ETH lock tracker (created by a real
// ETH_LOCK and moved on by the block-end transitions): witness and non-witness signers, negative and
// out-of-range vote indexes, other beneficiaries.
func (m *maker) reportInput() Input {
	f := m.f
	u := f.W.G.U
	name := txgen.TrackerName(f.LockRaw)
	wl := f.W.WitnessList()
	var signer *sim.User
	stag := ""
	right := int64(0)
	switch m.pick(4, "repsigner") {
	case 0, 1:
		wi := m.pick(len(wl), "repwit")
		for _, v := range u.Vals {
			if v.Key.Addr.Equal(wl[wi]) {
				signer = v.Key
			}
		}
		right = int64(wi)
		stag = "witness"
	case 2:
		signer = u.Vals[len(u.Vals)-1].Key // key material of a candidate that is neither validator nor witness
		stag = "non-witness-candidate"
	default:
		signer = u.Users[m.pick(6, "repuser")]
		stag = "non-witness-account"
	}
	if signer == nil {
		signer = u.Users[0]
		stag = "non-witness-account"
	}
	idxs := []int64{-1, -1, -1, -2, -3, -5, -128, -129, -2147483648, -9223372036854775808, right, right + 1, int64(len(wl)), int64(len(wl)) - 1, 1 << 31, 1<<63 - 1}
	idx := idxs[m.pick(len(idxs), "repidx")]
	itag := fmt.Sprintf("idx=%d", idx)
	if idx == right && stag == "witness" {
		itag = "idx-right"
	}
	locker := f.A.Addr
	if m.pick(4, "replocker") == 0 && !m.excluded("ETH_REPORT_FINALITY_MINT", "locker-other") {
		locker = f.B.Addr
		itag += ",locker-other"
	}
	tx := txgen.ReportFinality(signer, name, locker, signer.Addr, idx, m.pick(4, "repyes") != 0, f.W.Fee, m.memo())
	return Input{Bytes: tx.Bytes, Kind: "ETH_REPORT_FINALITY_MINT", Tier: "report", Tags: []string{stag, itag}}
}

// ---------------------------------------------------------------- OLVM

// olvmPrograms are init codes exercising opcodes and situations the chain's EVM setup may not support.
var olvmPrograms = []struct {
	name string
	code string
}{
	{"basefee", "0x4860005260206000f3"},         // BASEFEE; MSTORE; RETURN
	{"basefee-pop", "0x485000"},                 // BASEFEE POP STOP
	{"difficulty", "0x4460005260206000f3"},      // DIFFICULTY / PREVRANDAO
	{"chainid", "0x4660005260206000f3"},         // CHAINID
	{"selfbalance", "0x4760005260206000f3"},     // SELFBALANCE
	{"coinbase", "0x4160005260206000f3"},        // COINBASE
	{"gaslimit", "0x4560005260206000f3"},        // GASLIMIT
	{"timestamp", "0x4260005260206000f3"},       // TIMESTAMP
	{"number", "0x4360005260206000f3"},          // NUMBER
	{"blockhash-prev", "0x6001430340600052"},    // BLOCKHASH(NUMBER-1)
	{"blockhash-far", "0x61010043034060005200"}, // BLOCKHASH(NUMBER-256)
	{"blockhash-future", "0x6001430140600052"},  // BLOCKHASH(NUMBER+1)
	{"invalid-opcode", "0xfe"},                  //
	{"undefined-opcode", "0x0c"},                //
	{"push-truncated", "0x7f0102"},              // PUSH32 with 2 bytes
	{"stack-underflow", "0x01"},                 // ADD on empty stack
	{"jump-bad", "0x600556"},                    // JUMP to non-JUMPDEST
	{"selfdestruct-self", "0x30ff"},             // SELFDESTRUCT(ADDRESS)
	{"selfdestruct-zero", "0x6000ff"},           //
	{"create2", "0x6000600060006000f5"},         // CREATE2(0,0,0,0)
	{"create-in-create", "0x600060006000f0"},    // CREATE(0,0,0)
	{"call-precompile-1", "0x60006000600060006000600161fffff1"},
	{"call-precompile-9", "0x60006000600060006000600961fffff1"},
	{"call-precompile-5-big", "0x60006000606060006000600561fffff1"},
	{"staticcall-self", "0x6000600060006000305afa"},
	{"delegatecall-zero", "0x60006000600060006000 5af4"},
	{"return-huge", "0x63ffffffff6000f3"}, // RETURN(0, 2^32-1)
	{"mstore-huge", "0x600163ffffffff52"}, // MSTORE at 2^32
	{"returndatacopy-oob", "0x60016000600 03e"},
	{"extcodecopy-self", "0x6020600060003 03c"},
	{"log4", "0x60016002600360046000 6000a4"},
	{"sstore-loop", "0x5b6001600055600056"},
	{"code-0xef", "0x60ef60005360016000f3"}, // returns code starting with 0xEF (EIP-3541)
	{"code-too-large", "0x6160016000f3"},    // returns 0x6001 = 24577 bytes of zero code
	{"empty", "0x"},
}

func cleanHex(s string) []byte { return ethcmn.FromHex(strings.ReplaceAll(s, " ", "")) }

// olvmSigned builds an OLVM transaction whose message JSON is edited after signing (only the fields the
// ethereum signature does not cover), so that Validate's signer check still passes.
func (m *maker) olvmInput() Input {
	w := m.f.W
	e := m.f.E
	nonce := w.OlvmNext[e.Name]
	a := txgen.OLVMArgs{ChainID: w.P.ChainID, Nonce: nonce, Fee: txgen.Fee{Price: big.NewInt(1000000000), Cur: "OLT", Gas: 300000}}
	var tags []string
	shape := m.pick(10, "olvmshape")
	switch {
	case shape < 5:
		if k := m.pick(len(olvmPrograms)+2, "prog"); k >= len(olvmPrograms) {
			// init code that CREATEs a child whose own init code reads the balance of a funded account this transaction has
			// not touched yet and REVERTs, and then reads that balance again: an account creation is undone after another
			// account was loaded behind it
			d := ethcmn.BytesToAddress(m.f.B.Addr).Bytes()
			child := append(append([]byte{0x73}, d...), 0x31, 0x50, 0x60, 0x00, 0x60, 0x00, 0xfd)
			code := append([]byte{0x7b}, child...)                                                   // PUSH28 child
			code = append(code, 0x60, 0x00, 0x52)                                                    // PUSH1 0 MSTORE
			code = append(code, 0x60, 0x1c, 0x60, 0x04, 0x60, byte(k-len(olvmPrograms)), 0xf0, 0x50) // CREATE(value 0|1, 4, 28) POP
			code = append(append(append(code, 0x73), d...), 0x31, 0x50, 0x00)                        // PUSH20 d BALANCE POP STOP
			a.Data = code
			a.Value = big.NewInt(int64(k - len(olvmPrograms)))
			tags = append(tags, "olvm-create:create-reverted-after-touch")
		} else {
			p := olvmPrograms[k]
			a.Data = cleanHex(p.code)
			tags = append(tags, "olvm-create:"+p.name)
		}
		if m.pick(3, "wrapinit") == 0 {
			// deploy as runtime code and call it later: here as init code only
			a.Value = big.NewInt(int64(m.pick(3, "val")))
		}
	case shape < 7 && len(w.Contract) > 0:
		c := w.Contract[m.pick(len(w.Contract), "contract")]
		a.To = &c
		a.Data = m.s.Bytes(100, "calldata")
		tags = append(tags, "olvm-call-random-data")
	case shape < 8:
		// call a precompile / odd destination directly
		d := []ethcmn.Address{ethcmn.BytesToAddress([]byte{1}), ethcmn.BytesToAddress([]byte{5}), ethcmn.BytesToAddress([]byte{9}), ethcmn.BytesToAddress([]byte{0}),
			ethcmn.BytesToAddress(e.Addr.Bytes()), ethcmn.BytesToAddress([]byte(sim.SupplyAddr))}
		t := d[m.pick(len(d), "dest")]
		a.To = &t
		a.Data = m.s.Bytes(300, "precompiledata")
		a.Value = big.NewInt(int64(m.pick(2, "val")))
		tags = append(tags, "olvm-to-"+strings.TrimLeft(t.Hex()[2:], "0"))
	default:
		t := ethcmn.BytesToAddress(m.f.B.Addr)
		a.To = &t
		a.Value = big.NewInt(1)
		tags = append(tags, "olvm-transfer")
	}
	switch m.pick(12, "olvmenv") {
	case 0:
		a.Fee.Gas = []int64{0, 1, 20999, 21000, 53000, 1 << 40, -1}[m.pick(7, "gas")]
		tags = append(tags, fmt.Sprintf("fee-gas=%d", a.Fee.Gas))
	case 1:
		a.Fee.Price = []*big.Int{big.NewInt(0), big.NewInt(1), new(big.Int).Set(p200), big.NewInt(-1)}[m.pick(4, "price")]
		tags = append(tags, "fee-price="+a.Fee.Price.String())
	case 2:
		a.Value = []*big.Int{new(big.Int).Set(p256), big.NewInt(-1), new(big.Int).Set(p200)}[m.pick(3, "value")]
		tags = append(tags, "value="+a.Value.String())
	case 3:
		a.Nonce = []uint64{0, nonce + 1, nonce + 1000, 1<<64 - 1}[m.pick(4, "nonce")]
		if a.Nonce != nonce && m.excluded("OLVM", "nonce-gap") {
			a.Nonce = nonce
		} else {
			tags = append(tags, "nonce-odd")
		}
	}
	tx := txgen.OLVM(e, a)
	// edit the fields outside the ethereum signature
	if k := m.pick(10, "olvmedit"); k < 4 {
		stx, err := parseSigned(tx.Bytes)
		if err == nil {
			if msg, err := decodeObj(stx.Data); err == nil {
				var h hv
				field := ""
				switch m.pick(6, "olvmfield") {
				case 0:
					field = "chainID"
					x := []hv{{nil, "null"}, {rawJSON("0"), "zero"}, {rawJSON("-1"), "neg"}, {rawJSON("1"), "one"}, {"5", "string"}}
					h = x[m.pick(len(x), "cid")]
				case 1:
					field = "type"
					h = m.hostileInt()
				case 2:
					field = "accessList"
					x := []hv{{rawJSON("[]"), "empty"}, {rawJSON(`[{"address":"0x0000000000000000000000000000000000000001","storageKeys":["0x0000000000000000000000000000000000000000000000000000000000000001"]}]`), "one"},
						{rawJSON(`[{"address":null,"storageKeys":null}]`), "nulls"}, {rawJSON(`{}`), "object"}}
					h = x[m.pick(len(x), "al")]
				case 3:
					field = "from"
					h = m.hostileAddr()
				case 4:
					field = "amount"
					h = m.hostileAmount(map[string]interface{}{"currency": "OLT", "value": a2s(a.Value)})
				default:
					field = "to"
					h = m.hostileAddr()
				}
				if !m.excluded("OLVM", field+"="+h.class) {
					msg[field] = h.v
					tags = append(tags, field+"="+h.class)
					if data, err := json.Marshal(msg); err == nil {
						stx.Data = data
						if b, err := ser(*stx); err == nil {
							tx.Bytes = b
						}
					}
				}
			}
		}
	}
	// the signature list itself (the ethereum signature is checked by go-ethereum code)
	if m.pick(8, "olvmsig") == 0 {
		if stx, err := parseSigned(tx.Bytes); err == nil && len(stx.Signatures) == 1 {
			sg := stx.Signatures[0].Signed
			tag := ""
			switch m.pick(8, "olvmsigk") {
			case 0:
				stx.Signatures[0].Signed, tag = nil, "signature-nil"
			case 1:
				stx.Signatures[0].Signed, tag = sg[:64], "signature-64"
			case 2:
				stx.Signatures[0].Signed, tag = append(append([]byte{}, sg...), 0), "signature-66"
			case 3:
				x := append([]byte{}, sg...)
				x[64] = byte(2 + m.pick(250, "recid"))
				stx.Signatures[0].Signed, tag = x, "signature-recid-odd"
			case 4:
				x := make([]byte, 65)
				stx.Signatures[0].Signed, tag = x, "signature-zero"
			case 5:
				x := bytes.Repeat([]byte{0xff}, 65)
				x[64] = 0
				stx.Signatures[0].Signed, tag = x, "signature-ff"
			case 6:
				stx.Signatures, tag = nil, "signatures-empty"
			default:
				stx.Signatures, tag = append(stx.Signatures, stx.Signatures[0]), "signatures-extra"
			}
			if b, err := ser(*stx); err == nil {
				tx.Bytes = b
				tags = append(tags, tag)
			}
		}
	}
	return Input{Bytes: tx.Bytes, Kind: "OLVM", Tier: "olvm", Tags: tags}
}

func a2s(v *big.Int) string {
	if v == nil {
		return "0"
	}
	return v.String()
}

// ---------------------------------------------------------------- bid application

func (m *maker) bidInput() Input {
	f := m.f
	A, B := f.A, f.B
	fee := f.W.Fee
	// conversation ids are sha256(owner + asset + bidder + height of the creating block)
	id := bid_data.BidConvId(hex.EncodeToString(utils.SHA2([]byte(fmt.Sprintf("conv-%d", m.pick(3, "conv"))))))
	if len(m.convs) > 0 && m.pick(5, "knownconv") != 0 {
		id = m.convs[len(m.convs)-1-m.pick(min(3, len(m.convs)), "whichconv")]
	}
	amt := txgen.Amt("OLT", new(big.Int).Mul(big.NewInt(int64(1+m.pick(20, "bidamt"))), big.NewInt(1000000000000000000)))
	deadline := f.W.C.Time.Unix() + int64(m.pick(100000, "dl")) - 1000
	names := []string{"alice.ol", "alice.ol", "shop.ol", "sub.alice.ol", "nosuch.ol", ""}
	name := names[m.pick(len(names), "asset")]
	var tx txgen.Tx
	bk := m.pick(9, "bidkind")
	if bk >= 6 {
		bk = 0
	}
	switch bk {
	case 0:
		if m.pick(3, "newconv") != 0 {
			id = ""
			h := f.W.C.Height + 1
			uk := A.Addr.String() + name + B.Addr.String() + fmt.Sprint(h)
			m.convs = append(m.convs, bid_data.BidConvId(hex.EncodeToString(utils.SHA2([]byte(uk)))))
		}
		tx = txgen.Build("BID_CREATE", bid_action.BID_CREATE, bid_action.CreateBid{BidConvId: id, AssetOwner: A.Addr, AssetName: name, AssetType: bid_data.BidAssetOns, Bidder: B.Addr, Amount: amt, Deadline: deadline}, fee, m.memo(), B)
	case 1:
		tx = txgen.Build("BID_CONTER_OFFER", bid_action.BID_CONTER_OFFER, bid_action.CounterOffer{BidConvId: id, AssetOwner: A.Addr, Amount: amt}, fee, m.memo(), A)
	case 2:
		tx = txgen.Build("BID_CANCEL", bid_action.BID_CANCEL, bid_action.CancelBid{BidConvId: id, Bidder: B.Addr}, fee, m.memo(), B)
	case 3:
		tx = txgen.Build("BID_BIDDER_DECISION", bid_action.BID_BIDDER_DECISION, bid_action.BidderDecision{BidConvId: id, Bidder: B.Addr, Decision: bid_data.BidDecision(1 + m.pick(2, "dec"))}, fee, m.memo(), B)
	case 4:
		v := f.W.G.U.Vals[0]
		tx = txgen.Build("BID_EXPIRE", bid_action.BID_EXPIRE, bid_action.ExpireBid{BidConvId: id, ValidatorAddress: v.Key.Addr}, fee, m.memo(), v.Key)
	default:
		tx = txgen.Build("BID_OWNER_DECISION", bid_action.BID_OWNER_DECISION, bid_action.OwnerDecision{BidConvId: id, Owner: A.Addr, Decision: bid_data.BidDecision(1 + m.pick(2, "dec"))}, fee, m.memo(), A)
	}
	if m.pick(3, "bidmut") != 0 {
		if in, ok := m.mutateFields(tx); ok {
			in.Tier = "bid"
			return in
		}
	}
	return Input{Bytes: tx.Bytes, Kind: tx.Kind, Tier: "bid", Tags: []string{"well-formed"}}
}

// ---------------------------------------------------------------- raw bytes (tier a)

func (m *maker) rawInput() Input {
	base, err := m.f.Make(hist.FarmKinds[m.pick(len(hist.FarmKinds), "rawbase")])
	valid := []byte(`{"type":1,"data":"e30=","fee":{"price":{"currency":"OLT","value":"1000000000"},"gas":100000},"memo":"x","signatures":[]}`)
	if err == nil {
		valid = base.Bytes
	}
	var b []byte
	tag := ""
	switch m.pick(16, "rawshape") {
	case 0:
		b, tag = m.s.Bytes(300, "rnd"), "random-bytes"
	case 1:
		b, tag = []byte{}, "empty"
	case 2:
		b, tag = valid[:m.pick(len(valid), "cut")], "truncated-json"
	case 3:
		n := 1000 + m.pick(200000, "depth")
		b, tag = []byte(strings.Repeat("[", n)), "deep-nesting-arrays"
	case 4:
		n := 1000 + m.pick(50000, "depth")
		b, tag = []byte(strings.Repeat(`{"data":`, n)+"1"+strings.Repeat("}", n)), "deep-nesting-objects"
	case 5:
		b, tag = []byte(`{"type":`+strings.Repeat("9", 400)+`,"data":"","fee":{"price":{"currency":"OLT","value":"1"},"gas":1e400},"memo":"","signatures":[]}`), "huge-numbers"
	case 6:
		b, tag = append(append([]byte(`{"type":1,"memo":"`), 0xff, 0xfe, 0xc0, 0x80), []byte(`","data":"e30=","signatures":[]}`)...), "invalid-utf8"
	case 7:
		// bit flips in a valid transaction
		b = append([]byte{}, valid...)
		for k := 0; k < 1+m.pick(4, "nflip"); k++ {
			b[m.pick(len(b), "pos")] ^= byte(1 << uint(m.pick(8, "bit")))
		}
		tag = "bitflips"
	case 8:
		b, tag = append([]byte(" \n\t"), valid...), "leading-space"
	case 9:
		b, tag = append(append([]byte{}, valid...), valid...), "two-documents"
	case 10:
		x := []string{"null", "true", "0", `""`, "[]", "{}", `[{}]`, `{"type":null}`, `{"signatures":null}`, `{"signatures":[null]}`, `{"signatures":[{"Signer":null,"Signed":null}]}`,
			`{"type":"SEND"}`, `{"type":1,"data":null,"fee":null,"memo":null,"signatures":null}`, `{"type":1,"fee":{"price":null,"gas":null}}`, `{"type":1,"fee":{"price":{"currency":null,"value":null}}}`}
		b = []byte(x[m.pick(len(x), "tiny")])
		tag = "json-scalars-and-nulls"
	case 11:
		// valid envelope, data is not the kind's message
		stx, err := parseSigned(valid)
		if err == nil {
			stx.Data = m.s.Bytes(60, "data")
			b, _ = json.Marshal(stx)
		}
		tag = "random-data-field"
	case 12:
		// every type number with an empty object as message, unsigned
		t := m.pick(0x1000, "type")
		b, tag = []byte(fmt.Sprintf(`{"type":%d,"data":"e30=","fee":{"price":{"currency":"OLT","value":"1000000000"},"gas":100000},"memo":"x","signatures":[]}`, t)), "type-sweep-empty-message"
	case 13:
		b, tag = bytes.ToUpper(valid), "uppercased"
	case 14:
		// duplicate keys: second "type" wins
		b, tag = append([]byte(`{"type":146,`), valid[1:]...), "duplicate-keys"
	default:
		b, tag = []byte(strings.Repeat("\\u0000", 50000)), "escapes"
	}
	if b == nil {
		b = []byte{}
	}
	return Input{Bytes: b, Kind: "RAW", Tier: "raw", Tags: []string{tag}}
}

// knownType reports whether raw bytes parse as a signed transaction of a routed type.
func knownType(b []byte) (string, bool) {
	stx, err := parseSigned(b)
	if err != nil {
		return "", false
	}
	s := stx.Type.String()
	if s == "" || strings.Contains(strings.ToLower(s), "unknown") {
		return "", false
	}
	return s, true
}

// ---------------------------------------------------------------- the mixture

// next draws the next hostile input that no known finding excludes.
func (m *maker) next(g *hist.Gen) Input {
	for try := 0; try < 50; try++ {
		in := m.draw(g)
		if _, ex := excludedInput(in.Bytes, m.excl); ex {
			continue
		}
		return in
	}
	return Input{Bytes: []byte("{}"), Kind: "RAW", Tier: "raw", Tags: []string{"fallback"}}
}

func (m *maker) draw(g *hist.Gen) Input {
	for try := 0; try < 20; try++ {
		k := m.pick(100, "source")
		switch {
		case k < 12:
			return m.rawInput()
		case k < 17 && g != nil:
			// the staking family with amounts around what is staked / withdrawable (refusals inside the stores)
			var tx txgen.Tx
			switch m.pick(4, "stakingkind") {
			case 0:
				tx = g.Stake()
			case 1, 2:
				tx = g.Unstake()
			default:
				tx = g.WithdrawStake()
			}
			tags := tx.Tags
			if len(tags) == 0 {
				tags = []string{"plain"}
			}
			return Input{Bytes: tx.Bytes, Kind: tx.Kind, Tier: "gen-staking", Tags: tags}
		case k < 32 && g != nil:
			tx := g.Draw()
			tags := tx.Tags
			if len(tags) == 0 {
				tags = []string{"plain"}
			}
			return Input{Bytes: tx.Bytes, Kind: tx.Kind, Tier: "gen", Tags: tags}
		case k < 40:
			kind := hist.FarmKinds[m.pick(len(hist.FarmKinds), "kind")]
			base, err := m.f.Make(kind)
			if err != nil {
				continue
			}
			if in, ok := m.otherActor(base); ok {
				return in
			}
		case k < 68:
			kind := hist.FarmKinds[m.pick(len(hist.FarmKinds), "kind")]
			base, err := m.f.Make(kind)
			if err != nil {
				continue
			}
			if in, ok := m.mutateFields(base); ok {
				return in
			}
		case k < 80:
			kind := hist.FarmKinds[m.pick(len(hist.FarmKinds), "kind")]
			base, err := m.f.Make(kind)
			if err != nil {
				continue
			}
			if in, ok := m.mutateEnvelope(base); ok {
				return in
			}
		case k < 87:
			return m.ethInput()
		case k < 91:
			return m.reportInput()
		case k < 96:
			return m.olvmInput()
		default:
			return m.bidInput()
		}
	}
	return m.rawInput()
}

// EthCompressed is used by tests that need the compressed ethereum key.
func EthCompressed(e *sim.EthUser) []byte { return ethcrypto.CompressPubkey(&e.Key.PublicKey) }
