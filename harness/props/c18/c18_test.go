package c18

import (
	"encoding/json"
	"fmt"
	"math/big"
	"os"
	"path/filepath"
	"sort"
	"strings"
	"testing"
	"time"

	"pgregory.net/rapid"

	"verif/hist"
	"verif/run"
	"verif/sim"
	"verif/txgen"
)

func TestMain(m *testing.M) {
	if s := run.EnvInt("VERIF_C18_TIMEOUT_S", 0); s > 0 {
		caseTimeout = time.Duration(s) * time.Second // self-test of the watchdog with a short bound
	}
	run.Quiet()
	os.Exit(m.Run())
}

const ruleInputs = "hostile inputs executed one at a time on a warmed-up node (scripted prefix after which a well-formed transaction of every kind is applicable): CheckTx(x), a block containing x, then a probe (fresh valid SEND from an untouched account through CheckTx and in a block, Info) compared with a control node that never saw x. Inputs: raw bytes (random, truncated JSON, deep nesting, huge numbers, invalid UTF-8, bit flips, ...), the shared generator with hostile pools, every kind's well-formed message with 1-2 fields replaced from the hostile pool of the field's class and signed correctly, hostile fee / memo / signature list / type, malformed embedded ethereum transactions, OLVM programs and field edits outside the ethereum signature, the bid application's kinds. non-trivial = the input passed the handler's Validate (CheckTx reached ProcessCheck, judged by the response shape) or is a raw-bytes input that parses as a signed transaction of a routed type; distinct by (tier, kind, value-class tags)"

// TestC18Inputs: tiers (a) and (b).
func TestC18Inputs(t *testing.T) {
	h := run.Start(t, "C18")
	defer h.Finish()
	h.SetRule(ruleInputs)
	perFarm := h.Scale(10, 12)
	survey := os.Getenv("VERIF_C18_SURVEY") != ""
	rapid.Check(t, func(rt *rapid.T) {
		u := hist.NewU(rt)
		o := hist.FarmOpts{A: u.N(3, "A"), B: 3 + u.N(3, "B"), Eth: u.N(4, "eth"), Var: u.N(1000, "var")}
		o.Restart = u.N(3, "restarted") == 0
		if o.Restart {
			h.Class("subject-restarted-after-prefix", 1)
		}
		c := &Case{Mode: "inputs", Seed: fmt.Sprintf("c18-%d", h.Seed), Opts: o}
		p, err := newPair(c.Seed, o, true)
		if err != nil {
			rt.Fatalf("harness: %v", err)
		}
		defer p.close()
		if len(p.prefix) > 0 {
			h.Class("farm-prefix-failures", len(p.prefix))
		}
		mk := &maker{s: rapidSrc{u}, f: p.S, excl: h.Excluded}
		g := &hist.Gen{W: p.S.W, T: rt, Hostile: 70, Strange: 30, Excl: h.Excluded, Seen: map[string]int{}, TagsN: map[string]int{}}
		n := perFarm
		for i := 0; i < n; i++ {
			in := mk.next(g)
			c.Inputs = append(c.Inputs, in)
			h.Journal(c)
			if survey {
				fmt.Printf("\nC18-INPUT %s %s\n", in.Tier, classOf(in))
			}
			var v *verdict
			var ir inputResult
			if !guarded(caseTimeout, func() { v, ir = p.runInput(in) }) {
				// the calls did not come back: same case once more on fresh nodes with twice the bound
				h.Class("timeout-first-run", 1)
				p2, hung, v2, err := rerunInputs(c.Seed, o, c.Inputs)
				if err != nil {
					rt.Fatalf("harness: %v", err)
				}
				if hung >= 0 {
					reportHang(h, &Case{Mode: "inputs", Seed: c.Seed, Opts: o, Inputs: c.Inputs[:hung+1]}, c.Inputs[hung])
				}
				h.Class("timeout-not-reproduced", 1)
				p = p2 // the stuck nodes are abandoned
				mk.f = p.S
				g.W = p.S.W
				v, ir = v2, inputResult{}
			}
			if survey && v != nil && v.oracle != "harness" {
				// survey mode (generator development): note the verdict, rebuild the nodes, go on
				fmt.Printf("\nC18-VERDICT %s | %s\n", v.sig(), v.msg)
				b64, _ := json.Marshal(in)
				fmt.Printf("C18-BYTES %s\n", b64)
				p.close()
				p, err = newPair(c.Seed, o, true)
				if err != nil {
					rt.Fatalf("harness: %v", err)
				}
				mk.f = p.S
				g.W = p.S.W
				c.Inputs = nil
				v = nil
			}
			ntKey := ""
			classes := []string{"tier-" + in.Tier, "kind-" + in.Kind}
			if in.Tier == "raw" {
				if k, ok := knownType(in.Bytes); ok {
					ntKey = in.key()
					classes = append(classes, "raw-parsed-as-"+k, "raw-parsed")
				}
				classes = append(classes, "raw-"+strings.Join(in.Tags, ","))
			} else if ir.passedValidate {
				ntKey = in.key()
				classes = append(classes, "passed-validate-"+in.Kind, "passed-validate")
				if ir.checkCode == 0 {
					classes = append(classes, "check-ok")
				}
				if ir.deliverCode == 0 {
					classes = append(classes, "deliver-ok-"+in.Kind)
				}
			}
			h.Eval(ntKey, classes, map[string]interface{}{"tier": in.Tier, "kind": in.Kind, "tags": in.Tags, "bytes": len(in.Bytes)})
			if v != nil {
				h.Fail(rt, v.oracle, v.sig(), c, "%s", v.msg)
			}
		}
	})
}

const ruleHist = "whole generated histories (generated genesis, all focus profiles, hostile pools at 70 %, inapplicable choices at 30 %) on one node: no panic, no exit, and a final probe SEND succeeds; non-trivial = at least 8 blocks with at least 5 transactions that passed Validate; distinct by trace"

// TestC18Histories: tier (c) — a crash can be armed by one transaction and fired by a block hook later.
func TestC18Histories(t *testing.T) {
	h := run.Start(t, "C18")
	defer h.Finish()
	h.SetRule(ruleHist)
	maxBlocks := h.Scale(25, 50)
	rapid.Check(t, func(rt *rapid.T) {
		u := hist.NewU(rt)
		p := hist.GenParams(rt, fmt.Sprint(h.Seed))
		prof := hist.PickProfile(rt)
		tr := &hist.Trace{Params: p, Roles: hist.Roles(p, 1), Profile: prof}
		c := &Case{Mode: "history", Trace: tr}
		nb := u.Range(6, maxBlocks, "nblocks")
		// temper of the history: mostly hostile inputs, or mostly ordinary use (a crash can be armed by accepted
		// transactions and fired by a later ordinary one), with the node restarted rarely or often
		temper := [][2]int{{70, 30}, {70, 30}, {15, 10}, {4, 8}}[u.N(4, "temper")]
		restartPer := []int{30, 30, 6}[u.N(3, "restart-per")]
		var g *hist.Gen
		var last []txgen.Tx
		blocks := 0
		v, okTx := runHistory(h, c, func(w *hist.World, i int) (hist.Step, bool) {
			if g == nil {
				g = &hist.Gen{W: w, T: rt, Hostile: temper[0], Strange: temper[1], RestartPer: restartPer, Kinds: hist.Profiles[prof], Excl: h.Excluded, Seen: map[string]int{}, TagsN: map[string]int{}}
			}
			if blocks >= nb {
				return hist.Step{}, false
			}
			if len(w.Results) > 0 && last != nil {
				w.Observe(last, w.Results[len(w.Results)-1])
			}
			txs := g.DrawTxs(5)
			last = txs
			blocks++
			return hist.BlockStep(g.DrawEnv(txs), txs), true
		})
		v = historyVerdict(h, c, v)
		ntKey := ""
		if blocks >= 8 && okTx >= 5 {
			b, _ := json.Marshal(tr.Steps)
			ntKey = string(b)
		}
		h.Eval(ntKey, []string{"history-profile-" + prof}, tr.Summary())
		if v != nil {
			h.Fail(rt, v.oracle, v.sig(), c, "%s", v.msg)
		}
	})
}

// runHistory executes a trace on one replica; every step is journalled before it runs.
func runHistory(h *run.H, c *Case, draw func(w *hist.World, i int) (hist.Step, bool)) (*verdict, int) {
	return runHistoryBound(h, c, draw, caseTimeout)
}

// historyVerdict turns a "timeout" verdict into a reproduced hang (process exit) or an inconclusive note.
func historyVerdict(h *run.H, c *Case, v *verdict) *verdict {
	if v == nil || v.oracle != "timeout" {
		return v
	}
	h.Class("timeout-first-run", 1)
	v2, _ := runHistoryBound(h, c, nil, 2*caseTimeout)
	if v2 != nil && v2.oracle == "timeout" {
		msg := "history: " + v2.msg + " (and not within half of that on the first run): the node stops answering"
		h.WriteFailure("node-hang", "C18/node-hang/history", c, msg)
		h.Finish()
		fmt.Fprintln(os.Stderr, "[C18/node-hang] "+msg)
		os.Exit(1)
	}
	h.Class("timeout-not-reproduced", 1)
	return v2
}

func runHistoryBound(h *run.H, c *Case, draw func(w *hist.World, i int) (hist.Step, bool), bound time.Duration) (*verdict, int) {
	tr := c.Trace
	w, err := hist.NewWorld(tr.Params, tr.Roles)
	if err != nil {
		return &verdict{"harness", "world", err.Error()}, 0
	}
	abandoned := false
	defer func() {
		if !abandoned {
			w.Close()
		}
	}()
	if _, err := w.Init(); err != nil {
		return &verdict{"harness", "init", err.Error()}, 0
	}
	R := w.R[0]
	if R.Panicked {
		return &verdict{"node-panic", "InitChain", "the application panicked in InitChain"}, 0
	}
	passed := 0
	for i := 0; ; i++ {
		var st hist.Step
		if draw != nil {
			s, ok := draw(w, i)
			if !ok {
				break
			}
			st = s
			tr.Steps = append(tr.Steps, st)
			h.Journal(c)
		} else {
			if i >= len(tr.Steps) {
				break
			}
			st = tr.Steps[i]
		}
		if st.Kind != "block" {
			continue
		}
		var sv *verdict
		if !guarded(bound, func() {
			for k, tx := range st.Spec.Txs {
				ck := R.CheckTx(tx)
				if R.Panicked {
					sv = &verdict{"node-panic", stepClass(st, k), fmt.Sprintf("history: the application panicked in CheckTx of a %s (tags %v) before block %d", kindOf(st, k), tagsOf(st, k), w.C.Height+1)}
					return
				}
				if passedValidate(ck) {
					passed++
				}
			}
			b, _ := w.RunBlock(*st.Spec)
			R = w.R[0] // (a restart before the block replaces the replica)
			if R.Panicked {
				sv = &verdict{"node-panic", "block:" + R.PanicCall, fmt.Sprintf("history: the application panicked in %s at height %d (kinds %v)", R.PanicCall, b.Height, st.Kinds)}
			}
		}) {
			abandoned = true
			return &verdict{"timeout", "history", fmt.Sprintf("step %d (kinds %v) did not return within %v", i, st.Kinds, bound)}, passed
		}
		if sv != nil {
			return sv, passed
		}
	}
	// final probe
	u := w.G.U.Users
	pu := u[len(u)-1]
	tx := txgen.Send(pu, pu.Addr, u[0].Addr, txgen.Amt("OLT", bigOne), w.Fee, "final-probe")
	v0 := w.G.U.Vals[0]
	stk := txgen.Stake(v0, v0.Stake.Addr, txgen.Amt("OLT", bigOne), w.Fee, "final-probe-stake")
	var pv *verdict
	if !guarded(bound, func() {
		R.CheckTx(tx.Bytes)
		R.CheckTx(stk.Bytes)
		// the probes' own success depends on what the history did to the accounts; only liveness is judged here
		w.RunBlock(sim.BlockSpec{GapSecs: 5, Txs: [][]byte{tx.Bytes, stk.Bytes}})
		if R.Panicked {
			pv = &verdict{"node-panic", "final-probe", "history: the final probe made the application panic in " + R.PanicCall}
			return
		}
		info := R.Info()
		if info.LastBlockHeight != w.C.Height {
			pv = &verdict{"probe-failed", "history", fmt.Sprintf("history: Info reports height %d after block %d", info.LastBlockHeight, w.C.Height)}
		}
	}) {
		abandoned = true
		return &verdict{"timeout", "history", fmt.Sprintf("the final probe (SEND and STAKE through CheckTx and in a block, Info) did not return within %v", bound)}, passed
	}
	return pv, passed
}

var bigOne = big.NewInt(1)

func kindOf(st hist.Step, k int) string {
	if k < len(st.Kinds) {
		return st.Kinds[k]
	}
	return "?"
}

func tagsOf(st hist.Step, k int) []string {
	if k < len(st.Tags) {
		return st.Tags[k]
	}
	return nil
}

func stepClass(st hist.Step, k int) string {
	return kindOf(st, k) + ":" + strings.Join(tagsOf(st, k), ",")
}

// TestReplay re-executes a saved case. Before each input it leaves a "died here" verdict in the
// output directory and removes it once the input was survived, so that a process death (logger.Fatal
// -> os.Exit) carries the precise signature of the input that killed the node.
func TestReplay(t *testing.T) {
	path := run.ReplayFile()
	if path == "" {
		t.Skip("no VERIF_REPLAY")
	}
	f, err := run.LoadFailure(path)
	if err != nil {
		t.Fatal(err)
	}
	var c Case
	if err := json.Unmarshal(f.Case, &c); err != nil {
		t.Fatal(err)
	}
	h := run.Start(t, "C18")
	defer h.Finish()
	if c.Mode == "history" {
		h.WriteFailure("node-died", "C18/node-died/history", &c, "the process died while replaying this history")
		v, _ := runHistory(h, &c, nil)
		clearFailure(h)
		v = historyVerdict(h, &c, v)
		if v != nil {
			h.Fail(t, v.oracle, v.sig(), &c, "%s", v.msg)
		}
		return
	}
	p, err := newPair(c.Seed, c.Opts, true)
	if err != nil {
		t.Fatal(err)
	}
	defer p.close()
	for i, in := range c.Inputs {
		one := &Case{Mode: "inputs", Seed: c.Seed, Opts: c.Opts, Inputs: c.Inputs[:i+1]}
		h.WriteFailure("node-died", "C18/node-died/"+classOf(in), one, fmt.Sprintf("the process exited while executing input #%d: %s (tier %s, tags %v)", i, in.Kind, in.Tier, in.Tags))
		var v *verdict
		if !guarded(caseTimeout, func() { v, _ = p.runInput(in) }) {
			clearFailure(h)
			_, hung, v2, err := rerunInputs(c.Seed, c.Opts, c.Inputs[:i+1])
			if err != nil {
				t.Fatal(err)
			}
			if hung >= 0 {
				reportHang(h, &Case{Mode: "inputs", Seed: c.Seed, Opts: c.Opts, Inputs: c.Inputs[:hung+1]}, c.Inputs[hung])
			}
			if v2 != nil {
				h.Fail(t, v2.oracle, v2.sig(), one, "%s", v2.msg)
			}
			t.Skip("a timeout did not reproduce on fresh nodes: inconclusive, not a violation")
		}
		clearFailure(h)
		if v != nil {
			h.Fail(t, v.oracle, v.sig(), one, "%s", v.msg)
		}
	}
}

// reportHang records a reproduced hang and ends the process (the stuck goroutines cannot be stopped, and
// rapid must not try to shrink a hanging case).
func reportHang(h *run.H, c *Case, in Input) {
	msg := fmt.Sprintf("after a %s input (tier %s, tags %v) the node stops answering: the calls for the input and the probe (SEND and a staking transaction through CheckTx and in a block, Info) did not return within %v, and again not within %v on fresh nodes", in.Kind, in.Tier, in.Tags, caseTimeout, 2*caseTimeout)
	h.WriteFailure("node-hang", "C18/node-hang/"+classOf(in), c, msg)
	h.Finish()
	fmt.Fprintln(os.Stderr, "[C18/node-hang] "+msg)
	os.Exit(1)
}

func clearFailure(h *run.H) {
	if h.OutDir != "" {
		_ = os.Remove(filepath.Join(h.OutDir, "fail.json"))
	}
}

// summarise prints a sorted class table (debugging aid for the generator's distribution).
func summarise(m map[string]int) string {
	var ks []string
	for k := range m {
		ks = append(ks, k)
	}
	sort.Strings(ks)
	s := ""
	for _, k := range ks {
		s += fmt.Sprintf("%s=%d ", k, m[k])
	}
	return s
}
