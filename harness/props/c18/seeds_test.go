package c18

import (
	"encoding/json"
	"math/big"
	"os"
	"path/filepath"
	"testing"

	ethcmn "github.com/ethereum/go-ethereum/common"

	"github.com/Oneledger/protocol/action"
	"github.com/Oneledger/protocol/external_apps/bid/bid_action"
	"github.com/Oneledger/protocol/external_apps/bid/bid_data"

	"verif/hist"
	"verif/run"
	"verif/sim"
	"verif/txgen"
)

// editMsg re-writes one field of the message of a signed transaction; sign=nil keeps the signatures.
func editMsg(t *testing.T, b []byte, field string, value interface{}, signers ...*sim.User) []byte {
	stx, err := parseSigned(b)
	if err != nil {
		t.Fatal(err)
	}
	msg, err := decodeObj(stx.Data)
	if err != nil {
		t.Fatal(err)
	}
	msg[field] = value
	stx.Data, _ = json.Marshal(msg)
	if len(signers) > 0 {
		return txgen.SignRaw(stx.RawTx, signers...)
	}
	out, _ := json.Marshal(stx)
	return out
}

// TestMakeSeeds writes one minimal witness per confirmed crasher and a regression case of survivable
// hostile inputs (VERIF_MAKE_SEEDS=<dir>).
func TestMakeSeeds(t *testing.T) {
	dir := os.Getenv("VERIF_MAKE_SEEDS")
	if dir == "" {
		t.Skip("VERIF_MAKE_SEEDS not set")
	}
	_ = os.MkdirAll(dir, 0o755)
	seed, o := "c18-kf", hist.FarmOpts{A: 0, B: 3, Eth: 0, Var: 1}
	f, err := newFarm(seed, o)
	if err != nil {
		t.Fatal(err)
	}
	defer f.W.Close()
	A, B, E := f.A, f.B, f.E
	fee := f.W.Fee
	token, lockc := sim.TestTokenContract, sim.ERCLockContract
	other := ethcmn.HexToAddress("0x99")
	transfer := func(to ethcmn.Address) []byte {
		d := ethcmn.FromHex("0xa9059cbb")
		d = append(d, ethcmn.LeftPadBytes(to.Bytes(), 32)...)
		return append(d, ethcmn.LeftPadBytes([]byte{5}, 32)...)
	}
	olvmFee := txgen.Fee{Price: big.NewInt(1000000000), Cur: "OLT", Gas: 300000}
	olvmTo := ethcmn.BytesToAddress(B.Addr)
	plainOlvm := txgen.OLVM(E, txgen.OLVMArgs{ChainID: f.W.P.ChainID, Nonce: f.W.OlvmNext[E.Name], To: &olvmTo, Value: big.NewInt(1), Fee: olvmFee})
	noSig, _ := parseSigned(plainOlvm.Bytes)
	noSig.Signatures[0].Signed = nil
	noSigBytes, _ := json.Marshal(noSig)
	prop, err := f.Make("PROPOSAL_CREATE")
	if err != nil {
		t.Fatal(err)
	}
	ws := []struct {
		file string
		in   Input
	}{
		{"kf-eth-redeem-without-method-signature.json", Input{Kind: "ETH_REDEEM", Tier: "eth", Tags: []string{"eth-random-bytes"},
			Bytes: txgen.EthRedeem(A, A.Addr, E.Addr, []byte("not an ethereum transaction"), fee, "kf1").Bytes}},
		{"kf-erc20-redeem-without-method-signature.json", Input{Kind: "ERC20_REDEEM", Tier: "eth", Tags: []string{"eth-random-bytes"},
			Bytes: txgen.ERC20Redeem(A, A.Addr, E.Addr, []byte{1, 2, 3}, fee, "kf2").Bytes}},
		{"kf-eth-lock-contract-creation.json", Input{Kind: "ETH_LOCK", Tier: "eth", Tags: []string{"eth-contract-creation"},
			Bytes: txgen.EthLock(A, A.Addr, txgen.EthLockRaw(E, 7, nil, big.NewInt(1000)), fee, "kf3").Bytes}},
		{"kf-erc20-lock-contract-creation.json", Input{Kind: "ERC20_LOCK", Tier: "eth", Tags: []string{"eth-contract-creation"},
			Bytes: txgen.ERC20Lock(A, A.Addr, txgen.RawEth(E, 7, nil, big.NewInt(0), transfer(lockc)), fee, "kf4").Bytes}},
		{"kf-erc20-lock-without-method-signature.json", Input{Kind: "ERC20_LOCK", Tier: "eth", Tags: []string{"eth-no-data"},
			Bytes: txgen.ERC20Lock(A, A.Addr, txgen.RawEth(E, 7, &token, big.NewInt(0), nil), fee, "kf5").Bytes}},
		{"kf-erc20-lock-receiver-not-lock-contract.json", Input{Kind: "ERC20_LOCK", Tier: "eth", Tags: []string{"eth-wrong-receiver"},
			Bytes: txgen.ERC20Lock(A, A.Addr, txgen.RawEth(E, 7, &token, big.NewInt(0), transfer(other)), fee, "kf6").Bytes}},
		{"fixed-olvm-chainid-null.json", Input{Kind: "OLVM", Tier: "olvm", Tags: []string{"chainID=null"},
			Bytes: editMsg(t, plainOlvm.Bytes, "chainID", nil)}},
		{"kf-olvm-basefee.json", Input{Kind: "OLVM", Tier: "olvm", Tags: []string{"olvm-create:basefee"},
			Bytes: txgen.OLVM(E, txgen.OLVMArgs{ChainID: f.W.P.ChainID, Nonce: f.W.OlvmNext[E.Name], Data: ethcmn.FromHex("0x4860005260206000f3"), Fee: olvmFee}).Bytes}},
		{"fixed-olvm-signature-size.json", Input{Kind: "OLVM", Tier: "olvm", Tags: []string{"signature-nil"}, Bytes: noSigBytes}},
		{"kf-proposal-create-funding-goal-nil.json", Input{Kind: "PROPOSAL_CREATE", Tier: "field", Tags: []string{"fundingGoal=str-null"},
			Bytes: editMsg(t, prop.Bytes, "fundingGoal", nil, A)}},
		{"kf-bid-create-unknown-asset-type.json", Input{Kind: "BID_CREATE", Tier: "bid", Tags: []string{"assetType=int-small"},
			Bytes: txgen.Build("BID_CREATE", bid_action.BID_CREATE, bid_action.CreateBid{AssetOwner: A.Addr, AssetName: "alice.ol", AssetType: bid_data.BidAssetType(0x99), Bidder: B.Addr,
				Amount: txgen.Amt("OLT", big.NewInt(1000000000000000000)), Deadline: f.W.C.Time.Unix() + 100000}, fee, "kf11", B).Bytes}},
	}
	for _, w := range ws {
		if rc := rootClasses(w.in.Bytes); len(rc) == 0 {
			t.Fatalf("%s: the classifier does not recognise the witness", w.file)
		}
		writeCase(t, dir, w.file, &Case{Mode: "inputs", Seed: seed, Opts: o, Inputs: []Input{w.in}})
	}

	// regression: hostile inputs next to the crashers that the node must survive (and the fixed ones)
	var reg []Input
	add := func(kind string, tags string, b []byte) {
		reg = append(reg, Input{Kind: kind, Tier: "seed", Tags: []string{tags}, Bytes: b})
	}
	add("NETWORK_UNDELEGATE", "cur-unknown (fixed 54b6615)", txgen.Undelegate(A, A.Addr, txgen.Amt("XYZ", big.NewInt(5)), fee, "r1").Bytes)
	add("NETWORK_UNDELEGATE", "cur-other (fixed 54b6615)", txgen.Undelegate(A, A.Addr, txgen.Amt("VT", big.NewInt(5)), fee, "r2").Bytes)
	v0 := f.W.G.U.Vals[0]
	add("PROPOSAL_VOTE", "enum-out (fixed a517ef7)", txgen.ProposalVote(f.P["vote"], v0.Stake.Addr, v0.Key.Addr, 7, fee, "r3", v0.Stake, v0.Key).Bytes)
	add("PROPOSAL_VOTE", "enum-out (fixed a517ef7)", txgen.ProposalVote(f.P["vote"], v0.Stake.Addr, v0.Key.Addr, -1, fee, "r4", v0.Stake, v0.Key).Bytes)
	big64 := new(big.Int).Add(new(big.Int).Lsh(big.NewInt(1), 64), big.NewInt(12))
	add("STAKE", "amt-2^64+k (fixed 3c4a1f5)", txgen.Stake(v0, v0.Stake.Addr, txgen.Amt("OLT", big64), fee, "r5").Bytes)
	add("ETH_REPORT_FINALITY_MINT", "idx-neg", txgen.ReportFinality(v0.Key, txgen.TrackerName(f.LockRaw), A.Addr, v0.Key.Addr, -1, true, fee, "r6").Bytes)
	add("ETH_REPORT_FINALITY_MINT", "idx-maxint", txgen.ReportFinality(v0.Key, txgen.TrackerName(f.LockRaw), A.Addr, v0.Key.Addr, 1<<63-1, true, fee, "r7").Bytes)
	add("ALLEGATION_VOTE", "enum-out", txgen.AllegationVote(v0.Key, "reqV", v0.Key.Addr, 127, fee, "r8").Bytes)
	add("ALLEGATION_VOTE", "enum-out", txgen.AllegationVote(v0.Key, "reqV", v0.Key.Addr, -128, fee, "r9").Bytes)
	add("SEND", "cur-other", txgen.Send(A, A.Addr, B.Addr, txgen.Amt("VT", big.NewInt(1)), fee, "r10").Bytes)
	add("SEND", "cur-unknown", txgen.Send(A, A.Addr, B.Addr, txgen.Amt("XYZ", big.NewInt(1)), fee, "r11").Bytes)
	add("SENDPOOL", "cur-other", txgen.SendPool(A, A.Addr, "RewardsPool", txgen.Amt("ETH", big.NewInt(1)), fee, "r12").Bytes)
	add("DOMAIN_SEND", "cur-other", txgen.DomainSend(B, B.Addr, "alice.ol", txgen.Amt("VT", big.NewInt(1)), fee, "r13").Bytes)
	add("PROPOSAL_FUND", "cur-other", txgen.ProposalFund(B, f.P["fund"], B.Addr, txgen.Amt("VT", big.NewInt(1)), fee, "r14").Bytes)
	add("ETH_REDEEM", "eth-sig-at-end", txgen.EthRedeem(A, A.Addr, E.Addr, append([]byte("junk"), ethcmn.FromHex("0xdb006a75")...), fee, "r15").Bytes)
	emptySig, _ := json.Marshal(action.SignedTx{RawTx: txgen.Raw(action.SEND, []byte(`{}`), fee, "r16"), Signatures: []action.Signature{}})
	add("SEND", "signatures-empty", emptySig)
	add("RAW", "deep nesting", []byte(repeat("[", 100000)))
	add("RAW", "empty", []byte{})
	writeCase(t, dir, "seed-survivable-hostile-inputs.json", &Case{Mode: "inputs", Seed: seed, Opts: o, Inputs: reg})

	// history: the only validator unstakes everything while the fee pool is above the distribution threshold:
	// the total power is zero at the next block end (fixed 0dadc25: fee shares were divided by it)
	hp := sim.DefaultParams()
	hp.Seed = "c18-zero-power"
	hp.ValPower = []int64{3000000}
	hw, err := hist.NewWorld(hp, hist.Roles(hp, 1))
	if err != nil {
		t.Fatal(err)
	}
	defer hw.Close()
	if _, err := hw.Init(); err != nil {
		t.Fatal(err)
	}
	htr := &hist.Trace{Params: hp, Roles: hist.Roles(hp, 1), Profile: "seed"}
	hv, hu := hw.G.U.Vals[0], hw.G.U.Users
	blk := func(txs ...txgen.Tx) {
		spec := sim.BlockSpec{GapSecs: 5}
		for _, x := range txs {
			spec.Txs = append(spec.Txs, x.Bytes)
		}
		st := hist.BlockStep(spec, txs)
		htr.Steps = append(htr.Steps, st)
		hw.RunBlock(spec)
	}
	blk()
	var sends []txgen.Tx
	for i := 0; i < 6; i++ {
		sends = append(sends, txgen.Send(hu[i%3], hu[i%3].Addr, hu[3].Addr, txgen.Amt("OLT", big.NewInt(1000)), hw.Fee, hw.Memo()))
	}
	blk(sends...)
	blk(txgen.Unstake(hv.Key.Addr, hv.Stake.Addr, txgen.Amt("OLT", big.NewInt(3000000)), hw.Fee, hw.Memo(), hv.Stake, hv.Key))
	for i := 0; i < 4; i++ {
		blk(txgen.Send(hu[0], hu[0].Addr, hu[1].Addr, txgen.Amt("OLT", big.NewInt(7)), hw.Fee, hw.Memo()))
	}
	recs := hw.ValRecs()
	if len(recs) != 1 || recs[0].Power != 0 {
		t.Fatalf("zero-power seed: the validator record is %+v", recs)
	}
	writeCase(t, dir, "fixed-fee-distribution-zero-total-power.json", &Case{Mode: "history", Trace: htr})
}

func repeat(s string, n int) string {
	b := make([]byte, 0, n*len(s))
	for i := 0; i < n; i++ {
		b = append(b, s...)
	}
	return string(b)
}

func writeCase(t *testing.T, dir, name string, c *Case) {
	cb, _ := json.Marshal(c)
	f := run.Failure{Property: "C18", Test: "TestReplay", Oracle: "seed", Message: "hand-built case", Sig: "C18/seed", Case: cb}
	b, _ := json.MarshalIndent(f, "", " ")
	if err := os.WriteFile(filepath.Join(dir, name), b, 0o644); err != nil {
		t.Fatal(err)
	}
}
