package c18

import (
	"fmt"
	"os"
	"strconv"
	"strings"
	"sync"
	"testing"
	"verif/run"

	"verif/hist"
	"verif/sim"
)

var (
	fuzzMu    sync.Mutex
	fuzzFarm  *hist.Farm
	fuzzBlock *sim.Block
	fuzzNonce map[string]uint64
)

func fuzzExcl() func(string) bool {
	ex := map[string]bool{}
	for _, e := range strings.Split(os.Getenv("VERIF_EXCLUDE"), ",") {
		if e = strings.TrimSpace(e); e != "" {
			ex[e] = true
		}
	}
	return func(tag string) bool { return ex[tag] }
}

// fuzzSetup builds the warmed-up node once per worker process and prepares one block at a
// fixed height; every iteration re-begins that block, so nothing is ever committed.
func fuzzSetup(t *testing.T) (*hist.Farm, *sim.Block) {
	if fuzzFarm == nil {
		f, err := newFarm("c18-fuzz", hist.FarmOpts{A: 0, B: 3, Eth: 0, Var: 1})
		if err != nil {
			t.Fatalf("harness: %v", err)
		}
		fuzzFarm = f
		fuzzBlock = f.W.C.MakeBlock(sim.BlockSpec{GapSecs: 5})
		fuzzNonce = map[string]uint64{}
		for k, v := range f.W.EthNonce {
			fuzzNonce[k] = v
		}
	}
	// decoding must be a function of the fuzz bytes only: work on a copy of the farm's counters
	fc := *fuzzFarm
	for k := range fc.W.EthNonce {
		delete(fc.W.EthNonce, k)
	}
	for k, v := range fuzzNonce {
		fc.W.EthNonce[k] = v
	}
	return &fc, fuzzBlock
}

// FuzzC18Deliver: the fuzz bytes choose kind, fields and hostile replacements of a structurally valid,
// correctly signed transaction (decode layer = the maker driven by the bytes); it is delivered in a
// fresh deliver state (BeginBlock at a fixed height, DeliverTx, EndBlock, no Commit).
func FuzzC18Deliver(f *testing.F) {
	for _, s := range fuzzSeeds {
		f.Add(s)
	}
	excl := fuzzExcl()
	f.Fuzz(func(t *testing.T, data []byte) {
		fuzzMu.Lock()
		defer fuzzMu.Unlock()
		farm, blk := fuzzSetup(t)
		mk := &maker{s: &byteSrc{b: data}, f: farm, excl: excl}
		in := mk.next(nil)
		R := farm.W.R[0]
		R.BeginBlock(blk)
		if !R.Panicked {
			R.DeliverTx(in.Bytes)
		}
		if !R.Panicked {
			R.EndBlock(blk.Height)
		}
		if R.Panicked {
			call := R.PanicCall
			fuzzFarm = nil // the application closed itself; the next iteration needs a new node
			t.Fatalf("[C18/node-panic] the application panicked in %s on a %s input (tier %s, tags %v, root classes %v)", call, in.Kind, in.Tier, in.Tags, rootClasses(in.Bytes))
		}
	})
}

// fuzzSeeds: byte strings that steer the decode layer to the hostile constants (source selector first,
// then kind / field / pool indexes); the fuzzer mutates from there.
var fuzzSeeds = func() [][]byte {
	var out [][]byte
	for src := 0; src < 100; src += 7 {
		for k := 0; k < 34; k += 3 {
			out = append(out, []byte{byte(src), byte(k), 0, byte(k * 7), byte(src * 3), 1, 2, 3, 4, 5, 6, 7, 8, 9, 10, 11, 12, 13, 14, 15, 16})
		}
	}
	out = append(out, []byte{}, []byte{0xff, 0xff, 0xff, 0xff, 0xff, 0xff, 0xff, 0xff})
	return out
}()

// TestFuzzDecode prints what a fuzz input decodes to (VERIF_FUZZ_INPUT = Go-quoted bytes) and runs it a few times.
func TestFuzzDecode(t *testing.T) {
	q := os.Getenv("VERIF_FUZZ_INPUT")
	if q == "" {
		t.Skip("VERIF_FUZZ_INPUT not set")
	}
	data, err := strconv.Unquote(q)
	if err != nil {
		t.Fatal(err)
	}
	farm, blk := fuzzSetup(t)
	out := run.Quiet()
	for i := 0; i < 4; i++ {
		mk := &maker{s: &byteSrc{b: []byte(data)}, f: farm, excl: fuzzExcl()}
		in := mk.next(nil)
		R := farm.W.R[0]
		R.BeginBlock(blk)
		d := R.DeliverTx(in.Bytes)
		fmt.Fprintf(out, "iteration %d: %s tier %s tags %v root %v -> code %d log %.200s panicked=%v\n", i, in.Kind, in.Tier, in.Tags, rootClasses(in.Bytes), d.Code, d.Log, R.Panicked)
		if R.Panicked {
			fmt.Fprintf(out, "BYTES %s\n", in.Bytes)
			break
		}
		R.EndBlock(blk.Height)
		if R.Panicked {
			fmt.Fprintf(out, "PANIC in EndBlock\nBYTES %s\n", in.Bytes)
			break
		}
	}
}
