package c11

import (
	"encoding/json"
	"math/big"
	"os"
	"path/filepath"
	"testing"

	"github.com/Oneledger/protocol/action"

	"verif/hist"
	"verif/run"
	"verif/sim"
	"verif/txgen"
)

type seedBuilder struct {
	tr  *hist.Trace
	g   *sim.Genesis
	fee txgen.Fee
	n   int
}

func newSeed(p sim.Params, name string) *seedBuilder {
	return &seedBuilder{tr: &hist.Trace{Params: p, Roles: hist.Roles(p, 1), Profile: "hand:" + name}, g: sim.BuildGenesis(p), fee: txgen.DefaultFee()}
}

func (s *seedBuilder) memo() string { s.n++; return "seed" + string(rune('a'+s.n)) }

func (s *seedBuilder) block(txs ...txgen.Tx) {
	spec := sim.BlockSpec{GapSecs: 5}
	for _, x := range txs {
		spec.Txs = append(spec.Txs, x.Bytes)
	}
	s.tr.Steps = append(s.tr.Steps, hist.BlockStep(spec, txs))
}

func writeSeed(t *testing.T, dir, name, oracle, sig, msg string, tr *hist.Trace) {
	cb, _ := json.Marshal(tr)
	f := run.Failure{Property: "C11", Test: "TestReplay", Oracle: oracle, Message: msg, Sig: sig, Case: cb}
	b, _ := json.MarshalIndent(f, "", " ")
	if err := os.WriteFile(filepath.Join(dir, name), b, 0o644); err != nil {
		t.Fatal(err)
	}
}

func olt(n int64) action.Amount { return txgen.Amt("OLT", big.NewInt(n)) }

func baseParams(seed string, powers ...int64) sim.Params {
	p := sim.DefaultParams()
	p.Seed = seed
	p.Frankenstein = 0
	p.MinSelfDeleg, p.TopCount, p.Maturity = 1000, 4, 1
	p.ValPower = powers
	p.Evidence.BlockVotesDiff = 2
	p.Evidence.MinVotesRequired = 1
	p.Witnesses = nil
	return p
}

// TestMakeSeeds writes hand-built minimal scenarios as replay files (VERIF_MAKE_SEEDS=<dir>).
func TestMakeSeeds(t *testing.T) {
	dir := os.Getenv("VERIF_MAKE_SEEDS")
	if dir == "" {
		t.Skip("VERIF_MAKE_SEEDS not set")
	}
	_ = os.MkdirAll(dir, 0o755)

	// 1. withdraw during the freeze by naming an address that has no validator record
	s := newSeed(baseParams("c11-bypass", 1005, 1006, 1007), "withdraw-naming-foreign-address-while-frozen")
	v := s.g.U.Vals
	u0 := s.g.U.Users[0]
	s.block()
	s.block(txgen.Unstake(v[2].Key.Addr, v[2].Stake.Addr, olt(5), s.fee, s.memo(), v[2].Stake, v[2].Key))
	s.block(txgen.Allegation(v[0].Key, "q1", v[0].Key.Addr, v[2].Key.Addr, 2, "p", s.fee, s.memo()),
		txgen.AllegationVote(v[0].Key, "q1", v[0].Key.Addr, 1, s.fee, s.memo()),
		txgen.AllegationVote(v[1].Key, "q1", v[1].Key.Addr, 1, s.fee, s.memo()))
	s.block(txgen.WithdrawStake(v[2].Key.Addr, v[2].Stake.Addr, olt(5), s.fee, s.memo(), v[2].Stake, v[2].Key), // refused: frozen
		txgen.WithdrawStake(u0.Addr, v[2].Stake.Addr, olt(5), s.fee, s.memo(), v[2].Stake, u0)) // accepted
	s.block()
	writeSeed(t, dir, "kf-frozen-withdraw-bypass.json", "frozen", "C11/frozen/WITHDRAW-naming-address-without-record", "WITHDRAW naming an address without validator record while the delegator's validator is frozen", s.tr)

	// 2. stake on a record whose previous-block power is zero: the block end deletes the record
	s = newSeed(baseParams("c11-zero", 1005, 1006), "restake-after-unstaking-everything")
	v = s.g.U.Vals
	s.block()
	s.block(txgen.Unstake(v[1].Key.Addr, v[1].Stake.Addr, olt(1006), s.fee, s.memo(), v[1].Stake, v[1].Key))
	s.block(txgen.Stake(v[1], v[1].Stake.Addr, olt(1000), s.fee, s.memo()))
	s.block()
	writeSeed(t, dir, "kf-restake-deletes-record.json", "stake-sum", "C11/stake-sum/record-missing", "unstake everything, stake again in the next block", s.tr)

	// 3. a verdict in the block that also purges the accused: the delayed stake reduction is refused
	s = newSeed(baseParams("c11-delayed", 1005, 1006, 1007, 1008), "verdict-in-purge-block")
	v = s.g.U.Vals
	s.block()
	s.block(txgen.Unstake(v[3].Key.Addr, v[3].Stake.Addr, olt(10), s.fee, s.memo(), v[3].Stake, v[3].Key))
	s.block(txgen.Allegation(v[0].Key, "q1", v[0].Key.Addr, v[3].Key.Addr, 2, "p", s.fee, s.memo()),
		txgen.AllegationVote(v[0].Key, "q1", v[0].Key.Addr, 1, s.fee, s.memo()),
		txgen.AllegationVote(v[1].Key, "q1", v[1].Key.Addr, 1, s.fee, s.memo()))
	s.block()
	s.block()
	writeSeed(t, dir, "kf-penalty-not-applied-to-record.json", "stake-sum", "C11/stake-sum/record-differs", "guilty verdict in the block in which the accused is purged for low stake", s.tr)

	// 4. regression input (must pass): unstake -> maturity -> partial withdraws, early and excessive
	// attempts, a verdict while an unstake is maturing, refused unstake / withdraw during the freeze
	p := baseParams("c11-regress", 1010, 1006, 1007, 1008)
	p.Maturity = 3
	s = newSeed(p, "lifecycle-and-freeze")
	v = s.g.U.Vals
	wd := func(i int, n int64) txgen.Tx {
		return txgen.WithdrawStake(v[i].Key.Addr, v[i].Stake.Addr, olt(n), s.fee, s.memo(), v[i].Stake, v[i].Key)
	}
	un := func(i int, n int64) txgen.Tx {
		return txgen.Unstake(v[i].Key.Addr, v[i].Stake.Addr, olt(n), s.fee, s.memo(), v[i].Stake, v[i].Key)
	}
	s.block()
	s.block(un(0, 5), txgen.Stake(v[1], v[1].Stake.Addr, olt(4), s.fee, s.memo()))
	s.block(wd(0, 5), un(2, 3))
	s.block(wd(0, 5), txgen.Allegation(v[0].Key, "q1", v[0].Key.Addr, v[2].Key.Addr, 2, "p", s.fee, s.memo()),
		txgen.AllegationVote(v[0].Key, "q1", v[0].Key.Addr, 1, s.fee, s.memo()),
		txgen.AllegationVote(v[1].Key, "q1", v[1].Key.Addr, 1, s.fee, s.memo()))
	s.block(wd(0, 5), un(2, 1))
	s.block(wd(0, 2), wd(2, 1))
	s.block(wd(0, 3), wd(2, 3))
	s.block(wd(0, 1), un(2, 2))
	s.block(txgen.Release(v[2].Key, v[2].Key.Addr, s.fee, s.memo()))
	s.block(wd(2, 3), un(2, 2))
	s.block()
	s.block()
	s.block(wd(2, 2))
	s.block(wd(2, 1), wd(2, 1), wd(2, 1))
	writeSeed(t, dir, "seed-lifecycle-and-freeze.json", "seed", "C11/seed", "hand-built regression scenario", s.tr)
}
