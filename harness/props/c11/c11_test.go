// Package c11: stake lifecycle — unstaked funds unlock only after maturity, exactly once;
// nothing moves while the validator is frozen; recorded stake equals the delegators' locked sum.
package c11

import (
	"encoding/json"
	"fmt"
	"math/big"
	"os"
	"sort"
	"strings"
	"testing"

	"pgregory.net/rapid"

	"verif/hist"
	"verif/run"
	"verif/sim"
	"verif/stk"
	"verif/txgen"
)

func TestMain(m *testing.M) {
	run.Quiet()
	os.Exit(m.Run())
}

// lot is an unstaked amount on its way to the delegator: attributed to the validator it was
// unstaked from (the store keeps matured amounts per delegator only).
type lot struct {
	val      string
	left     *big.Int
	unstakeH int64
	matureAt int64
}

type monitor struct {
	inited    bool
	staked    map[string]*big.Int
	withdrawn map[string]*big.Int
	penalties map[string]*big.Int
	lots      map[string][]*lot
	feats     map[string]int
	events    []string
}

func newMonitor() *monitor {
	return &monitor{staked: map[string]*big.Int{}, withdrawn: map[string]*big.Int{}, penalties: map[string]*big.Int{}, lots: map[string][]*lot{}, feats: map[string]int{}}
}

func add(m map[string]*big.Int, k string, a *big.Int) {
	if m[k] == nil {
		m[k] = big.NewInt(0)
	}
	m[k].Add(m[k], a)
}

func get(m map[string]*big.Int, k string) *big.Int {
	if m[k] == nil {
		return big.NewInt(0)
	}
	return m[k]
}

// surelyFrozen: the validator's frozen record stood during every transaction of block c.H.
func surelyFrozen(c *stk.BlockCtx, val string) bool {
	p, q := c.Prev.Frozen[val], c.Cur.Frozen[val]
	if q == nil || !q.IsFrozen() {
		return false
	}
	if p != nil && p.IsFrozen() && p.FrozenHeight == q.FrozenHeight {
		return true
	}
	return q.Status == stk.StatusMissedVotes && q.FrozenHeight == c.H
}

// verdictAt: a guilty verdict froze the validator at the end of block c.H.
func verdictAt(c *stk.BlockCtx, val string) bool {
	q := c.Cur.Frozen[val]
	if q == nil || q.Status != stk.StatusByzantine || q.FrozenHeight != c.H {
		return false
	}
	p := c.Prev.Frozen[val]
	return p == nil || p.FrozenHeight != c.H || p.Status != stk.StatusByzantine
}

func (m *monitor) Block(c *stk.BlockCtx) *stk.Violation {
	for _, p := range c.Cur.Problems {
		return stk.Violate("harness", "decode", "height %d: state record not understood: %s", c.H, p)
	}
	if !m.inited {
		m.inited = true
		// what the genesis staked
		for _, ds := range c.Prev.Locked {
			for d, a := range ds {
				add(m.staked, d, a)
			}
		}
		if len(c.Prev.Locked) == 0 && len(c.W.P.ValPower) > 0 {
			return stk.Violate("harness", "genesis", "genesis stakes are not visible in the dump taken after InitChain")
		}
	}
	if !c.Cur.Staking.Equal(c.Prev.Staking) && c.Cur.Staking.Maturity != c.Prev.Staking.Maturity {
		m.feats["maturity-changed"]++
	}
	// maturity in force while the transactions ran (earliest when ambiguous)
	maturity := c.TxOpts[0].Maturity
	for _, o := range c.TxOpts {
		if o.Maturity < maturity {
			maturity = o.Maturity
		}
	}
	// expected locked amounts after this block's transactions, to isolate penalties
	delta := map[string]*big.Int{} // "val/deleg"
	for _, t := range c.Txs {
		switch t.Kind {
		case "STAKE", "UNSTAKE", "WITHDRAW":
		default:
			continue
		}
		if !t.OK() {
			if t.Code != 0 {
				switch {
				case t.Kind == "WITHDRAW" && strings.Contains(t.Log, "frozen"):
					m.feats["frozen-withdraw-rejected"]++
				case t.Kind == "UNSTAKE" && strings.Contains(t.Log, "frozen"):
					m.feats["frozen-unstake-rejected"]++
				case t.Kind == "WITHDRAW":
					m.feats["withdraw-rejected"]++
				}
			}
			continue
		}
		m.events = append(m.events, fmt.Sprintf("%d:%s", c.H, t.Kind))
		switch t.Kind {
		case "STAKE":
			add(m.staked, t.Deleg, t.Amount)
			add(delta, t.Val+"/"+t.Deleg, t.Amount)
		case "UNSTAKE":
			if surelyFrozen(c, t.Val) {
				return stk.Violate("frozen", "UNSTAKE", "height %d: UNSTAKE of %s from validator %s by %s succeeded while the validator is frozen (%+v)", c.H, t.Amount, t.Val, t.Deleg, *c.Cur.Frozen[t.Val])
			}
			add(delta, t.Val+"/"+t.Deleg, new(big.Int).Neg(t.Amount))
			m.lots[t.Deleg] = append(m.lots[t.Deleg], &lot{val: t.Val, left: new(big.Int).Set(t.Amount), unstakeH: c.H, matureAt: c.H + maturity})
			m.feats["unstake-ok"]++
		case "WITHDRAW":
			var free, held, immature *big.Int = big.NewInt(0), big.NewInt(0), big.NewInt(0)
			for _, l := range m.lots[t.Deleg] {
				switch {
				case l.matureAt > c.H:
					immature.Add(immature, l.left)
				case surelyFrozen(c, l.val):
					held.Add(held, l.left)
				default:
					free.Add(free, l.left)
				}
			}
			matured := new(big.Int).Add(free, held)
			if t.Amount.Cmp(matured) > 0 {
				class := "WITHDRAW-never-unstaked"
				if t.Amount.Cmp(new(big.Int).Add(matured, immature)) <= 0 {
					class = "WITHDRAW-before-maturity"
				}
				return stk.Violate("maturity", class, "height %d: WITHDRAW of %s by %s succeeded, but only %s of its unstaked amounts have matured by this height (still maturing: %s; lots %s)", c.H, t.Amount, t.Deleg, matured, immature, m.fmtLots(t.Deleg))
			}
			if t.Amount.Cmp(free) > 0 {
				class := "WITHDRAW-named-frozen"
				if c.Cur.Vals[t.Val] == nil && c.Prev.Vals[t.Val] == nil {
					class = "WITHDRAW-naming-address-without-record"
				} else if !surelyFrozen(c, t.Val) {
					class = "WITHDRAW-naming-other-validator"
				}
				return stk.Violate("frozen", class, "height %d: WITHDRAW of %s by %s (naming validator %s) succeeded although only %s of its matured amounts come from validators that are not frozen; %s were unstaked from a validator that is frozen now (lots %s)", c.H, t.Amount, t.Deleg, t.Val, free, held, m.fmtLots(t.Deleg))
			}
			// consume exactly once: amounts of non-frozen validators first
			rest := new(big.Int).Set(t.Amount)
			for pass := 0; pass < 2 && rest.Sign() > 0; pass++ {
				for _, l := range m.lots[t.Deleg] {
					if l.matureAt > c.H || l.left.Sign() == 0 || (pass == 0) == surelyFrozen(c, l.val) {
						continue
					}
					take := l.left
					if take.Cmp(rest) > 0 {
						take = rest
					}
					take = new(big.Int).Set(take)
					l.left.Sub(l.left, take)
					rest.Sub(rest, take)
					if c.H-l.unstakeH >= 1 {
						m.feats["matured-withdraw"]++
					}
					if rest.Sign() == 0 {
						break
					}
				}
			}
			add(m.withdrawn, t.Deleg, t.Amount)
			if c.Cur.Vals[t.Val] == nil && c.Prev.Vals[t.Val] == nil {
				m.feats["withdraw-naming-address-without-record"]++
			}
		}
	}
	// unlock exactly once: what the pending list of the previous state names for this height becomes withdrawable in
	// this block, once, and nothing else does (block 1 runs no block-end staking hooks; an unstake with a maturity
	// of zero blocks would add to this height's list after the previous state was read: not judged)
	minMat := maturity
	if c.H > 1 && minMat >= 1 {
		due, out := map[string]*big.Int{}, map[string]*big.Int{}
		for _, e := range c.Prev.Mature[c.H] {
			add(due, e.Deleg, e.Amount)
		}
		for _, t := range c.Txs {
			if t.Kind == "WITHDRAW" && t.OK() {
				add(out, t.Deleg, t.Amount)
			}
		}
		ds := map[string]bool{}
		for d := range c.Prev.Bounded {
			ds[d] = true
		}
		for d := range c.Cur.Bounded {
			ds[d] = true
		}
		for d := range due {
			ds[d] = true
		}
		var sortedD []string
		for d := range ds {
			sortedD = append(sortedD, d)
		}
		sort.Strings(sortedD)
		for _, d := range sortedD {
			exp := new(big.Int).Sub(new(big.Int).Add(get(c.Prev.Bounded, d), get(due, d)), get(out, d))
			got := get(c.Cur.Bounded, d)
			if got.Cmp(exp) != 0 {
				class := "unlock-missing"
				if got.Cmp(exp) > 0 {
					class = "unlocked-more-than-due"
				}
				return stk.Violate("maturity", class, "height %d: delegator %s: withdrawable amount went from %s to %s; the pending list named %s as maturing at this height and its successful withdrawals in this block sum to %s, so %s was expected",
					c.H, d, get(c.Prev.Bounded, d), got, get(due, d), get(out, d), exp)
			}
			if get(due, d).Sign() > 0 {
				m.feats["unlock-at-maturity-checked"]++
			}
		}
	}
	// scheduled no earlier than the maturity: whatever this block added to the pending list (its successful unstakes, the
	// postponed unstakes of a verdict) sits at a height >= this height + the maturity in force (the smallest candidate when a
	// change of the option falls into this block). A too-early entry is funds that will unlock before their maturity — for
	// main-net sized maturities that is never reached inside a history, the schedule itself is the observable.
	if c.H > 1 && minMat >= 1 {
		sum := func(es []stk.MatureEntry) map[string]*big.Int {
			o := map[string]*big.Int{}
			for _, e := range es {
				add(o, e.Deleg, e.Amount)
			}
			return o
		}
		var hs []int64
		for hh := range c.Cur.Mature {
			if hh > c.H && hh < c.H+minMat {
				hs = append(hs, hh)
			}
		}
		sort.Slice(hs, func(i, j int) bool { return hs[i] < hs[j] })
		for _, hh := range hs {
			cur, prev := sum(c.Cur.Mature[hh]), sum(c.Prev.Mature[hh])
			var ds []string
			for d := range cur {
				ds = append(ds, d)
			}
			sort.Strings(ds)
			for _, d := range ds {
				if cur[d].Cmp(get(prev, d)) > 0 {
					return stk.Violate("maturity", "scheduled-before-maturity", "height %d: the pending list entry of %s for height %d grew from %s to %s in this block, but the maturity in force is %d blocks: nothing unstaked now may unlock before height %d",
						c.H, d, hh, get(prev, d), cur[d], minMat, c.H+minMat)
				}
			}
			m.feats["schedule-checked"]++
		}
	}
	// penalties: reductions of locked amounts in a verdict block that transactions do not explain
	for val := range c.Cur.Frozen {
		if !verdictAt(c, val) {
			continue
		}
		m.feats["verdict"]++
		for _, ls := range m.lots {
			for _, l := range ls {
				if l.val == val && l.matureAt > c.H && l.left.Sign() > 0 {
					m.feats["verdict-while-maturing"]++
				}
			}
		}
		ds := map[string]bool{}
		for d := range c.Prev.Locked[val] {
			ds[d] = true
		}
		for d := range c.Cur.Locked[val] {
			ds[d] = true
		}
		for d := range ds {
			exp := new(big.Int).Add(c.Prev.LockedOf(val, d), get(delta, val+"/"+d))
			if got := c.Cur.LockedOf(val, d); got.Cmp(exp) < 0 {
				add(m.penalties, d, new(big.Int).Sub(exp, got))
			}
		}
	}
	// conservation per delegator
	for d, w := range m.withdrawn {
		lim := new(big.Int).Sub(get(m.staked, d), get(m.penalties, d))
		if w.Cmp(lim) > 0 {
			return stk.Violate("conservation", "withdrawn-exceeds-staked", "height %d: delegator %s has withdrawn %s in total, more than staked %s minus penalties %s", c.H, d, w, get(m.staked, d), get(m.penalties, d))
		}
	}
	// recorded stake = sum of the delegators' locked amounts
	vals := map[string]bool{}
	for v := range c.Cur.Total {
		vals[v] = true
	}
	for v := range c.Cur.Locked {
		vals[v] = true
	}
	for v := range c.Cur.Vals {
		vals[v] = true
	}
	var sorted []string
	for v := range vals {
		sorted = append(sorted, v)
	}
	sort.Strings(sorted)
	for _, v := range sorted {
		total, sum := c.Cur.TotalOf(v), c.Cur.LockedSum(v)
		if total.Cmp(sum) != 0 {
			return stk.Violate("stake-sum", "total-vs-delegators", "height %d: validator %s: st__t = %s but its delegators' locked amounts %v sum to %s", c.H, v, total, c.Cur.Locked[v], sum)
		}
		rec := c.Cur.Vals[v]
		recStake := big.NewInt(0)
		if rec != nil {
			recStake = rec.Staking
		}
		if recStake.Cmp(total) != 0 {
			if verdictAt(c, v) {
				m.feats["record-lags-verdict"]++
				continue // the record follows one block after a verdict
			}
			class := "record-differs"
			switch {
			case rec == nil:
				class = "record-missing"
			case recStake.Sign() < 0:
				class = "record-negative"
			}
			return stk.Violate("stake-sum", class, "height %d: validator %s: the validator record says stake %s (record present: %v) but its delegators' locked amounts sum to %s (no verdict in this block)", c.H, v, recStake, rec != nil, total)
		}
	}
	return nil
}

func (m *monitor) fmtLots(d string) string {
	var s []string
	for _, l := range m.lots[d] {
		s = append(s, fmt.Sprintf("{from %.9s left %s unstaked@%d matures@%d}", l.val, l.left, l.unstakeH, l.matureAt))
	}
	return "[" + strings.Join(s, " ") + "]"
}

var modes = []string{"shared-staking", "focus-life", "focus-life", "focus-life", "focus-freeze", "focus-gov"}

var focusWeights = map[string]map[string]int{
	"focus-life":   {"stake_new": 3, "stake_top": 4, "unstake": 9, "withdraw": 9, "withdraw_foreign": 1, "allegation": 1, "vote_wave": 2, "release": 1, "send": 1},
	"focus-freeze": {"stake_new": 1, "stake_top": 2, "unstake": 7, "withdraw": 7, "withdraw_foreign": 3, "allegation": 4, "vote_wave": 6, "release": 2},
	"focus-gov":    {"stake_new": 3, "stake_top": 3, "unstake": 6, "withdraw": 3, "gov": 6, "allegation": 1, "vote_wave": 1},
}

type drawer struct {
	h      *run.H
	rt     *rapid.T
	mode   string
	nb     int
	blocks int
	g      *hist.Gen
	f      *stk.Focus
	last   []txgen.Tx
	tags   map[string]int
}

func (d *drawer) draw(w *hist.World, v *stk.View, i int) (hist.Step, bool) {
	if d.blocks >= d.nb {
		return hist.Step{}, false
	}
	d.blocks++
	var txs []txgen.Tx
	var spec sim.BlockSpec
	if strings.HasPrefix(d.mode, "shared-") {
		if d.g == nil {
			d.g = &hist.Gen{W: w, T: d.rt, Hostile: 4, Strange: 8, Kinds: hist.Profiles[strings.TrimPrefix(d.mode, "shared-")], Excl: d.h.Excluded, Seen: map[string]int{}, TagsN: map[string]int{}}
		}
		if len(w.Results) > 0 {
			w.Observe(d.last, w.Results[len(w.Results)-1])
		}
		txs = stk.FilterShared(w, v, d.g.DrawTxs(5), d.h.Excluded)
		spec = d.g.DrawEnv(txs)
		stk.ProtectAnchor(w, &spec, d.h.Excluded)
	} else {
		if d.f == nil {
			d.f = &stk.Focus{W: w, T: d.rt, Excl: d.h.Excluded, Wt: focusWeights[d.mode], Max: 4, Feat: map[string]int{}}
		}
		txs = d.f.DrawBlock(v)
		spec = d.f.DrawEnv(txs)
	}
	d.last = txs
	for _, tx := range txs {
		for _, tg := range tx.Tags {
			d.tags[tg]++
		}
	}
	return hist.BlockStep(spec, txs), true
}

func genParams(rt *rapid.T, h *run.H, mode string) sim.Params {
	switch mode {
	case "focus-gov":
		return stk.FocusParams(rt, fmt.Sprint(h.Seed), "gov", h.Excluded)
	case "focus-life", "focus-freeze":
		p := stk.FocusParams(rt, fmt.Sprint(h.Seed), "small", h.Excluded)
		if mode == "focus-freeze" && len(p.ValPower) < 3 {
			for len(p.ValPower) < 4 {
				p.ValPower = append(p.ValPower, p.ValPower[0]+int64(len(p.ValPower)))
			}
		}
		return p
	}
	p := hist.GenParams(rt, fmt.Sprint(h.Seed))
	stk.ProtectParams(&p, h.Excluded)
	return p
}

func classesOf(m *monitor, d *drawer) (string, []string) {
	var cl []string
	for _, k := range []string{"unstake-ok", "matured-withdraw", "verdict", "verdict-while-maturing", "record-lags-verdict", "frozen-withdraw-rejected", "frozen-unstake-rejected", "withdraw-rejected", "withdraw-naming-address-without-record", "maturity-changed"} {
		if m.feats[k] > 0 {
			cl = append(cl, k)
		}
	}
	for _, k := range []string{"withdraw-early", "val-foreign", "stake-addr-shared", "stake-addr-user", "unstake-all", "restake-after-purge"} {
		if d != nil && d.tags[k] > 0 {
			cl = append(cl, "gen:"+k)
		}
	}
	nt := ""
	if m.feats["matured-withdraw"] > 0 || m.feats["verdict-while-maturing"] > 0 {
		nt = strings.Join(m.events, ",")
	}
	return nt, cl
}

func TestC11(t *testing.T) {
	h := run.Start(t, "C11")
	defer h.Finish()
	h.SetRule("generated genesis (maturity 1-4 blocks, or main-net sized with governance changes of the maturity option) x interleaving of stake / unstake / withdraw by several stake accounts (own, user, shared between validators) on 2-10 validators with block progress, allegation verdicts, releases and hostile withdraws (before maturity, above the matured amount, naming an address without validator record); monitor fed by successful transactions and per-block dumps; non-trivial = the history contains unstake -> maturity -> successful withdraw, or a guilty verdict while an unstake of that validator is maturing; distinct by the sequence of successful staking transactions (height, kind)")
	maxBlocks := h.Scale(34, 60)
	rapid.Check(t, func(rt *rapid.T) {
		u := hist.NewU(rt)
		mode := modes[u.N(len(modes), "mode")]
		p := genParams(rt, h, mode)
		tr := &hist.Trace{Params: p, Roles: hist.Roles(p, 1), Profile: mode}
		d := &drawer{h: h, rt: rt, mode: mode, nb: u.Range(8, maxBlocks, "nblocks"), tags: map[string]int{}}
		m := newMonitor()
		viol := stk.Execute(h, tr, d.draw, []stk.Observer{m})
		if viol != nil && viol.Oracle == "harness" && viol.Class == "world" {
			rt.Skip(viol.Msg)
		}
		nt, classes := classesOf(m, d)
		classes = append(classes, "mode-"+mode)
		h.Eval(nt, classes, tr.Summary())
		if viol != nil {
			h.Fail(rt, viol.Oracle, viol.Sig("C11"), tr, "%s", viol.Msg)
		}
	})
}

func TestReplay(t *testing.T) {
	path := run.ReplayFile()
	if path == "" {
		t.Skip("no VERIF_REPLAY")
	}
	f, err := run.LoadFailure(path)
	if err != nil {
		t.Fatal(err)
	}
	var tr hist.Trace
	if err := json.Unmarshal(f.Case, &tr); err != nil {
		t.Fatal(err)
	}
	h := run.Start(t, "C11")
	defer h.Finish()
	if viol := stk.Execute(h, &tr, nil, []stk.Observer{newMonitor()}); viol != nil {
		h.Fail(t, viol.Oracle, viol.Sig("C11"), &tr, "%s", viol.Msg)
	}
}
