package sim

import (
	"fmt"
	"os"
	"testing"
	"time"
)

func TestSmoke(t *testing.T) {
	out := Quiet()
	g := BuildGenesis(DefaultParams())
	c := NewChain(g)
	t0 := time.Now()
	r, err := NewReplica("n0", g, c, Role{ValIdx: 0, IsWitness: true}, "")
	if err != nil {
		t.Fatal(err)
	}
	defer r.Close()
	res := r.InitChain(c)
	if err := c.SetInitialValidators(res); err != nil {
		t.Fatal(err)
	}
	fmt.Fprintf(out, "init vals=%d t=%v\n", len(res.Validators), time.Since(t0))
	for i := 0; i < 5; i++ {
		b := c.MakeBlock(BlockSpec{GapSecs: 5, ProposerIdx: i})
		br := r.RunBlock(b)
		if err := c.Advance(br.AppHash, br.Updates); err != nil {
			t.Fatal(err)
		}
		fmt.Fprintf(out, "h=%d hash=%x updates=%d\n", b.Height, br.AppHash, len(br.Updates))
	}
	d := r.Dump()
	pre := map[string]int{}
	for _, kv := range d {
		k := kv.K
		p := k
		for i := 0; i < len(k); i++ {
			if k[i] == '_' {
				p = k[:i]
				break
			}
		}
		pre[p]++
	}
	fmt.Fprintf(out, "keys=%d prefixes=%v t=%v\n", len(d), pre, time.Since(t0))
	_ = os.Stdout
}
