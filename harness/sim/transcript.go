package sim

import (
	"bytes"
	"fmt"

	abci "github.com/tendermint/tendermint/abci/types"
)

func updatesEqual(a, b []abci.ValidatorUpdate) bool {
	if len(a) != len(b) {
		return false
	}
	for i := range a {
		if a[i].Power != b[i].Power || a[i].PubKey.Type != b[i].PubKey.Type || !bytes.Equal(a[i].PubKey.Data, b[i].PubKey.Data) {
			return false
		}
	}
	return true
}

func FmtUpdates(u []abci.ValidatorUpdate) string {
	s := "["
	for i, x := range u {
		if i > 0 {
			s += " "
		}
		s += fmt.Sprintf("%x:%d", x.PubKey.Data[:4], x.Power)
	}
	return s + "]"
}

// CompareInit compares the consensus-relevant part of two InitChain responses.
func CompareInit(a, b abci.ResponseInitChain) string {
	if !updatesEqual(a.Validators, b.Validators) {
		return fmt.Sprintf("InitChain validators differ: %s vs %s", FmtUpdates(a.Validators), FmtUpdates(b.Validators))
	}
	return ""
}

// CompareBlockRes compares the consensus results of one block on two replicas:
// app hash, validator updates, and per delivered tx Code, Data, GasWanted, GasUsed.
// It returns "" when equal, else a description of the first difference.
func CompareBlockRes(a, b *BlockRes) string {
	if a.Height != b.Height {
		return fmt.Sprintf("heights differ %d vs %d", a.Height, b.Height)
	}
	if len(a.Txs) != len(b.Txs) {
		return fmt.Sprintf("h=%d: number of tx results differ %d vs %d", a.Height, len(a.Txs), len(b.Txs))
	}
	for i := range a.Txs {
		x, y := a.Txs[i], b.Txs[i]
		if x.Code != y.Code || !bytes.Equal(x.Data, y.Data) || x.GasWanted != y.GasWanted || x.GasUsed != y.GasUsed {
			return fmt.Sprintf("h=%d tx#%d: result differs: code %d/%d data %x/%x gasWanted %d/%d gasUsed %d/%d (logs %q / %q)",
				a.Height, i, x.Code, y.Code, x.Data, y.Data, x.GasWanted, y.GasWanted, x.GasUsed, y.GasUsed, x.Log, y.Log)
		}
	}
	if !updatesEqual(a.Updates, b.Updates) {
		return fmt.Sprintf("h=%d: validator updates differ: %s vs %s", a.Height, FmtUpdates(a.Updates), FmtUpdates(b.Updates))
	}
	if a.AppHash != nil && b.AppHash != nil && !bytes.Equal(a.AppHash, b.AppHash) {
		return fmt.Sprintf("h=%d: app hash differs: %x vs %x", a.Height, a.AppHash, b.AppHash)
	}
	return ""
}
