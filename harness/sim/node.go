package sim

import (
	"context"
	"fmt"
	"os"
	"sync"
	"sync/atomic"
	"time"

	abci "github.com/tendermint/tendermint/abci/types"
	"github.com/tendermint/tendermint/libs/pubsub/query"
	tmrpccore "github.com/tendermint/tendermint/rpc/core"
	"github.com/tendermint/tendermint/state/txindex"
	"github.com/tendermint/tendermint/state/txindex/kv"
	tmtypes "github.com/tendermint/tendermint/types"
	dbm "github.com/tendermint/tm-db"

	"github.com/Oneledger/protocol/app"
	"github.com/Oneledger/protocol/app/node"
	"github.com/Oneledger/protocol/config"
	"github.com/Oneledger/protocol/identity"

	"verif/run"
)

// ---- process-global plumbing -------------------------------------------------

// muxIndexer delegates tendermint's process-global tx indexer to the replica
// that is currently executing an ABCI call.
type muxIndexer struct {
	mu  sync.Mutex
	cur txindex.TxIndexer
}

func (m *muxIndexer) get() txindex.TxIndexer {
	m.mu.Lock()
	defer m.mu.Unlock()
	return m.cur
}
func (m *muxIndexer) AddBatch(b *txindex.Batch) error         { return m.get().AddBatch(b) }
func (m *muxIndexer) Index(r *tmtypes.TxResult) error         { return m.get().Index(r) }
func (m *muxIndexer) Get(h []byte) (*tmtypes.TxResult, error) { return m.get().Get(h) }
func (m *muxIndexer) Search(ctx context.Context, q *query.Query) ([]*tmtypes.TxResult, error) {
	return m.get().Search(ctx, q)
}

var (
	mux     = &muxIndexer{cur: kv.NewTxIndex(dbm.NewMemDB())}
	muxOnce sync.Once
	dirSeq  int64
)

func installMux() {
	muxOnce.Do(func() { tmrpccore.SetTxIndexer(mux) })
}

// Quiet silences the application's stdout logging (see run.Quiet).
func Quiet() *os.File { return run.Quiet() }

// ScratchRoot returns the directory under which replica data dirs are created.
func ScratchRoot() string {
	if d := os.Getenv("VERIF_SCRATCH"); d != "" {
		return d
	}
	if st, err := os.Stat("/dev/shm"); err == nil && st.IsDir() {
		return "/dev/shm"
	}
	return os.TempDir()
}

func NewScratchDir(tag string) string {
	atomic.AddInt64(&dirSeq, 1)
	// a unique, fresh directory: names derived from the pid alone collide with leftovers of killed processes
	d, err := os.MkdirTemp(ScratchRoot(), fmt.Sprintf("verif-%d-%s-", os.Getpid(), tag))
	if err != nil {
		panic(err)
	}
	return d
}

// ---- replica -----------------------------------------------------------------

// Role describes the identity of a node.
type Role struct {
	ValIdx    int  `json:"val"` // index into Universe.Vals whose keys this node holds; any index is fine for a non-validator
	IsWitness bool `json:"witness"`
	// Rot is the node-local chain-state rotation setting (recent, every, cycles) from the node's config file; nil = the
	// built-in default (10, 100, 10). Which old versions a node keeps on disk must not influence consensus results.
	Rot *[3]int64 `json:"rot,omitempty"`
	// TZ is the node host's local time zone as an offset from UTC in seconds (0 = UTC). time.Local is a process global;
	// it is switched before every call on the replica, like the witness flag.
	TZ int `json:"tz,omitempty"`
}

// TxRes is the consensus-relevant part of a DeliverTx response.
type TxRes struct {
	Code      uint32
	Data      []byte
	GasWanted int64
	GasUsed   int64
	Log       string
}

// BlockRes is what one replica returned for one block.
type BlockRes struct {
	Height  int64
	Txs     []TxRes
	Updates []abci.ValidatorUpdate
	AppHash []byte
	Aborted bool // the application panicked during this block
	Begin   abci.ResponseBeginBlock
	End     abci.ResponseEndBlock
	Deliver []abci.ResponseDeliverTx
}

type Replica struct {
	Name string
	G    *Genesis
	Role Role
	Dir  string
	App  *app.App
	Idx  *kv.TxIndex
	idb  dbm.DB

	LastInit abci.ResponseInitChain
	closed   bool

	// Ambient makes RunBlock/SpecBlock issue the mempool checks a real node performs around a block
	// (default from the environment variable VERIF_AMBIENT=1).
	Ambient bool

	// Panicked is set when the application's panic handler ran during a call on this replica
	// (the handler recovers, prints and then closes the application).
	Panicked  bool
	PanicCall string
	panics0   int64
}

// InitRes is the consensus-relevant part of an InitChain response.
type InitRes struct {
	Validators []abci.ValidatorUpdate
}

// NewReplica creates an application on a fresh data directory (or reopens dir if given).
func NewReplica(name string, g *Genesis, c *Chain, role Role, dir string) (*Replica, error) {
	installMux()
	if dir == "" {
		dir = NewScratchDir(name)
	}
	cfg := config.DefaultServerConfig()
	cfg.Node.NodeName = name
	cfg.Node.DBDir = dir
	cfg.Node.DB = "goleveldb"
	cfg.Node.LogLevel = 0
	if role.Rot != nil {
		cfg.Node.ChainStateRotation.Recent, cfg.Node.ChainStateRotation.Every, cfg.Node.ChainStateRotation.Cycles = role.Rot[0], role.Rot[1], role.Rot[2]
	}
	v := g.U.Vals[role.ValIdx%len(g.U.Vals)]
	nctx := node.NewVerifContext(name, v.Node.Priv, v.Key.Priv, v.Ecdsa)
	a, err := app.NewApp(cfg, nctx)
	if err != nil {
		return nil, err
	}
	idb := dbm.NewMemDB()
	r := &Replica{Name: name, G: g, Role: role, Dir: dir, App: a, Idx: kv.NewTxIndex(idb), idb: idb, Ambient: os.Getenv("VERIF_AMBIENT") == "1"}
	a.VerifSetBoot(g.Doc, c.BS)
	r.enter()
	if err := a.Prepare(); err != nil {
		return nil, err
	}
	return r, nil
}

// tzSwitched records that some replica changed time.Local (the sandbox runs in UTC; replicas without a zone restore it).
var tzSwitched bool

func (r *Replica) enter() {
	mux.mu.Lock()
	mux.cur = r.Idx
	mux.mu.Unlock()
	identity.VerifSetETHWitness(r.Role.IsWitness)
	if r.Role.TZ != 0 {
		time.Local = time.FixedZone(fmt.Sprintf("tz%+d", r.Role.TZ), r.Role.TZ)
		tzSwitched = true
	} else if tzSwitched {
		time.Local = time.UTC
	}
	r.panics0 = app.VerifPanics()
}

func (r *Replica) leave(call string) {
	if app.VerifPanics() != r.panics0 && !r.Panicked {
		r.Panicked = true
		r.PanicCall = call
	}
}

func (r *Replica) InitChain(c *Chain) abci.ResponseInitChain {
	r.enter()
	defer r.leave("InitChain")
	r.LastInit = r.App.ABCI().InitChain(c.InitReq())
	return r.LastInit
}

func (r *Replica) Info() abci.ResponseInfo {
	r.enter()
	defer r.leave("Info")
	return r.App.ABCI().Info(abci.RequestInfo{})
}

func (r *Replica) CheckTx(tx []byte) abci.ResponseCheckTx {
	r.enter()
	defer r.leave("CheckTx")
	return r.App.ABCI().CheckTx(abci.RequestCheckTx{Tx: tx})
}

func (r *Replica) BeginBlock(b *Block) abci.ResponseBeginBlock {
	r.enter()
	defer r.leave("BeginBlock")
	return r.App.ABCI().BeginBlock(b.BeginReq())
}

func (r *Replica) DeliverTx(tx []byte) abci.ResponseDeliverTx {
	r.enter()
	defer r.leave("DeliverTx")
	return r.App.ABCI().DeliverTx(abci.RequestDeliverTx{Tx: tx})
}

func (r *Replica) EndBlock(h int64) abci.ResponseEndBlock {
	r.enter()
	defer r.leave("EndBlock")
	return r.App.ABCI().EndBlock(abci.RequestEndBlock{Height: h})
}

func (r *Replica) Commit() abci.ResponseCommit {
	r.enter()
	defer r.leave("Commit")
	return r.App.ABCI().Commit()
}

// IndexBlock feeds the tx index as tendermint's indexer service does after a commit.
func (r *Replica) IndexBlock(b *Block, res []abci.ResponseDeliverTx) {
	for i, tx := range b.Txs {
		_ = r.Idx.Index(&tmtypes.TxResult{Height: b.Height, Index: uint32(i), Tx: tmtypes.Tx(tx), Result: res[i]})
	}
}

// RunBlock executes one whole block, commits and indexes it. When the application panics
// (its handler then shuts it down) the remaining calls are skipped and Aborted is set.
func (r *Replica) RunBlock(b *Block) *BlockRes {
	res := r.runUpToEnd(b)
	if res.Aborted {
		return res
	}
	cm := r.Commit()
	if r.Panicked {
		res.Aborted = true
		return res
	}
	res.AppHash = cm.Data
	r.IndexBlock(b, res.Deliver)
	r.ambient("after-commit", b, len(b.Txs))
	if r.Panicked {
		res.Aborted = true
	}
	return res
}

// ambient issues the mempool checks a real node performs around the consensus calls of a block: every
// transaction of a block went through CheckTx on the node before it was proposed, and the mempool keeps
// checking while the block executes. The results are ignored (mempool isolation is C07's subject); the
// point is that single-replica histories see the same call mix a node sees.
func (r *Replica) ambient(stage string, b *Block, k int) {
	if !r.Ambient || r.Panicked {
		return
	}
	// the mempool's other content: each transaction is checked once when it arrives (before the block, while it
	// executes, or between EndBlock and Commit) and re-checked after the commit
	for i, tx := range b.Pool {
		arrives := []string{"before-begin", "before-end", "after-end"}[(b.Height+int64(i))%3]
		if stage == arrives || stage == "after-commit" {
			r.CheckTx(tx)
			if r.Panicked {
				return
			}
		}
	}
	if len(b.Txs) == 0 || r.Panicked {
		return
	}
	// each transaction of the block is checked at most once before it is delivered, as the mempool does: before the
	// block (it was in this node's mempool when the block was proposed), while the block executes (gossip brings it
	// late), or never; which one is a function of height and position only
	when := func(i int) int64 { return (b.Height + int64(i)) % 3 }
	switch stage {
	case "before-begin":
		for i, tx := range b.Txs {
			if when(i) != 0 {
				continue
			}
			r.CheckTx(tx)
			if r.Panicked {
				return
			}
		}
	case "between":
		if k+1 < len(b.Txs) && when(k+1) == 1 {
			r.CheckTx(b.Txs[k+1])
		}
	case "after-commit":
		// the mempool re-checks what it still holds after every commit; transactions of the block that this node had
		// checked are removed first, the ones it never saw may still arrive (and are refused as already executed)
		for i, tx := range b.Txs {
			if when(i) == 2 && i%2 == 0 {
				r.CheckTx(tx)
				if r.Panicked {
					return
				}
			}
		}
	}
}

func (r *Replica) runUpToEnd(b *Block) *BlockRes {
	res := &BlockRes{Height: b.Height}
	r.ambient("before-begin", b, 0)
	if r.Panicked {
		res.Aborted = true
		return res
	}
	res.Begin = r.BeginBlock(b)
	if r.Panicked {
		res.Aborted = true
		return res
	}
	for k, tx := range b.Txs {
		if k > 0 {
			r.ambient("between", b, k-1)
			if r.Panicked {
				res.Aborted = true
				return res
			}
		}
		d := r.DeliverTx(tx)
		if r.Panicked {
			res.Aborted = true
			return res
		}
		res.Deliver = append(res.Deliver, d)
		res.Txs = append(res.Txs, TxRes{Code: d.Code, Data: d.Data, GasWanted: d.GasWanted, GasUsed: d.GasUsed, Log: d.Log})
	}
	r.ambient("before-end", b, len(b.Txs))
	if r.Panicked {
		res.Aborted = true
		return res
	}
	res.End = r.EndBlock(b.Height)
	if r.Panicked {
		res.Aborted = true
		return res
	}
	res.Updates = res.End.ValidatorUpdates
	r.ambient("after-end", b, len(b.Txs))
	if r.Panicked {
		res.Aborted = true
	}
	return res
}

// SpecBlock runs BeginBlock..EndBlock without Commit (speculative execution: the next
// BeginBlock creates a fresh deliver state, so nothing of it survives).
func (r *Replica) SpecBlock(b *Block) *BlockRes { return r.runUpToEnd(b) }

// Close closes all databases of the replica and removes its directory.
func (r *Replica) Close() {
	if r.closed {
		return
	}
	r.closed = true
	r.App.VerifCloseAll()
	_ = os.RemoveAll(r.Dir)
}

// Closed reports whether the replica was closed or abandoned.
func (r *Replica) Closed() bool { return r.closed }

// Abandon drops the replica without closing (simulated process death); directory is removed by the caller later.
func (r *Replica) Abandon() { r.closed = true }

// CrashImage byte-copies the data directory as the OS sees it now.
func (r *Replica) CrashImage(tag string) (string, error) {
	// goleveldb compacts in background goroutines: the copy is taken with StableCopy (accepted only when the directory
	// listing is the same before and after). LOCK files are advisory flocks held by the old process handle; a new open
	// on the copy is independent.
	return StableCopy(r.Dir, tag)
}

// CloneIndex returns a copy of the replica's tx index (the node's tx_index.db at the crash point).
func (r *Replica) CloneIndex() (*kv.TxIndex, dbm.DB) {
	ndb := dbm.NewMemDB()
	it, err := r.idb.Iterator(nil, nil)
	if err == nil {
		for ; it.Valid(); it.Next() {
			k := append([]byte{}, it.Key()...)
			v := append([]byte{}, it.Value()...)
			_ = ndb.Set(k, v)
		}
		it.Close()
	}
	return kv.NewTxIndex(ndb), ndb
}

// Reopen starts a new application instance on a crash image.
func Reopen(name string, old *Replica, c *Chain, dir string, idx *kv.TxIndex, idb dbm.DB) (*Replica, error) {
	r, err := NewReplica(name, old.G, c, old.Role, dir)
	if err != nil {
		return nil, err
	}
	if idx != nil {
		r.Idx, r.idb = idx, idb
	}
	return r, nil
}
