package sim

import (
	"fmt"
	"time"

	"github.com/Oneledger/protocol/data/balance"
	"github.com/Oneledger/protocol/data/keys"
	"github.com/Oneledger/protocol/data/rewards"
	"github.com/Oneledger/protocol/storage"
)

// PreRewards describes a validator-reward state carried by the genesis: the "rewards" section a
// save_state dump contains (RewardMasterStore.DumpState) and InitChain loads (LoadState).
// Validators are universe indexes (Universe.Vals), amounts are decimal base units.
type PreRewards struct {
	// Intervals are the chunk-numbering records. The node's export writes exactly one,
	// {LastIndex: index of the chunk that was being filled at the export, LastHeight: 2}.
	Intervals []PreInterval `json:"intervals"`
	// Chunks are the per-validator reward chunks rwz_<validator>_<index>.
	Chunks []PreChunk `json:"chunks,omitempty"`
	// AddrList: the validators on the reward address list (the maturing loop walks it).
	AddrList []int `json:"addr_list,omitempty"`
	// TotalDistributed is rwcum_tdist.
	TotalDistributed string `json:"total_distributed"`
	// Years is rwcum_ydist (loaded only when there is one entry per yearly share).
	Years []PreYear `json:"years,omitempty"`
	// Balances are the matured, not yet withdrawn amounts (rwcum_balance_<validator>).
	Balances []PreValAmt `json:"balances,omitempty"`
	// Withdrawn are the withdrawn totals (rwcum_withdrawn_<validator>).
	Withdrawn []PreValAmt `json:"withdrawn,omitempty"`
}

type PreInterval struct {
	LastIndex  int64 `json:"last_index"`
	LastHeight int64 `json:"last_height"`
}

type PreChunk struct {
	Val    int    `json:"val"`
	Index  int64  `json:"index"`
	Amount string `json:"amount"`
}

type PreValAmt struct {
	Val    int    `json:"val"`
	Amount string `json:"amount"`
}

type PreYear struct {
	Start         time.Time `json:"start"`
	Close         time.Time `json:"close"`
	Distributed   string    `json:"distributed"`
	TillLastCycle string    `json:"till_last_cycle"`
}

// rewardGenesisState turns the description into the genesis section (nil = the empty state).
func rewardGenesisState(pr *PreRewards, u *Universe) rewards.RewardMasterState {
	st := rewards.RewardMasterState{
		RewardState: rewards.NewRewardState(),
		CumuState:   rewards.NewRewardCumuState(),
	}
	if pr == nil {
		return st
	}
	addr := func(i int) keys.Address {
		n := len(u.Vals)
		return u.Vals[((i%n)+n)%n].Key.Addr
	}
	for _, iv := range pr.Intervals {
		st.RewardState.Intervals = append(st.RewardState.Intervals, rewards.Interval{LastIndex: iv.LastIndex, LastHeight: iv.LastHeight})
	}
	for _, c := range pr.Chunks {
		st.RewardState.Rewards = append(st.RewardState.Rewards, rewards.IntervalReward{Address: addr(c.Val), Index: c.Index, Amount: mustAmt(c.Amount)})
	}
	for _, i := range pr.AddrList {
		st.RewardState.AddrList = append(st.RewardState.AddrList, addr(i))
	}
	if pr.TotalDistributed != "" {
		st.CumuState.TotalDistributed = mustAmt(pr.TotalDistributed)
	}
	for _, y := range pr.Years {
		st.CumuState.YearsDistributed.Years = append(st.CumuState.YearsDistributed.Years, rewards.RewardYear{
			StartTime: y.Start.UTC(), CloseTime: y.Close.UTC(), Distributed: mustAmt(y.Distributed), TillLastCycle: mustAmt(y.TillLastCycle),
		})
	}
	for _, b := range pr.Balances {
		st.CumuState.MaturedBalances = append(st.CumuState.MaturedBalances, rewards.RewardAmount{Address: addr(b.Val), Amount: mustAmt(b.Amount)})
	}
	for _, b := range pr.Withdrawn {
		st.CumuState.WithdrawnAmounts = append(st.CumuState.WithdrawnAmounts, rewards.RewardAmount{Address: addr(b.Val), Amount: mustAmt(b.Amount)})
	}
	return st
}

// PreRewardsFromState describes an exported reward state in terms of the universe's validators.
func PreRewardsFromState(st *rewards.RewardMasterState, u *Universe) (*PreRewards, error) {
	if st == nil || st.RewardState == nil || st.CumuState == nil {
		return nil, fmt.Errorf("incomplete reward state")
	}
	idx := func(a keys.Address) (int, error) {
		for i, v := range u.Vals {
			if v.Key.Addr.Equal(a) {
				return i, nil
			}
		}
		return 0, fmt.Errorf("reward state names %s, which is not a validator of the universe", a.String())
	}
	amt := func(a *balance.Amount) string {
		if a == nil {
			return "0"
		}
		return a.BigInt().String()
	}
	pr := &PreRewards{TotalDistributed: amt(st.CumuState.TotalDistributed)}
	for _, iv := range st.RewardState.Intervals {
		pr.Intervals = append(pr.Intervals, PreInterval{LastIndex: iv.LastIndex, LastHeight: iv.LastHeight})
	}
	for _, r := range st.RewardState.Rewards {
		i, err := idx(r.Address)
		if err != nil {
			return nil, err
		}
		pr.Chunks = append(pr.Chunks, PreChunk{Val: i, Index: r.Index, Amount: amt(r.Amount)})
	}
	for _, a := range st.RewardState.AddrList {
		i, err := idx(a)
		if err != nil {
			return nil, err
		}
		pr.AddrList = append(pr.AddrList, i)
	}
	for _, y := range st.CumuState.YearsDistributed.Years {
		pr.Years = append(pr.Years, PreYear{Start: y.StartTime.UTC(), Close: y.CloseTime.UTC(), Distributed: amt(y.Distributed), TillLastCycle: amt(y.TillLastCycle)})
	}
	for _, b := range st.CumuState.MaturedBalances {
		i, err := idx(b.Address)
		if err != nil {
			return nil, err
		}
		pr.Balances = append(pr.Balances, PreValAmt{Val: i, Amount: amt(b.Amount)})
	}
	for _, b := range st.CumuState.WithdrawnAmounts {
		i, err := idx(b.Address)
		if err != nil {
			return nil, err
		}
		pr.Withdrawn = append(pr.Withdrawn, PreValAmt{Val: i, Amount: amt(b.Amount)})
	}
	return pr, nil
}

// ExportRewards runs the node's own reward export (what "olfullnode save_state" writes into the
// "rewards" section) on the replica's last committed state, through stores of its own so that the
// running application's stores are not re-aimed.
func (r *Replica) ExportRewards() (st *rewards.RewardMasterState, err error) {
	defer func() {
		if x := recover(); x != nil {
			st, err = nil, fmt.Errorf("reward export panicked: %v", x)
		}
	}()
	sc := r.App.Context.Storage()
	reward := rewards.NewRewardStore("rwz", "ri", "rwaddr", storage.NewState(sc.Chainstate))
	cumulative := rewards.NewRewardCumulativeStore("rwcum", storage.NewState(sc.Chainstate))
	master := rewards.NewRewardMasterStore(reward, cumulative)
	master.SetOptions(sc.RewardMaster.GetOptions())
	out, ok := master.DumpState()
	if !ok {
		return nil, fmt.Errorf("reward export failed")
	}
	return out, nil
}
