package sim

import (
	"fmt"
	"time"

	abci "github.com/tendermint/tendermint/abci/types"
	"github.com/tendermint/tendermint/store"
	tmtypes "github.com/tendermint/tendermint/types"
	dbm "github.com/tendermint/tm-db"
)

// Block is one block as a node receives it: header, last-commit votes, evidence, ordered txs.
type Block struct {
	Height   int64
	Time     time.Time
	Proposer []byte
	Votes    []abci.VoteInfo
	Byz      []abci.Evidence
	Txs      [][]byte
	Pool     [][]byte // mempool content that is not in the block (see BlockSpec.Pool)
	Hash     []byte
	Header   abci.Header
}

func (b *Block) BeginReq() abci.RequestBeginBlock {
	return abci.RequestBeginBlock{
		Hash:                b.Hash,
		Header:              b.Header,
		LastCommitInfo:      abci.LastCommitInfo{Votes: b.Votes},
		ByzantineValidators: b.Byz,
	}
}

// BlockSpec is what a generator chooses for the next block.
type BlockSpec struct {
	GapSecs     int64    `json:"gap"`              // seconds since the previous block (>=1)
	ProposerIdx int      `json:"prop"`             // index into the current tendermint set (mod size)
	Absent      []int    `json:"absent,omitempty"` // indexes into the last set that did not sign (kept below 1/3 power)
	ByzIdx      []int    `json:"byz,omitempty"`    // indexes into the current set accused by tendermint evidence
	Txs         [][]byte `json:"txs,omitempty"`
	// Pool: transactions that sit in the node's mempool while this block is made but are not in it (they may be
	// delivered later or never); a replica with ambient checks on runs them through CheckTx around the block
	Pool [][]byte `json:"pool,omitempty"`
	// Restart: the node is stopped and started again on its data directory before this block (single-replica histories
	// only; honoured by hist.World.RunBlock)
	Restart bool `json:"restart,omitempty"`
	// HeaderTxs, when set, is the transaction list the block's header, part set and hash are computed from (and that the
	// block store keeps) while only Txs are delivered: "the same block with some of its transactions skipped". Used by
	// twin oracles whose twin must see the same block hashes (BLOCKHASH, log records) as the subject.
	HeaderTxs [][]byte `json:"-"`
}

// Chain is the part of Tendermint the harness re-implements: it produces the
// block sequence, keeps the validator-set pipeline and the block store.
type Chain struct {
	G  *Genesis
	BS *store.BlockStore

	Height  int64
	Time    time.Time
	AppHash []byte

	// tendermint's three sets: Last validated block Height, Vals proposes Height+1, Next for Height+2
	Last, Vals, Next *tmtypes.ValidatorSet

	lastCommit *tmtypes.Commit
	lastID     tmtypes.BlockID
	Blocks     []*Block
	UpdateErr  error // first error from applying validator updates (C10 reads it)
}

func NewChain(g *Genesis) *Chain {
	return &Chain{
		G:          g,
		BS:         store.NewBlockStore(dbm.NewMemDB()),
		Time:       g.Doc.GenesisTime,
		lastCommit: tmtypes.NewCommit(0, 0, tmtypes.BlockID{}, nil),
	}
}

// InitReq builds the RequestInitChain a node would receive.
func (c *Chain) InitReq() abci.RequestInitChain {
	vals := make([]abci.ValidatorUpdate, 0, len(c.G.Doc.Validators))
	for _, gv := range c.G.Doc.Validators {
		vals = append(vals, tmtypes.TM2PB.NewValidatorUpdate(gv.PubKey, gv.Power))
	}
	return abci.RequestInitChain{
		Time:            c.G.Doc.GenesisTime,
		ChainId:         c.G.Doc.ChainID,
		ConsensusParams: tmtypes.TM2PB.ConsensusParams(c.G.Doc.ConsensusParams),
		Validators:      vals,
		AppStateBytes:   c.G.Doc.AppState,
	}
}

// SetInitialValidators installs the set returned by InitChain (or the genesis set).
func (c *Chain) SetInitialValidators(res abci.ResponseInitChain) error {
	var vals []*tmtypes.Validator
	if len(res.Validators) > 0 {
		v, err := tmtypes.PB2TM.ValidatorUpdates(res.Validators)
		if err != nil {
			return err
		}
		vals = v
	} else {
		for _, gv := range c.G.Doc.Validators {
			vals = append(vals, tmtypes.NewValidator(gv.PubKey, gv.Power))
		}
	}
	if len(vals) == 0 {
		return fmt.Errorf("empty initial validator set")
	}
	c.Vals = tmtypes.NewValidatorSet(vals)
	c.Next = tmtypes.NewValidatorSet(vals).CopyIncrementProposerPriority(1)
	c.Last = tmtypes.NewValidatorSet(nil)
	return nil
}

// MakeBlock constructs the next block from spec, saves it into the block store (as
// consensus does before executing it) and returns it.
func (c *Chain) MakeBlock(spec BlockSpec) *Block {
	h := c.Height + 1
	gap := spec.GapSecs
	if gap < 1 {
		gap = 1
	}
	t := c.Time.Add(time.Duration(gap) * time.Second)

	n := c.Vals.Size()
	pi := spec.ProposerIdx % n
	if pi < 0 {
		pi += n
	}
	proposer := c.Vals.Validators[pi]

	// votes of the set that validated block h-1
	var votes []abci.VoteInfo
	var sigs []tmtypes.CommitSig
	if h > 1 {
		absent := map[int]bool{}
		total := c.Last.TotalVotingPower()
		absPower := int64(0)
		for _, ai := range spec.Absent {
			if c.Last.Size() == 0 {
				break
			}
			i := ai % c.Last.Size()
			if i < 0 {
				i += c.Last.Size()
			}
			if absent[i] {
				continue
			}
			p := c.Last.Validators[i].VotingPower
			// signers must keep strictly more than 2/3 of the power
			if (total-absPower-p)*3 > total*2 {
				absent[i] = true
				absPower += p
			}
		}
		for i, v := range c.Last.Validators {
			votes = append(votes, abci.VoteInfo{Validator: tmtypes.TM2PB.Validator(v), SignedLastBlock: !absent[i]})
			if absent[i] {
				sigs = append(sigs, tmtypes.NewCommitSigAbsent())
			} else {
				sigs = append(sigs, tmtypes.CommitSig{
					BlockIDFlag:      tmtypes.BlockIDFlagCommit,
					ValidatorAddress: v.Address,
					Timestamp:        c.Time,
					Signature:        []byte{1},
				})
			}
		}
	}
	lastCommit := tmtypes.NewCommit(h-1, 0, c.lastID, sigs)

	var byz []abci.Evidence
	for _, bi := range spec.ByzIdx {
		i := bi % n
		if i < 0 {
			i += n
		}
		v := c.Vals.Validators[i]
		byz = append(byz, abci.Evidence{
			Type:             "duplicate/vote",
			Validator:        tmtypes.TM2PB.Validator(v),
			Height:           h - 1,
			Time:             t,
			TotalVotingPower: c.Vals.TotalVotingPower(),
		})
	}

	src := spec.Txs
	if spec.HeaderTxs != nil {
		src = spec.HeaderTxs
	}
	txs := make([]tmtypes.Tx, len(src))
	for i, tx := range src {
		txs[i] = tmtypes.Tx(tx)
	}
	blk := tmtypes.MakeBlock(h, txs, lastCommit, nil)
	blk.Header.ChainID = c.G.Doc.ChainID
	blk.Header.Time = t
	blk.Header.AppHash = c.AppHash
	blk.Header.ProposerAddress = proposer.Address
	blk.Header.LastBlockID = c.lastID
	blk.Header.ValidatorsHash = c.Vals.Hash()
	blk.Header.NextValidatorsHash = c.Next.Hash()
	ps := blk.MakePartSet(65536)
	id := tmtypes.BlockID{Hash: blk.Hash(), PartsHeader: ps.Header()}
	seen := tmtypes.NewCommit(h, 0, id, []tmtypes.CommitSig{tmtypes.NewCommitSigAbsent()})
	c.BS.SaveBlock(blk, ps, seen)

	b := &Block{
		Height:   h,
		Time:     t,
		Proposer: proposer.Address,
		Votes:    votes,
		Byz:      byz,
		Txs:      spec.Txs,
		Pool:     spec.Pool,
		Hash:     blk.Hash(),
		Header:   tmtypes.TM2PB.Header(&blk.Header),
	}
	c.Height = h
	c.Time = t
	c.lastID = id
	c.Blocks = append(c.Blocks, b)
	return b
}

// Advance applies the end-block result of the block just made: the validator-set pipeline
// moves exactly as tendermint's updateState does.
func (c *Chain) Advance(appHash []byte, updates []abci.ValidatorUpdate) error {
	c.AppHash = appHash
	n := c.Next.Copy()
	var uerr error
	if len(updates) > 0 {
		uerr = ValidateUpdates(updates)
		if uerr == nil {
			vu, err := tmtypes.PB2TM.ValidatorUpdates(updates)
			if err != nil {
				uerr = err
			} else if err := n.UpdateWithChangeSet(vu); err != nil {
				uerr = err
				n = c.Next.Copy()
			}
		}
	}
	if uerr != nil && c.UpdateErr == nil {
		c.UpdateErr = fmt.Errorf("height %d: %v", c.Height, uerr)
	}
	n.IncrementProposerPriority(1)
	c.Last = c.Vals.Copy()
	c.Vals = c.Next.Copy()
	c.Next = n
	return uerr
}

// ValidateUpdates is tendermint's validateValidatorUpdates for the default consensus params (ed25519 only).
func ValidateUpdates(updates []abci.ValidatorUpdate) error {
	for _, u := range updates {
		if u.GetPower() < 0 {
			return fmt.Errorf("voting power can't be negative %v", u)
		} else if u.GetPower() == 0 {
			continue
		}
		if u.PubKey.Type != tmtypes.ABCIPubKeyTypeEd25519 {
			return fmt.Errorf("validator %v is using pubkey %s, which is unsupported for consensus", u, u.PubKey.Type)
		}
	}
	return nil
}
