package sim

import (
	"fmt"
	"os"
	"os/exec"
	"path/filepath"
	"runtime"
	"sort"
	"strings"
)

func dirListing(dir string) string {
	var out []string
	_ = filepath.Walk(dir, func(p string, info os.FileInfo, err error) error {
		if err != nil || info == nil {
			out = append(out, p+":?")
			return nil
		}
		if !info.IsDir() {
			out = append(out, fmt.Sprintf("%s:%d:%d", p, info.Size(), info.ModTime().UnixNano()))
		}
		return nil
	})
	sort.Strings(out)
	return strings.Join(out, "\n")
}

// StableCopy byte-copies a live data directory at one instant: goleveldb compacts in background goroutines, so a
// copy is only accepted when the directory listing (names, sizes, modification times) is the same before and after.
func StableCopy(src, tag string) (string, error) {
	dst := NewScratchDir(tag)
	var lastErr error
	for attempt := 0; attempt < 20; attempt++ {
		before := dirListing(src)
		_ = os.RemoveAll(dst)
		out, err := exec.Command("cp", "-r", src, dst).CombinedOutput()
		after := dirListing(src)
		if err == nil && before == after {
			return dst, nil
		}
		lastErr = fmt.Errorf("attempt %d: %v %s (directory changed during the copy: %v)", attempt, err, strings.TrimSpace(string(out)), before != after)
		runtime.Gosched()
	}
	_ = os.RemoveAll(dst)
	return "", lastErr
}

// Restart stops a replica between two blocks and starts a new application on a copy of its data directory through
// the real Prepare(), then does what Tendermint's handshake does first (Info; InitChain when nothing was committed).
// The old incarnation is closed and its directory removed. A harness-side failure is returned as error.
func Restart(old *Replica, c *Chain, tag string) (*Replica, error) {
	dir, err := StableCopy(old.Dir, tag)
	if err != nil {
		return nil, err
	}
	idx, idb := old.CloneIndex()
	old.Close() // (a stop between two blocks: the copy was taken first, nothing of the old incarnation is needed any more)
	nr, err := Reopen(old.Name+"r", old, c, dir, idx, idb)
	if err != nil {
		_ = os.RemoveAll(dir)
		return nil, err
	}
	nr.Ambient = old.Ambient
	info := nr.Info()
	if !nr.Panicked && info.LastBlockHeight == 0 {
		nr.InitChain(c)
	}
	return nr, nil
}
