package sim

import (
	"math/big"
	"time"

	ethcmn "github.com/ethereum/go-ethereum/common"
	tmtypes "github.com/tendermint/tendermint/types"

	btcchain "github.com/Oneledger/protocol/chains/bitcoin"
	ethchain "github.com/Oneledger/protocol/chains/ethereum"
	"github.com/Oneledger/protocol/chains/ethereum/contract"
	"github.com/Oneledger/protocol/config"
	"github.com/Oneledger/protocol/consensus"
	"github.com/Oneledger/protocol/data/balance"
	"github.com/Oneledger/protocol/data/chain"
	"github.com/Oneledger/protocol/data/delegation"
	ethdata "github.com/Oneledger/protocol/data/ethereum"
	"github.com/Oneledger/protocol/data/evidence"
	"github.com/Oneledger/protocol/data/fees"
	"github.com/Oneledger/protocol/data/governance"
	"github.com/Oneledger/protocol/data/keys"
	"github.com/Oneledger/protocol/data/network_delegation"
	"github.com/Oneledger/protocol/data/ons"
	"github.com/Oneledger/protocol/data/rewards"
)

// Params is the (JSON-serialisable) description of a genesis configuration.
// Everything a history needs to be replayed is derivable from it.
type Params struct {
	Seed      string  `json:"seed"`
	ChainID   string  `json:"chain_id"`
	ValPower  []int64 `json:"val_power"`  // whole OLT stake per genesis validator
	ExtraVals int     `json:"extra_vals"` // key material for candidates that are not genesis validators
	NumUsers  int     `json:"num_users"`
	NumEth    int     `json:"num_eth"`
	UserOLT   string  `json:"user_olt"` // whole OLT per user / stake account
	// NoDelegOptions: the genesis carries no network-delegation options section
	NoDelegOptions bool  `json:"no_deleg_options,omitempty"`
	// CarryStakeSnapshot: the genesis carries, next to the staking list, the delegation store's snapshot of the same
	// stakes (validator totals, per validator and delegator, per delegator) as an exported state does; the snapshot
	// replaces what the staking list put into the store
	CarryStakeSnapshot bool `json:"carry_stake_snapshot,omitempty"`
	Frankenstein   int64 `json:"frankenstein"` // 0 disabled
	MaxGas         int64 `json:"max_gas"`
	Witnesses      []int `json:"witnesses"` // validator indexes that are ethereum witnesses

	MinSelfDeleg int64 `json:"min_self_deleg"`
	TopCount     int64 `json:"top_count"`
	Maturity     int64 `json:"maturity"`

	Evidence evidence.Options `json:"evidence"`

	PropInitialFunding string `json:"prop_initial_funding"`
	PropFundingGoal    string `json:"prop_funding_goal"`
	PropFundingDL      int64  `json:"prop_funding_dl"`
	PropVotingDL       int64  `json:"prop_voting_dl"`
	PropPassPct        int    `json:"prop_pass_pct"`

	RewardInterval   int64    `json:"reward_interval"`
	RewardEstSecs    int64    `json:"reward_est_secs"`
	RewardCycle      int64    `json:"reward_cycle"`
	RewardCloseWin   int64    `json:"reward_close_window"`
	RewardYearShares []string `json:"reward_year_shares"`
	RewardBurnout    string   `json:"reward_burnout"`
	RewardPoolFund   string   `json:"reward_pool_fund"` // base units pre-funded in the rewards pool

	OnsPerBlock  string `json:"ons_per_block"`
	OnsBasePrice string `json:"ons_base_price"`

	GenesisUnix int64 `json:"genesis_unix"`

	// pre-loaded state (as a save_state dump would contain)
	PreDelegations []PreDeleg   `json:"pre_delegations,omitempty"`
	PreEthBalances []PreBal     `json:"pre_eth_balances,omitempty"`
	PreTrackers    []PreTracker `json:"pre_trackers,omitempty"` // only C15 draws them
	EthCap         string       `json:"eth_cap,omitempty"`      // total wrapped ether that may be locked, in wei ("" = 2 ether)
	PreMature      []PreMat     `json:"pre_mature,omitempty"`   // pending unstake maturities carried over by a state dump
	// governance proposals carried over by a state dump (see genesis_proposals.go); only C14 draws them
	PreProposals []PreProposal `json:"pre_proposals,omitempty"`
	// validator-reward state carried over by a state dump (see prerewards.go); nil = empty; only C13 draws it
	PreRewards *PreRewards `json:"pre_rewards,omitempty"`
}

// PreTracker is an ethereum lock tracker carried over by a state dump (save_state writes the ongoing, failed and passed
// stores; the block end archives decided trackers "cleaned": type, state and name only).
type PreTracker struct {
	Raw     []byte `json:"raw"` // the signed ethereum transaction the tracker stands for
	Failed  bool   `json:"failed,omitempty"`
	Owner   int    `json:"owner"`             // user index of the account that submitted the lock
	Cleaned bool   `json:"cleaned,omitempty"` // as archived by the block end
}

type PreMat struct {
	Val    int   `json:"val"` // validator index whose stake account owns the maturing amount
	Amount int64 `json:"amount"`
	Height int64 `json:"height"`
}

type PreDeleg struct {
	User   int    `json:"user"`
	Amount string `json:"amount"`
}

type PreBal struct {
	User   int    `json:"user"`
	Cur    string `json:"cur"`
	Amount string `json:"amount"`
}

const (
	BountyAddr      = "oneledgerBountyProgram"
	RewardPoolAddr  = "rewardpool"
	SupplyAddr      = "oneledgerSupplyAddress"
	ExecCostConfig  = "executionCostConfig"
	ExecCostCode    = "executionCostCodeChange"
	ExecCostGeneral = "executionCostGeneral"
)

var (
	LockRedeemContract = ethcmn.HexToAddress("0x1000000000000000000000000000000000000abc")
	ERCLockContract    = ethcmn.HexToAddress("0x2000000000000000000000000000000000000def")
	TestTokenContract  = ethcmn.HexToAddress("0x3000000000000000000000000000000000000123")
)

// DefaultParams returns a small devnet-like configuration (values taken from
// cmd/olfullnode/devnet.go where they exist, scaled where a history must reach a boundary).
func DefaultParams() Params {
	return Params{
		Seed:         "s0",
		ChainID:      "OneLedger-verif",
		ValPower:     []int64{3000000, 3000001, 3000002, 3000003},
		ExtraVals:    2,
		NumUsers:     8,
		NumEth:       4,
		UserOLT:      "100000000",
		Frankenstein: 1,
		MaxGas:       -1,
		Witnesses:    []int{0, 1, 2, 3},
		MinSelfDeleg: 3000000,
		TopCount:     4,
		Maturity:     3,
		Evidence: evidence.Options{
			MinVotesRequired:        2,
			BlockVotesDiff:          4,
			PenaltyBasePercentage:   30,
			PenaltyBaseDecimals:     100,
			PenaltyBountyPercentage: 50,
			PenaltyBountyDecimals:   100,
			PenaltyBurnPercentage:   50,
			PenaltyBurnDecimals:     100,
			ValidatorReleaseTime:    0,
			ValidatorVotePercentage: 50,
			ValidatorVoteDecimals:   100,
			AllegationPercentage:    50,
			AllegationDecimals:      100,
		},
		PropInitialFunding: "1000000000",
		PropFundingGoal:    "10000000000",
		PropFundingDL:      8,
		PropVotingDL:       12,
		PropPassPct:        51,
		RewardInterval:     3,
		RewardEstSecs:      1728,
		RewardCycle:        100,
		RewardCloseWin:     3600 * 24,
		RewardYearShares: []string{"70000000000000000000000000", "70000000000000000000000000",
			"40000000000000000000000000", "40000000000000000000000000", "30000000000000000000000000"},
		RewardBurnout:  "5000000000000000000",
		RewardPoolFund: "0",
		OnsPerBlock:    "100000000000000",
		OnsBasePrice:   "1000000000000000000000",
		GenesisUnix:    1600000000,
	}
}

func mustAmt(s string) *balance.Amount {
	a, err := balance.NewAmountFromString(s, 10)
	if err != nil {
		panic("bad amount " + s + ": " + err.Error())
	}
	return a
}

var (
	CurOLT = balance.Currency{Id: 0, Name: "OLT", Chain: chain.ONELEDGER, Decimal: 18, Unit: "nue"}
	CurVT  = balance.Currency{Id: 1, Name: "VT", Chain: chain.ONELEDGER, Unit: "vt"}
	CurBTC = balance.Currency{Id: 2, Name: "BTC", Chain: chain.BITCOIN, Decimal: 8, Unit: "satoshi"}
	CurETH = balance.Currency{Id: 3, Name: "ETH", Chain: chain.ETHEREUM, Decimal: 18, Unit: "wei"}
	CurTTC = balance.Currency{Id: 4, Name: "TTC", Chain: chain.ETHEREUM, Decimal: 18, Unit: "testUnits"}
)

// Genesis is a materialised configuration: keys + genesis document.
type Genesis struct {
	P   Params
	U   *Universe
	Doc *config.GenesisDoc
}

func oltBase(whole string) *balance.Amount {
	w, ok := new(big.Int).SetString(whole, 10)
	if !ok {
		panic("bad whole amount " + whole)
	}
	return balance.NewAmountFromBigInt(new(big.Int).Mul(w, CurOLT.Base()))
}

// BuildGenesis materialises Params into a genesis document.
func BuildGenesis(p Params) *Genesis {
	nv := len(p.ValPower)
	u := NewUniverse(p.Seed, nv+p.ExtraVals, p.NumUsers, p.NumEth)

	currencies := []balance.Currency{CurOLT, CurVT, CurBTC, CurETH, CurTTC}
	feeOpt := fees.FeeOption{FeeCurrency: CurOLT, MinFeeDecimal: 9}

	balances := []consensus.BalanceState{}
	addBal := func(a keys.Address, cur string, amt *balance.Amount) {
		balances = append(balances, consensus.BalanceState{Address: a, Currency: cur, Amount: *amt})
	}
	userAmt := oltBase(p.UserOLT)
	escrow := preEscrow(p) // contributions to genesis proposals are held in their fund records, not in the funders' balances
	for i, usr := range u.Users {
		addBal(usr.Addr, "OLT", preUserBalance(p, escrow, i, userAmt))
		addBal(usr.Addr, "VT", balance.NewAmount(1000))
	}
	for _, v := range u.Vals {
		addBal(v.Stake.Addr, "OLT", userAmt)
	}
	for _, e := range u.Eth {
		addBal(e.OLAddr(), "OLT", userAmt)
	}
	if p.RewardPoolFund != "" && p.RewardPoolFund != "0" {
		addBal(keys.Address(RewardPoolAddr), "OLT", mustAmt(p.RewardPoolFund))
	}

	staking := []consensus.Stake{}
	gvals := []tmtypes.GenesisValidator{}
	for i := 0; i < nv; i++ {
		v := u.Vals[i]
		pub := v.TmPriv.PubKey()
		kpub, err := keys.PubKeyFromTendermint(pub.Bytes())
		if err != nil {
			panic(err)
		}
		staking = append(staking, consensus.Stake{
			ValidatorAddress: keys.Address(pub.Address().Bytes()),
			StakeAddress:     v.Stake.Addr,
			Pubkey:           kpub,
			ECDSAPubKey:      v.EcdsaPub,
			Name:             v.Name,
			Amount:           *balance.NewAmountFromInt(p.ValPower[i]),
		})
		gvals = append(gvals, tmtypes.GenesisValidator{
			Address: pub.Address(), PubKey: pub, Name: v.Name, Power: p.ValPower[i],
		})
	}
	witness := []consensus.Stake{}
	for _, wi := range p.Witnesses {
		if wi < nv {
			witness = append(witness, staking[wi])
		}
	}

	// pre-loaded network delegations: the pool must hold their sum (as a state dump would)
	netDeleg := network_delegation.State{}
	poolSum := big.NewInt(0)
	for _, pd := range p.PreDelegations {
		amt := mustAmt(pd.Amount)
		c := CurOLT.NewCoinFromAmount(*amt)
		netDeleg.ActiveList = append(netDeleg.ActiveList, network_delegation.Delegator{
			Address: &u.Users[pd.User].Addr, Amount: &c,
		})
		poolSum.Add(poolSum, amt.BigInt())
	}
	if poolSum.Sign() > 0 {
		addBal(keys.Address(network_delegation.DELEGATION_POOL_KEY), "OLT", balance.NewAmountFromBigInt(poolSum))
	}
	// pre-funded wrapped balances mirrored in the supply counter
	supply := map[string]*big.Int{}
	for _, pb := range p.PreEthBalances {
		amt := mustAmt(pb.Amount)
		addBal(u.Users[pb.User].Addr, pb.Cur, amt)
		if supply[pb.Cur] == nil {
			supply[pb.Cur] = big.NewInt(0)
		}
		supply[pb.Cur].Add(supply[pb.Cur], amt.BigInt())
	}
	for _, cur := range []string{"ETH", "TTC"} {
		if s := supply[cur]; s != nil && s.Sign() > 0 {
			addBal(keys.Address(SupplyAddr), cur, balance.NewAmountFromBigInt(s))
		}
	}

	propOpt := func(exec string) governance.ProposalOption {
		return governance.ProposalOption{
			InitialFunding:  mustAmt(p.PropInitialFunding),
			FundingGoal:     mustAmt(p.PropFundingGoal),
			FundingDeadline: p.PropFundingDL,
			VotingDeadline:  p.PropVotingDL,
			PassPercentage:  p.PropPassPct,
			PassedFundDistribution: governance.ProposalFundDistribution{
				Validators: 18, FeePool: 18, Burn: 18, ExecutionCost: 18, BountyPool: 10, ProposerReward: 18},
			FailedFundDistribution: governance.ProposalFundDistribution{
				Validators: 10, FeePool: 10, Burn: 10, ExecutionCost: 20, BountyPool: 50, ProposerReward: 0},
			ProposalExecutionCost: exec,
		}
	}
	shares := []balance.Amount{}
	for _, s := range p.RewardYearShares {
		shares = append(shares, *mustAmt(s))
	}

	delegState := delegation.DelegationState{}
	for _, pm := range p.PreMature {
		v := u.Vals[pm.Val%len(u.Vals)]
		delegState.MatureAmounts = append(delegState.MatureAmounts, &delegation.MatureData{
			Address: v.Stake.Addr, Amount: *balance.NewAmount(pm.Amount), Height: pm.Height,
		})
	}

	if p.CarryStakeSnapshot {
		perDeleg := map[string]*big.Int{}
		var order []string
		for _, st := range staking {
			amt := st.Amount
			a1, a2 := amt, amt
			delegState.ValidatorAmounts = append(delegState.ValidatorAmounts, &delegation.DelegationAmount{Address: st.ValidatorAddress, Amount: &a1})
			delegState.ValidatorDelegationAmounts = append(delegState.ValidatorDelegationAmounts, &delegation.ValidatorDelegationAmount{Validator: st.ValidatorAddress, Delegator: st.StakeAddress, Amount: &a2})
			k := string(st.StakeAddress)
			if perDeleg[k] == nil {
				perDeleg[k] = big.NewInt(0)
				order = append(order, k)
			}
			perDeleg[k].Add(perDeleg[k], amt.BigInt())
		}
		for _, k := range order {
			delegState.DelegatorEffectiveAmounts = append(delegState.DelegatorEffectiveAmounts, &delegation.DelegationAmount{Address: keys.Address(k), Amount: balance.NewAmountFromBigInt(perDeleg[k])})
		}
	}

	// genesis files from before network delegation existed, and the node's own save_state dump, carry no
	// delegation options section: the application uses its built-in maturity then
	delegOpt := network_delegation.Options{RewardsMaturityTime: network_delegation.RewardsMaturityTime}
	if p.NoDelegOptions {
		delegOpt = network_delegation.Options{}
	}
	state := consensus.AppState{
		Delegation:    delegState,
		Currencies:    currencies,
		Balances:      balances,
		Staking:       staking,
		Witness:       witness,
		Rewards:       rewardGenesisState(p.PreRewards, u),
		Domains:       []consensus.DomainState{},
		Fees:          []consensus.BalanceState{},
		NetDelegators: netDeleg,
		Proposals:     GenesisProposals(p, u),
		Trackers:      genesisTrackers(p, u, witness),
		Governance: governance.GovernanceState{
			FeeOption: feeOpt,
			ETHCDOption: ethchain.ChainDriverOption{
				ContractABI:     contract.LockRedeemABI,
				ERCContractABI:  contract.LockRedeemERCABI,
				ContractAddress: LockRedeemContract,
				TokenList: []ethchain.ERC20Token{{
					TokName: "TTC", TokAddr: TestTokenContract, TokAbi: contract.ERC20BasicABI,
					TokTotalSupply: "1000000000000000000000",
				}},
				ERCContractAddress: ERCLockContract,
				TotalSupply:        ethCap(p),
				TotalSupplyAddr:    SupplyAddr,
				BlockConfirmation:  12,
			},
			BTCCDOption: btcchain.ChainDriverOption{
				ChainType: "testnet3", TotalSupply: "1000000000", TotalSupplyAddr: SupplyAddr, BlockConfirmation: 6,
			},
			ONSOptions: ons.Options{
				Currency:          "OLT",
				PerBlockFees:      *mustAmt(p.OnsPerBlock),
				FirstLevelDomains: []string{"ol"},
				BaseDomainPrice:   *mustAmt(p.OnsBasePrice),
			},
			PropOptions: governance.ProposalOptionSet{
				ConfigUpdate:      propOpt(ExecCostConfig),
				CodeChange:        propOpt(ExecCostCode),
				General:           propOpt(ExecCostGeneral),
				BountyProgramAddr: BountyAddr,
			},
			StakingOptions: delegation.Options{
				MinSelfDelegationAmount: *balance.NewAmount(p.MinSelfDeleg),
				MinDelegationAmount:     *balance.NewAmount(1),
				TopValidatorCount:       p.TopCount,
				MaturityTime:            p.Maturity,
			},
			DelegOptions:    delegOpt,
			EvidenceOptions: p.Evidence,
			RewardOptions: rewards.Options{
				RewardInterval:           p.RewardInterval,
				RewardPoolAddress:        RewardPoolAddr,
				RewardCurrency:           "OLT",
				EstimatedSecondsPerCycle: p.RewardEstSecs,
				BlockSpeedCalculateCycle: p.RewardCycle,
				YearCloseWindow:          p.RewardCloseWin,
				YearBlockRewardShares:    shares,
				BurnoutRate:              *mustAmt(p.RewardBurnout),
			},
		},
	}

	doc, err := consensus.NewGenesisDoc(p.ChainID, state)
	if err != nil {
		panic(err)
	}
	doc.GenesisTime = time.Unix(p.GenesisUnix, 0).UTC()
	doc.Validators = gvals
	doc.ForkParams = &config.ForkParams{FrankensteinBlock: p.Frankenstein}
	doc.ConsensusParams.Block.MaxGas = p.MaxGas
	return &Genesis{P: p, U: u, Doc: doc}
}

func ethCap(p Params) string {
	if p.EthCap != "" {
		return p.EthCap
	}
	return "2000000000000000000"
}

func genesisTrackers(p Params, u *Universe, witness []consensus.Stake) []consensus.Tracker {
	out := []consensus.Tracker{}
	for _, pt := range p.PreTrackers {
		t := consensus.Tracker{Type: ethdata.ProcessTypeLock, State: ethdata.Released, TrackerName: ethcmn.BytesToHash(pt.Raw)}
		if pt.Failed {
			t.State = ethdata.Failed
		}
		if !pt.Cleaned {
			t.SignedETHTx = pt.Raw
			t.ProcessOwner = u.Users[pt.Owner%len(u.Users)].Addr
			for _, w := range witness {
				t.Witnesses = append(t.Witnesses, w.ValidatorAddress)
			}
			t.FinalityVotes = make([]ethdata.Vote, len(t.Witnesses))
		}
		out = append(out, t)
	}
	return out
}
