package sim

import (
	"crypto/ecdsa"
	"fmt"

	ethcmn "github.com/ethereum/go-ethereum/common"
	ethcrypto "github.com/ethereum/go-ethereum/crypto"
	"github.com/tendermint/tendermint/crypto/ed25519"
	"github.com/tendermint/tendermint/crypto/secp256k1"

	"github.com/Oneledger/protocol/data/keys"
)

// User is a key pair known to the harness (an externally owned account).
type User struct {
	Name string
	Priv keys.PrivateKey
	Pub  keys.PublicKey
	Addr keys.Address
	H    keys.PrivateKeyHandler
}

func (u *User) Sign(msg []byte) []byte {
	s, err := u.H.Sign(msg)
	if err != nil {
		panic(err)
	}
	return s
}

func mustUser(name string, priv keys.PrivateKey) *User {
	h, err := priv.GetHandler()
	if err != nil {
		panic(err)
	}
	pub := h.PubKey()
	if priv.Keytype == keys.SECP256K1 {
		// the repository's SECP256K1 private handler returns the amino-prefixed key; build the raw one
		var k secp256k1.PrivKeySecp256k1
		copy(k[:], priv.Data)
		raw := k.PubKey().(secp256k1.PubKeySecp256k1)
		pub = keys.PublicKey{KeyType: keys.SECP256K1, Data: append([]byte{}, raw[:]...)}
	}
	ph, err := pub.GetHandler()
	if err != nil {
		panic(err)
	}
	return &User{Name: name, Priv: priv, Pub: pub, Addr: ph.Address(), H: h}
}

// NewEdUser derives an ed25519 account from a secret string.
func NewEdUser(name, secret string) *User {
	p := ed25519.GenPrivKeyFromSecret([]byte(secret))
	k, err := keys.GetPrivateKeyFromBytes(p[:], keys.ED25519)
	if err != nil {
		panic(err)
	}
	return mustUser(name, k)
}

// NewSecpUser derives a tendermint-secp256k1 account from a secret string.
func NewSecpUser(name, secret string) *User {
	p := secp256k1.GenPrivKeySecp256k1([]byte(secret))
	k, err := keys.GetPrivateKeyFromBytes(p[:], keys.SECP256K1)
	if err != nil {
		panic(err)
	}
	return mustUser(name, k)
}

// EthUser is an Ethereum-style key (OLVM senders, embedded lock/redeem txs).
type EthUser struct {
	Name string
	Key  *ecdsa.PrivateKey
	Addr ethcmn.Address
}

func (e *EthUser) OLAddr() keys.Address { return keys.Address(e.Addr.Bytes()) }

func NewEthUser(name, secret string) *EthUser {
	p := secp256k1.GenPrivKeySecp256k1([]byte(secret))
	k, err := ethcrypto.ToECDSA(p[:])
	if err != nil {
		panic(err)
	}
	return &EthUser{Name: name, Key: k, Addr: ethcrypto.PubkeyToAddress(k.PublicKey)}
}

// Val is the key material of one (potential) validator node.
type Val struct {
	Idx      int
	Name     string
	TmPriv   ed25519.PrivKeyEd25519
	Key      *User // validator consensus key as an account: Key.Addr is the validator address
	Ecdsa    keys.PrivateKey
	EcdsaU   *User
	EcdsaPub keys.PublicKey // BTCECSECP-typed public key as devnet writes into genesis
	Stake    *User          // stake (fee paying) account
	Node     *User          // node key
}

func NewVal(seed string, i int) *Val {
	name := fmt.Sprintf("val%d", i)
	tm := ed25519.GenPrivKeyFromSecret([]byte(seed + "/val/" + name))
	k, err := keys.GetPrivateKeyFromBytes(tm[:], keys.ED25519)
	if err != nil {
		panic(err)
	}
	ec := NewSecpUser(name+"-ecdsa", seed+"/ecdsa/"+name)
	return &Val{
		Idx:      i,
		Name:     name,
		TmPriv:   tm,
		Key:      mustUser(name, k),
		Ecdsa:    ec.Priv,
		EcdsaU:   ec,
		EcdsaPub: keys.PublicKey{KeyType: keys.BTCECSECP, Data: append([]byte{}, ec.Pub.Data...)},
		Stake:    NewEdUser(name+"-stake", seed+"/stake/"+name),
		Node:     NewEdUser(name+"-node", seed+"/node/"+name),
	}
}

// Universe is the deterministic set of all keys a history can use.
type Universe struct {
	Seed  string
	Vals  []*Val
	Users []*User
	Eth   []*EthUser
}

func NewUniverse(seed string, nVals, nUsers, nEth int) *Universe {
	u := &Universe{Seed: seed}
	for i := 0; i < nVals; i++ {
		u.Vals = append(u.Vals, NewVal(seed, i))
	}
	for i := 0; i < nUsers; i++ {
		name := fmt.Sprintf("user%d", i)
		if i%3 == 2 {
			u.Users = append(u.Users, NewSecpUser(name, seed+"/user/"+name))
		} else {
			u.Users = append(u.Users, NewEdUser(name, seed+"/user/"+name))
		}
	}
	for i := 0; i < nEth; i++ {
		name := fmt.Sprintf("eth%d", i)
		u.Eth = append(u.Eth, NewEthUser(name, seed+"/eth/"+name))
	}
	return u
}

// ByAddr finds the account (user, stake account, validator key) with the address.
func (u *Universe) ByAddr(a keys.Address) *User {
	for _, x := range u.Users {
		if x.Addr.Equal(a) {
			return x
		}
	}
	for _, v := range u.Vals {
		if v.Stake.Addr.Equal(a) {
			return v.Stake
		}
		if v.Key.Addr.Equal(a) {
			return v.Key
		}
	}
	return nil
}
