package sim

import (
	"crypto/sha256"
	"encoding/hex"
	"math/big"

	"github.com/Oneledger/protocol/data/balance"
	"github.com/Oneledger/protocol/data/governance"
	"github.com/Oneledger/protocol/data/keys"
)

// PreProposal describes a governance proposal that the genesis carries, the way a network restarted from a
// state dump (cmd/olfullnode save_state, "proposals" section) starts with the proposals of the old chain:
// InitChain loads them through governance.ProposalMasterStore.LoadProposals.
//
// The description does not police itself: whoever draws it keeps it inside what a dump can hold (funding:
// contributions below the goal; voting: goal met and an undecided tally; passed / failed: a tally that
// recounts to the outcome).
type PreProposal struct {
	IDSeed string `json:"id_seed"` // the id is the sha256 of this string (PreProposalID)
	Type   string `json:"type"`    // general | config | code
	// Stage: funding (Active store, collecting funds), voting (Active store, snapshot taken), passed
	// (Passed store, completed-yes, waiting for finalisation), failed (Failed store, completed-no, waiting
	// for finalisation), cancelled (Failed store, outcome cancelled: funders may withdraw)
	Stage    string    `json:"stage"`
	Proposer int       `json:"proposer"`           // user index
	Funds    []PreFund `json:"funds"`              // fund records; the amounts are escrowed, i.e. taken out of the funders' genesis balances
	Goal     string    `json:"goal,omitempty"`     // base units; "" = Params.PropFundingGoal
	PassPct  int       `json:"pass_pct,omitempty"` // 0 = Params.PropPassPct
	// deadlines as heights of the new chain (the dump rebases those of active proposals on its own height
	// and clamps them at 0)
	FundingDL int64 `json:"funding_dl"`
	VotingDL  int64 `json:"voting_dl"`
	// Votes: one entry per genesis validator index, "yes" | "no" | "giveup" | "unknown" | "absent" (not in the
	// snapshot); validators beyond the list are "unknown". Every record carries the validator's genesis power.
	// Ignored for the funding and cancelled stages (no snapshot yet).
	Votes  []string `json:"votes,omitempty"`
	Config string   `json:"config,omitempty"` // update string of a config proposal
}

type PreFund struct {
	User   int    `json:"user"`
	Amount string `json:"amount"` // base units
}

// PreProposalID is the proposal id derived from an id seed (same derivation as txgen.ProposalID).
func PreProposalID(seed string) governance.ProposalID {
	s := sha256.Sum256([]byte(seed))
	return governance.ProposalID(hex.EncodeToString(s[:]))
}

func (pp PreProposal) ID() governance.ProposalID { return PreProposalID(pp.IDSeed) }

// preEscrow sums, per user index, what the genesis proposals hold in escrow for that user.
func preEscrow(p Params) map[int]*big.Int {
	out := map[int]*big.Int{}
	for _, pp := range p.PreProposals {
		for _, f := range pp.Funds {
			i := f.User % p.NumUsers
			if out[i] == nil {
				out[i] = big.NewInt(0)
			}
			out[i].Add(out[i], mustAmt(f.Amount).BigInt())
		}
	}
	return out
}

// preUserBalance is the genesis OLT balance of user i: the common amount minus what the genesis proposals
// hold in escrow for it (a fund record exists because the funder was debited: a genesis with fund records
// must not hold more value than the same genesis without them).
func preUserBalance(p Params, esc map[int]*big.Int, i int, full *balance.Amount) *balance.Amount {
	e := esc[i]
	if e == nil {
		return full
	}
	rest := new(big.Int).Sub(full.BigInt(), e)
	if rest.Sign() < 0 {
		panic("genesis proposals escrow more than the funder's genesis balance")
	}
	return balance.NewAmountFromBigInt(rest)
}

func preOpinion(s string) (governance.VoteOpinion, bool) {
	switch s {
	case "yes":
		return governance.OPIN_POSITIVE, true
	case "no":
		return governance.OPIN_NEGATIVE, true
	case "giveup":
		return governance.OPIN_GIVEUP, true
	case "absent":
		return governance.OPIN_UNKNOWN, false
	}
	return governance.OPIN_UNKNOWN, true
}

// GenesisProposals materialises Params.PreProposals as the "proposals" section of the app state, in the shape
// DumpGovProposalsToFile writes: the proposal record, the store it lives in, its vote records (validator
// address, opinion, power) and its fund records (funder, amount).
func GenesisProposals(p Params, u *Universe) []governance.GovProposal {
	if len(p.PreProposals) == 0 {
		return nil // the document of a genesis without proposals stays byte-identical to what it was before this section existed
	}
	out := []governance.GovProposal{}
	nv := len(p.ValPower)
	for _, pp := range p.PreProposals {
		id := pp.ID()
		typ := governance.ProposalTypeGeneral
		switch pp.Type {
		case "config":
			typ = governance.ProposalTypeConfigUpdate
		case "code":
			typ = governance.ProposalTypeCodeChange
		}
		goal := p.PropFundingGoal
		if pp.Goal != "" {
			goal = pp.Goal
		}
		pct := p.PropPassPct
		if pp.PassPct != 0 {
			pct = pp.PassPct
		}
		proposer := u.Users[pp.Proposer%len(u.Users)]
		rec := governance.NewProposal(id, typ, "d "+pp.IDSeed, "h "+pp.IDSeed, proposer.Addr, pp.FundingDL, mustAmt(goal), pp.VotingDL, pct, pp.Config)
		state := governance.ProposalStateActive
		snapshot := true
		switch pp.Stage {
		case "funding":
			snapshot = false
		case "voting":
			rec.Status = governance.ProposalStatusVoting
		case "passed":
			rec.Status, rec.Outcome, state = governance.ProposalStatusCompleted, governance.ProposalOutcomeCompletedYes, governance.ProposalStatePassed
		case "failed":
			rec.Status, rec.Outcome, state = governance.ProposalStatusCompleted, governance.ProposalOutcomeCompletedNo, governance.ProposalStateFailed
		case "cancelled":
			rec.Status, rec.Outcome, state = governance.ProposalStatusCompleted, governance.ProposalOutcomeCancelled, governance.ProposalStateFailed
			snapshot = false
		default:
			panic("unknown genesis proposal stage " + pp.Stage)
		}
		gp := governance.GovProposal{Prop: *rec, State: state, ProposalVotes: []*governance.ProposalVote{}, ProposalFunds: []governance.ProposalFund{}}
		if snapshot {
			for i := 0; i < nv; i++ {
				op, in := governance.OPIN_UNKNOWN, true
				if i < len(pp.Votes) {
					op, in = preOpinion(pp.Votes[i])
				}
				if !in {
					continue
				}
				gp.ProposalVotes = append(gp.ProposalVotes, governance.NewProposalVote(keys.Address(u.Vals[i].TmPriv.PubKey().Address().Bytes()), op, p.ValPower[i]))
			}
		}
		for _, f := range pp.Funds {
			gp.ProposalFunds = append(gp.ProposalFunds, governance.ProposalFund{Id: id, Address: u.Users[f.User%len(u.Users)].Addr, FundingAmount: mustAmt(f.Amount)})
		}
		out = append(out, gp)
	}
	return out
}
