package sim

import (
	"bytes"
	"sort"
)

// KV is one record of the committed tree.
type KV struct {
	K string
	V []byte
}

// Dump returns every key/value pair of the replica's committed tree (sorted by key).
func (r *Replica) Dump() []KV {
	var out []KV
	r.App.Context.Storage().Chainstate.Iterate(func(k, v []byte) bool {
		out = append(out, KV{K: string(k), V: append([]byte{}, v...)})
		return false
	})
	sort.Slice(out, func(i, j int) bool { return out[i].K < out[j].K })
	return out
}

// DumpMap is Dump as a map.
func (r *Replica) DumpMap() map[string][]byte {
	m := map[string][]byte{}
	r.App.Context.Storage().Chainstate.Iterate(func(k, v []byte) bool {
		m[string(k)] = append([]byte{}, v...)
		return false
	})
	return m
}

// DiffDumps returns the keys that differ between two dumps (sorted).
func DiffDumps(a, b map[string][]byte) []string {
	var d []string
	for k, v := range a {
		if w, ok := b[k]; !ok || !bytes.Equal(v, w) {
			d = append(d, k)
		}
	}
	for k := range b {
		if _, ok := a[k]; !ok {
			d = append(d, k)
		}
	}
	sort.Strings(d)
	return d
}
