package stk

import (
	"encoding/json"
	"fmt"
	"math/big"
	"os"
	"strconv"
	"strings"

	tmtypes "github.com/tendermint/tendermint/types"

	"verif/hist"
	"verif/run"
	"verif/sim"
)

// Violation is an oracle verdict against the application.
type Violation struct {
	Oracle string // oracle name (acceptance, election, ...)
	Class  string // kind / class part of the failure signature
	Msg    string
}

func (v *Violation) Sig(prop string) string { return prop + "/" + v.Oracle + "/" + v.Class }

func Violate(oracle, class, format string, a ...interface{}) *Violation {
	return &Violation{Oracle: oracle, Class: class, Msg: fmt.Sprintf(format, a...)}
}

// BlockCtx is what an observer sees of one committed block.
type BlockCtx struct {
	W     *hist.World
	H     int64
	Prev  *View // records after block H-1 (after InitChain for H = 1)
	Cur   *View // records after block H
	Block *sim.Block
	Res   *sim.BlockRes
	Txs   []TxInfo
	Step  *hist.Step

	// tendermint's sets as they were when block H was made
	LastSet, ValSet, NextSet *tmtypes.ValidatorSet
	AdvErr                   error // acceptance error of this block's validator updates (nil when accepted)

	// staking options in force at the end of block H: the first entry is the previous block's
	// options (with the fork block's forced values); a second entry is present when a delivered
	// PROPOSAL_FINALIZE changed them inside the block, in which case either may have applied.
	EndOpts []StakingOpts
	// options in force while the block's transactions executed (same ambiguity)
	TxOpts []StakingOpts
}

// Observer is a per-property monitor.
type Observer interface {
	Block(c *BlockCtx) *Violation
}

var traceOn = os.Getenv("STK_TRACE") != ""

// traceBlock prints a block the way the oracles see it (STK_TRACE=1; diagnosis only).
// stakingUpdateOf returns the staking option field and value a PROPOSAL_CREATE asks for ("stakingOptions.<field>:<value>").
func stakingUpdateOf(raw []byte) (string, string, bool) {
	var stx struct {
		Data []byte `json:"data"`
	}
	if json.Unmarshal(raw, &stx) != nil {
		return "", "", false
	}
	var m struct {
		ConfigUpdate string `json:"configUpdate"`
	}
	if json.Unmarshal(stx.Data, &m) != nil || !strings.HasPrefix(m.ConfigUpdate, "stakingOptions.") {
		return "", "", false
	}
	kv := strings.SplitN(strings.TrimPrefix(m.ConfigUpdate, "stakingOptions."), ":", 2)
	if len(kv) != 2 {
		return "", "", false
	}
	return kv[0], kv[1], true
}

// mixtures returns the option sets that may have been in force at some moment of a block in which a delivered
// PROPOSAL_FINALIZE changed the options (the block-end hook may have finalised further proposals after the election):
// per option the old value, the new value or a value named by a config-update proposal created so far, in any
// combination except the all-old one.
func mixtures(a, b StakingOpts, proposed map[string][]string) []StakingOpts {
	mins := []*big.Int{a.Min, b.Min}
	for _, v := range proposed["minSelfDelegationAmount"] {
		if x, ok := new(big.Int).SetString(v, 10); ok {
			mins = append(mins, x)
		}
	}
	tops := []int64{a.Top, b.Top}
	for _, v := range proposed["topValidatorCount"] {
		if x, err := strconv.ParseInt(v, 10, 64); err == nil {
			tops = append(tops, x)
		}
	}
	mats := []int64{a.Maturity, b.Maturity}
	for _, v := range proposed["maturityTime"] {
		if x, err := strconv.ParseInt(v, 10, 64); err == nil {
			mats = append(mats, x)
		}
	}
	var out []StakingOpts
	for _, mn := range mins {
		for _, tp := range tops {
			for _, mt := range mats {
				o := StakingOpts{Min: mn, Top: tp, Maturity: mt}
				dup := o.Equal(a)
				for _, x := range out {
					if x.Equal(o) {
						dup = true
					}
				}
				if !dup {
					out = append(out, o)
				}
			}
		}
	}
	return out
}

func traceBlock(c *BlockCtx) {
	out := run.Quiet()
	fmt.Fprintf(out, "---- h=%d time=%s absent=%v updates=%s adv=%v opts=%v\n", c.H, c.Block.Time.Format("15:04:05"), c.Step.Spec.Absent, sim.FmtUpdates(c.Res.Updates), c.AdvErr, c.EndOpts)
	for i, t := range c.Txs {
		tags := ""
		if i < len(c.Step.Tags) {
			tags = fmt.Sprint(c.Step.Tags[i])
		}
		fmt.Fprintf(out, "   tx %-16s code=%d val=%.10s deleg=%.10s amt=%s req=%s voter=%.10s choice=%d rep=%.10s acc=%.10s %s log=%.90s\n", t.Kind, t.Code, t.Val, t.Deleg, t.Amount, t.ReqID, t.Voter, t.Choice, t.Reporter, t.Accused, tags, t.Log)
	}
	for _, r := range c.Cur.SortedVals() {
		fr := ""
		if f := c.Cur.Frozen[r.Addr]; f != nil {
			fr = fmt.Sprintf(" frozen{st %d h %d rel %d frozen=%v}", f.Status, f.FrozenHeight, f.ReleaseHeight, f.IsFrozen())
		}
		st := ""
		if s := c.Cur.Status[r.Addr]; s != nil {
			st = fmt.Sprintf(" status{%v@%d}", s.Active, s.Height)
		}
		fmt.Fprintf(out, "   rec %.12s %-5s power=%d staking=%s total=%s locked=%v stakeaddr=%.10s purged=%d%s%s\n", r.Addr, r.Name, r.Power, r.Staking, c.Cur.TotalOf(r.Addr), c.Cur.Locked[r.Addr], r.StakeAddr, c.Cur.Purged[r.Addr], st, fr)
	}
	for a, t := range c.Cur.Total {
		if c.Cur.Vals[a] == nil && t.Sign() != 0 {
			fmt.Fprintf(out, "   norec %.12s total=%s locked=%v\n", a, t, c.Cur.Locked[a])
		}
	}
	for id, q := range c.Cur.Reqs {
		fmt.Fprintf(out, "   req %s acc=%.12s votes=%v\n", id, q.Accused, q.Votes)
	}
	if len(c.Cur.Bounded) > 0 || len(c.Cur.Mature) > 0 {
		fmt.Fprintf(out, "   bounded=%v mature=%v\n", c.Cur.Bounded, c.Cur.Mature)
	}
	set := func(s *tmtypes.ValidatorSet) string {
		x := ""
		for _, v := range s.Validators {
			x += fmt.Sprintf(" %.9s:%d", Addr(v.Address.Bytes()), v.VotingPower)
		}
		return x
	}
	fmt.Fprintf(out, "   set(h)=%s | next after=%s\n", set(c.ValSet), set(c.W.C.Next))
}

// ForkOpts applies the fork block's forced staking values.
func ForkOpts(o StakingOpts) StakingOpts {
	return StakingOpts{Min: big.NewInt(500000), Top: 64, Maturity: o.Maturity}
}

// InSet reports membership of an address (0lt form) in a tendermint set and its voting power.
func InSet(s *tmtypes.ValidatorSet, addr string) (int64, bool) {
	if s == nil {
		return 0, false
	}
	for _, v := range s.Validators {
		if Addr(v.Address.Bytes()) == addr {
			return v.VotingPower, true
		}
	}
	return 0, false
}

// Execute runs a trace on one replica. When draw != nil the steps are generated on the fly
// (draw sees the view of the last committed block) and appended to the trace, which is
// journalled before each step executes. It returns the first violation and the features.
// A world that cannot be built (harness trouble, e.g. out of file descriptors) is reported as
// oracle "harness", which callers must not turn into a property violation.
func Execute(h *run.H, tr *hist.Trace, draw func(w *hist.World, last *View, i int) (hist.Step, bool), obs []Observer) *Violation {
	w, err := hist.NewWorld(tr.Params, tr.Roles)
	if err != nil {
		return Violate("harness", "world", "cannot build world: %v", err)
	}
	// also runs when a draw panics out of this function (rapid stops a case that way)
	defer w.Close()
	if _, err := w.Init(); err != nil {
		return Violate("init", "init-chain", "InitChain: %v", err)
	}
	if w.Primary().Panicked {
		return Violate("node-panic", "InitChain", "the application panicked in InitChain")
	}
	prev := Decode(0, w.Primary().DumpMap())
	seen := map[string]bool{}
	proposed := map[string][]string{} // staking option field -> values named by config-update proposals created so far
	for i := 0; ; i++ {
		var st hist.Step
		if draw != nil {
			s, ok := draw(w, prev, i)
			if !ok {
				break
			}
			st = s
			tr.Steps = append(tr.Steps, st)
			h.Journal(tr)
		} else {
			if i >= len(tr.Steps) {
				break
			}
			st = tr.Steps[i]
		}
		if st.Kind != "block" || st.Spec == nil {
			continue
		}
		c := &BlockCtx{W: w, Prev: prev, Step: &tr.Steps[i]}
		c.LastSet, c.ValSet, c.NextSet = w.C.Last.Copy(), w.C.Vals.Copy(), w.C.Next.Copy()
		hadErr := w.C.UpdateErr != nil
		b, res := w.RunBlock(*st.Spec)
		c.Block, c.Res, c.H = b, res[0], b.Height
		if w.Primary().Panicked {
			return Violate("node-panic", w.Primary().PanicCall, "the application panicked in %s at height %d (kinds %v) and shut itself down", w.Primary().PanicCall, b.Height, st.Kinds)
		}
		if !hadErr && w.C.UpdateErr != nil {
			c.AdvErr = w.C.UpdateErr
		}
		c.Cur = Decode(b.Height, w.Primary().DumpMap())
		finalizeTx := false
		for k, raw := range b.Txs {
			ti := DecodeTx(raw)
			if k < len(res[0].Txs) {
				ti.Code, ti.Log = res[0].Txs[k].Code, res[0].Txs[k].Log
			}
			if seen[ti.Hash] {
				ti.Repeat = true
			}
			seen[ti.Hash] = true
			if ti.Kind == "PROPOSAL_FINALIZE" && ti.Code == 0 {
				finalizeTx = true
			}
			if ti.Kind == "PROPOSAL_CREATE" && ti.Code == 0 {
				if f, v, ok := stakingUpdateOf(raw); ok {
					proposed[f] = append(proposed[f], v)
				}
			}
			c.Txs = append(c.Txs, ti)
		}
		base := prev.Staking
		c.TxOpts = []StakingOpts{base}
		if tr.Params.Frankenstein != 0 && tr.Params.Frankenstein == b.Height {
			base = ForkOpts(base)
			c.TxOpts = []StakingOpts{base}
		}
		c.EndOpts = []StakingOpts{base}
		if finalizeTx && !c.Cur.Staking.Equal(base) {
			// a delivered PROPOSAL_FINALIZE changed the options inside the block; the block-end hook may have finalised
			// another proposal after the election: what was in force at a given moment is the old or the new value of
			// each option, in any combination
			for _, o := range mixtures(base, c.Cur.Staking, proposed) {
				c.EndOpts = append(c.EndOpts, o)
				c.TxOpts = append(c.TxOpts, o)
			}
		}
		if traceOn {
			traceBlock(c)
		}
		for _, o := range obs {
			if v := o.Block(c); v != nil {
				if traceOn {
					fmt.Fprintf(run.Quiet(), "VIOLATION %s/%s: %s\n", v.Oracle, v.Class, v.Msg)
				}
				return v
			}
		}
		prev = c.Cur
	}
	return nil
}
