// Package stk holds what the staking / evidence properties (C10, C11, C19) share: a decoder of
// the committed state dump (independent of the repository's stores), a transaction decoder, the
// reference election, a single-replica history executor with per-block observers and a focused
// history generator that reaches deep staking / evidence states in short histories.
package stk

import (
	"encoding/binary"
	"encoding/json"
	"fmt"
	"math/big"
	"sort"
	"strconv"
	"strings"
	"time"

	"github.com/Oneledger/protocol/data/evidence"
	"github.com/Oneledger/protocol/data/keys"
)

// evidence record status codes and request states (data/evidence)
const (
	StatusMissedVotes int8 = 1
	StatusByzantine   int8 = 2
	ReqVoting         int8 = 1
	ReqInnocent       int8 = 2
	ReqGuilty         int8 = 3
	VoteYes           int8 = 1
	VoteNo            int8 = 2
)

// Addr renders raw address bytes the way the application prints them ("0lt" + hex).
func Addr(raw []byte) string { return keys.Address(raw).String() }

// ValRec is a validator record v_<raw>.
type ValRec struct {
	Addr      string
	Raw       []byte
	StakeAddr string
	PubType   string
	PubData   []byte
	Power     int64
	Staking   *big.Int
	Name      string
}

// Frozen is a suspicious-validator record es__ssvk_<addr>.
type Frozen struct {
	Addr          string
	Status        int8
	FrozenHeight  int64
	FrozenAt      *time.Time
	ReleaseHeight int64
	ReleaseAt     *time.Time
}

// IsFrozen is the record's own meaning of "frozen": not released after the freeze.
func (f *Frozen) IsFrozen() bool {
	if f == nil {
		return false
	}
	if f.ReleaseAt == nil {
		return true
	}
	if f.FrozenAt == nil {
		return false
	}
	return !f.ReleaseAt.After(*f.FrozenAt)
}

// ValStatus is es__vss_<addr>.
type ValStatus struct {
	Active bool
	Height int64
}

type Vote struct {
	Addr   string
	Choice int8
}

// Request is an open allegation request es__ark_<id>.
type Request struct {
	ID       string
	Reporter string
	Accused  string
	Height   int64
	Status   int8
	Votes    []Vote
}

type StakingOpts struct {
	Min      *big.Int
	Top      int64
	Maturity int64
}

func (o StakingOpts) String() string {
	return fmt.Sprintf("{min %s top %d maturity %d}", o.Min, o.Top, o.Maturity)
}

func (o StakingOpts) Equal(p StakingOpts) bool {
	return o.Top == p.Top && o.Maturity == p.Maturity && o.Min.Cmp(p.Min) == 0
}

type MatureEntry struct {
	Deleg  string
	Amount *big.Int
}

type DelayedUnstake struct {
	Height int64
	Val    string
	Amount *big.Int
}

// View is the part of a committed state dump the staking / evidence oracles read.
type View struct {
	H        int64
	Vals     map[string]*ValRec
	Frozen   map[string]*Frozen
	Status   map[string]*ValStatus
	Reqs     map[string]*Request
	Tracker  map[string]bool
	Staking  StakingOpts
	Evidence evidence.Options
	Total    map[string]*big.Int            // st__t_<val>
	Locked   map[string]map[string]*big.Int // st__e_<val>_<deleg>
	DelegEff map[string]*big.Int            // st__d_e_<deleg>
	Bounded  map[string]*big.Int            // st__d_b_<deleg>
	Mature   map[int64][]MatureEntry        // st__m_<h>
	Purged   map[string]int64               // last purge height per validator
	Delayed  []DelayedUnstake               // purged_unstake_<h><raw>
	Bounty   *big.Int                       // OLT base units held by the bounty program
	Bal      map[string]*big.Int            // OLT balances (base units) by address
	Problems []string                       // records that did not parse
}

func jsonAmt(v []byte) (*big.Int, bool) {
	var s string
	if err := json.Unmarshal(v, &s); err != nil {
		return nil, false
	}
	b, ok := new(big.Int).SetString(s, 10)
	return b, ok
}

func optKey(d map[string][]byte, luhName, optName string) []byte {
	luhB := d["g_"+luhName+"_defaultOptions"]
	if len(luhB) != 8 {
		return nil
	}
	luh := int64(binary.LittleEndian.Uint64(luhB))
	return d["g_"+string(rune(luh))+"_"+optName]
}

var bountyKey = "b_" + Addr([]byte("oneledgerBountyProgram")) + "_OLT"

// Decode builds a View from a dump. Unknown or unparsable records of the prefixes it owns are
// listed in Problems (an oracle that depends on them must not be silently blind).
func Decode(h int64, d map[string][]byte) *View {
	v := &View{H: h, Vals: map[string]*ValRec{}, Frozen: map[string]*Frozen{}, Status: map[string]*ValStatus{}, Reqs: map[string]*Request{},
		Tracker: map[string]bool{}, Total: map[string]*big.Int{}, Locked: map[string]map[string]*big.Int{}, DelegEff: map[string]*big.Int{},
		Bounded: map[string]*big.Int{}, Mature: map[int64][]MatureEntry{}, Purged: map[string]int64{}, Bounty: big.NewInt(0), Bal: map[string]*big.Int{}}
	bad := func(k string, err interface{}) { v.Problems = append(v.Problems, fmt.Sprintf("%q: %v", k, err)) }
	for k, val := range d {
		switch {
		case strings.HasPrefix(k, "v_"):
			var r struct {
				Address      keys.Address `json:"address"`
				StakeAddress keys.Address `json:"stakeAddress"`
				PubKey       struct {
					KeyType string `json:"keyType"`
					Data    []byte `json:"data"`
				} `json:"pubKey"`
				Power   int64  `json:"power"`
				Name    string `json:"name"`
				Staking string `json:"staking"`
			}
			if err := json.Unmarshal(val, &r); err != nil {
				bad(k, err)
				continue
			}
			st, ok := new(big.Int).SetString(r.Staking, 10)
			if !ok {
				bad(k, "staking amount")
				continue
			}
			raw := []byte(k[2:])
			v.Vals[Addr(raw)] = &ValRec{Addr: Addr(raw), Raw: raw, StakeAddr: r.StakeAddress.String(), PubType: r.PubKey.KeyType, PubData: r.PubKey.Data,
				Power: r.Power, Staking: st, Name: r.Name}
			if r.Address.String() != Addr(raw) {
				bad(k, "record address "+r.Address.String()+" differs from its key")
			}
		case strings.HasPrefix(k, "es__ssvk_"):
			var r struct {
				Address       keys.Address
				Status        int8
				FrozenHeight  int64
				FrozenAt      *time.Time
				ReleaseHeight int64
				ReleaseAt     *time.Time
			}
			if err := json.Unmarshal(val, &r); err != nil {
				bad(k, err)
				continue
			}
			a := k[len("es__ssvk_"):]
			v.Frozen[a] = &Frozen{Addr: a, Status: r.Status, FrozenHeight: r.FrozenHeight, FrozenAt: r.FrozenAt, ReleaseHeight: r.ReleaseHeight, ReleaseAt: r.ReleaseAt}
		case strings.HasPrefix(k, "es__vss_"):
			var r struct {
				IsActive bool  `json:"isActive"`
				Height   int64 `json:"height"`
			}
			if err := json.Unmarshal(val, &r); err != nil {
				bad(k, err)
				continue
			}
			v.Status[k[len("es__vss_"):]] = &ValStatus{Active: r.IsActive, Height: r.Height}
		case strings.HasPrefix(k, "es__ark_"):
			var r struct {
				ID               string
				ReporterAddress  keys.Address
				MaliciousAddress keys.Address
				BlockHeight      int64
				Status           int8
				Votes            []struct {
					Address keys.Address
					Choice  int8
				}
			}
			if err := json.Unmarshal(val, &r); err != nil {
				bad(k, err)
				continue
			}
			q := &Request{ID: k[len("es__ark_"):], Reporter: r.ReporterAddress.String(), Accused: r.MaliciousAddress.String(), Height: r.BlockHeight, Status: r.Status}
			for _, x := range r.Votes {
				q.Votes = append(q.Votes, Vote{Addr: x.Address.String(), Choice: x.Choice})
			}
			v.Reqs[q.ID] = q
		case k == "es__atark":
			var r struct{ Requests map[string]bool }
			if err := json.Unmarshal(val, &r); err != nil {
				bad(k, err)
				continue
			}
			for id, on := range r.Requests {
				if on {
					v.Tracker[id] = true
				}
			}
		case strings.HasPrefix(k, "st__t_"):
			if a, ok := jsonAmt(val); ok {
				v.Total[k[len("st__t_"):]] = a
			} else {
				bad(k, "amount")
			}
		case strings.HasPrefix(k, "st__e_"):
			parts := strings.Split(k[len("st__e_"):], "_")
			a, ok := jsonAmt(val)
			if len(parts) != 2 || !ok {
				bad(k, "key or amount")
				continue
			}
			if v.Locked[parts[0]] == nil {
				v.Locked[parts[0]] = map[string]*big.Int{}
			}
			v.Locked[parts[0]][parts[1]] = a
		case strings.HasPrefix(k, "st__d_e_"):
			if a, ok := jsonAmt(val); ok {
				v.DelegEff[k[len("st__d_e_"):]] = a
			} else {
				bad(k, "amount")
			}
		case strings.HasPrefix(k, "st__d_b_"):
			if a, ok := jsonAmt(val); ok {
				v.Bounded[k[len("st__d_b_"):]] = a
			} else {
				bad(k, "amount")
			}
		case strings.HasPrefix(k, "st__m_"):
			hh, err := strconv.ParseInt(k[len("st__m_"):], 10, 64)
			var r struct {
				Data []struct {
					Address keys.Address
					Amount  string
				}
			}
			if err != nil || json.Unmarshal(val, &r) != nil {
				bad(k, "mature list")
				continue
			}
			for _, e := range r.Data {
				a, ok := new(big.Int).SetString(e.Amount, 10)
				if !ok {
					bad(k, "mature amount")
					continue
				}
				v.Mature[hh] = append(v.Mature[hh], MatureEntry{Deleg: e.Address.String(), Amount: a})
			}
		case strings.HasPrefix(k, "purged_unstake_"):
			rest := k[len("purged_unstake_"):]
			if len(rest) <= 20 {
				bad(k, "short key")
				continue
			}
			hh, err := strconv.ParseInt(rest[:len(rest)-20], 10, 64)
			var r struct {
				Address keys.Address
				Amount  string
			}
			if err != nil || json.Unmarshal(val, &r) != nil {
				bad(k, "delayed unstake")
				continue
			}
			a, _ := new(big.Int).SetString(r.Amount, 10)
			v.Delayed = append(v.Delayed, DelayedUnstake{Height: hh, Val: Addr([]byte(rest[len(rest)-20:])), Amount: a})
		case strings.HasPrefix(k, "purged_"):
			var hh int64
			if err := json.Unmarshal(val, &hh); err != nil {
				bad(k, err)
				continue
			}
			v.Purged[Addr([]byte(k[len("purged_"):]))] = hh
		case strings.HasPrefix(k, "b_") && strings.HasSuffix(k, "_OLT"):
			if a, ok := jsonAmt(val); ok {
				v.Bal[k[2:len(k)-4]] = a
				if k == bountyKey {
					v.Bounty = a
				}
			}
		}
	}
	sort.Slice(v.Delayed, func(i, j int) bool {
		if v.Delayed[i].Height != v.Delayed[j].Height {
			return v.Delayed[i].Height < v.Delayed[j].Height
		}
		return v.Delayed[i].Val < v.Delayed[j].Val
	})
	so := optKey(d, "stakingOptions", "stakingopt")
	var sr struct {
		Min      string `json:"minSelfDelegationAmount"`
		Top      int64  `json:"topValidatorCount"`
		Maturity int64  `json:"maturityTime"`
	}
	if err := json.Unmarshal(so, &sr); err != nil {
		bad("staking options", err)
		v.Staking = StakingOpts{Min: big.NewInt(0)}
	} else {
		m, _ := new(big.Int).SetString(sr.Min, 10)
		if m == nil {
			m = big.NewInt(0)
			bad("staking options", "min self delegation")
		}
		v.Staking = StakingOpts{Min: m, Top: sr.Top, Maturity: sr.Maturity}
	}
	if err := json.Unmarshal(optKey(d, "evidenceOptions", "evidenceopt"), &v.Evidence); err != nil {
		bad("evidence options", err)
	}
	sort.Strings(v.Problems)
	return v
}

// IsFrozen reports whether the view holds a frozen (not released) record for the address.
func (v *View) IsFrozen(addr string) bool { return v.Frozen[addr].IsFrozen() }

// LockedSum returns the sum of the delegators' locked amounts of a validator.
func (v *View) LockedSum(val string) *big.Int {
	s := big.NewInt(0)
	for _, a := range v.Locked[val] {
		s.Add(s, a)
	}
	return s
}

// SortedVals returns the validator records sorted by address.
func (v *View) SortedVals() []*ValRec {
	out := make([]*ValRec, 0, len(v.Vals))
	for _, r := range v.Vals {
		out = append(out, r)
	}
	sort.Slice(out, func(i, j int) bool { return out[i].Addr < out[j].Addr })
	return out
}

// ActiveStatus returns the addresses whose election status record says active (sorted).
func (v *View) ActiveStatus() []string {
	var out []string
	for a, s := range v.Status {
		if s.Active {
			out = append(out, a)
		}
	}
	sort.Strings(out)
	return out
}

func amt(m map[string]*big.Int, k string) *big.Int {
	if a := m[k]; a != nil {
		return a
	}
	return big.NewInt(0)
}

// TotalOf / BoundedOf return zero for absent records.
func (v *View) TotalOf(val string) *big.Int     { return amt(v.Total, val) }
func (v *View) BoundedOf(deleg string) *big.Int { return amt(v.Bounded, deleg) }
func (v *View) LockedOf(val, deleg string) *big.Int {
	if m := v.Locked[val]; m != nil {
		return amt(m, deleg)
	}
	return big.NewInt(0)
}
