package stk

import (
	"fmt"
	"math/big"
	"os"
	"strings"
	"testing"

	"verif/sim"
	"verif/txgen"
)

func TestExplore(t *testing.T) {
	if os.Getenv("STK_EXPLORE") == "" {
		t.Skip()
	}
	out := sim.Quiet()
	p := sim.DefaultParams()
	p.Evidence.BlockVotesDiff = 4
	p.Evidence.MinVotesRequired = 1
	g := sim.BuildGenesis(p)
	c := sim.NewChain(g)
	r, err := sim.NewReplica("n0", g, c, sim.Role{ValIdx: 0, IsWitness: true}, "")
	if err != nil {
		t.Fatal(err)
	}
	defer r.Close()
	if err := c.SetInitialValidators(r.InitChain(c)); err != nil {
		t.Fatal(err)
	}
	fmt.Fprintf(out, "version after init: %d\n", r.App.Context.Storage().Chainstate.Version)
	fee := txgen.DefaultFee()
	u := g.U
	n := 0
	memo := func() string { n++; return fmt.Sprintf("m%d", n) }
	run := func(txs ...txgen.Tx) {
		var bs [][]byte
		for _, tx := range txs {
			bs = append(bs, tx.Bytes)
		}
		b := c.MakeBlock(sim.BlockSpec{GapSecs: 5, Txs: bs})
		br := r.RunBlock(b)
		for i, tr := range br.Txs {
			fmt.Fprintf(out, "h=%d deliver %-20s code=%d log=%.160s\n", b.Height, txs[i].Kind, tr.Code, tr.Log)
		}
		fmt.Fprintf(out, "h=%d version=%d updates=%s vals=%d\n", b.Height, r.App.Context.Storage().Chainstate.Version, sim.FmtUpdates(br.Updates), c.Vals.Size())
		if err := c.Advance(br.AppHash, br.Updates); err != nil {
			fmt.Fprintf(out, "ADVANCE ERR %v\n", err)
		}
	}
	v0, v1, v3, v4 := u.Vals[0], u.Vals[1], u.Vals[3], u.Vals[4]
	run()
	run(txgen.Stake(v4, v4.Stake.Addr, txgen.Amt("OLT", big.NewInt(3000005)), fee, memo()),
		txgen.Unstake(v0.Key.Addr, v0.Stake.Addr, txgen.Amt("OLT", big.NewInt(10)), fee, memo(), v0.Stake, v0.Key))
	run(txgen.Allegation(v0.Key, "req1", v0.Key.Addr, v3.Key.Addr, 2, "proof", fee, memo()))
	run(txgen.AllegationVote(v0.Key, "req1", v0.Key.Addr, 1, fee, memo()), txgen.AllegationVote(v1.Key, "req1", v1.Key.Addr, 1, fee, memo()))
	run()
	run()
	run(txgen.Release(v3.Key, v3.Key.Addr, fee, memo()))
	run()
	for _, kv := range r.Dump() {
		k := kv.K
		if strings.HasPrefix(k, "v_") || strings.HasPrefix(k, "es_") || strings.HasPrefix(k, "st_") || strings.HasPrefix(k, "purged") || strings.HasPrefix(k, "g_") && (strings.Contains(k, "staking") || strings.Contains(k, "evidence")) {
			v := string(kv.V)
			if len(v) > 400 {
				v = v[:400] + "..."
			}
			fmt.Fprintf(out, "KEY %q = %q\n", k, v)
		}
	}
}
