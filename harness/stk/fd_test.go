package stk

import (
	"fmt"
	"os"
	"testing"

	"verif/hist"
	"verif/sim"
)

func TestFDLeak(t *testing.T) {
	if os.Getenv("STK_EXPLORE") == "" {
		t.Skip()
	}
	out := sim.Quiet()
	count := func() map[string]int {
		m := map[string]int{}
		es, _ := os.ReadDir("/proc/self/fd")
		for _, e := range es {
			l, _ := os.Readlink("/proc/self/fd/" + e.Name())
			m[l]++
		}
		return m
	}
	p := sim.DefaultParams()
	for i := 0; i < 6; i++ {
		w, err := hist.NewWorld(p, hist.Roles(p, 1))
		if err != nil {
			t.Fatal(err)
		}
		w.Init()
		for k := 0; k < 15; k++ {
			w.RunBlock(sim.BlockSpec{GapSecs: 5})
			_ = w.Primary().DumpMap()
		}
		w.Close()
		m := count()
		es, _ := os.ReadDir("/proc/self/fd")
		fmt.Fprintf(out, "after %d: %d fds (%d distinct)\n", i, len(es), len(m))
		if i == 5 {
			for k, v := range m {
				fmt.Fprintf(out, "  %d %s\n", v, k)
			}
		}
	}
}
