package stk

import (
	"math/big"
	"sort"
)

// Eligible recomputes, from the records of the previous block, who may be elected:
// own stake of at least the minimum self delegation and no frozen (not released) evidence record.
// The result is sorted by power, highest first (ties by address, which no oracle relies on).
func Eligible(prev *View, opts StakingOpts) []*ValRec {
	var out []*ValRec
	for _, r := range prev.Vals {
		if big.NewInt(r.Power).Cmp(opts.Min) < 0 {
			continue
		}
		if prev.IsFrozen(r.Addr) {
			continue
		}
		out = append(out, r)
	}
	sort.Slice(out, func(i, j int) bool {
		if out[i].Power != out[j].Power {
			return out[i].Power > out[j].Power
		}
		return out[i].Addr < out[j].Addr
	})
	return out
}

// FlaggedAt returns the validators that the application flagged for missed votes while
// beginning block h (their frozen record carries that height and the missed-votes status):
// they were not frozen in the previous block's records but are not electable in block h.
func FlaggedAt(cur *View, h int64) map[string]bool {
	out := map[string]bool{}
	for a, f := range cur.Frozen {
		if f.FrozenHeight == h && f.Status == StatusMissedVotes {
			out[a] = true
		}
	}
	return out
}

// MaybeFlaggedAt returns the validators whose frozen record carries height h with the status of
// a guilty verdict: the verdict of the block end overwrites a missed-votes record created while
// the same block began, so these validators may or may not have been electable in block h.
func MaybeFlaggedAt(cur *View, h int64) map[string]bool {
	out := map[string]bool{}
	for a, f := range cur.Frozen {
		if f.FrozenHeight == h && f.Status != StatusMissedVotes {
			out[a] = true
		}
	}
	return out
}

// ElectedCounts returns the possible seat counts of the reference election of block h: without
// and with the validators whose flagging at the block's begin cannot be told from the dump.
func ElectedCounts(prev, cur *View, opts StakingOpts, h int64) []int {
	fl, maybe := FlaggedAt(cur, h), MaybeFlaggedAt(cur, h)
	n, m := 0, 0
	for _, r := range Eligible(prev, opts) {
		if fl[r.Addr] {
			continue
		}
		n++
		if !maybe[r.Addr] {
			m++
		}
	}
	if int64(n) > opts.Top {
		n = int(opts.Top)
	}
	if int64(m) > opts.Top {
		m = int(opts.Top)
	}
	var out []int
	for k := m; k <= n; k++ {
		out = append(out, k)
	}
	return out
}

// ElectedCount is how many validators the reference election seats: the top count or
// all eligible candidates that are not flagged, whichever is smaller.
func ElectedCount(prev, cur *View, opts StakingOpts, h int64) int {
	fl := FlaggedAt(cur, h)
	n := 0
	for _, r := range Eligible(prev, opts) {
		if !fl[r.Addr] {
			n++
		}
	}
	if int64(n) > opts.Top {
		n = int(opts.Top)
	}
	return n
}
