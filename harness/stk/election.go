package stk

import (
	"math/big"
	"sort"
)

// Eligible recomputes, from the records of the previous block, who may be elected:
// own stake of at least the minimum self delegation and no frozen (not released) evidence record.
// The result is sorted by power, highest first (ties by address, which no oracle relies on).
func Eligible(prev *View, opts StakingOpts) []*ValRec {
	var out []*ValRec
	for _, r := range prev.Vals {
		if big.NewInt(r.Power).Cmp(opts.Min) < 0 {
			continue
		}
		if prev.IsFrozen(r.Addr) {
			continue
		}
		out = append(out, r)
	}
	sort.Slice(out, func(i, j int) bool {
		if out[i].Power != out[j].Power {
			return out[i].Power > out[j].Power
		}
		return out[i].Addr < out[j].Addr
	})
	return out
}

// FlaggedAt returns the validators that the application flagged for missed votes while
// beginning block h: they were not frozen in the previous block's records but are not electable
// in block h. Their frozen record carries that height and the missed-votes status; when a guilty
// verdict of the same block end overwrote the record, the election status that turned inactive in
// block h tells that the validator was not elected (a validator elected in block h keeps an
// active status until the next block end).
func FlaggedAt(cur *View, h int64) map[string]bool {
	out := map[string]bool{}
	for a, f := range cur.Frozen {
		if f.FrozenHeight != h {
			continue
		}
		st := cur.Status[a]
		if f.Status == StatusMissedVotes || (st != nil && !st.Active && st.Height == h) {
			out[a] = true
		}
	}
	return out
}

// MaybeFlaggedAt returns the validators frozen by a verdict of block h that have no election
// status record at all, for which the dump cannot tell whether they were flagged at the begin.
func MaybeFlaggedAt(cur *View, h int64) map[string]bool {
	out := map[string]bool{}
	for a, f := range cur.Frozen {
		if f.FrozenHeight == h && f.Status != StatusMissedVotes && cur.Status[a] == nil {
			out[a] = true
		}
	}
	return out
}

// ElectedCounts returns the possible seat counts of the reference election of block h: without
// and with the validators whose flagging at the block's begin cannot be told from the dump.
func ElectedCounts(prev, cur *View, opts StakingOpts, h int64) []int {
	fl, maybe := FlaggedAt(cur, h), MaybeFlaggedAt(cur, h)
	n, m := 0, 0
	for _, r := range Eligible(prev, opts) {
		if fl[r.Addr] {
			continue
		}
		n++
		if !maybe[r.Addr] {
			m++
		}
	}
	if int64(n) > opts.Top {
		n = int(opts.Top)
	}
	if int64(m) > opts.Top {
		m = int(opts.Top)
	}
	var out []int
	for k := m; k <= n; k++ {
		out = append(out, k)
	}
	return out
}

// ElectedCount is how many validators the reference election seats: the top count or
// all eligible candidates that are not flagged, whichever is smaller.
func ElectedCount(prev, cur *View, opts StakingOpts, h int64) int {
	fl := FlaggedAt(cur, h)
	n := 0
	for _, r := range Eligible(prev, opts) {
		if !fl[r.Addr] {
			n++
		}
	}
	if int64(n) > opts.Top {
		n = int(opts.Top)
	}
	return n
}
