package stk

import (
	"crypto/sha256"
	"encoding/hex"
	"encoding/json"
	"math/big"

	"github.com/Oneledger/protocol/action"
	aev "github.com/Oneledger/protocol/action/evidence"
	astake "github.com/Oneledger/protocol/action/staking"
	"github.com/Oneledger/protocol/serialize"
)

// TxInfo is what the monitors need to know about a delivered transaction; it is decoded from
// the transaction bytes so that a replay file needs nothing but the bytes.
type TxInfo struct {
	Kind     string
	Hash     string
	Val      string   // validator address named by a staking / release transaction
	Deleg    string   // stake (delegator) address
	Amount   *big.Int // whole OLT for staking kinds
	Currency string
	PubType  string // STAKE: type of the consensus key carried by the message
	PubData  []byte
	ReqID    string
	Reporter string
	Accused  string
	Voter    string
	Choice   int8
	Height   int64
	Signers  []string // addresses derived from the attached public keys

	Code   uint32 // filled by the executor
	Log    string
	Repeat bool // same bytes were already delivered earlier in this history (cached response)
}

func (t TxInfo) OK() bool { return t.Code == 0 && !t.Repeat }

// DecodeTx never fails: an undecodable transaction has Kind "UNDECODABLE".
func DecodeTx(b []byte) TxInfo {
	h := sha256.Sum256(b)
	out := TxInfo{Kind: "UNDECODABLE", Hash: hex.EncodeToString(h[:8])}
	stx := &action.SignedTx{}
	if err := serialize.GetSerializer(serialize.NETWORK).Deserialize(b, stx); err != nil {
		return out
	}
	out.Kind = stx.Type.String()
	for _, s := range stx.Signatures {
		if ph, err := s.Signer.GetHandler(); err == nil {
			out.Signers = append(out.Signers, Addr(ph.Address()))
		}
	}
	switch stx.Type {
	case action.STAKE:
		m := astake.Stake{}
		if json.Unmarshal(stx.Data, &m) == nil {
			out.Val, out.Deleg = m.ValidatorAddress.String(), m.StakeAddress.String()
			out.Amount, out.Currency = new(big.Int).Set(m.Stake.Value.BigInt()), m.Stake.Currency
			out.PubType, out.PubData = m.ValidatorPubKey.KeyType.String(), m.ValidatorPubKey.Data
		}
	case action.UNSTAKE:
		m := astake.Unstake{}
		if json.Unmarshal(stx.Data, &m) == nil {
			out.Val, out.Deleg = m.ValidatorAddress.String(), m.StakeAddress.String()
			out.Amount, out.Currency = new(big.Int).Set(m.Stake.Value.BigInt()), m.Stake.Currency
		}
	case action.WITHDRAW:
		m := astake.Withdraw{}
		if json.Unmarshal(stx.Data, &m) == nil {
			out.Val, out.Deleg = m.ValidatorAddress.String(), m.StakeAddress.String()
			out.Amount, out.Currency = new(big.Int).Set(m.Stake.Value.BigInt()), m.Stake.Currency
		}
	case action.ALLEGATION:
		m := aev.Allegation{}
		if json.Unmarshal(stx.Data, &m) == nil {
			out.ReqID, out.Reporter, out.Accused, out.Height = m.RequestID, m.ValidatorAddress.String(), m.MaliciousAddress.String(), m.BlockHeight
		}
	case action.ALLEGATION_VOTE:
		m := aev.AllegationVote{}
		if json.Unmarshal(stx.Data, &m) == nil {
			out.ReqID, out.Voter, out.Choice = m.RequestID, m.Address.String(), m.Choice
		}
	case action.RELEASE:
		m := aev.Release{}
		if json.Unmarshal(stx.Data, &m) == nil {
			out.Val = m.ValidatorAddress.String()
		}
	}
	if out.Amount == nil {
		out.Amount = big.NewInt(0)
	}
	return out
}
